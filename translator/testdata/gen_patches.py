#!/usr/bin/env python3
"""Regenerates testdata/harmless/*.patch and testdata/breaking/*.patch from the rewrite
descriptions below, against the pristine tree given as argv[1] (default /repo).

Every rewrite is a list of edits of the form
    sub(file, old, new[, count])      exact text replacement (asserts `old` occurs `count` times)
    infunc(file, header, old, new)    replace every `old` by `new` inside the function whose
                                      declaration starts with `header`
    newfile(file, content)            create a file
The patches are plain `diff -u` output with a/ b/ prefixes (apply with `patch -p1`).
selftest.sh only needs the .patch files; this script is kept so that the suite can be
regenerated when the pinned tree moves.
"""
import difflib, os, re, subprocess, sys

REPO = sys.argv[1] if len(sys.argv) > 1 else "/repo"
HERE = os.path.dirname(os.path.abspath(__file__))


def read_pristine(rel):
    """the COMMITTED version of a file (the working tree may carry somebody's experiment)"""
    try:
        return subprocess.run(["git", "-C", REPO, "show", "HEAD:" + rel], check=True, capture_output=True, text=True).stdout
    except Exception:
        with open(os.path.join(REPO, rel)) as f:
            return f.read()


class Tree:
    def __init__(self):
        self.files = {}   # rel -> new content
        self.orig = {}    # rel -> original content ('' for new files)

    def read(self, rel):
        if rel not in self.files:
            s = read_pristine(rel)
            self.files[rel] = s
            self.orig[rel] = s
        return self.files[rel]

    def sub(self, rel, old, new, count=1):
        s = self.read(rel)
        n = s.count(old)
        assert n == count, "%s: %r occurs %d times, expected %d" % (rel, old[:60], n, count)
        self.files[rel] = s.replace(old, new)

    def func_span(self, rel, header):
        s = self.read(rel)
        i = s.index(header)
        j = s.index("\n}\n", i) + 3
        return i, j

    def infunc(self, rel, header, old, new, regex=False):
        s = self.read(rel)
        i, j = self.func_span(rel, header)
        body = s[i:j]
        if regex:
            nb, n = re.subn(old, new, body)
        else:
            n = body.count(old)
            nb = body.replace(old, new)
        assert n > 0, "%s: %r not found in %s" % (rel, old, header)
        self.files[rel] = s[:i] + nb + s[j:]

    def cut_func(self, rel, header):
        """removes a whole function (with the blank line after it) and returns its text"""
        s = self.read(rel)
        i, j = self.func_span(rel, header)
        text = s[i:j]
        if s[j:j + 1] == "\n":
            j += 1
        self.files[rel] = s[:i] + s[j:]
        return text

    def append(self, rel, text):
        self.files[rel] = self.read(rel) + text

    def newfile(self, rel, content):
        assert not os.path.exists(os.path.join(REPO, rel)), rel
        self.files[rel] = content
        self.orig[rel] = ""

    def patch(self):
        out = []
        for rel in sorted(self.files):
            a, b = self.orig[rel], self.files[rel]
            if a == b:
                continue
            fa = "a/" + rel if a else "/dev/null"
            out += difflib.unified_diff(a.splitlines(True), b.splitlines(True), fa, "b/" + rel)
        text = "".join(out)
        assert text, "empty patch"
        return text


REWRITES = {"harmless": [], "breaking": []}


def rewrite(kind, name, desc):
    def deco(f):
        REWRITES[kind].append((name, desc, f))
        return f
    return deco


def harmless(name, desc):
    return rewrite("harmless", name, desc)


def breaking(name, desc):
    return rewrite("breaking", name, desc)


RECV = "pkg/api/utils/object_receiver.go"
INS = "pkg/ingest/inserter.go"
TXN = "pkg/transaction/transaction.go"
PRUNE = "pkg/prune/prune.go"
SORTER = "pkg/sorter/sorter.go"
STRLIST = "pkg/objects/str_list.go"
PACK = "pkg/encoding/packfile/packfile.go"
SQLSTORE = "pkg/ref/sql/store.go"
TABLE = "pkg/objects/table.go"
COMMIT = "pkg/objects/commit.go"
REFUTILS = "pkg/ref/utils.go"
FETCH = "cmd/wrgl/fetch/root.go"

# ============================================================================ harmless


@harmless("h01-alias-import-objects-receiver", "object_receiver.go imports pkg/objects as objs")
def _(t):
    t.sub(RECV, '\t"github.com/wrgl/wrgl/pkg/objects"\n', '\tobjs "github.com/wrgl/wrgl/pkg/objects"\n')
    t.files[RECV] = t.read(RECV).replace("objects.", "objs.")


@harmless("h02-alias-import-ingest-receiver", "object_receiver.go imports pkg/ingest as ing")
def _(t):
    t.sub(RECV, '\t"github.com/wrgl/wrgl/pkg/ingest"\n', '\ting "github.com/wrgl/wrgl/pkg/ingest"\n')
    t.files[RECV] = t.read(RECV).replace("ingest.", "ing.")


@harmless("h03-alias-import-io-packfile", "packfile.go imports io as stdio")
def _(t):
    t.sub(PACK, '\t"io"\n', '\tstdio "io"\n')
    t.files[PACK] = re.sub(r"\bio\.", "stdio.", t.read(PACK))


@harmless("h04-alias-import-ref-objects-transaction", "transaction.go imports pkg/ref as refs and pkg/objects as obj")
def _(t):
    t.sub(TXN, '\t"github.com/wrgl/wrgl/pkg/ref"\n', '\trefs "github.com/wrgl/wrgl/pkg/ref"\n')
    t.sub(TXN, '\t"github.com/wrgl/wrgl/pkg/objects"\n', '\tobj "github.com/wrgl/wrgl/pkg/objects"\n')
    s = t.read(TXN)
    s = re.sub(r"\bref\.", "refs.", s)
    s = re.sub(r"\bobjects\.", "obj.", s)
    t.files[TXN] = s


@harmless("h05-rename-receiver-inserter", "receiver of Inserter.insertBlock / ingestTableFromBlocks renamed i -> ins")
def _(t):
    for h in ["func (i *Inserter) insertBlock()", "func (i *Inserter) ingestTableFromBlocks("]:
        t.infunc(INS, h, r"\bi\b", "ins", regex=True)


@harmless("h06-rename-mutex-field", "Inserter.mutex renamed to mu")
def _(t):
    t.sub(INS, "\tmutex       sync.Mutex\n", "\tmu          sync.Mutex\n")
    t.sub(INS, "i.mutex.", "i.mu.", 2)


@harmless("h07-rename-waitgroup-field", "Inserter.wg renamed to workers")
def _(t):
    t.sub(INS, "\twg          sync.WaitGroup\n", "\tworkers     sync.WaitGroup\n")
    t.sub(INS, "i.wg.", "i.workers.", 3)


@harmless("h08-rename-shared-fields", "Inserter.rowsCount / asyncBlocks renamed")
def _(t):
    s = t.read(INS)
    s = s.replace("asyncBlocks []asyncBlock", "doneBlocks  []asyncBlock").replace("rowsCount   uint32", "nRows       uint32")
    s = s.replace(".asyncBlocks", ".doneBlocks").replace(".rowsCount", ".nRows")
    t.files[INS] = s


@harmless("h09-range-to-index-loop-prune", "prune: `for i, sum := range allBlockKeys` written as an index loop")
def _(t):
    t.sub(PRUNE, "\t\tfor i, sum := range allBlockKeys {\n", "\t\tfor i := 0; i < len(allBlockKeys); i++ {\n\t\t\tsum := allBlockKeys[i]\n")


@harmless("h10-index-loop-commit-delete", "prune: the commit deletion loop indexes the ordered slice")
def _(t):
    t.sub(PRUNE, "\t\tfor _, sum := range childrenFirst(db, commitsToRemove) {\n\t\t\terr = objects.DeleteCommit(db, sum)\n",
          "\t\tordered := childrenFirst(db, commitsToRemove)\n\t\tfor k := 0; k < len(ordered); k++ {\n\t\t\terr = objects.DeleteCommit(db, ordered[k])\n")


@harmless("h11-if-init-to-separate-addrow", "SortFile: `if err = s.AddRow(row); err != nil` split into assignment + if")
def _(t):
    t.sub(SORTER, "\t\tif err = s.AddRow(row); err != nil {\n\t\t\treturn\n\t\t}\n", "\t\terr = s.AddRow(row)\n\t\tif err != nil {\n\t\t\treturn\n\t\t}\n")


@harmless("h12-if-init-to-separate-receiver", "saveTable: IndexTable / ProfileTable errors assigned first, tested after")
def _(t):
    t.sub(RECV, "\tif err = ingest.IndexTable(r.db, sum, tbl, r.logger.V(1)); err != nil {\n", "\terr = ingest.IndexTable(r.db, sum, tbl, r.logger.V(1))\n\tif err != nil {\n")
    t.sub(RECV, "\tif err = ingest.ProfileTable(r.db, sum, tbl); err != nil {\n", "\terr = ingest.ProfileTable(r.db, sum, tbl)\n\tif err != nil {\n")


@harmless("h13-separate-to-if-init-ingest", "ingestTableFromBlocks: `err = SaveTableIndex(..); if err != nil` folded into if-init")
def _(t):
    t.sub(INS, "\terr = objects.SaveTableIndex(i.db, sum, buf.Bytes())\n\tif err != nil {\n", "\tif err = objects.SaveTableIndex(i.db, sum, buf.Bytes()); err != nil {\n")


@harmless("h14-extract-helper-receiver-savetable", "saveTable: the objects.SaveTable call moved into r.persistTable")
def _(t):
    t.sub(RECV, "\tsum, err = objects.SaveTable(r.db, b)\n", "\tsum, err = r.persistTable(b)\n")
    t.append(RECV, "\nfunc (r *ObjectReceiver) persistTable(b []byte) ([]byte, error) {\n\treturn objects.SaveTable(r.db, b)\n}\n")


@harmless("h15-extract-helper-index-profile", "saveTable: IndexTable + ProfileTable moved into r.deriveTable")
def _(t):
    t.sub(RECV, "\tif err = ingest.IndexTable(r.db, sum, tbl, r.logger.V(1)); err != nil {\n\t\treturn nil, err\n\t}\n\tif err = ingest.ProfileTable(r.db, sum, tbl); err != nil {\n\t\treturn nil, err\n\t}\n",
          "\tif err = r.deriveTable(sum, tbl); err != nil {\n\t\treturn nil, err\n\t}\n")
    t.append(RECV, "\nfunc (r *ObjectReceiver) deriveTable(sum []byte, tbl *objects.Table) error {\n\tif err := ingest.IndexTable(r.db, sum, tbl, r.logger.V(1)); err != nil {\n\t\treturn err\n\t}\n\treturn ingest.ProfileTable(r.db, sum, tbl)\n}\n")


@harmless("h16-split-ingest-function", "ingestTableFromBlocks split: everything after the workers finished moved to i.assembleTable")
def _(t):
    t.sub(INS, "\ttblIdx := i.sortBlocks()\n\ti.tbl.RowsCount = i.rowsCount\n", "\treturn i.assembleTable()\n}\n\nfunc (i *Inserter) assembleTable() ([]byte, error) {\n\tvar err error\n\ttblIdx := i.sortBlocks()\n\ti.tbl.RowsCount = i.rowsCount\n")


@harmless("h17-split-prunetables", "pruneTables: the two block marking loops moved into markKept")
def _(t):
    old = """				for _, blk := range ts.Blocks {
					j := sort.Search(len(allBlockKeys), func(i int) bool {
						return string(allBlockKeys[i]) >= string(blk)
					})
					if j < len(allBlockKeys) && string(allBlockKeys[j]) == string(blk) {
						keepBlock[j] = true
					}
				}
				for _, blk := range ts.BlockIndices {
					j := sort.Search(len(allBlockIdxKeys), func(i int) bool {
						return string(allBlockIdxKeys[i]) >= string(blk)
					})
					if j < len(allBlockIdxKeys) && string(allBlockIdxKeys[j]) == string(blk) {
						keepBlockIndex[j] = true
					}
				}
"""
    t.sub(PRUNE, old, "\t\t\t\tmarkKept(ts.Blocks, allBlockKeys, keepBlock)\n\t\t\t\tmarkKept2(ts.BlockIndices, allBlockIdxKeys, keepBlockIndex)\n")
    t.append(PRUNE, """
func markKept(sums, keys [][]byte, keep []bool) {
	for _, blk := range sums {
		j := sort.Search(len(keys), func(i int) bool {
			return string(keys[i]) >= string(blk)
		})
		if j < len(keys) && string(keys[j]) == string(blk) {
			keep[j] = true
		}
	}
}

func markKept2(sums, keys [][]byte, keep []bool) {
	for _, blk := range sums {
		j := sort.Search(len(keys), func(i int) bool {
			return string(keys[i]) >= string(blk)
		})
		if j < len(keys) && string(keys[j]) == string(blk) {
			keep[j] = true
		}
	}
}
""")


@harmless("h18-reorder-independent-statements", "independent statements reordered in transaction.Commit, ingestTableFromBlocks, saveTable")
def _(t):
    t.sub(TXN, "\tcommits = map[string]*objects.Commit{}\n\tbuf := bytes.NewBuffer(nil)\n", "\tbuf := bytes.NewBuffer(nil)\n\tcommits = map[string]*objects.Commit{}\n")
    t.sub(TXN, "\ttx.End = time.Now()\n\ttx.Status = ref.TSCommitted\n", "\ttx.Status = ref.TSCommitted\n\ttx.End = time.Now()\n")
    t.sub(INS, "\tcolumns = ensureColumnNamesAreNotEmpty(columns)\n\ti.tbl = objects.NewTable(columns, pk)\n\ti.errChan = make(chan error, i.numWorkers)\n",
          "\ti.errChan = make(chan error, i.numWorkers)\n\tcolumns = ensureColumnNamesAreNotEmpty(columns)\n\ti.tbl = objects.NewTable(columns, pk)\n")
    t.sub(RECV, "\tf := r.logDuration(\"save table\")\n\t_, tbl, err := objects.ReadTableFrom(bytes.NewReader(b))\n\tif err != nil {\n\t\treturn\n\t}\n",
          "\t_, tbl, err := objects.ReadTableFrom(bytes.NewReader(b))\n\tif err != nil {\n\t\treturn\n\t}\n\tf := r.logDuration(\"save table\")\n")


@harmless("h19-swap-index-and-profile-in-ingest", "ingestTableFromBlocks: table profile saved before table index (both before the table)")
def _(t):
    s = t.read(INS)
    a = s.index("\t// write and save table index\n")
    b = s.index("\t// write and save table profile\n")
    c = s.index("\t// save table\n")
    idx, prof = s[a:b], s[b:c]
    # buf is declared in the index part: declare it up front
    idx2 = idx.replace("\tbuf := bytes.NewBuffer(nil)\n", "\tbuf.Reset()\n")
    prof2 = prof.replace("\tbuf.Reset()\n", "\tbuf := bytes.NewBuffer(nil)\n", 1)
    t.files[INS] = s[:a] + prof2 + idx2 + s[c:]


@harmless("h20-move-const-blocksize", "const BlockSize moved from block.go to a new file consts.go")
def _(t):
    t.sub("pkg/objects/block.go", "const BlockSize = 255\n\n", "")
    t.newfile("pkg/objects/consts.go", "package objects\n\n// BlockSize is the number of rows of a full block\nconst BlockSize = 255\n")


@harmless("h21-move-functions-to-other-file", "childrenFirst and decodeObjTypeAndLen moved to new files of their packages")
def _(t):
    f = t.cut_func(PRUNE, "func childrenFirst(")
    t.newfile("pkg/prune/order.go", "package prune\n\nimport \"github.com/wrgl/wrgl/pkg/objects\"\n\n" + f)
    g = t.cut_func(PACK, "func decodeObjTypeAndLen(")
    t.newfile("pkg/encoding/packfile/header.go", "package packfile\n\nimport (\n\t\"errors\"\n\t\"fmt\"\n\t\"io\"\n)\n\n" + g)


@harmless("h22-swap-comparison-operands", "a < b written as b > a in prune guards, sortBlocks, string-list guards")
def _(t):
    t.sub(PRUNE, "if ind < len(commitKeys) && string(commitKeys[ind]) == string(sum) {", "if len(commitKeys) > ind && string(sum) == string(commitKeys[ind]) {")
    t.sub(PRUNE, "if i < len(tableHashes) && string(tableHashes[i]) == string(commit.Table) {", "if len(tableHashes) > i && string(commit.Table) == string(tableHashes[i]) {")
    t.sub(INS, "return o.asyncBlocks[i].Offset < o.asyncBlocks[j].Offset", "return o.asyncBlocks[j].Offset > o.asyncBlocks[i].Offset")
    t.sub(STRLIST, "\t\tif len(s) > MaxStrLen {\n", "\t\tif MaxStrLen < len(s) {\n")
    t.sub(SORTER, "\t\tif len(str) > objects.MaxStrLen {\n", "\t\tif objects.MaxStrLen < len(str) {\n")
    t.sub(TXN, "if tx.Status == ref.TSCommitted {", "if ref.TSCommitted == tx.Status {", 2)
    t.sub(SORTER, "\t\t\tif len(blk) == 255 {\n", "\t\t\tif 255 == len(blk) {\n")


@harmless("h23-add-logging", "logging / tracing calls added around the places the translator looks at")
def _(t):
    t.sub(TXN, "import (\n\t\"bytes\"\n", "import (\n\t\"bytes\"\n\t\"log\"\n")
    t.sub(TXN, "\tif tx.Status == ref.TSCommitted {\n\t\treturn nil, fmt.Errorf(", "\tif tx.Status == ref.TSCommitted {\n\t\tlog.Printf(\"transaction %s: TSCommitted, refusing\", id)\n\t\treturn nil, fmt.Errorf(")
    t.sub(TXN, "\tif tx.Status == ref.TSCommitted {\n\t\treturn fmt.Errorf(", "\tif tx.Status == ref.TSCommitted {\n\t\tlog.Printf(\"transaction %s: TSCommitted, refusing\", id)\n\t\treturn fmt.Errorf(")
    t.sub(TXN, "\tif err = ref.DeleteTransactionRefs(rs, id); err != nil {\n\t\treturn\n\t}\n\treturn rs.DeleteTransaction(id)\n", "\tlog.Printf(\"discarding %s\", id)\n\tif err = ref.DeleteTransactionRefs(rs, id); err != nil {\n\t\treturn\n\t}\n\tlog.Printf(\"INSERT INTO refs is not what this does\")\n\treturn rs.DeleteTransaction(id)\n")
    t.sub(PACK, "import (\n\t\"bytes\"\n", "import (\n\t\"bytes\"\n\t\"log\"\n")
    t.sub(PACK, "\tb := w.buf.Buffer(8)\n\tcopy(b[:4], []byte(\"PACK\"))\n", "\tb := w.buf.Buffer(8)\n\tlog.Println(\"writing packfile header\")\n\tcopy(b[:4], []byte(\"PACK\"))\n")
    t.sub(SORTER, "\t\tif len(str) > objects.MaxStrLen {\n\t\t\treturn fmt.Errorf(", "\t\tif len(str) > objects.MaxStrLen {\n\t\t\tfmt.Fprintln(os.Stderr, \"cell too long\")\n\t\t\treturn fmt.Errorf(")
    t.sub(STRLIST, "\t\tif len(s) > MaxStrLen {\n\t\t\tpanic(", "\t\tif len(s) > MaxStrLen {\n\t\t\tfmt.Println(\"cell too long\")\n\t\t\tpanic(")
    t.sub(INS, "\t\ti.mutex.Lock()\n", "\t\ti.logger.V(2).Info(\"recording block\")\n\t\ti.mutex.Lock()\n")
    t.sub(SQLSTORE, "func filterQuery(q string, prefixes []string, notPrefixes []string) (string, []interface{}) {\n", "func filterQuery(q string, prefixes []string, notPrefixes []string) (string, []interface{}) {\n\t_ = fmt.Sprintf(\"filter %d prefixes\", len(prefixes))\n")


@harmless("h24-wrap-errors", "errors wrapped with fmt.Errorf(%w) where the translator checks error handling")
def _(t):
    t.sub(SORTER, "\t\tif err = s.AddRow(row); err != nil {\n\t\t\treturn\n\t\t}\n", "\t\tif err = s.AddRow(row); err != nil {\n\t\t\treturn fmt.Errorf(\"adding row: %w\", err)\n\t\t}\n")
    t.sub(TXN, "\ttx, err := rs.GetTransaction(id)\n\tif err != nil {\n\t\treturn nil, err\n\t}\n", "\ttx, err := rs.GetTransaction(id)\n\tif err != nil {\n\t\treturn nil, fmt.Errorf(\"get transaction: %w\", err)\n\t}\n")
    t.sub(RECV, "\tif err = ingest.IndexTable(r.db, sum, tbl, r.logger.V(1)); err != nil {\n\t\treturn nil, err\n\t}\n", "\tif err = ingest.IndexTable(r.db, sum, tbl, r.logger.V(1)); err != nil {\n\t\treturn nil, fmt.Errorf(\"index table: %w\", err)\n\t}\n")
    t.sub(PRUNE, "\t\t\terr = objects.DeleteCommit(db, sum)\n\t\t\tif err != nil {\n\t\t\t\treturn err\n\t\t\t}\n", "\t\t\terr = objects.DeleteCommit(db, sum)\n\t\t\tif err != nil {\n\t\t\t\treturn fmt.Errorf(\"delete commit %x: %w\", sum, err)\n\t\t\t}\n")
    t.sub(PRUNE, "import (\n\t\"errors\"\n", "import (\n\t\"errors\"\n\t\"fmt\"\n")


@harmless("h25-function-value-locals", "calls made through local function values (save := objects.SaveTable; save(..))")
def _(t):
    t.sub(RECV, "\tsum, err = objects.SaveTable(r.db, b)\n", "\tsave := objects.SaveTable\n\tsum, err = save(r.db, b)\n")
    t.sub(PACK, "\tb := r.buf.Buffer(4)\n\t_, err := io.ReadFull(r.r, b)\n", "\tb := r.buf.Buffer(4)\n\tfill := io.ReadFull\n\t_, err := fill(r.r, b)\n")
    t.sub(PACK, "\t_, err = io.ReadFull(r.r, b)\n\tif err != nil {\n\t\treturn fmt.Errorf(\"error reading packfile version", "\t_, err = fill(r.r, b)\n\tif err != nil {\n\t\treturn fmt.Errorf(\"error reading packfile version")


@harmless("h26-rename-locals", "locals renamed: tx -> txn (transaction.go), ind -> pos (prune), offset -> off (str_list)")
def _(t):
    for h in ["func Commit(", "func Discard("]:
        t.infunc(TXN, h, r"\btx\b", "txn", regex=True)
    t.infunc(PRUNE, "func findCommitsToRemove(", r"\bind\b", "pos", regex=True)
    for h in ["func (e *StrListEncoder) Encode(", "func (d *StrListDecoder) Decode("]:
        t.infunc(STRLIST, h, r"\boffset\b", "off", regex=True)


@harmless("h27-rename-parameters", "parameters renamed: rs -> store, db -> odb in transaction.go and prune.go")
def _(t):
    for h in ["func Commit(", "func Discard("]:
        t.infunc(TXN, h, r"\brs\b", "store", regex=True)
    t.infunc(TXN, "func Commit(", r"\bdb\b", "odb", regex=True)
    t.infunc(PRUNE, "func Prune(", r"\bdb\b", "odb", regex=True)


@harmless("h28-early-continue-guards", "prune: slot guards written as `if idx >= len || key != slot { continue }`")
def _(t):
    t.sub(PRUNE, "\t\tif ind < len(commitKeys) && string(commitKeys[ind]) == string(sum) {\n\t\t\tcommitFound[ind] = true\n\t\t}\n",
          "\t\tif ind >= len(commitKeys) || string(commitKeys[ind]) != string(sum) {\n\t\t\tcontinue\n\t\t}\n\t\tcommitFound[ind] = true\n")
    t.sub(PRUNE, "\t\t\t\t\tif j < len(allBlockKeys) && string(allBlockKeys[j]) == string(blk) {\n\t\t\t\t\t\tkeepBlock[j] = true\n\t\t\t\t\t}\n",
          "\t\t\t\t\tif j == len(allBlockKeys) {\n\t\t\t\t\t\tcontinue\n\t\t\t\t\t}\n\t\t\t\t\tif string(allBlockKeys[j]) != string(blk) {\n\t\t\t\t\t\tcontinue\n\t\t\t\t\t}\n\t\t\t\t\tkeepBlock[j] = true\n")


@harmless("h29-bytes-equal-guards", "prune: slot compared with bytes.Equal / nested ifs instead of string conversion")
def _(t):
    t.sub(PRUNE, "import (\n\t\"errors\"\n", "import (\n\t\"bytes\"\n\t\"errors\"\n")
    t.sub(PRUNE, "if ind < len(commitKeys) && string(commitKeys[ind]) == string(sum) {", "if ind < len(commitKeys) && bytes.Equal(commitKeys[ind], sum) {")
    t.sub(PRUNE, "\t\t\t\t\tif j < len(allBlockIdxKeys) && string(allBlockIdxKeys[j]) == string(blk) {\n\t\t\t\t\t\tkeepBlockIndex[j] = true\n\t\t\t\t\t}\n",
          "\t\t\t\t\tif j < len(allBlockIdxKeys) {\n\t\t\t\t\t\tif bytes.Compare(allBlockIdxKeys[j], blk) == 0 {\n\t\t\t\t\t\t\tkeepBlockIndex[j] = true\n\t\t\t\t\t\t}\n\t\t\t\t\t}\n")
    t.sub(PRUNE, "\t\t\ti := sort.Search(len(tableHashes), func(i int) bool { return string(tableHashes[i]) >= string(commit.Table) })\n",
          "\t\t\tn := len(tableHashes)\n\t\t\ti := sort.Search(n, func(k int) bool { return bytes.Compare(tableHashes[k], commit.Table) >= 0 })\n")
    t.sub(PRUNE, "if i < len(tableHashes) && string(tableHashes[i]) == string(commit.Table) {", "if i != n && string(tableHashes[i]) == string(commit.Table) {")


@harmless("h30-setwithlog-literal-in-variable", "SetWithLog: the transaction body bound to a local first; sqlutil imported under an alias")
def _(t):
    t.sub(SQLSTORE, '\t"github.com/wrgl/wrgl/pkg/sqlutil"\n', '\tsqlu "github.com/wrgl/wrgl/pkg/sqlutil"\n')
    t.files[SQLSTORE] = t.read(SQLSTORE).replace("sqlutil.", "sqlu.")
    t.sub(SQLSTORE, "func (s *Store) SetWithLog(key string, sum []byte, rl *ref.Reflog) error {\n\treturn sqlu.RunInTx(s.db, func(tx *sql.Tx) error {\n",
          "func (s *Store) SetWithLog(key string, sum []byte, rl *ref.Reflog) error {\n\tbody := func(dbtx *sql.Tx) error {\n\t\ttx := dbtx\n")
    s = t.read(SQLSTORE)
    i = s.index("func (s *Store) SetWithLog(")
    j = s.index("\t\treturn nil\n\t})\n}\n", i)
    t.files[SQLSTORE] = s[:j] + "\t\treturn nil\n\t}\n\treturn sqlu.RunInTx(s.db, body)\n}\n" + s[j + len("\t\treturn nil\n\t})\n}\n"):]


@harmless("h31-setwithlog-helper-and-sql-consts", "SetWithLog: reflog insert moved into a helper taking the tx; SQL text in constants")
def _(t):
    s = t.read(SQLSTORE)
    i = s.index("\t\tvar txid []byte\n", s.index("func (s *Store) SetWithLog("))
    j = s.index("\t\treturn nil\n\t})\n}\n", i)
    moved = s[i:j]
    t.files[SQLSTORE] = s[:i] + "\t\treturn insertReflog(tx, key, oldSum, sum, rl)\n\t})\n}\n\nfunc insertReflog(tx *sql.Tx, key string, oldSum, sum []byte, rl *ref.Reflog) error {\n" + \
        moved.replace("\n\t\t", "\n\t").replace("\t\tvar txid", "\tvar txid", 1) + "\treturn nil\n}\n" + s[j + len("\t\treturn nil\n\t})\n}\n"):]
    t.sub(SQLSTORE, "\t\trow := tx.QueryRow(`SELECT sum FROM refs WHERE name = ?`, key)\n", "\t\trow := tx.QueryRow(selectRefSQL, key)\n")
    t.sub(SQLSTORE, "var CreateTableStmts = []string{\n", "const selectRefSQL = `select sum\n\tfrom refs where name = ?`\n\nvar CreateTableStmts = []string{\n")


@harmless("h32-errchan-capacity-through-local", "ingestTableFromBlocks: worker count read into a local used for the channel and the loop")
def _(t):
    t.sub(INS, "\ti.errChan = make(chan error, i.numWorkers)\n\tfor j := 0; j < i.numWorkers; j++ {\n", "\tn := i.numWorkers\n\ti.errChan = make(chan error, n)\n\tfor j := 1; j <= n; j++ {\n")


@harmless("h33-status-guard-variants", "transaction: guard via a local status value (Commit) and a switch (Discard)")
def _(t):
    t.sub(TXN, "\tif tx.Status == ref.TSCommitted {\n\t\treturn nil, fmt.Errorf(\"transaction %s is already committed\", id)\n\t}\n",
          "\tst := tx.Status\n\tif st != ref.TSInProgress {\n\t\terr = fmt.Errorf(\"transaction %s is already committed\", id)\n\t\treturn nil, err\n\t}\n")
    t.sub(TXN, "\tif tx.Status == ref.TSCommitted {\n\t\treturn fmt.Errorf(\"cannot discard committed transaction\")\n\t}\n",
          "\tswitch tx.Status {\n\tcase ref.TSCommitted:\n\t\treturn fmt.Errorf(\"cannot discard committed transaction\")\n\t}\n")


@harmless("h34-status-guard-in-helper", "transaction: the status guard moved into ensureOpen(tx), its error returned by the callers")
def _(t):
    t.sub(TXN, "\tif tx.Status == ref.TSCommitted {\n\t\treturn nil, fmt.Errorf(\"transaction %s is already committed\", id)\n\t}\n",
          "\tif err = ensureOpen(tx, id); err != nil {\n\t\treturn nil, err\n\t}\n")
    t.sub(TXN, "\tif tx.Status == ref.TSCommitted {\n\t\treturn fmt.Errorf(\"cannot discard committed transaction\")\n\t}\n",
          "\tif err = ensureOpen(tx, id); err != nil {\n\t\treturn err\n\t}\n")
    t.append(TXN, "\nfunc ensureOpen(tx *ref.Transaction, id uuid.UUID) error {\n\tif tx.Status == ref.TSCommitted {\n\t\treturn fmt.Errorf(\"transaction %s is already committed\", id)\n\t}\n\treturn nil\n}\n")


@harmless("h35-hoist-childrenfirst", "Prune: the deletion order is computed before the blocks are deleted")
def _(t):
    t.sub(PRUNE, "\t// remove orphaned blocks\n", "\torderedCommits := childrenFirst(db, commitsToRemove)\n\n\t// remove orphaned blocks\n")
    t.sub(PRUNE, "\t\tfor _, sum := range childrenFirst(db, commitsToRemove) {\n", "\t\tfor _, sum := range orderedCommits {\n")


@harmless("h36-readfull-through-helper", "readVersion / BlockIndex.ReadFrom read through a small unexported helper")
def _(t):
    t.sub(PACK, "\t_, err := io.ReadFull(r.r, b)\n\tif err != nil {\n\t\treturn fmt.Errorf(\"error reading PACK string", "\terr := fillBuf(r.r, b)\n\tif err != nil {\n\t\treturn fmt.Errorf(\"error reading PACK string")
    t.sub(PACK, "\t_, err = io.ReadFull(r.r, b)\n\tif err != nil {\n\t\treturn fmt.Errorf(\"error reading packfile version", "\terr = fillBuf(r.r, b)\n\tif err != nil {\n\t\treturn fmt.Errorf(\"error reading packfile version")
    t.append(PACK, "\nfunc fillBuf(r io.Reader, b []byte) error {\n\t_, err := io.ReadFull(r, b)\n\treturn err\n}\n")


@harmless("h37-blockscount-reuse", "Table.ReadFrom calls BlocksCount instead of repeating the division; BlocksCount divides by BlockSize")
def _(t):
    t.sub(TABLE, "\tblocksCount := uint32(math.Ceil(float64(t.RowsCount) / float64(255)))\n", "\tblocksCount := BlocksCount(t.RowsCount)\n")
    t.sub(TABLE, "\treturn uint32(math.Ceil(float64(rowsCount) / float64(255)))\n", "\tper := float64(BlockSize)\n\treturn uint32(math.Ceil(float64(rowsCount) / per))\n")


@harmless("h38-block-cut-by-constant", "sorter: len(blk) == 255 written as len(blk) >= objects.BlockSize")
def _(t):
    t.sub(SORTER, "\t\t\tif len(blk) == 255 {\n", "\t\t\tif len(blk) >= objects.BlockSize {\n")
    t.sub(SORTER, "\t\t\tif len(rows) == 255 {\n", "\t\t\tif len(rows) == objects.BlockSize {\n")


@harmless("h39-lock-in-helper-with-defer", "insertBlock: the locked update moved into i.record with defer Unlock")
def _(t):
    old = """		i.mutex.Lock()
		i.rowsCount += uint32(blk.RowsCount)
		i.asyncBlocks = append(i.asyncBlocks, asyncBlock{
			Offset: blk.Offset,
			Sum:    sum,
			IdxSum: blkIdxSum,
			PK:     blk.PK,
		})
		i.mutex.Unlock()
"""
    t.sub(INS, old, "\t\ti.record(blk, sum, blkIdxSum)\n")
    t.append(INS, """
func (ins *Inserter) record(blk *sorter.Block, sum, idxSum []byte) {
	ins.mutex.Lock()
	defer ins.mutex.Unlock()
	ins.rowsCount += uint32(blk.RowsCount)
	ins.asyncBlocks = append(ins.asyncBlocks, asyncBlock{
		Offset: blk.Offset,
		Sum:    sum,
		IdxSum: idxSum,
		PK:     blk.PK,
	})
}
""")


@harmless("h40-lock-in-closure-and-rwmutex", "insertBlock: update done in a closure with defer Unlock; mutex becomes a sync.RWMutex")
def _(t):
    t.sub(INS, "\tmutex       sync.Mutex\n", "\tmutex       sync.RWMutex\n")
    t.sub(INS, "\t\ti.mutex.Lock()\n", "\t\tfunc() {\n\t\t\ti.mutex.Lock()\n\t\t\tdefer i.mutex.Unlock()\n")
    t.sub(INS, "\t\t\tPK:     blk.PK,\n\t\t})\n\t\ti.mutex.Unlock()\n", "\t\t\tPK:     blk.PK,\n\t\t})\n\t\t}()\n")


@harmless("h41-maxstrlen-expression", "MaxStrLen written as math.MaxUint16; AddRow guard as >= MaxStrLen+1")
def _(t):
    t.sub(STRLIST, "const MaxStrLen = 65535\n", "const MaxStrLen = math.MaxUint16\n")
    t.sub(STRLIST, "\t\"io\"\n\t\"sort\"\n", "\t\"io\"\n\t\"math\"\n\t\"sort\"\n")
    t.sub(SORTER, "\t\tif len(str) > objects.MaxStrLen {\n", "\t\tif len(str) >= objects.MaxStrLen+1 {\n")


@harmless("h42-filterquery-constants", "filterQuery: SQL fragments in constants, different spacing / case")
def _(t):
    t.sub(SQLSTORE, "\t\tconds = append(conds, \"instr(name, ?) = 1\")\n", "\t\tconds = append(conds, condHasPrefix)\n")
    t.sub(SQLSTORE, "\t\tconds = append(conds, \"instr(name, ?) != 1\")\n", "\t\tconds = append(conds, condNotPrefix)\n")
    t.sub(SQLSTORE, "func filterQuery(", "const (\n\tcondHasPrefix = \"INSTR(name,?) = 1\"\n\tcondNotPrefix = \"INSTR(name,?) <> 1\"\n)\n\nfunc filterQuery(")


@harmless("h43-keyed-label-literals", "Commit.WriteTo / ReadFrom: {label, f} literals written with field keys; label in a constant")
def _(t):
    t.sub(COMMIT, "\t\t{\"table\", objline.WriteBytes(c.Table)},\n", "\t\t{label: labelTable, f: objline.WriteBytes(c.Table)},\n")
    t.sub(COMMIT, "\t\t{\"table\", objline.ReadBytes(c.Table)},\n", "\t\t{f: objline.ReadBytes(c.Table), label: labelTable},\n")
    t.sub(COMMIT, "type fieldEncode struct {\n", "const labelTable = \"table\"\n\ntype fieldEncode struct {\n")
    t.sub(COMMIT, "\t\tn, err := objline.ReadField(parser, \"parent\", objline.ReadBytes(b))\n", "\t\tconst parentLabel = \"parent\"\n\t\tn, err := objline.ReadField(parser, parentLabel, objline.ReadBytes(b))\n")


@harmless("h44-precheck-in-helper", "SeekCommonAncestor: the ancestor pre-check moved into baseAmongInputs")
def _(t):
    s = t.read(REFUTILS)
    i = s.index("\tfor i, c := range commits {\n\t\tisBase := n > 1\n")
    j = s.index("\tqs := make([]*CommitsQueue, n)\n")
    moved = s[i:j]
    t.files[REFUTILS] = s[:i] + "\tif c := baseAmongInputs(db, commits); c != nil {\n\t\treturn c, nil\n\t}\n" + s[j:] + \
        "\nfunc baseAmongInputs(db objects.Store, commits [][]byte) []byte {\n\tn := len(commits)\n" + moved.replace("\t\t\treturn c, nil\n", "\t\t\treturn c\n") + "\treturn nil\n}\n"


@harmless("h45-sort-sort-with-named-type", "sortBlocks: sort.Sort over a named slice type with a Less method")
def _(t):
    t.sub(INS, "\tsort.Slice(o.asyncBlocks, func(i, j int) bool {\n\t\treturn o.asyncBlocks[i].Offset < o.asyncBlocks[j].Offset\n\t})\n", "\tsort.Sort(byOffset(o.asyncBlocks))\n")
    t.append(INS, "\ntype byOffset []asyncBlock\n\nfunc (b byOffset) Len() int           { return len(b) }\nfunc (b byOffset) Swap(i, j int)      { b[i], b[j] = b[j], b[i] }\nfunc (b byOffset) Less(i, j int) bool { return b[i].Offset < b[j].Offset }\n")


@harmless("h46-less-func-in-variable", "sortBlocks: comparison bound to a local; sort imported under an alias")
def _(t):
    t.sub(INS, '\t"sort"\n', '\tgosort "sort"\n')
    t.sub(INS, "\tsort.Slice(o.asyncBlocks, func(i, j int) bool {\n\t\treturn o.asyncBlocks[i].Offset < o.asyncBlocks[j].Offset\n\t})\n",
          "\tblocks := o.asyncBlocks\n\tbefore := func(a, b int) bool {\n\t\treturn blocks[a].Offset < blocks[b].Offset\n\t}\n\tgosort.SliceStable(blocks, before)\n")


@harmless("h47-fetch-objects-via-closure", "Fetch: objects fetched through a local closure; extra helper between the two steps")
def _(t):
    t.sub(FETCH, "\t\tfetchedCommits, err := fetchObjects(cmd, db, rs, client, advertised, depth, container)\n",
          "\t\tgetObjects := func() ([][]byte, error) {\n\t\t\treturn fetchObjects(cmd, db, rs, client, advertised, depth, container)\n\t\t}\n\t\tfetchedCommits, err := getObjects()\n")


@harmless("h48-headerbits-alias-and-local", "encodeObjTypeAndLen: math/bits imported as bits; u copied into a local first")
def _(t):
    t.sub(PACK, '\tmathbits "math/bits"\n', '\t"math/bits"\n')
    t.sub(PACK, "\tbits := mathbits.Len64(u)\n", "\tv := u\n\tbits := bits.Len64(v)\n")


@harmless("h49-magic-constant", "packfile magic in a constant, written with copy(b, magic)")
def _(t):
    t.sub(PACK, "\tcopy(b[:4], []byte(\"PACK\"))\n", "\tcopy(b[:4], packMagic)\n")
    t.sub(PACK, "\tif string(b) != \"PACK\" {\n", "\tif string(b) != packMagic {\n")
    t.sub(PACK, "const Version uint32 = 1\n", "const Version uint32 = 1\n\nconst packMagic = \"PACK\"\n")


@harmless("h50-addrow-through-helper", "SortFile: AddRow called through s.push which returns its error")
def _(t):
    t.sub(SORTER, "\t\tif err = s.AddRow(row); err != nil {\n", "\t\tif err = s.push(row); err != nil {\n")
    t.append(SORTER, "\nfunc (s *Sorter) push(row []string) error {\n\treturn s.AddRow(row)\n}\n")


@harmless("h51-prefix-declaration-order", "persistence.go: key prefix variables declared in another order")
def _(t):
    t.sub("pkg/objects/persistence.go", "\tblkPrefix    = []byte(\"blk/\")\n\ttblPrefix    = []byte(\"tbl/\")\n", "\ttblPrefix    = []byte(\"tbl/\")\n\tblkPrefix    = []byte(\"blk/\")\n")


@harmless("h52-deferred-cleanup-and-go-literal", "defer / go statements with literals added next to the skeleton calls")
def _(t):
    t.sub(RECV, "func (r *ObjectReceiver) saveCommit(b []byte) (sum []byte, err error) {\n\tf := r.logDuration(\"save commit\")\n",
          "func (r *ObjectReceiver) saveCommit(b []byte) (sum []byte, err error) {\n\tf := r.logDuration(\"save commit\")\n\tdefer func() {\n\t\tif err != nil {\n\t\t\tr.logger.Error(err, \"save commit\")\n\t\t}\n\t}()\n")
    t.sub(INS, "\ti.wg.Wait()\n\tclose(i.errChan)\n", "\tdone := make(chan struct{})\n\tgo func() {\n\t\ti.wg.Wait()\n\t\tclose(done)\n\t}()\n\t<-done\n\tclose(i.errChan)\n")


@harmless("h53-commit-loop-body-in-helper", "transaction.Commit: the per-branch work moved into commitBranch")
def _(t):
    s = t.read(TXN)
    i0 = s.index("func Commit(")
    a = s.index("\t\tcom, err := objects.GetCommit(db, sum)\n", i0)
    b = s.index("\t\tcommits[ref.HeadRef(branch)] = com\n\t}\n\ttx.End", i0)
    body = s[a:b]
    helper = "\nfunc commitBranch(db objects.Store, rs ref.Store, id uuid.UUID, buf *bytes.Buffer, branch string, sum []byte) (*objects.Commit, error) {\n" + \
        body.replace("\n\t\t", "\n\t").replace("\t\tcom, err :=", "\tcom, err :=", 1) + "\treturn com, nil\n}\n"
    t.files[TXN] = s[:a] + "\t\tcom, err := commitBranch(db, rs, id, buf, branch, sum)\n\t\tif err != nil {\n\t\t\treturn nil, err\n\t\t}\n" + s[b:] + helper


@harmless("h54-open-transaction-helper", "transaction: GetTransaction and the status guard moved into openTx, used by Commit and Discard")
def _(t):
    t.sub(TXN, "\ttx, err := rs.GetTransaction(id)\n\tif err != nil {\n\t\treturn nil, err\n\t}\n\tif tx.Status == ref.TSCommitted {\n\t\treturn nil, fmt.Errorf(\"transaction %s is already committed\", id)\n\t}\n",
          "\ttx, err := openTx(rs, id)\n\tif err != nil {\n\t\treturn nil, err\n\t}\n")
    t.sub(TXN, "\ttx, err := rs.GetTransaction(id)\n\tif err != nil {\n\t\treturn err\n\t}\n\tif tx.Status == ref.TSCommitted {\n\t\treturn fmt.Errorf(\"cannot discard committed transaction\")\n\t}\n",
          "\t_, err = openTx(rs, id)\n\tif err != nil {\n\t\treturn err\n\t}\n")
    t.append(TXN, "\nfunc openTx(rs ref.Store, id uuid.UUID) (*ref.Transaction, error) {\n\ttx, err := rs.GetTransaction(id)\n\tif err != nil {\n\t\treturn nil, err\n\t}\n\tif tx.Status == ref.TSCommitted {\n\t\treturn nil, fmt.Errorf(\"transaction %s is already committed\", id)\n\t}\n\treturn tx, nil\n}\n")


@harmless("h55-wait-and-close-in-helper", "ingestTableFromBlocks: wg.Wait + close(errChan) moved into i.waitWorkers; workers started by i.startWorkers")
def _(t):
    t.sub(INS, "\ti.errChan = make(chan error, i.numWorkers)\n\tfor j := 0; j < i.numWorkers; j++ {\n\t\ti.wg.Add(1)\n\t\tgo i.insertBlock()\n\t}\n\ti.wg.Wait()\n\tclose(i.errChan)\n",
          "\ti.startWorkers()\n\ti.waitWorkers()\n")
    t.append(INS, "\nfunc (w *Inserter) startWorkers() {\n\tw.errChan = make(chan error, w.numWorkers)\n\tfor j := 0; j < w.numWorkers; j++ {\n\t\tw.wg.Add(1)\n\t\tgo w.insertBlock()\n\t}\n}\n\nfunc (w *Inserter) waitWorkers() {\n\tw.wg.Wait()\n\tclose(w.errChan)\n}\n")


@harmless("h56-prune-delete-loops-in-helpers", "Prune: the block / commit deletion loops moved into helpers")
def _(t):
    t.sub(PRUNE, "\t\tfor i, sum := range allBlockKeys {\n\t\t\tif !keepBlock[i] {\n\t\t\t\tif err := objects.DeleteBlock(db, sum); err != nil {\n\t\t\t\t\treturn err\n\t\t\t\t}\n\t\t\t\tpbarAdd()\n\t\t\t}\n\t\t}\n\t\treturn nil\n",
          "\t\treturn deleteUnkept(db, allBlockKeys, keepBlock, pbarAdd)\n")
    t.sub(PRUNE, "\t\tfor _, sum := range childrenFirst(db, commitsToRemove) {\n\t\t\terr = objects.DeleteCommit(db, sum)\n\t\t\tif err != nil {\n\t\t\t\treturn err\n\t\t\t}\n\t\t\tpbarAdd()\n\t\t}\n\t\treturn nil\n",
          "\t\treturn deleteCommits(db, childrenFirst(db, commitsToRemove), pbarAdd)\n")
    t.append(PRUNE, "\nfunc deleteUnkept(db objects.Store, keys [][]byte, keep []bool, pbarAdd func()) error {\n\tfor i, sum := range keys {\n\t\tif !keep[i] {\n\t\t\tif err := objects.DeleteBlock(db, sum); err != nil {\n\t\t\t\treturn err\n\t\t\t}\n\t\t\tpbarAdd()\n\t\t}\n\t}\n\treturn nil\n}\n\nfunc deleteCommits(db objects.Store, sums [][]byte, pbarAdd func()) error {\n\tfor _, sum := range sums {\n\t\tif err := objects.DeleteCommit(db, sum); err != nil {\n\t\t\treturn err\n\t\t}\n\t\tpbarAdd()\n\t}\n\treturn nil\n}\n")


@harmless("h57-readatleast-full-length", "decoders: io.ReadFull(r, b) written as io.ReadAtLeast(r, b, len(b))")
def _(t):
    t.sub(TABLE, "\tb := make([]byte, 16)\n\tn, err := io.ReadFull(r, b)\n", "\tb := make([]byte, 16)\n\tn, err := io.ReadAtLeast(r, b, len(b))\n")
    t.sub("pkg/objects/uint_list.go", "\tn, err := io.ReadFull(r, d.buf)\n", "\tn, err := io.ReadAtLeast(r, d.buf, len(d.buf))\n")


@harmless("h58-lock-wrappers-and-mutex-pointer", "insertBlock: locking through i.lock()/i.unlock() wrappers; sync imported under an alias")
def _(t):
    t.sub(INS, '\t"sync"\n', '\tgosync "sync"\n')
    t.sub(INS, "sync.Mutex", "gosync.Mutex")
    t.sub(INS, "sync.WaitGroup", "gosync.WaitGroup")
    t.sub(INS, "\t\ti.mutex.Lock()\n", "\t\ti.lock()\n")
    t.sub(INS, "\t\ti.mutex.Unlock()\n", "\t\ti.unlock()\n")
    t.append(INS, "\nfunc (i *Inserter) lock()   { i.mutex.Lock() }\nfunc (i *Inserter) unlock() { mu := &i.mutex; mu.Unlock() }\n")


@harmless("h59-embedded-mutex", "Inserter embeds sync.Mutex; insertBlock calls i.Lock() / i.Unlock()")
def _(t):
    t.sub(INS, "\tmutex       sync.Mutex\n", "\tsync.Mutex\n")
    t.sub(INS, "i.mutex.", "i.", 2)


@harmless("h60-local-constants", "limits and cut points through local / package constants")
def _(t):
    t.sub("pkg/encoding/objline/scalar.go", "\tif len(s) > math.MaxUint16 {\n", "\tconst maxLen = math.MaxUint16\n\tif len(s) > maxLen {\n")
    t.sub(SORTER, "\t\t\tif len(blk) == 255 {\n", "\t\t\tif len(blk) == rowsPerBlock {\n")
    t.sub(SORTER, "\t\t\tif len(rows) == 255 {\n", "\t\t\tif len(rows) == rowsPerBlock {\n")
    t.sub(SORTER, "func getRunSize() (uint64, error) {\n", "const rowsPerBlock = objects.BlockSize\n\nfunc getRunSize() (uint64, error) {\n")
    t.sub("pkg/diff/row_list_reader.go", "\tblk := row / objects.BlockSize\n\toff := byte(row - blk*objects.BlockSize)\n", "\tblk := row / blockRows\n\toff := byte(row - blk*blockRows)\n")
    t.sub("pkg/diff/row_list_reader.go", "func RowToBlockAndOffset(", "const blockRows = objects.BlockSize\n\nfunc RowToBlockAndOffset(")


@harmless("h61-setwithlog-named-result", "SetWithLog: result of RunInTx assigned to a named result and returned")
def _(t):
    t.sub(SQLSTORE, "func (s *Store) SetWithLog(key string, sum []byte, rl *ref.Reflog) error {\n\treturn sqlutil.RunInTx(s.db, func(tx *sql.Tx) error {\n", "func (s *Store) SetWithLog(key string, sum []byte, rl *ref.Reflog) (err error) {\n\terr = sqlutil.RunInTx(s.db, func(tx *sql.Tx) error {\n")
    s = t.read(SQLSTORE)
    i = s.index("func (s *Store) SetWithLog(")
    j = s.index("\t\treturn nil\n\t})\n}\n", i)
    t.files[SQLSTORE] = s[:j] + "\t\treturn nil\n\t})\n\treturn err\n}\n" + s[j + len("\t\treturn nil\n\t})\n}\n"):]


@harmless("h62-indextable-tail-and-fetch-shape", "IndexTable: final save assigned then returned; Fetch: refs saved in the success branch")
def _(t):
    t.sub("pkg/ingest/index.go", "\treturn objects.SaveTableIndex(db, tblSum, buf.Bytes())\n", "\terr = objects.SaveTableIndex(db, tblSum, buf.Bytes())\n\treturn err\n")
    t.sub(FETCH, "\t\tfetchedCommits, err := fetchObjects(cmd, db, rs, client, advertised, depth, container)\n\t\tif err != nil {\n\t\t\tif isStreamError(err) {\n\t\t\t\tcontinue\n\t\t\t}\n\t\t\treturn fmt.Errorf(\"error fetching objects: %w\", err)\n\t\t}\n\t\t_, err = saveFetchedRefs(cmd, u, db, rs, remote, cr.URL, fetchedCommits, refs, dstRefs, maybeSaveTags, force)\n\t\treturn err\n",
          "\t\tfetchedCommits, err := fetchObjects(cmd, db, rs, client, advertised, depth, container)\n\t\tif err == nil {\n\t\t\t_, err = saveFetchedRefs(cmd, u, db, rs, remote, cr.URL, fetchedCommits, refs, dstRefs, maybeSaveTags, force)\n\t\t\treturn err\n\t\t}\n\t\tif isStreamError(err) {\n\t\t\tcontinue\n\t\t}\n\t\treturn fmt.Errorf(\"error fetching objects: %w\", err)\n")


@harmless("h63-search-index-declared-first", "prune: the slot index declared with var and assigned from sort.Search")
def _(t):
    t.sub(PRUNE, "\t\tind := sort.Search(len(commitKeys), func(i int) bool {\n", "\t\tvar ind int\n\t\tind = sort.Search(len(commitKeys), func(i int) bool {\n")
    t.sub(PRUNE, "\t\t\t\t\tj := sort.Search(len(allBlockKeys), func(i int) bool {\n\t\t\t\t\t\treturn string(allBlockKeys[i]) >= string(blk)\n\t\t\t\t\t})\n",
          "\t\t\t\t\tatLeast := func(i int) bool {\n\t\t\t\t\t\treturn string(allBlockKeys[i]) >= string(blk)\n\t\t\t\t\t}\n\t\t\t\t\tj := sort.Search(len(allBlockKeys), atLeast)\n")



@harmless("h64-length-in-local-and-tagless-switch", "guards: `if n := len(s); n > L`; status guard as a tagless switch")
def _(t):
    t.sub(STRLIST, "\t\tif len(s) > MaxStrLen {\n", "\t\tif n := len(s); n > MaxStrLen {\n")
    t.sub(SORTER, "\t\t\tif len(blk) == 255 {\n", "\t\t\tfilled := len(blk)\n\t\t\tif filled == 255 {\n")
    t.sub(TXN, "\tif tx.Status == ref.TSCommitted {\n\t\treturn nil, fmt.Errorf(\"transaction %s is already committed\", id)\n\t}\n",
          "\tswitch {\n\tcase tx.Status == ref.TSCommitted:\n\t\treturn nil, fmt.Errorf(\"transaction %s is already committed\", id)\n\t}\n")


@harmless("h65-sort-find-lookup", "findCommitsToRemove: lookup with sort.Find and its `found` result")
def _(t):
    t.sub(PRUNE, "\t\tind := sort.Search(len(commitKeys), func(i int) bool {\n\t\t\treturn string(commitKeys[i]) >= string(sum)\n\t\t})\n\t\tif ind < len(commitKeys) && string(commitKeys[ind]) == string(sum) {\n\t\t\tcommitFound[ind] = true\n\t\t}\n",
          "\t\tind, found := sort.Find(len(commitKeys), func(i int) int {\n\t\t\treturn strings.Compare(string(sum), string(commitKeys[i]))\n\t\t})\n\t\tif found {\n\t\t\tcommitFound[ind] = true\n\t\t}\n")
    t.sub(PRUNE, "\t\"sort\"\n", "\t\"sort\"\n\t\"strings\"\n")


@harmless("h66-errchan-extra-room-and-package-var", "errChan gets numWorkers+1 slots; row addressing through a package level var")
def _(t):
    t.sub(INS, "\ti.errChan = make(chan error, i.numWorkers)\n", "\ti.errChan = make(chan error, i.numWorkers+1)\n")
    t.sub("pkg/diff/table_reader.go", "\tblkOffset := r.off / objects.BlockSize\n\trowOffset := byte(r.off - blkOffset*objects.BlockSize)\n", "\tblkOffset := r.off / rowsPerBlock\n\trowOffset := byte(r.off - blkOffset*rowsPerBlock)\n")
    t.append("pkg/diff/table_reader.go", "\nvar rowsPerBlock = objects.BlockSize\n")


# ============================================================================ breaking


@breaking("b01-ingest-savetable-before-index", "ingestTableFromBlocks saves the table object before the table index and profile")
def _(t):
    s = t.read(INS)
    a = s.index("\t// write and save table index\n")
    c = s.index("\t// save table\n")
    d = s.index("\ti.logger.Info(\"saved table\", \"sum\", sum)\n")
    save = s[c:d]
    t.files[INS] = s[:a] + save + s[a:c] + s[d:]


@breaking("b02-receiver-savetable-before-indextable", "ObjectReceiver.saveTable saves the table before IndexTable / ProfileTable")
def _(t):
    s = t.read(RECV)
    a = s.index("\tif err = ingest.IndexTable(")
    b = s.index("\tsum, err = objects.SaveTable(r.db, b)\n")
    c = s.index("\tif r.saveObjHook != nil {\n\t\tr.saveObjHook(packfile.ObjectTable, sum)")
    t.files[RECV] = s[:a] + s[b:c] + s[a:b] + s[c:]


@breaking("b03-receiver-savetable-in-helper-before-index", "saveTable stores the table through a helper called before IndexTable")
def _(t):
    t.sub(RECV, "\tarr := meow.Checksum(0, b)\n\tsum = arr[:]\n", "\tarr := meow.Checksum(0, b)\n\tsum = arr[:]\n\tif err = r.storeFirst(b); err != nil {\n\t\treturn nil, err\n\t}\n")
    t.sub(RECV, "\tsum, err = objects.SaveTable(r.db, b)\n\tif err != nil {\n\t\treturn\n\t}\n", "")
    t.append(RECV, "\nfunc (r *ObjectReceiver) storeFirst(b []byte) error {\n\t_, err := objects.SaveTable(r.db, b)\n\treturn err\n}\n")


@breaking("b04-receiver-commit-without-parent-check", "saveCommit stores the commit before checking that its parents exist")
def _(t):
    s = t.read(RECV)
    a = s.index("\tfor _, parent := range com.Parents {\n")
    b = s.index("\tsum, err = objects.SaveCommit(r.db, b)\n")
    c = s.index("\tdelete(r.expectedCommits, string(sum))\n")
    t.files[RECV] = s[:a] + s[b:c] + s[a:b] + s[c:]


@breaking("b05-readfull-to-read-parser", "Parser.NextBytes: io.ReadFull(r, b) -> r.Read(b)")
def _(t):
    t.sub("pkg/encoding/parser.go", "\t_, err := io.ReadFull(r, b)\n\treturn b, err\n", "\t_, err := r.Read(b)\n\treturn b, err\n")


@breaking("b06-readfull-to-read-packfile-header", "decodeObjTypeAndLen: first io.ReadFull -> r.Read")
def _(t):
    t.sub(PACK, "\tb := make([]byte, 1)\n\t_, err = io.ReadFull(r, b)\n", "\tb := make([]byte, 1)\n\t_, err = r.Read(b)\n")


@breaking("b07-readfull-to-read-strlist-u16", "StrListDecoder.readUint16: io.ReadFull -> r.Read")
def _(t):
    t.sub(STRLIST, "\tb := d.buf[:2]\n\tn, err := io.ReadFull(r, b)\n", "\tb := d.buf[:2]\n\tn, err := r.Read(b)\n")


@breaking("b08-readfull-to-read-table-block", "Table.readBlock: io.ReadFull -> r.Read")
def _(t):
    t.sub(TABLE, "\tb := make([]byte, 16)\n\tn, err := io.ReadFull(r, b)\n", "\tb := make([]byte, 16)\n\tn, err := r.Read(b)\n")


@breaking("b09-readfull-to-read-blockindex-rows", "BlockIndex.ReadFrom: row read io.ReadFull -> r.Read")
def _(t):
    t.sub("pkg/objects/block_index.go", "\t\tn, err = io.ReadFull(r, idx.Rows[i])\n", "\t\tn, err = r.Read(idx.Rows[i])\n")


@breaking("b10-readfull-to-read-packfile-version", "readVersion: second io.ReadFull -> r.r.Read (field of type io.ReadCloser)")
def _(t):
    t.sub(PACK, "\t_, err = io.ReadFull(r.r, b)\n\tif err != nil {\n\t\treturn fmt.Errorf(\"error reading packfile version", "\t_, err = r.r.Read(b)\n\tif err != nil {\n\t\treturn fmt.Errorf(\"error reading packfile version")


@breaking("b11-readfull-to-readatleast-1", "objline.ReadBytes: io.ReadFull(p, b) -> io.ReadAtLeast(p, b, 1)")
def _(t):
    t.sub("pkg/encoding/objline/field.go", "\t\tn, err := io.ReadFull(p, b)\n", "\t\tn, err := io.ReadAtLeast(p, b, 1)\n")


@breaking("b12-copyn-to-single-read-object-body", "ReadObject: io.CopyN replaced by one Read into a buffer of the announced size")
def _(t):
    t.sub(PACK, "\tbuf := bytes.NewBuffer(nil)\n\t_, err = io.CopyN(buf, r.r, int64(u))\n", "\tbuf := bytes.NewBuffer(nil)\n\ttmp := make([]byte, int(u))\n\tvar k int\n\tk, err = r.r.Read(tmp)\n\tbuf.Write(tmp[:k])\n")


@breaking("b13-mutex-removed", "insertBlock: Lock / Unlock around the shared update removed")
def _(t):
    t.sub(INS, "\t\ti.mutex.Lock()\n", "")
    t.sub(INS, "\t\ti.mutex.Unlock()\n", "")


@breaking("b14-lock-after-append", "insertBlock: Lock taken after the append to asyncBlocks")
def _(t):
    t.sub(INS, "\t\ti.mutex.Lock()\n", "")
    t.sub(INS, "\t\t\tPK:     blk.PK,\n\t\t})\n\t\ti.mutex.Unlock()\n", "\t\t\tPK:     blk.PK,\n\t\t})\n\t\ti.mutex.Lock()\n\t\ti.mutex.Unlock()\n")


@breaking("b15-rlock-for-writes", "insertBlock: mutex becomes RWMutex and the update only takes the read lock")
def _(t):
    t.sub(INS, "\tmutex       sync.Mutex\n", "\tmutex       sync.RWMutex\n")
    t.sub(INS, "\t\ti.mutex.Lock()\n", "\t\ti.mutex.RLock()\n")
    t.sub(INS, "\t\ti.mutex.Unlock()\n", "\t\ti.mutex.RUnlock()\n")


@breaking("b16-two-mutexes", "insertBlock: rowsCount and asyncBlocks updated under a lock, but a second update of rowsCount uses another mutex")
def _(t):
    t.sub(INS, "\tmutex       sync.Mutex\n", "\tmutex       sync.Mutex\n\tstatMu      sync.Mutex\n")
    t.sub(INS, "\t\tif i.pt != nil {\n\t\t\ti.pt.Incr()\n\t\t}\n\t}\n}\n\nfunc (o *Inserter) sortBlocks()", "\t\tif i.pt != nil {\n\t\t\ti.pt.Incr()\n\t\t}\n\t\ti.statMu.Lock()\n\t\ti.rowsCount += 0\n\t\ti.statMu.Unlock()\n\t}\n}\n\nfunc (o *Inserter) sortBlocks()")


@breaking("b17-errchan-capacity-1", "ingestTableFromBlocks: errChan created with capacity 1")
def _(t):
    t.sub(INS, "\ti.errChan = make(chan error, i.numWorkers)\n", "\ti.errChan = make(chan error, 1)\n")


@breaking("b18-close-before-wait", "ingestTableFromBlocks: close(errChan) before wg.Wait()")
def _(t):
    t.sub(INS, "\ti.wg.Wait()\n\tclose(i.errChan)\n", "\tclose(i.errChan)\n\ti.wg.Wait()\n")


@breaking("b19-sortblocks-before-wait", "ingestTableFromBlocks: sortBlocks() runs before wg.Wait()")
def _(t):
    t.sub(INS, "\ti.wg.Wait()\n\tclose(i.errChan)\n", "\ttblIdx := i.sortBlocks()\n\ti.wg.Wait()\n\tclose(i.errChan)\n")
    t.sub(INS, "\ttblIdx := i.sortBlocks()\n\ti.tbl.RowsCount = i.rowsCount\n", "\ti.tbl.RowsCount = i.rowsCount\n")


@breaking("b20-filter-like", "filterQuery uses LIKE ? || '%'")
def _(t):
    t.sub(SQLSTORE, "\t\tconds = append(conds, \"instr(name, ?) = 1\")\n", "\t\tconds = append(conds, \"name LIKE ? || '%'\")\n")
    t.sub(SQLSTORE, "\t\tconds = append(conds, \"instr(name, ?) != 1\")\n", "\t\tconds = append(conds, \"name NOT LIKE ? || '%'\")\n")


@breaking("b21-commit-status-guard-removed", "transaction.Commit: the TSCommitted guard removed")
def _(t):
    t.sub(TXN, "\tif tx.Status == ref.TSCommitted {\n\t\treturn nil, fmt.Errorf(\"transaction %s is already committed\", id)\n\t}\n", "")


@breaking("b22-discard-guard-after-delete", "transaction.Discard: the TSCommitted guard moved after DeleteTransactionRefs")
def _(t):
    g = "\tif tx.Status == ref.TSCommitted {\n\t\treturn fmt.Errorf(\"cannot discard committed transaction\")\n\t}\n"
    t.sub(TXN, g, "")
    t.sub(TXN, "\tif err = ref.DeleteTransactionRefs(rs, id); err != nil {\n\t\treturn\n\t}\n\treturn rs.DeleteTransaction(id)\n", "\tif err = ref.DeleteTransactionRefs(rs, id); err != nil {\n\t\treturn\n\t}\n" + g + "\treturn rs.DeleteTransaction(id)\n")


@breaking("b23-commit-guard-returns-nil", "transaction.Commit: the guard on TSCommitted returns (nil, nil)")
def _(t):
    t.sub(TXN, "\tif tx.Status == ref.TSCommitted {\n\t\treturn nil, fmt.Errorf(\"transaction %s is already committed\", id)\n\t}\n", "\tif tx.Status == ref.TSCommitted {\n\t\treturn nil, nil\n\t}\n")


@breaking("b24-commit-guard-only-logs", "transaction.Commit: the guard only logs (TSCommitted still mentioned)")
def _(t):
    t.sub(TXN, "\tif tx.Status == ref.TSCommitted {\n\t\treturn nil, fmt.Errorf(\"transaction %s is already committed\", id)\n\t}\n", "\tif tx.Status == ref.TSCommitted {\n\t\tfmt.Printf(\"transaction %s is already committed\\n\", id)\n\t}\n")


@breaking("b25-saveref-before-savecommit", "transaction.Commit: SaveRef before SaveCommit")
def _(t):
    s = t.read(TXN)
    i0 = s.index("func Commit(")
    a = s.index("\t\tnewSum, err := objects.SaveCommit(db, buf.Bytes())\n", i0)
    b = s.index("\t\tif err = ref.SaveRef(rs, ref.HeadRef(branch), newSum,", i0)
    c = s.index("\t\tcommits[ref.HeadRef(branch)] = com\n\t}\n\ttx.End", i0)
    sumline = "\t\tsumArr := meow.Checksum(0, buf.Bytes())\n\t\tnewSum := sumArr[:]\n"
    savec = s[a:b].replace("newSum, err := objects.SaveCommit", "_, err = objects.SaveCommit")
    t.files[TXN] = s[:a] + sumline + s[b:c] + savec + s[c:]
    t.sub(TXN, '\t"github.com/google/uuid"\n', '\t"github.com/google/uuid"\n\t"github.com/pckhoi/meow"\n')


@breaking("b26-updatetransaction-before-loop", "transaction.Commit: status flipped (UpdateTransaction) before the branches are moved")
def _(t):
    upd = "\ttx.End = time.Now()\n\ttx.Status = ref.TSCommitted\n\tif err = rs.UpdateTransaction(tx); err != nil {\n\t\treturn nil, err\n\t}\n"
    t.sub(TXN, upd, "")
    t.sub(TXN, "\tcommits = map[string]*objects.Commit{}\n\tbuf := bytes.NewBuffer(nil)\n", upd + "\tcommits = map[string]*objects.Commit{}\n\tbuf := bytes.NewBuffer(nil)\n")


@breaking("b27-prune-commits-before-tables", "Prune deletes the unreachable commits before tables and blocks")
def _(t):
    s = t.read(PRUNE)
    a = s.index("\t// remove orphaned tables\n")
    c = s.index("\t// remove orphaned commits\n")
    e = s.index("\t})\n}\n", c)
    commits = s[c:e] + "\t}); err != nil {\n\t\treturn err\n\t}\n"
    commits = commits.replace("\treturn runWithPbar(opts.PruneCommitsPbar", "\tif err = runWithPbar(opts.PruneCommitsPbar")
    rest = s[a:c].rstrip("\n") + "\n\treturn nil\n}\n"
    t.files[PRUNE] = s[:a] + commits + "\n" + rest + s[e + len("\t})\n}\n"):]


@breaking("b28-prune-childrenfirst-dropped", "Prune deletes commits in key order (childrenFirst dropped)")
def _(t):
    t.sub(PRUNE, "\t\tfor _, sum := range childrenFirst(db, commitsToRemove) {\n", "\t\tfor _, sum := range commitsToRemove {\n")


@breaking("b29-prune-childrenfirst-computed-not-used", "Prune computes childrenFirst(..) but still deletes in key order")
def _(t):
    t.sub(PRUNE, "\t\tfor _, sum := range childrenFirst(db, commitsToRemove) {\n", "\t\t_ = childrenFirst(db, commitsToRemove)\n\t\tfor _, sum := range commitsToRemove {\n")


@breaking("b30-search-guard-removed-commits", "findCommitsToRemove: slot not compared with the key")
def _(t):
    t.sub(PRUNE, "if ind < len(commitKeys) && string(commitKeys[ind]) == string(sum) {", "if ind < len(commitKeys) {")


@breaking("b31-search-guard-removed-tables", "pruneTables: table slot not compared with the key")
def _(t):
    t.sub(PRUNE, "if i < len(tableHashes) && string(tableHashes[i]) == string(commit.Table) {", "if i < len(tableHashes) {")


@breaking("b32-search-guard-removed-blocks", "pruneTables: block slot guard removed entirely")
def _(t):
    t.sub(PRUNE, "\t\t\t\t\tif j < len(allBlockKeys) && string(allBlockKeys[j]) == string(blk) {\n\t\t\t\t\t\tkeepBlock[j] = true\n\t\t\t\t\t}\n", "\t\t\t\t\tif j < len(allBlockKeys) {\n\t\t\t\t\t\tkeepBlock[j] = true\n\t\t\t\t\t}\n")


@breaking("b33-search-guard-wrong-slice-blockindices", "pruneTables: block index slot compared against the wrong key slice")
def _(t):
    t.sub(PRUNE, "if j < len(allBlockIdxKeys) && string(allBlockIdxKeys[j]) == string(blk) {", "if j < len(allBlockIdxKeys) && j < len(allBlockKeys) && string(allBlockKeys[j]) == string(blk) {")


@breaking("b34-search-guard-after-marking", "findCommitsToRemove: slot marked before the guard is evaluated")
def _(t):
    t.sub(PRUNE, "\t\tif ind < len(commitKeys) && string(commitKeys[ind]) == string(sum) {\n\t\t\tcommitFound[ind] = true\n\t\t}\n",
          "\t\tif ind < len(commitKeys) {\n\t\t\tcommitFound[ind] = true\n\t\t\tif string(commitKeys[ind]) == string(sum) {\n\t\t\t\tcontinue\n\t\t\t}\n\t\t}\n")


@breaking("b35-maxstrlen-65536", "MaxStrLen = 65536")
def _(t):
    t.sub(STRLIST, "const MaxStrLen = 65535\n", "const MaxStrLen = 65536\n")


@breaking("b36-encode-offset-uint16", "StrListEncoder.Encode: running offset declared uint16")
def _(t):
    t.sub(STRLIST, "\toffset := 4\n\tfor _, s := range sl {\n", "\tvar offset uint16 = 4\n\tfor _, s := range sl {\n")
    t.sub(STRLIST, "\t\tcopy(e.buf[offset:], s)\n\t\toffset += len(s)\n", "\t\tcopy(e.buf[offset:], s)\n\t\toffset += uint16(len(s))\n")


@breaking("b37-decode-offset-uint16", "StrListDecoder.Decode: running offset becomes uint16")
def _(t):
    t.sub(STRLIST, "\tsl := d.strSlice(count)\n\toffset := 4\n", "\tsl := d.strSlice(count)\n\toffset := uint16(4)\n")
    t.sub(STRLIST, "\t\toffset += int(l)\n", "\t\toffset += l\n")


@breaking("b38-addrow-error-ignored", "SortFile: AddRow's error dropped")
def _(t):
    t.sub(SORTER, "\t\tif err = s.AddRow(row); err != nil {\n\t\t\treturn\n\t\t}\n", "\t\ts.AddRow(row)\n")


@breaking("b39-addrow-error-overwritten", "SortFile: AddRow's error assigned but never tested (overwritten by the next Read)")
def _(t):
    t.sub(SORTER, "\t\tif err = s.AddRow(row); err != nil {\n\t\t\treturn\n\t\t}\n", "\t\terr = s.AddRow(row)\n")


@breaking("b40-addrow-guard-removed", "Sorter.AddRow: cell length guard removed")
def _(t):
    t.sub(SORTER, "\tfor i, str := range row {\n\t\tif len(str) > objects.MaxStrLen {\n\t\t\treturn fmt.Errorf(\"cell value at column %d is too long (%d > %d bytes)\", i, len(str), objects.MaxStrLen)\n\t\t}\n\t}\n", "\t_ = fmt.Sprint(objects.MaxStrLen)\n")


@breaking("b41-strlist-guard-counts-runes", "StrListEncoder.Encode: guard counts runes instead of bytes")
def _(t):
    t.sub(STRLIST, "\t\tif len(s) > MaxStrLen {\n", "\t\tif utf8.RuneCountInString(s) > MaxStrLen {\n")
    t.sub(STRLIST, "\t\"sort\"\n)", "\t\"sort\"\n\t\"unicode/utf8\"\n)")


@breaking("b42-objline-guard-removed", "objline.WriteString: length guard removed")
def _(t):
    t.sub("pkg/encoding/objline/scalar.go", "\tif len(s) > math.MaxUint16 {\n\t\treturn 0, fmt.Errorf(\"string is too long (%d > %d bytes)\", len(s), math.MaxUint16)\n\t}\n", "\t_ = fmt.Sprint(math.MaxUint16)\n")


@breaking("b43-sortblocks-sort-removed", "Inserter.sortBlocks: the sort removed")
def _(t):
    t.sub(INS, "\tsort.Slice(o.asyncBlocks, func(i, j int) bool {\n\t\treturn o.asyncBlocks[i].Offset < o.asyncBlocks[j].Offset\n\t})\n", "\t_ = sort.Slice\n")


@breaking("b44-sortblocks-descending", "Inserter.sortBlocks: sorts by descending Offset")
def _(t):
    t.sub(INS, "return o.asyncBlocks[i].Offset < o.asyncBlocks[j].Offset", "return o.asyncBlocks[i].Offset > o.asyncBlocks[j].Offset")


@breaking("b45-sortblocks-by-other-field", "Inserter.sortBlocks: sorts by the first key column instead of Offset")
def _(t):
    t.sub(INS, "return o.asyncBlocks[i].Offset < o.asyncBlocks[j].Offset", "return len(o.asyncBlocks[i].PK) < len(o.asyncBlocks[j].PK) // Offset < ")


@breaking("b46-blocksize-256", "BlockSize = 256")
def _(t):
    t.sub("pkg/objects/block.go", "const BlockSize = 255\n", "const BlockSize = 256\n")


@breaking("b47-divisor-254", "BlocksCount divides by 254")
def _(t):
    t.sub(TABLE, "\treturn uint32(math.Ceil(float64(rowsCount) / float64(255)))\n", "\treturn uint32(math.Ceil(float64(rowsCount) / float64(254)))\n")


@breaking("b48-sorter-cut-256", "Sorter.SortedBlocks cuts blocks at 256 rows")
def _(t):
    t.sub(SORTER, "\t\t\tif len(blk) == 255 {\n", "\t\t\tif len(blk) == 256 {\n")
    t.sub(SORTER, "\t\tblk := make([][]byte, 0, 255)\n", "\t\tblk := make([][]byte, 0, 256)\n")


@breaking("b49-row-addressing-literal", "RowToBlockAndOffset divides by a literal instead of objects.BlockSize")
def _(t):
    t.sub("pkg/diff/row_list_reader.go", "\tblk := row / objects.BlockSize\n\toff := byte(row - blk*objects.BlockSize)\n", "\tblk := row / 256\n\toff := byte(row - blk*256)\n")
    s = t.read("pkg/diff/row_list_reader.go")
    if "objects." not in s.replace('pkg/objects"', ""):
        t.sub("pkg/diff/row_list_reader.go", '\t"github.com/wrgl/wrgl/pkg/objects"\n', "")


@breaking("b50-seek-precheck-removed", "SeekCommonAncestor: the ancestor pre-check removed")
def _(t):
    s = t.read(REFUTILS)
    i = s.index("\t// an input that is an ancestor of every other input is the base")
    j = s.index("\tqs := make([]*CommitsQueue, n)\n")
    t.files[REFUTILS] = s[:i] + s[j:]


@breaking("b51-fetch-refs-before-objects", "Fetch: saveFetchedRefs before fetchObjects")
def _(t):
    old = "\t\tfetchedCommits, err := fetchObjects(cmd, db, rs, client, advertised, depth, container)\n\t\tif err != nil {\n\t\t\tif isStreamError(err) {\n\t\t\t\tcontinue\n\t\t\t}\n\t\t\treturn fmt.Errorf(\"error fetching objects: %w\", err)\n\t\t}\n\t\t_, err = saveFetchedRefs(cmd, u, db, rs, remote, cr.URL, fetchedCommits, refs, dstRefs, maybeSaveTags, force)\n\t\treturn err\n"
    new = "\t\t_, err = saveFetchedRefs(cmd, u, db, rs, remote, cr.URL, advertised, refs, dstRefs, maybeSaveTags, force)\n\t\tif err != nil {\n\t\t\treturn err\n\t\t}\n\t\t_, err = fetchObjects(cmd, db, rs, client, advertised, depth, container)\n\t\tif err != nil {\n\t\t\tif isStreamError(err) {\n\t\t\t\tcontinue\n\t\t\t}\n\t\t\treturn fmt.Errorf(\"error fetching objects: %w\", err)\n\t\t}\n\t\treturn nil\n"
    t.sub(FETCH, old, new)


@breaking("b52-setwithlog-without-runintx", "SetWithLog: statements issued directly on s.db, no SQL transaction")
def _(t):
    t.sub(SQLSTORE, "func (s *Store) SetWithLog(key string, sum []byte, rl *ref.Reflog) error {\n\treturn sqlutil.RunInTx(s.db, func(tx *sql.Tx) error {\n", "func (s *Store) SetWithLog(key string, sum []byte, rl *ref.Reflog) error {\n\ttx := s.db\n\t{\n")
    s = t.read(SQLSTORE)
    i = s.index("func (s *Store) SetWithLog(")
    j = s.index("\t\treturn nil\n\t})\n}\n", i)
    t.files[SQLSTORE] = s[:j] + "\t\treturn nil\n\t}\n}\n" + s[j + len("\t\treturn nil\n\t})\n}\n"):]


@breaking("b53-setwithlog-upsert-outside-tx", "SetWithLog: RunInTx kept, but the ref upsert is issued on s.db inside the literal")
def _(t):
    t.sub(SQLSTORE, "\t\tif _, err := tx.Exec(\n\t\t\t`INSERT INTO refs (name, sum) VALUES (?, ?) ON CONFLICT", "\t\tif _, err := s.db.Exec(\n\t\t\t`INSERT INTO refs (name, sum) VALUES (?, ?) ON CONFLICT")


@breaking("b54-setwithlog-two-transactions", "SetWithLog: ref upsert and reflog insert in two separate RunInTx calls")
def _(t):
    t.sub(SQLSTORE, "\t\tvar txid []byte\n\t\tif rl.Txid != nil {\n\t\t\ttxid = (*rl.Txid)[:]\n\t\t}\n\t\tif _, err := tx.Exec(\n\t\t\t`INSERT INTO reflogs (",
          "\t\treturn nil\n\t}); err != nil {\n\t\treturn err\n\t}\n\treturn sqlutil.RunInTx(s.db, func(tx *sql.Tx) error {\n\t\tvar txid []byte\n\t\tif rl.Txid != nil {\n\t\t\ttxid = (*rl.Txid)[:]\n\t\t}\n\t\tif _, err := tx.Exec(\n\t\t\t`INSERT INTO reflogs (")
    t.sub(SQLSTORE, "func (s *Store) SetWithLog(key string, sum []byte, rl *ref.Reflog) error {\n\treturn sqlutil.RunInTx(s.db, func(tx *sql.Tx) error {\n\t\trow := tx.QueryRow(`SELECT sum FROM refs WHERE name = ?`, key)\n\t\toldSum := make([]byte, 16)\n",
          "func (s *Store) SetWithLog(key string, sum []byte, rl *ref.Reflog) error {\n\toldSum := make([]byte, 16)\n\tif err := sqlutil.RunInTx(s.db, func(tx *sql.Tx) error {\n\t\trow := tx.QueryRow(`SELECT sum FROM refs WHERE name = ?`, key)\n")


@breaking("b55-commit-labels-reordered-in-reader", "Commit.ReadFrom reads authorEmail before authorName (writer unchanged)")
def _(t):
    a = "\t\t{\"authorName\", func(p *encoding.Parser) (int64, error) {\n\t\t\treturn objline.ReadString(p, &c.AuthorName)\n\t\t}},\n"
    b = "\t\t{\"authorEmail\", func(p *encoding.Parser) (int64, error) {\n\t\t\treturn objline.ReadString(p, &c.AuthorEmail)\n\t\t}},\n"
    t.sub(COMMIT, a + b, b + a)


@breaking("b56-table-label-renamed-in-writer", "Table.writeMeta writes label \"cols\" (reader still expects \"columns\")")
def _(t):
    t.sub(TABLE, "\t\t{\"columns\", objline.WriteBytes(", "\t\t{\"cols\", objline.WriteBytes(")


@breaking("b57-pack-magic-changed", "packfile writer emits another magic string")
def _(t):
    t.sub(PACK, "\tcopy(b[:4], []byte(\"PACK\"))\n", "\tcopy(b[:4], []byte(\"PAKK\"))\n")


@breaking("b58-pack-header-log2", "encodeObjTypeAndLen computes the bit length with math.Log2")
def _(t):
    t.sub(PACK, "\tbits := mathbits.Len64(u)\n", "\tbits := int(math.Log2(float64(u))) + 1\n\t_ = mathbits.Len64\n")


@breaking("b59-prefix-collision", "persistence.go: table index prefix becomes \"tbl/idx/\" (prefix of nothing, but \"tbl/\" is a prefix of it)")
def _(t):
    t.sub("pkg/objects/persistence.go", "\ttblIdxPrefix = []byte(\"tblidx/\")\n", "\ttblIdxPrefix = []byte(\"tbl/idx/\")\n")


@breaking("b60-insertblock-index-before-block", "insertBlock: SaveBlockIndex skipped when the block write fails is fine, but here the block is never saved")
def _(t):
    t.sub(INS, "\t\tsum, bb, err = objects.SaveBlock(i.db, bb, blk.Block)\n", "\t\tsum, bb, err = meowSum(blk.Block), bb, error(nil)\n")
    t.append(INS, "\nfunc meowSum(b []byte) []byte {\n\ta := meow.Checksum(0, b)\n\treturn a[:]\n}\n")


@breaking("b61-indextable-tableindex-first", "ingest.IndexTable writes the table index before the block indices")
def _(t):
    s = t.read("pkg/ingest/index.go")
    a = s.index("\tfor i, sum := range tbl.Blocks {\n")
    b = s.index("\tbuf.Reset()\n\t_, err = objects.WriteBlockTo(enc, buf, tblIdx)\n")
    c = s.index("\treturn objects.SaveTableIndex(db, tblSum, buf.Bytes())\n")
    tail = s[b:c] + "\tif err = objects.SaveTableIndex(db, tblSum, buf.Bytes()); err != nil {\n\t\treturn err\n\t}\n"
    t.files["pkg/ingest/index.go"] = s[:a] + tail + s[a:b] + "\treturn nil\n" + s[c + len("\treturn objects.SaveTableIndex(db, tblSum, buf.Bytes())\n"):]


@breaking("b62-cmd-commit-head-before-commit", "cmd/wrgl commit: saveHead before objects.SaveCommit")
def _(t):
    f = "cmd/wrgl/commit_cmd.go"
    s = t.read(f)
    i0 = s.index("func commit(\n")
    a = s.index("\tcommitSum, err := objects.SaveCommit(db, buf.Bytes())\n", i0)
    b = s.index("\tif err = saveHead(rs, branchName, commitSum, commit, tid); err != nil {\n", i0)
    c = s.index("\treturn commitSum, nil\n", i0)
    pre = "\tarr := meow.Checksum(0, buf.Bytes())\n\tcommitSum := arr[:]\n"
    savec = s[a:b].replace("commitSum, err := objects.SaveCommit", "_, err = objects.SaveCommit")
    t.files[f] = s[:a] + pre + s[b:c] + savec + s[c:]
    if '"github.com/pckhoi/meow"' not in s:
        t.sub(f, '\t"github.com/spf13/cobra"\n', '\t"github.com/pckhoi/meow"\n\t"github.com/spf13/cobra"\n')


@breaking("b63-addrow-error-only-logged", "SortFile: AddRow's error is tested but only logged, ingestion continues")
def _(t):
    t.sub(SORTER, "\t\tif err = s.AddRow(row); err != nil {\n\t\t\treturn\n\t\t}\n", "\t\tif err = s.AddRow(row); err != nil {\n\t\t\tfmt.Fprintln(os.Stderr, err)\n\t\t}\n")


@breaking("b64-commit-guard-returns-stale-err", "transaction.Commit: guard returns `nil, err` where err is the nil error of GetTransaction")
def _(t):
    t.sub(TXN, "\tif tx.Status == ref.TSCommitted {\n\t\treturn nil, fmt.Errorf(\"transaction %s is already committed\", id)\n\t}\n", "\tif tx.Status == ref.TSCommitted {\n\t\treturn nil, err\n\t}\n")


@breaking("b65-read-through-method-value", "Table.readBlock: one Read through a method value (rd := r.Read; rd(b))")
def _(t):
    t.sub(TABLE, "\tb := make([]byte, 16)\n\tn, err := io.ReadFull(r, b)\n", "\tb := make([]byte, 16)\n\trd := r.Read\n\tn, err := rd(b)\n")


@breaking("b66-single-read-in-helper", "BlockIndex.ReadFrom reads through a helper that issues one Read")
def _(t):
    t.sub("pkg/objects/block_index.go", "\tb := []byte{0}\n\tn, err := io.ReadFull(r, b)\n", "\tb := []byte{0}\n\tn, err := readSome(r, b)\n")
    t.append("pkg/objects/block_index.go", "\nfunc readSome(r io.Reader, b []byte) (int, error) {\n\treturn r.Read(b)\n}\n")


@breaking("b67-sortblocks-sorts-a-copy", "Inserter.sortBlocks sorts a copy of asyncBlocks and then reads the unsorted original")
def _(t):
    t.sub(INS, "\tsort.Slice(o.asyncBlocks, func(i, j int) bool {\n\t\treturn o.asyncBlocks[i].Offset < o.asyncBlocks[j].Offset\n\t})\n",
          "\ttmp := append([]asyncBlock(nil), o.asyncBlocks...)\n\tsort.Slice(tmp, func(i, j int) bool {\n\t\treturn tmp[i].Offset < tmp[j].Offset\n\t})\n")


@breaking("b68-deferred-updatetransaction", "transaction.Commit: UpdateTransaction deferred before the loop (runs on the failure paths too)")
def _(t):
    upd = "\ttx.End = time.Now()\n\ttx.Status = ref.TSCommitted\n\tif err = rs.UpdateTransaction(tx); err != nil {\n\t\treturn nil, err\n\t}\n"
    t.sub(TXN, upd, "")
    t.sub(TXN, "\tcommits = map[string]*objects.Commit{}\n\tbuf := bytes.NewBuffer(nil)\n", "\ttx.End = time.Now()\n\ttx.Status = ref.TSCommitted\n\tdefer rs.UpdateTransaction(tx)\n\tcommits = map[string]*objects.Commit{}\n\tbuf := bytes.NewBuffer(nil)\n")


@breaking("b69-deferred-indextable", "saveTable: IndexTable / ProfileTable run in a defer, i.e. after SaveTable")
def _(t):
    t.sub(RECV, "\tif err = ingest.IndexTable(r.db, sum, tbl, r.logger.V(1)); err != nil {\n\t\treturn nil, err\n\t}\n\tif err = ingest.ProfileTable(r.db, sum, tbl); err != nil {\n\t\treturn nil, err\n\t}\n",
          "\tdefer func() {\n\t\tif err == nil {\n\t\t\terr = ingest.IndexTable(r.db, sum, tbl, r.logger.V(1))\n\t\t}\n\t\tif err == nil {\n\t\t\terr = ingest.ProfileTable(r.db, sum, tbl)\n\t\t}\n\t}()\n")


@breaking("b70-guard-in-helper-result-ignored", "transaction.Commit: status guard moved into a helper whose error is dropped")
def _(t):
    t.sub(TXN, "\tif tx.Status == ref.TSCommitted {\n\t\treturn nil, fmt.Errorf(\"transaction %s is already committed\", id)\n\t}\n", "\tensureOpen(tx, id)\n")
    t.append(TXN, "\nfunc ensureOpen(tx *ref.Transaction, id uuid.UUID) error {\n\tif tx.Status == ref.TSCommitted {\n\t\treturn fmt.Errorf(\"transaction %s is already committed\", id)\n\t}\n\treturn nil\n}\n")


@breaking("b71-guard-on-other-status", "transaction.Discard: guard tests the status against TSInProgress (refuses the wrong state)")
def _(t):
    t.sub(TXN, "\tif tx.Status == ref.TSCommitted {\n\t\treturn fmt.Errorf(\"cannot discard committed transaction\")\n\t}\n", "\tif tx.Status == ref.TSInProgress && ref.TSCommitted != \"\" {\n\t\treturn fmt.Errorf(\"cannot discard committed transaction\")\n\t}\n")


@breaking("b72-local-mutex", "insertBlock: locks a mutex local to the goroutine instead of the shared one")
def _(t):
    t.sub(INS, "\tdefer i.wg.Done()\n\tfor blk := range i.blocks {\n", "\tvar mutex sync.Mutex\n\tdefer i.wg.Done()\n\tfor blk := range i.blocks {\n")
    t.sub(INS, "\t\ti.mutex.Lock()\n", "\t\tmutex.Lock()\n")
    t.sub(INS, "\t\ti.mutex.Unlock()\n", "\t\tmutex.Unlock()\n")


@breaking("b73-errchan-smaller-than-workers", "ingestTableFromBlocks: errChan capacity numWorkers-1")
def _(t):
    t.sub(INS, "\ti.errChan = make(chan error, i.numWorkers)\n", "\ti.errChan = make(chan error, i.numWorkers-1)\n")


@breaking("b74-setwithlog-reflog-skipped-select", "SetWithLog: old value no longer read inside the transaction (read before it, on s.db)")
def _(t):
    t.sub(SQLSTORE, "func (s *Store) SetWithLog(key string, sum []byte, rl *ref.Reflog) error {\n\treturn sqlutil.RunInTx(s.db, func(tx *sql.Tx) error {\n\t\trow := tx.QueryRow(`SELECT sum FROM refs WHERE name = ?`, key)\n",
          "func (s *Store) SetWithLog(key string, sum []byte, rl *ref.Reflog) error {\n\trow := s.db.QueryRow(`SELECT sum FROM refs WHERE name = ?`, key)\n\treturn sqlutil.RunInTx(s.db, func(tx *sql.Tx) error {\n")


@breaking("b75-sort-find-result-ignored", "findCommitsToRemove: sort.Find used but `found` not consulted")
def _(t):
    t.sub(PRUNE, "\t\tind := sort.Search(len(commitKeys), func(i int) bool {\n\t\t\treturn string(commitKeys[i]) >= string(sum)\n\t\t})\n\t\tif ind < len(commitKeys) && string(commitKeys[ind]) == string(sum) {\n\t\t\tcommitFound[ind] = true\n\t\t}\n",
          "\t\tind, found := sort.Find(len(commitKeys), func(i int) int {\n\t\t\treturn strings.Compare(string(sum), string(commitKeys[i]))\n\t\t})\n\t\t_ = found\n\t\tif ind < len(commitKeys) {\n\t\t\tcommitFound[ind] = true\n\t\t}\n")
    t.sub(PRUNE, "\t\"sort\"\n", "\t\"sort\"\n\t\"strings\"\n")


@breaking("b76-strlist-limit-in-local-raised", "StrListEncoder.Encode: `if n := len(s); n > MaxStrLen+1`")
def _(t):
    t.sub(STRLIST, "\t\tif len(s) > MaxStrLen {\n", "\t\tif n := len(s); n > MaxStrLen+1 {\n")


def main():
    for kind in ("harmless", "breaking"):
        d = os.path.join(HERE, kind)
        os.makedirs(d, exist_ok=True)
        for f in os.listdir(d):
            if f.endswith(".patch") or f.endswith(".txt"):
                os.remove(os.path.join(d, f))
        idx = []
        for name, desc, fn in REWRITES[kind]:
            t = Tree()
            try:
                fn(t)
                text = t.patch()
            except Exception as e:  # noqa
                print("FAILED %s: %s" % (name, e))
                raise
            with open(os.path.join(d, name + ".patch"), "w") as f:
                f.write(text)
            idx.append("%s\t%s\n" % (name, desc))
        with open(os.path.join(d, "INDEX.txt"), "w") as f:
            f.writelines(idx)
        print("%s: %d patches" % (kind, len(idx)))


if __name__ == "__main__":
    main()
