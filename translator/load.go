// load.go: package loading (syntax only), import tables, function / type / constant
// lookup by PACKAGE (not by file, so declarations may move between files of a package),
// and a small constant evaluator.
package main

import (
	"go/ast"
	"go/build/constraint"
	"go/constant"
	"go/parser"
	"go/token"
	"os"
	"path"
	"path/filepath"
	"sort"
	"strconv"
	"strings"
)

var fset = token.NewFileSet()
var root string
var modulePath string

// File is one parsed source file with its import table (local name -> import path).
type File struct {
	rel     string
	ast     *ast.File
	imports map[string]string
	pkg     *Pkg
}

// Func is a function or method declaration together with where it lives.
type Func struct {
	decl *ast.FuncDecl
	file *File
	pkg  *Pkg
	recv string // receiver type name ("" for functions)
}

func (f *Func) key() string {
	if f.recv != "" {
		return f.recv + "." + f.decl.Name.Name
	}
	return f.decl.Name.Name
}

type constDecl struct {
	spec  *ast.ValueSpec
	idx   int      // index among spec.Names
	iota  int      // value of iota for this spec
	value ast.Expr // effective value expression (implicit repetition resolved); may be nil
	file  *File
}

type varDecl struct {
	spec *ast.ValueSpec
	idx  int
	file *File
}

type typeDecl struct {
	spec *ast.TypeSpec
	file *File
}

// Pkg is all non-test files of one directory.
type Pkg struct {
	dir    string // relative to the repo root
	path   string // import path
	name   string
	files  []*File
	funcs  map[string]*Func
	types  map[string]*typeDecl
	consts map[string]*constDecl
	vars   map[string]*varDecl
	// declaration order of package level vars (for prefix lists)
	varOrder []string
}

var pkgCache = map[string]*Pkg{}

func readModulePath() string {
	b, err := os.ReadFile(filepath.Join(root, "go.mod"))
	if err != nil {
		return ""
	}
	for _, l := range strings.Split(string(b), "\n") {
		l = strings.TrimSpace(l)
		if strings.HasPrefix(l, "module ") {
			return strings.Trim(strings.TrimSpace(strings.TrimPrefix(l, "module ")), "\"")
		}
	}
	return ""
}

// buildOK evaluates a file's //go:build line for a default build (no custom tags).
func buildOK(f *ast.File) bool {
	for _, cg := range f.Comments {
		if cg.Pos() >= f.Package {
			break
		}
		for _, c := range cg.List {
			if !constraint.IsGoBuild(c.Text) {
				continue
			}
			x, err := constraint.Parse(c.Text)
			if err != nil {
				continue
			}
			ok := x.Eval(func(tag string) bool {
				switch tag {
				case "linux", "amd64", "cgo", "gc", "unix":
					return true
				}
				return strings.HasPrefix(tag, "go1.")
			})
			if !ok {
				return false
			}
		}
	}
	return true
}

func recvTypeName(fd *ast.FuncDecl) string {
	if fd.Recv == nil || len(fd.Recv.List) != 1 {
		return ""
	}
	t := fd.Recv.List[0].Type
	for {
		switch x := t.(type) {
		case *ast.StarExpr:
			t = x.X
			continue
		case *ast.ParenExpr:
			t = x.X
			continue
		case *ast.IndexExpr:
			t = x.X
			continue
		case *ast.IndexListExpr:
			t = x.X
			continue
		case *ast.Ident:
			return x.Name
		}
		return ""
	}
}

// loadPkg parses every buildable non-test .go file of dir (relative to root).
func loadPkg(dir string) *Pkg {
	dir = filepath.ToSlash(filepath.Clean(dir))
	if p, ok := pkgCache[dir]; ok {
		return p
	}
	p := &Pkg{dir: dir, funcs: map[string]*Func{}, types: map[string]*typeDecl{}, consts: map[string]*constDecl{}, vars: map[string]*varDecl{}}
	if dir == "." {
		p.path = modulePath
	} else {
		p.path = modulePath + "/" + dir
	}
	pkgCache[dir] = p
	ents, err := os.ReadDir(filepath.Join(root, dir))
	if err != nil {
		return p
	}
	var names []string
	for _, e := range ents {
		n := e.Name()
		if e.IsDir() || !strings.HasSuffix(n, ".go") || strings.HasSuffix(n, "_test.go") {
			continue
		}
		names = append(names, n)
	}
	sort.Strings(names)
	for _, n := range names {
		rel := path.Join(dir, n)
		af, err := parser.ParseFile(fset, filepath.Join(root, rel), nil, parser.ParseComments)
		if err != nil || af == nil || !buildOK(af) {
			continue
		}
		f := &File{rel: rel, ast: af, imports: map[string]string{}, pkg: p}
		if p.name == "" {
			p.name = af.Name.Name
		}
		for _, is := range af.Imports {
			ip, err := strconv.Unquote(is.Path.Value)
			if err != nil {
				continue
			}
			local := ""
			if is.Name != nil {
				local = is.Name.Name
			} else {
				local = defaultImportName(ip)
			}
			if local == "_" || local == "." {
				continue
			}
			f.imports[local] = ip
		}
		p.files = append(p.files, f)
		for _, d := range af.Decls {
			switch x := d.(type) {
			case *ast.FuncDecl:
				fn := &Func{decl: x, file: f, pkg: p, recv: recvTypeName(x)}
				if _, dup := p.funcs[fn.key()]; !dup {
					p.funcs[fn.key()] = fn
				}
			case *ast.GenDecl:
				switch x.Tok {
				case token.TYPE:
					for _, sp := range x.Specs {
						ts := sp.(*ast.TypeSpec)
						p.types[ts.Name.Name] = &typeDecl{ts, f}
					}
				case token.VAR:
					for _, sp := range x.Specs {
						vs := sp.(*ast.ValueSpec)
						for i, nm := range vs.Names {
							p.vars[nm.Name] = &varDecl{vs, i, f}
							p.varOrder = append(p.varOrder, nm.Name)
						}
					}
				case token.CONST:
					addConstGroup(p.consts, x, f)
				}
			}
		}
	}
	return p
}

// addConstGroup registers the constants of one const declaration, resolving iota and
// the implicit repetition of the previous expression list.
func addConstGroup(m map[string]*constDecl, gd *ast.GenDecl, f *File) {
	var prev *ast.ValueSpec
	for i, sp := range gd.Specs {
		vs := sp.(*ast.ValueSpec)
		eff := vs
		if len(vs.Values) == 0 && prev != nil {
			eff = prev
		} else {
			prev = vs
		}
		for k, nm := range vs.Names {
			var v ast.Expr
			if k < len(eff.Values) {
				v = eff.Values[k]
			}
			m[nm.Name] = &constDecl{spec: vs, idx: k, iota: i, value: v, file: f}
		}
	}
}

// defaultImportName: the name an un-aliased import is referred by.  For packages of
// this module the declared package name is read from the source; otherwise the last
// path element (minus a major-version suffix) is used.
func defaultImportName(ip string) string {
	if dir, ok := moduleDir(ip); ok {
		if n := pkgNameOfDir(dir); n != "" {
			return n
		}
	}
	base := path.Base(ip)
	if len(base) >= 2 && base[0] == 'v' && strings.Trim(base[1:], "0123456789") == "" && strings.Contains(ip, "/") {
		base = path.Base(path.Dir(ip))
	}
	if i := strings.Index(base, ".v"); i > 0 && strings.HasPrefix(ip, "gopkg.in/") {
		base = base[:i]
	}
	return base
}

var pkgNameCache = map[string]string{}

// pkgNameOfDir reads only the package clause of the first buildable non-test file.
func pkgNameOfDir(dir string) string {
	if n, ok := pkgNameCache[dir]; ok {
		return n
	}
	name := ""
	ents, _ := os.ReadDir(filepath.Join(root, dir))
	for _, e := range ents {
		n := e.Name()
		if e.IsDir() || !strings.HasSuffix(n, ".go") || strings.HasSuffix(n, "_test.go") {
			continue
		}
		af, err := parser.ParseFile(token.NewFileSet(), filepath.Join(root, dir, n), nil, parser.PackageClauseOnly)
		if err == nil && af != nil {
			name = af.Name.Name
			break
		}
	}
	pkgNameCache[dir] = name
	return name
}

// moduleDir maps an import path of this module to its directory.
func moduleDir(ip string) (string, bool) {
	if modulePath == "" {
		return "", false
	}
	if ip == modulePath {
		return ".", true
	}
	if strings.HasPrefix(ip, modulePath+"/") {
		return strings.TrimPrefix(ip, modulePath+"/"), true
	}
	return "", false
}

// canonPkgName: the canonical qualifier emitted for an import path, independent of
// the alias used by the importing file.
func canonPkgName(ip string) string { return defaultImportName(ip) }

func findFunc(dir, name string) *Func {
	p := loadPkg(dir)
	return p.funcs[name]
}

// ------------------------------------------------------------------ constants

var stdConsts = map[string]string{
	"math.MaxInt8": "127", "math.MaxInt16": "32767", "math.MaxInt32": "2147483647", "math.MaxInt64": "9223372036854775807",
	"math.MaxUint8": "255", "math.MaxUint16": "65535", "math.MaxUint32": "4294967295", "math.MaxUint64": "18446744073709551615",
	"math.MinInt8": "-128", "math.MinInt16": "-32768", "math.MinInt32": "-2147483648", "math.MinInt64": "-9223372036854775808",
}

var numericTypes = map[string]bool{
	"int": true, "int8": true, "int16": true, "int32": true, "int64": true,
	"uint": true, "uint8": true, "uint16": true, "uint32": true, "uint64": true, "uintptr": true,
	"byte": true, "rune": true, "float32": true, "float64": true,
}

// constEnv is the context a constant expression is evaluated in.
type constEnv struct {
	file  *File
	iota  int
	fc    *FuncCtx // optional: allows tracing of single-definition locals
	depth int
}

func evalConst(env constEnv, e ast.Expr) (constant.Value, bool) {
	if e == nil || env.depth > 12 {
		return nil, false
	}
	env.depth++
	switch x := e.(type) {
	case *ast.BasicLit:
		v := constant.MakeFromLiteral(x.Value, x.Kind, 0)
		return v, v.Kind() != constant.Unknown
	case *ast.ParenExpr:
		return evalConst(env, x.X)
	case *ast.UnaryExpr:
		v, ok := evalConst(env, x.X)
		if !ok || (x.Op != token.SUB && x.Op != token.ADD && x.Op != token.XOR && x.Op != token.NOT) {
			return nil, false
		}
		if v.Kind() == constant.String {
			return nil, false
		}
		return safeConst(func() constant.Value { return constant.UnaryOp(x.Op, v, 0) })
	case *ast.BinaryExpr:
		a, ok1 := evalConst(env, x.X)
		b, ok2 := evalConst(env, x.Y)
		if !ok1 || !ok2 {
			return nil, false
		}
		switch x.Op {
		case token.SHL, token.SHR:
			n, exact := constant.Uint64Val(constant.ToInt(b))
			if !exact || n > 512 || a.Kind() != constant.Int {
				return nil, false
			}
			return safeConst(func() constant.Value { return constant.Shift(a, x.Op, uint(n)) })
		case token.ADD, token.SUB, token.MUL, token.REM, token.AND, token.OR, token.XOR, token.AND_NOT:
			return safeConst(func() constant.Value { return constant.BinaryOp(a, x.Op, b) })
		case token.QUO:
			op := token.QUO
			if a.Kind() == constant.Int && b.Kind() == constant.Int {
				op = token.QUO_ASSIGN // integer division
			}
			if constant.Sign(b) == 0 {
				return nil, false
			}
			return safeConst(func() constant.Value { return constant.BinaryOp(a, op, b) })
		}
		return nil, false
	case *ast.CallExpr:
		// numeric conversion T(x)
		if id, ok := x.Fun.(*ast.Ident); ok && id.Obj == nil && len(x.Args) == 1 && numericTypes[id.Name] {
			return evalConst(env, x.Args[0])
		}
		return nil, false
	case *ast.Ident:
		if x.Name == "iota" && x.Obj == nil {
			return constant.MakeInt64(int64(env.iota)), true
		}
		if x.Obj != nil {
			switch x.Obj.Kind {
			case ast.Con:
				// constant declared in this file (package level or local)
				if cd, ok := env.file.pkg.consts[x.Name]; ok && cd.spec == x.Obj.Decl {
					return evalConstDecl(env, cd)
				}
				if vs, ok := x.Obj.Decl.(*ast.ValueSpec); ok {
					for i, nm := range vs.Names {
						if nm.Name == x.Name && i < len(vs.Values) {
							if data, ok := x.Obj.Data.(int); ok {
								env.iota = data
							}
							return evalConst(env, vs.Values[i])
						}
					}
				}
			case ast.Var:
				if env.fc != nil {
					if d := env.fc.singleDef(x.Obj); d != nil {
						return evalConst(env, d)
					}
				}
			}
			return nil, false
		}
		if cd, ok := env.file.pkg.consts[x.Name]; ok {
			return evalConstDecl(env, cd)
		}
		return nil, false
	case *ast.SelectorExpr:
		id, ok := x.X.(*ast.Ident)
		if !ok || id.Obj != nil {
			return nil, false
		}
		ip, ok := env.file.imports[id.Name]
		if !ok {
			return nil, false
		}
		if s, ok := stdConsts[ip+"."+x.Sel.Name]; ok {
			return constant.MakeFromLiteral(s, token.INT, 0), true
		}
		if dir, ok := moduleDir(ip); ok {
			if cd, ok := loadPkg(dir).consts[x.Sel.Name]; ok {
				return evalConstDecl(env, cd)
			}
		}
		return nil, false
	}
	return nil, false
}

func evalConstDecl(env constEnv, cd *constDecl) (constant.Value, bool) {
	return evalConst(constEnv{file: cd.file, iota: cd.iota, depth: env.depth}, cd.value)
}

func safeConst(f func() constant.Value) (v constant.Value, ok bool) {
	defer func() {
		if recover() != nil {
			v, ok = nil, false
		}
	}()
	v = f()
	return v, v != nil && v.Kind() != constant.Unknown
}

func constString(v constant.Value) string {
	if v.Kind() == constant.String {
		return constant.StringVal(v)
	}
	if v.Kind() == constant.Float {
		if i := constant.ToInt(v); i.Kind() == constant.Int {
			return i.ExactString()
		}
	}
	return v.ExactString()
}

// constValue evaluates the package-level constant `name` of the package in dir.
func constValue(dir, name string) (string, bool) {
	cd, ok := loadPkg(dir).consts[name]
	if !ok {
		return "", false
	}
	v, ok := evalConstDecl(constEnv{}, cd)
	if !ok {
		return "", false
	}
	return constString(v), true
}
