package main

import (
	"go/ast"
	"go/token"
	"strconv"
)

// mergeErrChan inspects pkg/merge: the capacity of Merger.errChan as created in NewMerger
// (form `make(chan error, len(<slice>) + k)`, k = 0 when there is no addend) and the number of
// call sites in Merger.Start that hand m.errChan to a goroutine-spawning callee OUTSIDE the
// per-branch loop (mergeTables, CollectResolvedRow): every differ inside the loop is one sender
// per branch, each of the others is one more sender.  Returns ("?", "?") on unknown shapes.
func mergeErrChan() (extra string, senders string) {
	extra, senders = "?", "?"
	nm := findFunc("pkg/merge", "NewMerger")
	if nm != nil && nm.decl.Body != nil {
		ast.Inspect(nm.decl.Body, func(n ast.Node) bool {
			kv, ok := n.(*ast.KeyValueExpr)
			if !ok {
				return true
			}
			k, ok := kv.Key.(*ast.Ident)
			if !ok || k.Name != "errChan" {
				return true
			}
			c, ok := kv.Value.(*ast.CallExpr)
			if !ok || len(c.Args) != 2 {
				return true
			}
			if id, ok := c.Fun.(*ast.Ident); !ok || id.Name != "make" {
				return true
			}
			if _, ok := c.Args[0].(*ast.ChanType); !ok {
				return true
			}
			isLen := func(e ast.Expr) bool {
				lc, ok := e.(*ast.CallExpr)
				if !ok || len(lc.Args) != 1 {
					return false
				}
				id, ok := lc.Fun.(*ast.Ident)
				return ok && id.Name == "len"
			}
			switch x := c.Args[1].(type) {
			case *ast.CallExpr:
				if isLen(x) {
					extra = "0"
				}
			case *ast.BinaryExpr:
				if x.Op == token.ADD {
					if bl, ok := x.Y.(*ast.BasicLit); ok && bl.Kind == token.INT && isLen(x.X) {
						extra = bl.Value
					} else if bl, ok := x.X.(*ast.BasicLit); ok && bl.Kind == token.INT && isLen(x.Y) {
						extra = bl.Value
					}
				}
			}
			return true
		})
	}
	st := findFunc("pkg/merge", "Merger.Start")
	if st != nil && st.decl.Body != nil {
		recv := ""
		if st.decl.Recv != nil && len(st.decl.Recv.List) == 1 && len(st.decl.Recv.List[0].Names) == 1 {
			recv = st.decl.Recv.List[0].Names[0].Name
		}
		isErrChan := func(e ast.Expr) bool {
			s, ok := e.(*ast.SelectorExpr)
			if !ok || s.Sel.Name != "errChan" {
				return false
			}
			id, ok := s.X.(*ast.Ident)
			return ok && id.Name == recv
		}
		count := 0
		var walk func(n ast.Node, inLoop bool)
		walk = func(n ast.Node, inLoop bool) {
			ast.Inspect(n, func(m ast.Node) bool {
				switch x := m.(type) {
				case *ast.ForStmt:
					if m != n {
						walk(x.Body, true)
						return false
					}
				case *ast.RangeStmt:
					if m != n {
						walk(x.Body, true)
						return false
					}
				case *ast.CallExpr:
					if !inLoop {
						for _, a := range x.Args {
							if isErrChan(a) {
								count++
							}
						}
					}
				}
				return true
			})
		}
		walk(st.decl.Body, false)
		senders = strconv.Itoa(count)
	}
	return
}
