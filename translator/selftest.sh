#!/bin/bash
# Regression suite for the translator's robustness.
#
#   (a) copies the repository under verification to a scratch directory,
#   (b) applies every behaviour-preserving rewrite testdata/harmless/*.patch and checks
#       that the translator output is UNCHANGED - or changes only in a way under which
#       every gen/Tie_Cnn.v obligation still compiles
#       (the Tie_Code_*.v files are obligations over gen/ExtractedCode.v, which goast.go
#       writes; they are not part of this suite),
#   (c) applies every property-breaking edit testdata/breaking/*.patch and checks that at
#       least one Tie obligation FAILS to compile,
#   and checks that every patched tree still passes `go build ./...`.
#
# Prints one table row per patch and exits non-zero on any unexpected result.
# Nothing under /verif or /repo is modified: translator binary, repository copies and a
# private copy of coq/gen live in a scratch directory (the compiled lib/ and model/
# libraries of /verif/coq are only read).
#
# usage: selftest.sh [-j N] [--no-build] [--with-old] [--only REGEX] [--keep]
#   --no-build   skip `go build ./...` of the patched trees
#   --with-old   also run the pre-AST translator (testdata/old/main.go.orig) and report
#                what it said (column `old`): false alarms on harmless rewrites, and
#                whether it detected the breaking edits
#   --only RE    run only the patches whose name matches RE
set -u
HERE="$(cd "$(dirname "$0")" && pwd)"
VERIF="${VERIF:-$(cd "$HERE/.." && pwd)}"
REPO="${VERIF_REPO:-/repo}"
COQ="$VERIF/coq"
export GOFLAGS=-mod=mod GOPROXY=off GOSUMDB=off GOTOOLCHAIN=local

JOBS=6; BUILD=1; WITH_OLD=0; ONLY='.'; KEEP=0
while [ $# -gt 0 ]; do
  case "$1" in
    -j) JOBS="$2"; shift 2;;
    --no-build) BUILD=0; shift;;
    --with-old) WITH_OLD=1; shift;;
    --only) ONLY="$2"; shift 2;;
    --keep) KEEP=1; shift;;
    *) echo "unknown option $1" >&2; exit 2;;
  esac
done

TMP="$(mktemp -d /tmp/tr-selftest.XXXXXX)"
cleanup() { [ "$KEEP" = 1 ] && echo "scratch kept: $TMP" || rm -rf "$TMP"; }
trap cleanup EXIT

say() { echo "$@" >&2; }

# ---------------------------------------------------------------- build the translator(s)
( cd "${TRANSLATOR_SRC:-$HERE}" && go build -o "$TMP/translator" . ) || { say "translator does not build"; exit 2; }
if [ "$WITH_OLD" = 1 ]; then
  mkdir -p "$TMP/oldsrc"
  cp "$HERE/testdata/old/main.go.orig" "$TMP/oldsrc/main.go"
  cp "$HERE/testdata/old/goast_stub.go.orig" "$TMP/oldsrc/goast_stub.go"
  cp "$HERE/go.mod" "$TMP/oldsrc/"
  ( cd "$TMP/oldsrc" && go build -o "$TMP/translator_old" . ) || { say "old translator does not build"; exit 2; }
fi

# ---------------------------------------------------------------- pristine copy + baseline
# The patches are written against the COMMITTED tree: take HEAD when $REPO is a git
# checkout (its working tree may carry somebody's experiment), else the directory as is.
mkdir -p "$TMP/pristine"
if git -C "$REPO" rev-parse --verify -q HEAD > /dev/null 2>&1 && [ "${SELFTEST_WORKTREE:-0}" != 1 ]; then
  git -C "$REPO" archive HEAD | tar -xf - -C "$TMP/pristine"
  if [ -n "$(git -C "$REPO" status --porcelain 2>/dev/null | head -1)" ]; then
    say "note: $REPO has uncommitted changes; the suite runs on its HEAD ($(git -C "$REPO" rev-parse --short HEAD))"
  fi
else
  ( cd "$REPO" && tar --exclude=.git -cf - . ) | tar -xf - -C "$TMP/pristine"
fi

# tie_check <Extracted.v> <workdir>: compiles Extracted.v, TieLib.v and every Tie_C*.v in a
# private copy of gen/; prints the names of the Tie files that fail (one per line, with
# the first error line) to <workdir>/failed.txt; returns 0.
tie_check() {
  local ext="$1" wd="$2"
  rm -rf "$wd"; mkdir -p "$wd/gen"
  cp "$COQ/gen/TieLib.v" "$COQ"/gen/Tie_C[0-9]*.v "$wd/gen/"
  cp "$ext" "$wd/gen/Extracted.v"
  : > "$wd/failed.txt"
  local Q=(-Q "$COQ/lib" W.lib -Q "$COQ/model" W.model -Q "$wd/gen" W.gen)
  ( cd "$wd" && timeout 300 coqc "${Q[@]}" gen/Extracted.v > "$wd/Extracted.log" 2>&1 ) || { echo "Extracted.v: $(grep -m1 -i error "$wd/Extracted.log")" >> "$wd/failed.txt"; return 0; }
  ( cd "$wd" && timeout 300 coqc "${Q[@]}" gen/TieLib.v > "$wd/TieLib.log" 2>&1 ) || { echo "TieLib.v: $(grep -m1 -i error "$wd/TieLib.log")" >> "$wd/failed.txt"; return 0; }
  # files that other Tie files Require come first
  local first=() second=()
  for f in "$wd"/gen/Tie_C[0-9]*.v; do
    local b; b="$(basename "$f" .v)"
    if grep -q "Require.*Tie_C" "$f"; then second+=("$b"); else first+=("$b"); fi
  done
  local b
  for b in "${first[@]}" "${second[@]}"; do
    if ! ( cd "$wd" && timeout 600 coqc "${Q[@]}" "gen/$b.v" > "$wd/$b.log" 2>&1 ); then
      local why
      why="$(grep -m1 -E '^Error|Unable to unify|Cannot find a physical path|Timeout' "$wd/$b.log" | head -c 100)"
      # the obligation that failed: last "File ..., line N" + name of the Example at that line
      local line
      line="$(grep -m1 -oE 'line [0-9]+' "$wd/$b.log" | grep -oE '[0-9]+')"
      local ob=""
      if [ -n "$line" ]; then
        ob="$(head -n "$line" "$wd/gen/$b.v" | grep -oE '^(Example|Lemma|Theorem) [A-Za-z0-9_]+' | tail -1 | awk '{print $2}')"
      fi
      echo "$b${ob:+:$ob}" >> "$wd/failed.txt"
    fi
  done
  return 0
}

"$TMP/translator" "$TMP/pristine" > "$TMP/base.v" || { say "translator failed on the pristine tree"; exit 2; }
tie_check "$TMP/base.v" "$TMP/basecheck"
if [ -s "$TMP/basecheck/failed.txt" ]; then
  say "INFRASTRUCTURE: the Tie files do not compile for the UNPATCHED tree (are lib/ and model/ built? run ./setup.sh):"
  cat "$TMP/basecheck/failed.txt" >&2
  exit 2
fi
if ! diff -q "$TMP/base.v" "$COQ/gen/Extracted.v" > /dev/null 2>&1; then
  say "note: translator output for the pristine tree differs from $COQ/gen/Extracted.v (that file follows the working tree of the last ./check run)"
fi
if [ "$WITH_OLD" = 1 ]; then
  "$TMP/translator_old" "$TMP/pristine" > "$TMP/base_old.v"
fi

# ---------------------------------------------------------------- one patch
# run_one <slot> <kind> <patchfile>  -> writes $TMP/res/<name>
run_one() {
  local slot="$1" kind="$2" pf="$3"
  local name; name="$(basename "$pf" .patch)"
  local tree="$TMP/slot$slot/repo" wd="$TMP/slot$slot/work"
  local build="-" outcome="" detail="" old="-"
  if [ ! -d "$tree" ]; then mkdir -p "$TMP/slot$slot"; cp -r "$TMP/pristine" "$tree"; fi
  if ! ( cd "$tree" && patch -p1 -s --no-backup-if-mismatch < "$pf" ) > "$TMP/slot$slot/patch.log" 2>&1; then
    echo "$kind|$name|-|PATCH-DOES-NOT-APPLY|$(head -c 80 "$TMP/slot$slot/patch.log" | tr '\n|' '  ')|-|BAD" > "$TMP/res/$name"
    rm -rf "$tree"; return
  fi
  if [ "$BUILD" = 1 ]; then
    if ( cd "$tree" && go build ./... ) > "$TMP/slot$slot/build.log" 2>&1; then build="ok"; else build="FAIL"; fi
  fi
  "$TMP/translator" "$tree" > "$TMP/slot$slot/ext.v" 2> "$TMP/slot$slot/tr.err" || echo "(* translator crashed *)" > "$TMP/slot$slot/ext.v"
  if cmp -s "$TMP/slot$slot/ext.v" "$TMP/base.v"; then
    outcome="unchanged"
  else
    tie_check "$TMP/slot$slot/ext.v" "$wd"
    local changed
    changed="$(diff "$TMP/base.v" "$TMP/slot$slot/ext.v" | grep -oE '^> Definition [a-z_0-9]+' | awk '{print $3}' | tr '\n' ' ')"
    if [ -s "$wd/failed.txt" ]; then
      outcome="TIE-FAILS"; detail="$(tr '\n' ' ' < "$wd/failed.txt")"
    else
      outcome="changed-ties-hold"; detail="$changed"
    fi
  fi
  if [ "$WITH_OLD" = 1 ]; then
    "$TMP/translator_old" "$tree" > "$TMP/slot$slot/ext_old.v" 2>/dev/null
    if cmp -s "$TMP/slot$slot/ext_old.v" "$TMP/base_old.v"; then
      old="unchanged"
    else
      tie_check "$TMP/slot$slot/ext_old.v" "$wd.old"
      if [ -s "$wd.old/failed.txt" ]; then old="tie-fails"; else old="changed-ok"; fi
    fi
  fi
  local verdict="ok"
  case "$kind" in
    harmless) [ "$outcome" = "TIE-FAILS" ] && verdict="BAD";;
    breaking) [ "$outcome" = "TIE-FAILS" ] || verdict="BAD";;
  esac
  [ "$build" = "FAIL" ] && verdict="BAD"
  echo "$kind|$name|$build|$outcome|$detail|$old|$verdict" > "$TMP/res/$name"
  # restore the slot's tree
  if ! ( cd "$tree" && patch -R -p1 -s --no-backup-if-mismatch < "$pf" ) > /dev/null 2>&1 || ! diff -rq "$TMP/pristine" "$tree" > /dev/null 2>&1; then
    rm -rf "$tree"
  fi
}

mkdir -p "$TMP/res"
LIST="$TMP/list.txt"; : > "$LIST"
for kind in harmless breaking; do
  for pf in "$HERE/testdata/$kind"/*.patch; do
    [ -e "$pf" ] || continue
    basename "$pf" | grep -qE "$ONLY" || continue
    echo "$kind $pf" >> "$LIST"
  done
done
TOTAL=$(wc -l < "$LIST")
say "running $TOTAL patches with $JOBS workers (build check: $BUILD) ..."
for ((w = 0; w < JOBS; w++)); do
  (
    k=0
    while read -r kind pf; do
      if [ $((k % JOBS)) -eq "$w" ]; then run_one "$w" "$kind" "$pf"; fi
      k=$((k + 1))
    done < "$LIST"
  ) &
done
wait

# ---------------------------------------------------------------- table
BAD=0
printf '%-9s %-48s %-5s %-18s %-10s %s\n' KIND PATCH BUILD RESULT OLD DETAIL
for kind in harmless breaking; do
  n=0; okc=0; unchanged=0; oldalarm=0; olddet=0
  while read -r k pf; do
    [ "$k" = "$kind" ] || continue
    name="$(basename "$pf" .patch)"
    if [ ! -f "$TMP/res/$name" ]; then line="$kind|$name|-|NO-RESULT||-|BAD"; else line="$(cat "$TMP/res/$name")"; fi
    IFS='|' read -r c1 c2 c3 c4 c5 c6 c7 <<< "$line"
    mark=""; [ "$c7" = "BAD" ] && { mark="  <== UNEXPECTED"; BAD=$((BAD + 1)); }
    printf '%-9s %-48s %-5s %-18s %-10s %s%s\n' "$c1" "$c2" "$c3" "$c4" "$c6" "$c5" "$mark"
    n=$((n + 1)); [ "$c7" = "ok" ] && okc=$((okc + 1)); [ "$c4" = "unchanged" ] && unchanged=$((unchanged + 1))
    [ "$c6" = "tie-fails" ] && { oldalarm=$((oldalarm + 1)); olddet=$((olddet + 1)); }
  done < "$LIST"
  if [ "$kind" = harmless ]; then
    echo "--- harmless: $okc/$n as expected ($unchanged byte-identical output, $((okc - unchanged)) changed with all ties holding)$([ "$WITH_OLD" = 1 ] && echo "; old translator false-alarmed on $oldalarm")"
  else
    echo "--- breaking: $okc/$n detected (at least one Tie obligation fails)$([ "$WITH_OLD" = 1 ] && echo "; old translator detected $olddet")"
  fi
done
if [ "$BAD" -gt 0 ]; then
  echo "SELFTEST FAILED: $BAD unexpected result(s)"
  exit 1
fi
echo "SELFTEST PASSED"
exit 0
