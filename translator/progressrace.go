package main

import (
	"go/ast"
	"go/token"
	"sort"
	"strings"
)

// progressCounterAccess lists (sorted, unique) the kinds of all accesses that the methods of
// pkg/progress.SingleTracker (function literals included) make to the counter fields of the
// type, as "<R|W|RW>:<atomic|locked|plain>".
//
// Counter fields are identified by TYPE, not by name: every field of the struct whose type is
// an integer type (accessed through sync/atomic functions, under a mutex, or plainly) or one
// of the sync/atomic value types (atomic.Int64 ...: every access is a method call = atomic).
// The constructor is not a method and is not looked at (it runs before the value is shared).
//
// The C16 tie requires: all atomic, or all locked (model/TrackerRace.v proves that this is
// sufficient and necessary for data-race freedom of the counters).
func progressCounterAccess() []string {
	fn := findFunc("pkg/progress", "SingleTracker.Start")
	if fn == nil {
		return []string{"?"}
	}
	pkg := fn.pkg
	td, ok := pkg.types["SingleTracker"]
	if !ok || td == nil {
		return []string{"?"}
	}
	st, ok := td.spec.Type.(*ast.StructType)
	if !ok {
		return []string{"?"}
	}
	intTypes := map[string]bool{"int": true, "int8": true, "int16": true, "int32": true, "int64": true,
		"uint": true, "uint8": true, "uint16": true, "uint32": true, "uint64": true, "uintptr": true}
	plainField := map[string]bool{}  // integer fields
	atomicField := map[string]bool{} // atomic.Int64 and friends
	mutexField := map[string]bool{}
	for _, fld := range st.Fields.List {
		t := typeString(fld.Type)
		for _, nm := range fld.Names {
			switch {
			case intTypes[t]:
				plainField[nm.Name] = true
			case isAtomicValueType(td.file, fld.Type):
				atomicField[nm.Name] = true
			case isSyncMutexType(td.file, fld.Type):
				mutexField[nm.Name] = true
			}
		}
	}
	if len(plainField)+len(atomicField) == 0 {
		return []string{"?"}
	}
	seen := map[string]bool{}
	names := make([]string, 0, len(pkg.funcs))
	for k := range pkg.funcs {
		names = append(names, k)
	}
	sort.Strings(names)
	for _, k := range names {
		f := pkg.funcs[k]
		if f.recv != "SingleTracker" || f.decl.Body == nil || f.decl.Recv == nil ||
			len(f.decl.Recv.List) != 1 || len(f.decl.Recv.List[0].Names) != 1 {
			continue
		}
		recv := f.decl.Recv.List[0].Names[0].Name
		w := &counterWalker{file: f.file, recv: recv, plain: plainField, atomic: atomicField, mutex: mutexField, seen: seen}
		w.block(f.decl.Body.List, false)
	}
	out := make([]string, 0, len(seen))
	for k := range seen {
		out = append(out, k)
	}
	sort.Strings(out)
	if len(out) == 0 {
		return []string{"?"}
	}
	return out
}

func isAtomicValueType(f *File, e ast.Expr) bool {
	s, ok := e.(*ast.SelectorExpr)
	if !ok {
		return false
	}
	id, ok := s.X.(*ast.Ident)
	if !ok || f.imports[id.Name] != "sync/atomic" {
		return false
	}
	switch s.Sel.Name {
	case "Int32", "Int64", "Uint32", "Uint64", "Uintptr":
		return true
	}
	return false
}

func isSyncMutexType(f *File, e ast.Expr) bool {
	s, ok := e.(*ast.SelectorExpr)
	if !ok {
		return false
	}
	id, ok := s.X.(*ast.Ident)
	if !ok || f.imports[id.Name] != "sync" {
		return false
	}
	return s.Sel.Name == "Mutex" || s.Sel.Name == "RWMutex"
}

type counterWalker struct {
	file   *File
	recv   string
	plain  map[string]bool
	atomic map[string]bool
	mutex  map[string]bool
	seen   map[string]bool
}

// field returns the counter field name if e is recv.<counter field>.
func (w *counterWalker) field(e ast.Expr, set map[string]bool) (string, bool) {
	s, ok := unparen(e).(*ast.SelectorExpr)
	if !ok {
		return "", false
	}
	id, ok := s.X.(*ast.Ident)
	if !ok || id.Name != w.recv || !set[s.Sel.Name] {
		return "", false
	}
	return s.Sel.Name, true
}

// mutexCall: recv.<mutex field>.Lock() etc.
func (w *counterWalker) mutexCall(e ast.Expr) (string, bool) {
	c, ok := e.(*ast.CallExpr)
	if !ok {
		return "", false
	}
	s, ok := c.Fun.(*ast.SelectorExpr)
	if !ok {
		return "", false
	}
	if _, ok := w.field(s.X, w.mutex); !ok {
		return "", false
	}
	return s.Sel.Name, true
}

// block walks a statement list keeping track of whether the receiver's mutex is held
// (Lock()/RLock() ... Unlock()/RUnlock() in the same list, or Lock() + defer Unlock()).
func (w *counterWalker) block(l []ast.Stmt, held bool) {
	for _, s := range l {
		if es, ok := s.(*ast.ExprStmt); ok {
			if op, ok := w.mutexCall(es.X); ok {
				switch op {
				case "Lock", "RLock":
					held = true
				case "Unlock", "RUnlock":
					held = false
				}
				continue
			}
		}
		if ds, ok := s.(*ast.DeferStmt); ok {
			if _, ok := w.mutexCall(ds.Call); ok {
				continue // deferred unlock: held to the end of the function
			}
		}
		w.stmt(s, held)
	}
}

func (w *counterWalker) kind(held bool) string {
	if held {
		return "locked"
	}
	return "plain"
}

func (w *counterWalker) stmt(s ast.Stmt, held bool) {
	switch x := s.(type) {
	case nil:
	case *ast.AssignStmt:
		for _, r := range x.Rhs {
			w.expr(r, held)
		}
		for _, l := range x.Lhs {
			if _, ok := w.field(l, w.plain); ok {
				if x.Tok == token.ASSIGN || x.Tok == token.DEFINE {
					w.seen["W:"+w.kind(held)] = true
				} else {
					w.seen["RW:"+w.kind(held)] = true
				}
				continue
			}
			w.expr(l, held)
		}
	case *ast.IncDecStmt:
		if _, ok := w.field(x.X, w.plain); ok {
			w.seen["RW:"+w.kind(held)] = true
			return
		}
		w.expr(x.X, held)
	case *ast.BlockStmt:
		w.block(x.List, held)
	case *ast.IfStmt:
		w.stmt(x.Init, held)
		w.expr(x.Cond, held)
		w.block(x.Body.List, held)
		w.stmt(x.Else, held)
	case *ast.ForStmt:
		w.stmt(x.Init, held)
		if x.Cond != nil {
			w.expr(x.Cond, held)
		}
		w.stmt(x.Post, held)
		w.block(x.Body.List, held)
	case *ast.RangeStmt:
		w.expr(x.X, held)
		w.block(x.Body.List, held)
	case *ast.SelectStmt:
		w.block(x.Body.List, held)
	case *ast.SwitchStmt:
		w.stmt(x.Init, held)
		if x.Tag != nil {
			w.expr(x.Tag, held)
		}
		w.block(x.Body.List, held)
	case *ast.TypeSwitchStmt:
		w.block(x.Body.List, held)
	case *ast.CaseClause:
		for _, e := range x.List {
			w.expr(e, held)
		}
		w.block(x.Body, held)
	case *ast.CommClause:
		w.stmt(x.Comm, held)
		w.block(x.Body, held)
	case *ast.GoStmt:
		// a new goroutine does not hold the caller's lock
		w.expr(x.Call, false)
	case *ast.DeferStmt:
		w.expr(x.Call, held)
	case *ast.ExprStmt:
		w.expr(x.X, held)
	case *ast.ReturnStmt:
		for _, r := range x.Results {
			w.expr(r, held)
		}
	case *ast.SendStmt:
		w.expr(x.Chan, held)
		w.expr(x.Value, held)
	case *ast.LabeledStmt:
		w.stmt(x.Stmt, held)
	case *ast.DeclStmt:
		ast.Inspect(x, func(n ast.Node) bool {
			if e, ok := n.(ast.Expr); ok {
				w.expr(e, held)
				return false
			}
			return true
		})
	}
}

func (w *counterWalker) expr(e ast.Expr, held bool) {
	if e == nil {
		return
	}
	ast.Inspect(e, func(n ast.Node) bool {
		switch x := n.(type) {
		case *ast.FuncLit:
			w.block(x.Body.List, held)
			return false
		case *ast.CallExpr:
			// atomic.LoadInt64(&recv.f) / StoreInt64 / AddInt64 / SwapInt64 / CompareAndSwapInt64
			if s, ok := x.Fun.(*ast.SelectorExpr); ok {
				if id, ok := s.X.(*ast.Ident); ok && w.file.imports[id.Name] == "sync/atomic" && len(x.Args) > 0 {
					if u, ok := unparen(x.Args[0]).(*ast.UnaryExpr); ok && u.Op == token.AND {
						if _, ok := w.field(u.X, w.plain); ok {
							switch {
							case strings.HasPrefix(s.Sel.Name, "Load"):
								w.seen["R:atomic"] = true
							case strings.HasPrefix(s.Sel.Name, "Store"):
								w.seen["W:atomic"] = true
							default:
								w.seen["RW:atomic"] = true
							}
							for _, a := range x.Args[1:] {
								w.expr(a, held)
							}
							return false
						}
					}
				}
				// recv.f.Load() / Store / Add ... on an atomic.Int64 field
				if _, ok := w.field(s.X, w.atomic); ok {
					switch {
					case s.Sel.Name == "Load":
						w.seen["R:atomic"] = true
					case s.Sel.Name == "Store":
						w.seen["W:atomic"] = true
					default:
						w.seen["RW:atomic"] = true
					}
					for _, a := range x.Args {
						w.expr(a, held)
					}
					return false
				}
			}
		case *ast.UnaryExpr:
			// &recv.f escaping anywhere else: unknown use
			if x.Op == token.AND {
				if _, ok := w.field(x.X, w.plain); ok {
					w.seen["RW:plain"] = true
					return false
				}
			}
		case *ast.SelectorExpr:
			if _, ok := w.field(x, w.plain); ok {
				w.seen["R:"+w.kind(held)] = true
				return false
			}
		}
		return true
	})
}
