// goast.go: translation of Go function BODIES into the deeply embedded language of
// coq/lib/GoLang.v.  For each function of goastWhitelist the go/ast body is converted
// into a term `go_<name> : func` of coq/gen/ExtractedCode.v; coq/gen/Tie_Code.v proves that
// running that term equals the hand-written model for all inputs, so an edit of such a
// function breaks a proof obligation.
//
// Syntax only (go/parser, go/ast), the repo code is never executed.  The translator does a
// small local type inference (parameter types, :=, conversions, len, index) because Go's
// integer arithmetic wraps at the static type: every + - * (and signed /) is emitted inside an
// explicit `EWrap kind`.  Variables and loops are NUMBERED (parameters first, then in order of
// declaration), shadowing is resolved here, unlabelled break/continue are resolved to the loop
// they leave.  Anything not understood becomes `SUnsupported "<reason>"` / `EUnsupported ..`,
// which the interpreter maps to OStuck so that the proof obligation fails honestly.
//
// This file is self-contained (own parser cache, prefix goast/ga) on purpose: main.go only
// calls goastEmit(repoRoot, outPath) when a second command line argument is given.
package main

import (
	"fmt"
	"go/ast"
	"go/constant"
	"go/parser"
	"go/token"
	"go/types"
	"os"
	"path/filepath"
	"sort"
	"strconv"
	"strings"
)

type gaKernel struct {
	dir  string // package directory relative to the repo root
	file string // file name inside dir
	name string // function name, or "Recv.method"
}

// coqName: go_f for a function, go_Recv_m for a method
func (k gaKernel) coqName() string { return "go_" + strings.ReplaceAll(k.name, ".", "_") }

// The whitelist.  Order matters only for the output file.
var goastWhitelist = []gaKernel{
	{"pkg/diff", "row_list_reader.go", "RowToBlockAndOffset"},
	{"pkg/slice", "slice.go", "StringSliceEqual"},
	{"pkg/objects", "str_list.go", "StringSliceIsLess"},
	{"pkg/sorter", "sorter.go", "pkIsDifferent"},
	{"pkg/objects", "str_list.go", "ValidateStrListBytes"},
	{"pkg/objects", "block.go", "ValidateBlockBytes"},
	{"pkg/diff", "iterate.go", "findOverlappingBlocks"},
	{"pkg/slice", "slice.go", "KeyIndices"},
	{"pkg/encoding/packfile", "packfile.go", "encodeObjTypeAndLen"},
	{"pkg/prune", "prune.go", "childrenFirst"},
	{"pkg/objects", "block.go", "CombineRowBytesIntoBlock"},
	{"pkg/slice", "slice.go", "IndicesToValues"},
	{"pkg/slice", "slice.go", "CopyValuesFromIndices"},
	{"pkg/sorter", "sorter.go", "Sorter.removeCols"},
	{"pkg/objects", "str_list.go", "StrList.seekColumnOffset"},
	{"pkg/objects", "str_list.go", "StrList.seekColumn"},
	{"pkg/objects", "str_list.go", "StrList.LessThan"},
	{"pkg/objects", "block_index.go", "BlockIndex.Len"},
	{"pkg/objects", "block_index.go", "BlockIndex.Get"},
	{"pkg/index", "fanout.go", "addToFanoutTable"},
	{"pkg/objects", "str_list.go", "StrListEncoder.Encode"},
}

// Outside-world functions ([SOracle] of lib/GoLang.v): calls whose result comes from the store.
// The semantics is the oracle of the program, over which the theorems quantify.  A returned
// struct is the list of the fields the translated code may read, in the order given here.
type gaOracle struct {
	importPath string   // package of the function
	name       string   // function name
	params     []string // parameter types; "objects.Store" arguments are dropped
	results    []string
}

var gaOracles = []gaOracle{
	{gaModule + "pkg/objects", "GetCommit", []string{"objects.Store", "[]uint8"}, []string{"struct:objects.Commit", "error"}},
}

// fields of oracle-returned structs: type -> field -> (index, type)
type gaField struct {
	idx int
	typ string
}

var gaStructs = map[string]map[string]gaField{
	"struct:objects.Commit": {"Parents": {0, "[][]uint8"}},
}

const gaModule = "github.com/wrgl/wrgl/"

var gaFset = token.NewFileSet()
var gaRoot string
var gaFiles = map[string]*ast.File{}

func gaParse(rel string) *ast.File {
	if f, ok := gaFiles[rel]; ok {
		return f
	}
	f, err := parser.ParseFile(gaFset, filepath.Join(gaRoot, rel), nil, 0)
	if err != nil {
		f = nil
	}
	gaFiles[rel] = f
	return f
}

// gaFindFunc finds function `name` or method "Recv.name" (pointer or value receiver)
func gaFindFunc(f *ast.File, name string) *ast.FuncDecl {
	if f == nil {
		return nil
	}
	recv := ""
	if i := strings.Index(name, "."); i >= 0 {
		recv, name = name[:i], name[i+1:]
	}
	for _, d := range f.Decls {
		fd, ok := d.(*ast.FuncDecl)
		if !ok || fd.Name.Name != name {
			continue
		}
		if recv == "" && fd.Recv == nil {
			return fd
		}
		if recv != "" && fd.Recv != nil && len(fd.Recv.List) == 1 {
			ty := fd.Recv.List[0].Type
			if st, ok := ty.(*ast.StarExpr); ok {
				ty = st.X
			}
			if id, ok := ty.(*ast.Ident); ok && id.Name == recv {
				return fd
			}
		}
	}
	return nil
}

// gaUsesIdent: does the body refer to the object declared by decl (go/parser's scope
// resolution: a shadowing variable of the same name is a different object)?
func gaUsesIdent(body ast.Node, decl *ast.Ident) bool {
	used := false
	ast.Inspect(body, func(n ast.Node) bool {
		if id, ok := n.(*ast.Ident); ok && id.Name == decl.Name && (decl.Obj == nil || id.Obj == decl.Obj) {
			used = true
		}
		return true
	})
	return used
}

// gaConst looks for an integer constant `name` in any non-test file of package directory dir.
func gaConst(dir, name string) (string, bool) {
	ents, err := os.ReadDir(filepath.Join(gaRoot, dir))
	if err != nil {
		return "", false
	}
	for _, e := range ents {
		n := e.Name()
		if !strings.HasSuffix(n, ".go") || strings.HasSuffix(n, "_test.go") {
			continue
		}
		f := gaParse(filepath.Join(dir, n))
		if f == nil {
			continue
		}
		for _, d := range f.Decls {
			gd, ok := d.(*ast.GenDecl)
			if !ok || gd.Tok != token.CONST {
				continue
			}
			for _, sp := range gd.Specs {
				vs := sp.(*ast.ValueSpec)
				for i, id := range vs.Names {
					if id.Name != name || i >= len(vs.Values) || vs.Type != nil {
						continue
					}
					// a constant expression without identifiers (e.g. 255, 1 << 32)
					hasIdent := false
					ast.Inspect(vs.Values[i], func(n ast.Node) bool {
						if _, ok := n.(*ast.Ident); ok {
							hasIdent = true
						}
						return true
					})
					if hasIdent {
						continue
					}
					tv, err := types.Eval(gaFset, nil, token.NoPos, gaSrc(vs.Values[i]))
					if err == nil && tv.Value != nil && tv.Value.Kind() == constant.Int {
						return tv.Value.ExactString(), true
					}
				}
			}
		}
	}
	return "", false
}

// ---------------------------------------------------------------------------
// types (strings): int uint8 uint16 uint32 uint64 int8.. bool string error []T *T untyped nil ?

// gaCurDir: package directory of the function being translated (for named types)
var gaCurDir string

// gaUnderlying: the underlying type of `type name <slice or basic type>` declared in package dir
func gaUnderlying(dir, name string) (string, bool) {
	ents, err := os.ReadDir(filepath.Join(gaRoot, dir))
	if err != nil {
		return "", false
	}
	for _, e := range ents {
		n := e.Name()
		if !strings.HasSuffix(n, ".go") || strings.HasSuffix(n, "_test.go") {
			continue
		}
		f := gaParse(filepath.Join(dir, n))
		if f == nil {
			continue
		}
		for _, d := range f.Decls {
			gd, ok := d.(*ast.GenDecl)
			if !ok || gd.Tok != token.TYPE {
				continue
			}
			for _, sp := range gd.Specs {
				ts := sp.(*ast.TypeSpec)
				if ts.Name.Name != name || ts.Assign != token.NoPos {
					continue
				}
				if at, ok := ts.Type.(*ast.ArrayType); ok && at.Len == nil {
					if el, ok := at.Elt.(*ast.Ident); ok {
						switch el.Name {
						case "byte", "uint8":
							return "[]uint8", true
						case "string", "int", "uint32":
							return "[]" + el.Name, true
						}
					}
				}
			}
		}
	}
	return "", false
}

// gaStructFields: the fields (name, type) of `type name struct {..}` declared in package dir
func gaStructFields(dir, name string) ([]string, []string, bool) {
	ents, err := os.ReadDir(filepath.Join(gaRoot, dir))
	if err != nil {
		return nil, nil, false
	}
	for _, e := range ents {
		n := e.Name()
		if !strings.HasSuffix(n, ".go") || strings.HasSuffix(n, "_test.go") {
			continue
		}
		f := gaParse(filepath.Join(dir, n))
		if f == nil {
			continue
		}
		for _, d := range f.Decls {
			gd, ok := d.(*ast.GenDecl)
			if !ok || gd.Tok != token.TYPE {
				continue
			}
			for _, sp := range gd.Specs {
				ts := sp.(*ast.TypeSpec)
				st, ok := ts.Type.(*ast.StructType)
				if ts.Name.Name != name || !ok {
					continue
				}
				names, typs := gaFieldTypes(st.Fields)
				return names, typs, true
			}
		}
	}
	return nil, nil, false
}

// gaRecvStruct: a method whose receiver is (a pointer to) a struct of the package.  The fields
// become leading parameters named "recv.field"; they may only be READ (the translator has no
// assignment form for them), so the method is a function of the field values.
func gaRecvStruct(fd *ast.FuncDecl) (recv string, names, typs []string, ok bool) {
	if fd.Recv == nil || len(fd.Recv.List) != 1 || len(fd.Recv.List[0].Names) != 1 {
		return "", nil, nil, false
	}
	ty := fd.Recv.List[0].Type
	if st, isStar := ty.(*ast.StarExpr); isStar {
		ty = st.X
	}
	id, isId := ty.(*ast.Ident)
	if !isId {
		return "", nil, nil, false
	}
	fn, ft, found := gaStructFields(gaCurDir, id.Name)
	if !found {
		return "", nil, nil, false
	}
	return fd.Recv.List[0].Names[0].Name, fn, ft, true
}

var gaBuiltinTypes = map[string]bool{"int": true, "int8": true, "int16": true, "int32": true, "int64": true,
	"uint8": true, "uint16": true, "uint32": true, "uint64": true, "bool": true, "string": true, "error": true}

func gaTypeStr(e ast.Expr) string {
	switch t := e.(type) {
	case *ast.Ident:
		switch t.Name {
		case "byte":
			return "uint8"
		case "rune":
			return "int32"
		case "uint":
			return "uint64"
		}
		if !gaBuiltinTypes[t.Name] && gaCurDir != "" {
			if u, ok := gaUnderlying(gaCurDir, t.Name); ok {
				return u // a named slice type: methods are resolved by name (see calleeKey)
			}
		}
		return t.Name
	case *ast.ArrayType:
		if t.Len == nil {
			return "[]" + gaTypeStr(t.Elt)
		}
	case *ast.StarExpr:
		// *[N]T: a pointer to an array is an in/out slice of fixed length (x[i] auto-dereferences)
		if at, ok := t.X.(*ast.ArrayType); ok && at.Len != nil {
			return "[]" + gaTypeStr(at.Elt)
		}
		return "*" + gaTypeStr(t.X)
	case *ast.SelectorExpr:
		if id, ok := t.X.(*ast.Ident); ok {
			return id.Name + "." + t.Sel.Name
		}
	case *ast.MapType:
		// map[K]struct{} with an integer key is a set of integers
		if st, ok := t.Value.(*ast.StructType); ok && (st.Fields == nil || len(st.Fields.List) == 0) {
			if k := gaTypeStr(t.Key); gaIsInt(k) {
				return "set[" + k + "]"
			}
			if gaTypeStr(t.Key) == "string" {
				return "map[string]struct{}"
			}
		}
		if k := gaTypeStr(t.Key); k == "string" || k == "uint8" {
			if v := gaTypeStr(t.Value); v != "?" && !strings.HasPrefix(v, "map[") {
				return "map[" + k + "]" + v
			}
		}
	}
	return "?"
}

// gaEmptyStruct: the expression struct{}{}
func gaEmptyStruct(e ast.Expr) bool {
	cl, ok := e.(*ast.CompositeLit)
	if !ok || len(cl.Elts) != 0 {
		return false
	}
	st, ok := cl.Type.(*ast.StructType)
	return ok && (st.Fields == nil || len(st.Fields.List) == 0)
}

// kind returns the GoLang.ikind of an integer type
func gaKind(t string) (string, bool) {
	switch t {
	case "int", "int64":
		return "(IS 64)", true
	case "int32":
		return "(IS 32)", true
	case "int16":
		return "(IS 16)", true
	case "int8":
		return "(IS 8)", true
	case "uint64":
		return "(IU 64)", true
	case "uint32":
		return "(IU 32)", true
	case "uint16":
		return "(IU 16)", true
	case "uint8":
		return "(IU 8)", true
	}
	return "", false
}

func gaBits(t string) (bits int, signed bool, ok bool) {
	switch t {
	case "int", "int64":
		return 64, true, true
	case "int32":
		return 32, true, true
	case "int16":
		return 16, true, true
	case "int8":
		return 8, true, true
	case "uint64":
		return 64, false, true
	case "uint32":
		return 32, false, true
	case "uint16":
		return 16, false, true
	case "uint8":
		return 8, false, true
	}
	return 0, false, false
}

// does every value of integer type from fit into integer type to?
func gaFits(from, to string) bool {
	fb, fs, ok1 := gaBits(from)
	tb, ts, ok2 := gaBits(to)
	if !ok1 || !ok2 {
		return false
	}
	switch {
	case fs == ts:
		return fb <= tb
	case !fs && ts:
		return fb < tb
	}
	return false
}

func gaZero(t string) string {
	if _, ok := gaKind(t); ok {
		return "(EInt 0)"
	}
	switch {
	case t == "bool":
		return "(EBool false)"
	case t == "string":
		return "(EStr [])"
	case t == "error":
		return "ENil"
	case t == "[]uint8":
		return "(EStr [])"
	case strings.HasPrefix(t, "[]"):
		return "(EMakeList (EInt 0) VUnset)"
	}
	return gaUnsE("zero value of type " + t)
}

func gaCoqString(s string) string { return "\"" + strings.ReplaceAll(s, "\"", "\"\"") + "\"" }
func gaUnsE(why string) string    { return "(EUnsupported " + gaCoqString(why) + ")" }
func gaUnsS(why string) string    { return "(SUnsupported " + gaCoqString(why) + ")" }

// ---------------------------------------------------------------------------

type gaVar struct {
	idx  int
	typ  string
	name string
}

type gaLoop struct {
	id    int
	label string
}

type gaSig struct {
	key        string
	params     []string
	results    []string
	recvStruct bool // the leading parameters are the fields of a struct receiver
}

type gaTr struct {
	pkg      string
	dir      string
	imports  map[string]string // local name -> import path
	scopes   []map[string]*gaVar
	vars     []*gaVar
	loops    []gaLoop
	nloops   int
	outs     map[int]bool
	named    []*gaVar // named results
	resTypes []string
	pre      []string // hoisted call statements for the expression being translated
	hoistOK  bool
	label    string // pending label for the next loop
	nparams  int
	frozen   map[int]int // variables being ranged over: no writes inside the loop body
	recvName string      // struct receiver identifier ("" if none)
	recvObj  *ast.Object
	recvFlds []string        // its fields, in declaration order (parameters 0..len-1)
	spare    map[string]bool // fields whose capacity is used: companion variable "recv.f.spare"
}

var gaSigs = map[string]*gaSig{} // key "pkg.Func"

func (t *gaTr) push() { t.scopes = append(t.scopes, map[string]*gaVar{}) }
func (t *gaTr) pop()  { t.scopes = t.scopes[:len(t.scopes)-1] }

func (t *gaTr) lookup(name string) *gaVar {
	for i := len(t.scopes) - 1; i >= 0; i-- {
		if v, ok := t.scopes[i][name]; ok {
			return v
		}
	}
	return nil
}

func (t *gaTr) declare(name, typ string) *gaVar {
	v := &gaVar{idx: len(t.vars), typ: typ, name: name}
	t.vars = append(t.vars, v)
	if name != "" && name != "_" {
		t.scopes[len(t.scopes)-1][name] = v
	}
	return v
}

func (t *gaTr) evar(v *gaVar) string {
	return fmt.Sprintf("(EVar %d (*%s*))", v.idx, v.name)
}

func gaSeq(ss []string) string {
	if len(ss) == 0 {
		return "SSkip"
	}
	if len(ss) == 1 {
		return ss[0]
	}
	return "(SSeq " + ss[0] + "\n" + gaSeq(ss[1:]) + ")"
}

func gaList(xs []string) string { return "[" + strings.Join(xs, "; ") + "]" }

// ---------------------------------------------------------------------------
// expressions

var gaBinops = map[token.Token]string{
	token.ADD: "Add", token.SUB: "Sub", token.MUL: "Mul", token.QUO: "Quot", token.REM: "Rem",
	token.SHL: "Shl", token.SHR: "Shr", token.AND: "BAnd", token.OR: "BOr", token.XOR: "BXor",
	token.EQL: "Eq", token.NEQ: "Ne", token.LSS: "Lt", token.LEQ: "Le", token.GTR: "Gt", token.GEQ: "Ge",
}

var gaAssignOps = map[token.Token]token.Token{
	token.ADD_ASSIGN: token.ADD, token.SUB_ASSIGN: token.SUB, token.MUL_ASSIGN: token.MUL,
	token.QUO_ASSIGN: token.QUO, token.REM_ASSIGN: token.REM, token.AND_ASSIGN: token.AND,
	token.OR_ASSIGN: token.OR, token.XOR_ASSIGN: token.XOR, token.SHL_ASSIGN: token.SHL,
	token.SHR_ASSIGN: token.SHR,
}

// importPathOf returns the import path when e is an identifier naming an imported package
func (t *gaTr) importPathOf(e ast.Expr) (string, bool) {
	id, ok := e.(*ast.Ident)
	if !ok || t.lookup(id.Name) != nil {
		return "", false
	}
	p, ok := t.imports[id.Name]
	return p, ok
}

// binary builds the Coq term for `a op b` where both sides are already translated
func (t *gaTr) binary(op token.Token, ca, ta, cb, tb string) (string, string) {
	name, ok := gaBinops[op]
	if !ok {
		return gaUnsE("operator " + op.String()), "?"
	}
	// operand type
	ty := ta
	switch {
	case op == token.SHL || op == token.SHR:
		ty = ta // the count may have any integer type
		if _, ok := gaKind(tb); !ok && tb != "untyped" {
			return gaUnsE("shift count of type " + tb), "?"
		}
	case ta == "untyped":
		ty = tb
	case tb == "untyped" || ta == tb:
	case (ta == "nil" && tb == "error") || (ta == "error" && tb == "nil"):
		ty = "error"
	case (op == token.EQL || op == token.NEQ) && tb == "nil" && (strings.HasPrefix(ta, "set[") || strings.HasPrefix(ta, "map[string]")):
		return "(EBin " + name + " " + ca + " " + cb + ")", "bool" // map == nil
	default:
		return gaUnsE("operands of different types " + ta + " and " + tb), "?"
	}
	term := "(EBin " + name + " " + ca + " " + cb + ")"
	switch op {
	case token.EQL, token.NEQ:
		if _, ok := gaKind(ty); ok || ty == "untyped" || ty == "string" || ty == "bool" || ty == "error" {
			return term, "bool"
		}
		return gaUnsE("comparison at type " + ty), "?"
	case token.LSS, token.LEQ, token.GTR, token.GEQ:
		if _, ok := gaKind(ty); ok || ty == "untyped" || ty == "string" {
			return term, "bool"
		}
		return gaUnsE("ordering at type " + ty), "?"
	case token.ADD:
		if ty == "string" {
			return term, "string"
		}
	}
	if ty == "untyped" {
		return term, "untyped" // exact constant arithmetic
	}
	k, ok := gaKind(ty)
	if !ok {
		return gaUnsE("arithmetic at type " + ty), "?"
	}
	_, signed, _ := gaBits(ty)
	switch op {
	case token.ADD, token.SUB, token.MUL, token.SHL:
		return "(EWrap " + k + " " + term + ")", ty
	case token.QUO:
		if signed {
			return "(EWrap " + k + " " + term + ")", ty
		}
		return term, ty
	}
	return term, ty // % >> & | ^ stay in range
}

func (t *gaTr) expr(e ast.Expr) (string, string) {
	switch x := e.(type) {
	case *ast.ParenExpr:
		return t.expr(x.X)
	case *ast.BasicLit:
		switch x.Kind {
		case token.INT:
			tv, err := types.Eval(gaFset, nil, token.NoPos, x.Value)
			if err == nil && tv.Value != nil {
				return "(EInt " + gaZ(tv.Value.ExactString()) + ")", "untyped"
			}
		case token.STRING:
			s, err := strconv.Unquote(x.Value)
			if err == nil {
				bs := []string{}
				for _, b := range []byte(s) {
					bs = append(bs, fmt.Sprintf("%d%%N", b))
				}
				return "(EStr " + gaList(bs) + ")", "string"
			}
		}
		return gaUnsE("literal " + x.Value), "?"
	case *ast.Ident:
		if v := t.lookup(x.Name); v != nil {
			if strings.HasPrefix(v.typ, "*") {
				return gaUnsE("pointer " + x.Name + " used as a value"), "?"
			}
			return t.evar(v), v.typ
		}
		switch x.Name {
		case "true":
			return "(EBool true)", "bool"
		case "false":
			return "(EBool false)", "bool"
		case "nil":
			return "ENil", "nil"
		}
		if c, ok := gaConst(t.dir, x.Name); ok {
			return "(EInt " + gaZ(c) + " (*" + x.Name + "*))", "untyped"
		}
		return gaUnsE("identifier " + x.Name), "?"
	case *ast.SelectorExpr:
		if p, ok := t.importPathOf(x.X); ok && strings.HasPrefix(p, gaModule) {
			if c, ok := gaConst(strings.TrimPrefix(p, gaModule), x.Sel.Name); ok {
				return "(EInt " + gaZ(c) + " (*" + x.Sel.Name + "*))", "untyped"
			}
		}
		if id, ok := x.X.(*ast.Ident); ok && t.recvName != "" && id.Name == t.recvName && (t.recvObj == nil || id.Obj == t.recvObj) {
			if v := t.lookup(t.recvName + "." + x.Sel.Name); v != nil {
				return t.evar(v), v.typ
			}
		}
		if id, ok := x.X.(*ast.Ident); ok {
			if v := t.lookup(id.Name); v != nil {
				if f, ok := gaStructs[v.typ][x.Sel.Name]; ok {
					return fmt.Sprintf("(EIndex %s (EInt %d) (*.%s*))", t.evar(v), f.idx, x.Sel.Name), f.typ
				}
			}
		}
		return gaUnsE("selector " + gaSrc(x)), "?"
	case *ast.StarExpr:
		if id, ok := x.X.(*ast.Ident); ok {
			if v := t.lookup(id.Name); v != nil && strings.HasPrefix(v.typ, "*") {
				return t.evar(v), v.typ[1:]
			}
		}
		return gaUnsE("dereference " + gaSrc(x)), "?"
	case *ast.UnaryExpr:
		c, ty := t.expr(x.X)
		switch x.Op {
		case token.NOT:
			if ty == "bool" {
				return "(ENot " + c + ")", "bool"
			}
		case token.SUB:
			if lit, ok := x.X.(*ast.BasicLit); ok && lit.Kind == token.INT && ty == "untyped" {
				if tv, err := types.Eval(gaFset, nil, token.NoPos, "-"+lit.Value); err == nil && tv.Value != nil {
					return "(EInt " + gaZ(tv.Value.ExactString()) + ")", "untyped"
				}
			}
			return t.binary(token.SUB, "(EInt 0)", "untyped", c, ty)
		case token.ADD:
			return c, ty
		}
		return gaUnsE("unary " + x.Op.String()), "?"
	case *ast.BinaryExpr:
		if x.Op == token.LAND || x.Op == token.LOR {
			ca, ta := t.expr(x.X)
			saved := t.hoistOK
			t.hoistOK = false // the right operand is evaluated conditionally
			cb, tb := t.expr(x.Y)
			t.hoistOK = saved
			if ta != "bool" || tb != "bool" {
				return gaUnsE("&&/|| on non-bool"), "?"
			}
			if x.Op == token.LAND {
				return "(EAnd " + ca + " " + cb + ")", "bool"
			}
			return "(EOr " + ca + " " + cb + ")", "bool"
		}
		ca, ta := t.expr(x.X)
		cb, tb := t.expr(x.Y)
		return t.binary(x.Op, ca, ta, cb, tb)
	case *ast.IndexExpr:
		ca, ta := t.expr(x.X)
		ci, ti := t.expr(x.Index)
		if _, ok := gaKind(ti); !ok && ti != "untyped" && !strings.HasPrefix(ta, "map[") {
			return gaUnsE("index of type " + ti), "?"
		}
		if kt, vt, ok := gaMapType(ta); ok {
			ck, ok := gaMapKey(kt, ci, ti)
			if !ok {
				return gaUnsE("map key of type " + ti), "?"
			}
			return "(EMapGet " + ca + " " + ck + " " + gaZeroValue(vt) + ")", vt
		}
		switch {
		case ta == "string":
			return "(EIndex " + ca + " " + ci + ")", "uint8"
		case strings.HasPrefix(ta, "[]"):
			return "(EIndex " + ca + " " + ci + ")", ta[2:]
		}
		return gaUnsE("index into " + ta), "?"
	case *ast.SliceExpr:
		if x.Slice3 {
			return gaUnsE("3-index slice"), "?"
		}
		ca, ta := t.expr(x.X)
		if ta != "string" && !strings.HasPrefix(ta, "[]") {
			return gaUnsE("slice of " + ta), "?"
		}
		lo, hi := "None", "None"
		if x.Low != nil {
			c, ty := t.expr(x.Low)
			if _, ok := gaKind(ty); !ok && ty != "untyped" {
				return gaUnsE("slice bound of type " + ty), "?"
			}
			lo = "(Some " + c + ")"
		}
		if x.High != nil {
			c, ty := t.expr(x.High)
			if _, ok := gaKind(ty); !ok && ty != "untyped" {
				return gaUnsE("slice bound of type " + ty), "?"
			}
			hi = "(Some " + c + ")"
		}
		return "(ESlice " + ca + " " + lo + " " + hi + ")", ta
	case *ast.CallExpr:
		return t.call(x)
	case *ast.CompositeLit:
		if gaEmptyStruct(x) {
			return "ENil", "struct{}"
		}
		if ty := gaTypeStr(x.Type); len(x.Elts) == 0 {
			switch {
			case strings.HasPrefix(ty, "set["):
				return "(EMakeList (EInt 0) VUnset)", ty // empty set
			case strings.HasPrefix(ty, "map[string]"), strings.HasPrefix(ty, "map[uint8]"):
				return "EMapEmpty", ty
			case ty == "[]uint8":
				return "(EStr [])", ty
			case strings.HasPrefix(ty, "[]"):
				return "(EMakeList (EInt 0) VUnset)", ty
			}
		}
		return gaUnsE("composite literal " + gaSrc(x)), "?"
	}
	return gaUnsE(fmt.Sprintf("expression %T", e)), "?"
}

func gaZ(s string) string {
	if strings.HasPrefix(s, "-") {
		return "(" + s + ")"
	}
	return s
}

func gaSrc(n ast.Node) string {
	start, end := gaFset.Position(n.Pos()), gaFset.Position(n.End())
	b, err := os.ReadFile(start.Filename)
	if err != nil || end.Offset > len(b) {
		return "?"
	}
	return strings.Join(strings.Fields(string(b[start.Offset:end.Offset])), " ")
}

// calleeKey: "pkg.Func" for a call to a function of the whitelist
func (t *gaTr) calleeKey(fun ast.Expr) (string, bool) {
	switch f := fun.(type) {
	case *ast.Ident:
		if t.lookup(f.Name) == nil {
			k := t.pkg + "." + f.Name
			_, ok := gaSigs[k]
			return k, ok
		}
	case *ast.SelectorExpr:
		if p, ok := t.importPathOf(f.X); ok {
			k := filepath.Base(p) + "." + f.Sel.Name
			if s, ok := gaSigs[k]; ok && gaModule+s.key == p+"/"+f.Sel.Name {
				return k, true
			}
		}
		if k, ok := t.methodKey(f); ok {
			return k, true
		}
	}
	return "", false
}

// methodKey: x.m(..) for a variable x and a translated method T.m of the current package whose
// receiver type is x's type (a named slice type; method names are unique in the whitelist)
func (t *gaTr) methodKey(f *ast.SelectorExpr) (string, bool) {
	id, ok := f.X.(*ast.Ident)
	if !ok {
		return "", false
	}
	if t.recvName != "" && id.Name == t.recvName && (t.recvObj == nil || id.Obj == t.recvObj) {
		// recv.m(..): another translated method of the same struct type
		for k, sg := range gaSigs {
			if strings.HasPrefix(k, t.pkg+".") && strings.HasSuffix(k, "."+f.Sel.Name) && strings.Count(k, ".") == 2 &&
				strings.HasPrefix(sg.key, t.dir+"/") && len(sg.params) >= len(t.recvFlds) && sg.recvStruct {
				return k, true
			}
		}
		return "", false
	}
	v := t.lookup(id.Name)
	if v == nil {
		return "", false
	}
	found := ""
	for k, sg := range gaSigs {
		if strings.HasPrefix(k, t.pkg+".") && strings.HasSuffix(k, "."+f.Sel.Name) && strings.Count(k, ".") == 2 &&
			len(sg.params) > 0 && sg.params[0] == v.typ && strings.HasPrefix(sg.key, t.dir+"/") {
			if found != "" {
				return "", false
			}
			found = k
		}
	}
	return found, found != ""
}

// callArgs: the argument expressions of a call of a translated function (receiver first)
func (t *gaTr) callArgs(x *ast.CallExpr) []ast.Expr {
	if f, ok := x.Fun.(*ast.SelectorExpr); ok {
		if id, ok := f.X.(*ast.Ident); ok && t.recvName != "" && id.Name == t.recvName {
			if _, ok := t.methodKey(f); ok {
				args := []ast.Expr{}
				for _, fl := range t.recvFlds {
					args = append(args, &ast.SelectorExpr{X: id, Sel: ast.NewIdent(fl)})
				}
				return append(args, x.Args...)
			}
		}
		if _, isPkg := t.importPathOf(f.X); !isPkg {
			if _, ok := t.methodKey(f); ok {
				return append([]ast.Expr{f.X}, x.Args...)
			}
		}
	}
	return x.Args
}

// pure argument of fmt.Errorf: evaluating it can neither panic nor have an effect
func (t *gaTr) pureArg(e ast.Expr) bool {
	switch x := e.(type) {
	case *ast.BasicLit:
		return true
	case *ast.Ident:
		return true
	case *ast.ParenExpr:
		return t.pureArg(x.X)
	}
	return false
}

func (t *gaTr) call(x *ast.CallExpr) (string, string) {
	if x.Ellipsis != token.NoPos {
		return gaUnsE("variadic call " + gaSrc(x)), "?"
	}
	// conversions and builtins
	if id, ok := x.Fun.(*ast.Ident); ok && t.lookup(id.Name) == nil {
		ty := gaTypeStr(id)
		if k, ok := gaKind(ty); ok && len(x.Args) == 1 {
			c, from := t.expr(x.Args[0])
			if from == "untyped" || gaFits(from, ty) {
				return c, ty
			}
			if _, ok := gaKind(from); ok {
				return "(EWrap " + k + " " + c + ")", ty
			}
			return gaUnsE("conversion from " + from + " to " + ty), "?"
		}
		switch id.Name {
		case "string":
			if len(x.Args) == 1 {
				c, from := t.expr(x.Args[0])
				if from == "[]uint8" || from == "string" {
					return c, "string"
				}
			}
			return gaUnsE("conversion " + gaSrc(x)), "?"
		case "cap":
			if len(x.Args) == 1 {
				if v := t.fieldVar(x.Args[0]); v != nil {
					if sp := t.spareOf(v); sp != nil {
						return "(EBin Add (ELen " + t.evar(v) + ") (ELen " + t.evar(sp) + "))", "int"
					}
				}
			}
			return gaUnsE("cap " + gaSrc(x)), "?"
		case "len":
			if len(x.Args) == 1 {
				c, ty := t.expr(x.Args[0])
				if ty == "string" || strings.HasPrefix(ty, "[]") {
					return "(ELen " + c + ")", "int"
				}
				if strings.HasPrefix(ty, "set[") {
					return "(ELen " + c + ")", "int" // a set is a duplicate-free list of its keys
				}
			}
			return gaUnsE("len " + gaSrc(x)), "?"
		case "append":
			// slices are values in GoLang.v: appending to a parameter could write into memory the
			// caller shares, so only local slices may be appended to
			if len(x.Args) == 2 {
				if root := gaRootVar(t, x.Args[0]); root < t.nparams {
					return gaUnsE("append to a non-local slice " + gaSrc(x)), "?"
				}
				ca, ta := t.expr(x.Args[0])
				cb, tb := t.expr(x.Args[1])
				if strings.HasPrefix(ta, "[]") && (ta[2:] == tb || tb == "untyped") {
					return "(EAppend " + ca + " " + cb + ")", ta
				}
			}
			return gaUnsE("append " + gaSrc(x)), "?"
		case "make":
			if len(x.Args) == 3 {
				// make([]T, n, c) panics unless 0 <= n <= c; otherwise the capacity is not observable
				ty := gaTypeStr(x.Args[0])
				cn, tn := t.expr(x.Args[1])
				cc, tc := t.expr(x.Args[2])
				if (gaIsInt(tn) || tn == "untyped") && (gaIsInt(tc) || tc == "untyped") && strings.HasPrefix(ty, "[]") {
					zero := gaZeroValue(ty[2:])
					if ty == "[]uint8" {
						zero = "(VInt 0)"
					}
					return "(EMakeCap " + cn + " " + cc + " " + zero + ")", ty
				}
				return gaUnsE("make " + gaSrc(x)), "?"
			}
			if len(x.Args) == 2 {
				ty := gaTypeStr(x.Args[0])
				cn, tn := t.expr(x.Args[1])
				if _, ok := gaKind(tn); ok || tn == "untyped" {
					if ty == "[]uint8" {
						return "(EMakeBytes " + cn + ")", ty
					}
					if strings.HasPrefix(ty, "[]") {
						return "(EMakeList " + cn + " " + gaZeroValue(ty[2:]) + ")", ty
					}
				}
			}
			return gaUnsE("make " + gaSrc(x)), "?"
		}
	}
	if at, ok := x.Fun.(*ast.ArrayType); ok && len(x.Args) == 1 {
		if gaTypeStr(at) == "[]uint8" {
			c, from := t.expr(x.Args[0])
			if from == "string" || from == "[]uint8" {
				return c, "[]uint8"
			}
		}
		return gaUnsE("conversion " + gaSrc(x)), "?"
	}
	// buf.Buffer(n) for a parameter buf of type encoding.Bufferer: "a []byte of length n with
	// whatever contents".  The parameter is modelled as those contents (an arbitrary byte string,
	// universally quantified in the theorem, at least n long) and the call as buf[:n].
	if sel, ok := x.Fun.(*ast.SelectorExpr); ok && sel.Sel.Name == "Buffer" && len(x.Args) == 1 {
		if id, ok := sel.X.(*ast.Ident); ok {
			if v := t.lookup(id.Name); v != nil && v.typ == "encoding.Bufferer" && v.idx < t.nparams {
				if p, ok := t.imports["encoding"]; ok && p == gaModule+"pkg/encoding" {
					cn, tn := t.expr(x.Args[0])
					if gaIsInt(tn) || tn == "untyped" {
						return "(ESlice " + t.evar(v) + " None (Some " + cn + "))", "[]uint8"
					}
				}
			}
		}
	}
	// standard library primitives
	if sel, ok := x.Fun.(*ast.SelectorExpr); ok {
		if p, ok := t.importPathOf(sel.X); ok {
			switch {
			case (p == "fmt" && sel.Sel.Name == "Errorf") || (p == "errors" && sel.Sel.Name == "New"):
				for _, a := range x.Args {
					if !t.pureArg(a) {
						return gaUnsE("argument of " + gaSrc(x.Fun)), "?"
					}
				}
				return "EErr", "error"
			case p == "sort" && sel.Sel.Name == "Search" && len(x.Args) == 2:
				return t.sortSearch(x)
			case p == "bytes" && sel.Sel.Name == "Equal" && len(x.Args) == 2:
				ca, ta := t.expr(x.Args[0])
				cb, tb := t.expr(x.Args[1])
				if ta == "[]uint8" && tb == "[]uint8" {
					return "(EBin Eq " + ca + " " + cb + ")", "bool"
				}
				return gaUnsE("bytes.Equal of " + ta + ", " + tb), "?"
			case p == "bytes" && sel.Sel.Name == "Compare" && len(x.Args) == 2:
				ca, ta := t.expr(x.Args[0])
				cb, tb := t.expr(x.Args[1])
				if ta == "[]uint8" && tb == "[]uint8" {
					return "(ECompare " + ca + " " + cb + ")", "int"
				}
				return gaUnsE("bytes.Compare of " + ta + ", " + tb), "?"
			case p == "math/bits" && sel.Sel.Name == "Len64" && len(x.Args) == 1:
				c, ty := t.expr(x.Args[0])
				if ty == "uint64" {
					return "(ELen64 " + c + ")", "int"
				}
				return gaUnsE("Len64 of " + ty), "?"
			}
		}
		if in, ok := sel.X.(*ast.SelectorExpr); ok && in.Sel.Name == "BigEndian" && len(x.Args) == 1 {
			if p, ok := t.importPathOf(in.X); ok && p == "encoding/binary" {
				w := map[string]int{"Uint16": 2, "Uint32": 4, "Uint64": 8}[sel.Sel.Name]
				if w > 0 {
					c, ty := t.expr(x.Args[0])
					if ty == "[]uint8" {
						return fmt.Sprintf("(EBe %d %s)", w, c), fmt.Sprintf("uint%d", 8*w)
					}
				}
			}
		}
	}
	// calls of other translated functions: hoisted into a statement in front
	if k, ok := t.calleeKey(x.Fun); ok {
		sig := gaSigs[k]
		if !t.hoistOK {
			return gaUnsE("call of " + k + " in a conditionally evaluated position"), "?"
		}
		if len(sig.results) != 1 {
			return gaUnsE("multi-value call of " + k + " inside an expression"), "?"
		}
		args, ok := t.args(x, sig)
		if !ok {
			return gaUnsE("arguments of " + gaSrc(x)), "?"
		}
		tmp := t.declare("", sig.results[0])
		tmp.name = "call" + strconv.Itoa(tmp.idx)
		t.pre = append(t.pre, fmt.Sprintf("(SCall [LVar %d] %s %s)", tmp.idx, gaCoqString(k), gaList(args)))
		return t.evar(tmp), sig.results[0]
	}
	return gaUnsE("call " + gaSrc(x.Fun)), "?"
}

// sortSearch inlines sort.Search(n, func(i int) bool { stmts; return e }) as the loop of the
// standard library (go1.2x sort/search.go):
//
//	i, j := 0, n
//	for i < j {
//		h := int(uint(i+j) >> 1)
//		if !f(h) { i = h + 1 } else { j = h }
//	}
//	return i
//
// The closure body must be straight-line code ending in its only return.
func (t *gaTr) sortSearch(x *ast.CallExpr) (string, string) {
	if !t.hoistOK {
		return gaUnsE("sort.Search in a conditionally evaluated position"), "?"
	}
	fl, ok := x.Args[1].(*ast.FuncLit)
	if !ok || fl.Type.Params == nil || len(fl.Type.Params.List) != 1 || len(fl.Type.Params.List[0].Names) != 1 ||
		gaTypeStr(fl.Type.Params.List[0].Type) != "int" || fl.Type.Results == nil || len(fl.Type.Results.List) != 1 ||
		gaTypeStr(fl.Type.Results.List[0].Type) != "bool" || len(fl.Body.List) == 0 {
		return gaUnsE("sort.Search predicate " + gaSrc(x.Args[1])), "?"
	}
	last, ok := fl.Body.List[len(fl.Body.List)-1].(*ast.ReturnStmt)
	if !ok || len(last.Results) != 1 {
		return gaUnsE("sort.Search predicate does not end in a return"), "?"
	}
	bad := false
	for _, st := range fl.Body.List[:len(fl.Body.List)-1] {
		ast.Inspect(st, func(n ast.Node) bool {
			switch n.(type) {
			case *ast.ReturnStmt, *ast.BranchStmt, *ast.FuncLit, *ast.ForStmt, *ast.RangeStmt, *ast.GoStmt, *ast.DeferStmt:
				bad = true
			}
			return true
		})
	}
	if bad {
		return gaUnsE("sort.Search predicate is not straight-line code"), "?"
	}
	cn, tn := t.expr(x.Args[0])
	if !gaIsInt(tn) && tn != "untyped" {
		return gaUnsE("sort.Search length of type " + tn), "?"
	}
	si, sj, sh := t.declare("", "int"), t.declare("", "int"), t.declare("", "int")
	si.name, sj.name, sh.name = "search.i", "search.j", "search.h"
	id := t.nloops
	t.nloops++
	t.push()
	pv := t.declare(fl.Type.Params.List[0].Names[0].Name, "int")
	body := []string{
		fmt.Sprintf("(SAssign [LVar %d (*search.h*)] [(EWrap (IS 64) (EBin Shr (EWrap (IU 64) (EWrap (IS 64) (EBin Add %s %s))) (EInt 1)))])", sh.idx, t.evar(si), t.evar(sj)),
		fmt.Sprintf("(SAssign [LVar %d (*%s*)] [%s])", pv.idx, pv.name, t.evar(sh)),
	}
	savedPre, savedOK := t.pre, t.hoistOK
	for _, st := range fl.Body.List[:len(fl.Body.List)-1] {
		body = append(body, t.stmt(st))
	}
	t.pre, t.hoistOK = nil, true
	cc, tc := t.expr(last.Results[0])
	body = append(body, t.pre...)
	t.pre, t.hoistOK = savedPre, savedOK
	t.pop()
	if tc != "bool" {
		return gaUnsE("sort.Search predicate result of type " + tc), "?"
	}
	body = append(body, fmt.Sprintf("(SIf (ENot %s)\n(SAssign [LVar %d (*search.i*)] [(EWrap (IS 64) (EBin Add %s (EInt 1)))])\n(SAssign [LVar %d (*search.j*)] [%s]))",
		cc, si.idx, t.evar(sh), sj.idx, t.evar(sh)))
	t.pre = append(t.pre,
		fmt.Sprintf("(SAssign [LVar %d (*search.i*); LVar %d (*search.j*)] [(EInt 0); %s])", si.idx, sj.idx, cn),
		fmt.Sprintf("(SFor %d (EBin Lt %s %s)\nSSkip\n%s)", id, t.evar(si), t.evar(sj), gaSeq(body)))
	return t.evar(si), "int"
}

func gaZeroValue(t string) string {
	if _, ok := gaKind(t); ok {
		return "(VInt 0)"
	}
	switch {
	case t == "bool":
		return "(VBool false)"
	case t == "string", t == "[]uint8":
		return "(VStr [])"
	case strings.HasPrefix(t, "[]"):
		return "(VList [])"
	case t == "struct{}":
		return "VNil"
	}
	return "VUnset"
}

func (t *gaTr) args(x *ast.CallExpr, sig *gaSig) ([]string, bool) {
	xargs := t.callArgs(x)
	if len(xargs) != len(sig.params) {
		return nil, false
	}
	args := []string{}
	for i, a := range xargs {
		c, ty := t.expr(a)
		if ty != sig.params[i] && !(ty == "untyped" && gaIsInt(sig.params[i])) {
			return nil, false
		}
		args = append(args, c)
	}
	return args, true
}

// gaRootVar: the variable at the root of an expression like v, v[i], v[i:j] (-1 if none)
func gaRootVar(t *gaTr, e ast.Expr) int {
	switch x := e.(type) {
	case *ast.Ident:
		if v := t.lookup(x.Name); v != nil {
			return v.idx
		}
	case *ast.IndexExpr:
		return gaRootVar(t, x.X)
	case *ast.SliceExpr:
		return gaRootVar(t, x.X)
	case *ast.ParenExpr:
		return gaRootVar(t, x.X)
	}
	return -1
}

func gaIsInt(t string) bool { _, ok := gaKind(t); return ok }

// ---------------------------------------------------------------------------
// statements

// withPre runs f with call hoisting enabled and returns the hoisted statements
func (t *gaTr) withPre(f func()) []string {
	savedPre, savedOK := t.pre, t.hoistOK
	t.pre, t.hoistOK = nil, true
	f()
	pre := t.pre
	t.pre, t.hoistOK = savedPre, savedOK
	return pre
}

func (t *gaTr) lhs(e ast.Expr) (string, string) {
	if v := t.fieldVar(e); v != nil && t.frozen[v.idx] == 0 && t.spareOf(v) == nil {
		t.outs[v.idx] = true // a written receiver field is reported back
		return fmt.Sprintf("(LVar %d (*%s*))", v.idx, v.name), v.typ
	}
	switch x := e.(type) {
	case *ast.Ident:
		if x.Name == "_" {
			return "LBlank", "_"
		}
		if v := t.lookup(x.Name); v != nil && !strings.HasPrefix(v.typ, "*") && t.frozen[v.idx] == 0 {
			return fmt.Sprintf("(LVar %d (*%s*))", v.idx, v.name), v.typ
		}
	case *ast.StarExpr:
		if id, ok := x.X.(*ast.Ident); ok {
			if v := t.lookup(id.Name); v != nil && strings.HasPrefix(v.typ, "*") && v.idx < t.nparams {
				t.outs[v.idx] = true
				return fmt.Sprintf("(LVar %d (*deref %s*))", v.idx, v.name), v.typ[1:]
			}
		}
	case *ast.IndexExpr:
		if id, ok := x.X.(*ast.Ident); ok {
			if v := t.lookup(id.Name); v != nil && strings.HasPrefix(v.typ, "map[") && v.idx >= t.nparams && t.frozen[v.idx] == 0 {
				ck, tk := t.expr(x.Index)
				if kt, vt, ok := gaMapType(v.typ); ok {
					if k2, ok := gaMapKey(kt, ck, tk); ok {
						return fmt.Sprintf("(LMapSet %d (*%s*) %s)", v.idx, v.name, k2), vt
					}
				}
				return "", ""
			}
			if v := t.lookup(id.Name); v != nil && strings.HasPrefix(v.typ, "[]") && t.frozen[v.idx] == 0 {
				ci, ti := t.expr(x.Index)
				if gaIsInt(ti) || ti == "untyped" {
					if v.idx < t.nparams {
						t.outs[v.idx] = true
					}
					return fmt.Sprintf("(LIndex %d (*%s*) %s)", v.idx, v.name, ci), v.typ[2:]
				}
			}
		}
	}
	return "", ""
}

// gaCapFields: the receiver fields f for which the body uses cap(recv.f)
func gaCapFields(fd *ast.FuncDecl, recv string) []string {
	seen := map[string]bool{}
	out := []string{}
	ast.Inspect(fd.Body, func(n ast.Node) bool {
		if c, ok := n.(*ast.CallExpr); ok && len(c.Args) == 1 {
			if id, ok := c.Fun.(*ast.Ident); ok && id.Name == "cap" {
				if sel, ok := c.Args[0].(*ast.SelectorExpr); ok {
					if x, ok := sel.X.(*ast.Ident); ok && x.Name == recv && !seen[sel.Sel.Name] {
						seen[sel.Sel.Name] = true
						out = append(out, sel.Sel.Name)
					}
				}
			}
		}
		return true
	})
	sort.Strings(out)
	return out
}

// fieldVar: e is recv.f for the struct receiver; returns the variable holding the field
func (t *gaTr) fieldVar(e ast.Expr) *gaVar {
	sel, ok := e.(*ast.SelectorExpr)
	if !ok || t.recvName == "" {
		return nil
	}
	id, ok := sel.X.(*ast.Ident)
	if !ok || id.Name != t.recvName || (t.recvObj != nil && id.Obj != t.recvObj) {
		return nil
	}
	return t.lookup(t.recvName + "." + sel.Sel.Name)
}

// spareOf: the companion variable holding the bytes between len and cap of a field
func (t *gaTr) spareOf(v *gaVar) *gaVar {
	if v == nil || !t.spare[strings.TrimPrefix(v.name, t.recvName+".")] {
		return nil
	}
	return t.lookup(v.name + ".spare")
}

// sliceAt: e is X or X[lo:] for a writable []byte variable X; returns the variable and the offset
func (t *gaTr) sliceAt(e ast.Expr) (*gaVar, string, bool) {
	lo := "(EInt 0)"
	if se, ok := e.(*ast.SliceExpr); ok && se.High == nil && !se.Slice3 {
		if se.Low != nil {
			c, ty := t.expr(se.Low)
			if !gaIsInt(ty) && ty != "untyped" {
				return nil, "", false
			}
			lo = c
		}
		e = se.X
	}
	v := t.fieldVar(e)
	if v == nil {
		id, ok := e.(*ast.Ident)
		if !ok {
			return nil, "", false
		}
		v = t.lookup(id.Name)
	}
	if v == nil || !strings.HasPrefix(v.typ, "[]") || t.frozen[v.idx] != 0 {
		return nil, "", false
	}
	if v.idx < t.nparams {
		t.outs[v.idx] = true
	}
	return v, lo, true
}

// bufferWrite: copy(X[lo:], src) and binary.BigEndian.PutUintNN(X[lo:], v) as statements
func (t *gaTr) bufferWrite(call *ast.CallExpr) string {
	if id, ok := call.Fun.(*ast.Ident); ok && id.Name == "copy" && t.lookup("copy") == nil && len(call.Args) == 2 {
		if _, isSlice := call.Args[0].(*ast.SliceExpr); isSlice {
			var v *gaVar
			var lo, c, ty string
			var ok bool
			pre := t.withPre(func() {
				v, lo, ok = t.sliceAt(call.Args[0])
				c, ty = t.expr(call.Args[1])
			})
			if ok && (ty == v.typ || (v.typ == "[]uint8" && ty == "string")) {
				return gaSeq(append(pre, fmt.Sprintf("(SCopyAt %d (*%s*) %s %s)", v.idx, v.name, lo, c)))
			}
			return gaUnsS("statement " + gaSrc(call))
		}
	}
	if sel, ok := call.Fun.(*ast.SelectorExpr); ok && len(call.Args) == 2 {
		if in, ok := sel.X.(*ast.SelectorExpr); ok && in.Sel.Name == "BigEndian" {
			if p, ok := t.importPathOf(in.X); ok && p == "encoding/binary" {
				w := map[string]int{"PutUint16": 2, "PutUint32": 4, "PutUint64": 8}[sel.Sel.Name]
				if w > 0 {
					var v *gaVar
					var lo, c, ty string
					var ok bool
					pre := t.withPre(func() {
						v, lo, ok = t.sliceAt(call.Args[0])
						c, ty = t.expr(call.Args[1])
					})
					if ok && v.typ == "[]uint8" && ty == fmt.Sprintf("uint%d", 8*w) {
						return gaSeq(append(pre, fmt.Sprintf("(SPutBe %d %d (*%s*) %s %s)", w, v.idx, v.name, lo, c)))
					}
					return gaUnsS("statement " + gaSrc(call))
				}
			}
		}
	}
	return ""
}

// gaMapType: "map[string]V" / "map[uint8]V" -> (key type, value type)
func gaMapType(ty string) (string, string, bool) {
	for _, k := range []string{"string", "uint8"} {
		if strings.HasPrefix(ty, "map["+k+"]") {
			return k, ty[len("map["+k+"]"):], true
		}
	}
	return "", "", false
}

// gaMapKey: the key expression of a map access ([VMap] is keyed by byte strings; a uint8 key is
// its one-byte string)
func gaMapKey(kt, ck, tk string) (string, bool) {
	switch {
	case kt == "string" && tk == "string":
		return ck, true
	case kt == "uint8" && (tk == "uint8" || tk == "untyped"):
		return "(EKeyOfInt " + ck + ")", true
	}
	return "", false
}

func (t *gaTr) isIntSet(e ast.Expr) bool {
	if ix, ok := e.(*ast.IndexExpr); ok {
		if id, ok := ix.X.(*ast.Ident); ok {
			if v := t.lookup(id.Name); v != nil && strings.HasPrefix(v.typ, "set[") {
				return true
			}
		}
	}
	return false
}

// oracleOf: the oracle table entry for a call expression
func (t *gaTr) oracleOf(call *ast.CallExpr) *gaOracle {
	sel, ok := call.Fun.(*ast.SelectorExpr)
	if !ok {
		return nil
	}
	p, ok := t.importPathOf(sel.X)
	if !ok {
		return nil
	}
	for i := range gaOracles {
		if gaOracles[i].importPath == p && gaOracles[i].name == sel.Sel.Name {
			return &gaOracles[i]
		}
	}
	return nil
}

func (t *gaTr) assignable(lt, rt string) bool {
	return lt == "_" || lt == rt || (rt == "untyped" && gaIsInt(lt)) || (rt == "nil" && (lt == "error" || strings.HasPrefix(lt, "[]")))
}

func (t *gaTr) assign(s *ast.AssignStmt) string {
	if op, ok := gaAssignOps[s.Tok]; ok {
		if len(s.Lhs) != 1 || len(s.Rhs) != 1 {
			return gaUnsS("assignment " + gaSrc(s))
		}
		var cr, tr, cl, tl string
		pre := t.withPre(func() {
			cl, tl = t.expr(s.Lhs[0])
			cr, tr = t.expr(s.Rhs[0])
		})
		l, lt := t.lhs(s.Lhs[0])
		if l == "" || lt != tl {
			return gaUnsS("assignment target " + gaSrc(s.Lhs[0]))
		}
		c, ty := t.binary(op, cl, tl, cr, tr)
		if ty != tl {
			return gaUnsS("assignment " + gaSrc(s))
		}
		return gaSeq(append(pre, "(SAssign ["+l+"] ["+c+"])"))
	}
	if s.Tok != token.ASSIGN && s.Tok != token.DEFINE {
		return gaUnsS("assignment " + gaSrc(s))
	}
	// a receiver field whose capacity matters: value = the len bytes, companion = the bytes up to cap
	if s.Tok == token.ASSIGN && len(s.Lhs) == 1 && len(s.Rhs) == 1 {
		if v := t.fieldVar(s.Lhs[0]); v != nil {
			if sp := t.spareOf(v); sp != nil {
				t.outs[v.idx], t.outs[sp.idx] = true, true
				both := "(EBin Add " + t.evar(v) + " " + t.evar(sp) + ")"
				if se, ok := s.Rhs[0].(*ast.SliceExpr); ok && !se.Slice3 && se.Low == nil && se.High != nil && t.fieldVar(se.X) == v {
					// f = f[:h] may reach into the capacity: panics iff h > cap
					if ch, th := t.expr(se.High); gaIsInt(th) || th == "untyped" {
						return fmt.Sprintf("(SAssign [LVar %d (*%s*); LVar %d (*%s*)] [(ESlice %s None (Some %s)); (ESlice %s (Some %s) None)])",
							v.idx, v.name, sp.idx, sp.name, both, ch, both, ch)
					}
				}
				if c, ty := t.expr(s.Rhs[0]); ty == v.typ && strings.HasPrefix(c, "(EMakeBytes ") {
					return fmt.Sprintf("(SAssign [LVar %d (*%s*); LVar %d (*%s*)] [%s; (EStr [])])", v.idx, v.name, sp.idx, sp.name, c)
				}
				return gaUnsS("assignment to a capacity-tracked field " + gaSrc(s))
			}
		}
	}
	// sets (map[K]struct{} held in a LOCAL variable): `_, ok := m[k]` and `m[k] = struct{}{}`
	if len(s.Lhs) == 2 && len(s.Rhs) == 1 {
		if ix, ok := s.Rhs[0].(*ast.IndexExpr); ok {
			if b, ok := s.Lhs[0].(*ast.Ident); ok && b.Name == "_" {
				var cm, tm, ck, tk string
				pre := t.withPre(func() { cm, tm = t.expr(ix.X); ck, tk = t.expr(ix.Index) })
				if kt, _, isMap := gaMapType(tm); isMap {
					if k2, okk := gaMapKey(kt, ck, tk); okk {
						ck, tk = k2, "string"
					}
				}
				if _, _, isMap := gaMapType(tm); isMap && tk == "string" {
					ls, ok := t.targets(&ast.AssignStmt{Lhs: s.Lhs[1:], Tok: s.Tok, Rhs: s.Rhs}, []string{"bool"})
					if ok {
						return gaSeq(append(pre, "(SAssign "+gaList(ls)+" [(EMapHas "+cm+" "+ck+")])"))
					}
				}
				if strings.HasPrefix(tm, "set[") && (tk == tm[4:len(tm)-1] || tk == "untyped") {
					ls, ok := t.targets(&ast.AssignStmt{Lhs: s.Lhs[1:], Tok: s.Tok, Rhs: s.Rhs}, []string{"bool"})
					if ok {
						return gaSeq(append(pre, "(SAssign "+gaList(ls)+" [(EHas "+cm+" "+ck+")])"))
					}
				}
				return gaUnsS("comma-ok form " + gaSrc(s))
			}
		}
	}
	if s.Tok == token.ASSIGN && len(s.Lhs) == 1 && len(s.Rhs) == 1 && gaEmptyStruct(s.Rhs[0]) && t.isIntSet(s.Lhs[0]) {
		if ix, ok := s.Lhs[0].(*ast.IndexExpr); ok {
			if id, ok := ix.X.(*ast.Ident); ok {
				if v := t.lookup(id.Name); v != nil && strings.HasPrefix(v.typ, "set[") && v.idx >= t.nparams {
					var ck, tk string
					pre := t.withPre(func() { ck, tk = t.expr(ix.Index) })
					if tk == v.typ[4:len(v.typ)-1] || tk == "untyped" {
						return gaSeq(append(pre, fmt.Sprintf("(SAssign [LVar %d (*%s*)] [(EAppend %s %s)])", v.idx, v.name, t.evar(v), ck)))
					}
				}
			}
		}
		return gaUnsS("assignment " + gaSrc(s))
	}
	// x, y := f(..) for a translated f
	if len(s.Rhs) == 1 && len(s.Lhs) > 1 {
		call, ok := s.Rhs[0].(*ast.CallExpr)
		if !ok {
			return gaUnsS("multi-value assignment " + gaSrc(s))
		}
		if o := t.oracleOf(call); o != nil && len(o.results) == len(s.Lhs) && len(o.params) == len(call.Args) {
			args := []string{}
			bad := false
			pre := t.withPre(func() {
				for i, a := range call.Args {
					c, ty := t.expr(a)
					if ty != o.params[i] {
						bad = true
					}
					if o.params[i] != "objects.Store" { // the store itself is what the oracle stands for
						args = append(args, c)
					}
				}
			})
			ls, ok := t.targets(s, o.results)
			if bad || !ok {
				return gaUnsS("oracle call " + gaSrc(s))
			}
			name := filepath.Base(o.importPath) + "." + o.name
			return gaSeq(append(pre, fmt.Sprintf("(SOracle %s %s %s)", gaList(ls), gaCoqString(name), gaList(args))))
		}
		k, ok := t.calleeKey(call.Fun)
		if !ok || len(gaSigs[k].results) != len(s.Lhs) {
			return gaUnsS("multi-value assignment " + gaSrc(s))
		}
		var args []string
		var okA bool
		pre := t.withPre(func() { args, okA = t.args(call, gaSigs[k]) })
		if !okA {
			return gaUnsS("arguments of " + gaSrc(call))
		}
		ls, ok := t.targets(s, gaSigs[k].results)
		if !ok {
			return gaUnsS("assignment targets " + gaSrc(s))
		}
		return gaSeq(append(pre, fmt.Sprintf("(SCall %s %s %s)", gaList(ls), gaCoqString(k), gaList(args))))
	}
	if len(s.Lhs) != len(s.Rhs) {
		return gaUnsS("assignment " + gaSrc(s))
	}
	rs, rts := []string{}, []string{}
	pre := t.withPre(func() {
		for _, r := range s.Rhs {
			c, ty := t.expr(r)
			rs, rts = append(rs, c), append(rts, ty)
		}
	})
	ls, ok := t.targets(s, rts)
	if !ok {
		return gaUnsS("assignment targets " + gaSrc(s))
	}
	return gaSeq(append(pre, "(SAssign "+gaList(ls)+" "+gaList(rs)+")"))
}

// targets translates the left-hand sides (declaring new variables for :=)
func (t *gaTr) targets(s *ast.AssignStmt, rts []string) ([]string, bool) {
	ls := []string{}
	for i, l := range s.Lhs {
		if s.Tok == token.DEFINE {
			id, ok := l.(*ast.Ident)
			if !ok {
				return nil, false
			}
			if id.Name == "_" {
				ls = append(ls, "LBlank")
				continue
			}
			if v, ok := t.scopes[len(t.scopes)-1][id.Name]; ok { // redeclared in the same scope: assigned
				if !t.assignable(v.typ, rts[i]) {
					return nil, false
				}
				ls = append(ls, fmt.Sprintf("(LVar %d (*%s*))", v.idx, v.name))
				continue
			}
			ty := rts[i]
			if ty == "untyped" {
				ty = "int"
			}
			if ty == "nil" || ty == "?" {
				return nil, false
			}
			v := t.declare(id.Name, ty)
			ls = append(ls, fmt.Sprintf("(LVar %d (*%s*))", v.idx, v.name))
			continue
		}
		c, lt := t.lhs(l)
		if c == "" || !t.assignable(lt, rts[i]) {
			return nil, false
		}
		ls = append(ls, c)
	}
	return ls, true
}

func (t *gaTr) block(b *ast.BlockStmt) string {
	t.push()
	defer t.pop()
	ss := []string{}
	for _, s := range b.List {
		ss = append(ss, t.stmt(s))
	}
	return gaSeq(ss)
}

func (t *gaTr) cond(e ast.Expr) (string, bool) {
	c, ty := t.expr(e)
	return c, ty == "bool"
}

func (t *gaTr) findLoop(label *ast.Ident) (int, bool) {
	if len(t.loops) == 0 {
		return 0, false
	}
	if label == nil {
		return t.loops[len(t.loops)-1].id, true
	}
	for i := len(t.loops) - 1; i >= 0; i-- {
		if t.loops[i].label == label.Name {
			return t.loops[i].id, true
		}
	}
	return 0, false
}

// rangeMap: for k, v := range m over a map; the order is the oracle's (SRangeMap)
func (t *gaTr) rangeMap(x *ast.RangeStmt, label string, pre []string, cx, kt, vt string) string {
	if x.Tok != token.DEFINE {
		return gaUnsS("range over a map into existing variables")
	}
	t.push()
	defer t.pop()
	kv := [2]string{"None", "None"}
	for i, e := range []ast.Expr{x.Key, x.Value} {
		if e == nil {
			continue
		}
		id, ok := e.(*ast.Ident)
		if !ok {
			return gaUnsS("range target " + gaSrc(e))
		}
		if id.Name == "_" {
			continue
		}
		ty := kt
		if i == 1 {
			ty = vt
		}
		v := t.declare(id.Name, ty)
		kv[i] = fmt.Sprintf("(Some %d%%nat (*%s*))", v.idx, v.name)
	}
	id := t.nloops
	t.nloops++
	t.loops = append(t.loops, gaLoop{id, label})
	ranged := gaRootVar(t, x.X)
	if ranged >= 0 {
		t.frozen[ranged]++
	}
	body := t.block(x.Body)
	if ranged >= 0 {
		t.frozen[ranged]--
	}
	t.loops = t.loops[:len(t.loops)-1]
	intkey := "false"
	if kt == "uint8" {
		intkey = "true"
	}
	return gaSeq(append(pre, fmt.Sprintf("(SRangeMap %d %s %s %s %s\n%s)", id, kv[0], kv[1], intkey, cx, body)))
}

func (t *gaTr) stmt(s ast.Stmt) string {
	label := t.label
	t.label = ""
	switch x := s.(type) {
	case *ast.EmptyStmt:
		return "SSkip"
	case *ast.BlockStmt:
		return t.block(x)
	case *ast.LabeledStmt:
		t.label = x.Label.Name
		return t.stmt(x.Stmt)
	case *ast.AssignStmt:
		return t.assign(x)
	case *ast.IncDecStmt:
		op := token.ADD
		if x.Tok == token.DEC {
			op = token.SUB
		}
		cl, tl := t.expr(x.X)
		l, lt := t.lhs(x.X)
		if l == "" || lt != tl {
			return gaUnsS("target " + gaSrc(x))
		}
		c, ty := t.binary(op, cl, tl, "(EInt 1)", "untyped")
		if ty != tl {
			return gaUnsS(gaSrc(x))
		}
		return "(SAssign [" + l + "] [" + c + "])"
	case *ast.DeclStmt:
		gd, ok := x.Decl.(*ast.GenDecl)
		if !ok || gd.Tok != token.VAR {
			return gaUnsS("declaration " + gaSrc(x))
		}
		ss := []string{}
		for _, sp := range gd.Specs {
			vs := sp.(*ast.ValueSpec)
			if len(vs.Values) != 0 && len(vs.Values) != len(vs.Names) {
				return gaUnsS("declaration " + gaSrc(x))
			}
			for i, id := range vs.Names {
				ty := "?"
				if vs.Type != nil {
					ty = gaTypeStr(vs.Type)
				}
				c := ""
				var pre []string
				if len(vs.Values) > 0 {
					var rt string
					pre = t.withPre(func() { c, rt = t.expr(vs.Values[i]) })
					if ty == "?" {
						ty = rt
						if ty == "untyped" {
							ty = "int"
						}
					} else if !t.assignable(ty, rt) {
						return gaUnsS("declaration " + gaSrc(x))
					}
				} else {
					c = gaZero(ty)
				}
				v := t.declare(id.Name, ty)
				ss = append(ss, pre...)
				ss = append(ss, fmt.Sprintf("(SAssign [LVar %d (*%s*)] [%s])", v.idx, v.name, c))
			}
		}
		return gaSeq(ss)
	case *ast.IfStmt:
		t.push()
		defer t.pop()
		ss := []string{}
		if x.Init != nil {
			ss = append(ss, t.stmt(x.Init))
		}
		var c string
		var ok bool
		pre := t.withPre(func() { c, ok = t.cond(x.Cond) })
		if !ok {
			return gaUnsS("condition " + gaSrc(x.Cond))
		}
		ss = append(ss, pre...)
		th := t.block(x.Body)
		el := "SSkip"
		if x.Else != nil {
			el = t.stmt(x.Else)
		}
		ss = append(ss, "(SIf "+c+"\n"+th+"\n"+el+")")
		return gaSeq(ss)
	case *ast.ForStmt:
		t.push()
		defer t.pop()
		ss := []string{}
		if x.Init != nil {
			ss = append(ss, t.stmt(x.Init))
		}
		c := "(EBool true)"
		if x.Cond != nil {
			var ok bool
			c, ok = t.cond(x.Cond) // no hoisting: evaluated at every iteration
			if !ok {
				return gaUnsS("loop condition " + gaSrc(x.Cond))
			}
		}
		id := t.nloops
		t.nloops++
		t.loops = append(t.loops, gaLoop{id, label})
		post := "SSkip"
		if x.Post != nil {
			post = t.stmt(x.Post)
		}
		body := t.block(x.Body)
		t.loops = t.loops[:len(t.loops)-1]
		ss = append(ss, fmt.Sprintf("(SFor %d %s\n%s\n%s)", id, c, post, body))
		return gaSeq(ss)
	case *ast.RangeStmt:
		var cx, tx string
		pre := t.withPre(func() { cx, tx = t.expr(x.X) })
		if kt, vt, isMap := gaMapType(tx); isMap {
			return t.rangeMap(x, label, pre, cx, kt, vt)
		}
		if !strings.HasPrefix(tx, "[]") {
			return gaUnsS("range over " + tx + " (only slices and maps; a string ranges over runes)")
		}
		t.push()
		defer t.pop()
		kv := [2]string{"None", "None"}
		for i, e := range []ast.Expr{x.Key, x.Value} {
			if e == nil {
				continue
			}
			id, ok := e.(*ast.Ident)
			if !ok {
				return gaUnsS("range target " + gaSrc(e))
			}
			if id.Name == "_" {
				continue
			}
			ty := "int"
			if i == 1 {
				ty = tx[2:]
			}
			var v *gaVar
			if x.Tok == token.DEFINE {
				v = t.declare(id.Name, ty)
			} else {
				v = t.lookup(id.Name)
				if v == nil || v.typ != ty {
					return gaUnsS("range target " + gaSrc(e))
				}
			}
			kv[i] = fmt.Sprintf("(Some %d%%nat (*%s*))", v.idx, v.name)
		}
		id := t.nloops
		t.nloops++
		t.loops = append(t.loops, gaLoop{id, label})
		// the interpreter iterates over a snapshot; Go would see writes to the elements of the
		// ranged slice, so such writes are refused inside the body
		ranged := gaRootVar(t, x.X)
		if ranged >= 0 {
			t.frozen[ranged]++
		}
		body := t.block(x.Body)
		if ranged >= 0 {
			t.frozen[ranged]--
		}
		t.loops = t.loops[:len(t.loops)-1]
		return gaSeq(append(pre, fmt.Sprintf("(SRange %d %s %s %s\n%s)", id, kv[0], kv[1], cx, body)))
	case *ast.BranchStmt:
		id, ok := t.findLoop(x.Label)
		if ok && x.Tok == token.BREAK {
			return fmt.Sprintf("(SBreak %d)", id)
		}
		if ok && x.Tok == token.CONTINUE {
			return fmt.Sprintf("(SContinue %d)", id)
		}
		return gaUnsS(gaSrc(x))
	case *ast.ReturnStmt:
		if len(x.Results) == 0 {
			rs := []string{}
			for _, v := range t.named {
				rs = append(rs, t.evar(v))
			}
			if len(rs) != len(t.resTypes) {
				return gaUnsS("bare return without named results")
			}
			return "(SReturn " + gaList(rs) + ")"
		}
		if len(x.Results) != len(t.resTypes) {
			return gaUnsS("return " + gaSrc(x))
		}
		rs := []string{}
		bad := ""
		pre := t.withPre(func() {
			for i, r := range x.Results {
				c, ty := t.expr(r)
				if !t.assignable(t.resTypes[i], ty) {
					bad = gaSrc(r)
				}
				rs = append(rs, c)
			}
		})
		if bad != "" {
			return gaUnsS("return value " + bad)
		}
		return gaSeq(append(pre, "(SReturn "+gaList(rs)+")"))
	case *ast.ExprStmt:
		call, ok := x.X.(*ast.CallExpr)
		if !ok {
			return gaUnsS(gaSrc(x))
		}
		if st := t.bufferWrite(call); st != "" {
			return st
		}
		if id, ok := call.Fun.(*ast.Ident); ok && t.lookup(id.Name) == nil {
			switch id.Name {
			case "panic":
				if len(call.Args) == 1 && t.pureArg(call.Args[0]) {
					return "SPanic"
				}
				if len(call.Args) == 1 { // panic(fmt.Errorf(..)) with arguments that cannot panic
					if c, ty := t.expr(call.Args[0]); c == "EErr" && ty == "error" {
						return "SPanic"
					}
					// panic(fmt.Errorf(.., args)): the arguments are expressions of this language (no
					// effects, they terminate); whether or not evaluating them panics, the result is a panic
					if inner, ok := call.Args[0].(*ast.CallExpr); ok {
						if sel, ok := inner.Fun.(*ast.SelectorExpr); ok {
							if p, ok := t.importPathOf(sel.X); ok && p == "fmt" && sel.Sel.Name == "Errorf" {
								fine := true
								saved := t.hoistOK
								t.hoistOK = false
								for _, a := range inner.Args {
									if c, _ := t.expr(a); strings.Contains(c, "EUnsupported") {
										fine = false
									}
								}
								t.hoistOK = saved
								if fine {
									return "SPanic"
								}
							}
						}
					}
				}
			case "copy":
				if len(call.Args) == 2 {
					if d, ok := call.Args[0].(*ast.Ident); ok {
						if v := t.lookup(d.Name); v != nil && strings.HasPrefix(v.typ, "[]") && t.frozen[v.idx] == 0 {
							var c, ty string
							pre := t.withPre(func() { c, ty = t.expr(call.Args[1]) })
							if ty == v.typ || (v.typ == "[]uint8" && ty == "string") {
								if v.idx < t.nparams {
									t.outs[v.idx] = true
								}
								return gaSeq(append(pre, fmt.Sprintf("(SCopy %d (*%s*) %s)", v.idx, v.name, c)))
							}
						}
					}
				}
			}
		}
		return gaUnsS("statement " + gaSrc(x))
	}
	return gaUnsS(fmt.Sprintf("statement %T", s))
}

// ---------------------------------------------------------------------------

func gaFieldTypes(fl *ast.FieldList) (names []string, typs []string) {
	if fl == nil {
		return
	}
	for _, f := range fl.List {
		ty := gaTypeStr(f.Type)
		if len(f.Names) == 0 {
			names, typs = append(names, ""), append(typs, ty)
		}
		for _, n := range f.Names {
			names, typs = append(names, n.Name), append(typs, ty)
		}
	}
	return
}

// gaRecvParam: a value receiver whose named type is a slice type becomes the first parameter
func gaRecvParam(fd *ast.FuncDecl) (string, string, bool) {
	if fd.Recv == nil || len(fd.Recv.List) != 1 || len(fd.Recv.List[0].Names) != 1 {
		return "", "", false
	}
	id, ok := fd.Recv.List[0].Type.(*ast.Ident) // value receiver only
	if !ok {
		return "", "", false
	}
	u, ok := gaUnderlying(gaCurDir, id.Name)
	if !ok {
		return "", "", false
	}
	return fd.Recv.List[0].Names[0].Name, u, true
}

func goastFunc(k gaKernel) string {
	f := gaParse(filepath.Join(k.dir, k.file))
	fd := gaFindFunc(f, k.name)
	if fd == nil {
		// the declaration may have moved to another file of the package: look it up by
		// package (non-test files of a default build, as load.go sees them)
		if p := loadPkg(k.dir); p != nil {
			for _, pf := range p.files {
				if g := gaParse(pf.rel); g != nil {
					if gd := gaFindFunc(g, k.name); gd != nil {
						f, fd = g, gd
						break
					}
				}
			}
		}
	}
	head := fmt.Sprintf("(* %s/%s: func %s *)\nDefinition %s : func :=\n", k.dir, k.file, k.name, k.coqName())
	if fd == nil || fd.Body == nil {
		return head + "  {| f_nparams := 0; f_nvars := 0; f_outs := []; f_body := SUnsupported \"function not found\" |}.\n"
	}
	gaCurDir = k.dir
	t := &gaTr{pkg: f.Name.Name, dir: k.dir, imports: map[string]string{}, outs: map[int]bool{}, frozen: map[int]int{}}
	for _, im := range f.Imports {
		p, _ := strconv.Unquote(im.Path.Value)
		name := filepath.Base(p)
		if im.Name != nil {
			name = im.Name.Name
		}
		t.imports[name] = p
	}
	t.push()
	ss := []string{}
	pn, pt := gaFieldTypes(fd.Type.Params)
	if fd.Recv != nil {
		// a receiver that the body never mentions is dropped; any other receiver is refused
		// (methods on slice types are handled by gaRecvParam)
		rn, rt, ok := gaRecvParam(fd)
		sr, sfn, sft, sok := gaRecvStruct(fd)
		used := len(fd.Recv.List[0].Names) == 1 && gaUsesIdent(fd.Body, fd.Recv.List[0].Names[0])
		switch {
		case !used: // a receiver that the body never mentions is dropped
		case ok:
			pn, pt = append([]string{rn}, pn...), append([]string{rt}, pt...)
		case sok:
			t.recvName, t.recvObj, t.recvFlds = sr, fd.Recv.List[0].Names[0].Obj, sfn
			fp, ftp := []string{}, []string{}
			for i, f := range sfn {
				fp, ftp = append(fp, sr+"."+f), append(ftp, sft[i])
			}
			t.spare = map[string]bool{}
			for _, f := range gaCapFields(fd, sr) {
				for i := range sfn {
					if sfn[i] == f && sft[i] == "[]uint8" {
						t.spare[f] = true
						fp, ftp = append(fp, sr+"."+f+".spare"), append(ftp, "[]uint8")
					}
				}
			}
			pn, pt = append(fp, pn...), append(ftp, pt...)
		case len(fd.Recv.List[0].Names) == 1 && gaUsesIdent(fd.Body, fd.Recv.List[0].Names[0]):
			ss = append(ss, gaUnsS("receiver "+fd.Recv.List[0].Names[0].Name+" is used"))
		}
	}
	for i := range pn {
		t.declare(pn[i], pt[i])
	}
	t.nparams = len(pn)
	rn, rt := gaFieldTypes(fd.Type.Results)
	t.resTypes = rt
	for i := range rn {
		if rn[i] != "" {
			v := t.declare(rn[i], rt[i])
			t.named = append(t.named, v)
			ss = append(ss, fmt.Sprintf("(SAssign [LVar %d (*%s*)] [%s])", v.idx, v.name, gaZero(rt[i])))
		}
	}
	ss = append(ss, t.block(fd.Body))
	body := gaSeq(ss)
	outs := []int{}
	for o := range t.outs {
		outs = append(outs, o)
	}
	sort.Ints(outs)
	os := []string{}
	for _, o := range outs {
		os = append(os, strconv.Itoa(o)+"%nat")
	}
	names := []string{}
	for _, v := range t.vars {
		names = append(names, fmt.Sprintf("%d=%s:%s", v.idx, v.name, v.typ))
	}
	return head + fmt.Sprintf("  (* variables: %s *)\n  {| f_nparams := %d; f_nvars := %d; f_outs := %s; f_body :=\n%s |}.\n",
		strings.Join(names, " "), t.nparams, len(t.vars), gaList(os), body)
}

// goastEmit writes coq/gen/ExtractedCode.v (only when its contents change).
func goastEmit(repoRoot, outPath string) {
	gaRoot = repoRoot
	for _, k := range goastWhitelist {
		f := gaParse(filepath.Join(k.dir, k.file))
		fd := gaFindFunc(f, k.name)
		if fd == nil {
			continue
		}
		gaCurDir = k.dir
		_, pt := gaFieldTypes(fd.Type.Params)
		_, rt := gaFieldTypes(fd.Type.Results)
		isStruct := false
		if fd.Recv != nil && len(fd.Recv.List[0].Names) == 1 && gaUsesIdent(fd.Body, fd.Recv.List[0].Names[0]) {
			if _, rty, ok := gaRecvParam(fd); ok {
				pt = append([]string{rty}, pt...)
			} else if sr, sfn, sft, ok := gaRecvStruct(fd); ok {
				ftp := append([]string{}, sft...)
				for _, f := range gaCapFields(fd, sr) {
					for i := range sfn {
						if sfn[i] == f && sft[i] == "[]uint8" {
							ftp = append(ftp, "[]uint8")
						}
					}
				}
				pt = append(ftp, pt...)
				isStruct = true
			}
		}
		gaSigs[f.Name.Name+"."+k.name] = &gaSig{key: k.dir + "/" + k.name, params: pt, results: rt, recvStruct: isStruct}
	}
	var sb strings.Builder
	sb.WriteString("(** GENERATED by /verif/translator (goast.go) from the Go sources of /repo on every run. DO NOT EDIT.\n")
	sb.WriteString("    Function bodies of the whitelisted kernels as terms of lib/GoLang.v. *)\n")
	sb.WriteString("From Coq Require Import List ZArith NArith String.\nFrom W.lib Require Import Tree Bytes GoLang.\nImport ListNotations.\nLocal Open Scope string_scope.\nLocal Open Scope Z_scope.\n\n")
	entries := []string{}
	for _, k := range goastWhitelist {
		sb.WriteString(goastFunc(k))
		sb.WriteString("\n")
		f := gaParse(filepath.Join(k.dir, k.file))
		pkg := filepath.Base(k.dir)
		if f != nil {
			pkg = f.Name.Name
		}
		entries = append(entries, fmt.Sprintf("(%s, %s)", gaCoqString(pkg+"."+k.name), k.coqName()))
	}
	sb.WriteString("Definition go_prog : prog :=\n  {| p_oracle := no_oracle; p_funcs :=\n  [" + strings.Join(entries, ";\n   ") + "] |}.\n")
	old, err := os.ReadFile(outPath)
	if err == nil && string(old) == sb.String() {
		return
	}
	if err := os.WriteFile(outPath, []byte(sb.String()), 0o644); err != nil {
		fmt.Fprintln(os.Stderr, "goast: cannot write", outPath, err)
		os.Exit(1)
	}
}
