package main

import (
	"go/ast"
	"sort"
	"strings"
)

// poolWorkerFields lists (sorted, unique) every field of the receiver that the ingest worker
// (Inserter.insertBlock, including function literals in it) mentions.  The C16 tie requires
// this set to be the known one: a NEW field reachable from every worker is new shared state
// whose thread-safety the interleaving model knows nothing about.
func poolWorkerFields() []string {
	fn := findFunc("pkg/ingest", "Inserter.insertBlock")
	if fn == nil || fn.decl.Body == nil || fn.decl.Recv == nil || len(fn.decl.Recv.List) != 1 || len(fn.decl.Recv.List[0].Names) != 1 {
		return []string{"?"}
	}
	seen := map[string]bool{}
	// recv.m where m is a method of the same type is not a field: the fields that method
	// mentions are the worker's too (helpers extracted from the worker body)
	visited := map[string]bool{}
	var walk func(f *Func)
	walk = func(f *Func) {
		if f == nil || f.decl.Body == nil || f.decl.Recv == nil || len(f.decl.Recv.List) != 1 ||
			len(f.decl.Recv.List[0].Names) != 1 || visited[f.key()] {
			return
		}
		visited[f.key()] = true
		recv := f.decl.Recv.List[0].Names[0].Name
		ast.Inspect(f.decl.Body, func(n ast.Node) bool {
			if s, ok := n.(*ast.SelectorExpr); ok {
				if id, ok := s.X.(*ast.Ident); ok && id.Name == recv {
					if m, ok := fn.pkg.funcs[fn.recv+"."+s.Sel.Name]; ok {
						walk(m)
					} else {
						seen[s.Sel.Name] = true
					}
				}
			}
			return true
		})
	}
	walk(fn)
	// report the TYPE of each field (from the receiver's struct declaration), so that renaming a
	// field is not a change while a new kind of shared state is
	types := map[string]string{}
	if td, ok := fn.pkg.types[fn.recv]; ok && td != nil {
		if st, ok := td.spec.Type.(*ast.StructType); ok {
			for _, fld := range st.Fields.List {
				for _, nm := range fld.Names {
					types[nm.Name] = typeStringIn(td.file, fld.Type)
				}
			}
		}
	}
	// how the mutex is held (sync.Mutex / sync.RWMutex, by value, by pointer or embedded) is
	// not a change of what is shared: all of them are reported as "mutex"
	isMutex := map[string]bool{"sync.Mutex": true, "sync.RWMutex": true, "*sync.Mutex": true, "*sync.RWMutex": true}
	embeddedMutex := false
	if td, ok := fn.pkg.types[fn.recv]; ok && td != nil {
		if st, ok := td.spec.Type.(*ast.StructType); ok {
			for _, fld := range st.Fields.List {
				if len(fld.Names) == 0 && isMutex[typeStringIn(td.file, fld.Type)] {
					embeddedMutex = true
				}
			}
		}
	}
	lockMethod := map[string]bool{"Lock": true, "Unlock": true, "RLock": true, "RUnlock": true, "Mutex": true, "RWMutex": true}
	set := map[string]bool{}
	for k := range seen {
		t, ok := types[k]
		switch {
		case ok && isMutex[t]:
			set["mutex"] = true
		case ok:
			set[t] = true
		case embeddedMutex && lockMethod[k]:
			set["mutex"] = true
		default:
			set["?"+k] = true
		}
	}
	out := []string{}
	for k := range set {
		out = append(out, k)
	}
	sort.Strings(out)
	return out
}

// poolAccesses is lockset(Inserter.insertBlock) with the two shared accumulators named by ROLE
// rather than by their current identifiers: the (only) written field of type uint32 is the row
// counter ("rowsCount"), the (only) written field of type []asyncBlock is the list of finished
// blocks ("asyncBlocks").  Renaming either field is then not a change; any other written field
// keeps its own name, which the model's parse_access does not know, so the tie breaks.
func poolAccesses() []string {
	fn := findFunc("pkg/ingest", "Inserter.insertBlock")
	accs := lockset(fn)
	if fn == nil {
		return accs
	}
	types := map[string]string{}
	if td, ok := fn.pkg.types[fn.recv]; ok && td != nil {
		if st, ok := td.spec.Type.(*ast.StructType); ok {
			for _, fld := range st.Fields.List {
				for _, nm := range fld.Names {
					types[nm.Name] = typeStringIn(td.file, fld.Type)
				}
			}
		}
	}
	roleOf := map[string]string{"uint32": "rowsCount", "[]asyncBlock": "asyncBlocks"}
	// fields mentioned in the access list, per type
	byType := map[string]map[string]bool{}
	for _, a := range accs {
		f := strings.SplitN(a, ":", 2)[0]
		t := types[f]
		if byType[t] == nil {
			byType[t] = map[string]bool{}
		}
		byType[t][f] = true
	}
	out := make([]string, 0, len(accs))
	for _, a := range accs {
		parts := strings.SplitN(a, ":", 2)
		if role, ok := roleOf[types[parts[0]]]; ok && len(byType[types[parts[0]]]) == 1 && len(parts) == 2 {
			out = append(out, role+":"+parts[1])
		} else {
			out = append(out, a)
		}
	}
	return out
}

// typeStringIn is typeString with package qualifiers resolved through the imports of the
// file the type expression is written in (an import alias is not a change of type).
var typeStringFile *File

func typeStringIn(f *File, e ast.Expr) string {
	typeStringFile = f
	defer func() { typeStringFile = nil }()
	return typeString(e)
}

func typeString(e ast.Expr) string {
	switch x := e.(type) {
	case *ast.Ident:
		return x.Name
	case *ast.SelectorExpr:
		if id, ok := x.X.(*ast.Ident); ok && typeStringFile != nil {
			if ip, ok := typeStringFile.imports[id.Name]; ok {
				base := ip
				if i := strings.LastIndex(ip, "/"); i >= 0 {
					base = ip[i+1:]
				}
				return base + "." + x.Sel.Name
			}
		}
		return typeString(x.X) + "." + x.Sel.Name
	case *ast.StarExpr:
		return "*" + typeString(x.X)
	case *ast.ArrayType:
		return "[]" + typeString(x.Elt)
	case *ast.ChanType:
		switch x.Dir {
		case ast.RECV:
			return "<-chan " + typeString(x.Value)
		case ast.SEND:
			return "chan<- " + typeString(x.Value)
		}
		return "chan " + typeString(x.Value)
	case *ast.MapType:
		return "map[" + typeString(x.Key) + "]" + typeString(x.Value)
	}
	return "?"
}
