package main

import (
	"go/ast"
	"sort"
)

// poolWorkerFields lists (sorted, unique) every field of the receiver that the ingest worker
// (Inserter.insertBlock, including function literals in it) mentions.  The C16 tie requires
// this set to be the known one: a NEW field reachable from every worker is new shared state
// whose thread-safety the interleaving model knows nothing about.
func poolWorkerFields() []string {
	fn := findFunc("pkg/ingest", "Inserter.insertBlock")
	if fn == nil || fn.decl.Body == nil || fn.decl.Recv == nil || len(fn.decl.Recv.List) != 1 || len(fn.decl.Recv.List[0].Names) != 1 {
		return []string{"?"}
	}
	recv := fn.decl.Recv.List[0].Names[0].Name
	seen := map[string]bool{}
	ast.Inspect(fn.decl.Body, func(n ast.Node) bool {
		if s, ok := n.(*ast.SelectorExpr); ok {
			if id, ok := s.X.(*ast.Ident); ok && id.Name == recv {
				seen[s.Sel.Name] = true
			}
		}
		return true
	})
	out := []string{}
	for k := range seen {
		out = append(out, k)
	}
	sort.Strings(out)
	return out
}
