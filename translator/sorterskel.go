package main

import (
	"go/ast"
	"go/token"
)

// sorterOuterSkeleton: Inserter.IngestTableFromSorter, in source order:
// the call of ingestTableFromBlocks, the call of the context's cancel function, a
// `for range <recv>.blocks {}` drain loop ("drain"), and close(<chan>).
func sorterOuterSkeleton() []string {
	fn := findFunc("pkg/ingest", "Inserter.IngestTableFromSorter")
	if fn == nil || fn.decl.Body == nil {
		return []string{"?"}
	}
	// name of the cancel function: second result of context.WithCancel
	cancelName := ""
	ast.Inspect(fn.decl.Body, func(n ast.Node) bool {
		as, ok := n.(*ast.AssignStmt)
		if !ok || len(as.Lhs) != 2 || len(as.Rhs) != 1 {
			return true
		}
		if c, ok := as.Rhs[0].(*ast.CallExpr); ok {
			if s, ok := c.Fun.(*ast.SelectorExpr); ok && s.Sel.Name == "WithCancel" {
				if id, ok := as.Lhs[1].(*ast.Ident); ok {
					cancelName = id.Name
				}
			}
		}
		return true
	})
	type ev struct {
		pos  token.Pos
		name string
	}
	var evs []ev
	inDefer := map[ast.Node]bool{}
	ast.Inspect(fn.decl.Body, func(n ast.Node) bool {
		switch x := n.(type) {
		case *ast.DeferStmt:
			inDefer[x.Call] = true
		case *ast.CallExpr:
			if inDefer[x] {
				return true
			}
			switch f := x.Fun.(type) {
			case *ast.SelectorExpr:
				if f.Sel.Name == "ingestTableFromBlocks" {
					evs = append(evs, ev{x.Pos(), "i.ingestTableFromBlocks"})
				}
			case *ast.Ident:
				if f.Name == "close" {
					evs = append(evs, ev{x.Pos(), "close"})
				} else if cancelName != "" && f.Name == cancelName {
					evs = append(evs, ev{x.Pos(), "cancel"})
				}
			}
		case *ast.RangeStmt:
			if s, ok := x.X.(*ast.SelectorExpr); ok && s.Sel.Name == "blocks" && x.Key == nil && x.Value == nil && len(x.Body.List) == 0 {
				evs = append(evs, ev{x.Pos(), "drain"})
			}
		}
		return true
	})
	for i := 0; i < len(evs); i++ {
		for j := i + 1; j < len(evs); j++ {
			if evs[j].pos < evs[i].pos {
				evs[i], evs[j] = evs[j], evs[i]
			}
		}
	}
	out := []string{}
	for _, e := range evs {
		out = append(out, e.name)
	}
	return out
}

// sorterSendKind: how the sorter's producer goroutines hand a block/rows to the consumer:
// "select-send" when every send on the output channel is a case of a select that also has
// a `<-ctx.Done()` case (cancellable while blocked); "default-send" when a send sits in the
// default clause of such a select or outside any select.
func sorterSendKind() string {
	kind := "?"
	for _, name := range []string{"Sorter.SortedBlocks", "Sorter.SortedRows"} {
		fn := findFunc("pkg/sorter", name)
		if fn == nil || fn.decl.Body == nil {
			return "?"
		}
		// output channel = the named result
		out := ""
		if fn.decl.Type.Results != nil && len(fn.decl.Type.Results.List) == 1 && len(fn.decl.Type.Results.List[0].Names) == 1 {
			out = fn.decl.Type.Results.List[0].Names[0].Name
		}
		if out == "" {
			return "?"
		}
		sends, good := 0, 0
		ast.Inspect(fn.decl.Body, func(n ast.Node) bool {
			sel, ok := n.(*ast.SelectStmt)
			if !ok {
				return true
			}
			hasDone := false
			for _, c := range sel.Body.List {
				cc := c.(*ast.CommClause)
				if es, ok := cc.Comm.(*ast.ExprStmt); ok {
					if u, ok := es.X.(*ast.UnaryExpr); ok && u.Op == token.ARROW {
						if call, ok := u.X.(*ast.CallExpr); ok {
							if s, ok := call.Fun.(*ast.SelectorExpr); ok && s.Sel.Name == "Done" {
								hasDone = true
							}
						}
					}
				}
			}
			for _, c := range sel.Body.List {
				cc := c.(*ast.CommClause)
				if ss, ok := cc.Comm.(*ast.SendStmt); ok {
					if id, ok := ss.Chan.(*ast.Ident); ok && id.Name == out {
						sends++
						if hasDone {
							good++
						}
					}
				}
			}
			return true
		})
		// sends anywhere (including default clauses and plain statements)
		total := 0
		ast.Inspect(fn.decl.Body, func(n ast.Node) bool {
			if ss, ok := n.(*ast.SendStmt); ok {
				if id, ok := ss.Chan.(*ast.Ident); ok && id.Name == out {
					total++
				}
			}
			return true
		})
		if total == 0 {
			return "?"
		}
		if total == good && sends == good {
			if kind == "?" {
				kind = "select-send"
			}
		} else {
			kind = "default-send"
		}
	}
	return kind
}
