// extract.go: the individual extractors.  Everything is decided on the AST with resolved
// identifiers (see canon.go); no extractor looks at source text.
package main

import (
	"go/ast"
	"go/constant"
	"go/token"
	"regexp"
	"sort"
	"strings"
)

func set(names ...string) map[string]bool {
	m := map[string]bool{}
	for _, n := range names {
		m[n] = true
	}
	return m
}

func (fc *FuncCtx) constOf(e ast.Expr) (constant.Value, bool) {
	return evalConst(constEnv{file: fc.file, fc: fc}, e)
}

// builtinCall: is call an invocation of the predeclared function `name` ?
func (fc *FuncCtx) builtinCall(e ast.Expr, name string) (*ast.CallExpr, bool) {
	c, ok := unparen(e).(*ast.CallExpr)
	if !ok {
		return nil, false
	}
	id, ok := unparen(c.Fun).(*ast.Ident)
	if !ok || id.Name != name || id.Obj != nil {
		return nil, false
	}
	if _, shadow := fc.pkg.funcs[name]; shadow {
		return nil, false
	}
	return c, true
}

// ---------------------------------------------------------------- block size sites

// divisors: the constant right operands of every division in fn (and one level of
// helpers); a non-constant divisor is reported as "?".
func divisors(fn *Func) []string {
	res := []string{}
	w := &Walker{maxDepth: 1}
	w.onNode = func(fc *FuncCtx, n ast.Node) {
		b, ok := n.(*ast.BinaryExpr)
		if !ok || b.Op != token.QUO {
			return
		}
		if v, ok := fc.constOf(fc.stripConv(b.Y)); ok {
			res = append(res, constString(v))
		} else {
			res = append(res, "?")
		}
	}
	w.walkFunc(fn)
	return res
}

// lenCuts: constants N (non-zero) of comparisons len(x) == N / len(x) >= N.
func lenCuts(fn *Func) []string {
	res := []string{}
	w := &Walker{maxDepth: 1}
	w.onNode = func(fc *FuncCtx, n ast.Node) {
		b, ok := n.(*ast.BinaryExpr)
		if !ok {
			return
		}
		var other ast.Expr
		_, rx := fc.resolve(b.X)
		_, ry := fc.resolve(b.Y)
		_, lx := fc.builtinCall(rx, "len")
		_, ly := fc.builtinCall(ry, "len")
		switch {
		case lx && (b.Op == token.EQL || b.Op == token.GEQ):
			other = b.Y
		case ly && (b.Op == token.EQL || b.Op == token.LEQ):
			other = b.X
		default:
			return
		}
		v, ok := fc.constOf(fc.stripConv(other))
		if !ok || v.Kind() == constant.String || constant.Sign(v) == 0 {
			return
		}
		res = append(res, constString(v))
	}
	w.walkFunc(fn)
	return res
}

// usesPkgConst: does fn (or a helper, or a package constant it mentions) refer to the
// constant `name` of package `path` ?
func usesPkgConst(fn *Func, path, name string) bool {
	found := false
	w := &Walker{maxDepth: 1}
	w.onNode = func(fc *FuncCtx, n ast.Node) {
		switch x := n.(type) {
		case *ast.SelectorExpr:
			if fc.isPkgMember(x, path, name) {
				found = true
			}
		case *ast.Ident:
			if vd, ok := fc.pkg.vars[x.Name]; ok && (x.Obj == nil || x.Obj.Decl == ast.Node(vd.spec)) && vd.idx < len(vd.spec.Values) {
				c := &FuncCtx{file: vd.file, pkg: vd.file.pkg}
				ast.Inspect(vd.spec.Values[vd.idx], func(m ast.Node) bool {
					if s, ok := m.(*ast.SelectorExpr); ok && c.isPkgMember(s, path, name) {
						found = true
					}
					return true
				})
			}
			if cd, ok := fc.pkg.consts[x.Name]; ok && cd.value != nil && (x.Obj == nil || x.Obj.Kind == ast.Con) {
				c := &FuncCtx{file: cd.file, pkg: cd.file.pkg}
				ast.Inspect(cd.value, func(m ast.Node) bool {
					if s, ok := m.(*ast.SelectorExpr); ok && c.isPkgMember(s, path, name) {
						found = true
					}
					return true
				})
				if fc.pkg.path == path && x.Name == name {
					found = true
				}
			}
		}
	}
	w.walkFunc(fn)
	return found
}

// ---------------------------------------------------------------- string list limits

// offsetVarType: the type of the local that is used as the low bound of slice
// expressions AND advanced with an op-assignment (the running write/read offset).
func offsetVarType(fn *Func) string {
	if fn == nil || fn.decl.Body == nil {
		return "?"
	}
	fc := newFuncCtx(fn)
	fc.collectDefs()
	var objs []*ast.Object
	seen := map[*ast.Object]bool{}
	ast.Inspect(fn.decl.Body, func(n ast.Node) bool {
		se, ok := n.(*ast.SliceExpr)
		if !ok || se.Low == nil {
			return true
		}
		id, ok := unparen(se.Low).(*ast.Ident)
		if !ok || id.Obj == nil || id.Obj.Kind != ast.Var || seen[id.Obj] {
			return true
		}
		if _, isParam := id.Obj.Decl.(*ast.Field); isParam {
			return true
		}
		advanced := false
		for _, d := range fc.defs[id.Obj] {
			if d.kind == defOther {
				advanced = true
			}
		}
		if advanced {
			seen[id.Obj] = true
			objs = append(objs, id.Obj)
		}
		return true
	})
	types := []string{}
	for _, o := range objs {
		t := "?"
		for _, d := range fc.defs[o] {
			switch d.kind {
			case defZero:
				if vs, ok := d.stmt.(*ast.ValueSpec); ok && vs.Type != nil {
					t = typeFromExpr(fc.file, vs.Type).String()
				}
			case defNormal:
				if vs, ok := d.stmt.(*ast.ValueSpec); ok && vs.Type != nil {
					t = typeFromExpr(fc.file, vs.Type).String()
				} else if ty := fc.typeOf(d.rhs); ty != nil {
					t = ty.String()
				}
			}
			if t != "?" {
				break
			}
		}
		dup := false
		for _, u := range types {
			dup = dup || u == t
		}
		if !dup {
			types = append(types, t)
		}
	}
	if len(types) == 0 {
		return "?"
	}
	return strings.Join(types, "|")
}

func terminatorCall(fc *FuncCtx, s ast.Stmt) bool {
	es, ok := s.(*ast.ExprStmt)
	if !ok {
		return false
	}
	c, ok := es.X.(*ast.CallExpr)
	if !ok {
		return false
	}
	if _, ok := fc.builtinCall(c, "panic"); ok {
		return true
	}
	switch n := fc.callName(c); n {
	case "os.Exit", "log.Fatal", "log.Fatalf", "log.Fatalln", "log.Panic", "log.Panicf":
		return true
	}
	return false
}

// shallow: visit the statements of a block without entering function literals.
func shallow(n ast.Node, f func(ast.Node) bool) {
	ast.Inspect(n, func(m ast.Node) bool {
		if _, ok := m.(*ast.FuncLit); ok {
			return false
		}
		if m == nil {
			return true
		}
		return f(m)
	})
}

// guardLimit finds the guard on the byte length of a STRING value
//
//	if len(s) > L { panic(..) | return ..err }     (also  L < len(s), len(s) >= L+1 ...)
//
// and returns the largest accepted length and what the guard does.
func guardLimit(fn *Func) (limit string, action string) {
	limit, action = "?", "?"
	w := &Walker{maxDepth: 1}
	w.onIf = func(fc *FuncCtx, is *ast.IfStmt) {
		if limit != "?" {
			return
		}
		b, ok := unparen(is.Cond).(*ast.BinaryExpr)
		if !ok {
			return
		}
		var other ast.Expr
		op := b.Op
		// `if n := len(s); n > L` : the length may sit in a single-definition local
		_, rx := fc.resolve(b.X)
		_, ry := fc.resolve(b.Y)
		if c, ok := fc.builtinCall(rx, "len"); ok && len(c.Args) == 1 && fc.typeOf(c.Args[0]).isBasic("string") {
			other = b.Y
		} else if c, ok := fc.builtinCall(ry, "len"); ok && len(c.Args) == 1 && fc.typeOf(c.Args[0]).isBasic("string") {
			other = b.X
			switch op {
			case token.LSS:
				op = token.GTR
			case token.LEQ:
				op = token.GEQ
			default:
				return
			}
		} else {
			return
		}
		v, ok := fc.constOf(fc.stripConv(other))
		if !ok || v.Kind() == constant.String {
			return
		}
		switch op {
		case token.GTR:
		case token.GEQ:
			v = constant.BinaryOp(v, token.SUB, constant.MakeInt64(1))
		default:
			return
		}
		limit = constString(v)
		shallow(is.Body, func(n ast.Node) bool {
			if action != "?" {
				return false
			}
			switch s := n.(type) {
			case *ast.ExprStmt:
				if c, ok := s.X.(*ast.CallExpr); ok {
					if _, ok := fc.builtinCall(c, "panic"); ok {
						action = "panic"
					}
				}
			case *ast.ReturnStmt:
				action = "error"
			}
			return true
		})
	}
	w.walkFunc(fn)
	return
}

// ---------------------------------------------------------------- error results

func terminates(fc *FuncCtx, b *ast.BlockStmt) bool {
	if b == nil || len(b.List) == 0 {
		return false
	}
	switch s := b.List[len(b.List)-1].(type) {
	case *ast.ReturnStmt:
		return true
	case *ast.BranchStmt:
		return s.Tok == token.CONTINUE || s.Tok == token.BREAK || s.Tok == token.GOTO
	default:
		return terminatorCall(fc, s)
	}
}

func exitsFunction(fc *FuncCtx, b *ast.BlockStmt) bool {
	if b == nil || len(b.List) == 0 {
		return false
	}
	last := b.List[len(b.List)-1]
	if _, ok := last.(*ast.ReturnStmt); ok {
		return true
	}
	return terminatorCall(fc, last)
}

func disjuncts(e ast.Expr, out *[]ast.Expr) {
	e = unparen(e)
	if b, ok := e.(*ast.BinaryExpr); ok && b.Op == token.LOR {
		disjuncts(b.X, out)
		disjuncts(b.Y, out)
		return
	}
	*out = append(*out, e)
}

func testsNonNil(cond ast.Expr, obj *ast.Object) bool {
	var ds []ast.Expr
	disjuncts(cond, &ds)
	for _, d := range ds {
		b, ok := d.(*ast.BinaryExpr)
		if !ok || b.Op != token.NEQ {
			continue
		}
		x, y := unparen(b.X), unparen(b.Y)
		if isNil(y) {
			if id, ok := x.(*ast.Ident); ok && id.Obj == obj {
				return true
			}
		}
		if isNil(x) {
			if id, ok := y.(*ast.Ident); ok && id.Obj == obj {
				return true
			}
		}
	}
	return false
}

func ifChainChecks(fc *FuncCtx, is *ast.IfStmt, obj *ast.Object) bool {
	for c := is; c != nil; {
		if testsNonNil(c.Cond, obj) && exitsFunction(fc, c.Body) {
			return true
		}
		next, ok := c.Else.(*ast.IfStmt)
		if !ok {
			break
		}
		c = next
	}
	return false
}

func stmtList(n ast.Node) []ast.Stmt {
	switch x := n.(type) {
	case *ast.BlockStmt:
		return x.List
	case *ast.CaseClause:
		return x.Body
	case *ast.CommClause:
		return x.Body
	}
	return nil
}

// errChecked: what happens to the error (last) result of `call`:
//
//	"checked"     assigned (or tested directly) and a non-nil value leads out of the function
//	"propagated"  returned to the caller as is
//	"unchecked"   dropped, overwritten, or not understood
func errChecked(fc *FuncCtx, call *ast.CallExpr) string {
	var n ast.Node = call
	p := fc.parent(n)
	for {
		if pe, ok := p.(*ast.ParenExpr); ok {
			n, p = pe, fc.parent(pe)
			continue
		}
		break
	}
	switch x := p.(type) {
	case *ast.ReturnStmt:
		return "propagated"
	case *ast.BinaryExpr:
		// if f() != nil { return .. }
		if x.Op == token.NEQ && (isNil(x.X) || isNil(x.Y)) {
			var c ast.Node = x
			for q := fc.parent(c); q != nil; c, q = q, fc.parent(q) {
				if is, ok := q.(*ast.IfStmt); ok {
					var ds []ast.Expr
					disjuncts(is.Cond, &ds)
					for _, d := range ds {
						if d == ast.Expr(x) && exitsFunction(fc, is.Body) {
							return "checked"
						}
					}
					return "unchecked"
				}
				if _, ok := q.(ast.Stmt); ok {
					break
				}
			}
		}
		return "unchecked"
	case *ast.AssignStmt:
		var lhs ast.Expr
		if len(x.Rhs) == 1 {
			lhs = x.Lhs[len(x.Lhs)-1]
		} else {
			for i, r := range x.Rhs {
				if r == ast.Expr(n.(ast.Expr)) && i < len(x.Lhs) {
					lhs = x.Lhs[i]
				}
			}
		}
		id, ok := lhs.(*ast.Ident)
		if !ok || id.Obj == nil || id.Name == "_" {
			return "unchecked"
		}
		obj := id.Obj
		gp := fc.parent(x)
		if is, ok := gp.(*ast.IfStmt); ok && is.Init == ast.Stmt(x) {
			if ifChainChecks(fc, is, obj) {
				return "checked"
			}
			return "unchecked"
		}
		list := stmtList(gp)
		at := -1
		for i, s := range list {
			if s == ast.Stmt(x) {
				at = i
			}
		}
		if at < 0 {
			return "unchecked"
		}
		for _, s := range list[at+1:] {
			switch y := s.(type) {
			case *ast.IfStmt:
				if ifChainChecks(fc, y, obj) {
					return "checked"
				}
			case *ast.ReturnStmt:
				for _, r := range y.Results {
					if rid, ok := unparen(r).(*ast.Ident); ok && rid.Obj == obj {
						return "propagated"
					}
				}
				if len(y.Results) == 0 {
					if _, named := obj.Decl.(*ast.Field); named {
						return "propagated"
					}
				}
				return "unchecked"
			}
			// overwritten before being looked at?
			over := false
			shallow(s, func(m ast.Node) bool {
				if as, ok := m.(*ast.AssignStmt); ok {
					for _, l := range as.Lhs {
						if lid, ok := l.(*ast.Ident); ok && lid.Obj == obj {
							over = true
						}
					}
				}
				return true
			})
			if over {
				return "unchecked"
			}
		}
	}
	return "unchecked"
}

// errCheckedUp: like errChecked, but when the error is handed to the caller of an
// inlined helper the caller's treatment of the helper call decides.
func errCheckedUp(fc *FuncCtx, call *ast.CallExpr) bool {
	for i := 0; i < 4; i++ {
		switch errChecked(fc, call) {
		case "checked":
			return true
		case "propagated":
			if fc.caller == nil {
				return true
			}
			fc, call = fc.caller, fc.callSite
		default:
			return false
		}
	}
	return false
}

// addRowChecked: every call of <Sorter receiver>.AddRow in SortFile has its error looked at.
func addRowChecked(fn *Func) []string {
	res := []string{}
	all := true
	w := &Walker{maxDepth: 1}
	w.noInline = func(name string, f *Func) bool { return name == "s.AddRow" }
	w.onCall = func(fc *FuncCtx, call *ast.CallExpr, name string, mode callMode) {
		if name != "s.AddRow" {
			return
		}
		res = append(res, name)
		if mode != modeNormal || !errCheckedUp(fc, call) {
			all = false
		}
	}
	w.walkFunc(fn)
	if all && len(res) > 0 {
		return append(res, "checked")
	}
	return append(res, "unchecked")
}

// ---------------------------------------------------------------- labels, literals

// labels: the field labels of an object codec in source order: the string in the label
// position of every literal of a two-field {label, func} struct of this package, and
// string labels passed directly to objline.ReadField / objline.WriteField.
func labels(fn *Func) []string {
	if fn == nil || fn.decl.Body == nil {
		return []string{"?"}
	}
	fc := newFuncCtx(fn)
	type pl struct {
		pos token.Pos
		s   string
	}
	var l []pl
	elided := map[*ast.CompositeLit]*Type{}
	labelOf := func(cl *ast.CompositeLit, t *Type) {
		st, _ := structOf(t)
		if st == nil || len(st.Fields.List) == 0 || len(cl.Elts) == 0 {
			return
		}
		first := st.Fields.List[0]
		if id, ok := first.Type.(*ast.Ident); !ok || id.Name != "string" || len(first.Names) == 0 {
			return
		}
		var val ast.Expr
		if kv, ok := cl.Elts[0].(*ast.KeyValueExpr); ok {
			_ = kv
			for _, e := range cl.Elts {
				if kv, ok := e.(*ast.KeyValueExpr); ok {
					if k, ok := kv.Key.(*ast.Ident); ok && k.Name == first.Names[0].Name {
						val = kv.Value
					}
				}
			}
		} else {
			val = cl.Elts[0]
		}
		if v, ok := fc.constOf(val); ok && v.Kind() == constant.String {
			l = append(l, pl{cl.Pos(), constant.StringVal(v)})
		}
	}
	ast.Inspect(fn.decl.Body, func(n ast.Node) bool {
		switch x := n.(type) {
		case *ast.CompositeLit:
			var t *Type
			if x.Type != nil {
				t = typeFromExpr(fc.file, x.Type)
			} else {
				t = elided[x]
			}
			if t == nil {
				return true
			}
			if t.kind == "slice" || t.kind == "array" || t.kind == "map" {
				for _, e := range x.Elts {
					if kv, ok := e.(*ast.KeyValueExpr); ok {
						e = kv.Value
					}
					if c, ok := e.(*ast.CompositeLit); ok && c.Type == nil {
						elided[c] = t.elem
					}
				}
				return true
			}
			labelOf(x, t)
		case *ast.CallExpr:
			switch fc.callName(x) {
			case "objline.ReadField", "objline.WriteField":
				for _, a := range x.Args {
					if _, isLit := unparen(a).(*ast.BasicLit); !isLit {
						if id, ok := unparen(a).(*ast.Ident); !ok || id.Obj == nil || id.Obj.Kind != ast.Con {
							continue
						}
					}
					if v, ok := fc.constOf(a); ok && v.Kind() == constant.String {
						l = append(l, pl{x.Pos(), constant.StringVal(v)})
					}
				}
			}
		}
		return true
	})
	sort.SliceStable(l, func(i, j int) bool { return l[i].pos < l[j].pos })
	res := []string{}
	for _, x := range l {
		res = append(res, x.s)
	}
	return res
}

// stringConsts: every string literal / string constant mentioned in fn, in source order.
func stringConsts(fn *Func) []string {
	res := []string{}
	if fn == nil || fn.decl.Body == nil {
		return res
	}
	fc := newFuncCtx(fn)
	ast.Inspect(fn.decl.Body, func(n ast.Node) bool {
		switch x := n.(type) {
		case *ast.BasicLit:
			if x.Kind == token.STRING {
				if v, ok := fc.constOf(x); ok {
					res = append(res, constant.StringVal(v))
				}
			}
		case *ast.Ident:
			if (x.Obj != nil && x.Obj.Kind == ast.Con) || (x.Obj == nil && fc.pkg.consts[x.Name] != nil) {
				if v, ok := fc.constOf(x); ok && v.Kind() == constant.String {
					res = append(res, constant.StringVal(v))
				}
			}
		case *ast.SelectorExpr:
			if v, ok := fc.constOf(x); ok && v.Kind() == constant.String {
				res = append(res, constant.StringVal(v))
			}
			return false
		}
		return true
	})
	return res
}

// writtenMagic: the string constant that writeVersion puts into the output buffer:
// the operand of a []byte(..) conversion, the source of copy(..), or the argument of
// a Write / WriteString call.
func writtenMagic(fn *Func) string {
	if fn == nil || fn.decl.Body == nil {
		return "?"
	}
	fc := newFuncCtx(fn)
	cands := []string{}
	add := func(e ast.Expr) {
		if v, ok := fc.constOf(fc.stripConv(e)); ok && v.Kind() == constant.String {
			s := constant.StringVal(v)
			for _, c := range cands {
				if c == s {
					return
				}
			}
			cands = append(cands, s)
		}
	}
	ast.Inspect(fn.decl.Body, func(n ast.Node) bool {
		c, ok := n.(*ast.CallExpr)
		if !ok {
			return true
		}
		if _, isArr := unparen(c.Fun).(*ast.ArrayType); isArr && len(c.Args) == 1 {
			add(c.Args[0])
		}
		if cc, ok := fc.builtinCall(c, "copy"); ok && len(cc.Args) == 2 {
			add(cc.Args[1])
		}
		switch baseName(fc.callName(c)) {
		case "Write", "WriteString":
			for _, a := range c.Args {
				add(a)
			}
		}
		return true
	})
	if len(cands) == 1 {
		return cands[0]
	}
	return "?"
}

// headerBits: how encodeObjTypeAndLen obtains the bit length of its uint64 argument.
func headerBits(fn *Func) string {
	res := "?"
	if fn == nil {
		return res
	}
	var u64 []*ast.Object
	if fn.decl.Type.Params != nil {
		for _, fl := range fn.decl.Type.Params.List {
			if id, ok := fl.Type.(*ast.Ident); ok && id.Name == "uint64" {
				for _, nm := range fl.Names {
					u64 = append(u64, nm.Obj)
				}
			}
		}
	}
	w := &Walker{maxDepth: 1}
	w.onCall = func(fc *FuncCtx, call *ast.CallExpr, name string, mode callMode) {
		if res != "?" || len(call.Args) != 1 {
			return
		}
		mentions := false
		c, r := fc.resolve(fc.stripConv(call.Args[0]))
		_ = c
		for _, o := range u64 {
			if usesObj(r, o) || usesObj(call.Args[0], o) {
				mentions = true
			}
		}
		// inside an inlined helper the parameter is bound to the caller's argument
		if !mentions && fc.caller != nil {
			ast.Inspect(call.Args[0], func(m ast.Node) bool {
				if id, ok := m.(*ast.Ident); ok && id.Obj != nil {
					if b, ok := fc.bind[id.Obj]; ok {
						for _, o := range u64 {
							if usesObj(b, o) {
								mentions = true
							}
						}
					}
				}
				return true
			})
		}
		if !mentions {
			return
		}
		switch name {
		case "bits.Len64":
			res = "Len64"
		case "math.Log2":
			res = "Log2"
		}
	}
	w.walkFunc(fn)
	return res
}

// ---------------------------------------------------------------- read kinds

// rawRead: is x.Read(b) a single read on a byte stream (io.Reader like), as opposed to
// a decoder's Read(r io.Reader) ?
func rawRead(fc *FuncCtx, call *ast.CallExpr) bool {
	// the function may be a method value held in a local:  rd := r.Read; rd(b)
	fc, fun := fc.resolve(call.Fun)
	sel, ok := fun.(*ast.SelectorExpr)
	if !ok || sel.Sel.Name != "Read" || len(call.Args) != 1 {
		return false
	}
	if id, ok := sel.X.(*ast.Ident); ok {
		if _, isPkg := fc.isPkgIdent(id); isPkg {
			return false // pkg.Read(x): a package function (binary.Read has 3 args anyway)
		}
	}
	isBytes := func(f *File, e ast.Expr) bool {
		t := typeFromExpr(f, e)
		return t != nil && t.kind == "slice" && t.elem.isBasic("byte")
	}
	t := fc.typeOf(sel.X)
	if t != nil {
		if m := methodOf(t, "Read"); m != nil {
			ps := m.decl.Type.Params
			return ps != nil && len(ps.List) == 1 && isBytes(m.file, ps.List[0].Type)
		}
		if td := declOf(t); td != nil {
			if it, ok := td.spec.Type.(*ast.InterfaceType); ok {
				for _, m := range it.Methods.List {
					if len(m.Names) == 0 {
						if et := typeFromExpr(td.file, m.Type); et != nil && et.kind == "named" && et.path == "io" {
							return true
						}
						continue
					}
					if m.Names[0].Name == "Read" {
						ft, ok := m.Type.(*ast.FuncType)
						return ok && ft.Params != nil && len(ft.Params.List) == 1 && isBytes(td.file, ft.Params.List[0].Type)
					}
				}
				return false
			}
			if st, f := structOf(t); st != nil {
				// promoted through an embedded reader?
				for _, fl := range st.Fields.List {
					if len(fl.Names) == 0 {
						if et := typeFromExpr(f, fl.Type); et != nil && et.deref().kind == "named" {
							if _, inModule := moduleDir(et.deref().path); !inModule {
								return true
							}
						}
					}
				}
				return false
			}
			return false
		}
		if d := t.deref(); d != nil && d.kind == "named" {
			return true // a type from outside the module (io.Reader, *bufio.Reader, *os.File ..)
		}
		if t.kind == "iface" {
			return true
		}
	}
	// unknown receiver type: a decoder's Read returns three values
	if as, ok := fc.parent(call).(*ast.AssignStmt); ok && len(as.Rhs) == 1 && len(as.Lhs) == 3 {
		return false
	}
	return true
}

// readKinds: for every read of a fixed-size buffer in fn (and one level of helpers that
// are not read sites themselves): io.ReadFull / io.CopyN / io.ReadAtLeast(r, b, len(b))
// => Full, x.Read(b) on a byte stream => Single.  In execution order.
func readKinds(fn *Func, otherSites map[*Func]bool) []string {
	if fn == nil {
		return []string{"?"}
	}
	res := []string{}
	w := &Walker{maxDepth: 1}
	w.noInline = func(name string, f *Func) bool { return otherSites[f] }
	w.onCall = func(fc *FuncCtx, call *ast.CallExpr, name string, mode callMode) {
		if mode == modeDeferDecl {
			return
		}
		switch name {
		case "io.ReadFull", "io.CopyN":
			res = append(res, "Full")
			return
		case "io.ReadAtLeast":
			k := "Single"
			if len(call.Args) == 3 {
				if lc, ok := fc.builtinCall(call.Args[2], "len"); ok && len(lc.Args) == 1 && sameExpr(fc, lc.Args[0], fc, call.Args[1]) {
					k = "Full"
				}
			}
			res = append(res, k)
			return
		}
		if rawRead(fc, call) {
			res = append(res, "Single")
		}
	}
	w.walkFunc(fn)
	return res
}

// ---------------------------------------------------------------- guards by data flow

type fact struct {
	e   ast.Expr
	neg bool
}

// splitFacts decomposes a condition known to be true (neg=false) or false (neg=true)
// into atomic facts.
func splitFacts(e ast.Expr, neg bool, out *[]fact) {
	e = unparen(e)
	switch x := e.(type) {
	case *ast.UnaryExpr:
		if x.Op == token.NOT {
			splitFacts(x.X, !neg, out)
			return
		}
	case *ast.BinaryExpr:
		if (x.Op == token.LAND && !neg) || (x.Op == token.LOR && neg) {
			splitFacts(x.X, neg, out)
			splitFacts(x.Y, neg, out)
			return
		}
		if x.Op == token.LAND || x.Op == token.LOR {
			return // a disjunction that holds: no atomic fact
		}
	}
	*out = append(*out, fact{e, neg})
}

// factsAt: conditions known to hold when control reaches n: enclosing if-bodies
// (else branches negated), left operands of && / ||, and earlier sibling
// `if c { return | continue | break | panic }` statements (negated), not looking
// past the enclosing function literal and not before position `since`.
func (fc *FuncCtx) factsAt(n ast.Node, since token.Pos) []fact {
	var res []fact
	child := n
	for p := fc.parent(child); p != nil; child, p = p, fc.parent(p) {
		switch x := p.(type) {
		case *ast.IfStmt:
			if child == ast.Node(x.Body) {
				splitFacts(x.Cond, false, &res)
			} else if x.Else != nil && child == ast.Node(x.Else) {
				splitFacts(x.Cond, true, &res)
			}
		case *ast.BinaryExpr:
			if child == ast.Node(x.Y) {
				if x.Op == token.LAND {
					splitFacts(x.X, false, &res)
				} else if x.Op == token.LOR {
					splitFacts(x.X, true, &res)
				}
			}
		case *ast.BlockStmt, *ast.CaseClause, *ast.CommClause:
			for _, s := range stmtList(x) {
				if ast.Node(s) == child {
					break
				}
				if s.Pos() < since {
					continue
				}
				if is, ok := s.(*ast.IfStmt); ok && is.Else == nil && terminates(fc, is.Body) {
					splitFacts(is.Cond, true, &res)
				}
			}
		case *ast.FuncLit, *ast.FuncDecl:
			return res
		}
	}
	return res
}

func mirror(op token.Token) token.Token {
	switch op {
	case token.LSS:
		return token.GTR
	case token.GTR:
		return token.LSS
	case token.LEQ:
		return token.GEQ
	case token.GEQ:
		return token.LEQ
	}
	return op
}

func negateOp(op token.Token) token.Token {
	switch op {
	case token.LSS:
		return token.GEQ
	case token.GEQ:
		return token.LSS
	case token.GTR:
		return token.LEQ
	case token.LEQ:
		return token.GTR
	case token.EQL:
		return token.NEQ
	case token.NEQ:
		return token.EQL
	}
	return token.ILLEGAL
}

func isObj(e ast.Expr, obj *ast.Object) bool {
	id, ok := unparen(e).(*ast.Ident)
	return ok && id.Obj == obj
}

// boundFact: does f establish idx < n  (n = the length given to sort.Search) ?
func boundFact(fc *FuncCtx, f fact, idx *ast.Object, n ast.Expr) bool {
	b, ok := f.e.(*ast.BinaryExpr)
	if !ok {
		return false
	}
	op := b.Op
	var other ast.Expr
	switch {
	case isObj(b.X, idx):
		other = b.Y
	case isObj(b.Y, idx):
		other, op = b.X, mirror(op)
	default:
		return false
	}
	if f.neg {
		op = negateOp(op)
	}
	switch op {
	case token.LSS, token.NEQ:
		return sameExpr(fc, other, fc, n)
	case token.LEQ:
		if s, ok := unparen(other).(*ast.BinaryExpr); ok && s.Op == token.SUB {
			if v, ok := fc.constOf(s.Y); ok && constString(v) == "1" {
				return sameExpr(fc, s.X, fc, n)
			}
		}
	}
	return false
}

// slotOf: is e (up to conversions) the element slice[idx] ?
func slotOf(fc *FuncCtx, e ast.Expr, idx *ast.Object, slice ast.Expr) bool {
	ie, ok := fc.stripConv(e).(*ast.IndexExpr)
	if !ok || !isObj(ie.Index, idx) {
		return false
	}
	return slice == nil || sameExpr(fc, ie.X, fc, slice)
}

// eqFact: does f establish slice[idx] == key ?
func eqFact(fc *FuncCtx, f fact, idx *ast.Object, slice, key ast.Expr) bool {
	keyOK := func(e ast.Expr) bool {
		return key == nil || sameExpr(fc, fc.stripConv(e), fc, fc.stripConv(key))
	}
	switch x := f.e.(type) {
	case *ast.BinaryExpr:
		op := x.Op
		if f.neg {
			op = negateOp(op)
		}
		if op != token.EQL {
			return false
		}
		if slotOf(fc, x.X, idx, slice) && keyOK(x.Y) {
			return true
		}
		if slotOf(fc, x.Y, idx, slice) && keyOK(x.X) {
			return true
		}
		// bytes.Compare(slice[idx], key) == 0
		for _, side := range [][2]ast.Expr{{x.X, x.Y}, {x.Y, x.X}} {
			if c, ok := unparen(side[0]).(*ast.CallExpr); ok && len(c.Args) == 2 {
				if n := fc.callName(c); n == "bytes.Compare" || n == "strings.Compare" {
					if v, ok := fc.constOf(side[1]); ok && constString(v) == "0" {
						if (slotOf(fc, c.Args[0], idx, slice) && keyOK(c.Args[1])) || (slotOf(fc, c.Args[1], idx, slice) && keyOK(c.Args[0])) {
							return true
						}
					}
				}
			}
		}
	case *ast.CallExpr:
		if f.neg || len(x.Args) != 2 {
			return false
		}
		if n := fc.callName(x); n == "bytes.Equal" || n == "slices.Equal" {
			return (slotOf(fc, x.Args[0], idx, slice) && keyOK(x.Args[1])) || (slotOf(fc, x.Args[1], idx, slice) && keyOK(x.Args[0]))
		}
	}
	return false
}

// searchGuard decides, for one `idx := sort.Search(n, func(i) bool { return slice[i] >= key })`,
// whether EVERY use of idx outside of conditions is dominated by  idx < n  and
// slice[idx] == key.
func searchGuard(fc *FuncCtx, call *ast.CallExpr) string {
	if len(call.Args) != 2 {
		return "unchecked"
	}
	as, ok := fc.parent(call).(*ast.AssignStmt)
	var idx *ast.Object
	var since token.Pos
	if ok && len(as.Lhs) == 1 && len(as.Rhs) == 1 {
		if id, ok := as.Lhs[0].(*ast.Ident); ok {
			idx, since = id.Obj, as.Pos()
		}
	} else if vs, ok := fc.parent(call).(*ast.ValueSpec); ok && len(vs.Names) == 1 {
		idx, since = vs.Names[0].Obj, vs.Pos()
	}
	if idx == nil {
		return "unchecked"
	}
	// the variable may be reused for a later lookup: this definition is live up to the
	// next assignment (in source order); anything but plain assignments is not understood
	fc.collectDefs()
	until := token.Pos(1 << 40)
	for _, d := range fc.defs[idx] {
		if d.kind == defOther {
			return "unchecked"
		}
		if d.stmt != nil && d.stmt.Pos() > since && d.stmt.Pos() < until {
			until = d.stmt.Pos()
		}
	}
	n := call.Args[0]
	var slice, key ast.Expr
	if lit := fc.litOf(call.Args[1]); lit != nil {
		ps := paramFields(lit.Type)
		if len(ps) == 1 && ps[0] != nil {
			ast.Inspect(lit.Body, func(m ast.Node) bool {
				b, ok := m.(*ast.BinaryExpr)
				if !ok || slice != nil {
					return true
				}
				for _, side := range [][2]ast.Expr{{b.X, b.Y}, {b.Y, b.X}} {
					if ie, ok := fc.stripConv(side[0]).(*ast.IndexExpr); ok && isObj(ie.Index, ps[0].Obj) {
						slice, key = ie.X, side[1]
					}
				}
				return true
			})
			if slice == nil {
				// bytes.Compare(slice[i], key) >= 0
				ast.Inspect(lit.Body, func(m ast.Node) bool {
					c, ok := m.(*ast.CallExpr)
					if !ok || slice != nil || len(c.Args) != 2 {
						return true
					}
					for _, side := range [][2]ast.Expr{{c.Args[0], c.Args[1]}, {c.Args[1], c.Args[0]}} {
						if ie, ok := fc.stripConv(side[0]).(*ast.IndexExpr); ok && isObj(ie.Index, ps[0].Obj) {
							slice, key = ie.X, side[1]
						}
					}
					return true
				})
			}
		}
	}
	uses := 0
	allOK := true
	ast.Inspect(fc.fn.decl.Body, func(m ast.Node) bool {
		id, ok := m.(*ast.Ident)
		if !ok || id.Obj != idx || id.Pos() <= since || (as != nil && id.Pos() < as.End()) || id.Pos() >= until {
			// (a later assignment's own left-hand side is at `until`)
			return true
		}
		// a use inside a condition is part of a guard, not something to protect
		var c ast.Node = id
		inCond := false
		for p := fc.parent(c); p != nil; c, p = p, fc.parent(p) {
			if is, ok := p.(*ast.IfStmt); ok && c == ast.Node(is.Cond) {
				inCond = true
				break
			}
			if fs, ok := p.(*ast.ForStmt); ok && c == ast.Node(fs.Cond) {
				inCond = true
				break
			}
			if _, ok := p.(ast.Stmt); ok {
				break
			}
		}
		if inCond {
			return true
		}
		uses++
		facts := fc.factsAt(id, since)
		hasB, hasE := false, false
		for _, f := range facts {
			hasB = hasB || boundFact(fc, f, idx, n)
			hasE = hasE || eqFact(fc, f, idx, slice, key)
		}
		if !hasB || !hasE {
			allOK = false
		}
		return true
	})
	if uses > 0 && allOK {
		return "checked"
	}
	return "unchecked"
}

// foundGuard: `i, found := sort.Find(..)` (or slices.BinarySearch): every use of i
// outside of conditions must be dominated by `found`.
func foundGuard(fc *FuncCtx, call *ast.CallExpr) string {
	as, ok := fc.parent(call).(*ast.AssignStmt)
	if !ok || len(as.Lhs) != 2 || len(as.Rhs) != 1 {
		return "unchecked"
	}
	i, ok1 := as.Lhs[0].(*ast.Ident)
	f, ok2 := as.Lhs[1].(*ast.Ident)
	if !ok1 || !ok2 || i.Obj == nil || f.Obj == nil {
		return "unchecked"
	}
	fc.collectDefs()
	if len(fc.defs[i.Obj]) != 1 || len(fc.defs[f.Obj]) != 1 {
		return "unchecked"
	}
	uses, allOK := 0, true
	ast.Inspect(fc.fn.decl.Body, func(m ast.Node) bool {
		id, ok := m.(*ast.Ident)
		if !ok || id.Obj != i.Obj || id.Pos() < as.End() {
			return true
		}
		var c ast.Node = id
		for p := fc.parent(c); p != nil; c, p = p, fc.parent(p) {
			if is, ok := p.(*ast.IfStmt); ok && c == ast.Node(is.Cond) {
				return true
			}
			if _, ok := p.(ast.Stmt); ok {
				break
			}
		}
		uses++
		has := false
		for _, ft := range fc.factsAt(id, as.Pos()) {
			has = has || (!ft.neg && isObj(ft.e, f.Obj))
		}
		allOK = allOK && has
		return true
	})
	if uses > 0 && allOK {
		return "checked"
	}
	return "unchecked"
}

func searchGuards(fn *Func) []string {
	if fn == nil {
		return []string{"?"}
	}
	res := []string{}
	w := &Walker{maxDepth: 1}
	w.onCall = func(fc *FuncCtx, call *ast.CallExpr, name string, mode callMode) {
		if mode == modeDeferDecl {
			return
		}
		switch name {
		case "sort.Search":
			res = append(res, searchGuard(fc, call))
		case "sort.Find", "slices.BinarySearch", "slices.BinarySearchFunc":
			res = append(res, foundGuard(fc, call))
		}
	}
	w.walkFunc(fn)
	return res
}

// ---------------------------------------------------------------- transaction status guard

func refPath() string { return modulePath + "/pkg/ref" }

// returnsError: the block ends by returning a non-nil error.
func returnsError(fc *FuncCtx, b *ast.BlockStmt) bool {
	if b == nil || len(b.List) == 0 {
		return false
	}
	ret, ok := b.List[len(b.List)-1].(*ast.ReturnStmt)
	if !ok {
		return false
	}
	assignedNonNil := func(obj *ast.Object) bool {
		ok := false
		for _, s := range b.List {
			as, isAs := s.(*ast.AssignStmt)
			if !isAs {
				continue
			}
			for i, l := range as.Lhs {
				if id, isId := l.(*ast.Ident); isId && id.Obj == obj && len(as.Lhs) == len(as.Rhs) {
					ok = !isNil(as.Rhs[i])
				}
			}
		}
		return ok
	}
	if len(ret.Results) > 0 {
		last := unparen(ret.Results[len(ret.Results)-1])
		if isNil(last) {
			return false
		}
		// a local variable only counts when the block itself gives it a non-nil value
		// (`return nil, err` with the err of an earlier, successful call returns nil)
		if id, ok := last.(*ast.Ident); ok && id.Obj != nil && id.Obj.Kind == ast.Var {
			return assignedNonNil(id.Obj)
		}
		return true
	}
	// bare return: a named error result must have been given a non-nil value in the block
	for _, s := range b.List {
		as, isAs := s.(*ast.AssignStmt)
		if !isAs {
			continue
		}
		for _, l := range as.Lhs {
			id, isId := l.(*ast.Ident)
			if !isId || id.Obj == nil {
				continue
			}
			fl, isField := id.Obj.Decl.(*ast.Field)
			if !isField {
				continue
			}
			if t, isT := fl.Type.(*ast.Ident); isT && t.Name == "error" && assignedNonNil(id.Obj) {
				return true
			}
		}
	}
	return false
}

// isTxStatus: e is <tx>.Status where tx is the value obtained from GetTransaction
// (or any value of type *ref.Transaction).
func isTxStatus(fc *FuncCtx, e ast.Expr) bool {
	c, r := fc.resolve(e)
	sel, ok := r.(*ast.SelectorExpr)
	if !ok || sel.Sel.Name != "Status" {
		return false
	}
	if t := c.typeOf(sel.X).deref(); t.isNamed(refPath(), "Transaction") {
		return true
	}
	c2, x := c.resolve(sel.X)
	if id, ok := x.(*ast.Ident); ok && id.Obj != nil {
		if d := c2.defInfoOf(id.Obj); d != nil && d.rhs != nil {
			if call, ok := unparen(d.rhs).(*ast.CallExpr); ok && baseName(c2.callName(call)) == "GetTransaction" {
				return true
			}
		}
	}
	if call, ok := x.(*ast.CallExpr); ok && baseName(c2.callName(call)) == "GetTransaction" {
		return true
	}
	return false
}

// committedTest: cond holds exactly when the status is "committed":
//
//	tx.Status == ref.TSCommitted   |   tx.Status != ref.TSInProgress   (either order)
func committedTest(fc *FuncCtx, cond ast.Expr) bool {
	var ds []ast.Expr
	disjuncts(cond, &ds)
	for _, d := range ds {
		b, ok := d.(*ast.BinaryExpr)
		if !ok {
			continue
		}
		for _, side := range [][2]ast.Expr{{b.X, b.Y}, {b.Y, b.X}} {
			if !isTxStatus(fc, side[0]) {
				continue
			}
			if b.Op == token.EQL && fc.isPkgMember(side[1], refPath(), "TSCommitted") {
				return true
			}
			if b.Op == token.NEQ && fc.isPkgMember(side[1], refPath(), "TSInProgress") {
				return true
			}
		}
	}
	return false
}

// guardEffective: a guard found inside an inlined helper only counts when the helper's
// error is looked at by the caller.
func guardEffective(fc *FuncCtx) bool {
	if fc.caller == nil {
		return true
	}
	return errCheckedUp(fc.caller, fc.callSite)
}

// txnSkeleton: store calls by base name in execution order with the marker
// "CheckCommitted" where a committed transaction is refused with an error.
func txnSkeleton(fn *Func, want map[string]bool) []string {
	return skeleton(fn, want, true, func(w *Walker, emit func(string)) {
		w.onIf = func(fc *FuncCtx, is *ast.IfStmt) {
			if committedTest(fc, is.Cond) && returnsError(fc, is.Body) && guardEffective(fc) {
				emit("CheckCommitted")
			}
		}
		w.onSwitch = func(fc *FuncCtx, sw *ast.SwitchStmt) {
			if sw.Tag == nil {
				// switch { case tx.Status == ref.TSCommitted: return err }
				for _, s := range sw.Body.List {
					if cc, ok := s.(*ast.CaseClause); ok {
						for _, e := range cc.List {
							if committedTest(fc, e) && returnsError(fc, &ast.BlockStmt{List: cc.Body}) && guardEffective(fc) {
								emit("CheckCommitted")
							}
						}
					}
				}
				return
			}
			if !isTxStatus(fc, sw.Tag) {
				return
			}
			for _, s := range sw.Body.List {
				cc, ok := s.(*ast.CaseClause)
				if !ok {
					continue
				}
				for _, e := range cc.List {
					if fc.isPkgMember(e, refPath(), "TSCommitted") && returnsError(fc, &ast.BlockStmt{List: cc.Body}) && guardEffective(fc) {
						emit("CheckCommitted")
					}
				}
			}
		}
	})
}

// ---------------------------------------------------------------- prune

// originCall: the call whose result e is (an element of), following locals, range
// variables, indexing, slicing and conversions.
func originCall(fc *FuncCtx, e ast.Expr) (*FuncCtx, *ast.CallExpr) {
	c := fc
	for i := 0; i < 24; i++ {
		c, e = c.resolve(e)
		switch x := e.(type) {
		case *ast.Ident:
			if x.Obj == nil {
				return c, nil
			}
			d := c.defInfoOf(x.Obj)
			if d == nil {
				return c, nil
			}
			switch d.kind {
			case defRangeVal, defMulti, defNormal:
				e = d.rhs
			default:
				return c, nil
			}
		case *ast.IndexExpr:
			e = x.X
		case *ast.SliceExpr:
			e = x.X
		case *ast.CallExpr:
			if c.isTypeExpr(x.Fun) && len(x.Args) == 1 {
				e = x.Args[0]
				continue
			}
			return c, x
		default:
			return c, nil
		}
	}
	return c, nil
}

// pruneSkeleton: deletes by base name in execution order (helpers inlined) with the
// marker "childrenFirst" in front of a DeleteCommit whose argument comes out of
// childrenFirst(..); order = "childrenFirst" | "hashOrder" | "?".
func pruneSkeleton(fn *Func) (skel []string, order string) {
	order = "?"
	want := set("DeleteTable", "DeleteTableIndex", "DeleteTableProfile", "DeleteBlock", "DeleteBlockIndex", "DeleteCommit")
	if fn == nil {
		return []string{"?"}, order
	}
	skel = []string{}
	w := &Walker{maxDepth: 1}
	w.noInline = func(name string, f *Func) bool { return want[baseName(name)] || name == "childrenFirst" }
	w.onCall = func(fc *FuncCtx, call *ast.CallExpr, name string, mode callMode) {
		k := baseName(name)
		if !want[k] {
			return
		}
		if name == "objects.DeleteCommit" && len(call.Args) > 0 {
			o := "?"
			if c, oc := originCall(fc, call.Args[len(call.Args)-1]); oc != nil {
				switch c.callName(oc) {
				case "childrenFirst":
					o = "childrenFirst"
				case "findCommitsToRemove":
					o = "hashOrder"
				}
			}
			if order == "?" || order == o {
				order = o
			} else {
				order = "mixed"
			}
			if o == "childrenFirst" {
				skel = append(skel, "childrenFirst")
			}
		}
		skel = append(skel, k)
	}
	w.walkFunc(fn)
	return
}

// ---------------------------------------------------------------- SetWithLog

var sqlMethods = set("Exec", "ExecContext", "Query", "QueryContext", "QueryRow", "QueryRowContext", "Prepare", "PrepareContext")

var (
	reSelRefs   = regexp.MustCompile(`\bselect\b[^;]*\bfrom\s+refs\b`)
	reWrRefs    = regexp.MustCompile(`\b(insert\s+(or\s+\w+\s+)?into|replace\s+into|update)\s+refs\b`)
	reWrReflogs = regexp.MustCompile(`\binsert\s+(or\s+\w+\s+)?into\s+reflogs\b`)
	reTables    = regexp.MustCompile(`\b(refs|reflogs)\b`)
)

func normSQL(s string) string {
	return strings.Join(strings.Fields(strings.ToLower(s)), " ")
}

// setWithLogShape: "RunInTx" iff the read of the old value, the upsert of the ref and
// the insert of the reflog row are all issued on the *sql.Tx parameter of the function
// literal given to ONE sqlutil.RunInTx call, and no statement on refs / reflogs is
// issued on anything else.
func setWithLogShape(fn *Func) string {
	if fn == nil {
		return "not-atomic"
	}
	var txObjs []*ast.Object
	runs := 0
	sel, wrRefs, wrLogs, outside := false, false, false, false
	w := &Walker{maxDepth: 1}
	w.onCall = func(fc *FuncCtx, call *ast.CallExpr, name string, mode callMode) {
		if mode == modeDeferDecl {
			return
		}
		if name == "sqlutil.RunInTx" {
			runs++
			return
		}
		s, ok := unparen(call.Fun).(*ast.SelectorExpr)
		if !ok || !sqlMethods[s.Sel.Name] {
			return
		}
		text, known := "", false
		for i, a := range call.Args {
			if i > 1 {
				break
			}
			if v, ok := fc.constOf(a); ok && v.Kind() == constant.String {
				text, known = normSQL(constant.StringVal(v)), true
				break
			}
		}
		if known && !reTables.MatchString(text) {
			return
		}
		_, r := fc.resolve(s.X)
		onTx := false
		if id, ok := r.(*ast.Ident); ok {
			for _, o := range txObjs {
				onTx = onTx || id.Obj == o
			}
		}
		if !onTx {
			outside = true
			return
		}
		if !known {
			return
		}
		sel = sel || reSelRefs.MatchString(text)
		wrRefs = wrRefs || reWrRefs.MatchString(text)
		wrLogs = wrLogs || reWrReflogs.MatchString(text)
	}
	// the literal is walked as an argument BEFORE the RunInTx call is reported, so the
	// transaction parameters are collected in a first pass
	pre := &Walker{maxDepth: 1}
	pre.onCall = func(fc *FuncCtx, call *ast.CallExpr, name string, mode callMode) {
		if name == "sqlutil.RunInTx" && len(call.Args) == 2 {
			c, e := fc.resolve(call.Args[1])
			if lit := c.litOf(e); lit != nil {
				if ps := paramFields(lit.Type); len(ps) == 1 && ps[0] != nil {
					txObjs = append(txObjs, ps[0].Obj)
				}
			}
		}
	}
	pre.walkFunc(fn)
	if len(txObjs) != 1 {
		return "not-atomic"
	}
	w.walkFunc(fn)
	if runs == 1 && sel && wrRefs && wrLogs && !outside {
		return "RunInTx"
	}
	return "not-atomic"
}

// filterKind: the comparison filterQuery builds for prefix filters.
func filterKind(fn *Func) string {
	joined := ""
	for _, s := range stringConsts(fn) {
		joined += "\n" + strings.ReplaceAll(normSQL(s), " ", "")
	}
	switch {
	case strings.Contains(joined, "like"):
		return "LIKE"
	case strings.Contains(joined, "instr(name,?)=1") && (strings.Contains(joined, "instr(name,?)!=1") || strings.Contains(joined, "instr(name,?)<>1")):
		return "INSTR"
	case strings.Contains(joined, "glob"):
		return "GLOB"
	}
	return "?"
}

// ---------------------------------------------------------------- sortBlocks

// ascendingBy: the comparison body orders its two parameters a, b ascending by `.field`.
func ascendingBy(fc *FuncCtx, body ast.Node, a, b *ast.Object, field string) bool {
	n, asc := 0, 0
	which := func(e ast.Expr) *ast.Object {
		sel, ok := unparen(e).(*ast.SelectorExpr)
		if !ok || sel.Sel.Name != field {
			return nil
		}
		switch x := unparen(sel.X).(type) {
		case *ast.IndexExpr:
			if isObj(x.Index, a) {
				return a
			}
			if isObj(x.Index, b) {
				return b
			}
		case *ast.Ident:
			if x.Obj == a || x.Obj == b {
				return x.Obj
			}
		}
		return nil
	}
	ast.Inspect(body, func(m ast.Node) bool {
		switch x := m.(type) {
		case *ast.BinaryExpr:
			l, r := which(x.X), which(x.Y)
			if l == nil || r == nil || l == r {
				return true
			}
			switch x.Op {
			case token.LSS, token.LEQ, token.SUB:
				n++
				if l == a {
					asc++
				}
			case token.GTR, token.GEQ:
				n++
				if l == b {
					asc++
				}
			}
		case *ast.CallExpr:
			if fc.callName(x) == "cmp.Compare" && len(x.Args) == 2 {
				l, r := which(x.Args[0]), which(x.Args[1])
				if l != nil && r != nil && l != r {
					n++
					if l == a {
						asc++
					}
				}
			}
		}
		return true
	})
	return n == 1 && asc == 1
}

func twoParams(ft *ast.FuncType) (a, b *ast.Object) {
	ps := paramFields(ft)
	if len(ps) == 2 && ps[0] != nil && ps[1] != nil {
		return ps[0].Obj, ps[1].Obj
	}
	return nil, nil
}

// sortBlocksShape: "sort-by-offset" iff sortBlocks runs a full library sort whose
// comparison orders by ascending .Offset.
func sortBlocksShape(fn *Func) string {
	if fn == nil {
		return "?"
	}
	res := "no-sort"
	// what is sorted must be the receiver's slice itself (or a local sharing its backing
	// array), not a copy
	inPlace := func(fc *FuncCtx, e ast.Expr) bool {
		c, r := fc.resolve(fc.stripConv(e))
		r = c.stripConv(r)
		c, r = c.resolve(r)
		_, ok := recvField(c, r)
		return ok
	}
	// the sort must run on every path: a sort guarded by a condition (or inside a loop /
	// switch) is reported as "sort-by-offset-conditional", which the tie refuses
	found := func(fc *FuncCtx, call *ast.CallExpr) {
		cond := false
		for p := fc.parent(call); p != nil; p = fc.parent(p) {
			switch p.(type) {
			case *ast.IfStmt, *ast.ForStmt, *ast.RangeStmt, *ast.SwitchStmt, *ast.TypeSwitchStmt,
				*ast.SelectStmt, *ast.CaseClause, *ast.CommClause, *ast.FuncLit, *ast.GoStmt, *ast.DeferStmt:
				cond = true
			}
		}
		if !cond {
			res = "sort-by-offset"
		} else if res == "no-sort" {
			res = "sort-by-offset-conditional"
		}
	}
	w := &Walker{maxDepth: 1}
	w.onCall = func(fc *FuncCtx, call *ast.CallExpr, name string, mode callMode) {
		if mode == modeDeferDecl || len(call.Args) == 0 || !inPlace(fc, call.Args[0]) {
			return
		}
		switch name {
		case "sort.Slice", "sort.SliceStable", "slices.SortFunc", "slices.SortStableFunc":
			if len(call.Args) != 2 {
				return
			}
			c, e := fc.resolve(call.Args[1])
			if lit := c.litOf(e); lit != nil {
				if a, b := twoParams(lit.Type); a != nil && ascendingBy(c, lit.Body, a, b, "Offset") {
					found(fc, call)
				}
			} else if f := c.funcOfExpr(e, 0); f != nil && f.decl.Body != nil {
				if a, b := twoParams(f.decl.Type); a != nil && ascendingBy(newFuncCtx(f), f.decl.Body, a, b, "Offset") {
					found(fc, call)
				}
			}
		case "sort.Sort", "sort.Stable":
			if len(call.Args) != 1 {
				return
			}
			if less := methodOf(fc.typeOf(call.Args[0]), "Less"); less != nil && less.decl.Body != nil {
				if a, b := twoParams(less.decl.Type); a != nil && ascendingBy(newFuncCtx(less), less.decl.Body, a, b, "Offset") {
					found(fc, call)
				}
			}
		}
	}
	w.walkFunc(fn)
	return res
}

// ---------------------------------------------------------------- SeekCommonAncestor

func seekShape(fn *Func) string {
	want := set("IsAncestorOf", "NewCommitsQueue")
	cs := skeleton(fn, want, true, nil)
	if len(cs) > 0 && cs[0] == "IsAncestorOf" {
		return "precheck-first"
	}
	return "absent"
}
