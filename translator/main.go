// translator: reads the Go sources of wrgl (syntax only, never executes them) and
// emits coq/gen/Extracted.v: the constants, layouts, call-order skeletons, read
// kinds and lockset facts that the Coq proofs are parametric in.  The per-property
// gen/Tie_Cxx.v files instantiate the proofs' hypotheses with these regenerated
// definitions, so they are re-checked against what the code says NOW on every run.
// When an expected shape is not found an "unknown" value is emitted (None / "?"),
// never a guess, and the corresponding obligation fails.
//
// usage: translator <repo-root>   (prints Extracted.v on stdout)
package main

import (
	"fmt"
	"go/ast"
	"go/constant"
	"go/parser"
	"go/token"
	"go/types"
	"os"
	"path/filepath"
	"sort"
	"strconv"
	"strings"
)

var fset = token.NewFileSet()
var root string
var cache = map[string]*ast.File{}

func parse(rel string) *ast.File {
	if f, ok := cache[rel]; ok {
		return f
	}
	f, err := parser.ParseFile(fset, filepath.Join(root, rel), nil, parser.ParseComments)
	if err != nil {
		f = nil
	}
	cache[rel] = f
	return f
}

// findFunc returns the declaration of function `name` (or method "Recv.name").
func findFunc(rel, name string) *ast.FuncDecl {
	f := parse(rel)
	if f == nil {
		return nil
	}
	recv := ""
	if i := strings.Index(name, "."); i >= 0 {
		recv, name = name[:i], name[i+1:]
	}
	for _, d := range f.Decls {
		fd, ok := d.(*ast.FuncDecl)
		if !ok || fd.Name.Name != name {
			continue
		}
		if recv == "" && fd.Recv == nil {
			return fd
		}
		if recv != "" && fd.Recv != nil && len(fd.Recv.List) == 1 {
			t := fd.Recv.List[0].Type
			if s, ok := t.(*ast.StarExpr); ok {
				t = s.X
			}
			if id, ok := t.(*ast.Ident); ok && id.Name == recv {
				return fd
			}
		}
	}
	return nil
}

func exprStr(e ast.Expr) string {
	switch x := e.(type) {
	case *ast.Ident:
		return x.Name
	case *ast.SelectorExpr:
		return exprStr(x.X) + "." + x.Sel.Name
	case *ast.CallExpr:
		return exprStr(x.Fun) + "()"
	case *ast.StarExpr:
		return "*" + exprStr(x.X)
	case *ast.IndexExpr:
		return exprStr(x.X) + "[]"
	case *ast.ParenExpr:
		return exprStr(x.X)
	case *ast.BasicLit:
		return x.Value
	}
	return "?"
}

// constValue evaluates a package-level constant that is a literal (or iota-free simple expression).
func constValue(rel, name string) (string, bool) {
	f := parse(rel)
	if f == nil {
		return "", false
	}
	for _, d := range f.Decls {
		gd, ok := d.(*ast.GenDecl)
		if !ok || gd.Tok != token.CONST {
			continue
		}
		for _, sp := range gd.Specs {
			vs := sp.(*ast.ValueSpec)
			for i, n := range vs.Names {
				if n.Name == name && i < len(vs.Values) {
					tv, err := types.Eval(fset, nil, token.NoPos, exprSrc(vs.Values[i]))
					if err == nil && tv.Value != nil {
						if tv.Value.Kind() == constant.String {
							return constant.StringVal(tv.Value), true
						}
						return tv.Value.ExactString(), true
					}
				}
			}
		}
	}
	return "", false
}

func exprSrc(e ast.Expr) string {
	var sb strings.Builder
	start, end := fset.Position(e.Pos()), fset.Position(e.End())
	b, err := os.ReadFile(start.Filename)
	if err != nil {
		return ""
	}
	sb.Write(b[start.Offset:end.Offset])
	return sb.String()
}

// calls lists, in source order, the calls inside fn whose rendered name is in `want`
// (if want is nil: every call).  Function literals are included (they run as part of fn here).
func calls(fd *ast.FuncDecl, want map[string]bool) []string {
	if fd == nil || fd.Body == nil {
		return nil
	}
	type pc struct {
		pos  token.Pos
		name string
	}
	var res []pc
	ast.Inspect(fd.Body, func(n ast.Node) bool {
		if c, ok := n.(*ast.CallExpr); ok {
			name := exprStr(c.Fun)
			if want == nil || want[name] {
				res = append(res, pc{c.Pos(), name})
			}
		}
		return true
	})
	sort.Slice(res, func(i, j int) bool { return res[i].pos < res[j].pos })
	out := make([]string, len(res))
	for i, r := range res {
		out[i] = r.name
	}
	return out
}

// skelBase lists, in source order, the calls inside fn whose base name (qualifier
// stripped) is in `want`, plus the marker "CheckCommitted" at each `if` whose
// condition tests the transaction status against TSCommitted.
func skelBase(fd *ast.FuncDecl, want map[string]bool) []string {
	if fd == nil || fd.Body == nil {
		return []string{"?"}
	}
	type pc struct {
		pos  token.Pos
		name string
	}
	var res []pc
	ast.Inspect(fd.Body, func(n ast.Node) bool {
		switch x := n.(type) {
		case *ast.CallExpr:
			name := exprStr(x.Fun)
			if i := strings.LastIndex(name, "."); i >= 0 {
				name = name[i+1:]
			}
			if want[name] {
				res = append(res, pc{x.Pos(), name})
			}
		case *ast.IfStmt:
			if strings.Contains(exprSrc(x.Cond), "TSCommitted") {
				res = append(res, pc{x.Pos(), "CheckCommitted"})
			}
		}
		return true
	})
	sort.Slice(res, func(i, j int) bool { return res[i].pos < res[j].pos })
	out := make([]string, len(res))
	for i, r := range res {
		out[i] = r.name
	}
	return out
}

func set(names ...string) map[string]bool {
	m := map[string]bool{}
	for _, n := range names {
		m[n] = true
	}
	return m
}

// ---------------------------------------------------------------- Coq printing

func coqStr(s string) string { return "\"" + strings.ReplaceAll(s, "\"", "\"\"") + "\"" }
func coqStrList(l []string) string {
	q := make([]string, len(l))
	for i, s := range l {
		q[i] = coqStr(s)
	}
	return "[" + strings.Join(q, "; ") + "]"
}
func coqOptN(s string, ok bool) string {
	if !ok {
		return "None"
	}
	if _, err := strconv.ParseUint(s, 10, 64); err != nil {
		return "None"
	}
	return "(Some " + s + "%N)"
}

var out strings.Builder

func def(name, typ, val, comment string) {
	if comment != "" {
		fmt.Fprintf(&out, "(* %s *)\n", comment)
	}
	fmt.Fprintf(&out, "Definition %s : %s := %s.\n\n", name, typ, val)
}

// ---------------------------------------------------------------- extractors

// intLitCompare finds `len(<v>) == <int>` inside fn and returns the ints found (in order).
func lenEqLits(fd *ast.FuncDecl) []string {
	var res []string
	if fd == nil {
		return res
	}
	ast.Inspect(fd.Body, func(n ast.Node) bool {
		b, ok := n.(*ast.BinaryExpr)
		if !ok || b.Op != token.EQL {
			return true
		}
		c, ok := b.X.(*ast.CallExpr)
		if !ok || exprStr(c.Fun) != "len" {
			return true
		}
		switch y := b.Y.(type) {
		case *ast.BasicLit:
			if y.Kind == token.INT && y.Value != "0" {
				res = append(res, y.Value)
			}
		case *ast.SelectorExpr, *ast.Ident:
			res = append(res, "sym:"+exprStr(y))
		}
		return true
	})
	return res
}

// float64Lits finds float64(<int literal or const>) conversions in fn.
func float64Lits(fd *ast.FuncDecl) []string {
	var res []string
	if fd == nil {
		return res
	}
	ast.Inspect(fd.Body, func(n ast.Node) bool {
		c, ok := n.(*ast.CallExpr)
		if !ok || exprStr(c.Fun) != "float64" || len(c.Args) != 1 {
			return true
		}
		switch y := c.Args[0].(type) {
		case *ast.BasicLit:
			res = append(res, y.Value)
		case *ast.Ident:
			if y.Name == "BlockSize" {
				res = append(res, "sym:BlockSize")
			}
		case *ast.SelectorExpr:
			if exprStr(y) == "objects.BlockSize" {
				res = append(res, "sym:BlockSize")
			}
		}
		return true
	})
	return res
}

// usesSymbol reports whether fn mentions the given selector/ident.
func usesSymbol(fd *ast.FuncDecl, sym string) bool {
	found := false
	if fd == nil {
		return false
	}
	ast.Inspect(fd.Body, func(n ast.Node) bool {
		if e, ok := n.(ast.Expr); ok {
			switch e.(type) {
			case *ast.SelectorExpr, *ast.Ident:
				if exprStr(e) == sym {
					found = true
				}
			}
		}
		return true
	})
	return found
}

// localVarType: declared or inferred type class of local variable `v` in fn:
// "uint16", "int", ... ; ":= <intlit>" is int.
func localVarType(fd *ast.FuncDecl, v string) string {
	res := "?"
	if fd == nil {
		return res
	}
	ast.Inspect(fd.Body, func(n ast.Node) bool {
		switch x := n.(type) {
		case *ast.DeclStmt:
			if gd, ok := x.Decl.(*ast.GenDecl); ok && gd.Tok == token.VAR {
				for _, sp := range gd.Specs {
					vs := sp.(*ast.ValueSpec)
					for _, nm := range vs.Names {
						if nm.Name == v && vs.Type != nil && res == "?" {
							res = exprStr(vs.Type)
						}
					}
				}
			}
		case *ast.AssignStmt:
			if x.Tok == token.DEFINE {
				for i, l := range x.Lhs {
					if id, ok := l.(*ast.Ident); ok && id.Name == v && i < len(x.Rhs) && res == "?" {
						if bl, ok := x.Rhs[i].(*ast.BasicLit); ok && bl.Kind == token.INT {
							res = "int"
						}
					}
				}
			}
		}
		return true
	})
	return res
}

// guardLimit finds `if len(<x>) > <limit> { panic|return }` in fn; returns limit (literal or resolved const) and action.
func guardLimit(rel string, fd *ast.FuncDecl) (limit string, action string) {
	limit, action = "?", "?"
	if fd == nil {
		return
	}
	ast.Inspect(fd.Body, func(n ast.Node) bool {
		is, ok := n.(*ast.IfStmt)
		if !ok || limit != "?" {
			return true
		}
		b, ok := is.Cond.(*ast.BinaryExpr)
		if !ok || b.Op != token.GTR {
			return true
		}
		c, ok := b.X.(*ast.CallExpr)
		if !ok || exprStr(c.Fun) != "len" || len(c.Args) != 1 {
			return true
		}
		// only guards on a string element (identifier), not on the slice itself vs maxUint32
		rhs := exprStr(b.Y)
		if rhs == "maxUint32" {
			return true
		}
		switch y := b.Y.(type) {
		case *ast.BasicLit:
			limit = y.Value
		case *ast.Ident:
			if v, ok := constValue(rel, y.Name); ok {
				limit = v
			}
		case *ast.SelectorExpr:
			switch exprStr(y) {
			case "math.MaxUint16":
				limit = "65535"
			case "objects.MaxStrLen":
				if v, ok := constValue("pkg/objects/str_list.go", "MaxStrLen"); ok {
					limit = v
				}
			}
		}
		if len(is.Body.List) > 0 {
			switch s := is.Body.List[0].(type) {
			case *ast.ExprStmt:
				if c, ok := s.X.(*ast.CallExpr); ok && exprStr(c.Fun) == "panic" {
					action = "panic"
				}
			case *ast.ReturnStmt:
				action = "error"
			}
		}
		return true
	})
	return
}

// readKinds: for every read of a fixed-size buffer in fn: io.ReadFull(...) => Full,
// <recv>.Read(<one arg>) => Single.  In source order.
func readKinds(fd *ast.FuncDecl) []string {
	var res []string
	if fd == nil {
		return []string{"?"}
	}
	type pk struct {
		pos token.Pos
		k   string
	}
	var l []pk
	ast.Inspect(fd.Body, func(n ast.Node) bool {
		c, ok := n.(*ast.CallExpr)
		if !ok {
			return true
		}
		name := exprStr(c.Fun)
		switch {
		case name == "io.ReadFull":
			l = append(l, pk{c.Pos(), "Full"})
		case name == "io.CopyN" || name == "io.ReadAtLeast":
			l = append(l, pk{c.Pos(), "Full"})
		case strings.HasSuffix(name, ".Read") && len(c.Args) == 1 && !strings.HasPrefix(name, "dec.") && !strings.HasPrefix(name, "NewStrListDecoder") && !strings.HasPrefix(name, "NewUintListDecoder") && !strings.HasPrefix(name, "NewFloatListDecoder") && !strings.HasPrefix(name, "sf."):
			// a call x.Read(buf) on an io.Reader-like value
			l = append(l, pk{c.Pos(), "Single"})
		}
		return true
	})
	sort.Slice(l, func(i, j int) bool { return l[i].pos < l[j].pos })
	for _, x := range l {
		res = append(res, x.k)
	}
	return res
}

// labels: string literals that are the first element of composite literals of the given element type in fn
// (fieldEncode{"table", ...} / fieldDecode{...}), in source order; also fieldEncode{"parent", ...} appended later.
func labels(fd *ast.FuncDecl) []string {
	var res []string
	if fd == nil {
		return []string{"?"}
	}
	type pl struct {
		pos token.Pos
		s   string
	}
	var l []pl
	ast.Inspect(fd.Body, func(n ast.Node) bool {
		cl, ok := n.(*ast.CompositeLit)
		if !ok || len(cl.Elts) == 0 {
			return true
		}
		if bl, ok := cl.Elts[0].(*ast.BasicLit); ok && bl.Kind == token.STRING && len(cl.Elts) == 2 {
			s, _ := strconv.Unquote(bl.Value)
			l = append(l, pl{cl.Pos(), s})
		}
		return true
	})
	// ReadField(parser, "parent", ...) style
	ast.Inspect(fd.Body, func(n ast.Node) bool {
		c, ok := n.(*ast.CallExpr)
		if !ok {
			return true
		}
		if exprStr(c.Fun) == "objline.ReadField" && len(c.Args) >= 2 {
			if bl, ok := c.Args[1].(*ast.BasicLit); ok && bl.Kind == token.STRING {
				s, _ := strconv.Unquote(bl.Value)
				l = append(l, pl{c.Pos(), s})
			}
		}
		return true
	})
	sort.Slice(l, func(i, j int) bool { return l[i].pos < l[j].pos })
	for _, x := range l {
		res = append(res, x.s)
	}
	return res
}

// stringLits: all string literals in fn.
func stringLits(fd *ast.FuncDecl) []string {
	var res []string
	if fd == nil {
		return res
	}
	ast.Inspect(fd.Body, func(n ast.Node) bool {
		if bl, ok := n.(*ast.BasicLit); ok && bl.Kind == token.STRING {
			s, err := strconv.Unquote(bl.Value)
			if err == nil {
				res = append(res, s)
			}
		}
		return true
	})
	return res
}

// lockset: walk the statements of fn in order; track the mutex nesting produced by
// <recv>.<mu>.Lock()/Unlock(); report each access to the given shared fields as
// "<field>:<R|W>:<locked|unlocked>".
func lockset(fd *ast.FuncDecl, recv string, fields []string) []string {
	var res []string
	if fd == nil {
		return []string{"?"}
	}
	depth := 0
	isField := func(e ast.Expr) (string, bool) {
		if s, ok := e.(*ast.SelectorExpr); ok {
			if id, ok := s.X.(*ast.Ident); ok && id.Name == recv {
				for _, f := range fields {
					if s.Sel.Name == f {
						return f, true
					}
				}
			}
		}
		return "", false
	}
	st := func() string {
		if depth > 0 {
			return "locked"
		}
		return "unlocked"
	}
	var visitExpr func(e ast.Node, write bool)
	visitExpr = func(e ast.Node, write bool) {
		ast.Inspect(e, func(n ast.Node) bool {
			if ex, ok := n.(ast.Expr); ok {
				if f, ok := isField(ex); ok {
					k := "R"
					if write {
						k = "W"
					}
					res = append(res, f+":"+k+":"+st())
					return false
				}
			}
			return true
		})
	}
	var visitStmt func(s ast.Stmt)
	visitBlock := func(b *ast.BlockStmt) {
		if b == nil {
			return
		}
		for _, s := range b.List {
			visitStmt(s)
		}
	}
	visitStmt = func(s ast.Stmt) {
		switch x := s.(type) {
		case *ast.ExprStmt:
			if c, ok := x.X.(*ast.CallExpr); ok {
				name := exprStr(c.Fun)
				if strings.HasPrefix(name, recv+".") && strings.HasSuffix(name, ".Lock") {
					depth++
					return
				}
				if strings.HasPrefix(name, recv+".") && strings.HasSuffix(name, ".Unlock") {
					depth--
					return
				}
			}
			visitExpr(x.X, false)
		case *ast.AssignStmt:
			for _, r := range x.Rhs {
				visitExpr(r, false)
			}
			for _, l := range x.Lhs {
				if f, ok := isField(l); ok {
					if x.Tok != token.ASSIGN && x.Tok != token.DEFINE {
						res = append(res, f+":R:"+st())
					}
					res = append(res, f+":W:"+st())
				} else {
					visitExpr(l, false)
				}
			}
		case *ast.IncDecStmt:
			if f, ok := isField(x.X); ok {
				res = append(res, f+":R:"+st(), f+":W:"+st())
			}
		case *ast.BlockStmt:
			visitBlock(x)
		case *ast.IfStmt:
			if x.Init != nil {
				visitStmt(x.Init)
			}
			visitExpr(x.Cond, false)
			visitBlock(x.Body)
			if x.Else != nil {
				visitStmt(x.Else)
			}
		case *ast.ForStmt:
			if x.Init != nil {
				visitStmt(x.Init)
			}
			if x.Cond != nil {
				visitExpr(x.Cond, false)
			}
			visitBlock(x.Body)
		case *ast.RangeStmt:
			visitExpr(x.X, false)
			visitBlock(x.Body)
		case *ast.ReturnStmt:
			for _, r := range x.Results {
				visitExpr(r, false)
			}
		case *ast.DeferStmt:
			// defer <recv>.mu.Unlock() keeps the lock until return: no change of depth here
			name := exprStr(x.Call.Fun)
			if !(strings.HasPrefix(name, recv+".") && strings.HasSuffix(name, ".Unlock")) {
				visitExpr(x.Call, false)
			}
		case *ast.SendStmt:
			visitExpr(x.Chan, false)
			visitExpr(x.Value, false)
		case *ast.DeclStmt:
			visitExpr(x, false)
		case *ast.GoStmt:
			visitExpr(x.Call, false)
		}
	}
	visitBlock(fd.Body)
	return res
}

// searchGuards: for each `v := sort.Search(...)` in fn, is the next statement an `if` whose
// condition mentions both `v < len(` and an equality test?  -> "checked" / "unchecked".
func searchGuards(fd *ast.FuncDecl) []string {
	var res []string
	if fd == nil {
		return []string{"?"}
	}
	var walk func(list []ast.Stmt)
	walk = func(list []ast.Stmt) {
		for i, s := range list {
			if as, ok := s.(*ast.AssignStmt); ok && len(as.Rhs) == 1 {
				if c, ok := as.Rhs[0].(*ast.CallExpr); ok && exprStr(c.Fun) == "sort.Search" {
					v := exprStr(as.Lhs[0])
					st := "unchecked"
					if i+1 < len(list) {
						if is, ok := list[i+1].(*ast.IfStmt); ok {
							src := exprSrc(is.Cond)
							if strings.Contains(src, v+" < len(") && strings.Contains(src, "==") {
								st = "checked"
							}
						}
					}
					res = append(res, st)
				}
			}
			// recurse
			ast.Inspect(s, func(n ast.Node) bool {
				if b, ok := n.(*ast.BlockStmt); ok && n != s {
					walk(b.List)
					return false
				}
				return true
			})
		}
	}
	walk(fd.Body.List)
	return res
}

func main() {
	if len(os.Args) < 2 {
		fmt.Fprintln(os.Stderr, "usage: translator <repo-root>")
		os.Exit(2)
	}
	root = os.Args[1]
	out.WriteString("(** GENERATED by /verif/translator from the Go sources of /repo on every run. DO NOT EDIT. *)\n")
	out.WriteString("From Coq Require Import List NArith String.\nImport ListNotations.\nOpen Scope string_scope.\n\n")

	// ---- block size (C01 C03 C04)
	bs, ok := constValue("pkg/objects/block.go", "BlockSize")
	def("block_size", "option N", coqOptN(bs, ok), "pkg/objects/block.go: const BlockSize")
	resolve := func(l []string) []string {
		r := []string{}
		for _, s := range l {
			if strings.HasPrefix(s, "sym:") {
				if ok {
					r = append(r, bs)
				} else {
					r = append(r, "?")
				}
			} else {
				r = append(r, s)
			}
		}
		return r
	}
	def("blocks_count_divisors", "list string", coqStrList(resolve(append(float64Lits(findFunc("pkg/objects/table.go", "BlocksCount")), float64Lits(findFunc("pkg/objects/table.go", "Table.ReadFrom"))...))),
		"divisor literals in objects.BlocksCount and Table.ReadFrom (must all equal block_size)")
	def("sorter_block_cut", "list string", coqStrList(resolve(append(lenEqLits(findFunc("pkg/sorter/sorter.go", "Sorter.SortedBlocks")), lenEqLits(findFunc("pkg/sorter/sorter.go", "Sorter.SortedRows"))...))),
		"`len(blk) == N` cut points in Sorter.SortedBlocks / SortedRows")
	rowAddr := []string{}
	for _, p := range [][2]string{{"pkg/diff/row_list_reader.go", "RowToBlockAndOffset"}, {"pkg/diff/iterate.go", "iterateAndMatch"}, {"pkg/diff/table_reader.go", "tableReader.Read"}} {
		fd := findFunc(p[0], p[1])
		if fd != nil && usesSymbol(fd, "objects.BlockSize") {
			rowAddr = append(rowAddr, p[1]+":BlockSize")
		} else {
			rowAddr = append(rowAddr, p[1]+":?")
		}
	}
	def("row_addr_uses", "list string", coqStrList(rowAddr), "row addressing sites and the constant they divide by")

	// ---- string list limits (C01 C06)
	enc := findFunc("pkg/objects/str_list.go", "StrListEncoder.Encode")
	dec := findFunc("pkg/objects/str_list.go", "StrListDecoder.Decode")
	def("strlist_encode_offset_type", "string", coqStr(localVarType(enc, "offset")), "declared/inferred type of the running offset in StrListEncoder.Encode")
	def("strlist_decode_offset_type", "string", coqStr(localVarType(dec, "offset")), "same in StrListDecoder.Decode")
	lim, act := guardLimit("pkg/objects/str_list.go", enc)
	def("strlist_cell_limit", "option N", coqOptN(lim, lim != "?"), "largest accepted cell length in Encode (guard `len(s) > limit`)")
	def("strlist_guard_action", "string", coqStr(act), "what the guard does")
	lim2, act2 := guardLimit("pkg/sorter/sorter.go", findFunc("pkg/sorter/sorter.go", "Sorter.AddRow"))
	def("addrow_cell_limit", "option N", coqOptN(lim2, lim2 != "?"), "Sorter.AddRow guard")
	def("addrow_guard_action", "string", coqStr(act2), "")
	lim3, act3 := guardLimit("pkg/encoding/objline/scalar.go", findFunc("pkg/encoding/objline/scalar.go", "WriteString"))
	def("objline_string_limit", "option N", coqOptN(lim3, lim3 != "?"), "objline.WriteString guard")
	def("objline_string_guard_action", "string", coqStr(act3), "")
	sortFileCalls := calls(findFunc("pkg/sorter/sorter.go", "Sorter.SortFile"), set("s.AddRow"))
	addRowChecked := "unchecked"
	if fd := findFunc("pkg/sorter/sorter.go", "Sorter.SortFile"); fd != nil {
		src := exprSrc2(fd.Body)
		if strings.Contains(src, "err = s.AddRow(row); err != nil") || strings.Contains(src, "err := s.AddRow(row); err != nil") {
			addRowChecked = "checked"
		}
	}
	def("sortfile_addrow", "list string", coqStrList(append(sortFileCalls, addRowChecked)), "SortFile: calls to AddRow and whether its error is checked")

	// ---- object key prefixes (C06 C12)
	prefixes := []string{}
	if f := parse("pkg/objects/persistence.go"); f != nil {
		for _, d := range f.Decls {
			gd, ok := d.(*ast.GenDecl)
			if !ok || gd.Tok != token.VAR {
				continue
			}
			for _, sp := range gd.Specs {
				vs := sp.(*ast.ValueSpec)
				for i, n := range vs.Names {
					if strings.HasSuffix(n.Name, "Prefix") && i < len(vs.Values) {
						if c, ok := vs.Values[i].(*ast.CallExpr); ok && len(c.Args) == 1 {
							if bl, ok := c.Args[0].(*ast.BasicLit); ok {
								s, _ := strconv.Unquote(bl.Value)
								prefixes = append(prefixes, s)
							}
						}
					}
				}
			}
		}
	}
	def("obj_prefixes", "list string", coqStrList(prefixes), "pkg/objects/persistence.go key prefixes")

	// ---- field labels (C06 C17)
	def("commit_write_labels", "list string", coqStrList(labels(findFunc("pkg/objects/commit.go", "Commit.WriteTo"))), "")
	def("commit_read_labels", "list string", coqStrList(labels(findFunc("pkg/objects/commit.go", "Commit.ReadFrom"))), "")
	def("table_write_labels", "list string", coqStrList(labels(findFunc("pkg/objects/table.go", "Table.writeMeta"))), "")
	def("table_read_labels", "list string", coqStrList(labels(findFunc("pkg/objects/table.go", "Table.readMeta"))), "")

	// ---- packfile constants (C06 C07)
	ver, okv := constValue("pkg/encoding/packfile/packfile.go", "Version")
	def("pack_version", "option N", coqOptN(ver, okv), "")
	magic := "?"
	for _, s := range stringLits(findFunc("pkg/encoding/packfile/packfile.go", "PackfileWriter.writeVersion")) {
		magic = s
	}
	def("pack_magic", "string", coqStr(magic), "")
	hdrBits := "?"
	if fd := findFunc("pkg/encoding/packfile/packfile.go", "encodeObjTypeAndLen"); fd != nil {
		src := exprSrc2(fd.Body)
		switch {
		case strings.Contains(src, "Len64(u)"):
			hdrBits = "Len64"
		case strings.Contains(src, "math.Log2"):
			hdrBits = "Log2"
		}
	}
	def("pack_header_bits", "string", coqStr(hdrBits), "how encodeObjTypeAndLen computes the bit length of u")

	// ---- read kinds (C18)
	type site struct{ file, fn string }
	sites := []site{
		{"pkg/encoding/parser.go", "Parser.NextBytes"},
		{"pkg/encoding/objline/field.go", "ReadBytes"},
		{"pkg/encoding/packfile/packfile.go", "PackfileReader.readVersion"},
		{"pkg/encoding/packfile/packfile.go", "decodeObjTypeAndLen"},
		{"pkg/encoding/packfile/packfile.go", "PackfileReader.ReadObject"},
		{"pkg/objects/block.go", "ReadBlockFrom"},
		{"pkg/objects/table.go", "Table.readBlock"},
		{"pkg/objects/block_index.go", "BlockIndex.ReadFrom"},
		{"pkg/objects/uint_list.go", "UintListDecoder.readUint32"},
		{"pkg/objects/float_list.go", "FloatListDecoder.readUint32"},
		{"pkg/objects/float_list.go", "FloatListDecoder.readFloat64"},
		{"pkg/objects/str_list.go", "StrListDecoder.readUint16"},
		{"pkg/objects/str_list.go", "StrListDecoder.readUint32"},
		{"pkg/objects/str_list.go", "StrListDecoder.Read"},
		{"pkg/objects/str_list.go", "StrListDecoder.ReadBytes"},
	}
	var rk []string
	for _, s := range sites {
		rk = append(rk, "("+coqStr(s.fn)+", "+coqStrList(readKinds(findFunc(s.file, s.fn)))+")")
	}
	var rsk []string
	for _, s := range sites {
		for k, kind := range readKinds(findFunc(s.file, s.fn)) {
			rsk = append(rsk, "("+coqStr(fmt.Sprintf("%s:%s#%d", s.file, s.fn, k))+", "+coqStr(kind)+")")
		}
	}
	def("read_site_kinds", "list (string * string)", "[\n  "+strings.Join(rsk, ";\n  ")+"]", "one entry per read call: <file>:<func>#<k> (k = source-order index among Read/ReadFull/ReadAtLeast/CopyN calls in that function)")
	def("read_sites", "list (string * list string)", "[\n  "+strings.Join(rk, ";\n  ")+"]", "for each decoder function, the kind of every fixed-size read it issues: Full = io.ReadFull/io.CopyN, Single = one Read call")

	// ---- write-order skeletons (C13 C14 C07 C12)
	storeCalls := set("objects.SaveBlock", "objects.SaveCompressedBlock", "objects.SaveBlockIndex", "objects.SaveTable", "objects.SaveTableIndex",
		"objects.SaveTableProfile", "objects.SaveCommit", "ingest.IndexTable", "ingest.ProfileTable", "objects.ValidateBlockBytes",
		"objects.CommitExist", "objects.ReadTableFrom", "objects.ReadCommitFrom",
		"ref.SaveRef", "ref.CommitHead", "ref.CommitMerge", "ref.SaveFetchRef", "ref.SaveTag", "ref.SaveRemoteRef",
		"rs.GetTransaction", "ref.ListTransactionRefs", "rs.GetTransactionLogs", "rs.UpdateTransaction", "rs.DeleteTransaction",
		"ref.DeleteTransactionRefs", "objects.DeleteTable", "objects.DeleteTableIndex", "objects.DeleteTableProfile",
		"objects.DeleteBlock", "objects.DeleteBlockIndex", "objects.DeleteCommit", "i.sortBlocks", "i.wg.Wait", "close", "pruneTables", "findCommitsToRemove",
		"saveFetchedRefs", "sess.Start", "trimRefsToDepth", "fetchObjects")
	sk := func(name, file, fn string) {
		def(name, "list string", coqStrList(calls(findFunc(file, fn), storeCalls)), file+": "+fn)
	}
	sk("skel_ingest", "pkg/ingest/inserter.go", "Inserter.ingestTableFromBlocks")
	sk("skel_insert_block", "pkg/ingest/inserter.go", "Inserter.insertBlock")
	sk("skel_recv_block", "pkg/api/utils/object_receiver.go", "ObjectReceiver.saveBlock")
	sk("skel_recv_table", "pkg/api/utils/object_receiver.go", "ObjectReceiver.saveTable")
	sk("skel_recv_commit", "pkg/api/utils/object_receiver.go", "ObjectReceiver.saveCommit")
	sk("skel_index_table", "pkg/ingest/index.go", "IndexTable")
	sk("skel_tx_commit", "pkg/transaction/transaction.go", "Commit")
	sk("skel_tx_discard", "pkg/transaction/transaction.go", "Discard")
	txNames := set("GetTransaction", "ListTransactionRefs", "GetTransactionLogs", "GetCommit", "GetHead", "SaveCommit", "SaveRef",
		"UpdateTransaction", "DeleteTransactionRefs", "DeleteTransaction")
	def("txn_commit_skel", "list string", coqStrList(skelBase(findFunc("pkg/transaction/transaction.go", "Commit"), txNames)),
		"transaction.Commit: store calls by base name in source order, with the CheckCommitted marker at the status guard")
	def("txn_discard_skel", "list string", coqStrList(skelBase(findFunc("pkg/transaction/transaction.go", "Discard"), txNames)),
		"transaction.Discard")
	// prune: Delete* calls and childrenFirst in source order of Prune, pruneTables inlined at its call site
	{
		names := set("DeleteTable", "DeleteTableIndex", "DeleteTableProfile", "DeleteBlock", "DeleteBlockIndex", "DeleteCommit", "childrenFirst", "pruneTables")
		var flat []string
		for _, c := range skelBase(findFunc("pkg/prune/prune.go", "Prune"), names) {
			if c == "pruneTables" {
				flat = append(flat, skelBase(findFunc("pkg/prune/prune.go", "pruneTables"), names)...)
			} else {
				flat = append(flat, c)
			}
		}
		def("prune_delete_skel", "list string", coqStrList(flat), "prune.Prune: deletes and the commit ordering call in source order (pruneTables inlined)")
	}
	sk("skel_prune", "pkg/prune/prune.go", "Prune")
	sk("skel_prune_tables", "pkg/prune/prune.go", "pruneTables")
	sk("skel_fetch", "cmd/wrgl/fetch/root.go", "Fetch")
	cmdCalls := set("ref.GetHead", "ingestTable", "objects.SaveCommit", "saveHead", "ingest.IngestTableFromBlocks", "objects.GetTable",
		"ingest.ProfileTable", "createMergeCommit", "ref.CommitMerge", "ref.DeleteHead", "commit")
	skc := func(name, file, fn string) {
		def(name, "list string", coqStrList(calls(findFunc(file, fn), cmdCalls)), file+": "+fn)
	}
	skc("skel_cmd_commit", "cmd/wrgl/commit_cmd.go", "commit")
	skc("skel_cmd_commit_with_table", "cmd/wrgl/commit_cmd.go", "commitWithTable")
	skc("skel_cmd_commit_temp_branch", "cmd/wrgl/commit_cmd.go", "commitTempBranch")
	skc("skel_cmd_merge_result", "cmd/wrgl/merge_cmd.go", "commitMergeResult")
	skc("skel_cmd_create_merge", "cmd/wrgl/merge_cmd.go", "createMergeCommit")
	// SetWithLog: ref upsert and reflog insert inside ONE sqlutil.RunInTx
	swl := "?"
	if fd := findFunc("pkg/ref/sql/store.go", "Store.SetWithLog"); fd != nil && fd.Body != nil && len(fd.Body.List) == 1 {
		if rs, ok := fd.Body.List[0].(*ast.ReturnStmt); ok && len(rs.Results) == 1 {
			if c, ok := rs.Results[0].(*ast.CallExpr); ok && exprStr(c.Fun) == "sqlutil.RunInTx" {
				src := exprSrc2(c)
				if strings.Contains(src, "INSERT INTO refs") && strings.Contains(src, "INSERT INTO reflogs") && strings.Contains(src, "SELECT sum FROM refs") {
					swl = "RunInTx"
				}
			}
		}
	}
	if swl == "?" {
		swl = "not-atomic"
	}
	def("setwithlog_shape", "string", coqStr(swl), "pkg/ref/sql SetWithLog: read old value, upsert ref and insert reflog row inside one sqlutil.RunInTx")
	// sortBlocks: saved blocks are ordered by Offset with a full sort before the table is assembled
	sbs := "?"
	if fd := findFunc("pkg/ingest/inserter.go", "Inserter.sortBlocks"); fd != nil {
		src := exprSrc2(fd.Body)
		cs := calls(fd, set("sort.Slice", "sort.SliceStable", "sort.Sort"))
		if len(cs) > 0 && strings.Contains(src, ".Offset < ") {
			sbs = "sort-by-offset"
		} else {
			sbs = "no-sort"
		}
	}
	def("sortblocks_shape", "string", coqStr(sbs), "Inserter.sortBlocks sorts asyncBlocks by Offset")
	def("prune_search_guards", "list string", coqStrList(append(searchGuards(findFunc("pkg/prune/prune.go", "findCommitsToRemove")), searchGuards(findFunc("pkg/prune/prune.go", "pruneTables"))...)),
		"for each sort.Search lookup in prune: is the found slot compared with the key before use")

	pco := "?"
	if fd := findFunc("pkg/prune/prune.go", "Prune"); fd != nil {
		src := exprSrc2(fd.Body)
		switch {
		case strings.Contains(src, "range childrenFirst(db, commitsToRemove)"):
			pco = "childrenFirst"
		case strings.Contains(src, "range commitsToRemove"):
			pco = "hashOrder"
		}
	}
	def("prune_commit_order", "string", coqStr(pco), "order in which Prune deletes the unreachable commits")

	// ---- worker pool lockset (C16)
	def("pool_accesses", "list string", coqStrList(lockset(findFunc("pkg/ingest/inserter.go", "Inserter.insertBlock"), "i", []string{"rowsCount", "asyncBlocks"})),
		"Inserter.insertBlock: accesses to the fields shared between worker goroutines: field:R|W:locked|unlocked")
	def("pool_post_accesses", "list string", coqStrList(calls(findFunc("pkg/ingest/inserter.go", "Inserter.ingestTableFromBlocks"), set("i.wg.Wait", "i.sortBlocks", "close", "i.wg.Add"))),
		"ingestTableFromBlocks: order of wg.Add / wg.Wait / close(errChan) / sortBlocks")
	errCap := "?"
	if fd := findFunc("pkg/ingest/inserter.go", "Inserter.ingestTableFromBlocks"); fd != nil {
		src := exprSrc2(fd.Body)
		if strings.Contains(src, "make(chan error, i.numWorkers)") {
			errCap = "numWorkers"
		}
	}
	def("pool_errchan_capacity", "string", coqStr(errCap), "capacity of Inserter.errChan relative to the number of workers")

	// ---- ref store filter (C15 C10)
	fk := "?"
	lits := stringLits(findFunc("pkg/ref/sql/store.go", "filterQuery"))
	joined := strings.Join(lits, "\n")
	switch {
	case strings.Contains(joined, "LIKE"):
		fk = "LIKE"
	case strings.Contains(joined, "instr(name, ?) = 1") && strings.Contains(joined, "instr(name, ?) != 1"):
		fk = "INSTR"
	case strings.Contains(joined, "GLOB"):
		fk = "GLOB"
	}
	def("filter_kind", "string", coqStr(fk), "operator used by pkg/ref/sql filterQuery for prefix filters")
	refp := []string{}
	for _, n := range []string{"HeadPrefix", "TagPrefix", "RemoteRefPrefix", "TransactionRefPrefix"} {
		v, ok := constValue("pkg/ref/refs.go", n)
		if !ok {
			v = "?"
		}
		refp = append(refp, v)
	}
	def("ref_prefixes", "list string", coqStrList(refp), "heads/, tags/, remotes/, txs/")

	// ---- merge base pre-check (C11 C10)
	sca := "absent"
	if fd := findFunc("pkg/ref/utils.go", "SeekCommonAncestor"); fd != nil {
		cs := calls(fd, set("IsAncestorOf", "NewCommitsQueue"))
		if len(cs) > 0 && cs[0] == "IsAncestorOf" {
			sca = "precheck-first"
		}
	}
	def("seek_common_ancestor_shape", "string", coqStr(sca), "SeekCommonAncestor: ancestor pre-check before the lock-step walk")

	fmt.Print(out.String())
}

func exprSrc2(n ast.Node) string {
	start, end := fset.Position(n.Pos()), fset.Position(n.End())
	b, err := os.ReadFile(start.Filename)
	if err != nil {
		return ""
	}
	return string(b[start.Offset:end.Offset])
}
