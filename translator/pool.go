// pool.go: lockset facts of the ingest worker pool (C16).
package main

import (
	"go/ast"
	"go/constant"
	"go/token"
	"sort"
	"strings"
)

type lockAccess struct {
	field string
	kind  string // R | W
	excl  []string
	shrd  []string
}

type lockWalker struct {
	res  []lockAccess
	excl map[string]int // mutex field -> nesting of Lock
	shrd map[string]int // mutex field -> nesting of RLock
}

// isRecv: e denotes the receiver of the ROOT function (also from inside an inlined
// method that was called on that receiver).
func isRecv(fc *FuncCtx, e ast.Expr) bool {
	c, r := fc.resolve(e)
	if u, ok := r.(*ast.UnaryExpr); ok && u.Op == token.AND {
		c, r = c.resolve(u.X)
	}
	if s, ok := r.(*ast.StarExpr); ok {
		c, r = c.resolve(s.X)
	}
	id, ok := r.(*ast.Ident)
	return ok && c.caller == nil && c.recvObj != nil && id.Obj == c.recvObj
}

// recvField: e is <receiver>.<field>
func recvField(fc *FuncCtx, e ast.Expr) (string, bool) {
	s, ok := unparen(e).(*ast.SelectorExpr)
	if !ok || !isRecv(fc, s.X) {
		return "", false
	}
	return s.Sel.Name, true
}

// rootField: the receiver field at the root of an lvalue  recv.f / recv.f[i] / recv.f.g / *recv.f
func rootField(fc *FuncCtx, e ast.Expr) (string, bool) {
	for {
		e = unparen(e)
		if f, ok := recvField(fc, e); ok {
			return f, true
		}
		switch x := e.(type) {
		case *ast.IndexExpr:
			e = x.X
		case *ast.SelectorExpr:
			e = x.X
		case *ast.StarExpr:
			e = x.X
		case *ast.SliceExpr:
			e = x.X
		default:
			return "", false
		}
	}
}

// mutexOp: call is <receiver mutex>.Lock / Unlock / RLock / RUnlock
func mutexOp(fc *FuncCtx, call *ast.CallExpr) (mu string, op string, ok bool) {
	s, isSel := unparen(call.Fun).(*ast.SelectorExpr)
	if !isSel {
		return
	}
	switch s.Sel.Name {
	case "Lock", "Unlock", "RLock", "RUnlock":
	default:
		return
	}
	c, x := fc.resolve(s.X)
	if u, isU := x.(*ast.UnaryExpr); isU && u.Op == token.AND {
		c, x = c.resolve(u.X)
	}
	if f, isF := recvField(c, x); isF {
		if _, isMu := isMutexType(fieldType(c.typeOf(x.(*ast.SelectorExpr).X), f)); isMu {
			return f, s.Sel.Name, true
		}
		return
	}
	// embedded mutex: recv.Lock()
	if isRecv(c, x) {
		if st, f := structOf(c.typeOf(x)); st != nil {
			for _, fl := range st.Fields.List {
				if len(fl.Names) == 0 {
					if _, isMu := isMutexType(typeFromExpr(f, fl.Type)); isMu {
						return "Mutex", s.Sel.Name, true
					}
				}
			}
		}
	}
	return
}

func (lw *lockWalker) apply(mu, op string) {
	switch op {
	case "Lock":
		lw.excl[mu]++
	case "Unlock":
		if lw.excl[mu] > 0 {
			lw.excl[mu]--
		}
	case "RLock":
		lw.shrd[mu]++
	case "RUnlock":
		if lw.shrd[mu] > 0 {
			lw.shrd[mu]--
		}
	}
}

func held(m map[string]int) []string {
	var r []string
	for k, v := range m {
		if v > 0 {
			r = append(r, k)
		}
	}
	sort.Strings(r)
	return r
}

func (lw *lockWalker) access(f, kind string) {
	lw.res = append(lw.res, lockAccess{f, kind, held(lw.excl), held(lw.shrd)})
}

// expr: every receiver field mentioned in e is read; calls of unexported methods on the
// receiver are followed one level; function literals are walked with the current lock state.
func (lw *lockWalker) expr(fc *FuncCtx, e ast.Node) {
	if e == nil {
		return
	}
	ast.Inspect(e, func(n ast.Node) bool {
		switch x := n.(type) {
		case *ast.FuncLit:
			// the literal's own deferred unlocks end with the literal
			var deferred [][2]string
			lw.stmts(fc, x.Body.List, &deferred)
			for i := len(deferred) - 1; i >= 0; i-- {
				lw.apply(deferred[i][0], deferred[i][1])
			}
			return false
		case *ast.CallExpr:
			if mu, op, ok := mutexOp(fc, x); ok {
				lw.apply(mu, op)
				return false
			}
			if s, ok := unparen(x.Fun).(*ast.SelectorExpr); ok && isRecv(fc, s.X) && fc.depth < 1 {
				if callee := fc.calleeOf(x); callee != nil && callee.pkg == fc.pkg && !ast.IsExported(callee.decl.Name.Name) && callee.decl.Body != nil && callee != fc.fn {
					for _, a := range x.Args {
						lw.expr(fc, a)
					}
					lw.function(fc.enter(callee, x))
					return false
				}
			}
		case ast.Expr:
			if f, ok := recvField(fc, x); ok {
				lw.access(f, "R")
				return false
			}
		}
		return true
	})
}

func (lw *lockWalker) lvalue(fc *FuncCtx, l ast.Expr, alsoRead bool) {
	if f, ok := recvField(fc, l); ok {
		if alsoRead {
			lw.access(f, "R")
		}
		lw.access(f, "W")
		return
	}
	if f, ok := rootField(fc, l); ok {
		// recv.f[i] = v / recv.f.g = v : reads f, writes what f refers to
		lw.expr(fc, l)
		lw.access(f, "W")
		return
	}
	lw.expr(fc, l)
}

// function walks a (helper) body; unlocks deferred inside it take effect when it ends.
func (lw *lockWalker) function(fc *FuncCtx) {
	var deferred [][2]string
	lw.stmts(fc, fc.body.List, &deferred)
	for i := len(deferred) - 1; i >= 0; i-- {
		lw.apply(deferred[i][0], deferred[i][1])
	}
}

func (lw *lockWalker) stmts(fc *FuncCtx, l []ast.Stmt, deferred *[][2]string) {
	for _, s := range l {
		lw.stmt(fc, s, deferred)
	}
}

func (lw *lockWalker) stmt(fc *FuncCtx, s ast.Stmt, deferred *[][2]string) {
	switch x := s.(type) {
	case nil:
	case *ast.ExprStmt:
		lw.expr(fc, x.X)
	case *ast.AssignStmt:
		for _, r := range x.Rhs {
			lw.expr(fc, r)
		}
		for _, l := range x.Lhs {
			lw.lvalue(fc, l, x.Tok != token.ASSIGN && x.Tok != token.DEFINE)
		}
	case *ast.IncDecStmt:
		lw.lvalue(fc, x.X, true)
	case *ast.BlockStmt:
		lw.stmts(fc, x.List, deferred)
	case *ast.IfStmt:
		lw.stmt(fc, x.Init, deferred)
		lw.expr(fc, x.Cond)
		lw.stmts(fc, x.Body.List, deferred)
		lw.stmt(fc, x.Else, deferred)
	case *ast.ForStmt:
		lw.stmt(fc, x.Init, deferred)
		lw.expr(fc, x.Cond)
		lw.stmts(fc, x.Body.List, deferred)
		lw.stmt(fc, x.Post, deferred)
	case *ast.RangeStmt:
		lw.expr(fc, x.X)
		if x.Tok == token.ASSIGN {
			if x.Key != nil {
				lw.lvalue(fc, x.Key, false)
			}
			if x.Value != nil {
				lw.lvalue(fc, x.Value, false)
			}
		}
		lw.stmts(fc, x.Body.List, deferred)
	case *ast.ReturnStmt:
		for _, r := range x.Results {
			lw.expr(fc, r)
		}
	case *ast.DeferStmt:
		// defer mu.Unlock(): the lock is kept until the function returns
		if mu, op, ok := mutexOp(fc, x.Call); ok {
			if deferred != nil && (op == "Unlock" || op == "RUnlock") {
				*deferred = append(*deferred, [2]string{mu, op})
			}
			return
		}
		lw.expr(fc, x.Call)
	case *ast.GoStmt:
		lw.expr(fc, x.Call)
	case *ast.SendStmt:
		lw.expr(fc, x.Chan)
		lw.expr(fc, x.Value)
	case *ast.DeclStmt:
		lw.expr(fc, x)
	case *ast.LabeledStmt:
		lw.stmt(fc, x.Stmt, deferred)
	case *ast.SwitchStmt:
		lw.stmt(fc, x.Init, deferred)
		lw.expr(fc, x.Tag)
		lw.stmts(fc, x.Body.List, deferred)
	case *ast.TypeSwitchStmt:
		lw.stmt(fc, x.Init, deferred)
		lw.stmt(fc, x.Assign, deferred)
		lw.stmts(fc, x.Body.List, deferred)
	case *ast.SelectStmt:
		lw.stmts(fc, x.Body.List, deferred)
	case *ast.CaseClause:
		for _, e := range x.List {
			lw.expr(fc, e)
		}
		lw.stmts(fc, x.Body, deferred)
	case *ast.CommClause:
		lw.stmt(fc, x.Comm, deferred)
		lw.stmts(fc, x.Body, deferred)
	}
}

// lockset reports, for every field of the receiver that the worker function WRITES,
// each of its accesses as "<field>:<R|W>:<locked|unlocked>" in statement order.
// An access is locked when a mutex field (sync.Mutex / sync.RWMutex, identified by
// type) of the receiver is held - exclusively for writes - and all accesses of the
// field have such a mutex in common.
func lockset(fn *Func) []string {
	if fn == nil || fn.decl.Body == nil {
		return []string{"?"}
	}
	lw := &lockWalker{excl: map[string]int{}, shrd: map[string]int{}}
	lw.function(newFuncCtx(fn))
	written := map[string]bool{}
	for _, a := range lw.res {
		if a.kind == "W" {
			written[a.field] = true
		}
	}
	// per written field: mutexes that protect every access
	common := map[string]map[string]bool{}
	for _, a := range lw.res {
		if !written[a.field] {
			continue
		}
		prot := map[string]bool{}
		for _, m := range a.excl {
			prot[m] = true
		}
		if a.kind == "R" {
			for _, m := range a.shrd {
				prot[m] = true
			}
		}
		if c, ok := common[a.field]; !ok {
			common[a.field] = prot
		} else {
			for m := range c {
				if !prot[m] {
					delete(c, m)
				}
			}
		}
	}
	res := []string{}
	for _, a := range lw.res {
		if !written[a.field] {
			continue
		}
		st := "unlocked"
		if len(common[a.field]) > 0 {
			st = "locked"
		}
		res = append(res, a.field+":"+a.kind+":"+st)
	}
	return res
}

// ---------------------------------------------------------------- error channel capacity

// loopBound: the number of iterations of the counting loop that encloses n.
func loopBound(fc *FuncCtx, n ast.Node) ast.Expr {
	for p := fc.parent(n); p != nil; p = fc.parent(p) {
		switch x := p.(type) {
		case *ast.ForStmt:
			c, ok := unparen(x.Cond).(*ast.BinaryExpr)
			if !ok {
				return nil
			}
			init, ok := x.Init.(*ast.AssignStmt)
			if !ok || len(init.Lhs) != 1 || len(init.Rhs) != 1 {
				return nil
			}
			v, ok := init.Lhs[0].(*ast.Ident)
			if !ok || v.Obj == nil {
				return nil
			}
			post, ok := x.Post.(*ast.IncDecStmt)
			if !ok || !isObj(post.X, v.Obj) {
				return nil
			}
			start, _ := fc.constOf(init.Rhs[0])
			switch {
			// for j := 0; j < N; j++
			case post.Tok == token.INC && start != nil && constString(start) == "0" && c.Op == token.LSS && isObj(c.X, v.Obj):
				return c.Y
			case post.Tok == token.INC && start != nil && constString(start) == "0" && c.Op == token.GTR && isObj(c.Y, v.Obj):
				return c.X
			// for j := 1; j <= N; j++
			case post.Tok == token.INC && start != nil && constString(start) == "1" && c.Op == token.LEQ && isObj(c.X, v.Obj):
				return c.Y
			// for j := N; j > 0; j--
			case post.Tok == token.DEC && c.Op == token.GTR && isObj(c.X, v.Obj):
				if z, ok := fc.constOf(c.Y); ok && constString(z) == "0" {
					return init.Rhs[0]
				}
			}
			return nil
		case *ast.RangeStmt:
			if t := fc.typeOf(x.X); t != nil && t.kind == "basic" && strings.Contains(t.name, "int") {
				return x.X // for range N (Go 1.22)
			}
			return nil
		case *ast.FuncLit, *ast.FuncDecl:
			return nil
		}
	}
	return nil
}

// errChanCapacity: "numWorkers" iff every channel field the worker goroutines send
// on is created with make(chan T, C) where C is the bound of the loop that starts the
// workers (each worker sends at most once before returning).
func errChanCapacity(fn *Func) string {
	if fn == nil {
		return "?"
	}
	type mk struct {
		fc    *FuncCtx
		field string
		cap   ast.Expr
	}
	var makes []mk
	var worker *Func
	var bound ast.Expr
	var boundCtx *FuncCtx
	workers := 0
	w := &Walker{maxDepth: 1}
	w.onCall = func(fc *FuncCtx, call *ast.CallExpr, name string, mode callMode) {
		if mode != modeGo {
			return
		}
		s, ok := unparen(call.Fun).(*ast.SelectorExpr)
		if !ok || !isRecv(fc, s.X) {
			return
		}
		if callee := fc.calleeOf(call); callee != nil {
			workers++
			worker = callee
			bound, boundCtx = loopBound(fc, call), fc
		}
	}
	w.onNode = func(fc *FuncCtx, n ast.Node) {
		as, ok := n.(*ast.AssignStmt)
		if !ok || len(as.Lhs) != len(as.Rhs) {
			return
		}
		for i, l := range as.Lhs {
			f, ok := recvField(fc, l)
			if !ok {
				continue
			}
			if c, ok := fc.builtinCall(as.Rhs[i], "make"); ok && len(c.Args) >= 1 {
				if _, isChan := c.Args[0].(*ast.ChanType); isChan {
					var capE ast.Expr
					if len(c.Args) == 2 {
						capE = c.Args[1]
					}
					makes = append(makes, mk{fc, f, capE})
				}
			}
		}
	}
	w.walkFunc(fn)
	if workers != 1 || worker == nil || bound == nil || worker.decl.Body == nil {
		return "?"
	}
	// channel fields the worker sends on
	wc := newFuncCtx(worker)
	sent := map[string]bool{}
	ast.Inspect(worker.decl.Body, func(n ast.Node) bool {
		if s, ok := n.(*ast.SendStmt); ok {
			if f, ok := recvField(wc, s.Chan); ok {
				sent[f] = true
			}
		}
		return true
	})
	if len(sent) == 0 {
		return "?"
	}
	for f := range sent {
		ok := false
		n := 0
		for _, m := range makes {
			if m.field != f {
				continue
			}
			n++
			if m.cap != nil && sameExpr(m.fc, m.cap, boundCtx, bound) {
				ok = true
			}
			// N + k, k > 0: more room than senders is fine too
			if b, isB := unparen(m.cap).(*ast.BinaryExpr); isB && m.cap != nil && b.Op == token.ADD {
				for _, side := range [][2]ast.Expr{{b.X, b.Y}, {b.Y, b.X}} {
					if v, isC := m.fc.constOf(side[1]); isC && v.Kind() == constant.Int && constant.Sign(v) > 0 && sameExpr(m.fc, side[0], boundCtx, bound) {
						ok = true
					}
				}
			}
		}
		if !ok || n != 1 {
			return "?"
		}
	}
	return "numWorkers"
}
