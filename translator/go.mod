module veriftranslator

go 1.19
