#!/bin/bash
# Self-test of the code-level tie (translator/goast.go -> coq/gen/ExtractedCode.v ->
# coq/proofs/GoCode_*_proofs.v).  Nothing under /repo or /verif/coq is modified:
#   * /repo is copied to a scratch directory,
#   * for every entry of the table below ONE edit is applied to the copy, the translator is run
#     on it into a scratch gen/ExtractedCode.v, and the kernel's proof file is recompiled against
#     that scratch file (logical path W.gen -> scratch/gen; lib/model/proofs .vo come from
#     /verif/coq, which must have been built: ./check or make -f Makefile.goast).
#   * "break" edits change what the function computes: the proof must FAIL to compile;
#     "keep" edits are harmless rewrites: reported honestly whether the proof survives
#     (proofs about a deep embedding follow the shape of the AST; variable and label names,
#     comments, formatting never matter because the translator numbers variables and loops).
# usage: goast_selftest.sh [kernel-filter-regex]     exit status 0 iff every "break" edit is detected
set -u
export GOFLAGS=-mod=mod GOPROXY=off GOSUMDB=off GOTOOLCHAIN=local
VERIF=${VERIF:-/verif}
REPO=${VERIF_REPO:-/repo}
T=$(mktemp -d /tmp/goast-selftest.XXXXXX)
trap 'rm -rf "$T"' EXIT
mkdir -p "$T/gen" "$T/proofs" "$T/bin"
(cd "$VERIF/translator" && go build -o "$T/bin/translator" .) || { echo "translator build failed"; exit 2; }
mkdir -p "$T/repo"
(cd "$REPO" && tar cf - --exclude=.git .) | (cd "$T/repo" && tar xf -)
FILTER=${1:-.} T=$T VERIF=$VERIF python3 - <<'EOF'
import os, re, subprocess, sys, shutil, time
T, VERIF, FILTER = os.environ["T"], os.environ["VERIF"], os.environ["FILTER"]
COQ = os.path.join(VERIF, "coq")
REPO = os.path.join(T, "repo")

# kernel -> (go file, proof file)
K = {
 "a RowToBlockAndOffset":  ("pkg/diff/row_list_reader.go", "GoCode_RowAddr_proofs.v"),
 "b StringSliceEqual":     ("pkg/slice/slice.go",          "GoCode_Slices_proofs.v"),
 "c StringSliceIsLess":    ("pkg/objects/str_list.go",     "GoCode_Slices_proofs.v"),
 "d pkIsDifferent":        ("pkg/sorter/sorter.go",        "GoCode_Slices_proofs.v"),
 "e ValidateStrListBytes": ("pkg/objects/str_list.go",     "GoCode_Validate_proofs.v"),
 "e ValidateBlockBytes":   ("pkg/objects/block.go",        "GoCode_Validate_proofs.v"),
 "f findOverlappingBlocks":("pkg/diff/iterate.go",         "GoCode_Overlap_proofs.v"),
 "g KeyIndices":           ("pkg/slice/slice.go",          "GoCode_KeyIndices_proofs.v"),
 "h encodeObjTypeAndLen":  ("pkg/encoding/packfile/packfile.go", "GoCode_Packfile_proofs.v"),
 "i childrenFirst":        ("pkg/prune/prune.go",          "GoCode_ChildrenFirst_proofs.v"),
 "iii CombineRowBytesIntoBlock": ("pkg/objects/block.go",  "GoCode_Block_proofs.v"),
 "v IndicesToValues":      ("pkg/slice/slice.go",          "GoCode_Cols_proofs.v"),
 "v CopyValuesFromIndices":("pkg/slice/slice.go",          "GoCode_Cols_proofs.v"),
 "v removeCols":           ("pkg/sorter/sorter.go",        "GoCode_Cols_proofs.v"),
 "iv StrList.LessThan":    ("pkg/objects/str_list.go",     "GoCode_StrListSeek_proofs.v"),
 "vi BlockIndex.Get":      ("pkg/objects/block_index.go",  "GoCode_BlockIndexGet_proofs.v"),
 "vii addToFanoutTable":   ("pkg/index/fanout.go",         "GoCode_Fanout_proofs.v"),
 "ii StrListEncoder.Encode": ("pkg/objects/str_list.go",   "GoCode_StrListEncode_proofs.v"),
}
# (kernel, kind, description, old text, new text)   old must occur exactly once inside the file
M = [
 ("a RowToBlockAndOffset", "break", "divide by BlockSize+1", "blk := row / objects.BlockSize", "blk := row / (objects.BlockSize + 1)"),
 ("a RowToBlockAndOffset", "break", "offset one too large", "off := byte(row - blk*objects.BlockSize)", "off := byte(row - blk*objects.BlockSize + 1)"),
 ("a RowToBlockAndOffset", "break", "offset = row mod 256", "off := byte(row - blk*objects.BlockSize)", "off := byte(row)"),
 ("a RowToBlockAndOffset", "keep", "rename variables", "blk := row / objects.BlockSize\n\toff := byte(row - blk*objects.BlockSize)\n\treturn blk, off", "q := row / objects.BlockSize\n\tr := byte(row - q*objects.BlockSize)\n\treturn q, r"),
 ("a RowToBlockAndOffset", "keep", "var declaration instead of :=", "blk := row / objects.BlockSize", "var blk uint32 = row / objects.BlockSize"),
 ("a RowToBlockAndOffset", "keep", "commute the product", "blk*objects.BlockSize", "objects.BlockSize*blk"),
 ("a RowToBlockAndOffset", "keep", "offset computed with %", "off := byte(row - blk*objects.BlockSize)", "off := byte(row % objects.BlockSize)"),

 ("b StringSliceEqual", "break", "length test != becomes <", "if len(sl1) != len(sl2) {", "if len(sl1) < len(sl2) {"),
 ("b StringSliceEqual", "break", "cell test != becomes ==", "if v != sl2[i] {", "if v == sl2[i] {"),
 ("b StringSliceEqual", "break", "drop the length guard", "\tif len(sl1) != len(sl2) {\n\t\treturn false\n\t}\n\tfor i, v := range sl1 {", "\tfor i, v := range sl1 {"),
 ("b StringSliceEqual", "keep", "rename variables", "for i, v := range sl1 {\n\t\tif v != sl2[i] {", "for idx, cell := range sl1 {\n\t\tif cell != sl2[idx] {"),
 ("b StringSliceEqual", "keep", "swap operands of !=", "if v != sl2[i] {", "if sl2[i] != v {"),
 ("b StringSliceEqual", "keep", "!(==) instead of !=", "if v != sl2[i] {", "if !(v == sl2[i]) {"),
 ("b StringSliceEqual", "keep", "index instead of range value", "for i, v := range sl1 {\n\t\tif v != sl2[i] {", "for i := range sl1 {\n\t\tif sl1[i] != sl2[i] {"),

 ("c StringSliceIsLess", "break", "< becomes <= (all columns)", "if s < b[i] {", "if s <= b[i] {"),
 ("c StringSliceIsLess", "break", "> becomes >= (key columns)", "} else if a[u] > b[u] {", "} else if a[u] >= b[u] {"),
 ("c StringSliceIsLess", "break", "len(pk) == 0 becomes != 0", "if len(pk) == 0 {", "if len(pk) != 0 {"),
 ("c StringSliceIsLess", "keep", "rename variables", "for _, u := range pk {\n\t\tif a[u] < b[u] {\n\t\t\treturn true\n\t\t} else if a[u] > b[u] {", "for _, col := range pk {\n\t\tif a[col] < b[col] {\n\t\t\treturn true\n\t\t} else if a[col] > b[col] {"),
 ("c StringSliceIsLess", "keep", "else-if becomes a second if", "\t\t} else if a[u] > b[u] {\n\t\t\treturn false\n\t\t}", "\t\t}\n\t\tif a[u] > b[u] {\n\t\t\treturn false\n\t\t}"),
 ("c StringSliceIsLess", "keep", "b[u] > a[u] for a[u] < b[u]", "if a[u] < b[u] {", "if b[u] > a[u] {"),

 ("d pkIsDifferent", "break", "first flag never cleared", "*first = false", "*first = true"),
 ("d pkIsDifferent", "break", "copy in the wrong direction", "copy(prevPK, pk)", "copy(pk, prevPK)"),
 ("d pkIsDifferent", "break", "negated equality", "} else if slice.StringSliceEqual(prevPK, pk) {", "} else if !slice.StringSliceEqual(prevPK, pk) {"),
 ("d pkIsDifferent", "keep", "rename variables", "func pkIsDifferent(pk, prevPK []string, first *bool) bool {\n\tif *first {\n\t\t*first = false\n\t} else if slice.StringSliceEqual(prevPK, pk) {\n\t\treturn false\n\t}\n\tcopy(prevPK, pk)", "func pkIsDifferent(cur, last []string, f *bool) bool {\n\tif *f {\n\t\t*f = false\n\t} else if slice.StringSliceEqual(last, cur) {\n\t\treturn false\n\t}\n\tcopy(last, cur)"),
 ("d pkIsDifferent", "keep", "nested if instead of else-if", "\t} else if slice.StringSliceEqual(prevPK, pk) {\n\t\treturn false\n\t}", "\t} else {\n\t\tif slice.StringSliceEqual(prevPK, pk) {\n\t\t\treturn false\n\t\t}\n\t}"),
 ("d pkIsDifferent", "keep", "equality with swapped arguments", "slice.StringSliceEqual(prevPK, pk)", "slice.StringSliceEqual(pk, prevPK)"),

 ("e ValidateStrListBytes", "break", "offset+2 > n becomes >=", "if offset+2 > n {", "if offset+2 >= n {"),
 ("e ValidateStrListBytes", "break", "n < 4 becomes n < 3", "if n < 4 {", "if n < 3 {"),
 ("e ValidateStrListBytes", "break", "offset > n becomes >=", "if offset > n {", "if offset >= n {"),
 ("e ValidateStrListBytes", "break", "length prefix not counted", "offset += 2 + int(l)", "offset += int(l)"),
 ("e ValidateStrListBytes", "break", "drop the offset+2 guard", "\t\tif offset+2 > n {\n\t\t\treturn 0, fmt.Errorf(\"invalid strList\")\n\t\t}\n\t\tl :=", "\t\tl :="),
 ("e ValidateStrListBytes", "keep", "rename variables", "l := binary.BigEndian.Uint16(b[offset:])\n\t\toffset += 2 + int(l)", "cellLen := binary.BigEndian.Uint16(b[offset:])\n\t\toffset += 2 + int(cellLen)"),
 ("e ValidateStrListBytes", "keep", "i++ becomes i += 1", "for i := 0; i < count; i++ {\n\t\tif offset+2 > n {", "for i := 0; i < count; i += 1 {\n\t\tif offset+2 > n {"),
 ("e ValidateStrListBytes", "keep", "n < offset+2 for offset+2 > n", "if offset+2 > n {", "if n < offset+2 {"),
 ("e ValidateStrListBytes", "keep", "int(l) + 2 for 2 + int(l)", "offset += 2 + int(l)", "offset += int(l) + 2"),

 ("e ValidateBlockBytes", "break", "len(b) < 4 becomes < 3", "if len(b) < 4 {\n\t\treturn fmt.Errorf(\"invalid block\")", "if len(b) < 3 {\n\t\treturn fmt.Errorf(\"invalid block\")"),
 ("e ValidateBlockBytes", "break", "off += m + 1", "off += m\n", "off += m + 1\n"),
 ("e ValidateBlockBytes", "break", "err != nil becomes == nil", "m, err := ValidateStrListBytes(b[off:])\n\t\tif err != nil {", "m, err := ValidateStrListBytes(b[off:])\n\t\tif err == nil {"),
 ("e ValidateBlockBytes", "keep", "rename variables", "m, err := ValidateStrListBytes(b[off:])\n\t\tif err != nil {\n\t\t\treturn err\n\t\t}\n\t\toff += m\n", "size, e := ValidateStrListBytes(b[off:])\n\t\tif e != nil {\n\t\t\treturn e\n\t\t}\n\t\toff += size\n"),
 ("e ValidateBlockBytes", "keep", "off = off + m", "off += m\n", "off = off + m\n"),
 ("e ValidateBlockBytes", "keep", "off := 4 instead of var/+=", "var off int\n\tif len(b) < 4 {\n\t\treturn fmt.Errorf(\"invalid block\")\n\t}\n\tn := int(binary.BigEndian.Uint32(b))\n\toff += 4", "if len(b) < 4 {\n\t\treturn fmt.Errorf(\"invalid block\")\n\t}\n\tn := int(binary.BigEndian.Uint32(b))\n\toff := 4"),
 ("f findOverlappingBlocks", "break", "start = j - 1 becomes start = j", "\t\t\t\t\tstart = j - 1\n", "\t\t\t\t\tstart = j\n"),
 ("f findOverlappingBlocks", "break", "drop the n == 0 guard", "\tn := len(tblIdx2)\n\tif n == 0 {\n\t\treturn 0, 0\n\t}\n", "\tn := len(tblIdx2)\n"),
 ("f findOverlappingBlocks", "break", "findStart: > becomes >=", "\t\tfor k, s := range tblIdx1[off1] {\n\t\t\tif tblIdx2[j][k] > s {", "\t\tfor k, s := range tblIdx1[off1] {\n\t\t\tif tblIdx2[j][k] >= s {"),
 ("f findOverlappingBlocks", "break", "findStart begins at prevEnd", "for j := prevEnd - 1; j < n; j++ {", "for j := prevEnd; j < n; j++ {"),
 ("f findOverlappingBlocks", "break", "continue findStart becomes break", "continue findStart", "break findStart"),
 ("f findOverlappingBlocks", "break", "findEnd also for the last block", "if off1 < len(tblIdx1)-1 {", "if off1 < len(tblIdx1) {"),
 ("f findOverlappingBlocks", "break", "findEnd: end = j + 1 on >", "\t\t\t\tif tblIdx2[j][k] > s {\n\t\t\t\t\tend = j\n", "\t\t\t\tif tblIdx2[j][k] > s {\n\t\t\t\t\tend = j + 1\n"),
 ("f findOverlappingBlocks", "keep", "rename labels and loop variables", None, [("findStart", "scanLo"), ("findEnd", "scanHi"), ("for k, s := range tblIdx1[off1] {\n\t\t\tif tblIdx2[j][k] > s {", "for col, cell := range tblIdx1[off1] {\n\t\t\tif tblIdx2[j][col] > cell {"), ("\t\t\t} else if tblIdx2[j][k] < s {\n\t\t\t\tcontinue scanLo", "\t\t\t} else if tblIdx2[j][col] < cell {\n\t\t\t\tcontinue scanLo")]),
 ("f findOverlappingBlocks", "keep", "prevEnd++ becomes prevEnd = 1", "\t\tprevEnd++\n", "\t\tprevEnd = 1\n"),
 ("f findOverlappingBlocks", "keep", "if j != 0 with swapped branches", "\t\t\t\tif j == 0 {\n\t\t\t\t\tstart = j\n\t\t\t\t} else {\n\t\t\t\t\tstart = j - 1\n\t\t\t\t}", "\t\t\t\tif j != 0 {\n\t\t\t\t\tstart = j - 1\n\t\t\t\t} else {\n\t\t\t\t\tstart = j\n\t\t\t\t}"),
 ("f findOverlappingBlocks", "keep", "else-if becomes a second if (findEnd)", "\t\t\t\t\tbreak findEnd\n\t\t\t\t} else if tblIdx2[j][k] < s {", "\t\t\t\t\tbreak findEnd\n\t\t\t\t}\n\t\t\t\tif tblIdx2[j][k] < s {"),
 ("g KeyIndices", "break", "continue becomes break (first match only)", "\t\t\t\tfound = true\n\t\t\t\tcontinue\n", "\t\t\t\tfound = true\n\t\t\t\tbreak\n"),
 ("g KeyIndices", "break", "drop the duplicate-key check", "\t\t\t\tif _, ok := seen[i]; ok {\n\t\t\t\t\treturn nil, fmt.Errorf(`key \"%s\" is specified more than once`, k)\n\t\t\t\t}\n", ""),
 ("g KeyIndices", "break", "c == k becomes c != k", "\t\t\tif c == k {\n\t\t\t\tif _, ok := seen[i]; ok {", "\t\t\tif c != k {\n\t\t\t\tif _, ok := seen[i]; ok {"),
 ("g KeyIndices", "break", "not-found test inverted", "\t\tif !found {\n", "\t\tif found {\n"),
 ("g KeyIndices", "break", "append i+1", "res = append(res, uint32(i))", "res = append(res, uint32(i+1))"),
 ("g KeyIndices", "keep", "rename variables", None, [("seen := map[int]struct{}{}", "taken := map[int]struct{}{}"), ("if _, ok := seen[i]; ok {", "if _, dup := taken[i]; dup {"), ("seen[i] = struct{}{}", "taken[i] = struct{}{}")]),
 ("g KeyIndices", "keep", "comma-ok as a separate statement", "\t\t\t\tif _, ok := seen[i]; ok {\n", "\t\t\t\t_, ok := seen[i]\n\t\t\t\tif ok {\n"),
 ("g KeyIndices", "keep", "found = true before the append", "\t\t\t\tres = append(res, uint32(i))\n\t\t\t\tfound = true\n", "\t\t\t\tfound = true\n\t\t\t\tres = append(res, uint32(i))\n"),
 ("g KeyIndices", "keep", "k == c for c == k", "\t\t\tif c == k {\n\t\t\t\tif _, ok := seen[i]; ok {", "\t\t\tif k == c {\n\t\t\t\tif _, ok := seen[i]; ok {"),
 ("h encodeObjTypeAndLen", "break", "continuation shift by 8", "\t\tb[i] = 128 | uint8(u>>bits)\n\t\tbits += 7\n", "\t\tb[i] = 128 | uint8(u>>bits)\n\t\tbits += 8\n"),
 ("h encodeObjTypeAndLen", "break", "last byte keeps bit 7", "\tb[numBytes-1] &= 127\n", "\tb[numBytes-1] &= 255\n"),
 ("h encodeObjTypeAndLen", "break", "type shifted by 3", "uint8(objType)<<4", "uint8(objType)<<3"),
 ("h encodeObjTypeAndLen", "break", "no minimum of two bytes", "\tif numBytes == 1 {\n\t\tnumBytes = 2\n\t}\n", ""),
 ("h encodeObjTypeAndLen", "break", "loop stops one byte early", "for i := 1; i < numBytes; i++ {", "for i := 1; i < numBytes-1; i++ {"),
 ("h encodeObjTypeAndLen", "break", "(bits-4)%7 > 0 becomes >= 0", "if (bits-4)%7 > 0 {", "if (bits-4)%7 >= 0 {"),
 ("h encodeObjTypeAndLen", "keep", "rename variables", None, [("numBytes", "nb"), ("b := buf.Buffer(nb)", "out := buf.Buffer(nb)"), ("\tb[0] = ", "\tout[0] = "), ("\t\tb[i] = ", "\t\tout[i] = "), ("\tb[nb-1] &= 127\n\treturn b\n", "\tout[nb-1] &= 127\n\treturn out\n")]),
 ("h encodeObjTypeAndLen", "keep", "numBytes++ for += 1", "\t\tnumBytes += 1\n", "\t\tnumBytes++\n"),
 ("h encodeObjTypeAndLen", "keep", "0 < (bits-4)%7", "if (bits-4)%7 > 0 {", "if 0 < (bits-4)%7 {"),
 ("h encodeObjTypeAndLen", "keep", "mask operands swapped", "(uint8(u) & 15)", "(15 & uint8(u))"),
 ("i childrenFirst", "break", "pendingChildren += 2", "\t\t\t\tpendingChildren[string(p)]++\n", "\t\t\t\tpendingChildren[string(p)] += 2\n"),
 ("i childrenFirst", "break", "queue used as a stack (LIFO)", "\t\tsum := queue[0]\n\t\tqueue = queue[1:]\n", "\t\tsum := queue[len(queue)-1]\n\t\tqueue = queue[:len(queue)-1]\n"),
 ("i childrenFirst", "break", "initial queue: pending != 0", "\t\tif pendingChildren[string(sum)] == 0 {\n", "\t\tif pendingChildren[string(sum)] != 0 {\n"),
 ("i childrenFirst", "break", "parents outside the to-remove set counted too", "\t\t\tif _, ok := toRemove[string(p)]; ok {\n\t\t\t\tpendingChildren[string(p)]++\n\t\t\t\tparents[string(sum)] = append(parents[string(sum)], p)\n\t\t\t}\n", "\t\t\tpendingChildren[string(p)]++\n\t\t\tparents[string(sum)] = append(parents[string(sum)], p)\n"),
 ("i childrenFirst", "keep", "rename variables", None, [("pendingChildren", "indeg"), ("toRemove", "doomed"), ("queue", "ready")]),
 ("i childrenFirst", "keep", "++ written as += 1", "\t\t\t\tpendingChildren[string(p)]++\n", "\t\t\t\tpendingChildren[string(p)] += 1\n"),
 ("i childrenFirst", "keep", "append to result after the inner loop", "\t\tresult = append(result, sum)\n\t\tfor _, p := range parents[string(sum)] {\n\t\t\tpendingChildren[string(p)]--\n\t\t\tif pendingChildren[string(p)] == 0 {\n\t\t\t\tqueue = append(queue, p)\n\t\t\t}\n\t\t}\n", "\t\tfor _, p := range parents[string(sum)] {\n\t\t\tpendingChildren[string(p)]--\n\t\t\tif pendingChildren[string(p)] == 0 {\n\t\t\t\tqueue = append(queue, p)\n\t\t\t}\n\t\t}\n\t\tresult = append(result, sum)\n"),
 ("i childrenFirst", "keep", "len(queue) != 0", "for len(queue) > 0 {", "for len(queue) != 0 {"),
 ("iii CombineRowBytesIntoBlock", "break", "rows written from offset 0", "\tbinary.BigEndian.PutUint32(b, uint32(n))\n\toff := 4\n\tfor _, row := range blk {", "\tbinary.BigEndian.PutUint32(b, uint32(n))\n\toff := 0\n\tfor _, row := range blk {"),
 ("iii CombineRowBytesIntoBlock", "break", "count written as n+1", "binary.BigEndian.PutUint32(b, uint32(n))\n\toff := 4\n\tfor _, row := range blk {", "binary.BigEndian.PutUint32(b, uint32(n+1))\n\toff := 4\n\tfor _, row := range blk {"),
 ("iii CombineRowBytesIntoBlock", "break", "guard n >= maxUint32", "\tn := len(blk)\n\tif n > maxUint32 {\n\t\tpanic(fmt.Errorf(\"block length is too long (%d > 4294967296)\", n))\n\t}\n\tbinary.BigEndian.PutUint32(b, uint32(n))\n\toff := 4", "\tn := len(blk)\n\tif n >= maxUint32 {\n\t\tpanic(fmt.Errorf(\"block length is too long (%d > 4294967296)\", n))\n\t}\n\tbinary.BigEndian.PutUint32(b, uint32(n))\n\toff := 4"),
 ("iii CombineRowBytesIntoBlock", "keep", "rename variables", "\tfor _, row := range blk {\n\t\tcopy(b[off:], row)\n\t\toff += len(row)\n\t}\n\treturn b", "\tfor _, rb := range blk {\n\t\tcopy(b[off:], rb)\n\t\toff += len(rb)\n\t}\n\treturn b"),
 ("iii CombineRowBytesIntoBlock", "keep", "off = off + len(row)", "\t\tcopy(b[off:], row)\n\t\toff += len(row)\n", "\t\tcopy(b[off:], row)\n\t\toff = off + len(row)\n"),
 ("v IndicesToValues", "break", "vals[k+1]", "res = append(res, vals[k])", "res = append(res, vals[k+1])"),
 ("v IndicesToValues", "break", "result starts with len(keys) empty strings", "res := make([]string, 0, len(keys))\n\tfor _, k := range keys {\n\t\tres = append(res, vals[k])", "res := make([]string, len(keys))\n\tfor _, k := range keys {\n\t\tres = append(res, vals[k])"),
 ("v IndicesToValues", "keep", "rename variables", "\tfor _, k := range keys {\n\t\tres = append(res, vals[k])\n\t}\n\treturn res", "\tfor _, idx := range keys {\n\t\tres = append(res, vals[idx])\n\t}\n\treturn res"),
 ("v CopyValuesFromIndices", "break", "dst[k] = src[i]", "dst[i] = src[k]", "dst[k] = src[i]"),
 ("v CopyValuesFromIndices", "break", "dst[i+1] = src[k]", "dst[i] = src[k]", "dst[i+1] = src[k]"),
 ("v CopyValuesFromIndices", "keep", "rename variables", "\tfor i, k := range keys {\n\t\tdst[i] = src[k]", "\tfor pos, col := range keys {\n\t\tdst[pos] = src[col]"),
 ("v removeCols", "break", "keeps the removed columns instead", "\t\tif _, ok := removedCols[i]; ok {\n\t\t\tcontinue\n\t\t}\n\t\tstrs = append(strs, s)", "\t\tif _, ok := removedCols[i]; !ok {\n\t\t\tcontinue\n\t\t}\n\t\tstrs = append(strs, s)"),
 ("v removeCols", "break", "looks up i+1", "\t\tif _, ok := removedCols[i]; ok {\n\t\t\tcontinue\n\t\t}\n\t\tstrs = append(strs, s)", "\t\tif _, ok := removedCols[i+1]; ok {\n\t\t\tcontinue\n\t\t}\n\t\tstrs = append(strs, s)"),
 ("v removeCols", "keep", "rename variables", "\tfor i, s := range row {\n\t\tif _, ok := removedCols[i]; ok {\n\t\t\tcontinue\n\t\t}\n\t\tstrs = append(strs, s)\n\t}\n\treturn strs", "\tfor col, cell := range row {\n\t\tif _, drop := removedCols[col]; drop {\n\t\t\tcontinue\n\t\t}\n\t\tstrs = append(strs, cell)\n\t}\n\treturn strs"),
 ("v removeCols", "keep", "if !ok { append } instead of continue", "\t\tif _, ok := removedCols[i]; ok {\n\t\t\tcontinue\n\t\t}\n\t\tstrs = append(strs, s)\n", "\t\tif _, ok := removedCols[i]; !ok {\n\t\t\tstrs = append(strs, s)\n\t\t}\n"),
 ("iv StrList.LessThan", "break", "seekColumnOffset: length prefix not skipped", "\t\tn = int(binary.BigEndian.Uint16(b[off : off+2]))\n\t\toff += 2\n", "\t\tn = int(binary.BigEndian.Uint16(b[off : off+2]))\n\t\toff += 1\n"),
 ("iv StrList.LessThan", "break", "seekColumnOffset: returns one column late", "\t\tif i == u {\n\t\t\treturn\n\t\t}\n\t\toff += n\n", "\t\toff += n\n\t\tif i == u {\n\t\t\treturn\n\t\t}\n"),
 ("iv StrList.LessThan", "break", "seekColumn: one byte short", "\treturn b[off : off+n]\n", "\treturn b[off : off+n-1]\n"),
 ("iv StrList.LessThan", "break", "LessThan: v == 1 answers true", "\tfor _, u := range columns {\n\t\tif v := bytes.Compare(b.seekColumn(u), c.seekColumn(u)); v == 1 {\n\t\t\treturn false", "\tfor _, u := range columns {\n\t\tif v := bytes.Compare(b.seekColumn(u), c.seekColumn(u)); v == 1 {\n\t\t\treturn true"),
 ("iv StrList.LessThan", "break", "LessThan: compares c with b", "\tfor _, u := range columns {\n\t\tif v := bytes.Compare(b.seekColumn(u), c.seekColumn(u)); v == 1 {", "\tfor _, u := range columns {\n\t\tif v := bytes.Compare(c.seekColumn(u), b.seekColumn(u)); v == 1 {"),
 ("iv StrList.LessThan", "keep", "rename variables", "\tfor _, u := range columns {\n\t\tif v := bytes.Compare(b.seekColumn(u), c.seekColumn(u)); v == 1 {\n\t\t\treturn false\n\t\t} else if v == -1 {", "\tfor _, col := range columns {\n\t\tif cmp := bytes.Compare(b.seekColumn(col), c.seekColumn(col)); cmp == 1 {\n\t\t\treturn false\n\t\t} else if cmp == -1 {"),
 ("iv StrList.LessThan", "keep", "v > 0 / v < 0 instead of == 1 / == -1", "\tfor _, u := range columns {\n\t\tif v := bytes.Compare(b.seekColumn(u), c.seekColumn(u)); v == 1 {\n\t\t\treturn false\n\t\t} else if v == -1 {", "\tfor _, u := range columns {\n\t\tif v := bytes.Compare(b.seekColumn(u), c.seekColumn(u)); v > 0 {\n\t\t\treturn false\n\t\t} else if v < 0 {"),
 ("iv StrList.LessThan", "keep", "seekColumn: named temporaries", "\toff, n := b.seekColumnOffset(u)\n\treturn b[off : off+n]\n", "\tstart, size := b.seekColumnOffset(u)\n\treturn b[start : start+size]\n"),
 ("vi BlockIndex.Get", "break", "predicate > instead of >=", "\t\treturn string(b) >= string(pkSum)\n", "\t\treturn string(b) > string(pkSum)\n"),
 ("vi BlockIndex.Get", "break", "bound check i > n", "\tif i >= n {\n\t\treturn 0, nil\n\t}\n\tj := idx.sortedOff[byte(i)]", "\tif i > n {\n\t\treturn 0, nil\n\t}\n\tj := idx.sortedOff[byte(i)]"),
 ("vi BlockIndex.Get", "break", "returns the search position, not the row offset", "\t\treturn j, b[16:]\n", "\t\treturn byte(i), b[16:]\n"),
 ("vi BlockIndex.Get", "break", "searches Rows in storage order", "\t\tb := idx.Rows[idx.sortedOff[byte(i)]][:16]\n", "\t\tb := idx.Rows[byte(i)][:16]\n"),
 ("vi BlockIndex.Get", "keep", "rename variables", None, [("\tj := idx.sortedOff[byte(i)]\n\tb := idx.Rows[j]\n\tif bytes.Equal(b[:16], pkSum) {\n\t\treturn j, b[16:]\n", "\toff := idx.sortedOff[byte(i)]\n\trow := idx.Rows[off]\n\tif bytes.Equal(row[:16], pkSum) {\n\t\treturn off, row[16:]\n")]),
 ("vi BlockIndex.Get", "keep", "sort.Search(n, ..) instead of idx.Len()", "\ti := sort.Search(idx.Len(), func(i int) bool {", "\ti := sort.Search(n, func(i int) bool {"),
 ("vi BlockIndex.Get", "keep", "closure parameter renamed", "\ti := sort.Search(idx.Len(), func(i int) bool {\n\t\tb := idx.Rows[idx.sortedOff[byte(i)]][:16]\n\t\treturn string(b) >= string(pkSum)", "\ti := sort.Search(idx.Len(), func(p int) bool {\n\t\tsum := idx.Rows[idx.sortedOff[byte(p)]][:16]\n\t\treturn string(sum) >= string(pkSum)"),
 ("vii addToFanoutTable", "break", "loop starts at b+1", "\t\tfor k := b; ; k++ {\n\t\t\tfanout[k] += u", "\t\tfor k := b + 1; ; k++ {\n\t\t\tfanout[k] += u"),
 ("vii addToFanoutTable", "break", "stops before 255", "\t\t\tif k == 255 {\n\t\t\t\tbreak", "\t\t\tif k == 254 {\n\t\t\t\tbreak"),
 ("vii addToFanoutTable", "break", "counts the second byte", "\t\tm[b[0]]++\n", "\t\tm[b[1]]++\n"),
 ("vii addToFanoutTable", "break", "adds the count twice", "\t\t\tfanout[k] += u\n", "\t\t\tfanout[k] += u + u\n"),
 ("vii addToFanoutTable", "keep", "rename variables", None, [("\tm := map[byte]uint32{}\n\tfor _, b := range hashes {\n\t\tm[b[0]]++\n\t}\n\tfor b, u := range m {", "\tcounts := map[byte]uint32{}\n\tfor _, sum := range hashes {\n\t\tcounts[sum[0]]++\n\t}\n\tfor b, u := range counts {")]),
 ("vii addToFanoutTable", "keep", "m[b[0]] += 1", "\t\tm[b[0]]++\n", "\t\tm[b[0]] += 1\n"),
 ("vii addToFanoutTable", "keep", "fanout[k] = fanout[k] + u", "\t\t\tfanout[k] += u\n", "\t\t\tfanout[k] = fanout[k] + u\n"),
 ("ii StrListEncoder.Encode", "break", "uint16 offset (the old defect)", None, [("\toffset := 4\n\tfor _, s := range sl {\n\t\tif len(s) > MaxStrLen {", "\tvar offset uint16 = 4\n\tfor _, s := range sl {\n\t\tif len(s) > MaxStrLen {"), ("\t\tcopy(e.buf[offset:], s)\n\t\toffset += len(s)\n", "\t\tcopy(e.buf[offset:], s)\n\t\toffset += uint16(len(s))\n")]),
 ("ii StrListEncoder.Encode", "break", "cell guard >= MaxStrLen", "\t\tif len(s) > MaxStrLen {\n", "\t\tif len(s) >= MaxStrLen {\n"),
 ("ii StrListEncoder.Encode", "break", "no cell guard", "\t\tif len(s) > MaxStrLen {\n\t\t\tpanic(fmt.Errorf(\"cell value %q is too long (%d > %d)\", s[:40]+\"...\", len(s), MaxStrLen))\n\t\t}\n", ""),
 ("ii StrListEncoder.Encode", "break", "length prefix written after the cell", "\t\tbinary.BigEndian.PutUint16(e.buf[offset:], l)\n\t\toffset += 2\n\t\tcopy(e.buf[offset:], s)\n\t\toffset += len(s)\n", "\t\tcopy(e.buf[offset:], s)\n\t\toffset += len(s)\n\t\tbinary.BigEndian.PutUint16(e.buf[offset:], l)\n\t\toffset += 2\n"),
 ("ii StrListEncoder.Encode", "break", "buffer one byte short", "\tbufLen := 4\n", "\tbufLen := 3\n"),
 ("ii StrListEncoder.Encode", "keep", "rename variables", None, [("bufLen", "need"), ("\t\tl := uint16(len(s))\n\t\tbinary.BigEndian.PutUint16(e.buf[offset:], l)\n", "\t\tcellLen := uint16(len(s))\n\t\tbinary.BigEndian.PutUint16(e.buf[offset:], cellLen)\n")]),
 ("ii StrListEncoder.Encode", "keep", "offset = offset + 2", "\t\tbinary.BigEndian.PutUint16(e.buf[offset:], l)\n\t\toffset += 2\n", "\t\tbinary.BigEndian.PutUint16(e.buf[offset:], l)\n\t\toffset = offset + 2\n"),
 ("ii StrListEncoder.Encode", "keep", "no temporary for the length", "\t\tl := uint16(len(s))\n\t\tbinary.BigEndian.PutUint16(e.buf[offset:], l)\n", "\t\tbinary.BigEndian.PutUint16(e.buf[offset:], uint16(len(s)))\n"),
]
def sh(cmd, cwd=None, timeout=900):
    t0 = time.time()
    p = subprocess.run(cmd, cwd=cwd, stdout=subprocess.PIPE, stderr=subprocess.STDOUT, timeout=timeout, text=True)
    return p.returncode, p.stdout, time.time() - t0

def coqc(path, extra_paths):
    cmd = ["coqc", "-Q", os.path.join(COQ, "lib"), "W.lib", "-Q", os.path.join(COQ, "model"), "W.model",
           "-Q", os.path.join(COQ, "proofs"), "W.proofs", "-Q", os.path.join(T, "proofs"), "W.proofs",
           "-Q", os.path.join(T, "gen"), "W.gen",
           "-w", "-notation-overridden,-deprecated-hint-without-locality,-deprecated-instance-without-locality", path]
    return sh(["timeout", "600"] + cmd, cwd=T)

def check(kernel):
    """translate the scratch repo, compile ExtractedCode.v and the kernel's proof file"""
    rc, out, _ = sh([os.path.join(T, "bin", "translator"), REPO, os.path.join(T, "gen", "ExtractedCode.v")])
    if rc != 0:
        return "translator-failed", out
    rc, out, _ = coqc(os.path.join(T, "gen", "ExtractedCode.v"), [])
    if rc != 0:
        return "extracted-code-does-not-compile", out
    pf = K[kernel][1]
    src = os.path.join(COQ, "proofs", pf)
    if not os.path.exists(src):
        return "no-proof-file", ""
    shutil.copy(src, os.path.join(T, "proofs", pf))
    rc, out, dt = coqc(os.path.join(T, "proofs", pf), [])
    return ("proof-ok" if rc == 0 else "proof-fails"), out

def gobuild(gofile):
    rc, out, _ = sh(["go", "build", "./" + os.path.dirname(gofile)], cwd=REPO)
    return rc == 0, out

rows, bad = [], 0
# baseline: the unmodified copy must prove
done = set()
for k in K:
    if not re.search(FILTER, k) or not os.path.exists(os.path.join(COQ, "proofs", K[k][1])):
        continue
    if K[k][1] in done:
        continue
    done.add(K[k][1])
    st, out = check(k)
    print("baseline %-28s %s" % (K[k][1], st), flush=True)
    if st != "proof-ok":
        print(out[-1500:]); bad += 1
for (k, kind, desc, old, new) in M:
    if not re.search(FILTER, k) or not os.path.exists(os.path.join(COQ, "proofs", K[k][1])):
        continue
    path = os.path.join(REPO, K[k][0])
    orig = open(path).read()
    if old is None:          # several textual replacements (each must occur at least once)
        txt, okk = orig, True
        for (o1, n1) in new:
            okk = okk and txt.count(o1) >= 1
            txt = txt.replace(o1, n1)
        if not okk:
            rows.append((k, kind, desc, "EDIT-DOES-NOT-APPLY")); bad += 1
            continue
        open(path, "w").write(txt)
    else:
        if orig.count(old) != 1:
            rows.append((k, kind, desc, "EDIT-DOES-NOT-APPLY (%d matches)" % orig.count(old))); bad += 1
            continue
        open(path, "w").write(orig.replace(old, new))
    try:
        ok, gout = gobuild(K[k][0])
        if not ok:
            rows.append((k, kind, desc, "edited Go does not compile: " + gout.strip().splitlines()[-1][:80])); bad += 1
            continue
        st, out = check(k)
    finally:
        open(path, "w").write(orig)
    if kind == "break":
        verdict = "DETECTED" if st != "proof-ok" else "MISSED"
        if verdict == "MISSED":
            bad += 1
    else:
        verdict = "survives" if st == "proof-ok" else "does not survive"
    rows.append((k, kind, desc, "%s (%s)" % (verdict, st)))
    print("%-24s %-5s %-38s %s (%s)" % (k, kind, desc, verdict, st), flush=True)

print()
print("| kernel | kind | edit | result |")
print("|---|---|---|---|")
for r in rows:
    print("| %s | %s | %s | %s |" % r)
nb = [r for r in rows if r[1] == "break"]
nk = [r for r in rows if r[1] == "keep"]
print()
print("breaking edits detected: %d / %d;  harmless rewrites surviving: %d / %d" % (
    len([r for r in nb if r[3].startswith("DETECTED")]), len(nb),
    len([r for r in nk if r[3].startswith("survives")]), len(nk)))
sys.exit(1 if bad else 0)
EOF
