package main

import (
	"go/ast"
	"go/token"
)

// progressTickSend: in both Start() goroutines of pkg/progress (SingleTracker, joinedTracker)
// the tick is delivered with `select { case t.c <- Event{..}: case <-t.done: return }`
// ("select-with-done") or with a plain blocking send ("plain-send").
func progressTickSend() string {
	kind := "?"
	for _, name := range []string{"SingleTracker.Start", "joinedTracker.Start"} {
		fn := findFunc("pkg/progress", name)
		if fn == nil || fn.decl.Body == nil {
			return "?"
		}
		plain, guarded := 0, 0
		var walk func(n ast.Node, inSelectWithDone bool)
		walk = func(n ast.Node, inSel bool) {
			ast.Inspect(n, func(m ast.Node) bool {
				switch x := m.(type) {
				case *ast.SelectStmt:
					hasDone := false
					for _, c := range x.Body.List {
						cc := c.(*ast.CommClause)
						if es, ok := cc.Comm.(*ast.ExprStmt); ok {
							if u, ok := es.X.(*ast.UnaryExpr); ok && u.Op == token.ARROW {
								if s, ok := u.X.(*ast.SelectorExpr); ok && s.Sel.Name == "done" {
									hasDone = true
								}
							}
						}
					}
					for _, c := range x.Body.List {
						cc := c.(*ast.CommClause)
						if ss, ok := cc.Comm.(*ast.SendStmt); ok {
							if s, ok := ss.Chan.(*ast.SelectorExpr); ok && s.Sel.Name == "c" {
								if hasDone {
									guarded++
								} else {
									plain++
								}
							}
						}
						for _, st := range cc.Body {
							walk(st, hasDone)
						}
					}
					return false
				case *ast.SendStmt:
					if s, ok := x.Chan.(*ast.SelectorExpr); ok && s.Sel.Name == "c" {
						plain++ // a send statement that is not the comm of a select case
					}
				}
				return true
			})
		}
		walk(fn.decl.Body, false)
		switch {
		case plain == 0 && guarded > 0:
			if kind == "?" {
				kind = "select-with-done"
			}
		default:
			kind = "plain-send"
		}
	}
	return kind
}
