// canon.go: per-function context, light syntactic type inference, canonical names
// (independent of import aliases and of the names of receivers / locals), structural
// expression equality and definition tracing through single-assignment locals.
//
// Identifier identity uses the object resolution done by go/parser (ast.Ident.Obj):
// two identifiers denote the same local / parameter / receiver iff they share the Obj,
// an identifier with Obj == nil that is in the file's import table is a package name.
package main

import (
	"go/ast"
	"go/token"
	"strings"
)

// ------------------------------------------------------------------ types

type Type struct {
	kind string // named ptr slice array map chan func basic iface struct
	path string // named: import path
	name string // named / basic
	elem *Type
	expr ast.Expr
	file *File
}

func (t *Type) String() string {
	if t == nil {
		return "?"
	}
	switch t.kind {
	case "basic":
		return t.name
	case "named":
		return canonPkgName(t.path) + "." + t.name
	case "ptr":
		return "*" + t.elem.String()
	case "slice":
		return "[]" + t.elem.String()
	case "array":
		return "[N]" + t.elem.String()
	case "chan":
		return "chan " + t.elem.String()
	case "map":
		return "map[]" + t.elem.String()
	}
	return t.kind
}

func (t *Type) deref() *Type {
	if t != nil && t.kind == "ptr" {
		return t.elem
	}
	return t
}

func (t *Type) isNamed(path, name string) bool {
	return t != nil && t.kind == "named" && t.path == path && t.name == name
}

func (t *Type) isBasic(name string) bool { return t != nil && t.kind == "basic" && t.name == name }

var builtinTypes = map[string]bool{
	"bool": true, "string": true, "error": true, "any": true, "int": true, "int8": true, "int16": true, "int32": true, "int64": true,
	"uint": true, "uint8": true, "uint16": true, "uint32": true, "uint64": true, "uintptr": true, "byte": true, "rune": true,
	"float32": true, "float64": true, "complex64": true, "complex128": true,
}

var builtinFuncs = map[string]bool{
	"append": true, "cap": true, "close": true, "complex": true, "copy": true, "delete": true, "imag": true, "len": true,
	"make": true, "new": true, "panic": true, "print": true, "println": true, "real": true, "recover": true, "min": true, "max": true, "clear": true,
}

func typeFromExpr(f *File, e ast.Expr) *Type {
	switch x := e.(type) {
	case nil:
		return nil
	case *ast.Ident:
		if x.Obj == nil && builtinTypes[x.Name] {
			return &Type{kind: "basic", name: x.Name}
		}
		return &Type{kind: "named", path: f.pkg.path, name: x.Name}
	case *ast.SelectorExpr:
		if id, ok := x.X.(*ast.Ident); ok {
			if ip, ok := f.imports[id.Name]; ok {
				return &Type{kind: "named", path: ip, name: x.Sel.Name}
			}
		}
		return nil
	case *ast.StarExpr:
		if el := typeFromExpr(f, x.X); el != nil {
			return &Type{kind: "ptr", elem: el}
		}
		return nil
	case *ast.ParenExpr:
		return typeFromExpr(f, x.X)
	case *ast.ArrayType:
		el := typeFromExpr(f, x.Elt)
		if el == nil {
			el = &Type{kind: "unknown"}
		}
		if x.Len == nil {
			return &Type{kind: "slice", elem: el}
		}
		return &Type{kind: "array", elem: el}
	case *ast.Ellipsis:
		el := typeFromExpr(f, x.Elt)
		if el == nil {
			el = &Type{kind: "unknown"}
		}
		return &Type{kind: "slice", elem: el}
	case *ast.MapType:
		el := typeFromExpr(f, x.Value)
		if el == nil {
			el = &Type{kind: "unknown"}
		}
		return &Type{kind: "map", elem: el}
	case *ast.ChanType:
		el := typeFromExpr(f, x.Value)
		if el == nil {
			el = &Type{kind: "unknown"}
		}
		return &Type{kind: "chan", elem: el}
	case *ast.FuncType:
		return &Type{kind: "func", expr: x, file: f}
	case *ast.InterfaceType:
		return &Type{kind: "iface", expr: x, file: f}
	case *ast.StructType:
		return &Type{kind: "struct", expr: x, file: f}
	case *ast.IndexExpr:
		return typeFromExpr(f, x.X)
	case *ast.IndexListExpr:
		return typeFromExpr(f, x.X)
	}
	return nil
}

// declOf: the declaration of a named type of this module (nil otherwise).
func declOf(t *Type) *typeDecl {
	t = t.deref()
	if t == nil || t.kind != "named" {
		return nil
	}
	dir, ok := moduleDir(t.path)
	if !ok {
		return nil
	}
	return loadPkg(dir).types[t.name]
}

func structOf(t *Type) (*ast.StructType, *File) {
	t = t.deref()
	if t == nil {
		return nil, nil
	}
	if t.kind == "struct" {
		return t.expr.(*ast.StructType), t.file
	}
	if td := declOf(t); td != nil {
		if st, ok := td.spec.Type.(*ast.StructType); ok {
			return st, td.file
		}
	}
	return nil, nil
}

// fieldType: type of field `name` of (pointer to) struct type t; embedded fields are
// addressed by their type name.
func fieldType(t *Type, name string) *Type {
	st, f := structOf(t)
	if st == nil {
		return nil
	}
	for _, fl := range st.Fields.List {
		if len(fl.Names) == 0 {
			ft := typeFromExpr(f, fl.Type)
			if d := ft.deref(); d != nil && d.name == name {
				return ft
			}
			continue
		}
		for _, nm := range fl.Names {
			if nm.Name == name {
				return typeFromExpr(f, fl.Type)
			}
		}
	}
	return nil
}

// methodOf: declaration of method `name` on a named type of this module.
func methodOf(t *Type, name string) *Func {
	t = t.deref()
	if t == nil || t.kind != "named" {
		return nil
	}
	dir, ok := moduleDir(t.path)
	if !ok {
		return nil
	}
	return loadPkg(dir).funcs[t.name+"."+name]
}

func resultTypes(fn *Func) []*Type {
	var res []*Type
	if fn == nil || fn.decl.Type.Results == nil {
		return res
	}
	for _, fl := range fn.decl.Type.Results.List {
		n := len(fl.Names)
		if n == 0 {
			n = 1
		}
		for i := 0; i < n; i++ {
			res = append(res, typeFromExpr(fn.file, fl.Type))
		}
	}
	return res
}

func paramFields(ft *ast.FuncType) []*ast.Ident {
	var res []*ast.Ident
	if ft == nil || ft.Params == nil {
		return res
	}
	for _, fl := range ft.Params.List {
		if len(fl.Names) == 0 {
			res = append(res, nil)
		}
		for _, nm := range fl.Names {
			res = append(res, nm)
		}
	}
	return res
}

// ------------------------------------------------------------------ function context

type defKind int

const (
	defNormal defKind = iota // v = rhs (one value per lhs)
	defMulti                 // a, v, c = call(...) : rhs is the call, idx the position
	defRangeKey
	defRangeVal
	defOther // op-assignment, inc/dec, address taken ...
	defZero  // var v T  (no value)
)

type defInfo struct {
	kind defKind
	rhs  ast.Expr
	idx  int
	stmt ast.Node
}

type FuncCtx struct {
	fn       *Func
	file     *File
	pkg      *Pkg
	body     *ast.BlockStmt
	recvObj  *ast.Object
	caller   *FuncCtx
	callSite *ast.CallExpr
	bind     map[*ast.Object]ast.Expr // parameter object -> argument expression in caller
	depth    int

	parents map[ast.Node]ast.Node
	defs    map[*ast.Object][]defInfo
	litVars map[*ast.Object]*ast.FuncLit
}

func newFuncCtx(fn *Func) *FuncCtx {
	if fn == nil {
		return nil
	}
	fc := &FuncCtx{fn: fn, file: fn.file, pkg: fn.pkg, body: fn.decl.Body}
	if fn.decl.Recv != nil && len(fn.decl.Recv.List) == 1 && len(fn.decl.Recv.List[0].Names) == 1 {
		fc.recvObj = fn.decl.Recv.List[0].Names[0].Obj
	}
	return fc
}

// enter: context for the body of callee invoked by `call` from fc.
func (fc *FuncCtx) enter(callee *Func, call *ast.CallExpr) *FuncCtx {
	c := newFuncCtx(callee)
	c.caller, c.callSite, c.depth = fc, call, fc.depth+1
	c.bind = map[*ast.Object]ast.Expr{}
	ps := paramFields(callee.decl.Type)
	variadic := false
	if callee.decl.Type.Params != nil {
		if l := callee.decl.Type.Params.List; len(l) > 0 {
			_, variadic = l[len(l)-1].Type.(*ast.Ellipsis)
		}
	}
	for i, p := range ps {
		if p == nil || p.Obj == nil || i >= len(call.Args) {
			continue
		}
		if variadic && i == len(ps)-1 {
			continue
		}
		c.bind[p.Obj] = call.Args[i]
	}
	// receiver binding
	if c.recvObj != nil {
		if sel, ok := unparen(call.Fun).(*ast.SelectorExpr); ok {
			c.bind[c.recvObj] = sel.X
		}
	}
	return c
}

func unparen(e ast.Expr) ast.Expr {
	for {
		p, ok := e.(*ast.ParenExpr)
		if !ok {
			return e
		}
		e = p.X
	}
}

func (fc *FuncCtx) parentMap() map[ast.Node]ast.Node {
	if fc.parents != nil {
		return fc.parents
	}
	m := map[ast.Node]ast.Node{}
	var stack []ast.Node
	ast.Inspect(fc.fn.decl, func(n ast.Node) bool {
		if n == nil {
			stack = stack[:len(stack)-1]
			return true
		}
		if len(stack) > 0 {
			m[n] = stack[len(stack)-1]
		}
		stack = append(stack, n)
		return true
	})
	fc.parents = m
	return m
}

func (fc *FuncCtx) parent(n ast.Node) ast.Node { return fc.parentMap()[n] }

// collectDefs records every definition / assignment of every local object.
func (fc *FuncCtx) collectDefs() {
	if fc.defs != nil {
		return
	}
	fc.defs = map[*ast.Object][]defInfo{}
	fc.litVars = map[*ast.Object]*ast.FuncLit{}
	add := func(e ast.Expr, d defInfo) {
		if id, ok := unparen(e).(*ast.Ident); ok && id.Obj != nil {
			fc.defs[id.Obj] = append(fc.defs[id.Obj], d)
		}
	}
	if fc.body == nil {
		return
	}
	ast.Inspect(fc.body, func(n ast.Node) bool {
		switch x := n.(type) {
		case *ast.AssignStmt:
			if x.Tok != token.ASSIGN && x.Tok != token.DEFINE {
				for _, l := range x.Lhs {
					add(l, defInfo{kind: defOther, stmt: x})
				}
				return true
			}
			if len(x.Lhs) == len(x.Rhs) {
				for i, l := range x.Lhs {
					add(l, defInfo{kind: defNormal, rhs: x.Rhs[i], stmt: x})
				}
			} else if len(x.Rhs) == 1 {
				for i, l := range x.Lhs {
					add(l, defInfo{kind: defMulti, rhs: x.Rhs[0], idx: i, stmt: x})
				}
			}
		case *ast.IncDecStmt:
			add(x.X, defInfo{kind: defOther, stmt: x})
		case *ast.RangeStmt:
			if x.Key != nil {
				add(x.Key, defInfo{kind: defRangeKey, rhs: x.X, stmt: x})
			}
			if x.Value != nil {
				add(x.Value, defInfo{kind: defRangeVal, rhs: x.X, stmt: x})
			}
		case *ast.ValueSpec:
			for i, nm := range x.Names {
				switch {
				case len(x.Values) == len(x.Names):
					add(nm, defInfo{kind: defNormal, rhs: x.Values[i], stmt: x})
				case len(x.Values) == 1:
					add(nm, defInfo{kind: defMulti, rhs: x.Values[0], idx: i, stmt: x})
				default:
					add(nm, defInfo{kind: defZero, stmt: x})
				}
			}
		case *ast.UnaryExpr:
			if x.Op == token.AND {
				// address taken: the variable may be written through the pointer
				if id, ok := unparen(x.X).(*ast.Ident); ok && id.Obj != nil && id.Obj.Kind == ast.Var {
					fc.defs[id.Obj] = append(fc.defs[id.Obj], defInfo{kind: defOther, stmt: x})
				}
			}
		}
		return true
	})
	for obj, ds := range fc.defs {
		if d := onlyDef(ds); d != nil && d.kind == defNormal {
			if lit, ok := unparen(d.rhs).(*ast.FuncLit); ok {
				fc.litVars[obj] = lit
			}
		}
	}
}

// onlyDef: the single value-giving definition among ds (a preceding zero declaration is allowed).
func onlyDef(ds []defInfo) *defInfo {
	var found *defInfo
	for i := range ds {
		if ds[i].kind == defZero {
			continue
		}
		if found != nil {
			return nil
		}
		found = &ds[i]
	}
	return found
}

func (fc *FuncCtx) defInfoOf(obj *ast.Object) *defInfo {
	fc.collectDefs()
	return onlyDef(fc.defs[obj])
}

// singleDef: defining expression of a local that is assigned exactly once with one value.
func (fc *FuncCtx) singleDef(obj *ast.Object) ast.Expr {
	if d := fc.defInfoOf(obj); d != nil && d.kind == defNormal {
		return d.rhs
	}
	return nil
}

// litOf: the function literal an expression denotes (directly or through a local).
func (fc *FuncCtx) litOf(e ast.Expr) *ast.FuncLit {
	switch x := unparen(e).(type) {
	case *ast.FuncLit:
		return x
	case *ast.Ident:
		if x.Obj != nil {
			fc.collectDefs()
			return fc.litVars[x.Obj]
		}
	}
	return nil
}

// resolve follows single-definition locals and bound parameters to the expression
// that gives them their value.
func (fc *FuncCtx) resolve(e ast.Expr) (*FuncCtx, ast.Expr) {
	c := fc
	for i := 0; i < 16; i++ {
		e = unparen(e)
		id, ok := e.(*ast.Ident)
		if !ok || id.Obj == nil || id.Obj.Kind != ast.Var {
			return c, e
		}
		if _, isParam := id.Obj.Decl.(*ast.Field); isParam {
			if b, ok := c.bind[id.Obj]; ok && c.caller != nil {
				c, e = c.caller, b
				continue
			}
			return c, e
		}
		d := c.singleDef(id.Obj)
		if d == nil {
			return c, e
		}
		e = d
	}
	return c, e
}

// ------------------------------------------------------------------ type inference

func (fc *FuncCtx) isPkgIdent(id *ast.Ident) (string, bool) {
	if id.Obj != nil {
		return "", false
	}
	ip, ok := fc.file.imports[id.Name]
	return ip, ok
}

func (fc *FuncCtx) typeOf(e ast.Expr) *Type { return fc.typeOfD(e, 0) }

func (fc *FuncCtx) typeOfD(e ast.Expr, d int) *Type {
	if e == nil || d > 10 {
		return nil
	}
	d++
	switch x := e.(type) {
	case *ast.ParenExpr:
		return fc.typeOfD(x.X, d)
	case *ast.BasicLit:
		switch x.Kind {
		case token.INT:
			return &Type{kind: "basic", name: "int"}
		case token.FLOAT:
			return &Type{kind: "basic", name: "float64"}
		case token.STRING:
			return &Type{kind: "basic", name: "string"}
		case token.CHAR:
			return &Type{kind: "basic", name: "rune"}
		}
		return nil
	case *ast.Ident:
		if x.Obj == nil {
			if vd, ok := fc.pkg.vars[x.Name]; ok {
				return pkgVarType(vd, d)
			}
			return nil
		}
		if x.Obj.Kind != ast.Var {
			return nil
		}
		switch decl := x.Obj.Decl.(type) {
		case *ast.Field:
			return typeFromExpr(fc.file, decl.Type)
		case *ast.ValueSpec:
			if decl.Type != nil {
				return typeFromExpr(fc.file, decl.Type)
			}
			for i, nm := range decl.Names {
				if nm.Obj == x.Obj {
					if len(decl.Values) == len(decl.Names) {
						return fc.typeOfD(decl.Values[i], d)
					}
					if len(decl.Values) == 1 {
						return fc.resultType(decl.Values[0], i, d)
					}
				}
			}
		case *ast.AssignStmt:
			for i, l := range decl.Lhs {
				id, ok := l.(*ast.Ident)
				if !ok || id.Obj != x.Obj {
					continue
				}
				if len(decl.Rhs) == 1 {
					if u, ok := decl.Rhs[0].(*ast.UnaryExpr); ok && u.Op == token.RANGE {
						ct := fc.typeOfD(u.X, d)
						if ct == nil {
							return nil
						}
						if i == 0 {
							if ct.kind == "slice" || ct.kind == "array" || ct.isBasic("string") {
								return &Type{kind: "basic", name: "int"}
							}
							if ct.kind == "chan" {
								return ct.elem
							}
							return nil
						}
						if ct.kind == "slice" || ct.kind == "array" || ct.kind == "map" {
							return ct.elem
						}
						return nil
					}
				}
				if len(decl.Rhs) == len(decl.Lhs) {
					return fc.typeOfD(decl.Rhs[i], d)
				}
				if len(decl.Rhs) == 1 {
					return fc.resultType(decl.Rhs[0], i, d)
				}
			}
		}
		return nil
	case *ast.SelectorExpr:
		if id, ok := x.X.(*ast.Ident); ok {
			if ip, ok := fc.isPkgIdent(id); ok {
				if dir, ok := moduleDir(ip); ok {
					if vd, ok := loadPkg(dir).vars[x.Sel.Name]; ok {
						return pkgVarType(vd, d)
					}
				}
				return nil
			}
		}
		return fieldType(fc.typeOfD(x.X, d), x.Sel.Name)
	case *ast.StarExpr:
		return fc.typeOfD(x.X, d).deref()
	case *ast.UnaryExpr:
		t := fc.typeOfD(x.X, d)
		if x.Op == token.AND && t != nil {
			return &Type{kind: "ptr", elem: t}
		}
		if x.Op == token.ARROW && t != nil && t.kind == "chan" {
			return t.elem
		}
		if x.Op == token.NOT {
			return &Type{kind: "basic", name: "bool"}
		}
		return t
	case *ast.CompositeLit:
		return typeFromExpr(fc.file, x.Type)
	case *ast.FuncLit:
		return &Type{kind: "func", expr: x.Type, file: fc.file}
	case *ast.IndexExpr:
		t := fc.typeOfD(x.X, d).deref()
		if t != nil && (t.kind == "slice" || t.kind == "array" || t.kind == "map") {
			return t.elem
		}
		if t.isBasic("string") {
			return &Type{kind: "basic", name: "byte"}
		}
		return nil
	case *ast.SliceExpr:
		return fc.typeOfD(x.X, d)
	case *ast.BinaryExpr:
		switch x.Op {
		case token.EQL, token.NEQ, token.LSS, token.GTR, token.LEQ, token.GEQ, token.LAND, token.LOR:
			return &Type{kind: "basic", name: "bool"}
		}
		if t := fc.typeOfD(x.X, d); t != nil {
			return t
		}
		return fc.typeOfD(x.Y, d)
	case *ast.TypeAssertExpr:
		return typeFromExpr(fc.file, x.Type)
	case *ast.CallExpr:
		return fc.resultType(x, 0, d)
	}
	return nil
}

func pkgVarType(vd *varDecl, d int) *Type {
	if vd.spec.Type != nil {
		return typeFromExpr(vd.file, vd.spec.Type)
	}
	if len(vd.spec.Values) == len(vd.spec.Names) {
		c := &FuncCtx{file: vd.file, pkg: vd.file.pkg}
		return c.typeOfD(vd.spec.Values[vd.idx], d)
	}
	return nil
}

// isTypeExpr: does e (in call position) denote a type, i.e. is the call a conversion?
func (fc *FuncCtx) isTypeExpr(e ast.Expr) bool {
	switch x := unparen(e).(type) {
	case *ast.ArrayType, *ast.MapType, *ast.ChanType, *ast.FuncType, *ast.InterfaceType, *ast.StructType:
		return true
	case *ast.StarExpr:
		return fc.isTypeExpr(x.X)
	case *ast.Ident:
		if x.Obj == nil {
			if builtinTypes[x.Name] {
				return true
			}
			_, isType := fc.pkg.types[x.Name]
			_, isFunc := fc.pkg.funcs[x.Name]
			return isType && !isFunc
		}
		return x.Obj.Kind == ast.Typ
	case *ast.SelectorExpr:
		if id, ok := x.X.(*ast.Ident); ok {
			if ip, ok := fc.isPkgIdent(id); ok {
				if dir, ok := moduleDir(ip); ok {
					_, isType := loadPkg(dir).types[x.Sel.Name]
					return isType
				}
			}
		}
	}
	return false
}

// resultType: type of the i-th result of the call expression e.
func (fc *FuncCtx) resultType(e ast.Expr, i int, d int) *Type {
	call, ok := unparen(e).(*ast.CallExpr)
	if !ok {
		if i == 0 {
			return fc.typeOfD(e, d)
		}
		// v, ok := m[k] / x.(T) / <-c
		return nil
	}
	if fc.isTypeExpr(call.Fun) {
		if i == 0 {
			return typeFromExpr(fc.file, unparen(call.Fun))
		}
		return nil
	}
	if id, ok := unparen(call.Fun).(*ast.Ident); ok && id.Obj == nil && builtinFuncs[id.Name] {
		if _, shadow := fc.pkg.funcs[id.Name]; !shadow && i == 0 {
			switch id.Name {
			case "make":
				if len(call.Args) > 0 {
					return typeFromExpr(fc.file, call.Args[0])
				}
			case "new":
				if len(call.Args) > 0 {
					if t := typeFromExpr(fc.file, call.Args[0]); t != nil {
						return &Type{kind: "ptr", elem: t}
					}
				}
			case "len", "cap", "copy":
				return &Type{kind: "basic", name: "int"}
			case "append":
				if len(call.Args) > 0 {
					return fc.typeOfD(call.Args[0], d)
				}
			}
			return nil
		}
	}
	if fn := fc.calleeOf(call); fn != nil {
		rt := resultTypes(fn)
		if i < len(rt) {
			return rt[i]
		}
		return nil
	}
	// call of a function-typed value (parameter, field, literal)
	if ft := fc.typeOfD(call.Fun, d); ft != nil && ft.kind == "func" {
		if sig, ok := ft.expr.(*ast.FuncType); ok && sig.Results != nil {
			k := 0
			for _, fl := range sig.Results.List {
				n := len(fl.Names)
				if n == 0 {
					n = 1
				}
				if i < k+n {
					return typeFromExpr(ft.file, fl.Type)
				}
				k += n
			}
		}
	}
	return nil
}

// calleeOf: the declaration (in this module) a call invokes, through import aliases,
// method receivers of known type and local function-value aliases.
func (fc *FuncCtx) calleeOf(call *ast.CallExpr) *Func { return fc.funcOfExpr(call.Fun, 0) }

func (fc *FuncCtx) funcOfExpr(e ast.Expr, d int) *Func {
	if d > 6 {
		return nil
	}
	switch x := unparen(e).(type) {
	case *ast.Ident:
		if x.Obj == nil {
			return fc.pkg.funcs[x.Name]
		}
		switch x.Obj.Kind {
		case ast.Fun:
			if fn, ok := fc.pkg.funcs[x.Name]; ok && fn.decl == x.Obj.Decl {
				return fn
			}
		case ast.Var:
			if _, isParam := x.Obj.Decl.(*ast.Field); isParam {
				if b, ok := fc.bind[x.Obj]; ok && fc.caller != nil {
					return fc.caller.funcOfExpr(b, d+1)
				}
				return nil
			}
			if def := fc.singleDef(x.Obj); def != nil {
				switch unparen(def).(type) {
				case *ast.Ident, *ast.SelectorExpr:
					return fc.funcOfExpr(def, d+1)
				}
			}
		}
		return nil
	case *ast.SelectorExpr:
		if id, ok := x.X.(*ast.Ident); ok {
			if ip, ok := fc.isPkgIdent(id); ok {
				if dir, ok := moduleDir(ip); ok {
					return loadPkg(dir).funcs[x.Sel.Name]
				}
				return nil
			}
		}
		t := fc.typeOf(x.X)
		if m := methodOf(t, x.Sel.Name); m != nil {
			return m
		}
		// promoted method through an embedded field of a struct of this module
		if st, f := structOf(t); st != nil {
			for _, fl := range st.Fields.List {
				if len(fl.Names) == 0 {
					if m := methodOf(typeFromExpr(f, fl.Type), x.Sel.Name); m != nil {
						return m
					}
				}
			}
		}
	case *ast.IndexExpr: // generic instantiation f[T]
		return fc.funcOfExpr(x.X, d+1)
	}
	return nil
}

// ------------------------------------------------------------------ canonical names

const syncPath = "sync"

// canonical role names the obligations are written with
var canonRecvName = map[string]string{"Inserter": "i", "Sorter": "s"}

func (fc *FuncCtx) canonVarName(id *ast.Ident) string {
	if id.Obj == nil || id.Obj.Kind != ast.Var {
		return id.Name
	}
	if id.Obj == fc.recvObj {
		if n, ok := canonRecvName[fc.fn.recv]; ok {
			return n
		}
		return id.Name
	}
	t := fc.typeOf(id)
	if t.isNamed(modulePath+"/pkg/ref", "Store") {
		return "rs"
	}
	if d := t.deref(); d != nil && d.kind == "named" && d.path == fc.pkg.path {
		// a value of a receiver type with a canonical role name (e.g. a local *Inserter)
		if n, ok := canonRecvName[d.name]; ok && fc.recvObj == nil {
			return n
		}
	}
	return id.Name
}

func isMutexType(t *Type) (rw bool, ok bool) {
	t = t.deref()
	if t.isNamed(syncPath, "Mutex") {
		return false, true
	}
	if t.isNamed(syncPath, "RWMutex") {
		return true, true
	}
	return false, false
}

func (fc *FuncCtx) canonFieldName(x *ast.SelectorExpr) string {
	ft := fieldType(fc.typeOf(x.X), x.Sel.Name)
	if ft.deref().isNamed(syncPath, "WaitGroup") {
		return "wg"
	}
	if _, ok := isMutexType(ft); ok {
		return "mutex"
	}
	return x.Sel.Name
}

// canonExpr renders an expression like the old exprStr, but with canonical package
// qualifiers, receiver / role names and sync field names.
func (fc *FuncCtx) canonExpr(e ast.Expr) string {
	switch x := e.(type) {
	case *ast.Ident:
		return fc.canonVarName(x)
	case *ast.SelectorExpr:
		if id, ok := x.X.(*ast.Ident); ok {
			if ip, ok := fc.isPkgIdent(id); ok {
				return canonPkgName(ip) + "." + x.Sel.Name
			}
		}
		return fc.canonExpr(x.X) + "." + fc.canonFieldName(x)
	case *ast.CallExpr:
		return fc.canonExpr(x.Fun) + "()"
	case *ast.StarExpr:
		return "*" + fc.canonExpr(x.X)
	case *ast.IndexExpr:
		return fc.canonExpr(x.X) + "[]"
	case *ast.ParenExpr:
		return fc.canonExpr(x.X)
	case *ast.BasicLit:
		return x.Value
	}
	return "?"
}

// callName: canonical name of what a call invokes.
//
//	pkg.Func            for package functions (alias resolved, also through local
//	                    function values:  save := objects.SaveTable; save(..))
//	Func                for functions of the same package and builtins
//	i.sortBlocks        for methods (canonical receiver / role name, canonical field names)
//	var:f               for calls of other function-typed locals
func (fc *FuncCtx) callName(call *ast.CallExpr) string { return fc.funcName(call.Fun, 0) }

func (fc *FuncCtx) funcName(e ast.Expr, d int) string {
	switch x := unparen(e).(type) {
	case *ast.Ident:
		if x.Obj != nil && x.Obj.Kind == ast.Var {
			if _, isParam := x.Obj.Decl.(*ast.Field); isParam {
				if b, ok := fc.bind[x.Obj]; ok && fc.caller != nil && d < 6 {
					switch unparen(b).(type) {
					case *ast.Ident, *ast.SelectorExpr:
						return fc.caller.funcName(b, d+1)
					}
				}
				return "var:" + x.Name
			}
			if def := fc.singleDef(x.Obj); def != nil && d < 6 {
				switch unparen(def).(type) {
				case *ast.Ident, *ast.SelectorExpr:
					return fc.funcName(def, d+1)
				}
			}
			return "var:" + x.Name
		}
		return x.Name
	case *ast.SelectorExpr:
		return fc.canonExpr(x)
	case *ast.IndexExpr:
		return fc.funcName(x.X, d+1)
	case *ast.FuncLit:
		return "func-literal"
	}
	return fc.canonExpr(e)
}

func baseName(name string) string {
	if i := strings.LastIndex(name, "."); i >= 0 {
		return name[i+1:]
	}
	return name
}

// isSel: is e the (alias resolved) package member path.name ?
func (fc *FuncCtx) isPkgMember(e ast.Expr, path, name string) bool {
	c, r := fc.resolve(e)
	sel, ok := r.(*ast.SelectorExpr)
	if !ok || sel.Sel.Name != name {
		return false
	}
	id, ok := sel.X.(*ast.Ident)
	if !ok {
		return false
	}
	ip, ok := c.isPkgIdent(id)
	return ok && ip == path
}

// ------------------------------------------------------------------ structural equality

// sameExpr: do a (in ca) and b (in cb) denote the same value, up to single-definition
// locals, parentheses and the spelling of identifiers?
func sameExpr(ca *FuncCtx, a ast.Expr, cb *FuncCtx, b ast.Expr) bool {
	return sameExprD(ca, a, cb, b, 0)
}

func sameExprD(ca *FuncCtx, a ast.Expr, cb *FuncCtx, b ast.Expr, d int) bool {
	if a == nil || b == nil || d > 12 {
		return false
	}
	d++
	a, b = unparen(a), unparen(b)
	// identical objects first (before following definitions)
	if ia, ok := a.(*ast.Ident); ok {
		if ib, ok := b.(*ast.Ident); ok {
			if ia.Obj != nil && ia.Obj == ib.Obj {
				return true
			}
			if ia.Obj == nil && ib.Obj == nil && ia.Name == ib.Name {
				return true
			}
		}
	}
	ca2, a2 := ca.resolve(a)
	cb2, b2 := cb.resolve(b)
	if a2 != a || b2 != b {
		return sameExprD(ca2, a2, cb2, b2, d)
	}
	switch x := a.(type) {
	case *ast.Ident:
		y, ok := b.(*ast.Ident)
		if !ok {
			return false
		}
		if x.Obj != nil || y.Obj != nil {
			// receivers of two methods of the same type denote the same object when the
			// callee was entered through a call on that receiver (handled by resolve);
			return x.Obj == y.Obj
		}
		return x.Name == y.Name
	case *ast.BasicLit:
		y, ok := b.(*ast.BasicLit)
		return ok && x.Kind == y.Kind && x.Value == y.Value
	case *ast.SelectorExpr:
		y, ok := b.(*ast.SelectorExpr)
		return ok && x.Sel.Name == y.Sel.Name && sameExprD(ca, x.X, cb, y.X, d)
	case *ast.IndexExpr:
		y, ok := b.(*ast.IndexExpr)
		return ok && sameExprD(ca, x.X, cb, y.X, d) && sameExprD(ca, x.Index, cb, y.Index, d)
	case *ast.StarExpr:
		y, ok := b.(*ast.StarExpr)
		return ok && sameExprD(ca, x.X, cb, y.X, d)
	case *ast.UnaryExpr:
		y, ok := b.(*ast.UnaryExpr)
		return ok && x.Op == y.Op && sameExprD(ca, x.X, cb, y.X, d)
	case *ast.BinaryExpr:
		y, ok := b.(*ast.BinaryExpr)
		return ok && x.Op == y.Op && sameExprD(ca, x.X, cb, y.X, d) && sameExprD(ca, x.Y, cb, y.Y, d)
	case *ast.CallExpr:
		y, ok := b.(*ast.CallExpr)
		if !ok || len(x.Args) != len(y.Args) {
			return false
		}
		// only pure builtins / conversions are compared structurally
		nx, ny := ca.callName(x), cb.callName(y)
		if nx != ny || !(nx == "len" || nx == "cap" || ca.isTypeExpr(x.Fun)) {
			return false
		}
		for i := range x.Args {
			if !sameExprD(ca, x.Args[i], cb, y.Args[i], d) {
				return false
			}
		}
		return true
	}
	return false
}

// stripConv removes value-preserving wrappers: parentheses and conversions T(x).
func (fc *FuncCtx) stripConv(e ast.Expr) ast.Expr {
	for {
		e = unparen(e)
		c, ok := e.(*ast.CallExpr)
		if !ok || len(c.Args) != 1 || !fc.isTypeExpr(c.Fun) {
			return e
		}
		e = c.Args[0]
	}
}

// isNil: the predeclared nil
func isNil(e ast.Expr) bool {
	id, ok := unparen(e).(*ast.Ident)
	return ok && id.Name == "nil" && id.Obj == nil
}

// usesObj: does the subtree mention the object?
func usesObj(n ast.Node, obj *ast.Object) bool {
	found := false
	if n == nil || obj == nil {
		return false
	}
	ast.Inspect(n, func(m ast.Node) bool {
		if id, ok := m.(*ast.Ident); ok && id.Obj == obj {
			found = true
		}
		return !found
	})
	return found
}
