// walk.go: traversal of a function body in (approximate) execution order:
//   - arguments before the call, the callee's body right after the call;
//   - calls of unexported functions / methods of the same package are followed ONE
//     level (so moving two statements into a helper does not change a skeleton);
//   - a function literal bound to a local is walked where it is called or passed,
//     a literal passed as an argument is walked at that call;
//   - deferred calls are walked when the enclosing function body ends.
package main

import (
	"go/ast"
)

type callMode int

const (
	modeNormal callMode = iota
	modeGo
	modeDefer     // a deferred call, reported when the enclosing function body ends
	modeDeferDecl // the same call, reported where the defer statement is written
)

type Walker struct {
	maxDepth int
	// noInline: calls that must stay opaque (they are skeleton entries themselves)
	noInline func(name string, fn *Func) bool
	onCall   func(fc *FuncCtx, call *ast.CallExpr, name string, mode callMode)
	// onEnter / onLeave bracket the body of an inlined helper
	onEnter func(fc *FuncCtx)
	onLeave func(fc *FuncCtx)
	// onIf is called after Init and Cond of an if statement were walked, before its body
	onIf func(fc *FuncCtx, s *ast.IfStmt)
	// onSwitch likewise for an expression switch, after Init and Tag
	onSwitch func(fc *FuncCtx, s *ast.SwitchStmt)
	onNode   func(fc *FuncCtx, n ast.Node)
	stack    []*Func
}

type frame struct {
	defers []*ast.CallExpr
}

func (w *Walker) walkFunc(fn *Func) {
	if fn == nil || fn.decl.Body == nil {
		return
	}
	w.stack = append(w.stack, fn)
	w.walkBody(newFuncCtx(fn), fn.decl.Body)
	w.stack = w.stack[:len(w.stack)-1]
}

func (w *Walker) walkBody(fc *FuncCtx, body *ast.BlockStmt) {
	fr := &frame{}
	w.walk(fc, body, fr)
	for i := len(fr.defers) - 1; i >= 0; i-- {
		w.walkCall(fc, fr.defers[i], fr, modeDefer)
	}
}

// litDeferred: is the literal bound to a local that is invoked / passed elsewhere
// (then it is walked there, not where it is written)?
func (fc *FuncCtx) litDeferred(lit *ast.FuncLit) bool {
	fc.collectDefs()
	var obj *ast.Object
	for o, l := range fc.litVars {
		if l == lit {
			obj = o
		}
	}
	if obj == nil || fc.body == nil {
		return false
	}
	used := false
	ast.Inspect(fc.body, func(n ast.Node) bool {
		c, ok := n.(*ast.CallExpr)
		if !ok {
			return !used
		}
		if id, ok := unparen(c.Fun).(*ast.Ident); ok && id.Obj == obj {
			used = true
		}
		for _, a := range c.Args {
			if id, ok := unparen(a).(*ast.Ident); ok && id.Obj == obj {
				used = true
			}
		}
		return !used
	})
	return used
}

func (w *Walker) walk(fc *FuncCtx, n ast.Node, fr *frame) {
	if n == nil {
		return
	}
	ast.Inspect(n, func(m ast.Node) bool {
		switch x := m.(type) {
		case nil:
			return true
		case *ast.FuncLit:
			if !fc.litDeferred(x) {
				w.walkBody(fc, x.Body)
			}
			return false
		case *ast.CallExpr:
			w.walkCall(fc, x, fr, modeNormal)
			return false
		case *ast.DeferStmt:
			// A deferred call runs when the function returns - on every path, also the
			// failing ones.  It is reported at BOTH places: order obligations see it at
			// its true position, exact-shape obligations see the duplicate and fail
			// (a store-mutating call in a defer is never what the models describe).
			if w.onCall != nil {
				w.onCall(fc, x.Call, fc.callName(x.Call), modeDeferDecl)
			}
			fr.defers = append(fr.defers, x.Call)
			return false
		case *ast.GoStmt:
			w.walkCall(fc, x.Call, fr, modeGo)
			return false
		case *ast.IfStmt:
			if w.onNode != nil {
				w.onNode(fc, x)
			}
			w.walk(fc, x.Init, fr)
			w.walk(fc, x.Cond, fr)
			if w.onIf != nil {
				w.onIf(fc, x)
			}
			w.walk(fc, x.Body, fr)
			w.walk(fc, x.Else, fr)
			return false
		case *ast.SwitchStmt:
			if w.onNode != nil {
				w.onNode(fc, x)
			}
			w.walk(fc, x.Init, fr)
			w.walk(fc, x.Tag, fr)
			if w.onSwitch != nil {
				w.onSwitch(fc, x)
			}
			w.walk(fc, x.Body, fr)
			return false
		}
		if w.onNode != nil {
			w.onNode(fc, m)
		}
		return true
	})
}

func (w *Walker) inlinable(fc *FuncCtx, name string, fn *Func) bool {
	if fn == nil || fn.decl.Body == nil || fn.pkg != fc.pkg || ast.IsExported(fn.decl.Name.Name) {
		return false
	}
	if fc.depth >= w.maxDepth {
		return false
	}
	if w.noInline != nil && w.noInline(name, fn) {
		return false
	}
	for _, s := range w.stack {
		if s == fn {
			return false
		}
	}
	return true
}

func (w *Walker) walkCall(fc *FuncCtx, call *ast.CallExpr, fr *frame, mode callMode) {
	fun := unparen(call.Fun)
	// 1. what is evaluated to find the function
	switch f := fun.(type) {
	case *ast.SelectorExpr:
		w.walk(fc, f.X, fr)
	case *ast.Ident, *ast.FuncLit:
	default:
		w.walk(fc, fun, fr)
	}
	// 2. arguments (a literal, or a local holding one, runs inside the callee: walked here)
	for _, a := range call.Args {
		if id, ok := unparen(a).(*ast.Ident); ok && id.Obj != nil {
			fc.collectDefs()
			if lit := fc.litVars[id.Obj]; lit != nil {
				w.walkBody(fc, lit.Body)
				continue
			}
		}
		w.walk(fc, a, fr)
	}
	// 3. the call
	name := fc.callName(call)
	if w.onCall != nil {
		w.onCall(fc, call, name, mode)
	}
	// 4. its body
	if lit := fc.litOf(fun); lit != nil {
		w.walkBody(fc, lit.Body)
		return
	}
	if mode == modeGo {
		return
	}
	if callee := fc.calleeOf(call); w.inlinable(fc, name, callee) {
		c := fc.enter(callee, call)
		w.stack = append(w.stack, callee)
		if w.onEnter != nil {
			w.onEnter(c)
		}
		w.walkBody(c, callee.decl.Body)
		if w.onLeave != nil {
			w.onLeave(c)
		}
		w.stack = w.stack[:len(w.stack)-1]
	}
}

// calls: canonical names of the calls of fn, in execution order, that are in `want`
// (base=true: compared and reported without qualifier).
func skeleton(fn *Func, want map[string]bool, base bool, extra func(w *Walker, emit func(string))) []string {
	if fn == nil || fn.decl.Body == nil {
		return []string{"?"}
	}
	res := []string{}
	emit := func(s string) { res = append(res, s) }
	key := func(name string) string {
		if base {
			return baseName(name)
		}
		return name
	}
	w := &Walker{maxDepth: 1}
	w.noInline = func(name string, fn *Func) bool { return want[key(name)] }
	w.onCall = func(fc *FuncCtx, call *ast.CallExpr, name string, mode callMode) {
		k := key(name)
		if !want[k] {
			return
		}
		if k == "close" && !isSharedChan(fc, call) {
			return
		}
		emit(k)
	}
	if extra != nil {
		extra(w, emit)
	}
	w.walkFunc(fn)
	return res
}

// isSharedChan: close(x) where x is a channel stored in a struct field (shared state),
// not a local channel.
func isSharedChan(fc *FuncCtx, call *ast.CallExpr) bool {
	if len(call.Args) != 1 {
		return false
	}
	_, r := fc.resolve(call.Args[0])
	_, ok := r.(*ast.SelectorExpr)
	return ok
}
