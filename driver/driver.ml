(* Generic driver: reads one exchange tree per line on stdin, applies the
   extracted [Ex.run], prints one tree per line.  No library dependency.
   Text format: decimal leaf | ( t ... ) | x<hex pairs> (= node of byte leaves). *)
open Ex

(* ---- N <-> decimal strings, arbitrary size ---- *)
let rec pos_of_bits = function      (* bits most-significant first, leading 1 *)
  | [] -> XH
  | _ -> assert false
and build acc = function
  | [] -> acc
  | b :: r -> build (if b then XI acc else XO acc) r

let n_of_int (i : int) : n =
  if i = 0 then N0 else begin
    let rec bits i acc = if i = 0 then acc else bits (i lsr 1) ((i land 1 = 1) :: acc) in
    match bits i [] with
    | true :: r -> Npos (build XH r)
    | _ -> assert false
  end

let n_of_dec (s : string) : n =
  if String.length s <= 18 then n_of_int (int_of_string s) else begin
    (* big: repeated division by 2 on a digit array *)
    let d = Array.init (String.length s) (fun i -> Char.code s.[i] - 48) in
    let is_zero () = Array.for_all (fun x -> x = 0) d in
    let bits = ref [] in
    while not (is_zero ()) do
      let rem = ref 0 in
      for i = 0 to Array.length d - 1 do
        let cur = !rem * 10 + d.(i) in
        d.(i) <- cur / 2; rem := cur mod 2
      done;
      bits := (!rem = 1) :: !bits
    done;
    match !bits with
    | [] -> N0
    | true :: r -> Npos (build XH r)
    | _ -> assert false
  end

let rec int_of_pos_opt p depth : int option =
  if depth > 60 then None else
  match p with
  | XH -> Some 1
  | XO q -> (match int_of_pos_opt q (depth+1) with Some v -> Some (2*v) | None -> None)
  | XI q -> (match int_of_pos_opt q (depth+1) with Some v -> Some (2*v+1) | None -> None)

let dec_of_n (x : n) : string =
  match x with
  | N0 -> "0"
  | Npos p ->
    (match int_of_pos_opt p 0 with
     | Some v -> string_of_int v
     | None ->
       (* big: bits MSB first, double-and-add on a decimal digit list (LSD first) *)
       let rec bits p acc = match p with XH -> true :: acc | XO q -> bits q (false :: acc) | XI q -> bits q (true :: acc) in
       let bl = bits p [] in
       let digits = ref [0] in
       List.iter (fun b ->
         let carry = ref (if b then 1 else 0) in
         digits := List.map (fun d -> let v = d*2 + !carry in carry := v / 10; v mod 10) !digits;
         if !carry > 0 then digits := !digits @ [!carry]) bl;
       String.concat "" (List.rev_map string_of_int !digits))

(* ---- parser ---- *)
let parse (s : string) : tree =
  let n = String.length s in
  let pos = ref 0 in
  let hexv c = match c with
    | '0'..'9' -> Char.code c - 48 | 'a'..'f' -> Char.code c - 87 | _ -> failwith "hex" in
  let rec skip () = if !pos < n && (s.[!pos] = ' ' || s.[!pos] = '\t') then (incr pos; skip ()) in
  let rec item () : tree =
    skip ();
    if !pos >= n then failwith "eof";
    match s.[!pos] with
    | '(' ->
      incr pos;
      let items = ref [] in
      let rec loop () =
        skip ();
        if !pos >= n then failwith "unclosed";
        if s.[!pos] = ')' then incr pos else (items := item () :: !items; loop ()) in
      loop (); Node (List.rev !items)
    | 'x' ->
      incr pos;
      let items = ref [] in
      while !pos + 1 < n && (match s.[!pos] with '0'..'9' | 'a'..'f' -> true | _ -> false) do
        items := Leaf (n_of_int (hexv s.[!pos] * 16 + hexv s.[!pos+1])) :: !items;
        pos := !pos + 2
      done;
      Node (List.rev !items)
    | '0'..'9' ->
      let st = !pos in
      while !pos < n && (match s.[!pos] with '0'..'9' -> true | _ -> false) do incr pos done;
      Leaf (n_of_dec (String.sub s st (!pos - st)))
    | c -> failwith (Printf.sprintf "bad char %c at %d" c !pos)
  in
  item ()

(* ---- printer ---- *)
let small_byte = function
  | Leaf x -> (match x with N0 -> Some 0 | Npos p -> (match int_of_pos_opt p 0 with Some v when v < 256 -> Some v | _ -> None))
  | Node _ -> None

let rec print (b : Buffer.t) (t : tree) : unit =
  match t with
  | Leaf x -> Buffer.add_string b (dec_of_n x)
  | Node [] -> Buffer.add_string b "()"
  | Node l ->
    let bs = List.map small_byte l in
    if List.for_all (fun o -> o <> None) bs then begin
      Buffer.add_char b 'x';
      List.iter (function Some v -> Buffer.add_string b (Printf.sprintf "%02x" v) | None -> ()) bs
    end else begin
      Buffer.add_char b '(';
      List.iteri (fun i x -> if i > 0 then Buffer.add_char b ' '; print b x) l;
      Buffer.add_char b ')'
    end

let () =
  let _ = pos_of_bits in
  try
    while true do
      let line = input_line stdin in
      if String.length line > 0 then begin
        let t = parse line in
        let r = run t in
        let b = Buffer.create 256 in
        print b r;
        print_endline (Buffer.contents b)
      end
    done
  with End_of_file -> ()
