#!/bin/bash
# usage: tools_validate_seed.sh <Cxx> <mN>   -- confirm a seeded change in its scratch worktree:
#  suite passes with the change; demo fails with it and passes without it. Then store under /verif/seeded/<id>-<mN>/.
pid=$1; m=$2
WT=${MUTBASE:-/tmp/mut}/$pid; OUT=${MUTBASE:-/tmp/mut}/out/$pid
export GOFLAGS=-mod=mod GOPROXY=off GOSUMDB=off GOTOOLCHAIN=local
cd $WT && git checkout -q -- . && git apply --check $OUT/$m.diff || { echo "patch does not apply in worktree"; exit 3; }
git apply $OUT/$m.diff
suite=$(go test -mod=mod -vet=off -count=1 -timeout 25m ./... 2>&1 | grep -E "^(FAIL|---)" | head -5)
if [ -z "$suite" ]; then suite_ok=yes; else suite_ok="no: $suite"; fi
cd $OUT/${m}_demo && cp $WT/go.sum . 2>/dev/null
with=$(go test -count=1 ./... 2>&1 | tail -3; echo "rc=${PIPESTATUS[0]}")
( go test -count=1 ./... >/dev/null 2>&1 ); rc_with=$?
cd $WT && git checkout -q -- .
cd $OUT/${m}_demo
( go test -count=1 ./... >/dev/null 2>&1 ); rc_without=$?
echo "suite_passes_with_change=$suite_ok demo_rc_with_change=$rc_with demo_rc_without_change=$rc_without"
