#!/bin/bash
# usage: tools_seed_all.sh <Cxx> [check-id]  -- validate both seeds of a property in its worktree and run the check against them
pid=$1; chk=${2:-$1}
for m in m1 m2; do
  [ -f ${MUTBASE:-/tmp/mut}/out/$pid/$m.diff ] || continue
  echo "=== $pid $m (check $chk)"
  ./tools_validate_seed.sh $pid $m 2>&1 | tail -1
  ./tools_seed.sh $chk ${MUTBASE:-/tmp/mut}/out/$pid/$m.diff 2>&1 | grep -E "VIOLATION|PATCH|exit=|== C" | head -4
done
