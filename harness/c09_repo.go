package main

// c09_repo.go - repository fixtures shared by the C09 and C10 harnesses: mutex-wrapped,
// write-recording object/ref stores, an in-memory SQLite ref store, and builders for
// tables and commits whose identity is controlled by the harness (abstract commit ids).

import (
	"bytes"
	"database/sql"
	"fmt"
	"io"
	"sort"
	"strings"
	"sync"
	"time"

	"github.com/go-logr/logr"
	"github.com/google/uuid"
	_ "github.com/mattn/go-sqlite3"
	"github.com/wrgl/wrgl/pkg/ingest"
	"github.com/wrgl/wrgl/pkg/objects"
	objmock "github.com/wrgl/wrgl/pkg/objects/mock"
	"github.com/wrgl/wrgl/pkg/ref"
	refsql "github.com/wrgl/wrgl/pkg/ref/sql"
	"github.com/wrgl/wrgl/pkg/sorter"
)

// c09ObjStore wraps an objects.Store with a mutex (objmock is not thread-safe and the
// reference server runs in another goroutine) and records every write.
type c09ObjStore struct {
	mu     sync.Mutex
	in     objects.Store
	Writes []string // "S<key>" / "D<key>" / "C<prefix>"
}

func c09NewObjStore() *c09ObjStore { return &c09ObjStore{in: objmock.NewStore()} }

func (s *c09ObjStore) Get(k []byte) ([]byte, error) {
	s.mu.Lock()
	defer s.mu.Unlock()
	return s.in.Get(k)
}
func (s *c09ObjStore) Set(k, v []byte) error {
	s.mu.Lock()
	defer s.mu.Unlock()
	s.Writes = append(s.Writes, "S"+string(k))
	return s.in.Set(k, v)
}
func (s *c09ObjStore) Delete(k []byte) error {
	s.mu.Lock()
	defer s.mu.Unlock()
	s.Writes = append(s.Writes, "D"+string(k))
	return s.in.Delete(k)
}
func (s *c09ObjStore) Exist(k []byte) bool {
	s.mu.Lock()
	defer s.mu.Unlock()
	return s.in.Exist(k)
}
func (s *c09ObjStore) Filter(p []byte) (map[string][]byte, error) {
	s.mu.Lock()
	defer s.mu.Unlock()
	return s.in.Filter(p)
}
func (s *c09ObjStore) FilterKey(p []byte) ([][]byte, error) {
	s.mu.Lock()
	defer s.mu.Unlock()
	return s.in.FilterKey(p)
}
func (s *c09ObjStore) Clear(p []byte) error {
	s.mu.Lock()
	defer s.mu.Unlock()
	s.Writes = append(s.Writes, "C"+string(p))
	return s.in.Clear(p)
}
func (s *c09ObjStore) Close() error { return nil }
func (s *c09ObjStore) NWrites() int {
	s.mu.Lock()
	defer s.mu.Unlock()
	return len(s.Writes)
}

// c09RefStore records the mutating calls on a ref.Store.
type c09RefStore struct {
	ref.Store
	mu     sync.Mutex
	Writes []string
}

func (s *c09RefStore) rec(w string) {
	s.mu.Lock()
	s.Writes = append(s.Writes, w)
	s.mu.Unlock()
}
func (s *c09RefStore) SetWithLog(key string, val []byte, log *ref.Reflog) error {
	s.rec("L" + key)
	return s.Store.SetWithLog(key, val, log)
}
func (s *c09RefStore) Set(key string, val []byte) error {
	s.rec("S" + key)
	return s.Store.Set(key, val)
}
func (s *c09RefStore) Delete(key string) error {
	s.rec("D" + key)
	return s.Store.Delete(key)
}
func (s *c09RefStore) Rename(o, n string) error {
	s.rec("R" + o)
	return s.Store.Rename(o, n)
}
func (s *c09RefStore) Copy(o, n string) error {
	s.rec("C" + n)
	return s.Store.Copy(o, n)
}
func (s *c09RefStore) NewTransaction(tx *ref.Transaction) (*uuid.UUID, error) {
	s.rec("T")
	return s.Store.NewTransaction(tx)
}
func (s *c09RefStore) NWrites() int {
	s.mu.Lock()
	defer s.mu.Unlock()
	return len(s.Writes)
}

var c09MemDBCounter int

// c09NewMemRefStore opens a private in-memory SQLite ref store.
func c09NewMemRefStore() (*c09RefStore, func()) {
	c09MemDBCounter++
	db, err := sql.Open("sqlite3", fmt.Sprintf("file:c09mem%d.db?cache=shared&mode=memory", c09MemDBCounter))
	if err != nil {
		panic(err)
	}
	db.SetMaxOpenConns(1)
	for _, stmt := range refsql.CreateTableStmts {
		if _, err := db.Exec(stmt); err != nil {
			panic(err)
		}
	}
	return &c09RefStore{Store: refsql.NewStore(db)}, func() { db.Close() }
}

// c09TableCSV returns the CSV text of fixture table number t.  Table 0 has several blocks (300 rows),
// tables 1..4 have 3 rows, every other number is a 1-row table.  Tables with different t differ in content.
func c09TableCSV(t int) string {
	var sb strings.Builder
	sb.WriteString("a,b,c\n")
	n := 1
	if t == 0 {
		n = 300
	} else if t < 5 {
		n = 3
	}
	for i := 0; i < n; i++ {
		fmt.Fprintf(&sb, "%d,t%d,v%d\n", i+1, t, (i*7+t)%11)
	}
	return sb.String()
}

// c09TableObjs: everything the real ingest stores for fixture table t (table, table index, profile, blocks,
// block indices), ingested once into a scratch store; populating a store is then a plain copy.
var c09TableObjs = map[int]map[string][]byte{}

func c09IngestFixture(t int) {
	if _, ok := c09TableObjs[t]; ok {
		return
	}
	db := objmock.NewStore()
	s, err := sorter.NewSorter()
	if err != nil {
		panic(err)
	}
	defer s.Close()
	sum, err := ingest.IngestTable(db, s, io.NopCloser(strings.NewReader(c09TableCSV(t))), []string{"a"}, logr.Discard(), ingest.WithNumWorkers(1))
	if err != nil {
		panic(err)
	}
	m, err := db.Filter(nil)
	if err != nil {
		panic(err)
	}
	c09TableObjs[t] = m
	c09TableSumCache[t] = sum
}

// c09EnsureTable stores fixture table t in db (idempotent) and returns its sum.
func c09EnsureTable(db objects.Store, t int) []byte {
	c09IngestFixture(t)
	sum := c09TableSumCache[t]
	if objects.TableExist(db, sum) {
		return sum
	}
	tkey := ""
	for k, v := range c09TableObjs[t] {
		if strings.HasPrefix(k, "tbl/") {
			tkey = k
			continue
		}
		if err := db.Set([]byte(k), v); err != nil {
			panic(err)
		}
	}
	// the table object last: it is what marks the table as present
	if err := db.Set([]byte(tkey), c09TableObjs[t][tkey]); err != nil {
		panic(err)
	}
	return sum
}

var c09Epoch = time.Date(2022, 1, 1, 0, 0, 0, 0, time.UTC)

// c09CommitBytes builds the canonical bytes of the commit with abstract id `id`
// (the message carries the id, so distinct ids give distinct sums), time offset ts seconds.
func c09CommitBytes(id int, table []byte, parents [][]byte, ts int) []byte {
	com := &objects.Commit{
		Table:       table,
		AuthorName:  "gen",
		AuthorEmail: "gen@example.com",
		Time:        c09Epoch.Add(time.Duration(ts) * time.Second),
		Message:     fmt.Sprintf("c%d", id),
		Parents:     parents,
	}
	buf := bytes.NewBuffer(nil)
	if _, err := com.WriteTo(buf); err != nil {
		panic(err)
	}
	return buf.Bytes()
}

// c09Graph is an abstract commit DAG: commit i has parents Par[i] (all < i), table Tab[i], time Ts[i].
type c09Graph struct {
	Par  [][]int
	Tab  []int
	Ts   []int
	Sums [][]byte // filled by Materialise: sum of commit i (independent of the store)
	Raw  [][]byte
}

// Seal computes the commit bytes and sums of all commits (needs table sums: computed in a scratch store once).
func (g *c09Graph) Seal(tableSum func(t int) []byte) {
	g.Sums = make([][]byte, len(g.Par))
	g.Raw = make([][]byte, len(g.Par))
	scratch := objmock.NewStore()
	for i := range g.Par {
		ps := [][]byte{}
		for _, p := range g.Par[i] {
			ps = append(ps, g.Sums[p])
		}
		g.Raw[i] = c09CommitBytes(i, tableSum(g.Tab[i]), ps, g.Ts[i])
		sum, err := objects.SaveCommit(scratch, g.Raw[i])
		if err != nil {
			panic(err)
		}
		g.Sums[i] = sum
	}
}

// Anc returns the ancestor-or-self set of commit c (DFS over the abstract graph; oracle side).
func (g *c09Graph) Anc(c int) map[int]bool {
	seen := map[int]bool{}
	var rec func(int)
	rec = func(x int) {
		if seen[x] {
			return
		}
		seen[x] = true
		for _, p := range g.Par[x] {
			rec(p)
		}
	}
	rec(c)
	return seen
}

// Put stores commit c and all its ancestors into db; tables are stored for the commits in full(c)
// (nil = all).  Returns nothing; idempotent.
func (g *c09Graph) Put(db objects.Store, c int, withTable func(c int) bool) {
	ids := []int{}
	for x := range g.Anc(c) {
		ids = append(ids, x)
	}
	sort.Ints(ids)
	for _, x := range ids {
		if withTable == nil || withTable(x) {
			c09EnsureTable(db, g.Tab[x])
		}
		if _, err := objects.SaveCommit(db, g.Raw[x]); err != nil {
			panic(err)
		}
	}
}

// IdOf maps a commit sum back to its abstract id (-1 unknown, e.g. a merge commit created by the command).
func (g *c09Graph) IdOf(sum []byte) int {
	for i, s := range g.Sums {
		if bytes.Equal(s, sum) {
			return i
		}
	}
	return -1
}

var c09TableSumCache = map[int][]byte{}

func c09TableSum(t int) []byte {
	c09IngestFixture(t)
	return c09TableSumCache[t]
}

// c09ReadLogs returns the reflog of a ref, newest first, as (old, new, action) triples.
func c09ReadLogs(rs ref.Store, name string) (res [][3]string) {
	r, err := rs.LogReader(name)
	if err != nil {
		return nil
	}
	defer r.Close()
	for {
		l, err := r.Read()
		if err != nil {
			break
		}
		res = append(res, [3]string{string(l.OldOID), string(l.NewOID), l.Action})
	}
	return
}
