package main

import (
	"bufio"
	"bytes"
	"encoding/csv"
	"errors"
	"fmt"
	"math/rand"
	"os"
	"os/exec"
	"path/filepath"
	"runtime"
	"strconv"
	"strings"
	"sync"
	"time"

	"github.com/go-logr/logr"
	"github.com/pckhoi/meow"
	"github.com/wrgl/wrgl/pkg/ingest"
	"github.com/wrgl/wrgl/pkg/objects"
	objmock "github.com/wrgl/wrgl/pkg/objects/mock"
	"github.com/wrgl/wrgl/pkg/sorter"

	"verifharness/xt"
)

// C16: concurrent pipelines give the sequential result under every schedule.
// Model: coq/model/Pool.v (worker pool), PoolFlow.v (differ/merger dataflow), PoolRun.v.
// Supporting evidence only for the concurrency claim itself (the Go scheduler and memory
// model are not formalised): repetition with randomised yields inside the store, varying
// GOMAXPROCS, a watchdog, goroutine-leak checks and injected store / chunk-read errors.
// Thorough tier, manual: cd /repo && go test -race ./pkg/ingest/ ./pkg/diff/ ./pkg/merge/
//
// case kinds (leading tag):
//   0 ingest    (0 w (rows_0 .. rows_{n-1}) (sched ...) lock failoff failkind readerr reps (procs ...) yieldpct sleepus chunkrows seed)
//               w = worker goroutines (WithNumWorkers(w+2)); block j has rows_j rows (255 except the
//               last); sched/lock are used by the model only; failkind 1/2 = the store Set of block
//               failoff's block / block index fails; readerr k+1 = a spilled chunk is cut (read error);
//               reps = repetitions with GOMAXPROCS procs[i]; yieldpct/sleepus = yield probability / max
//               sleep in every store call; chunkrows = sorter run size in rows (0 = in memory)
//     obs       (0 rowsCount (off ...) (off ...) same) | (1) error | (2) panic | (3) hang
//               Blocks / BlockIndices of the table as positions in the one-worker table
//   2 dataflow  (2 base (layer ...) (pick ...))   table = ((key val) ...) sorted by key
//     obs       (((key sum? off old? oldoff) ...) ...) ((key base? baseoff ((sum? off) ...)) ...)
//   3 regression, child process: failing store + spilled chunks      (3 nrows w chunkrows)   obs (1)
//   4 regression: failing slow store, producer goroutine must end    (4 nblocks w failat)    obs (1)
//   5 merge end to end repeated under different GOMAXPROCS / yields  (5 base (layer ...) reps seed)  obs (0)
//   6 regression: store Get fails from the k-th call during a merge  (6 nrows k)             obs (1)
//   8 diff / merge with REAL progress ticks over a slow store, consumer loops of cmd/wrgl, watchdog on
//     Stop / Error / Close    (8 mode nrows periodUs slowGetUs gapUs reps)  mode 0 diff, 1 merge    obs (0)
//   9 `wrgl commit` body (wrgl.VerifCommit) on an injectable store, progress bars on/off, the k-th block
//     write failing for EVERY k in 0..nblocks, child process    (9 requestedWorkers nblocks bars)   obs (r_0 .. r_n)
//     r_k = 0 committed | 1 error returned | 2 panic | 3 hang
//  10 `wrgl diff NEW.csv OLD.csv -n N` on raw multi-block CSV files through wrgl.RootCmd(), child process,
//     compared with the -n 1 run    (10 nblocks N added removed modified reps)   obs (0 added removed modified)
//   7 as 0, but the CSV has varying-length cells, the key is the SECOND column (1..40 bytes), the
//     workers are released together right after SaveBlock (before indexing), and every block index
//     is recomputed with objects.IndexBlock from the decoded rows and compared

func init() { props["C16"] = &Prop{Gen: genC16, Run: runC16} }

// ---------------------------------------------------------------- store wrapper

var errC16Injected = errors.New("c16: injected store error")

type c16Store struct {
	mu          sync.Mutex
	inner       *objmock.Store
	rng         *rand.Rand
	yieldPct    int
	sleepUs     int
	slowUs      int
	slowGetUs   int
	failKeys    map[string]bool
	failSetFrom int
	failNthBlk  int // >0: the n-th Set of a blk/ key fails (once)
	nblk        int
	failGetFrom int
	record      bool
	sets        []string
	nset, nget  int
	// barrier: Sets of block indices (the last store call before the workers touch the
	// shared fields) return together, [barrier] at a time, to make the workers collide
	barrier   int
	barrierAt string // key prefix of the Sets that rendezvous ("blkidx/" by default)
	bmu       sync.Mutex
	bwaiting  int
	bgate     chan struct{}
}

func c16NewStore(seed int64, yieldPct, sleepUs int) *c16Store {
	return &c16Store{inner: objmock.NewStore(), rng: rand.New(rand.NewSource(seed)), yieldPct: yieldPct,
		sleepUs: sleepUs, failKeys: map[string]bool{}, barrierAt: "blkidx/"}
}

// yield is called outside the lock: a random runtime.Gosched or a short sleep.
func (s *c16Store) yield() {
	if s.yieldPct == 0 {
		return
	}
	s.mu.Lock()
	r := s.rng.Intn(100)
	d := 0
	if r < s.yieldPct && s.sleepUs > 0 && s.rng.Intn(3) == 0 {
		d = 1 + s.rng.Intn(s.sleepUs)
	}
	s.mu.Unlock()
	if r < s.yieldPct {
		if d > 0 {
			time.Sleep(time.Duration(d) * time.Microsecond)
		} else {
			runtime.Gosched()
		}
	}
}

func (s *c16Store) Get(k []byte) ([]byte, error) {
	s.yield()
	if s.slowGetUs > 0 {
		time.Sleep(time.Duration(s.slowGetUs) * time.Microsecond)
	}
	s.mu.Lock()
	defer s.mu.Unlock()
	s.nget++
	if s.failGetFrom > 0 && s.nget >= s.failGetFrom {
		return nil, errC16Injected
	}
	return s.inner.Get(k)
}

func (s *c16Store) Set(k, v []byte) error {
	s.yield()
	if s.slowUs > 0 {
		time.Sleep(time.Duration(s.slowUs) * time.Microsecond)
	}
	err := s.set(k, v)
	if err == nil && s.barrier > 1 && strings.HasPrefix(string(k), s.barrierAt) {
		s.rendezvous()
	}
	return err
}

func (s *c16Store) set(k, v []byte) error {
	s.mu.Lock()
	defer s.mu.Unlock()
	s.nset++
	if s.record {
		s.sets = append(s.sets, string(k))
	}
	if s.failKeys[string(k)] || (s.failSetFrom > 0 && s.nset >= s.failSetFrom) {
		return errC16Injected
	}
	if s.failNthBlk > 0 && strings.HasPrefix(string(k), "blk/") {
		s.nblk++
		if s.nblk == s.failNthBlk {
			return errC16Injected
		}
	}
	return s.inner.Set(k, v)
}

func (s *c16Store) rendezvous() {
	s.bmu.Lock()
	if s.bgate == nil {
		s.bgate = make(chan struct{})
	}
	s.bwaiting++
	if s.bwaiting >= s.barrier {
		close(s.bgate)
		s.bgate, s.bwaiting = nil, 0
		s.bmu.Unlock()
		return
	}
	gate := s.bgate
	s.bmu.Unlock()
	select {
	case <-gate:
	case <-time.After(2 * time.Millisecond):
		s.bmu.Lock()
		if s.bgate == gate { // nobody else is coming: open the gate
			close(gate)
			s.bgate, s.bwaiting = nil, 0
		}
		s.bmu.Unlock()
	}
}

func (s *c16Store) Delete(k []byte) error {
	s.mu.Lock()
	defer s.mu.Unlock()
	return s.inner.Delete(k)
}
func (s *c16Store) Exist(k []byte) bool {
	s.mu.Lock()
	defer s.mu.Unlock()
	return s.inner.Exist(k)
}
func (s *c16Store) Filter(p []byte) (map[string][]byte, error) {
	s.mu.Lock()
	defer s.mu.Unlock()
	return s.inner.Filter(p)
}
func (s *c16Store) FilterKey(p []byte) ([][]byte, error) {
	s.mu.Lock()
	defer s.mu.Unlock()
	return s.inner.FilterKey(p)
}
func (s *c16Store) Clear(p []byte) error {
	s.mu.Lock()
	defer s.mu.Unlock()
	return s.inner.Clear(p)
}
func (s *c16Store) Close() error { return nil }

// ---------------------------------------------------------------- helpers

// c16Guard runs f in its own goroutine with a watchdog.  Returns (finished, panic value).
func c16Guard(d time.Duration, f func()) (bool, interface{}) {
	done := make(chan interface{}, 1)
	go func() {
		defer func() { done <- recover() }()
		f()
	}()
	select {
	case p := <-done:
		return true, p
	case <-time.After(d):
		return false, nil
	}
}

// c16Settled waits until the number of goroutines is back to base.
func c16Settled(base int) (bool, int) {
	n := 0
	for i := 0; i < 200; i++ {
		n = runtime.NumGoroutine()
		if n <= base {
			return true, n
		}
		time.Sleep(5 * time.Millisecond)
	}
	return false, n
}

var c16WarmOnce sync.Once

// the first IngestTable starts the os/signal goroutine, which stays for the life of the process
func c16Warm(tmp string) {
	c16WarmOnce.Do(func() {
		p := filepath.Join(tmp, "c16warm.csv")
		c16WriteCSV(p, 3, 1)
		db := c16NewStore(1, 0, 0)
		c16Ingest(db, p, 1, 0, false, tmp)
		os.Remove(p)
	})
}

// CSV with nrows rows, fixed-width cells (every encoded row has the same size), keys in a
// seed-dependent order; key i (in sorted order) is "%07d" of i.
func c16WriteCSV(path string, nrows int, seed int64) {
	f, err := os.Create(path)
	if err != nil {
		panic(err)
	}
	w := csv.NewWriter(bufio.NewWriterSize(f, 1<<16))
	w.Write([]string{"id", "a", "b"})
	perm := rand.New(rand.NewSource(seed)).Perm(nrows)
	for _, i := range perm {
		w.Write([]string{fmt.Sprintf("%07d", i), fmt.Sprintf("%05d", (i*7)%100000), fmt.Sprintf("%05d", (i*13+5)%100000)})
	}
	w.Flush()
	if err := w.Error(); err != nil {
		panic(err)
	}
	f.Close()
}

// CSV whose key column is NOT the first one and whose cells have varying lengths: columns
// pad (0..30 bytes), k (unique key of 1..40 bytes), v.  A per-worker StrListEditor must find
// the key at a different offset / with a different length in almost every row.
func c16WriteCSVVar(path string, nrows int, seed int64) {
	f, err := os.Create(path)
	if err != nil {
		panic(err)
	}
	w := csv.NewWriter(bufio.NewWriterSize(f, 1<<16))
	w.Write([]string{"pad", "k", "v"})
	r := rand.New(rand.NewSource(seed))
	const letters = "abcdefghijklmnopqrstuvwxyz"
	for _, i := range r.Perm(nrows) {
		// unique: base-36 number, a separator, then 0..n letters (2..40 bytes in all)
		key := strconv.FormatInt(int64(i), 36) + "-"
		for extra := r.Intn(41 - len(key)); extra > 0; extra-- {
			key += string(letters[r.Intn(26)])
		}
		w.Write([]string{strings.Repeat("p", r.Intn(31)), key, strconv.Itoa(i % 7)})
	}
	w.Flush()
	if err := w.Error(); err != nil {
		panic(err)
	}
	f.Close()
}

const c16RowBytes = 4 + (2 + 7) + (2 + 5) + (2 + 5) // encoded size of one row of c16WriteCSV
const c16RowSize = 4 + (7 + 2) + (5 + 2) + (5 + 2)  // what Sorter.AddRow adds to its size counter

// c16Ingest ingests the CSV with w worker goroutines.  chunkRows > 0 makes the sorter spill a
// chunk every chunkRows rows; cut = truncate the first spilled chunk inside a row header
// after SortFile (chunk read error in the producer).
// key column of the CSV being ingested ("id" for c16WriteCSV, "k" for c16WriteCSVVar)
var c16PK = []string{"id"}

func c16Ingest(db objects.Store, path string, w int, chunkRows int, cut bool, tmp string) ([]byte, error) {
	opts := []sorter.SorterOption{}
	if chunkRows > 0 {
		opts = append(opts, sorter.WithRunSize(uint64(chunkRows*c16RowSize)))
	} else {
		opts = append(opts, sorter.WithRunSize(1<<40))
	}
	s, err := sorter.NewSorter(opts...)
	if err != nil {
		panic(err)
	}
	f, err := os.Open(path)
	if err != nil {
		panic(err)
	}
	nw := ingest.WithNumWorkers(w + 2) // ingestTableFromBlocks: numWorkers -= 2
	if !cut {
		return ingest.IngestTable(db, s, f, c16PK, logr.Discard(), nw)
	}
	// same as IngestTable, with the corruption between SortFile and IngestTableFromSorter
	defer s.Close()
	if err := s.SortFile(f, c16PK); err != nil {
		return nil, err
	}
	chunks, _ := filepath.Glob(filepath.Join(tmp, "sorted_chunk_*"))
	if len(chunks) == 0 {
		panic("c16: no spilled chunk to corrupt")
	}
	st, err := os.Stat(chunks[0])
	if err != nil {
		panic(err)
	}
	rows := int(st.Size()) / c16RowBytes
	if err := os.Truncate(chunks[0], int64((rows/2)*c16RowBytes+2)); err != nil {
		panic(err)
	}
	ins := ingest.NewInserter(db, s, logr.Discard(), nw)
	return ins.IngestTableFromSorter(s.Columns, s.PK)
}

func c16LockFlag() int {
	exe, err := os.Executable()
	if err != nil {
		return 1
	}
	b, err := os.ReadFile(filepath.Join(filepath.Dir(exe), "..", "coq", "gen", "Extracted.v"))
	if err != nil {
		return 1
	}
	for _, line := range strings.Split(string(b), "\n") {
		if strings.Contains(line, "Definition pool_accesses") {
			if strings.Contains(line, ":unlocked") {
				return 0
			}
			return 1
		}
	}
	return 1
}

func c16Ints(t *xt.T) []int {
	r := make([]int, len(t.Kids))
	for i, k := range t.Kids {
		r[i] = int(k.N)
	}
	return r
}

func c16Kid(c *xt.T, i int) *xt.T {
	if i < len(c.Kids) {
		return c.Kids[i]
	}
	return xt.L(0)
}

// ---------------------------------------------------------------- kind 0: ingest

// c16Reindex: the sum of the block index recomputed from the decoded rows of block [blk]
func c16Reindex(db objects.Store, blk []byte, pk []uint32) ([]byte, error) {
	rows, _, err := objects.GetBlock(db, nil, blk)
	if err != nil {
		return nil, err
	}
	idx, err := objects.IndexBlock(objects.NewStrListEncoder(true), meow.New(0), rows, pk)
	if err != nil {
		return nil, err
	}
	buf := bytes.NewBuffer(nil)
	if _, err := idx.WriteTo(buf); err != nil {
		return nil, err
	}
	sum := meow.Checksum(0, buf.Bytes())
	return sum[:], nil
}

func c16RunIngest(ctx *Ctx, c *xt.T) (*xt.T, Verdict) {
	vark := c.Kids[0].N == 7 // varying-length keys in the second column, barrier before indexing
	if vark {
		c16PK = []string{"k"}
	} else {
		c16PK = []string{"id"}
	}
	defer func() { c16PK = []string{"id"} }()
	w := int(c16Kid(c, 1).N)
	rows := c16Ints(c16Kid(c, 2))
	failOff, failKind, readErr := int(c16Kid(c, 5).N), int(c16Kid(c, 6).N), int(c16Kid(c, 7).N)
	reps := int(c16Kid(c, 8).N)
	procs := c16Ints(c16Kid(c, 9))
	yieldPct, sleepUs, chunkRows := int(c16Kid(c, 10).N), int(c16Kid(c, 11).N), int(c16Kid(c, 12).N)
	seed := int64(c16Kid(c, 13).N)
	if reps < 1 {
		reps = 1
	}
	if len(procs) == 0 {
		procs = []int{runtime.NumCPU()}
	}
	if w < 1 {
		w = 1
	}
	n := len(rows)
	total := 0
	for j, r := range rows {
		if (j < n-1 && r != 255) || r < 1 || r > 255 {
			return xt.N(xt.L(9)), Fail("bad-case", "block sizes must be 255 ... 255 last(1..255)")
		}
		total += r
	}
	if vark {
		chunkRows, readErr = 0, 0 // row sizes vary: no chunk arithmetic
	}
	if readErr > 0 && chunkRows == 0 {
		chunkRows = 100
	}
	tmp := ctx.Tmp
	old, had := os.LookupEnv("RUNNER_TEMP")
	os.Setenv("RUNNER_TEMP", tmp) // spilled chunks of the sorter go to our private directory
	defer func() {
		if had {
			os.Setenv("RUNNER_TEMP", old)
		} else {
			os.Unsetenv("RUNNER_TEMP")
		}
	}()
	c16Warm(tmp)
	path := filepath.Join(tmp, "c16.csv")
	if vark {
		c16WriteCSVVar(path, total, seed+1)
	} else {
		c16WriteCSV(path, total, seed+1)
	}
	defer os.Remove(path)

	// one-worker reference on a recording store
	ref := c16NewStore(seed, 0, 0)
	ref.record = true
	refSum, err := c16Ingest(ref, path, 1, chunkRows, false, tmp)
	if err != nil {
		return xt.N(xt.L(9)), Fail("reference-error", "one-worker ingest failed: %v", err)
	}
	refT, err := objects.GetTable(ref, refSum)
	if err != nil {
		panic(err)
	}
	if len(refT.Blocks) != n || int(refT.RowsCount) != total {
		return xt.N(xt.L(9)), Fail("reference-shape", "one-worker table has %d blocks / %d rows, expected %d / %d",
			len(refT.Blocks), refT.RowsCount, n, total)
	}
	if vark {
		for j := range refT.Blocks {
			got, err := c16Reindex(ref, refT.Blocks[j], refT.PK)
			if err != nil || !bytes.Equal(got, refT.BlockIndices[j]) {
				return xt.N(xt.L(9)), Fail("reference-index", "one-worker table: block %d re-indexed gives %x, stored index %x (%v)", j, got, refT.BlockIndices[j], err)
			}
		}
	}
	blkPos, idxPos := map[string]int{}, map[string]int{}
	for j := range refT.Blocks {
		blkPos[string(refT.Blocks[j])] = j
		idxPos[string(refT.BlockIndices[j])] = j
	}
	// Set order of the one-worker run: blk/0 blkidx/0 blk/1 blkidx/1 ... tblidx tblsum tbl
	failKey := ""
	if failKind == 1 || failKind == 2 {
		k := 2*failOff + failKind - 1
		want := "blk/"
		if failKind == 2 {
			want = "blkidx/"
		}
		if failOff >= n || k >= len(ref.sets) || !strings.HasPrefix(ref.sets[k], want) {
			return xt.N(xt.L(9)), Fail("bad-case", "cannot locate the store key of block %d (kind %d)", failOff, failKind)
		}
		failKey = ref.sets[k]
	}
	expectErr := failKey != "" || readErr > 0

	defer runtime.GOMAXPROCS(runtime.GOMAXPROCS(0))
	var first *xt.T
	v := OK()
	bad := func(class, format string, a ...interface{}) {
		if v.OK {
			v = Fail(class, format, a...)
		}
	}
	for rep := 0; rep < reps; rep++ {
		runtime.GOMAXPROCS(procs[rep%len(procs)])
		db := c16NewStore(seed+int64(rep)*7919, yieldPct, sleepUs)
		if rep >= 1 && w > 1 && n > 1 {
			db.barrier = w
			if n < w {
				db.barrier = n
			}
		}
		if vark && w > 1 && n > 1 {
			// release the workers together right after SaveBlock, i.e. right before indexing
			db.barrierAt = "blk/"
			db.barrier = w
			if n < w {
				db.barrier = n
			}
		}
		if failKey != "" {
			db.failKeys[failKey] = true
		}
		base := runtime.NumGoroutine()
		var sum []byte
		var ierr error
		finished, pv := c16Guard(60*time.Second, func() {
			sum, ierr = c16Ingest(db, path, w, chunkRows, readErr > 0, tmp)
		})
		var obs *xt.T
		switch {
		case !finished:
			obs = xt.N(xt.L(3))
			bad("hang", "ingest with %d workers, %d blocks did not return within 60s (rep %d, GOMAXPROCS %d)", w, n, rep, procs[rep%len(procs)])
		case pv != nil:
			obs = xt.N(xt.L(2))
			bad("panic", "ingest panicked: %v", pv)
		case ierr != nil:
			obs = xt.N(xt.L(1))
			if !expectErr {
				bad("unexpected-error", "ingest returned %v", ierr)
			}
		default:
			t, err := objects.GetTable(db, sum)
			if err != nil {
				obs = xt.N(xt.L(1))
				bad("table-unreadable", "returned table cannot be read back: %v", err)
				break
			}
			offs, ioffs := make([]int, len(t.Blocks)), make([]int, len(t.BlockIndices))
			for j, b := range t.Blocks {
				p, ok := blkPos[string(b)]
				if !ok {
					p = 999999
				}
				offs[j] = p
			}
			for j, b := range t.BlockIndices {
				p, ok := idxPos[string(b)]
				if !ok {
					p = 999999
				}
				ioffs[j] = p
			}
			same := bytes.Equal(sum, refSum)
			obs = xt.N(xt.L(0), xt.L(uint64(t.RowsCount)), xt.Ints(offs), xt.Ints(ioffs), xt.Bool(same))
			if expectErr {
				bad("error-swallowed", "a store/chunk error was injected but ingest returned a table")
				break
			}
			// oracle: equals the one-worker result
			if vark {
				// every block index must be the index of ITS block (recomputed from the decoded rows)
				wrong := 0
				for j := range t.Blocks {
					if j >= len(t.BlockIndices) {
						break
					}
					got, err := c16Reindex(db, t.Blocks[j], t.PK)
					if err != nil || !bytes.Equal(got, t.BlockIndices[j]) {
						wrong++
					}
				}
				if wrong > 0 {
					bad("block-index-wrong", "%d of %d block indices are not the index of their block (re-indexed with objects.IndexBlock); %d workers, repetition %d", wrong, len(t.Blocks), w, rep)
				}
				ctx.Count("varkey_runs")
			}
			if int(t.RowsCount) != total {
				bad("rowcount-wrong", "RowsCount=%d, %d rows ingested (%d workers, %d blocks)", t.RowsCount, total, w, n)
			}
			if len(offs) != n {
				bad("block-lost-or-duplicated", "%d blocks in the table, %d expected", len(offs), n)
			}
			for j := range offs {
				if offs[j] != j || (j < len(ioffs) && ioffs[j] != j) {
					bad("block-lost-or-duplicated", "table block %d is block %d / index %d of the one-worker table", j, offs[j], ioffs[j])
					break
				}
			}
			if !same {
				bad("table-differs-from-one-worker", "table sum %x, one worker gives %x", sum, refSum)
			}
			for _, b := range t.Blocks {
				if !db.Exist(append([]byte("blk/"), b...)) {
					bad("block-not-stored", "block %x of the table is not in the store", b)
				}
			}
		}
		if finished {
			if ok, now := c16Settled(base); !ok {
				bad("goroutine-leak", "%d goroutines before the ingest, %d still running 1s after it returned", base, now)
			}
		}
		if first == nil {
			first = obs
		} else if first.String() != obs.String() {
			bad("result-varies", "repetition %d (GOMAXPROCS %d) gives %s, repetition 0 gave %s", rep, procs[rep%len(procs)], obs.String(), first.String())
		}
		ctx.Count("ingest_runs")
		if !finished {
			break
		}
	}
	left, _ := filepath.Glob(filepath.Join(tmp, "sorted_chunk_*"))
	for _, p := range left {
		os.Remove(p)
	}
	return first, v
}

// ---------------------------------------------------------------- kind 3: child process

func c16RunChild(ctx *Ctx, c *xt.T) (*xt.T, Verdict) {
	nrows, w, chunkRows := int(c16Kid(c, 1).N), int(c16Kid(c, 2).N), int(c16Kid(c, 3).N)
	if os.Getenv("C16_CHILD") == "1" {
		switch c.Kids[0].N {
		case 7:
			return c16RunIngest(ctx, c)
		case 9:
			return c16CommitChild(ctx, c)
		case 10:
			return c16DiffChild(ctx, c)
		}
	}
	if os.Getenv("C16_CHILD") == "1" {
		// in the child: a crash here is a process death seen by the parent
		tmp := ctx.Tmp
		os.Setenv("RUNNER_TEMP", tmp)
		path := filepath.Join(tmp, "c16child.csv")
		c16WriteCSV(path, nrows, 5)
		for it := 0; it < 25; it++ {
			db := c16NewStore(int64(it), 0, 0)
			db.failSetFrom = 1 + it%3
			_, err := c16Ingest(db, path, w, chunkRows, false, tmp)
			if err == nil {
				return xt.N(xt.L(0)), Fail("error-swallowed", "store Set failed but ingest returned a table (iteration %d)", it)
			}
			time.Sleep(10 * time.Millisecond) // let a surviving producer run into the closed channel
		}
		return xt.N(xt.L(1)), OK()
	}
	exe, err := os.Executable()
	if err != nil {
		panic(err)
	}
	in := filepath.Join(ctx.Tmp, "c16child.in")
	out := filepath.Join(ctx.Tmp, "c16child.out")
	os.WriteFile(in, []byte("C "+c.String()+"\n"), 0600)
	os.Remove(out)
	cmd := exec.Command(exe, "replay", "C16", in, out)
	cmd.Env = append(os.Environ(), "C16_CHILD=1")
	var stderr bytes.Buffer
	cmd.Stderr = &stderr
	cmd.Stdout = &stderr
	done := make(chan error, 1)
	if err := cmd.Start(); err != nil {
		panic(err)
	}
	go func() { done <- cmd.Wait() }()
	select {
	case err = <-done:
	case <-time.After(120 * time.Second):
		cmd.Process.Kill()
		return xt.N(xt.L(3)), Fail("hang", "child process did not finish within 120s")
	}
	if err != nil {
		msg := stderr.String()
		full := msg
		if i := strings.Index(msg, "panic:"); i >= 0 {
			msg = msg[i:]
		}
		if len(msg) > 300 {
			msg = msg[:300]
		}
		if i := strings.Index(full, "fatal error:"); i >= 0 { // unrecoverable runtime errors (not panics)
			msg = full[i:]
			if len(msg) > 300 {
				msg = msg[:300]
			}
		}
		cls := "child-crash"
		if strings.Contains(msg, "send on closed channel") {
			cls = "sorter-errchan-send-on-closed"
		} else if strings.Contains(full, "concurrent map") {
			cls = "concurrent-map-access"
		} else if strings.Contains(full, "insertBlock") {
			cls = "worker-goroutine-panic"
		} else if strings.Contains(full, "exit status 66") || strings.Contains(err.Error(), "exit status 66") {
			cls = "data-race-in-child" // only under the -race harness (GORACE exitcode=66)
		}
		return xt.N(xt.L(2)), Fail(cls, "the command killed the process: %s", strings.ReplaceAll(msg, "\n", " | "))
	}
	b, err := os.ReadFile(out)
	if err != nil {
		return xt.N(xt.L(2)), Fail("child-crash", "no output from the child: %v", err)
	}
	var obs *xt.T
	v := OK()
	for _, line := range strings.Split(string(b), "\n") {
		if strings.HasPrefix(line, "I ") {
			obs, _ = xt.Parse(line[2:])
		}
		if strings.HasPrefix(line, "@ ") {
			parts := strings.SplitN(line[2:], " ", 5)
			if len(parts) >= 4 && parts[2] != "ok" {
				msg := ""
				if len(parts) == 5 {
					msg = parts[4]
				}
				v = Fail(parts[3], "%s", msg)
			}
		}
	}
	if obs == nil {
		return xt.N(xt.L(2)), Fail("child-crash", "child wrote no observation")
	}
	return obs, v
}

// ---------------------------------------------------------------- kind 4: producer leak

func c16RunLeak(ctx *Ctx, c *xt.T) (*xt.T, Verdict) {
	nblocks, w, failAt := int(c16Kid(c, 1).N), int(c16Kid(c, 2).N), int(c16Kid(c, 3).N)
	tmp := ctx.Tmp
	os.Setenv("RUNNER_TEMP", tmp)
	c16Warm(tmp)
	path := filepath.Join(tmp, "c16leak.csv")
	c16WriteCSV(path, nblocks*255, 9)
	defer os.Remove(path)
	db := c16NewStore(3, 0, 0)
	db.slowUs = 2000
	db.failSetFrom = failAt
	base := runtime.NumGoroutine()
	var ierr error
	finished, pv := c16Guard(60*time.Second, func() { _, ierr = c16Ingest(db, path, w, 0, false, tmp) })
	if !finished {
		return xt.N(xt.L(3)), Fail("hang", "ingest did not return within 60s")
	}
	if pv != nil {
		return xt.N(xt.L(2)), Fail("panic", "ingest panicked: %v", pv)
	}
	if ierr == nil {
		return xt.N(xt.L(0)), Fail("error-swallowed", "store Set fails from call %d on but ingest returned a table", failAt)
	}
	if ok, now := c16Settled(base); !ok {
		return xt.N(xt.L(1)), Fail("producer-leak", "%d goroutines before the failed ingest, %d still alive 1s after it returned (sorter producer blocked on its channel)", base, now)
	}
	return xt.N(xt.L(1)), OK()
}

func runC16(ctx *Ctx, c *xt.T) (*xt.T, Verdict) {
	if len(c.Kids) == 0 {
		return xt.N(xt.L(9)), Fail("bad-case", "empty case")
	}
	switch c.Kids[0].N {
	case 0:
		return c16RunIngest(ctx, c)
	case 7: // in a child process: a worker goroutine may panic
		return c16RunChild(ctx, c)
	case 2:
		return c16RunFlow(ctx, c)
	case 3:
		return c16RunChild(ctx, c)
	case 4:
		return c16RunLeak(ctx, c)
	case 5:
		return c16RunMerge(ctx, c)
	case 6:
		return c16RunMergeFail(ctx, c)
	case 8:
		return c16RunProgress(ctx, c)
	case 9, 10: // command level, in a child process (a hang / Go fatal error cannot be abandoned in-process)
		return c16RunChild(ctx, c)
	}
	return xt.N(xt.L(9)), Fail("bad-case", "unknown kind %d", c.Kids[0].N)
}
