package main

import (
	"bytes"
	"context"
	"database/sql"
	"errors"
	"fmt"
	"io"
	"sort"
	"strings"
	"sync"
	"time"

	"github.com/go-logr/logr"
	"github.com/google/uuid"
	_ "github.com/mattn/go-sqlite3"
	"github.com/pckhoi/meow"
	apiutils "github.com/wrgl/wrgl/pkg/api/utils"
	"github.com/wrgl/wrgl/pkg/conf"
	"github.com/wrgl/wrgl/pkg/doctor"
	"github.com/wrgl/wrgl/pkg/encoding/packfile"
	"github.com/wrgl/wrgl/pkg/ingest"
	"github.com/wrgl/wrgl/pkg/objects"
	objmock "github.com/wrgl/wrgl/pkg/objects/mock"
	"github.com/wrgl/wrgl/pkg/prune"
	"github.com/wrgl/wrgl/pkg/ref"
	refsql "github.com/wrgl/wrgl/pkg/ref/sql"
	"github.com/wrgl/wrgl/pkg/slice"
	"github.com/wrgl/wrgl/pkg/sorter"

	"verifharness/xt"
)

// C13: a crash at any point leaves the repository consistent and the op repeatable.
// Model: coq/model/CrashRepo.v + coq/model/Crash.v (run_C13); the exchange format is documented
// at the top of coq/model/Crash.v and repeated here.
//
//   table  = (meta ((blk idx) ...))          abstract table: one (block id, block-index id) per block
//   cid    = (table (parent-cid ...) nonce)  abstract commit; nonce <-> commit time/message
//   shape  = (table (shape ...))
//   pobj   = (0 blk) | (1 table) | (2 cid)
//   op     = (0 r table nonce) commit | (1 r table nonce) commitWithTable | (2 r) DeleteHead
//          | (3 r (cid ...) table nonce) real merge | (4 r cid nonce) merge ff=never | (5 r cid) merge ff
//          | (6 (pobj ...) ((r cid force) ...)) fetch | (7) prune
//   case   = (universe setup op op2 flags)
//     universe = ((table ((K n v) ...) crafted) ...): how the Go side realises each abstract table:
//                rows with keys K..K+n-1 (printed %06d) and value "val<v>", in key order, cut into
//                blocks of 255 by the real ingest; crafted=1: the table object is assembled by the
//                harness from the listed (block, index) ids (used for hostile packfiles). Ignored by
//                the model.
//     setup    = ((op (n)?) ...) run to completion, or cut after n store writes
//     op, op2  = the operation under test and the same operation as re-run (fresh nonce)
//     flags    = (workers cli): workers for ingest (1 = deterministic order), cli=1: also run the
//                history through the real `wrgl` CLI on a badger+sqlite repository (oracle only)
//   write  = (kind id): 0 PutBlock 1 PutBlkIdx 2 PutTblIdx 3 PutProf 4 PutTable 5 PutCommit
//            6 SetRefLog (id = (r cid full)) 7 DelRef 8 DelBlock 9 DelBlkIdx 10 DelTable 11 DelTblIdx
//            12 DelProf 13 DelCommit
//   observation = (status trace verdicts refs counts)
//     status   0 = op returned nil, 1 = op returned an error
//     trace    recorded store writes in order, with maximal runs of {PutBlock,PutBlkIdx}, of
//              {DelTable,DelTblIdx,DelProf}, of DelBlock, of DelBlkIdx, of DelCommit sorted by (id, kind)
//     verdicts (inv rerun fault) per prefix length n = 0..L (see Crash.v)
//     refs     ((r shape) ...) sorted, of the uninterrupted final state
//     counts   (#commits #tables #tblidx #prof #blocks #blkidx) of the uninterrupted final state
//
// The REAL operations run on the recording / fault-injecting stores:
//   commit          wrgl.VerifCommit          = cmd/wrgl commit()           (kind 0; CSV on the command's stdin)
//   commitWithTable wrgl.VerifCommitWithTable = cmd/wrgl commitWithTable()  (kind 1)
//   DeleteHead      ref.DeleteHead                                          (kind 2)
//   merge           wrgl.VerifRunMerge        = cmd/wrgl runMerge()         (kinds 3 default ff, 4 ff=never, 5 ff)
//   fetch           fetch.Fetch against harness/c09_server.go               (kind 8, c13_real.go)
//   prune           prune.Prune                                             (kind 7)
// Only kind 6 re-enacts a sequence: ObjectReceiver.Receive (real) over a packfile whose object ORDER
// the generator chooses (incl. hostile orders no server sends), followed by the ref rule of
// cmd/wrgl/fetch/root.go:221-335 saveFetchedRefs (ref.SaveFetchRef per ref).
// Commits made by the real commit / merge carry time.Now(); the nonce travels in the message "c<nonce>".
// Commits of remote histories are assembled by the harness with time 1700000000+nonce.

func init() { props["C13"] = &Prop{Gen: genC13, Run: runC13} }

var c13Logger = logr.Discard()

const c13Unknown = 999999

// ---------------------------------------------------------------- abstract values

func c13TableKey(t *xt.T) string { return t.String() }

func c13MkTable(meta int, rows [][2]int) *xt.T {
	rs := xt.N()
	for _, r := range rows {
		rs.Add(xt.N(xt.LI(r[0]), xt.LI(r[1])))
	}
	return xt.N(xt.LI(meta), rs)
}

func c13MkCid(tbl *xt.T, parents []*xt.T, nonce int) *xt.T {
	return xt.N(tbl, xt.N(parents...), xt.LI(nonce))
}

func c13Shape(cid *xt.T) *xt.T {
	ps := xt.N()
	for _, p := range cid.Kids[1].Kids {
		ps.Add(c13Shape(p))
	}
	return xt.N(cid.Kids[0], ps)
}

func c13RefName(r int) string {
	switch {
	case r < 10:
		return fmt.Sprintf("heads/b%d", r)
	case r < 20:
		return fmt.Sprintf("remotes/origin/b%d", r-10)
	}
	return fmt.Sprintf("tags/t%d", r-20)
}

func c13RefID(name string) int {
	for r := 0; r < 30; r++ {
		if c13RefName(r) == name {
			return r
		}
	}
	return c13Unknown
}

// ---------------------------------------------------------------- universe: abstract <-> real

type c13Universe struct {
	blockSum   map[int][]byte
	blockID    map[string]int
	blockBytes map[int][]byte // compressed, as stored under blk/
	blockRows  map[int]int
	idxSum     map[int][]byte
	idxID      map[string]int
	tableSum   map[string][]byte // table tree text -> sum
	tableOf    map[string]*xt.T  // sum -> table tree
	tableBytes map[string][]byte // sum -> tbl/ value
	csv        map[string][]byte // table tree text -> CSV
	cidSum     map[string][]byte // cid tree text -> sum
	cidOf      map[string]*xt.T  // sum -> cid tree
	comBytes   map[string][]byte // sum -> com/ value
}

func c13CSV(runs *xt.T) []byte {
	var sb strings.Builder
	sb.WriteString("id,v\n")
	for _, r := range runs.Kids {
		k, n, v := int(r.Kids[0].N), int(r.Kids[1].N), int(r.Kids[2].N)
		for i := 0; i < n; i++ {
			fmt.Fprintf(&sb, "%06d,val%d\n", k+i, v)
		}
	}
	return []byte(sb.String())
}

func c13Ingest(db objects.Store, csv []byte, workers int) ([]byte, error) {
	s, err := sorter.NewSorter()
	if err != nil {
		return nil, err
	}
	return ingest.IngestTable(db, s, io.NopCloser(bytes.NewReader(csv)), []string{"id"}, c13Logger, ingest.WithNumWorkers(workers))
}

func c13NewUniverse(spec *xt.T) *c13Universe {
	u := &c13Universe{
		blockSum: map[int][]byte{}, blockID: map[string]int{}, blockBytes: map[int][]byte{}, blockRows: map[int]int{},
		idxSum: map[int][]byte{}, idxID: map[string]int{},
		tableSum: map[string][]byte{}, tableOf: map[string]*xt.T{}, tableBytes: map[string][]byte{}, csv: map[string][]byte{},
		cidSum: map[string][]byte{}, cidOf: map[string]*xt.T{}, comBytes: map[string][]byte{},
	}
	// tables realised through the real ingest
	for _, ts := range spec.Kids {
		if ts.Kids[2].N != 0 {
			continue
		}
		tbl := ts.Kids[0]
		csv := c13CSV(ts.Kids[1])
		scratch := objmock.NewStore()
		sum, err := c13Ingest(scratch, csv, 1)
		if err != nil {
			panic(fmt.Sprintf("c13 universe: ingest: %v", err))
		}
		rt, err := objects.GetTable(scratch, sum)
		if err != nil {
			panic(err)
		}
		rows := tbl.Kids[1].Kids
		if len(rt.Blocks) != len(rows) {
			panic(fmt.Sprintf("c13 universe: table %s realised with %d blocks", tbl, len(rt.Blocks)))
		}
		total := 0
		for _, r := range ts.Kids[1].Kids {
			total += int(r.Kids[1].N)
		}
		for i, row := range rows {
			b, ix := int(row.Kids[0].N), int(row.Kids[1].N)
			if old, ok := u.blockSum[b]; ok && !bytes.Equal(old, rt.Blocks[i]) {
				panic(fmt.Sprintf("c13 universe: block id %d has two contents", b))
			}
			if old, ok := u.blockID[string(rt.Blocks[i])]; ok && old != b {
				panic(fmt.Sprintf("c13 universe: block ids %d and %d have the same content", old, b))
			}
			if old, ok := u.idxSum[ix]; ok && !bytes.Equal(old, rt.BlockIndices[i]) {
				panic(fmt.Sprintf("c13 universe: index id %d has two contents", ix))
			}
			u.blockSum[b] = rt.Blocks[i]
			u.blockID[string(rt.Blocks[i])] = b
			u.idxSum[ix] = rt.BlockIndices[i]
			u.idxID[string(rt.BlockIndices[i])] = ix
			bb, err := objects.GetBlockBytes(scratch, rt.Blocks[i])
			if err != nil {
				panic(err)
			}
			u.blockBytes[b] = bb
			n := total - 255*i
			if n > 255 {
				n = 255
			}
			u.blockRows[b] = n
		}
		tb, err := scratch.Get(append([]byte("tbl/"), sum...))
		if err != nil {
			panic(err)
		}
		u.regTable(tbl, sum, tb)
		u.csv[c13TableKey(tbl)] = csv
	}
	// crafted tables: assembled from known block / index ids
	for _, ts := range spec.Kids {
		if ts.Kids[2].N == 0 {
			continue
		}
		tbl := ts.Kids[0]
		rt := &objects.Table{Columns: []string{"id", "v"}, PK: []uint32{0}}
		for _, row := range tbl.Kids[1].Kids {
			b, ix := int(row.Kids[0].N), int(row.Kids[1].N)
			if u.blockSum[b] == nil || u.idxSum[ix] == nil {
				panic("c13 universe: crafted table over unknown ids")
			}
			rt.Blocks = append(rt.Blocks, u.blockSum[b])
			rt.BlockIndices = append(rt.BlockIndices, u.idxSum[ix])
			rt.RowsCount += uint32(u.blockRows[b])
		}
		buf := bytes.NewBuffer(nil)
		if _, err := rt.WriteTo(buf); err != nil {
			panic(err)
		}
		arr := meow.Checksum(0, buf.Bytes())
		u.regTable(tbl, arr[:], buf.Bytes())
	}
	return u
}

func (u *c13Universe) regTable(tbl *xt.T, sum, b []byte) {
	if old, ok := u.tableOf[string(sum)]; ok && old.String() != tbl.String() {
		panic(fmt.Sprintf("c13 universe: tables %s and %s have the same content", old, tbl))
	}
	u.tableSum[c13TableKey(tbl)] = append([]byte{}, sum...)
	u.tableOf[string(sum)] = tbl
	u.tableBytes[string(sum)] = append([]byte{}, b...)
}

func c13CommitObj(table []byte, parents [][]byte, nonce int) *objects.Commit {
	return &objects.Commit{
		Table:       table,
		Parents:     parents,
		Message:     fmt.Sprintf("c%d", nonce),
		Time:        time.Unix(1700000000+int64(nonce), 0).UTC(),
		AuthorName:  "V",
		AuthorEmail: "v@x.y",
	}
}

// sumOfCid returns the real sum of an abstract commit, constructing the commit object if no real
// operation has produced it yet.
func (u *c13Universe) sumOfCid(cid *xt.T) []byte {
	if s, ok := u.cidSum[cid.String()]; ok {
		return s
	}
	ts := u.tableSum[c13TableKey(cid.Kids[0])]
	if ts == nil {
		panic(fmt.Sprintf("c13: commit over a table outside the universe: %s", cid.Kids[0]))
	}
	var ps [][]byte
	for _, p := range cid.Kids[1].Kids {
		ps = append(ps, u.sumOfCid(p))
	}
	com := c13CommitObj(ts, ps, int(cid.Kids[2].N))
	buf := bytes.NewBuffer(nil)
	if _, err := com.WriteTo(buf); err != nil {
		panic(err)
	}
	arr := meow.Checksum(0, buf.Bytes())
	u.regCommit(cid, arr[:], buf.Bytes())
	return u.cidSum[cid.String()]
}

func (u *c13Universe) regCommit(cid *xt.T, sum, b []byte) {
	u.cidSum[cid.String()] = append([]byte{}, sum...)
	u.cidOf[string(sum)] = cid
	u.comBytes[string(sum)] = append([]byte{}, b...)
}

// absCommit maps a stored commit object to its abstract id (registering it on first sight)
func (u *c13Universe) absCommit(sum, val []byte) *xt.T {
	if c, ok := u.cidOf[string(sum)]; ok {
		return c
	}
	if val == nil {
		return xt.LI(c13Unknown)
	}
	_, com, err := objects.ReadCommitFrom(bytes.NewReader(val))
	if err != nil {
		return xt.LI(c13Unknown)
	}
	tbl, ok := u.tableOf[string(com.Table)]
	if !ok {
		tbl = xt.LI(c13Unknown)
	}
	var ps []*xt.T
	for _, p := range com.Parents {
		ps = append(ps, u.absCommit(p, nil))
	}
	nonce := c13Unknown
	fmt.Sscanf(com.Message, "c%d", &nonce)
	cid := c13MkCid(tbl, ps, nonce)
	u.regCommit(cid, sum, val)
	return cid
}

func (u *c13Universe) absTable(sum, val []byte) *xt.T {
	if t, ok := u.tableOf[string(sum)]; ok {
		return t
	}
	if val == nil {
		return xt.LI(c13Unknown)
	}
	_, rt, err := objects.ReadTableFrom(bytes.NewReader(val))
	if err != nil {
		return xt.LI(c13Unknown)
	}
	var rows [][2]int
	for i := range rt.Blocks {
		b, ok := u.blockID[string(rt.Blocks[i])]
		if !ok {
			b = c13Unknown
		}
		ix := c13Unknown
		if i < len(rt.BlockIndices) {
			if v, ok := u.idxID[string(rt.BlockIndices[i])]; ok {
				ix = v
			}
		}
		rows = append(rows, [2]int{b, ix})
	}
	t := c13MkTable(0, rows)
	if _, dup := u.tableSum[c13TableKey(t)]; !dup {
		u.regTable(t, sum, val)
	}
	return t
}

// ---------------------------------------------------------------- recording stores

type c13Write struct {
	ref bool
	del bool
	key string
	val []byte
	log *ref.Reflog
}

var errC13Injected = errors.New("c13: injected write failure")

type c13Rec struct {
	mu     sync.Mutex
	ws     []c13Write
	n      int
	failAt int // -1: none; else the failAt-th mutating call fails (and is not applied)
	// failFrom > 0 or from0: that call and every later one fail (the process lost its stores: a crash)
	failFrom int
	from0    bool
	off      bool // healed: nothing fails, nothing is recorded
}

// next returns true when the write may proceed
func (r *c13Rec) next(w c13Write) bool {
	if r == nil {
		return true
	}
	r.mu.Lock()
	defer r.mu.Unlock()
	if r.off {
		return true
	}
	i := r.n
	r.n++
	if r.failAt >= 0 && i == r.failAt {
		return false
	}
	if (r.from0 || r.failFrom > 0) && i >= r.failFrom {
		return false
	}
	r.ws = append(r.ws, w)
	return true
}

type c13ObjStore struct {
	mu  sync.Mutex
	m   *objmock.Store
	rec *c13Rec
}

func (s *c13ObjStore) Get(k []byte) ([]byte, error) {
	s.mu.Lock()
	defer s.mu.Unlock()
	return s.m.Get(k)
}
func (s *c13ObjStore) Set(k, v []byte) error {
	if !s.rec.next(c13Write{key: string(k), val: append([]byte{}, v...)}) {
		return errC13Injected
	}
	s.mu.Lock()
	defer s.mu.Unlock()
	return s.m.Set(k, v)
}
func (s *c13ObjStore) Delete(k []byte) error {
	if !s.rec.next(c13Write{del: true, key: string(k)}) {
		return errC13Injected
	}
	s.mu.Lock()
	defer s.mu.Unlock()
	return s.m.Delete(k)
}
func (s *c13ObjStore) Exist(k []byte) bool {
	s.mu.Lock()
	defer s.mu.Unlock()
	return s.m.Exist(k)
}
func (s *c13ObjStore) Filter(p []byte) (map[string][]byte, error) {
	s.mu.Lock()
	defer s.mu.Unlock()
	return s.m.Filter(p)
}
func (s *c13ObjStore) FilterKey(p []byte) ([][]byte, error) {
	s.mu.Lock()
	defer s.mu.Unlock()
	return s.m.FilterKey(p)
}
func (s *c13ObjStore) Clear(p []byte) error { panic("c13: unexpected objects.Store.Clear") }
func (s *c13ObjStore) Close() error         { return nil }

type c13RefStore struct {
	s   ref.Store
	rec *c13Rec
}

func (w *c13RefStore) SetWithLog(key string, val []byte, log *ref.Reflog) error {
	lg := *log
	if !w.rec.next(c13Write{ref: true, key: key, val: append([]byte{}, val...), log: &lg}) {
		return errC13Injected
	}
	return w.s.SetWithLog(key, val, log)
}
func (w *c13RefStore) Set(key string, val []byte) error {
	if !w.rec.next(c13Write{ref: true, key: key, val: append([]byte{}, val...)}) {
		return errC13Injected
	}
	return w.s.Set(key, val)
}
func (w *c13RefStore) Delete(key string) error {
	if !w.rec.next(c13Write{ref: true, del: true, key: key}) {
		return errC13Injected
	}
	return w.s.Delete(key)
}
func (w *c13RefStore) Get(key string) ([]byte, error) { return w.s.Get(key) }
func (w *c13RefStore) Filter(p, np []string) (map[string][]byte, error) {
	return w.s.Filter(p, np)
}
func (w *c13RefStore) FilterKey(p, np []string) ([]string, error) { return w.s.FilterKey(p, np) }
func (w *c13RefStore) Rename(o, n string) error                   { panic("c13: unexpected ref.Store.Rename") }
func (w *c13RefStore) Copy(s, d string) error                     { panic("c13: unexpected ref.Store.Copy") }
func (w *c13RefStore) LogReader(key string) (ref.ReflogReader, error) {
	return w.s.LogReader(key)
}
func (w *c13RefStore) NewTransaction(tx *ref.Transaction) (*uuid.UUID, error) {
	panic("c13: unexpected transaction call")
}
func (w *c13RefStore) GetTransaction(id uuid.UUID) (*ref.Transaction, error) {
	return w.s.GetTransaction(id)
}
func (w *c13RefStore) UpdateTransaction(tx *ref.Transaction) error {
	panic("c13: unexpected transaction call")
}
func (w *c13RefStore) DeleteTransaction(id uuid.UUID) error {
	panic("c13: unexpected transaction call")
}
func (w *c13RefStore) GCTransactions(ttl time.Duration) ([]uuid.UUID, error) {
	panic("c13: unexpected transaction call")
}
func (w *c13RefStore) GetTransactionLogs(txid uuid.UUID) (map[string]*ref.Reflog, error) {
	return w.s.GetTransactionLogs(txid)
}
func (w *c13RefStore) ListTransactions(off, lim int) ([]*ref.Transaction, error) {
	return w.s.ListTransactions(off, lim)
}

type c13Stores struct {
	db  *c13ObjStore
	rs  *c13RefStore
	sql *sql.DB
	rec *c13Rec
}

func c13NewStores(rec *c13Rec) *c13Stores {
	sdb, err := sql.Open("sqlite3", ":memory:")
	if err != nil {
		panic(err)
	}
	sdb.SetMaxOpenConns(1)
	for _, stmt := range refsql.CreateTableStmts {
		if _, err := sdb.Exec(stmt); err != nil {
			panic(err)
		}
	}
	return &c13Stores{
		db:  &c13ObjStore{m: objmock.NewStore(), rec: rec},
		rs:  &c13RefStore{s: refsql.NewStore(sdb), rec: rec},
		sql: sdb,
		rec: rec,
	}
}

func (st *c13Stores) close() { st.sql.Close() }

// replay applies recorded writes to the inner stores (values copied)
func (st *c13Stores) replay(ws []c13Write) {
	for _, w := range ws {
		var err error
		switch {
		case !w.ref && !w.del:
			err = st.db.m.Set([]byte(w.key), append([]byte{}, w.val...))
		case !w.ref && w.del:
			err = st.db.m.Delete([]byte(w.key))
		case w.ref && w.del:
			err = st.rs.s.Delete(w.key)
		case w.log != nil:
			lg := *w.log
			err = st.rs.s.SetWithLog(w.key, append([]byte{}, w.val...), &lg)
		default:
			err = st.rs.s.Set(w.key, append([]byte{}, w.val...))
		}
		if err != nil {
			panic(fmt.Sprintf("c13 replay: %v", err))
		}
	}
}

// dump: a canonical text of the whole state (keys, values, refs). Commits made by the real
// `commit` / `merge` carry time.Now(): they are identified by (table, parents, message nonce).
func (st *c13Stores) dump(u *c13Universe) string {
	m, _ := st.db.m.Filter(nil)
	var lines []string
	for k, v := range m {
		if strings.HasPrefix(k, "com/") {
			lines = append(lines, "com:"+u.absCommit([]byte(k[4:]), v).String())
			continue
		}
		arr := meow.Checksum(0, v)
		lines = append(lines, fmt.Sprintf("%x=%x", k, arr[:]))
	}
	refs, _ := st.rs.s.Filter(nil, nil)
	for k, v := range refs {
		lines = append(lines, fmt.Sprintf("%s=%s", k, u.absCommit(v, nil)))
	}
	sort.Strings(lines)
	return strings.Join(lines, "\n")
}

// ---------------------------------------------------------------- the operations (library layer)

type c13Env struct {
	u       *c13Universe
	workers int
}

var errC13Conflict = errors.New("c13: merge has conflicts (generator bug)")

func (e *c13Env) packfile(objs *xt.T) ([]byte, error) {
	buf := bytes.NewBuffer(nil)
	pw, err := packfile.NewPackfileWriter(buf)
	if err != nil {
		return nil, err
	}
	for _, o := range objs.Kids {
		var typ int
		var b []byte
		switch o.Kids[0].N {
		case 0:
			typ, b = packfile.ObjectBlock, e.u.blockBytes[int(o.Kids[1].N)]
		case 1:
			typ = packfile.ObjectTable
			if s := e.u.tableSum[c13TableKey(o.Kids[1])]; s != nil {
				b = e.u.tableBytes[string(s)]
			}
		default:
			typ = packfile.ObjectCommit
			b = e.u.comBytes[string(e.u.sumOfCid(o.Kids[1]))]
		}
		if b == nil {
			return nil, fmt.Errorf("c13: packfile object outside the universe: %s", o)
		}
		if _, err := pw.WriteObject(typ, b); err != nil {
			return nil, err
		}
	}
	return buf.Bytes(), nil
}

// fetch: what fetch.Fetch does with the objects of the upload-pack session (fetchObjects) and then
// saveFetchedRefs, for non-tag destinations
func (e *c13Env) fetch(st *c13Stores, objs, upd *xt.T) error {
	type refUpd struct {
		dst   string
		sum   []byte
		force bool
	}
	var ups []refUpd
	var wants [][]byte
	for _, x := range upd.Kids {
		s := e.u.sumOfCid(x.Kids[1])
		ups = append(ups, refUpd{c13RefName(int(x.Kids[0].N)), s, x.Kids[2].N != 0})
		if !objects.CommitExist(st.db, s) { // NewUploadPackSession
			wants = append(wants, s)
		}
	}
	if len(wants) > 0 { // otherwise "nothing wanted": no transfer
		pf, err := e.packfile(objs)
		if err != nil {
			return err
		}
		receiver := apiutils.NewObjectReceiver(st.db, wants, c13Logger)
		pr, err := packfile.NewPackfileReader(io.NopCloser(bytes.NewReader(pf)))
		if err != nil {
			return err
		}
		done, err := receiver.Receive(pr, nil)
		if err != nil {
			return fmt.Errorf("error receiving objects: %w", err)
		}
		if !done {
			return fmt.Errorf("c13: transfer ended before every wanted commit was received")
		}
	}
	// saveFetchedRefs
	someFailed := false
	for _, r := range ups {
		oldSum, _ := ref.GetRef(st.rs, r.dst)
		if bytes.Equal(oldSum, r.sum) {
			continue
		}
		if oldSum == nil {
			if err := ref.SaveFetchRef(st.rs, r.dst, r.sum, "V", "v@x.y", "origin", "storing head"); err != nil {
				return err // the CLI only reports it; a failed ref write here is an injected error
			}
			continue
		}
		fastForward, err := ref.IsAncestorOf(st.db, oldSum, r.sum)
		if err != nil {
			return err
		}
		if fastForward {
			if err := ref.SaveFetchRef(st.rs, r.dst, r.sum, "V", "v@x.y", "origin", "fast-forward"); err != nil {
				return err
			}
		} else if r.force {
			if err := ref.SaveFetchRef(st.rs, r.dst, r.sum, "V", "v@x.y", "origin", "forced-update"); err != nil {
				return err
			}
		} else {
			someFailed = true
		}
	}
	if someFailed {
		return fmt.Errorf("failed to fetch some refs")
	}
	return nil
}

func (e *c13Env) runOp(st *c13Stores, op *xt.T) (err error) {
	switch op.Kids[0].N {
	case 0:
		return e.realCommit(st, int(op.Kids[1].N), op.Kids[2], int(op.Kids[3].N))
	case 1:
		return e.realCommitWithTable(st, int(op.Kids[1].N), op.Kids[2], int(op.Kids[3].N))
	case 2:
		return ref.DeleteHead(st.rs, fmt.Sprintf("b%d", op.Kids[1].N))
	case 3:
		var others [][]byte
		for _, c := range op.Kids[2].Kids {
			others = append(others, e.u.sumOfCid(c))
		}
		return e.realMerge(st, int(op.Kids[1].N), others, int(op.Kids[4].N), conf.FF_Default)
	case 4:
		return e.realMerge(st, int(op.Kids[1].N), [][]byte{e.u.sumOfCid(op.Kids[2])}, int(op.Kids[3].N), conf.FF_Never)
	case 5:
		return e.realMerge(st, int(op.Kids[1].N), [][]byte{e.u.sumOfCid(op.Kids[2])}, 0, conf.FF_Default)
	case 6:
		return e.fetch(st, op.Kids[1], op.Kids[2])
	case 8:
		return e.realFetch(st, op.Kids[2])
	default:
		return prune.Prune(st.db, st.rs, nil)
	}
}

// ---------------------------------------------------------------- trace decoding and canonical form

func (e *c13Env) absWrite(w c13Write) *xt.T {
	u := e.u
	if w.ref {
		if w.del {
			return xt.N(xt.LI(7), xt.LI(c13RefID(w.key)))
		}
		full := 0
		if w.log != nil && (w.log.Action == "commit" || w.log.Action == "merge") {
			full = 1
		}
		return xt.N(xt.LI(6), xt.N(xt.LI(c13RefID(w.key)), u.absCommit(w.val, nil), xt.LI(full)))
	}
	cut := func(p string) ([]byte, bool) {
		if strings.HasPrefix(w.key, p) {
			return []byte(w.key[len(p):]), true
		}
		return nil, false
	}
	id := func(m map[string]int, sum []byte) *xt.T {
		if v, ok := m[string(sum)]; ok {
			return xt.LI(v)
		}
		return xt.LI(c13Unknown)
	}
	kind := func(put, del int) *xt.T {
		if w.del {
			return xt.LI(del)
		}
		return xt.LI(put)
	}
	if s, ok := cut("blkidx/"); ok {
		return xt.N(kind(1, 9), id(u.idxID, s))
	}
	if s, ok := cut("blk/"); ok {
		return xt.N(kind(0, 8), id(u.blockID, s))
	}
	if s, ok := cut("tblidx/"); ok {
		return xt.N(kind(2, 11), u.absTable(s, nil))
	}
	if s, ok := cut("tblsum/"); ok {
		return xt.N(kind(3, 12), u.absTable(s, nil))
	}
	if s, ok := cut("tbl/"); ok {
		return xt.N(kind(4, 10), u.absTable(s, w.val))
	}
	if s, ok := cut("com/"); ok {
		return xt.N(kind(5, 13), u.absCommit(s, w.val))
	}
	return xt.N(xt.LI(c13Unknown), xt.Str(w.key))
}

func c13TreeCmp(a, b *xt.T) int {
	switch {
	case a.IsLeaf && b.IsLeaf:
		switch {
		case a.N < b.N:
			return -1
		case a.N > b.N:
			return 1
		}
		return 0
	case a.IsLeaf:
		return -1
	case b.IsLeaf:
		return 1
	}
	for i := 0; i < len(a.Kids) && i < len(b.Kids); i++ {
		if c := c13TreeCmp(a.Kids[i], b.Kids[i]); c != 0 {
			return c
		}
	}
	switch {
	case len(a.Kids) < len(b.Kids):
		return -1
	case len(a.Kids) > len(b.Kids):
		return 1
	}
	return 0
}

func c13KindGroup(k uint64) int {
	switch k {
	case 0, 1:
		return 1
	case 10, 11, 12:
		return 2
	case 8:
		return 3
	case 9:
		return 4
	case 13:
		return 5
	}
	return 0
}

func c13Canon(ws []*xt.T) *xt.T {
	out := xt.N()
	var run []*xt.T
	g := 0
	flush := func() {
		sort.SliceStable(run, func(i, j int) bool {
			ki := xt.N(run[i].Kids[1], run[i].Kids[0])
			kj := xt.N(run[j].Kids[1], run[j].Kids[0])
			return c13TreeCmp(ki, kj) < 0
		})
		out.Add(run...)
		run = nil
	}
	for _, w := range ws {
		gw := c13KindGroup(w.Kids[0].N)
		switch {
		case gw == 0:
			flush()
			out.Add(w)
			g = 0
		case gw == g:
			run = append(run, w)
		default:
			flush()
			g = gw
			run = []*xt.T{w}
		}
	}
	flush()
	return out
}

// ---------------------------------------------------------------- judging a state with the repository's own readers

type c13Judgement struct {
	inv   bool
	class string
	msg   string
}

func (e *c13Env) judge(st *c13Stores, doctorToo bool) c13Judgement {
	return c13JudgeDB(st.db, st.rs, doctorToo)
}

// c13JudgeDB: the four invariants of C13 read off a repository with its own readers
func c13JudgeDB(db objects.Store, rs ref.Store, doctorToo bool) c13Judgement {
	bad := func(class, f string, a ...interface{}) c13Judgement {
		return c13Judgement{false, class, fmt.Sprintf(f, a...)}
	}
	refs, err := ref.ListAllRefs(rs)
	if err != nil {
		return bad("harness-setup", "ListAllRefs: %v", err)
	}
	names := make([]string, 0, len(refs))
	for k := range refs {
		names = append(names, k)
	}
	sort.Strings(names)
	// RefsResolve
	for _, name := range names {
		if _, err := objects.GetCommit(db, refs[name]); err != nil {
			return bad("crash-ref-unresolved", "ref %s -> %x: %v", name, refs[name], err)
		}
	}
	// Closed
	coms, err := objects.GetAllCommitKeys(db)
	if err != nil {
		return bad("harness-setup", "%v", err)
	}
	for _, c := range coms {
		com, err := objects.GetCommit(db, c)
		if err != nil {
			return bad("crash-commit-unreadable", "commit %x: %v", c, err)
		}
		for _, p := range com.Parents {
			if !objects.CommitExist(db, p) {
				return bad("crash-dangling-parent", "stored commit %x names parent %x which is not stored", c, p)
			}
		}
	}
	// TableUsable: every table that TableExist reports
	tbls, err := objects.GetAllTableKeys(db)
	if err != nil {
		return bad("harness-setup", "%v", err)
	}
	var bb []byte
	for _, ts := range tbls {
		tbl, err := objects.GetTable(db, ts)
		if err != nil {
			return bad("crash-table-unreadable", "table %x: %v", ts, err)
		}
		if len(tbl.BlockIndices) != len(tbl.Blocks) {
			return bad("crash-table-unusable", "table %x: %d blocks, %d block indices", ts, len(tbl.Blocks), len(tbl.BlockIndices))
		}
		tidx, err := objects.GetTableIndex(db, ts)
		if err != nil {
			return bad("crash-table-without-index", "table %x is present (TableExist) but its table index is not readable: %v", ts, err)
		}
		if len(tidx) != len(tbl.Blocks) {
			return bad("crash-table-index-mismatch", "table %x: index has %d rows for %d blocks", ts, len(tidx), len(tbl.Blocks))
		}
		enc := objects.NewStrListEncoder(true)
		hash := meow.New(0)
		for i, bs := range tbl.Blocks {
			var blk [][]string
			blk, bb, err = objects.GetBlock(db, bb, bs)
			if err != nil {
				return bad("crash-table-without-block", "table %x is present but block %d (%x) is not readable: %v", ts, i, bs, err)
			}
			var bidx *objects.BlockIndex
			bidx, bb, err = objects.GetBlockIndex(db, bb, tbl.BlockIndices[i])
			if err != nil {
				return bad("crash-table-without-block-index", "table %x is present but block index %d (%x) is not readable: %v", ts, i, tbl.BlockIndices[i], err)
			}
			// IndexTable-style re-indexing must reproduce the stored index
			idx, err := objects.IndexBlock(enc, hash, blk, tbl.PK)
			if err != nil {
				return bad("crash-table-unusable", "IndexBlock: %v", err)
			}
			b1, b2 := bytes.NewBuffer(nil), bytes.NewBuffer(nil)
			idx.WriteTo(b1)
			bidx.WriteTo(b2)
			if !bytes.Equal(b1.Bytes(), b2.Bytes()) {
				return bad("crash-block-index-mismatch", "table %x block %d: stored block index differs from re-indexing", ts, i)
			}
			if len(blk) == 0 || strings.Join(slice.IndicesToValues(blk[0], tbl.PK), "\x00") != strings.Join(tidx[i], "\x00") {
				return bad("crash-table-index-mismatch", "table %x: table index row %d is not the key of the block's first row", ts, i)
			}
		}
	}
	// HeadsFull
	for _, name := range names {
		if !strings.HasPrefix(name, "heads/") {
			continue
		}
		com, _ := objects.GetCommit(db, refs[name])
		if !objects.TableExist(db, com.Table) {
			return bad("crash-head-without-table", "branch %s points at commit %x whose table %x is absent", name, refs[name], com.Table)
		}
	}
	if doctorToo {
		d := doctor.NewDoctor(db, rs, conf.User{Name: "V", Email: "v@x.y"}, c13Logger)
		ctx, cancel := context.WithCancel(context.Background())
		defer cancel()
		ch, errCh, err := d.Diagnose(ctx, []string{"heads/"}, nil, nil)
		if err != nil {
			return bad("crash-doctor", "doctor: %v", err)
		}
		for ri := range ch {
			if len(ri.Issues) > 0 {
				return bad("crash-doctor", "doctor reports %d issue(s) under %s: %s", len(ri.Issues), ri.Ref, ri.Issues[0].Err)
			}
		}
		if err, ok := <-errCh; ok && err != nil {
			return bad("crash-doctor", "doctor: %v", err)
		}
	}
	return c13Judgement{inv: true}
}

func (e *c13Env) shapeOf(db objects.Store, sum []byte, depth int) *xt.T {
	if depth > 64 {
		return xt.LI(c13Unknown)
	}
	com, err := objects.GetCommit(db, sum)
	if err != nil {
		return xt.LI(c13Unknown)
	}
	tbl, ok := e.u.tableOf[string(com.Table)]
	if !ok {
		tbl = xt.LI(c13Unknown)
	}
	ps := xt.N()
	for _, p := range com.Parents {
		ps.Add(e.shapeOf(db, p, depth+1))
	}
	return xt.N(tbl, ps)
}

// observables: ref -> history shape, sorted
func (e *c13Env) obs(st *c13Stores) *xt.T {
	refs, err := ref.ListAllRefs(st.rs)
	if err != nil {
		panic(err)
	}
	var l []*xt.T
	for name, sum := range refs {
		l = append(l, xt.N(xt.LI(c13RefID(name)), e.shapeOf(st.db, sum, 0)))
	}
	sort.SliceStable(l, func(i, j int) bool { return c13TreeCmp(l[i], l[j]) < 0 })
	return xt.N(l...)
}

func (e *c13Env) counts(st *c13Stores) *xt.T {
	n := func(p string) *xt.T {
		k, _ := st.db.m.FilterKey([]byte(p))
		return xt.LI(len(k))
	}
	return xt.N(n("com/"), n("tbl/"), n("tblidx/"), n("tblsum/"), n("blk/"), n("blkidx/"))
}

// ---------------------------------------------------------------- Run

func runC13(ctx *Ctx, c *xt.T) (*xt.T, Verdict) {
	u := c13NewUniverse(c.Kids[0])
	workers, cli := 1, false
	if len(c.Kids) > 4 {
		workers = int(c.Kids[4].Kids[0].N)
		cli = c.Kids[4].Kids[1].N != 0
	}
	env := &c13Env{u: u, workers: workers}
	if c.Kids[2].Kids[0].N == 9 {
		return runC13Pull(ctx, env, c)
	}
	var base []c13Write
	fresh := func(extra []c13Write, rec *c13Rec) *c13Stores {
		st := c13NewStores(rec)
		st.replay(base)
		st.replay(extra)
		return st
	}
	v := OK()
	fail := func(class, f string, a ...interface{}) {
		if v.OK {
			v = Fail(class, f, a...)
		}
	}
	// setup: each step on fresh recording stores; a crashed step keeps its first n writes
	env.workers = 1
	for _, step := range c.Kids[1].Kids {
		rec := &c13Rec{failAt: -1}
		st := fresh(nil, rec)
		env.runOp(st, step.Kids[0])
		st.close()
		ws := rec.ws
		if len(step.Kids[1].Kids) == 1 {
			if n := int(step.Kids[1].Kids[0].N); n < len(ws) {
				ws = ws[:n]
			}
		}
		// register the objects of the whole step (also of the cut part) so that ids are known
		for _, w := range rec.ws {
			env.absWrite(w)
		}
		base = append(base, ws...)
	}
	env.workers = workers
	op, op2 := c.Kids[2], c.Kids[3]
	kind := op.Kids[0].N

	// the uninterrupted run
	rec := &c13Rec{failAt: -1}
	st := fresh(nil, rec)
	j0 := env.judge(st, true)
	doctorToo := j0.inv
	if !j0.inv && j0.class != "crash-doctor" {
		st.close()
		return xt.N(xt.LI(9)), Fail("harness-setup", "initial state not consistent: %s", j0.msg)
	}
	err1 := env.runOp(st, op)
	ws := rec.ws
	var trace []*xt.T
	for _, w := range ws {
		trace = append(trace, env.absWrite(w))
	}
	obs1 := env.obs(st)
	counts1 := env.counts(st)
	jf := env.judge(st, doctorToo)
	if !jf.inv {
		fail(jf.class, "after the uninterrupted run: %s", jf.msg)
		if jf.class == "crash-doctor" {
			doctorToo = false
		}
	}
	st.close()
	status := 0
	if err1 != nil {
		status = 1
		if errors.Is(err1, errC13Conflict) {
			return xt.N(xt.LI(9)), Fail("harness-setup", "%v", err1)
		}
	}
	L := len(ws)
	ctx.Info["crash_prefixes_replayed"] += L + 1
	ctx.Info["write_faults_injected"] += L
	ctx.Info["store_writes_recorded"] += L
	realOp := kind == 7 || kind == 8                  // the real exported operation runs on the injected stores
	idempotent := kind != 0 && kind != 1 && kind != 4 // re-running the completed op changes no ref (commit / no-ff merge stack a second commit)
	verdicts := xt.N()
	for n := 0; n <= L; n++ {
		sn := fresh(ws[:n], nil)
		jn := env.judge(sn, doctorToo)
		if !jn.inv {
			fail(jn.class, "%s after a crash behind write %d of %d (%s): %s", c13OpName(kind), n, L, c13TraceAt(trace, n), jn.msg)
		}
		dumpN := sn.dump(u)
		// re-run
		err2 := env.runOp(sn, op2)
		j2 := env.judge(sn, doctorToo)
		obs2 := env.obs(sn)
		rerun := (err2 == nil) == (err1 == nil) && j2.inv && obs2.String() == obs1.String()
		if !rerun && (n < L || idempotent) {
			switch {
			case (err2 == nil) != (err1 == nil):
				fail("rerun-fails", "%s re-run after a crash behind write %d of %d returned %v (uninterrupted: %v)", c13OpName(kind), n, L, err2, err1)
			case !j2.inv:
				fail("rerun-"+j2.class, "%s re-run after a crash behind write %d of %d: %s", c13OpName(kind), n, L, j2.msg)
			default:
				fail("rerun-differs", "%s re-run after a crash behind write %d of %d: refs %s, uninterrupted run %s", c13OpName(kind), n, L, obs2, obs1)
			}
		}
		sn.close()
		// injected write error at position n
		fault := true
		if n < L {
			frec := &c13Rec{failAt: n}
			sf := fresh(nil, frec)
			errF := env.runOp(sf, op)
			if errF == nil && err1 == nil {
				fault = false
				fail("fault-not-reported", "%s: write %d of %d failed but the operation returned nil", c13OpName(kind), n, L)
			} else if workers == 1 && kind != 8 {
				if sf.dump(u) != dumpN {
					fault = false
					fail("fault-state-differs", "%s: after a failed write %d of %d the state is not the state of the first %d writes", c13OpName(kind), n, L, n)
				}
			} else if jf := env.judge(sf, doctorToo); !jf.inv {
				fault = false
				fail(jf.class, "%s after an injected error at write %d: %s", c13OpName(kind), n, jf.msg)
			}
			if realOp {
				// heal the stores and run the real operation again: it must reach the uninterrupted end
				frec.mu.Lock()
				frec.off = true
				frec.mu.Unlock()
				errR := env.runOp(sf, op2)
				jr := env.judge(sf, doctorToo)
				if or := env.obs(sf); (errR == nil) != (err1 == nil) || !jr.inv || or.String() != obs1.String() {
					fault = false
					fail("rerun-after-fault-differs", "%s re-run after a failed write %d of %d: returned %v, refs %s; uninterrupted run: %v, %s",
						c13OpName(kind), n, L, errR, or, err1, obs1)
				}
				// the same position as a crash: this and every later write fail, then healthy stores
				crec := &c13Rec{failAt: -1, failFrom: n, from0: n == 0}
				sc := fresh(nil, crec)
				env.runOp(sc, op)
				if workers == 1 && sc.dump(u) != dumpN {
					fault = false
					fail("crash-state-differs", "%s with every write from %d on failing: the state is not the state of the first %d writes", c13OpName(kind), n, n)
				}
				crec.mu.Lock()
				crec.off = true
				crec.mu.Unlock()
				errC := env.runOp(sc, op2)
				jc := env.judge(sc, doctorToo)
				if oc := env.obs(sc); (errC == nil) != (err1 == nil) || !jc.inv || oc.String() != obs1.String() {
					fault = false
					fail("rerun-differs", "%s re-run after a crash behind write %d of %d (%s): returned %v, refs %s; uninterrupted run: %v, %s",
						c13OpName(kind), n, L, c13TraceAt(trace, n), errC, oc, err1, obs1)
				}
				sc.close()
			}
			sf.close()
		}
		verdicts.Add(xt.N(xt.Bool(jn.inv), xt.Bool(rerun), xt.Bool(fault)))
	}
	if cli {
		if msg := c13CLI(ctx, env, c, obs1); msg != "" {
			fail("cli-differs", "%s", msg)
		}
	}
	if len(c.Kids) > 4 && len(c.Kids[4].Kids) > 2 {
		if class, msg := c13ShallowCLI(ctx, env, c.Kids[4].Kids[2]); class != "" {
			fail(class, "%s", msg)
		}
	}
	return xt.N(xt.LI(status), c13Canon(trace), verdicts, obs1, counts1), v
}

func c13OpName(k uint64) string {
	return []string{"commit", "commitWithTable", "DeleteHead", "merge", "merge(no-ff)", "merge(ff)", "fetch", "prune", "fetch.Fetch", "pull"}[k]
}

func c13TraceAt(trace []*xt.T, n int) string {
	if n == 0 {
		return "before the first write"
	}
	w := trace[n-1]
	names := []string{"PutBlock", "PutBlkIdx", "PutTblIdx", "PutProf", "PutTable", "PutCommit", "SetRefLog", "DelRef",
		"DelBlock", "DelBlkIdx", "DelTable", "DelTblIdx", "DelProf", "DelCommit"}
	if int(w.Kids[0].N) < len(names) {
		return "last write " + names[w.Kids[0].N]
	}
	return "last write ?"
}
