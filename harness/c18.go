package main

import (
	"bytes"
	"errors"
	"io"
	"math"
	"testing/iotest"
	"time"

	"github.com/klauspost/compress/s2"
	"github.com/pckhoi/meow"
	"github.com/wrgl/wrgl/pkg/encoding"
	"github.com/wrgl/wrgl/pkg/encoding/packfile"
	"github.com/wrgl/wrgl/pkg/encoding/pktline"
	"github.com/wrgl/wrgl/pkg/misc"
	"github.com/wrgl/wrgl/pkg/objects"

	"verifharness/xt"
)

// C18: decoding does not depend on how the transport chunks the stream.
// Model: coq/model/Dec*.v through run_C18 (coq/model/DecRun.v), which documents the formats:
//   case = (kind bytes (n1 n2 ...) eofflag mode)
//     kind 0 packfile | 1 pkt-lines | 2 commit | 3 table | 4 block | 5 block index |
//          6 uint list | 7 profile | 8 str list | 9 float list
//     (n1 ...) chunk sizes, eofflag: last chunk arrives together with io.EOF
//     mode 0: c18ChunkReader over exactly this partition; 1 iotest.OneByteReader,
//          2 iotest.HalfReader, 3 iotest.DataErrReader (over bytes.Reader; the partition in the
//          case is then only what the model runs, which by the theorem is immaterial)
//   obs  = (0 value) | (1 class) | (2);  class 1 io.EOF, 2 io.ErrUnexpectedEOF, 3 other
// Oracle (independent of the model): the observation under the partition equals the
// observation when the same bytes are read from a bytes.Reader.

func init() { props["C18"] = &Prop{Gen: genC18, Run: runC18} }

// c18ChunkReader delivers the chunks of a partition one Read at a time, splitting a chunk
// that does not fit the caller's buffer; it is lib/Reader.v's [read].
type c18ChunkReader struct {
	chunks [][]byte
	eof    bool
}

func c18Split(p []int, s []byte) [][]byte {
	var out [][]byte
	for _, n := range p {
		if n > len(s) {
			n = len(s)
		}
		out = append(out, s[:n])
		s = s[n:]
	}
	if len(s) > 0 {
		out = append(out, s)
	}
	return out
}

func (r *c18ChunkReader) Read(buf []byte) (int, error) {
	if len(r.chunks) == 0 {
		return 0, io.EOF
	}
	c := r.chunks[0]
	if len(c) <= len(buf) {
		copy(buf, c)
		r.chunks = r.chunks[1:]
		if r.eof && len(r.chunks) == 0 {
			return len(c), io.EOF
		}
		return len(c), nil
	}
	n := copy(buf, c)
	r.chunks[0] = c[n:]
	return n, nil
}

func c18Class(err error) int {
	switch {
	case errors.Is(err, io.EOF):
		return 1
	case errors.Is(err, io.ErrUnexpectedEOF):
		return 2
	}
	return 3
}

func c18Err(err error) *xt.T { return xt.N(xt.LI(1), xt.LI(c18Class(err))) }
func c18Ok(v *xt.T) *xt.T    { return xt.N(xt.LI(0), v) }
func c18Z(z int64) []*xt.T {
	if z < 0 {
		return []*xt.T{xt.LI(1), xt.L(uint64(-z))}
	}
	return []*xt.T{xt.LI(0), xt.L(uint64(z))}
}
func c18ByteSlices(l [][]byte) *xt.T { return xt.List(xt.Bytes, l) }
func c18OptF(f *float64) *xt.T {
	if f == nil {
		return xt.N()
	}
	return xt.N(xt.L(math.Float64bits(*f)))
}

func c18CommitTree(c *objects.Commit) *xt.T {
	_, off := c.Time.Zone()
	tm := xt.N(c18Z(c.Time.Unix())...)
	tm.Add(c18Z(int64(off))...)
	return xt.N(xt.Bytes(c.Table), xt.Str(c.AuthorName), xt.Str(c.AuthorEmail), tm,
		xt.Str(c.Message), c18ByteSlices(c.Parents))
}

func c18TableTree(t *objects.Table) *xt.T {
	return xt.N(xt.Strs(t.Columns), xt.U32s(t.PK), xt.L(uint64(t.RowsCount)),
		c18ByteSlices(t.Blocks), c18ByteSlices(t.BlockIndices))
}

func c18BlockTree(blk [][]string) *xt.T { return xt.List(xt.Strs, blk) }

func c18ProfileTree(tp *objects.TableProfile) *xt.T {
	cols := xt.N()
	for _, c := range tp.Columns {
		pct := xt.N()
		if c.Percentiles != nil {
			l := xt.N()
			for _, f := range c.Percentiles {
				l.Add(xt.L(math.Float64bits(f)))
			}
			pct = xt.N(l)
		}
		top := xt.N()
		if c.TopValues != nil {
			l := xt.N()
			for _, vc := range c.TopValues {
				l.Add(xt.N(xt.Str(vc.Value), xt.L(uint64(vc.Count))))
			}
			top = xt.N(l)
		}
		cols.Add(xt.N(xt.Str(c.Name), xt.L(uint64(c.NACount)),
			c18OptF(c.Min), c18OptF(c.Max), c18OptF(c.Mean), c18OptF(c.Median), c18OptF(c.StdDeviation),
			pct, xt.L(uint64(c.MinStrLen)), xt.L(uint64(c.MaxStrLen)), xt.L(uint64(c.AvgStrLen)), top))
	}
	return xt.N(xt.L(uint64(tp.Version)), xt.L(uint64(tp.RowsCount)), cols)
}

// c18PackTree reads a whole packfile stream: (version objects terminating-class).
func c18PackTree(r io.Reader) *xt.T {
	pr, err := packfile.NewPackfileReader(io.NopCloser(r))
	if err != nil {
		return c18Err(err)
	}
	objs := xt.N()
	for i := 0; ; i++ {
		ot, b, err := pr.ReadObject()
		if err != nil {
			return c18Ok(xt.N(xt.LI(pr.Version), objs, xt.LI(c18Class(err))))
		}
		objs.Add(xt.N(xt.LI(ot), xt.Bytes(b)))
		if i > 1<<20 {
			panic("packfile reader does not terminate")
		}
	}
}

func c18Decode(kind int, r io.Reader) *xt.T {
	switch kind {
	case 0:
		return c18PackTree(r)
	case 1:
		p := encoding.NewParser(r)
		lines := xt.N()
		for i := 0; ; i++ {
			s, err := pktline.ReadPktLine(p)
			if err != nil {
				return c18Ok(xt.N(lines, xt.LI(c18Class(err))))
			}
			lines.Add(xt.Str(s))
			if i > 1<<20 {
				panic("pkt-line reader does not terminate")
			}
		}
	case 2:
		_, c, err := objects.ReadCommitFrom(r)
		if err != nil {
			return c18Err(err)
		}
		return c18Ok(c18CommitTree(c))
	case 3:
		_, t, err := objects.ReadTableFrom(r)
		if err != nil {
			return c18Err(err)
		}
		return c18Ok(c18TableTree(t))
	case 4:
		_, blk, err := objects.ReadBlockFrom(r)
		if err != nil {
			return c18Err(err)
		}
		return c18Ok(c18BlockTree(blk))
	case 5:
		_, idx, err := objects.ReadBlockIndex(r)
		if err != nil {
			return c18Err(err)
		}
		// sortedOff is unexported: recover it from the re-encoding (1 length byte, sortedOff, rows)
		buf := bytes.NewBuffer(nil)
		if _, err := idx.WriteTo(buf); err != nil {
			panic(err)
		}
		n := len(idx.Rows)
		return c18Ok(xt.N(xt.Bytes(buf.Bytes()[1:1+n]), c18ByteSlices(idx.Rows)))
	case 6:
		_, sl, err := objects.NewUintListDecoder(false).Read(r)
		if err != nil {
			return c18Err(err)
		}
		return c18Ok(xt.U32s(sl))
	case 7:
		tp := &objects.TableProfile{}
		_, err := tp.ReadFrom(r)
		if err != nil {
			return c18Err(err)
		}
		return c18Ok(c18ProfileTree(tp))
	case 8:
		_, sl, err := objects.NewStrListDecoder(false).Read(r)
		if err != nil {
			return c18Err(err)
		}
		return c18Ok(xt.Strs(sl))
	default:
		_, sl, err := objects.NewFloatListDecoder(false).Read(r)
		if err != nil {
			return c18Err(err)
		}
		l := xt.N()
		for _, f := range sl {
			l.Add(xt.L(math.Float64bits(f)))
		}
		return c18Ok(l)
	}
}

func c18Reader(mode int, p []int, eof bool, s []byte) io.Reader {
	switch mode {
	case 1:
		return iotest.OneByteReader(bytes.NewReader(s))
	case 2:
		return iotest.HalfReader(bytes.NewReader(s))
	case 3:
		return iotest.DataErrReader(bytes.NewReader(s))
	}
	cp := append([]byte{}, s...)
	return &c18ChunkReader{chunks: c18Split(p, cp), eof: eof}
}

func runC18(ctx *Ctx, c *xt.T) (*xt.T, Verdict) {
	kind := int(c.Kids[0].N)
	s := c.Kids[1].AsBytes()
	var p []int
	for _, k := range c.Kids[2].Kids {
		p = append(p, int(k.N))
	}
	eof := c.Kids[3].N != 0
	mode := int(c.Kids[4].N)
	obs := c18Decode(kind, c18Reader(mode, p, eof, s))
	ref := c18Decode(kind, bytes.NewReader(append([]byte{}, s...)))
	if obs.String() != ref.String() {
		a, b := obs.String(), ref.String()
		if len(a) > 300 {
			a = a[:300]
		}
		if len(b) > 300 {
			b = b[:300]
		}
		return obs, Fail("chunk-dependent", "decoding under the partition gives %s but the whole buffer gives %s", a, b)
	}
	return obs, OK()
}

// ---------- generators of valid streams (real encoders) ----------

var c18Words = []string{"", "a", "b", "id", "name", "x y", "1", "42", "-3.5", "long cell value with spaces", "é", "\x00", "zz"}

func c18Word(ctx *Ctx) string {
	if ctx.Pick(12) == 0 {
		n := 20 + ctx.Pick(300)
		b := make([]byte, n)
		for i := range b {
			b[i] = byte('a' + ctx.Pick(26))
		}
		return string(b)
	}
	return c18Words[ctx.Pick(len(c18Words))]
}

func c18Sum(ctx *Ctx) []byte {
	b := make([]byte, 16)
	for i := range b {
		b[i] = byte(ctx.Pick(256))
	}
	return b
}

func c18Rows(ctx *Ctx, nrows, ncols int) [][]string {
	blk := make([][]string, nrows)
	for i := range blk {
		blk[i] = make([]string, ncols)
		for j := range blk[i] {
			blk[i][j] = c18Word(ctx)
		}
	}
	return blk
}

func c18BlockBytes(blk [][]string) []byte {
	buf := bytes.NewBuffer(nil)
	if _, err := objects.WriteBlockTo(objects.NewStrListEncoder(true), buf, blk); err != nil {
		panic(err)
	}
	return append([]byte{}, buf.Bytes()...)
}

func c18StrListBytes(sl []string) []byte {
	return append([]byte{}, objects.NewStrListEncoder(false).Encode(sl)...)
}

func c18CommitBytes(ctx *Ctx, parents [][]byte) []byte {
	c := &objects.Commit{
		Table:       c18Sum(ctx),
		AuthorName:  c18Word(ctx),
		AuthorEmail: c18Word(ctx),
		Message:     c18Word(ctx),
		Parents:     parents,
	}
	switch ctx.Pick(4) {
	case 0: // zero time
	case 1:
		c.Time = time.Unix(int64(ctx.Pick(2000000000)), 0).In(time.FixedZone("", (ctx.Pick(27)-13)*3600+ctx.Pick(2)*1800))
	default:
		c.Time = time.Unix(int64(1600000000+ctx.Pick(100000000)), 0).In(time.FixedZone("", 7*3600))
	}
	buf := bytes.NewBuffer(nil)
	if _, err := c.WriteTo(buf); err != nil {
		panic(err)
	}
	return append([]byte{}, buf.Bytes()...)
}

func c18TableBytes(cols []string, pk []uint32, rows uint32, blocks, idxs [][]byte) []byte {
	t := objects.NewTable(cols, pk)
	t.RowsCount = rows
	t.Blocks = blocks
	t.BlockIndices = idxs
	buf := bytes.NewBuffer(nil)
	if _, err := t.WriteTo(buf); err != nil {
		panic(err)
	}
	return append([]byte{}, buf.Bytes()...)
}

func c18RandTable(ctx *Ctx) []byte {
	ncols := 1 + ctx.Pick(4)
	cols := make([]string, ncols)
	for i := range cols {
		cols[i] = c18Word(ctx)
	}
	var pk []uint32
	if ctx.Pick(2) == 0 {
		pk = []uint32{uint32(ctx.Pick(ncols))}
	}
	nb := ctx.Pick(4)
	rows := uint32(0)
	if nb > 0 {
		rows = uint32((nb-1)*255 + 1 + ctx.Pick(255))
	}
	var blocks, idxs [][]byte
	for i := 0; i < nb; i++ {
		blocks = append(blocks, c18Sum(ctx))
		idxs = append(idxs, c18Sum(ctx))
	}
	return c18TableBytes(cols, pk, rows, blocks, idxs)
}

func c18BlockIndexBytes(blk [][]string, pk []uint32) []byte {
	idx, err := objects.IndexBlock(objects.NewStrListEncoder(true), meow.New(0), blk, pk)
	if err != nil {
		panic(err)
	}
	buf := bytes.NewBuffer(nil)
	if _, err := idx.WriteTo(buf); err != nil {
		panic(err)
	}
	return append([]byte{}, buf.Bytes()...)
}

func c18UintListBytes(ctx *Ctx) []byte {
	n := ctx.Pick(6)
	sl := make([]uint32, n)
	for i := range sl {
		sl[i] = uint32(ctx.Rng.Int63())
	}
	return append([]byte{}, objects.NewUintListEncoder().Encode(sl)...)
}

func c18FloatListBytes(ctx *Ctx) []byte {
	n := ctx.Pick(5)
	sl := make([]float64, n)
	for i := range sl {
		sl[i] = ctx.Rng.NormFloat64() * 100
	}
	return append([]byte{}, objects.NewFloatListEncoder().Encode(sl)...)
}

func c18PktLines(ctx *Ctx) []byte {
	buf := bytes.NewBuffer(nil)
	mb := misc.NewBuffer(nil)
	n := 1 + ctx.Pick(5)
	for i := 0; i < n; i++ {
		if err := pktline.WritePktLine(buf, mb, c18Word(ctx)); err != nil {
			panic(err)
		}
	}
	return append([]byte{}, buf.Bytes()...)
}

func c18ProfileBytes(ctx *Ctx) []byte {
	f := func() *float64 {
		if ctx.Pick(2) == 0 {
			return nil
		}
		v := ctx.Rng.NormFloat64() * 10
		return &v
	}
	tp := &objects.TableProfile{Version: uint32(ctx.Pick(3)), RowsCount: uint32(ctx.Pick(1000))}
	n := ctx.Pick(4)
	for i := 0; i < n; i++ {
		col := &objects.ColumnProfile{
			Name: c18Word(ctx), NACount: uint32(ctx.Pick(5)),
			Min: f(), Max: f(), Mean: f(), Median: f(), StdDeviation: f(),
			MinStrLen: uint16(ctx.Pick(3)), MaxStrLen: uint16(ctx.Pick(70000)), AvgStrLen: uint16(ctx.Pick(9)),
		}
		if ctx.Pick(2) == 0 {
			k := ctx.Pick(4)
			col.TopValues = objects.ValueCounts{}
			for j := 0; j < k; j++ {
				col.TopValues = append(col.TopValues, objects.ValueCount{Value: c18Word(ctx), Count: uint32(ctx.Pick(100))})
			}
		}
		if ctx.Pick(2) == 0 {
			k := ctx.Pick(4)
			col.Percentiles = []float64{}
			for j := 0; j < k; j++ {
				col.Percentiles = append(col.Percentiles, float64(ctx.Pick(100)))
			}
		}
		tp.Columns = append(tp.Columns, col)
	}
	buf := bytes.NewBuffer(nil)
	if _, err := tp.WriteTo(buf); err != nil {
		panic(err)
	}
	return append([]byte{}, buf.Bytes()...)
}

func c18Packfile(ctx *Ctx) []byte {
	buf := bytes.NewBuffer(nil)
	pw, err := packfile.NewPackfileWriter(buf)
	if err != nil {
		panic(err)
	}
	n := 1 + ctx.Pick(5)
	for i := 0; i < n; i++ {
		switch ctx.Pick(4) {
		case 0:
			raw := c18BlockBytes(c18Rows(ctx, 1+ctx.Pick(4), 1+ctx.Pick(3)))
			pw.WriteObject(packfile.ObjectBlock, s2.EncodeBetter(nil, raw))
		case 1:
			pw.WriteObject(packfile.ObjectTable, c18RandTable(ctx))
		case 2:
			pw.WriteObject(packfile.ObjectCommit, c18CommitBytes(ctx, nil))
		default:
			pw.WriteObject(packfile.ObjectBlock, []byte{}) // zero-length body
		}
	}
	return append([]byte{}, buf.Bytes()...)
}

// c18Stream returns one valid encoded stream of the kind.
func c18Stream(ctx *Ctx, kind int) []byte {
	switch kind {
	case 0:
		return c18Packfile(ctx)
	case 1:
		return c18PktLines(ctx)
	case 2:
		var parents [][]byte
		for i := ctx.Pick(4); i > 0; i-- {
			parents = append(parents, c18Sum(ctx))
		}
		return c18CommitBytes(ctx, parents)
	case 3:
		return c18RandTable(ctx)
	case 4:
		return c18BlockBytes(c18Rows(ctx, ctx.Pick(5), 1+ctx.Pick(3)))
	case 5:
		ncols := 1 + ctx.Pick(3)
		var pk []uint32
		if ctx.Pick(2) == 0 {
			pk = []uint32{uint32(ctx.Pick(ncols))}
		}
		return c18BlockIndexBytes(c18Rows(ctx, ctx.Pick(5), ncols), pk)
	case 6:
		return c18UintListBytes(ctx)
	case 7:
		return c18ProfileBytes(ctx)
	case 8:
		n := ctx.Pick(5)
		sl := make([]string, n)
		for i := range sl {
			sl[i] = c18Word(ctx)
		}
		return c18StrListBytes(sl)
	}
	return c18FloatListBytes(ctx)
}

func c18Case(kind int, s []byte, p []int, eof bool, mode int) *xt.T {
	e := 0
	if eof {
		e = 1
	}
	return xt.N(xt.LI(kind), xt.Bytes(s), xt.Ints(p), xt.LI(e), xt.LI(mode))
}

func c18Ones(n int) []int {
	p := make([]int, n)
	for i := range p {
		p[i] = 1
	}
	return p
}

func genC18(ctx *Ctx) []Case {
	var cases []Case
	add := func(tag string, kind int, s []byte, p []int, eof bool, mode int) {
		nt := len(s) > 0 && (len(p) > 0 || eof || mode != 0)
		cases = append(cases, Case{Tag: tag, Nontrivial: nt, C: c18Case(kind, s, p, eof, mode)})
		ctx.Count("partition_" + tag)
	}
	// witness of the fixed defect 27d6b14: a packfile read one byte at a time
	hdr := []byte("PACK\x00\x00\x00\x01")
	add("witness", 0, hdr, c18Ones(8), false, 0)
	add("witness", 0, hdr, nil, false, 1)
	streams := 10
	nrand := 8
	if ctx.Thorough() {
		streams = 40
		nrand = 12
	}
	for kind := 0; kind <= 9; kind++ {
		for si := 0; si < streams; si++ {
			s := c18Stream(ctx, kind)
			if si == streams-1 && len(s) > 2 {
				// one damaged stream per kind: the statement holds for every byte string
				s = s[:1+ctx.Pick(len(s)-1)]
				ctx.Count("stream_truncated")
			} else {
				ctx.Count("stream_valid")
			}
			if si == 0 {
				// every cut point of one stream per kind: the class of the terminating error
				// (clean EOF / unexpected EOF / other) must not depend on the chunking either
				for cut := 0; cut < len(s) && cut < 400; cut++ {
					add("cut-whole", kind, s[:cut], nil, cut%2 == 0, 0)
					add("cut-chunked", kind, s[:cut], []int{1 + ctx.Pick(5), ctx.Pick(3), 1 + ctx.Pick(7)}, cut%3 == 0, 0)
				}
			}
			add("whole", kind, s, nil, false, 0)
			add("whole+eof", kind, s, nil, true, 0)
			add("onebyte", kind, s, c18Ones(len(s)), false, 0)
			add("onebyte+eof", kind, s, c18Ones(len(s)), true, 0)
			add("iotest-onebyte", kind, s, c18Ones(len(s)), false, 1)
			add("iotest-half", kind, s, nil, false, 2)
			add("iotest-dataerr", kind, s, nil, true, 3)
			for k := 0; k <= 16 && k <= len(s); k++ {
				add("split16", kind, s, []int{k}, k%2 == 1, 0)
			}
			for ri := 0; ri < nrand; ri++ {
				var p []int
				left := len(s)
				maxc := 1 + ctx.Pick(9)
				for left > 0 && len(p) < 4000 {
					n := ctx.Pick(maxc + 1) // 0 = an empty read (0, nil)
					p = append(p, n)
					left -= n
				}
				if ctx.Pick(4) == 0 {
					p = append(p, 0) // trailing empty chunk
				}
				add("random", kind, s, p, ctx.Pick(2) == 0, 0)
			}
		}
	}
	return cases
}
