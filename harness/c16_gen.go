package main

import (
	"sort"

	"verifharness/xt"
)

// generator of C16 cases (see c16.go for the formats)

type c16IngestCase struct {
	w        int
	rows     []int
	sched    []int
	failOff  int
	failKind int
	readErr  int
	reps     int
	procs    []int
	yieldPct int
	sleepUs  int
	chunk    int
	seed     int
}

func (g c16IngestCase) tree(lock int) *xt.T {
	return xt.N(xt.LI(0), xt.LI(g.w), xt.Ints(g.rows), xt.Ints(g.sched), xt.LI(lock), xt.LI(g.failOff), xt.LI(g.failKind),
		xt.LI(g.readErr), xt.LI(g.reps), xt.Ints(g.procs), xt.LI(g.yieldPct), xt.LI(g.sleepUs), xt.LI(g.chunk), xt.LI(g.seed))
}

func c16Rows(nblocks, last int) []int {
	r := make([]int, nblocks)
	for i := range r {
		r[i] = 255
	}
	r[nblocks-1] = last
	return r
}

// schedules for the model: thread ids 0 = caller, 1/2 = producer, 3.. = workers
func c16Sched(ctx *Ctx, w, n int) []int {
	style := ctx.Pick(6)
	s := make([]int, n)
	for i := range s {
		switch style {
		case 0: // uniform
			s[i] = ctx.Pick(w + 3)
		case 1: // starve the caller
			s[i] = 1 + ctx.Pick(w+2)
		case 2: // one favourite worker
			if ctx.Pick(3) > 0 {
				s[i] = 3
			} else {
				s[i] = ctx.Pick(w + 3)
			}
		case 3: // producer far ahead
			if i < n/3 {
				s[i] = 1
			} else {
				s[i] = ctx.Pick(w + 3)
			}
		case 4: // workers in lock step
			s[i] = 3 + i%w
			if ctx.Pick(8) == 0 {
				s[i] = ctx.Pick(3)
			}
		default: // bursts
			s[i] = ctx.Pick(w + 3)
			if i > 0 && ctx.Pick(4) > 0 {
				s[i] = s[i-1]
			}
		}
	}
	return s
}

func c16RandTable(ctx *Ctx, keys, vals, pct int) []c16Row {
	var r []c16Row
	for k := 1; k <= keys; k++ {
		if ctx.Pick(100) < pct {
			r = append(r, c16Row{k, 1 + ctx.Pick(vals)})
		}
	}
	if len(r) == 0 {
		r = append(r, c16Row{1 + ctx.Pick(keys), 1})
	}
	sort.Slice(r, func(i, j int) bool { return r[i].K < r[j].K })
	return r
}

func c16FlowCase(kind int, base []c16Row, layers [][]c16Row, tail ...*xt.T) *xt.T {
	ls := xt.N()
	for _, l := range layers {
		ls.Add(c16TableTree(l))
	}
	t := xt.N(xt.LI(kind), c16TableTree(base), ls)
	return t.Add(tail...)
}

func genC16(ctx *Ctx) []Case {
	var cases []Case
	lock := c16LockFlag()
	allProcs := []int{1, 2, 4, 8, 16}
	add := func(tag string, g c16IngestCase) {
		nt := g.w >= 2 && len(g.rows) >= 2
		cases = append(cases, Case{Tag: tag, Nontrivial: nt, C: g.tree(lock)})
		ctx.Count("ingest_cases")
		if g.failKind > 0 || g.readErr > 0 {
			ctx.Count("ingest_cases_with_injected_error")
		}
		if g.w >= 2 {
			ctx.Count("ingest_cases_multi_worker")
		}
	}

	// ---- fixed witnesses
	// the original race: 8 effective workers (-n 10), 40 blocks, rowsCount / asyncBlocks unsynchronised
	add("witness", c16IngestCase{w: 8, rows: c16Rows(40, 200), sched: c16Sched(ctx, 8, 1500), reps: 12, procs: []int{16, 8, 4}, yieldPct: 30, sleepUs: 30, seed: 1})
	add("witness", c16IngestCase{w: 2, rows: c16Rows(2, 7), sched: []int{0, 1, 1, 1, 3, 4, 3, 3, 4, 4, 3, 4, 4, 3}, reps: 2, procs: []int{2, 16}, yieldPct: 50, sleepUs: 20, seed: 2})
	add("witness", c16IngestCase{w: 16, rows: c16Rows(12, 255), sched: c16Sched(ctx, 16, 800), reps: 8, procs: []int{16, 8}, yieldPct: 40, sleepUs: 30, seed: 3})
	// a worker error must reach the caller (store Set of one block / block index fails)
	add("witness", c16IngestCase{w: 3, rows: c16Rows(5, 10), sched: c16Sched(ctx, 3, 200), failOff: 2, failKind: 1, reps: 2, procs: []int{8, 1}, yieldPct: 30, sleepUs: 20, seed: 4})
	add("witness", c16IngestCase{w: 4, rows: c16Rows(14, 1), sched: c16Sched(ctx, 4, 300), failOff: 0, failKind: 2, reps: 2, procs: []int{16, 2}, yieldPct: 30, sleepUs: 20, seed: 5})
	// chunk read error in the sorter producer (with and without a worker error)
	add("witness", c16IngestCase{w: 3, rows: c16Rows(4, 100), sched: c16Sched(ctx, 3, 200), readErr: 2, reps: 2, procs: []int{8, 2}, yieldPct: 20, sleepUs: 20, chunk: 150, seed: 6})
	add("witness", c16IngestCase{w: 2, rows: c16Rows(13, 3), sched: c16Sched(ctx, 2, 200), readErr: 5, failOff: 1, failKind: 1, reps: 2, procs: []int{4, 16}, yieldPct: 20, sleepUs: 20, chunk: 400, seed: 7})
	// spilled chunks, no error
	add("witness", c16IngestCase{w: 5, rows: c16Rows(9, 77), sched: c16Sched(ctx, 5, 500), reps: 2, procs: []int{16, 3}, yieldPct: 30, sleepUs: 20, chunk: 300, seed: 8})
	// regressions of the two sorter/ingest channel defects
	cases = append(cases, Case{Tag: "regress", Nontrivial: true, C: xt.N(xt.LI(3), xt.LI(2000), xt.LI(3), xt.LI(100))})
	cases = append(cases, Case{Tag: "regress", Nontrivial: true, C: xt.N(xt.LI(3), xt.LI(700), xt.LI(1), xt.LI(50))})
	cases = append(cases, Case{Tag: "regress", Nontrivial: true, C: xt.N(xt.LI(4), xt.LI(24), xt.LI(3), xt.LI(5))})
	cases = append(cases, Case{Tag: "regress", Nontrivial: true, C: xt.N(xt.LI(4), xt.LI(14), xt.LI(1), xt.LI(2))})
	// merge: error channel smaller than the number of senders
	for _, k := range []int{2, 5, 6, 12, 30, 36} {
		cases = append(cases, Case{Tag: "mergefail", Nontrivial: true, C: xt.N(xt.LI(6), xt.LI(1000), xt.LI(k))})
	}
	// dataflow witness (the example of the model file)
	cases = append(cases, Case{Tag: "flow", Nontrivial: true, C: c16FlowCase(2,
		[]c16Row{{1, 10}, {2, 20}, {4, 40}},
		[][]c16Row{{{1, 11}, {2, 20}, {4, 40}}, {{1, 12}, {3, 30}, {4, 40}}}, xt.Ints([]int{1, 0, 1, 1}))})

	// ---- varying-length keys in the second column, many blocks, 4 / 8 / 16 requested workers:
	// per-worker scratch state (decoder, hash, StrListEditor) must not be shared between workers
	nvar, vreps := 1, 3
	if ctx.Thorough() {
		nvar = 10
	}
	for i := 0; i < nvar; i++ {
		for _, req := range []int{4, 8, 16} {
			nb := 60
			if i > 0 {
				nb = 40 + ctx.Pick(81)
			}
			g := c16IngestCase{w: req - 2, rows: c16Rows(nb, 1+ctx.Pick(255)), sched: c16Sched(ctx, req-2, 300), reps: vreps,
				procs: []int{16, 8, 4}, yieldPct: 10, sleepUs: 5, seed: 7000 + 10*i + req}
			t := g.tree(lock)
			t.Kids[0] = xt.LI(7)
			cases = append(cases, Case{Tag: "varkey", Nontrivial: true, C: t})
			ctx.Count("varkey_cases")
			ctx.Count("varkey_repetitions_per_case_" + string(rune('0'+vreps)))
		}
	}

	// ---- diff / merge with real progress ticks over a slow store (tracker Stop must not hang,
	// the tracker goroutine must end); gap = time between the end of the data loop and Stop()
	preps := 3
	if ctx.Thorough() {
		preps = 6
	}
	for mode := 0; mode <= 1; mode++ {
		for _, periodUs := range []int{1000, 5000} {
			for _, gapUs := range []int{0, 5 * periodUs / 2} {
				cases = append(cases, Case{Tag: "progress", Nontrivial: true, C: xt.N(xt.LI(8), xt.LI(mode), xt.LI(3000), xt.LI(periodUs), xt.LI(300), xt.LI(gapUs), xt.LI(preps))})
				ctx.Count("progress_cases")
			}
		}
	}
	if ctx.Thorough() {
		for i := 0; i < 24; i++ {
			periodUs := []int{1000, 2000, 5000}[ctx.Pick(3)]
			cases = append(cases, Case{Tag: "progress", Nontrivial: true, C: xt.N(xt.LI(8), xt.LI(i%2), xt.LI(1000+ctx.Pick(5000)), xt.LI(periodUs),
				xt.LI(100+ctx.Pick(401)), xt.LI(ctx.Pick(3*periodUs)), xt.LI(preps))})
			ctx.Count("progress_cases")
		}
	}
	ctx.Count("progress_repetitions_per_case_" + string(rune('0'+preps)))

	// ---- command level, in child processes: `wrgl commit` with every block write failing in turn,
	// progress bars on and off; `wrgl diff NEW.csv OLD.csv -n N` on raw multi-block files vs -n 1
	type cc struct{ req, nb int }
	ccs := []cc{{1, 5}, {4, 5}, {8, 12}}
	if ctx.Thorough() {
		ccs = append(ccs, cc{2, 3}, cc{3, 8}, cc{6, 20}, cc{16, 40}, cc{10, 11}, cc{18, 25})
	}
	for _, x := range ccs {
		for bars := 0; bars <= 1; bars++ {
			cases = append(cases, Case{Tag: "cmd-commit", Nontrivial: true, C: xt.N(xt.LI(9), xt.LI(x.req), xt.LI(x.nb), xt.LI(bars))})
			ctx.Count("cmd_commit_cases")
		}
	}
	type dc struct{ nb, n, a, r, m int }
	dcs := []dc{{60, 16, 23, 11, 37}, {60, 8, 5, 3, 9}, {40, 4, 2, 2, 2}, {100, 16, 1, 1, 1}}
	dreps := 6
	if ctx.Thorough() {
		dreps = 8
		for i := 0; i < 12; i++ {
			dcs = append(dcs, dc{2 + ctx.Pick(100), []int{1, 2, 4, 8, 16, 32}[ctx.Pick(6)], ctx.Pick(40), ctx.Pick(40), ctx.Pick(40)})
		}
	}
	for _, x := range dcs {
		cases = append(cases, Case{Tag: "cmd-diff", Nontrivial: x.n >= 4 && x.nb >= 2, C: xt.N(xt.LI(10), xt.LI(x.nb), xt.LI(x.n), xt.LI(x.a), xt.LI(x.r), xt.LI(x.m), xt.LI(dreps))})
		ctx.Count("cmd_diff_cases")
	}
	ctx.Count("cmd_diff_repetitions_per_case_" + string(rune('0'+dreps)))

	// ---- exhaustive small scope: workers x blocks x size of the last block
	maxW, maxB := 4, 4
	if ctx.Thorough() {
		maxW, maxB = 6, 6
	}
	for w := 1; w <= maxW; w++ {
		for nb := 1; nb <= maxB; nb++ {
			for _, last := range []int{1, 254, 255} {
				add("exh", c16IngestCase{w: w, rows: c16Rows(nb, last), sched: c16Sched(ctx, w, 40*nb+ctx.Pick(100)), reps: 2,
					procs: []int{allProcs[ctx.Pick(5)], allProcs[ctx.Pick(5)]}, yieldPct: 40, sleepUs: 15, seed: 100 + w*10 + nb})
			}
			// every block failing, in SaveBlock or SaveBlockIndex
			for off := 0; off < nb; off++ {
				add("exh-fail", c16IngestCase{w: w, rows: c16Rows(nb, 9), sched: c16Sched(ctx, w, 30*nb), failOff: off, failKind: 1 + (off+w)%2,
					reps: 1, procs: []int{allProcs[ctx.Pick(5)]}, yieldPct: 30, sleepUs: 15, seed: 200 + w*10 + nb})
			}
		}
	}

	// ---- random, boundary-biased (blocks around the channel capacity 10 and the worker count)
	nrand, maxBlocks := 60, 40
	if ctx.Thorough() {
		nrand, maxBlocks = 500, 300
	}
	for i := 0; i < nrand; i++ {
		w := 1 + ctx.Pick(16)
		var nb int
		switch ctx.Pick(6) {
		case 0:
			nb = w + ctx.Pick(3) - 1
		case 1:
			nb = 9 + ctx.Pick(5)
		case 2:
			nb = 1 + ctx.Pick(maxBlocks)
		default:
			nb = 1 + ctx.Pick(20)
		}
		if nb < 1 {
			nb = 1
		}
		last := 1 + ctx.Pick(255)
		if ctx.Pick(4) == 0 {
			last = []int{1, 2, 254, 255}[ctx.Pick(4)]
		}
		g := c16IngestCase{w: w, rows: c16Rows(nb, last), sched: c16Sched(ctx, w, ctx.Pick(60*nb+50)), reps: 3,
			procs: []int{allProcs[ctx.Pick(5)], 16, 8}, yieldPct: 10 + ctx.Pick(60), sleepUs: ctx.Pick(40), seed: 1000 + i}
		if ctx.Pick(4) == 0 {
			g.chunk = 50 + ctx.Pick(600)
		}
		switch ctx.Pick(8) {
		case 0:
			g.failOff, g.failKind = ctx.Pick(nb), 1+ctx.Pick(2)
		case 1:
			g.readErr = 1 + ctx.Pick(nb)
			if g.chunk == 0 {
				g.chunk = 50 + ctx.Pick(300)
			}
			if g.chunk > 255*(nb-1)+last { // at least one spilled chunk
				g.chunk = 1 + (255*(nb-1)+last)/2
			}
		}
		add("rand", g)
	}

	// ---- dataflow: small key spaces (every overlap pattern), a few multi-block tables
	nflow := 120
	if ctx.Thorough() {
		nflow = 1500
	}
	for i := 0; i < nflow; i++ {
		keys, vals := 3+ctx.Pick(10), 1+ctx.Pick(3)
		if i%20 == 19 {
			keys = 300 + ctx.Pick(300) // crosses the 255-row block boundary
		}
		nl := 1 + ctx.Pick(4)
		base := c16RandTable(ctx, keys, vals, 30+ctx.Pick(70))
		layers := make([][]c16Row, nl)
		for j := range layers {
			layers[j] = c16RandTable(ctx, keys, vals, 30+ctx.Pick(70))
		}
		picks := make([]int, ctx.Pick(3*keys))
		for j := range picks {
			picks[j] = ctx.Pick(nl)
		}
		cases = append(cases, Case{Tag: "flow", Nontrivial: nl >= 2, C: c16FlowCase(2, base, layers, xt.Ints(picks))})
		ctx.Count("flow_cases")
		ctx.Count("flow_layers_" + string(rune('0'+nl)))
	}

	// ---- merge end to end, repeated
	nmerge := 10
	if ctx.Thorough() {
		nmerge = 80
	}
	for i := 0; i < nmerge; i++ {
		keys := 5 + ctx.Pick(30)
		if i%5 == 4 {
			keys = 300 + ctx.Pick(400)
		}
		nl := 2 + ctx.Pick(2)
		base := c16RandTable(ctx, keys, 3, 60+ctx.Pick(40))
		layers := make([][]c16Row, nl)
		for j := range layers {
			layers[j] = c16RandTable(ctx, keys, 3, 60+ctx.Pick(40))
		}
		reps := 3
		if ctx.Thorough() {
			reps = 6
		}
		cases = append(cases, Case{Tag: "merge", Nontrivial: true, C: c16FlowCase(5, base, layers, xt.LI(reps), xt.LI(i+1))})
		ctx.Count("merge_cases")
	}
	return cases
}
