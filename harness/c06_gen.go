package main

import (
	"bytes"
	"fmt"

	"github.com/pckhoi/meow"
	"github.com/wrgl/wrgl/pkg/objects"

	"verifharness/xt"
)

// Case generation for C06 (see c06.go for the case format).

func c06RandBytes(ctx *Ctx, n int) []byte {
	b := make([]byte, n)
	switch ctx.Pick(4) {
	case 0: // arbitrary bytes incl. non-UTF8, NUL, newline
		ctx.Rng.Read(b)
	case 1:
		for i := range b {
			b[i] = "ab \n\x00\xff\xc3\x28,\""[ctx.Pick(10)]
		}
	default:
		for i := range b {
			b[i] = byte('a' + ctx.Pick(26))
		}
	}
	return b
}

// cell length classes: empty, 1, short, around 255/256, (rarely) large
func c06CellLen(ctx *Ctx, allowBig bool) int {
	r := ctx.Pick(100)
	switch {
	case r < 20:
		return 0
	case r < 35:
		return 1
	case r < 80:
		return 2 + ctx.Pick(12)
	case r < 90:
		return 254 + ctx.Pick(4)
	case r < 98 || !allowBig:
		return 300 + ctx.Pick(700)
	default:
		return 20000 + ctx.Pick(20000)
	}
}

// c06Budget caps the bytes of one generated case: the extracted model runs on OCaml's
// default 8MB stack and its list functions are not tail recursive (about 250KB is safe).
var c06Budget int

func c06RandCells(ctx *Ctx, n int, allowBig bool) [][]byte {
	sl := make([][]byte, n)
	for i := range sl {
		l := c06CellLen(ctx, allowBig)
		if l > c06Budget {
			l = ctx.Pick(3)
		}
		c06Budget -= l
		sl[i] = c06RandBytes(ctx, l)
	}
	return sl
}

func c06Trailer(ctx *Ctx) []byte {
	if ctx.Pick(3) == 0 {
		return c06RandBytes(ctx, 1+ctx.Pick(6))
	}
	return nil
}

func c06CellsT(sl [][]byte) *xt.T { return xt.List(xt.Bytes, sl) }

func c06Rep(c byte, n int) []byte { return bytes.Repeat([]byte{c}, n) }

func c06Bucket(n int) string {
	switch {
	case n == 0:
		return "0"
	case n <= 8:
		return "1-8"
	case n < 255:
		return "9-254"
	}
	return "255"
}

func c06Sum16(ctx *Ctx) []byte {
	b := make([]byte, 16)
	ctx.Rng.Read(b)
	return b
}

// ---- commits

type c06GenCommit struct {
	table, name, email, msg []byte
	sec, zone               int64
	parents                 [][]byte
}

func (g *c06GenCommit) tree() *xt.T {
	return xt.N(xt.Bytes(g.table), xt.Bytes(g.name), xt.Bytes(g.email), xt.N(c06Z(g.sec), c06Z(g.zone)),
		xt.Bytes(g.msg), c06CellsT(g.parents))
}

var c06Secs = []int64{0, 1, 59, 1000000000, 1700000000, 2147483647, 2147483648, 4294967296, 9999999999, -1, -86400, -999999999}
var c06BadSecs = []int64{10000000000, 12345678901, -1000000000, -62135596801, 253402300800}
var c06Zones = []int64{0, 60, -60, 330, 345, 525, 570, -210, -570, 765, 840, -720, 1, -1, 59, -59, 1439, -1439, 1499, -1499}
var c06BadZones = []int64{1500, -1500, 1560, 5999, 6000, -6000}

func c06RandText(ctx *Ctx) []byte {
	switch ctx.Pick(10) {
	case 0:
		return nil
	case 1:
		return []byte("Jos\xc3\xa9 \xff\xfe")
	case 2:
		return c06RandBytes(ctx, 200+ctx.Pick(400))
	}
	return c06RandBytes(ctx, 1+ctx.Pick(30))
}

func c06RandCommit(ctx *Ctx) *c06GenCommit {
	g := &c06GenCommit{table: c06Sum16(ctx), name: c06RandText(ctx), email: c06RandText(ctx), msg: c06RandText(ctx)}
	if ctx.Pick(8) == 0 {
		g.sec = ctx.Rng.Int63n(10000000000)
	} else {
		g.sec = c06Secs[ctx.Pick(len(c06Secs))]
	}
	switch ctx.Pick(4) {
	case 0:
		g.zone = int64(ctx.Pick(105)-48) * 15 // -12:00 .. +14:00 in quarter hours
	case 1:
		g.zone = int64(ctx.Pick(2999) - 1499)
	default:
		g.zone = c06Zones[ctx.Pick(len(c06Zones))]
	}
	np := ctx.Pick(6)
	for i := 0; i < np; i++ {
		g.parents = append(g.parents, c06Sum16(ctx))
	}
	ctx.Count(fmt.Sprintf("commit_parents_%d", np))
	return g
}

// ---- tables

type c06GenTable struct {
	cols            [][]byte
	pk              []uint32
	rows            uint32
	blocks, indices [][]byte
}

func (g *c06GenTable) tree() *xt.T {
	return xt.N(c06CellsT(g.cols), xt.U32s(g.pk), xt.L(uint64(g.rows)), c06CellsT(g.blocks), c06CellsT(g.indices))
}

func c06RandTable(ctx *Ctx) *c06GenTable {
	g := &c06GenTable{}
	nc := ctx.Pick(7)
	for i := 0; i < nc; i++ {
		g.cols = append(g.cols, c06RandBytes(ctx, ctx.Pick(12)))
	}
	for i := 0; i < nc && ctx.Pick(3) == 0; i++ {
		g.pk = append(g.pk, uint32(ctx.Pick(nc)))
	}
	if ctx.Pick(20) == 0 {
		g.pk = append(g.pk, 4294967295)
	}
	rs := []uint32{0, 1, 254, 255, 256, 509, 510, 511, 765}
	if ctx.Pick(3) == 0 {
		g.rows = uint32(ctx.Pick(3000))
	} else {
		g.rows = rs[ctx.Pick(len(rs))]
	}
	n := (int(g.rows) + 254) / 255
	for i := 0; i < n; i++ {
		g.blocks = append(g.blocks, c06Sum16(ctx))
		g.indices = append(g.indices, c06Sum16(ctx))
	}
	return g
}

// ---- block indices

func c06RandBlockIndex(ctx *Ctx, n int) *xt.T {
	if ctx.Pick(2) == 0 && n > 0 {
		// the real thing: IndexBlock of a random block
		ncol := 1 + ctx.Pick(4)
		blk := make([][]string, n)
		for i := range blk {
			blk[i] = make([]string, ncol)
			for j := range blk[i] {
				blk[i][j] = string(c06RandBytes(ctx, ctx.Pick(6)))
			}
		}
		var pk []uint32
		if ctx.Pick(2) == 0 {
			pk = []uint32{uint32(ctx.Pick(ncol))}
		}
		idx, err := objects.IndexBlock(objects.NewStrListEncoder(true), meow.New(0), blk, pk)
		if err != nil {
			panic(err)
		}
		ctx.Count("blockindex_from_IndexBlock")
		return c06BlockIndexT(idx)
	}
	off := make([]byte, n)
	rows := make([][]byte, n)
	for i := range rows {
		off[i] = byte(ctx.Pick(256))
		rows[i] = make([]byte, 32)
		ctx.Rng.Read(rows[i])
	}
	return xt.N(xt.Bytes(off), c06CellsT(rows))
}

// ---- profiles

func c06RandFloatBits(ctx *Ctx) uint64 {
	fs := []uint64{0, 1 << 63, 0x3ff0000000000000, 0x7ff0000000000000, 0xfff0000000000000, 0x7ff8000000000001, 0x7ff0000000000001, 0xffffffffffffffff, 1}
	if ctx.Pick(2) == 0 {
		return fs[ctx.Pick(len(fs))]
	}
	return ctx.Rng.Uint64()
}

func c06OptBits(ctx *Ctx) *xt.T {
	if ctx.Pick(2) == 0 {
		return xt.N()
	}
	return xt.N(xt.L(c06RandFloatBits(ctx)))
}

func c06SmallNum(ctx *Ctx, max uint64) *xt.T {
	switch ctx.Pick(4) {
	case 0:
		return xt.L(0)
	case 1:
		return xt.L(max)
	}
	return xt.L(uint64(ctx.Rng.Int63n(int64(max) + 1)))
}

func c06RandCol(ctx *Ctx, name []byte, bigValue int) *xt.T {
	pct, top := xt.N(), xt.N()
	if ctx.Pick(2) == 0 {
		l := xt.N()
		for i, n := 0, ctx.Pick(4)*ctx.Pick(4); i < n; i++ {
			l.Add(xt.L(c06RandFloatBits(ctx)))
		}
		pct = xt.N(l)
	}
	if ctx.Pick(2) == 0 || bigValue > 0 {
		l := xt.N()
		for i, n := 0, ctx.Pick(5); i < n; i++ {
			l.Add(xt.N(xt.Bytes(c06RandBytes(ctx, ctx.Pick(9))), c06SmallNum(ctx, 4294967295)))
		}
		if bigValue > 0 {
			l.Add(xt.N(xt.Bytes(c06Rep('v', bigValue)), xt.L(2)))
			if ctx.Pick(2) == 0 {
				l.Add(xt.N(xt.Bytes([]byte("after")), xt.L(1)))
			}
		}
		top = xt.N(l)
	}
	return xt.N(xt.Bytes(name), c06SmallNum(ctx, 4294967295), c06OptBits(ctx), c06OptBits(ctx), c06OptBits(ctx),
		c06OptBits(ctx), c06OptBits(ctx), pct, c06SmallNum(ctx, 65535), c06SmallNum(ctx, 65535), c06SmallNum(ctx, 65535), top)
}

func c06RandProfile(ctx *Ctx) *xt.T {
	cols := xt.N()
	for i, n := 0, ctx.Pick(5); i < n; i++ {
		cols.Add(c06RandCol(ctx, c06RandBytes(ctx, ctx.Pick(10)), 0))
	}
	return xt.N(c06SmallNum(ctx, 4294967295), c06SmallNum(ctx, 4294967295), cols)
}

// ---- valid encodings of random values, produced by the implementation (for store / decode cases)

func c06Must(f func() ([]byte, error)) []byte {
	b, st, msg := c06Try(f)
	if st != 0 {
		panic("generator: " + msg)
	}
	return b
}

func c06RandEncoding(ctx *Ctx, fmtTag int) []byte {
	c06Budget = 120000
	switch fmtTag {
	case 1:
		return c06Must(c06EncStrList(c06Cells(c06CellsT(c06RandCells(ctx, ctx.Pick(6), false)))))
	case 2:
		rows := xt.N()
		for i, n := 0, ctx.Pick(5); i < n; i++ {
			rows.Add(c06CellsT(c06RandCells(ctx, ctx.Pick(4), false)))
		}
		return c06Must(c06EncBlock(c06Rows(rows)))
	case 3:
		l := make([]uint32, ctx.Pick(6))
		for i := range l {
			l[i] = ctx.Rng.Uint32()
		}
		return c06Must(c06EncUints(l))
	case 4:
		l := make([]uint64, ctx.Pick(5))
		for i := range l {
			l[i] = c06RandFloatBits(ctx)
		}
		return c06Must(c06EncFloats(l))
	case 5:
		return c06Must(c06EncCommit(c06CommitFromTree(c06RandCommit(ctx).tree())))
	case 6:
		return c06Must(c06EncTable(c06TableFromTree(c06RandTable(ctx).tree())))
	case 7:
		return c06Must(c06EncBlockIndex(c06BlockIndexFromTree(c06RandBlockIndex(ctx, ctx.Pick(6)))))
	case 8:
		return c06Must(c06EncProfile(c06ProfileFromTree(c06RandProfile(ctx))))
	case 9:
		return c06Must(c06EncPkt(string(c06RandBytes(ctx, ctx.Pick(20)))))
	case 10:
		var objs []c06Obj
		for i, n := 0, ctx.Pick(4); i < n; i++ {
			objs = append(objs, c06Obj{1 + ctx.Pick(3), c06RandBytes(ctx, ctx.Pick(40))})
		}
		return c06Must(c06EncPack(objs))
	default:
		return c06RefHeader(1+ctx.Pick(7), ctx.Rng.Uint64()>>uint(ctx.Pick(64)))
	}
}

func c06Mutate(ctx *Ctx, b []byte) []byte {
	b = append([]byte{}, b...)
	switch ctx.Pick(6) {
	case 0: // truncate
		if len(b) > 0 {
			b = b[:ctx.Pick(len(b))]
		}
	case 1: // flip one byte
		if len(b) > 0 {
			b[ctx.Pick(len(b))] ^= byte(1 << uint(ctx.Pick(8)))
		}
	case 2: // overwrite one byte
		if len(b) > 0 {
			b[ctx.Pick(len(b))] = "\x00\xff 0+-\n9:"[ctx.Pick(9)]
		}
	case 3: // append
		b = append(b, c06RandBytes(ctx, 1+ctx.Pick(5))...)
	case 4: // drop the tail byte by byte towards a boundary
		if len(b) > 2 {
			b = b[:len(b)-1-ctx.Pick(2)]
		}
	default: // unchanged (valid)
	}
	return b
}

// ---------------------------------------------------------------- Gen

func genC06(ctx *Ctx) []Case {
	var cases []Case
	c06Budget = 120000
	add := func(tag string, nontrivial bool, c *xt.T) {
		cases = append(cases, Case{Tag: tag, Nontrivial: nontrivial, C: c})
		ctx.Count("cases_" + tag)
	}
	scale := func(quick, thorough int) int {
		if ctx.Thorough() {
			return thorough
		}
		return quick
	}
	strlist := func(tag string, sl [][]byte, trailer []byte) {
		add(tag, len(sl) > 0, xt.N(xt.LI(1), c06CellsT(sl), xt.Bytes(trailer)))
	}
	block := func(tag string, rows [][][]byte, trailer []byte) {
		add(tag, len(rows) > 0, xt.N(xt.LI(2), xt.List(c06CellsT, rows), xt.Bytes(trailer)))
	}

	// --- StrList: fixed witnesses
	strlist("strlist", nil, nil)
	strlist("strlist", [][]byte{{}}, nil)
	strlist("strlist", [][]byte{[]byte("a")}, []byte{0, 5})
	strlist("strlist", [][]byte{{0xff, 0xfe, 0x00}, {}, []byte("é\n")}, nil)
	// fixed defect eebb087: 3 cells x 30000 bytes (uint16 running offset), 65536-byte cell
	strlist("big", [][]byte{c06Rep('a', 30000), c06Rep('b', 30000), c06Rep('c', 30000)}, nil)
	strlist("big", [][]byte{c06Rep('x', 65535)}, nil)
	strlist("overlimit", [][]byte{[]byte("k"), c06Rep('x', 65536)}, nil)
	strlist("overlimit", [][]byte{c06Rep('x', 70000), []byte("k")}, nil)
	for i, n := 0, scale(300, 6000); i < n; i++ {
		c06Budget = 120000
		k := ctx.Pick(9)
		if ctx.Pick(20) == 0 {
			k = 20 + ctx.Pick(300)
		}
		strlist("strlist", c06RandCells(ctx, k, ctx.Pick(60) == 0), c06Trailer(ctx))
	}

	// --- Block
	block("block", nil, nil)
	block("block", [][][]byte{{}}, nil)
	block("block", [][][]byte{{[]byte("a"), {}}, {}, {[]byte("b")}}, []byte{1, 2, 3})
	// a row crossing 64KiB and a 255-row block
	block("big", [][][]byte{{c06Rep('a', 40000), c06Rep('b', 40000), []byte("z")}, {[]byte("q")}}, nil)
	block("overlimit", [][][]byte{{[]byte("a")}, {[]byte("b"), c06Rep('x', 65536)}}, nil)
	block("overlimit", [][][]byte{{c06Rep('x', 70000)}}, nil)
	{
		rows := make([][][]byte, 255)
		for i := range rows {
			rows[i] = [][]byte{[]byte(fmt.Sprintf("%d", i)), c06RandBytes(ctx, ctx.Pick(6))}
		}
		block("block", rows, nil)
	}
	for i, n := 0, scale(150, 3000); i < n; i++ {
		nr := 1 + ctx.Pick(6)
		switch ctx.Pick(12) {
		case 0:
			nr = 1 + ctx.Pick(255)
		case 1:
			nr = 0
		}
		ncol := ctx.Pick(6)
		c06Budget = 120000
		rows := make([][][]byte, nr)
		for j := range rows {
			w := ncol
			if ctx.Pick(15) == 0 {
				w = ctx.Pick(8) // ragged
			}
			rows[j] = c06RandCells(ctx, w, nr < 4 && ctx.Pick(40) == 0)
		}
		ctx.Count(fmt.Sprintf("block_rows_%s", c06Bucket(nr)))
		block("block", rows, c06Trailer(ctx))
	}

	// --- UintList / FloatList
	for _, l := range [][]uint32{nil, {0}, {4294967295}, {1, 2, 3, 65536, 16777216}} {
		add("uintlist", len(l) > 0, xt.N(xt.LI(3), xt.U32s(l), xt.N()))
	}
	for i, n := 0, scale(60, 1500); i < n; i++ {
		l := make([]uint32, ctx.Pick(12))
		for j := range l {
			l[j] = ctx.Rng.Uint32() >> uint(ctx.Pick(32))
		}
		add("uintlist", len(l) > 0, xt.N(xt.LI(3), xt.U32s(l), xt.Bytes(c06Trailer(ctx))))
	}
	add("floatlist", false, xt.N(xt.LI(4), xt.N(), xt.N()))
	for i, n := 0, scale(60, 1500); i < n; i++ {
		l := make([]uint64, ctx.Pick(10))
		for j := range l {
			l[j] = c06RandFloatBits(ctx)
		}
		add("floatlist", len(l) > 0, xt.N(xt.LI(4), c06U64sT(l), xt.Bytes(c06Trailer(ctx))))
	}

	// --- Commit
	commit := func(tag string, g *c06GenCommit, trailer []byte) {
		add(tag, true, xt.N(xt.LI(5), g.tree(), xt.Bytes(trailer)))
	}
	base := func() *c06GenCommit {
		return &c06GenCommit{table: c06Sum16(ctx), name: []byte("n"), email: []byte("e@x"), msg: []byte("m"), sec: 1700000000}
	}
	{
		g := base()
		g.sec, g.zone = c06ZeroSec, 0 // the zero time: 16 zero bytes
		commit("commit", g, nil)
		g = base()
		g.name, g.email, g.msg = nil, nil, nil
		commit("commit", g, nil)
		for _, s := range c06Secs {
			g = base()
			g.sec = s
			commit("commit", g, nil)
		}
		for _, z := range c06Zones {
			g = base()
			g.zone = z
			commit("commit", g, nil)
		}
		// outside the 16-byte field: modelled, no round trip demanded
		for _, s := range c06BadSecs {
			g = base()
			g.sec = s
			commit("commit-outofrange", g, nil)
		}
		for _, z := range c06BadZones {
			g = base()
			g.zone = z
			commit("commit-outofrange", g, nil)
		}
		g = base()
		g.sec, g.zone = c06ZeroSec, 60 // IsZero() in another zone: written as zeros, reads back UTC
		commit("commit-outofrange", g, nil)
		g = base()
		g.table = c06Rep(1, 15)
		commit("commit-outofrange", g, nil)
		g = base()
		g.parents = [][]byte{c06Sum16(ctx), c06Rep(2, 17)}
		commit("commit-outofrange", g, nil)
		// fixed defect 7a3d96a: strings of 65535 / 65536 / 70000 bytes
		g = base()
		g.msg = c06Rep('m', 65535)
		commit("big", g, nil)
		g = base()
		g.name = c06Rep('n', 65536)
		commit("overlimit", g, nil)
		g = base()
		g.email = c06Rep('e', 65536)
		commit("overlimit", g, nil)
		g = base()
		g.msg = c06Rep('m', 70000)
		g.parents = [][]byte{c06Sum16(ctx)}
		commit("overlimit", g, nil)
	}
	for i, n := 0, scale(300, 6000); i < n; i++ {
		var tr []byte
		if ctx.Pick(25) == 0 {
			tr = c06RandBytes(ctx, 1+ctx.Pick(30))
		}
		commit("commit", c06RandCommit(ctx), tr)
	}

	// --- Table
	table := func(tag string, g *c06GenTable, trailer []byte) {
		add(tag, true, xt.N(xt.LI(6), g.tree(), xt.Bytes(trailer)))
	}
	table("table", &c06GenTable{}, nil)
	{
		g := c06RandTable(ctx)
		g.cols = [][]byte{[]byte("id"), c06Rep('c', 65535)}
		table("big", g, nil)
		g = c06RandTable(ctx)
		g.cols = [][]byte{[]byte("id"), c06Rep('c', 65536)}
		table("overlimit", g, nil)
		g = c06RandTable(ctx)
		g.rows, g.blocks, g.indices = 300, [][]byte{c06Sum16(ctx)}, [][]byte{c06Sum16(ctx), c06Sum16(ctx)} // wrong counts
		table("table-malformed", g, nil)
		g = c06RandTable(ctx)
		g.rows, g.blocks, g.indices = 10, [][]byte{c06Rep(1, 15)}, [][]byte{c06Rep(2, 17)}
		table("table-malformed", g, nil)
		g = c06RandTable(ctx)
		g.rows, g.blocks, g.indices = 255, [][]byte{c06Sum16(ctx)}, [][]byte{nil} // missing block index
		table("table-malformed", g, nil)
	}
	for i, n := 0, scale(200, 4000); i < n; i++ {
		table("table", c06RandTable(ctx), c06Trailer(ctx))
	}

	// --- BlockIndex
	for _, n := range []int{0, 1, 2, 255} {
		add("blockindex", n > 0, xt.N(xt.LI(7), c06RandBlockIndex(ctx, n), xt.N()))
	}
	{
		t := c06RandBlockIndex(ctx, 3)
		t.Kids[0] = xt.Bytes([]byte{0, 1, 2, 3}) // more offsets than rows: WriteTo indexes past Rows
		add("blockindex-malformed", true, xt.N(xt.LI(7), t, xt.N()))
		t = c06RandBlockIndex(ctx, 3)
		t.Kids[0] = xt.Bytes([]byte{0, 1})
		add("blockindex-malformed", true, xt.N(xt.LI(7), t, xt.N()))
		off := make([]byte, 256)
		rows := make([][]byte, 256)
		for i := range rows {
			rows[i] = c06Rep(byte(i), 32)
		}
		add("blockindex-malformed", true, xt.N(xt.LI(7), xt.N(xt.Bytes(off), c06CellsT(rows)), xt.N()))
	}
	for i, n := 0, scale(80, 1500); i < n; i++ {
		k := 1 + ctx.Pick(8)
		if ctx.Pick(10) == 0 {
			k = 1 + ctx.Pick(255)
		}
		add("blockindex", true, xt.N(xt.LI(7), c06RandBlockIndex(ctx, k), xt.Bytes(c06Trailer(ctx))))
	}

	// --- TableProfile
	add("profile", false, xt.N(xt.LI(8), xt.N(xt.L(0), xt.L(0), xt.N()), xt.N()))
	add("big", true, xt.N(xt.LI(8), xt.N(xt.L(1), xt.L(3), xt.N(c06RandCol(ctx, []byte("a"), 65535))), xt.N()))
	add("big", true, xt.N(xt.LI(8), xt.N(xt.L(1), xt.L(3), xt.N(c06RandCol(ctx, c06Rep('n', 65535), 0))), xt.N()))
	add("overlimit", true, xt.N(xt.LI(8), xt.N(xt.L(1), xt.L(3), xt.N(c06RandCol(ctx, c06Rep('n', 65536), 0))), xt.N()))
	// fixed defect da147a9: top value of 65536 / 70000 bytes
	add("overlimit", true, xt.N(xt.LI(8), xt.N(xt.L(1), xt.L(3), xt.N(c06RandCol(ctx, []byte("a"), 65536))), xt.N()))
	add("overlimit", true, xt.N(xt.LI(8), xt.N(xt.L(1), xt.L(3), xt.N(c06RandCol(ctx, []byte("b"), 0), c06RandCol(ctx, []byte("a"), 70000))), xt.N()))
	for i, n := 0, scale(250, 5000); i < n; i++ {
		add("profile", true, xt.N(xt.LI(8), c06RandProfile(ctx), xt.Bytes(c06Trailer(ctx))))
	}

	// --- pkt-line
	for _, n := range []int{0, 1, 2, 15, 16, 255, 4095, 4096, 65534} {
		add("pktline", n > 0, xt.N(xt.LI(9), xt.Bytes(c06Rep('p', n)), xt.N()))
	}
	// no guard in WritePktLine: modelled, not demanded by the oracle
	add("pktline-outofrange", true, xt.N(xt.LI(9), xt.Bytes(c06Rep('p', 65535)), xt.N()))
	add("pktline-outofrange", true, xt.N(xt.LI(9), xt.Bytes(c06Rep('p', 70000)), xt.N()))
	for i, n := 0, scale(80, 1500); i < n; i++ {
		add("pktline", true, xt.N(xt.LI(9), xt.Bytes(c06RandBytes(ctx, ctx.Pick(300))), xt.Bytes(c06Trailer(ctx))))
	}

	// --- packfile
	pack := func(tag string, objs []c06Obj) {
		t := xt.N()
		for _, o := range objs {
			t.Add(xt.N(xt.LI(o.ty), xt.Bytes(o.b)))
		}
		add(tag, len(objs) > 0, xt.N(xt.LI(10), t))
	}
	pack("packfile", nil)
	pack("packfile", []c06Obj{{1, nil}}) // fixed defect e3df50f: zero-length object
	pack("packfile", []c06Obj{{3, nil}, {2, []byte("x")}, {1, nil}})
	pack("big", []c06Obj{{3, c06Rep('z', 70000)}, {1, c06Rep('y', 2048)}})
	pack("packfile-malformed", []c06Obj{{0, []byte("a")}, {8, []byte("b")}, {9, nil}})
	sizes := []int{0, 1, 15, 16, 17, 2047, 2048, 2049}
	for i, n := 0, scale(120, 2500); i < n; i++ {
		var objs []c06Obj
		for j, m := 0, ctx.Pick(6); j < m; j++ {
			sz := sizes[ctx.Pick(len(sizes))]
			if ctx.Pick(3) == 0 {
				sz = ctx.Pick(5000)
			}
			ty := 1 + ctx.Pick(3)
			if ctx.Pick(10) == 0 {
				ty = 1 + ctx.Pick(7)
			}
			objs = append(objs, c06Obj{ty, c06RandBytes(ctx, sz)})
		}
		pack("packfile", objs)
	}

	// --- packfile object header: every 2^k-1, 2^k, 2^k+1 with every type, then random
	for k := 0; k <= 64; k++ {
		c := xt.N(xt.LI(11))
		for d := -1; d <= 1; d++ {
			var u uint64
			if k == 64 {
				if d >= 0 {
					continue
				}
				u = ^uint64(0)
			} else {
				u = uint64(1)<<uint(k) + uint64(d)
			}
			for ty := 1; ty <= 7; ty++ {
				c.Add(xt.N(xt.LI(ty), xt.L(u)))
			}
		}
		add("header-boundary", true, c)
	}
	n32, n64 := 4000, 1000
	if ctx.Thorough() {
		n32, n64 = 200000, 20000
	}
	for i := 0; i < n32+n64; i += 50 {
		c := xt.N(xt.LI(11))
		for j := 0; j < 50; j++ {
			u := uint64(ctx.Rng.Uint32())
			if i >= n32 {
				u = ctx.Rng.Uint64() >> uint(ctx.Pick(33))
				ctx.Count("header_random_64bit")
			} else {
				ctx.Count("header_random_32bit")
			}
			c.Add(xt.N(xt.LI(1+ctx.Pick(7)), xt.L(u)))
		}
		add("header-random", true, c)
	}

	// --- store: Save* then raw contents and Get*
	kindFmt := map[int]int{1: 2, 2: 7, 3: 6, 4: 5}
	for i, n := 0, scale(150, 3000); i < n; i++ {
		ops := xt.N()
		var contents [][]byte
		for j, m := 0, 1+ctx.Pick(8); j < m; j++ {
			kind := 1 + ctx.Pick(6)
			var content []byte
			switch {
			case len(contents) > 0 && ctx.Pick(4) == 0:
				content = contents[ctx.Pick(len(contents))] // identical content again (any kind)
				ctx.Count("store_duplicate_content")
			case ctx.Pick(12) == 0:
				content = c06RandBytes(ctx, ctx.Pick(40)) // not an encoding of anything
			case kind <= 4:
				content = c06RandEncoding(ctx, kindFmt[kind])
			default:
				content = c06RandEncoding(ctx, 6) // the owning table
			}
			contents = append(contents, content)
			if kind <= 4 {
				ops.Add(xt.N(xt.LI(kind), xt.Bytes(content)))
			} else {
				own := c06RandEncoding(ctx, 2) // table index = a block of key rows
				if kind == 6 {
					own = c06RandEncoding(ctx, 8)
				}
				if ctx.Pick(12) == 0 {
					own = c06Mutate(ctx, own)
				}
				ops.Add(xt.N(xt.LI(kind), xt.Bytes(content), xt.Bytes(own)))
			}
			ctx.Count(fmt.Sprintf("store_op_kind_%d", kind))
		}
		add("store", true, xt.N(xt.LI(12), ops))
	}

	// --- the 65535 limit is in BYTES: text made of 2-, 3-, 4-byte UTF-8 sequences and of invalid UTF-8
	// bytes, with byte lengths around the limit, in every family that carries a length-prefixed text
	// (a guard counting code points instead of bytes lets 40000 x "e-acute" = 80000 bytes through)
	{
		units := [][]byte{{0xc3, 0xa9}, {0xe4, 0xb8, 0x96}, {0xf0, 0x9f, 0x98, 0x80}, {0x80, 0xbf, 0x81}, {0xff}}
		mb := func(kind, n int) []byte {
			u := units[kind]
			b := c06Rep('a', n%len(u))
			return append(b, bytes.Repeat(u, n/len(u))...)
		}
		plainCol := func(name []byte, top *xt.T) *xt.T {
			return xt.N(xt.Bytes(name), xt.L(0), xt.N(), xt.N(), xt.N(), xt.N(), xt.N(), xt.N(), xt.L(0), xt.L(0), xt.L(0), top)
		}
		families := []func(t []byte) *xt.T{
			func(t []byte) *xt.T { g := base(); g.name = t; return xt.N(xt.LI(5), g.tree(), xt.N()) },
			func(t []byte) *xt.T { g := base(); g.email = t; return xt.N(xt.LI(5), g.tree(), xt.N()) },
			func(t []byte) *xt.T {
				g := base()
				g.msg, g.parents = t, [][]byte{c06Sum16(ctx)}
				return xt.N(xt.LI(5), g.tree(), xt.N())
			},
			func(t []byte) *xt.T { // profile column name
				return xt.N(xt.LI(8), xt.N(xt.L(1), xt.L(3), xt.N(plainCol([]byte("b"), xt.N()), plainCol(t, xt.N()))), xt.N())
			},
			func(t []byte) *xt.T { // profile top value
				top := xt.N(xt.N(xt.N(xt.Bytes([]byte("ok")), xt.L(5)), xt.N(xt.Bytes(t), xt.L(2)), xt.N(xt.Bytes([]byte("after")), xt.L(1))))
				return xt.N(xt.LI(8), xt.N(xt.L(1), xt.L(3), xt.N(plainCol([]byte("a"), top))), xt.N())
			},
			func(t []byte) *xt.T { // StrList cell
				return xt.N(xt.LI(1), c06CellsT([][]byte{[]byte("k"), t, nil}), xt.N())
			},
			func(t []byte) *xt.T { // table column name
				g := &c06GenTable{cols: [][]byte{[]byte("id"), t}, pk: []uint32{0}, rows: 1,
					blocks: [][]byte{c06Sum16(ctx)}, indices: [][]byte{c06Sum16(ctx)}}
				return xt.N(xt.LI(6), g.tree(), xt.N())
			},
			func(t []byte) *xt.T { // cell of a block row
				return xt.N(xt.LI(2), xt.List(c06CellsT, [][][]byte{{[]byte("a")}, {[]byte("b"), t}}), xt.N())
			},
		}
		okLens := []int{65534, 65535}
		overLens := []int{65536, 65538, 70000, 80000}
		emit := func(f, kind, n int) {
			tag := "multibyte-ok"
			if n > c06Max {
				tag = "multibyte-over"
			}
			add(tag, true, families[f](mb(kind, n)))
			ctx.Count(fmt.Sprintf("multibyte_unit_%d", kind))
		}
		for f := range families {
			for kind := range units {
				if ctx.Thorough() {
					for _, n := range append(append([]int{}, okLens...), overLens...) {
						emit(f, kind, n)
					}
				} else {
					// quick: one length at or below and one above the limit per (family, unit), rotating
					emit(f, kind, okLens[(f+kind)%2])
					emit(f, kind, overLens[(f+kind)%4])
				}
			}
		}
	}

	// --- counts around the decoders' pre-allocation cap (maxPrealloc = 1024): every count-prefixed
	// reader that pre-allocates min(count, 1024) elements must still READ all of them
	for _, n := range []int{1023, 1024, 1025, 3000} {
		ctx.Count("prealloc_counts")
		tiny := func(i int) []byte {
			switch i % 3 {
			case 0:
				return nil
			case 1:
				return []byte{byte('a' + i%26)}
			}
			return []byte{byte(i), byte(i >> 8)}
		}
		// Table.ReadFrom: n block sums + n block index sums (RowsCount = n*255 and n*255-254)
		for _, rows := range []uint32{uint32(n) * 255, uint32(n)*255 - 254} {
			g := &c06GenTable{cols: [][]byte{[]byte("id")}, pk: []uint32{0}, rows: rows}
			for i := 0; i < n; i++ {
				g.blocks = append(g.blocks, c06Sum16(ctx))
				g.indices = append(g.indices, c06Sum16(ctx))
			}
			add("prealloc", true, xt.N(xt.LI(6), g.tree(), xt.Bytes(c06Trailer(ctx))))
		}
		// Table meta: n columns (StrList) and n primary-key indices (UintList)
		{
			g := &c06GenTable{rows: 1, blocks: [][]byte{c06Sum16(ctx)}, indices: [][]byte{c06Sum16(ctx)}}
			for i := 0; i < n; i++ {
				g.cols = append(g.cols, tiny(i))
				g.pk = append(g.pk, uint32(n-1-i))
			}
			add("prealloc", true, xt.N(xt.LI(6), g.tree(), xt.N()))
		}
		// ReadBlockFrom: n tiny rows; StrList: n tiny cells
		{
			rows := make([][][]byte, n)
			cells := make([][]byte, n)
			for i := range rows {
				rows[i] = [][]byte{tiny(i)}
				if i%7 == 0 {
					rows[i] = append(rows[i], tiny(i+1))
				}
				cells[i] = tiny(i)
			}
			block("prealloc", rows, c06Trailer(ctx))
			strlist("prealloc", cells, c06Trailer(ctx))
			// one row of n cells inside a block
			block("prealloc", [][][]byte{{[]byte("x")}, cells}, nil)
		}
		// UintList / FloatList
		{
			us := make([]uint32, n)
			fs := make([]uint64, n)
			for i := range us {
				us[i] = uint32(i) * 2654435761
				fs[i] = uint64(i)<<52 | uint64(i)
			}
			add("prealloc", true, xt.N(xt.LI(3), xt.U32s(us), xt.Bytes(c06Trailer(ctx))))
			add("prealloc", true, xt.N(xt.LI(4), c06U64sT(fs), xt.Bytes(c06Trailer(ctx))))
		}
		// TableProfile: n columns; one column with n top values and n percentiles
		{
			cols := xt.N()
			for i := 0; i < n; i++ {
				c := c06RandCol(ctx, tiny(i), 0)
				if i%50 != 0 { // keep most columns minimal
					c = xt.N(xt.Bytes(tiny(i)), xt.L(uint64(i%2)), xt.N(), xt.N(), xt.N(), xt.N(), xt.N(), xt.N(), xt.L(0), xt.L(0), xt.L(0), xt.N())
				}
				cols.Add(c)
			}
			add("prealloc", true, xt.N(xt.LI(8), xt.N(xt.L(1), xt.L(uint64(n)), cols), xt.Bytes(c06Trailer(ctx))))
			top, pct := xt.N(), xt.N()
			for i := 0; i < n; i++ {
				top.Add(xt.N(xt.Bytes(tiny(i)), xt.L(uint64(n-i))))
				pct.Add(xt.L(uint64(i) << 40))
			}
			col := xt.N(xt.Bytes([]byte("c")), xt.L(0), xt.N(), xt.N(), xt.N(), xt.N(), xt.N(), xt.N(pct), xt.L(0), xt.L(2), xt.L(1), xt.N(top))
			add("prealloc", true, xt.N(xt.LI(8), xt.N(xt.L(1), xt.L(9), xt.N(col)), xt.N()))
		}
		// through the store: SaveTable / GetTable, SaveBlock / GetBlock, table index, table profile
		{
			g := &c06GenTable{cols: [][]byte{[]byte("id")}, pk: []uint32{0}, rows: uint32(n) * 255}
			rows := xt.N()
			for i := 0; i < n; i++ {
				g.blocks = append(g.blocks, c06Sum16(ctx))
				g.indices = append(g.indices, c06Sum16(ctx))
				rows.Add(c06CellsT([][]byte{tiny(i)}))
			}
			tb := c06Must(c06EncTable(c06TableFromTree(g.tree())))
			blk := c06Must(c06EncBlock(c06Rows(rows)))
			pcols := xt.N()
			for i := 0; i < n; i++ {
				pcols.Add(xt.N(xt.Bytes(tiny(i)), xt.L(0), xt.N(), xt.N(), xt.N(), xt.N(), xt.N(), xt.N(), xt.L(0), xt.L(0), xt.L(0), xt.N()))
			}
			prof := c06Must(c06EncProfile(c06ProfileFromTree(xt.N(xt.L(1), xt.L(uint64(n)), pcols))))
			// (the owning table of the index / profile is a small one: the case must stay within the
			// size the extracted model can take)
			small := c06Must(c06EncTable(c06TableFromTree((&c06GenTable{cols: [][]byte{[]byte("id")}}).tree())))
			add("prealloc", true, xt.N(xt.LI(12), xt.N(
				xt.N(xt.LI(3), xt.Bytes(tb)), xt.N(xt.LI(1), xt.Bytes(blk)),
				xt.N(xt.LI(5), xt.Bytes(small), xt.Bytes(blk)), xt.N(xt.LI(6), xt.Bytes(small), xt.Bytes(prof)))))
		}
	}

	// --- volume: objects saved through ONE real badger transaction that crosses badger's transaction
	// limit (about 9.6MB of key+value bytes, or the entry-count limit, with the options the repository
	// uses) and rolls over inside Txn.Set; read back through the badger store, keys listed (> 100 keys
	// behind a prefix).  The harness builds the objects from the seed (see c06_volume.go).
	vol := func(mode, n, size int) {
		add("volume", true, xt.N(xt.LI(14), xt.LI(mode), xt.LI(n), xt.LI(size), xt.L(uint64(ctx.Rng.Int63n(1<<40)))))
	}
	vol(1, 250, 10)    // small objects: listings with more than 100 keys per prefix
	vol(1, 175, 60000) // commits, just over the byte limit: one rollover
	vol(2, 260, 56000) // all six kinds in turn, just over the limit
	if ctx.Thorough() {
		vol(1, 400, 60000)  // two rollovers
		vol(2, 1000, 56000) // several rollovers, all kinds
		vol(1, 110000, 0)   // tiny objects: the limit is reached by their number
		vol(1, 20, 1100000) // (commit messages are capped at 60000: small volume, no rollover)
		vol(2, 40, 1100000) // values above badger's value threshold (counted as pointers)
		for i := 0; i < 6; i++ {
			vol(1+ctx.Pick(2), 150+ctx.Pick(500), 20000+ctx.Pick(40000))
		}
	}

	// --- decode-only: valid encodings and small mutations of them, every reader
	dec := func(tag string, f int, b []byte) { add(tag, true, xt.N(xt.LI(13), xt.LI(f), xt.Bytes(b))) }
	dec("decode", 1, []byte{0, 0, 0, 1, 0, 5})                   // stream ends after the last length prefix
	dec("decode", 2, []byte{0, 0, 0, 1, 0, 0, 0, 1, 0, 5})       // same inside a block
	dec("decode", 2, []byte{0, 0, 0, 2, 0, 0, 0, 1, 0, 5})       // ... but not in the last row
	dec("decode", 11, []byte{0xb0, 0x80, 0x00})                  // padded header
	dec("decode", 11, []byte{0x30, 0x00})                        // bit 7 of the first byte clear
	dec("decode", 11, append([]byte{0xbf}, c06Rep(0xff, 12)...)) // overlong
	dec("decode", 9, []byte("0001\n"))
	dec("decode", 9, []byte("000Ax123456789"))
	{
		// time field variants of one commit
		g := base()
		g.sec = 5
		b := c06Must(c06EncCommit(c06CommitFromTree(g.tree())))
		at := bytes.Index(b, []byte("time ")) + 5
		for _, v := range []string{"+000000005x-0000", "0000000005 +2460", "0000000005 +2500", "0000000005 +0061",
			"00000_0005 +0000", "-000000000 +0000", "0000000005 -0000", "0000000005 +0060", "0000000005  0000",
			"          5 +0000", "0000000005 +00a0", "\x00\x00\x00\x00\x00\x00\x00\x00\x00\x00\x00\x00\x00\x00\x00\x01"} {
			m := append([]byte{}, b...)
			copy(m[at:], v)
			dec("decode-time", 5, m)
		}
	}
	for i, n := 0, scale(700, 14000); i < n; i++ {
		f := 1 + ctx.Pick(11)
		b := c06Mutate(ctx, c06RandEncoding(ctx, f))
		ctx.Count(fmt.Sprintf("decode_fmt_%d", f))
		dec("decode", f, b)
	}
	return cases
}
