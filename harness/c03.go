package main

import (
	"context"
	"database/sql"
	"fmt"
	"strings"
	"time"

	"github.com/go-logr/logr"
	_ "github.com/mattn/go-sqlite3"
	"github.com/pckhoi/meow"
	"github.com/wrgl/wrgl/pkg/conf"
	"github.com/wrgl/wrgl/pkg/diff"
	"github.com/wrgl/wrgl/pkg/doctor"
	"github.com/wrgl/wrgl/pkg/ingest"
	"github.com/wrgl/wrgl/pkg/objects"
	"github.com/wrgl/wrgl/pkg/ref"
	refsql "github.com/wrgl/wrgl/pkg/ref/sql"

	"verifharness/xt"
)

// C03: structural soundness of stored tables vs the model (coq/model/Ingest.v, run_C03)
// and vs a direct check of the invariants, plus doctor.Diagnose.
//
//	case = as C01: (kind columns pknames rows runSize arrival (workers delimiter)), kind 0/1/2
//	observation = (status rowcount (block ...) tblidx (blkidx ...) nidx diag)
//	  block = node of crows (see C01); tblidx = node of keys (objects.GetTableIndex)
//	  blkidx = per block, per index position: (key crow) of the row whose key hash and row
//	           hash the entry carries (hashes recomputed in Go with MeowHash), (9) if none
//	  nidx = len(tbl.BlockIndices); diag = 0 no issue | code 1..6 of the first issue (9 other)

func init() { props["C03"] = &Prop{Gen: genC03, Run: runC03} }

func c03Hashes(pk []uint32, row []string) (pkSum, rowSum string) {
	enc := objects.NewStrListEncoder(true)
	rs := meow.Checksum(0, enc.Encode(row))
	if len(pk) == 0 {
		return string(rs[:]), string(rs[:])
	}
	key := make([]string, len(pk))
	for i, u := range pk {
		key[i] = row[u]
	}
	ks := meow.Checksum(0, enc.Encode(key))
	return string(ks[:]), string(rs[:])
}

func c03IssueCode(msg string) int {
	switch {
	case strings.Contains(msg, "pk index greater"):
		return 1
	case strings.Contains(msg, "primary key column is empty"):
		return 2
	case strings.Contains(msg, "duplicated rows"):
		return 3
	case strings.Contains(msg, "index rows count"):
		return 6
	case strings.Contains(msg, "rows count does not match"):
		return 4
	case strings.Contains(msg, "block indices count"):
		return 5
	}
	return 9
}

func c03RefStore() (ref.Store, func()) {
	db, err := sql.Open("sqlite3", ":memory:")
	if err != nil {
		panic(err)
	}
	db.SetMaxOpenConns(1)
	for _, stmt := range refsql.CreateTableStmts {
		if _, err := db.Exec(stmt); err != nil {
			panic(err)
		}
	}
	return refsql.NewStore(db), func() { db.Close() }
}

// c03Diagnose runs the doctor over heads/ and returns the messages of the issues.
func c03Diagnose(db objects.Store, rs ref.Store) []string {
	d := doctor.NewDoctor(db, rs, conf.User{Name: "verif", Email: "v@example.invalid"}, logr.Discard())
	ch, ech, err := d.Diagnose(context.Background(), []string{"heads/"}, nil, nil)
	if err != nil {
		panic(err)
	}
	var msgs []string
	for ri := range ch {
		for _, is := range ri.Issues {
			msgs = append(msgs, is.Err)
		}
	}
	if e, ok := <-ech; ok && e != nil {
		panic(e)
	}
	return msgs
}

func runC03(ctx *Ctx, c *xt.T) (*xt.T, Verdict) {
	k := c01Decode(c)
	res := c01Ingest(ctx, k)
	defer res.Cleanup()
	v := OK()
	bad := func(class, format string, a ...interface{}) {
		if v.OK {
			v = Fail(class, format, a...)
		}
	}
	c01Judge(k, res, bad)
	if res.Err != nil {
		return xt.N(xt.LI(1), xt.LI(0), xt.N(), xt.N(), xt.N(), xt.LI(0), xt.LI(0)), v
	}
	tbl := res.Tbl
	pki := make([]int, len(tbl.PK))
	for i, u := range tbl.PK {
		pki[i] = int(u)
	}
	idx := c19PkIndices(len(tbl.Columns), pki)
	cn := c01NewCanon(k, tbl.PK)

	// ---------- the invariants, checked directly ----------
	total := 0
	var prevKey []string
	for i, b := range res.Blocks {
		total += len(b)
		if len(b) == 0 || len(b) > 255 || (i < len(res.Blocks)-1 && len(b) != 255) {
			bad("block-size", "block %d of %d has %d rows", i, len(res.Blocks), len(b))
		}
		for j, r := range b {
			if len(r) != len(tbl.Columns) {
				bad("row-shape", "block %d row %d has %d cells for %d columns", i, j, len(r), len(tbl.Columns))
				continue
			}
			key := c19KeyOf(idx, r)
			if prevKey != nil && !c19KeyLess(prevKey, key) {
				bad("keys-not-increasing", "block %d row %d: key %q after %q", i, j, key, prevKey)
			}
			prevKey = key
		}
	}
	if int(tbl.RowsCount) != total {
		bad("rowcount", "RowsCount %d but %d rows present", tbl.RowsCount, total)
	}
	if len(tbl.BlockIndices) != len(tbl.Blocks) {
		bad("index-count", "%d block indices for %d blocks", len(tbl.BlockIndices), len(tbl.Blocks))
	}
	if len(res.TblIdx) != len(res.Blocks) {
		bad("table-index", "table index has %d entries for %d blocks", len(res.TblIdx), len(res.Blocks))
	} else {
		for i, b := range res.Blocks {
			if len(b) > 0 && len(b[0]) == len(tbl.Columns) && c19KeyString(res.TblIdx[i]) != c19KeyString(c19KeyOf(idx, b[0])) {
				bad("table-index", "entry %d is %q but block %d starts with key %q", i, res.TblIdx[i], i, c19KeyOf(idx, b[0]))
			}
		}
	}
	// row addressing used by diff/merge: offset i*255+j -> (i, j)
	for i, b := range res.Blocks {
		for _, j := range []int{0, len(b) - 1} {
			bi, bo := diff.RowToBlockAndOffset(uint32(i*255 + j))
			if int(bi) != i || int(bo) != j {
				bad("row-addr", "RowToBlockAndOffset(%d) = (%d,%d), row is (%d,%d)", i*255+j, bi, bo, i, j)
			}
		}
	}
	// block indices
	tIdx := xt.N()
	for i, bidx := range res.BlkIdx {
		ti := xt.N()
		if i >= len(res.Blocks) {
			tIdx.Add(ti)
			continue
		}
		b := res.Blocks[i]
		if bidx.Len() != len(b) {
			bad("block-index", "index %d has %d entries for %d rows", i, bidx.Len(), len(b))
		}
		byPk := map[string]int{}
		rowSums := make([]string, len(b))
		for j, r := range b {
			ps, rsum := c03Hashes(tbl.PK, r)
			byPk[ps] = j
			rowSums[j] = rsum
			off, got := bidx.Get([]byte(ps))
			if got == nil || int(off) != j || string(got) != rsum {
				bad("block-index", "index %d: Get(hash of key of row %d) = (%d, %x)", i, j, off, got)
			}
		}
		for _, r := range b[:c19Min(len(b), 3)] {
			absent := append([]string{}, r...)
			for _, u := range idx {
				absent[u] += "~absent"
			}
			ps, _ := c03Hashes(tbl.PK, absent)
			if _, ok := byPk[ps]; ok {
				continue
			}
			if _, got := bidx.Get([]byte(ps)); got != nil {
				bad("block-index", "index %d answers for a key that is not in the block", i)
			}
		}
		for p, e := range bidx.Rows {
			j, ok := byPk[string(e[:16])]
			if !ok || rowSums[j] != string(e[16:]) {
				ti.Add(xt.N(xt.LI(9)))
				bad("block-index", "index %d entry %d matches no row of the block", i, p)
				continue
			}
			ti.Add(xt.N(xt.Strs(c19KeyOf(idx, b[j])), c19Crow(cn.amb, cn.idx, b[j])))
		}
		tIdx.Add(ti)
	}
	// IndexBlock on decoded rows must reproduce the stored index sums
	if err := ingest.IndexTable(res.DB, res.Sum, tbl, logr.Discard()); err != nil {
		bad("index-disagree", "ingest.IndexTable: %v", err)
	}
	// the repository's own diagnosis
	var msgs []string
	if k.Kind == 1 {
		msgs = c03Diagnose(res.DB, res.RefStore)
	} else {
		rs, closeRS := c03RefStore()
		com := &objects.Commit{Table: res.Sum, Message: "m", Time: time.Now(), AuthorName: "verif", AuthorEmail: "v@example.invalid"}
		var bb bytesBuffer
		if _, err := com.WriteTo(&bb); err != nil {
			panic(err)
		}
		csum, err := objects.SaveCommit(res.DB, bb.b)
		if err != nil {
			panic(err)
		}
		if err := ref.CommitHead(rs, "main", csum, com, nil); err != nil {
			panic(err)
		}
		msgs = c03Diagnose(res.DB, rs)
		closeRS()
	}
	diag := 0
	if len(msgs) > 0 {
		diag = c03IssueCode(msgs[0])
		bad("diagnose-issue", "doctor reports %q on a freshly ingested table", msgs[0])
	}
	return xt.N(xt.LI(0), xt.L(uint64(tbl.RowsCount)), cn.blocks(res.Blocks), c19Rows(res.TblIdx), tIdx,
		xt.LI(len(tbl.BlockIndices)), xt.LI(diag)), v
}

type bytesBuffer struct{ b []byte }

func (w *bytesBuffer) Write(p []byte) (int, error) { w.b = append(w.b, p...); return len(p), nil }

func c19Min(a, b int) int {
	if a < b {
		return a
	}
	return b
}

// ------------------------------------------------------------------ generation

func genC03(ctx *Ctx) []Case {
	g := &c01Gen{ctx: ctx, huge: uint64(1) << 40}
	ab := []string{"a", "b"}
	seqRows := func(n int) [][]string {
		rows := make([][]string, n)
		for i := range rows {
			rows[i] = []string{fmt.Sprintf("%04d", i), "v"}
		}
		return rows
	}
	// ---- witnesses ----
	{
		rows := append(seqRows(300), []string{"0254", "dup"})
		g.add("witness", true, c01Case{nil, 0, ab, []string{"a"}, rows, g.huge, []int{1, 0}, 4, ','}) // fa79010 blkPK from a discarded duplicate
		g.add("witness", true, c01Case{nil, 0, ab, []string{"a"}, rows, 64, []int{1, 0}, 8, ','})
		g.add("witness", true, c01Case{nil, 2, ab, []string{"a"}, rows, 4096, nil, 3, ','})
	}
	g.add("witness", true, c01Case{nil, 0, ab, []string{"a"}, [][]string{{"", ""}, {"x", "y"}}, g.huge, nil, 1, ','}) // 24a3386 diagnose first row all-empty
	g.add("witness", true, c01Case{nil, 1, ab, []string{"a"}, [][]string{{"", ""}, {"x", "y"}}, 4096, nil, 1, ','})
	g.add("witness", true, c01Case{nil, 0, []string{"a"}, nil, [][]string{{""}, {"x"}}, 1, nil, 1, ','})
	g.add("witness", true, c01Case{nil, 0, ab, []string{"a"}, [][]string{{"", "1"}, {"x", "2"}}, g.huge, nil, 1, ','}) // 8d128f5
	// ---- block-boundary sizes N*255+r, all run sizes, duplicates at the boundaries ----
	rs := []uint64{1, 64, 4096, g.huge}
	sizes := []int{0, 1, 127, 254, 255, 256, 382, 509, 510, 511, 765, 766}
	if ctx.Thorough() {
		sizes = append(sizes, 637, 764, 1019, 1020, 1021)
	}
	for si, n := range sizes {
		rows := seqRows(n)
		ctx.Rng.Shuffle(len(rows), func(i, j int) { rows[i], rows[j] = rows[j], rows[i] })
		kind := 0
		if si%3 == 2 {
			kind = 2
		}
		g.add("boundary", n >= 2, c01Case{nil, kind, ab, []string{"a"}, rows, rs[si%4], g.arrival(), c01Workers[si%len(c01Workers)], ','})
		ctx.Count("boundary_sizes")
		if n >= 255 {
			// duplicates of the rows around every block boundary, appended / prepended
			var dups [][]string
			for b := 255; b <= n; b += 255 {
				for _, p := range []int{b - 1, b} {
					if p < n {
						dups = append(dups, []string{fmt.Sprintf("%04d", p), "dup"})
					}
				}
			}
			rows2 := append(append([][]string{}, dups...), rows...)
			g.add("boundary", true, c01Case{nil, 0, ab, []string{"a"}, rows2, rs[(si+1)%4], g.arrival(), c01Workers[(si+2)%len(c01Workers)], ','})
			rows3 := append(append([][]string{}, rows...), dups...)
			g.add("boundary", true, c01Case{nil, 2, ab, nil, rows3, rs[(si+2)%4], g.arrival(), c01Workers[(si+3)%len(c01Workers)], ','})
			ctx.Count("boundary_with_duplicates")
		}
	}
	// ---- all C01 configurations, random; a third through the sorter producer ----
	n := 260
	if ctx.Thorough() {
		n = 2000
	}
	for i := 0; i < n; i++ {
		k := g.randTable(800, false)
		if i%3 == 0 {
			k.Kind = 2
			// no CSV on this path: cells may hold \r\n as well
			for _, r := range k.Rows {
				if ctx.Pick(8) == 0 {
					r[ctx.Pick(len(r))] = "a\r\nb"
				}
			}
			ctx.Count("producer_sorter")
			g.cases = append(g.cases, Case{Tag: "rand-sorter", Nontrivial: len(k.Rows) >= 2, C: c01Tree(k)})
			continue
		}
		ctx.Count("producer_ingest")
		g.add("rand", len(k.Rows) >= 2, k)
	}
	nc := 5
	if ctx.Thorough() {
		nc = 40
	}
	for i := 0; i < nc; i++ {
		k := g.randTable(600, false)
		k.Kind = 1
		okNames := true
		for _, c := range k.Columns {
			if strings.ContainsAny(c, ", \"") {
				okNames = false
			}
		}
		if !okNames {
			continue
		}
		if k.RunSize == g.huge {
			k.RunSize = 1 << 30
		}
		ctx.Count("producer_cli")
		g.add("cli", len(k.Rows) >= 2, k)
	}
	return g.cases
}
