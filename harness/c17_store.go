package main

import (
	"bytes"
	"fmt"

	"github.com/klauspost/compress/s2"
	"github.com/wrgl/wrgl/pkg/encoding/packfile"
	"github.com/wrgl/wrgl/pkg/objects"
	objmock "github.com/wrgl/wrgl/pkg/objects/mock"

	"verifharness/xt"
)

// C17, persistence layer and store faults (formats in c17.go / coq/model/DecRun.v):
//   case = (30..35 stored missing [(decoded)])  objects.GetCommit / GetTable / GetBlock /
//          GetBlockIndex / GetTableIndex / GetTableProfile over an objmock store whose value under
//          the key is `stored` (missing = 1: no such key); for 32 / 33 the 4th element is what
//          s2.Decode makes of the stored value (() = corrupt), tabulated here for the model.
//   the optional 6th element (a b c) of a Receive case: a-1 = index of the Store.Set that fails,
//          b-1 = key prefix all of whose Sets fail, c-1 = index of the Store.Get that fails.

var c17S2Witness = []byte("PACK\x00\x00\x00\x01\xb5\x00\xff\xff\xff\xff\x0f")
var c17StoreS2Witness = []byte{0xff, 0xff, 0xff, 0xff, 0x0f}

// above this announced length the allocation is classified without being performed
const c17Predict = 256 << 20

// c17FaultStore fails the setAt-th Set, every Set on one key prefix, the getAt-th Get.
type c17FaultStore struct {
	*objmock.Store
	sets, gets   int
	setAt, getAt int // -1 = never
	kind         int // index into c17Prefixes, -1 = none
}

func (s *c17FaultStore) Set(k, v []byte) error {
	n := s.sets
	s.sets++
	if n == s.setAt || (s.kind >= 0 && bytes.HasPrefix(k, []byte(c17Prefixes[s.kind]))) {
		return fmt.Errorf("injected Set failure")
	}
	return s.Store.Set(k, v)
}

func (s *c17FaultStore) Get(k []byte) ([]byte, error) {
	n := s.gets
	s.gets++
	if n == s.getAt {
		return nil, fmt.Errorf("injected Get failure")
	}
	return s.Store.Get(k)
}

func c17RunStore(entry int, stored []byte, missing bool) (*xt.T, Verdict) {
	if entry == 32 || entry == 33 {
		if n, err := s2.DecodedLen(stored); err == nil && uint64(n) > c17Predict && !(entry == 32 && bytes.Equal(stored, c17StoreS2Witness)) {
			return c17Err(), Fail("store-alloc-s2", "not run: the stored value (%d bytes) announces %d decoded bytes, which s2.Decode allocates before decoding", len(stored), n)
		}
	}
	db := objmock.NewStore()
	sum := make([]byte, 16)
	prefix := map[int]string{30: "com/", 31: "tbl/", 32: "blk/", 33: "blkidx/", 34: "tblidx/", 35: "tblsum/"}[entry]
	if !missing {
		db.Set(append([]byte(prefix), sum...), stored)
	}
	obs, pmsg, alloc, timedOut := c17GuardedMin(true, c17Budget(len(stored)), func() *xt.T {
		switch entry {
		case 30:
			c, err := objects.GetCommit(db, sum)
			if err != nil {
				return c17Err()
			}
			return c18Ok(c18CommitTree(c))
		case 31:
			t, err := objects.GetTable(db, sum)
			if err != nil {
				return c17Err()
			}
			return c18Ok(c18TableTree(t))
		case 32:
			blk, _, err := objects.GetBlock(db, nil, sum)
			if err != nil {
				return c17Err()
			}
			return c18Ok(c18BlockTree(blk))
		case 33:
			idx, _, err := objects.GetBlockIndex(db, nil, sum)
			if err != nil {
				return c17Err()
			}
			buf := bytes.NewBuffer(nil)
			if _, err := idx.WriteTo(buf); err != nil {
				panic(err)
			}
			return c18Ok(xt.N(xt.Bytes(buf.Bytes()[1:1+len(idx.Rows)]), c18ByteSlices(idx.Rows)))
		case 34:
			blk, err := objects.GetTableIndex(db, sum)
			if err != nil {
				return c17Err()
			}
			return c18Ok(c18BlockTree(blk))
		}
		tp, err := objects.GetTableProfile(db, sum)
		if err != nil {
			return c17Err()
		}
		return c18Ok(c18ProfileTree(tp))
	})
	switch {
	case timedOut:
		return obs, Fail("store-reader-timeout", "entry %d did not return within 60s on %d stored bytes", entry, len(stored))
	case pmsg != "":
		return obs, Fail("store-reader-panic", "entry %d panicked on stored value %x: %s", entry, stored, pmsg)
	case alloc > c17Budget(len(stored)):
		if n, err := s2.DecodedLen(stored); (entry == 32 || entry == 33) && err == nil && uint64(n) > c17Budget(len(stored)) {
			return obs, Fail("store-alloc-s2", "entry %d allocated %d bytes for a %d-byte stored value whose s2 header announces %d", entry, alloc, len(stored), n)
		}
		return obs, Fail("store-reader-alloc", "entry %d allocated %d bytes for %d stored bytes", entry, alloc, len(stored))
	}
	return obs, OK()
}

func c17StoreCase(entry int, stored []byte, missing bool) *xt.T {
	m := 0
	if missing {
		m = 1
	}
	c := xt.N(xt.LI(entry), xt.Bytes(stored), xt.LI(m))
	if entry == 32 || entry == 33 {
		dec := xt.N()
		func() {
			defer func() { recover() }()
			if n, err := s2.DecodedLen(stored); err != nil || n > 1<<26 {
				return
			}
			if raw, err := s2.Decode(nil, stored); err == nil {
				dec = xt.N(xt.Bytes(raw))
			}
		}()
		c.Add(dec)
	}
	return c
}

func c17GenStore(ctx *Ctx, add func(tag string, nt bool, c *xt.T)) {
	emit := func(entry int) func(tag string, m []byte) {
		return func(tag string, m []byte) {
			add("store-"+tag, len(m) > 0, c17StoreCase(entry, m, false))
			ctx.Count("store_" + tag)
		}
	}
	// (the fixed witness of store-alloc-s2, GetBlock over ff ff ff ff 0f, is in corpus/C17 and is
	// the only case of its class that really performs the allocation)
	add("store-witness", true, c17StoreCase(33, c17StoreS2Witness, false))
	n := 1
	if ctx.Thorough() {
		n = 4
	}
	for e := 30; e <= 35; e++ {
		add("store-missing", false, c17StoreCase(e, nil, true))
		add("store-valid", false, c17StoreCase(e, nil, false)) // empty stored value
		for i := 0; i < n; i++ {
			switch e {
			case 30:
				c17Mutations(ctx, c18Stream(ctx, 2), emit(e))
			case 31:
				c17Mutations(ctx, c18Stream(ctx, 3), emit(e))
			case 32, 33:
				rows := c18Rows(ctx, 1+ctx.Pick(4), 2)
				plain := c18BlockBytes(rows)
				if e == 33 {
					plain = c18BlockIndexBytes(rows, []uint32{0})
				}
				// hostile compressed bytes, and the compression of hostile plain bytes
				c17Mutations(ctx, s2.EncodeBetter(nil, plain), emit(e))
				c17Mutations(ctx, plain, func(tag string, m []byte) { emit(e)("z-"+tag, s2.EncodeBetter(nil, m)) })
			case 34:
				c17Mutations(ctx, c18BlockBytes(c18Rows(ctx, 1+ctx.Pick(3), 1+ctx.Pick(2))), emit(e))
			default:
				c17Mutations(ctx, c18Stream(ctx, 7), emit(e))
			}
		}
	}
}

// c17CountOps runs Receive without faults and reports how many Sets and Gets it performs.
func c17CountOps(pack []byte) (sets, gets int) {
	_, _, fs := c17Receive1(pack, [3]int{})
	return fs.sets, fs.gets
}

// c17GenFaults: valid sender-built packfiles received over a store that fails at every
// possible point.
func c17GenFaults(ctx *Ctx, pack []byte, add func(tag string, nt bool, c *xt.T)) {
	base := c17ReceiveCase(pack)
	with := func(a, b, c int) *xt.T {
		t := xt.N(base.Kids...)
		t.Add(xt.N(xt.LI(a), xt.LI(b), xt.LI(c)))
		return t
	}
	sets, gets := c17CountOps(pack)
	for n := 0; n < sets && n < 64; n++ {
		add("recv-fault-set", true, with(n+1, 0, 0))
	}
	for k := 0; k < len(c17Prefixes); k++ {
		add("recv-fault-prefix", true, with(0, k+1, 0))
	}
	for n := 0; n < gets && n < 64; n++ {
		add("recv-fault-get", true, with(0, 0, n+1))
	}
	ctx.Count("recv_fault_worlds")
	_ = packfile.ObjectBlock
}
