package main

import (
	"bytes"
	"context"
	"encoding/csv"
	"fmt"
	"io"
	"os"
	"os/exec"
	"path/filepath"
	"sort"
	"strings"

	"github.com/go-logr/logr"
	"github.com/pckhoi/meow"
	"github.com/wrgl/wrgl/pkg/diff"
	"github.com/wrgl/wrgl/pkg/index"
	"github.com/wrgl/wrgl/pkg/ingest"
	"github.com/wrgl/wrgl/pkg/merge"
	"github.com/wrgl/wrgl/pkg/misc"
	"github.com/wrgl/wrgl/pkg/objects"
	objmock "github.com/wrgl/wrgl/pkg/objects/mock"
	"github.com/wrgl/wrgl/pkg/sorter"

	"verifharness/xt"
)

// C05: three-way merge vs model (coq/model/ColDiff.v, coq/model/Merge.v) and vs a
// name-based merge specification computed over Go maps (c05_oracle.go).
//
// case  = (mode base (other ...) policy remmode blocks)
//   mode    0 library merge (diff.CompareColumns, RowResolver.Resolve per key, merge.Merger end to end)
//           1 CLI: wrgl merge --no-gui, and when nothing conflicts wrgl merge --no-commit,
//             wrgl merge (commit) + wrgl export           (two branches only)
//           2 diff.CompareColumns alone (rows ignored; columns / pk may be malformed)
//   table   ((col ...) (pkname ...) ((cell ...) ...))      cells, names = byte strings
//   policy  what the caller does with unresolved Merge records before asking for the result:
//           0 nothing, 1 SaveResolvedRow(pk, nil) (as --no-gui does), 2 SaveResolvedRow(pk, ResolvedRow)
//   remmode removedCols passed to SortedRows/Columns: 0 nil, 1 union of ColDiff.Removed (as merge_cmd.go)
//   blocks  0 result read through SortedRows, 1 through SortedBlocks (decoded)
//
// observation, mode 0:
//   (status names layers baseIdx otherIdx basePK otherPK recs cols rows)     status 0
//   (status)                                                              status 1 error, 2 panic
//   layers   ((added ...) (removed ...)) per branch, indices into names, ascending
//   baseIdx  per names index: () or (j);  otherIdx: one such list per branch
//   basePK   indices into names; otherPK one list per branch
//   recs     per key for which the merger resolves anything, ascending by key cells:
//            (key basePresent (present ...) resolved rowopt (unresolvedCol ...)), rowopt = () | ((cell ...))
//            key = the key cells (keyless: all cells of the row)
//   cols     Columns(removedCols); rows: the sorted result rows
// observation, mode 2: (0 names layers baseIdx otherIdx basePK otherPK) | (2)
// observation, mode 1: (status names flags resolutions rest commit)
//   flags        per branch, per column 0 | 1 NEW | 2 REMOVED (CONFLICTS csv)
//   resolutions  RESOLUTION rows of the CONFLICTS csv, sorted;  rest: its trailing unlabelled rows
//   commit       ((col ...) ((cell ...) ...)) = MERGE csv = export of the merge commit when nothing conflicts;
//                when the library reports an unresolved record: `wrgl merge` without --no-gui (merge tool
//                unable to start: TERM names no terminal) must refuse: (1); anything it committed otherwise

func init() { props["C05"] = &Prop{Gen: genC05, Run: runC05} }

type c05Table struct {
	Cols []string
	PK   []string
	Rows [][]string
}

func c05Strs(t *xt.T) []string {
	r := make([]string, len(t.Kids))
	for i, k := range t.Kids {
		r[i] = string(k.AsBytes())
	}
	return r
}

func c05ParseTable(t *xt.T) *c05Table {
	tb := &c05Table{Cols: c05Strs(t.Kids[0]), PK: c05Strs(t.Kids[1])}
	for _, r := range t.Kids[2].Kids {
		tb.Rows = append(tb.Rows, c05Strs(r))
	}
	return tb
}

func c05TableTree(tb *c05Table) *xt.T {
	rows := xt.N()
	for _, r := range tb.Rows {
		rows.Add(xt.Strs(r))
	}
	return xt.N(xt.Strs(tb.Cols), xt.Strs(tb.PK), rows)
}

func c05Case(mode int, base *c05Table, others []*c05Table, policy, remmode, blocks int) *xt.T {
	os := xt.N()
	for _, o := range others {
		os.Add(c05TableTree(o))
	}
	return xt.N(xt.LI(mode), c05TableTree(base), os, xt.LI(policy), xt.LI(remmode), xt.LI(blocks))
}

func c05CSV(tb *c05Table) []byte {
	buf := bytes.NewBuffer(nil)
	w := csv.NewWriter(buf)
	w.Write(tb.Cols)
	for _, r := range tb.Rows {
		w.Write(r)
	}
	w.Flush()
	return buf.Bytes()
}

func c05Ingest(db objects.Store, tb *c05Table) ([]byte, *objects.Table, error) {
	s, err := sorter.NewSorter(sorter.WithRunSize(1 << 30)) // explicit run size: no exec of awk per table
	if err != nil {
		return nil, nil, err
	}
	sum, err := ingest.IngestTable(db, s, io.NopCloser(bytes.NewReader(c05CSV(tb))), tb.PK, logr.Discard())
	if err != nil {
		return nil, nil, err
	}
	t, err := objects.GetTable(db, sum)
	if err != nil {
		return nil, nil, err
	}
	return sum, t, nil
}

func c05Hash(cells []string) string {
	enc := objects.NewStrListEncoder(true)
	s := meow.Checksum(0, enc.Encode(cells))
	return string(s[:])
}

func c05Pick(row []string, idx []int) []string {
	r := make([]string, len(idx))
	for i, j := range idx {
		r[i] = row[j]
	}
	return r
}

// index of each pk name in cols (-1 when absent)
func c05PKIdx(cols, pk []string) []int {
	r := make([]int, len(pk))
	for i, p := range pk {
		r[i] = -1
		for j, c := range cols {
			if c == p {
				r[i] = j
				break
			}
		}
	}
	return r
}

func c05KeyOf(tb *c05Table, row []string) []string {
	if len(tb.PK) == 0 {
		return row
	}
	return c05Pick(row, c05PKIdx(tb.Cols, tb.PK))
}

func c05SortedKeys(m map[uint32]struct{}) []int {
	r := []int{}
	for k := range m {
		r = append(r, int(k))
	}
	sort.Ints(r)
	return r
}

func c05IdxTree(m map[uint32]uint32, n int) *xt.T {
	t := xt.N()
	for i := 0; i < n; i++ {
		if j, ok := m[uint32(i)]; ok {
			t.Add(xt.N(xt.LI(int(j))))
		} else {
			t.Add(xt.N())
		}
	}
	return t
}

func c05U32s(l []uint32) *xt.T {
	t := xt.N()
	for _, v := range l {
		t.Add(xt.LI(int(v)))
	}
	return t
}

func c05ColDiffTrees(cd *diff.ColDiff) []*xt.T {
	n := cd.Len()
	layers := xt.N()
	oidx := xt.N()
	opk := xt.N()
	for l := 0; l < cd.Layers(); l++ {
		layers.Add(xt.N(xt.Ints(c05SortedKeys(cd.Added[l])), xt.Ints(c05SortedKeys(cd.Removed[l]))))
		oidx.Add(c05IdxTree(cd.OtherIdx[l], n))
		opk.Add(c05U32s(cd.OtherPK[l]))
	}
	return []*xt.T{xt.Strs(cd.Names), layers, c05IdxTree(cd.BaseIdx, n), oidx, c05U32s(cd.BasePK), opk}
}

func c05LessCells(a, b []string) bool {
	for i := 0; i < len(a) && i < len(b); i++ {
		if a[i] != b[i] {
			return a[i] < b[i]
		}
	}
	return len(a) < len(b)
}

type c05Rec struct {
	Key        []string
	BasePres   bool
	Present    []bool
	Resolved   bool
	Row        []string // nil = no row
	Unresolved []int
}

type c05Result struct {
	Status int
	CD     *diff.ColDiff
	Recs   []*c05Rec
	Cols   []string
	Rows   [][]string
	Note   string // harness-internal inconsistency (direct Resolve route vs Merger.Start)
}

func c05Drain(ch <-chan *objects.Diff) []*objects.Diff {
	var r []*objects.Diff
	for d := range ch {
		r = append(r, d)
	}
	return r
}

// c05RunLib runs the library merge on ingested tables.
func c05RunLib(base *c05Table, others []*c05Table, policy, remmode, blocks int) (res *c05Result, err error) {
	res = &c05Result{}
	db := objmock.NewStore()
	baseSum, baseT, err := c05Ingest(db, base)
	if err != nil {
		return nil, fmt.Errorf("ingest base: %v", err)
	}
	n := len(others)
	otherTs := make([]*objects.Table, n)
	otherSums := make([][]byte, n)
	for i, o := range others {
		otherSums[i], otherTs[i], err = c05Ingest(db, o)
		if err != nil {
			return nil, fmt.Errorf("ingest branch %d: %v", i, err)
		}
	}
	// hash -> key cells
	keyOf := map[string][]string{}
	for _, tb := range append([]*c05Table{base}, others...) {
		for _, r := range tb.Rows {
			k := c05KeyOf(tb, r)
			keyOf[c05Hash(k)] = k
		}
	}

	// ---- route A: CompareColumns + DiffTables per branch + RowResolver.Resolve per key
	cols := make([][2][]string, n)
	for i, t := range otherTs {
		cols[i] = [2][]string{t.Columns, t.PrimaryKey()}
	}
	cd := diff.CompareColumns([2][]string{baseT.Columns, baseT.PrimaryKey()}, cols...)
	res.CD = cd
	baseIdx, err := objects.GetTableIndex(db, baseSum)
	if err != nil {
		return nil, err
	}
	merges := map[string]*merge.Merge{}
	for i, t := range otherTs {
		idx, err := objects.GetTableIndex(db, otherSums[i])
		if err != nil {
			return nil, err
		}
		errCh := make(chan error, 4)
		ch, _ := diff.DiffTables(db, db, t, baseT, idx, baseIdx, errCh, logr.Discard(), diff.WithEmitUnchangedRow())
		for _, d := range c05Drain(ch) {
			k := string(d.PK)
			m, ok := merges[k]
			if !ok {
				m = &merge.Merge{PK: d.PK, Base: d.OldSum, BaseOffset: d.OldOffset,
					Others: make([][]byte, n), OtherOffsets: make([]uint32, n)}
				merges[k] = m
			}
			m.Others[i] = d.Sum
			m.OtherOffsets[i] = d.Offset
		}
		select {
		case e := <-errCh:
			return nil, fmt.Errorf("diff: %v", e)
		default:
		}
	}
	bufA, err := diff.BlockBufferWithSingleStore(db, append([]*objects.Table{baseT}, otherTs...))
	if err != nil {
		return nil, err
	}
	resolver := merge.NewRowResolver(db, cd, bufA)
	direct := map[string]*merge.Merge{}
	for k, m := range merges {
		if m.Base != nil {
			noCh := true
			for _, b := range m.Others {
				if !bytes.Equal(b, m.Base) {
					noCh = false
				}
			}
			if noCh {
				continue
			}
		}
		if err := resolver.Resolve(m); err != nil {
			return nil, fmt.Errorf("resolve: %v", err)
		}
		direct[k] = m
		key, ok := keyOf[k]
		if !ok {
			return nil, fmt.Errorf("merge record with unknown key hash %x", k)
		}
		r := &c05Rec{Key: key, BasePres: m.Base != nil, Resolved: m.Resolved, Row: m.ResolvedRow,
			Unresolved: c05SortedKeys(m.UnresolvedCols)}
		for _, s := range m.Others {
			r.Present = append(r.Present, s != nil)
		}
		res.Recs = append(res.Recs, r)
	}
	sort.Slice(res.Recs, func(i, j int) bool { return c05LessCells(res.Recs[i].Key, res.Recs[j].Key) })

	// ---- route B: the real Merger end to end
	hs, err := index.NewHashSet(misc.NewBuffer(nil), 0)
	if err != nil {
		return nil, err
	}
	collector, err := merge.NewCollector(db, baseT, hs)
	if err != nil {
		return nil, err
	}
	merger, err := merge.NewMerger(db, collector, bufA, 0, baseT, otherTs, baseSum, otherSums, logr.Discard())
	if err != nil {
		return nil, err
	}
	defer merger.Close()
	mch, err := merger.Start()
	if err != nil {
		res.Status = 1
		return res, nil
	}
	var emitted []*merge.Merge
	var cdB *diff.ColDiff
	for m := range mch {
		if m.ColDiff != nil {
			cdB = m.ColDiff
			continue
		}
		emitted = append(emitted, m)
	}
	if err := merger.Error(); err != nil {
		res.Status = 1
		return res, nil
	}
	if cdB == nil || strings.Join(cdB.Names, "\x00") != strings.Join(cd.Names, "\x00") {
		res.Note = "Merger.Start ColDiff differs from CompareColumns"
	}
	// the unresolved records emitted by the merger must be exactly the unresolved ones of route A
	nUnres := 0
	for _, m := range direct {
		if !m.Resolved {
			nUnres++
		}
	}
	if nUnres != len(emitted) {
		res.Note = fmt.Sprintf("Merger.Start emitted %d unresolved records, direct Resolve gives %d", len(emitted), nUnres)
	}
	for _, m := range emitted {
		d := direct[string(m.PK)]
		if d == nil || d.Resolved || m.Resolved || fmt.Sprint(d.ResolvedRow) != fmt.Sprint(m.ResolvedRow) ||
			fmt.Sprint(c05SortedKeys(d.UnresolvedCols)) != fmt.Sprint(c05SortedKeys(m.UnresolvedCols)) {
			res.Note = fmt.Sprintf("Merger.Start record for key %q differs from direct Resolve", keyOf[string(m.PK)])
		}
		switch policy {
		case 1:
			if err := merger.SaveResolvedRow(m.PK, nil); err != nil {
				return nil, err
			}
		case 2:
			if err := merger.SaveResolvedRow(m.PK, m.ResolvedRow); err != nil {
				return nil, err
			}
		}
	}
	var removedCols map[int]struct{}
	if remmode == 1 {
		removedCols = map[int]struct{}{}
		for _, layer := range cd.Removed {
			for col := range layer {
				removedCols[int(col)] = struct{}{}
			}
		}
	}
	res.Cols = merger.Columns(removedCols)
	ctx, cancel := context.WithCancel(context.Background())
	defer cancel()
	res.Rows = [][]string{}
	if blocks == 0 {
		ch, err := merger.SortedRows(ctx, removedCols)
		if err != nil {
			res.Status = 1
			return res, nil
		}
		for blk := range ch {
			res.Rows = append(res.Rows, blk.Rows...)
		}
	} else {
		ch, err := merger.SortedBlocks(ctx, removedCols)
		if err != nil {
			res.Status = 1
			return res, nil
		}
		for blk := range ch {
			_, rows, err := objects.ReadBlockFrom(bytes.NewReader(blk.Block))
			if err != nil {
				return nil, fmt.Errorf("result block undecodable: %v", err)
			}
			res.Rows = append(res.Rows, rows...)
		}
	}
	if err := merger.Error(); err != nil {
		res.Status = 1
	}
	return res, nil
}

func c05RowsTree(rows [][]string) *xt.T {
	t := xt.N()
	for _, r := range rows {
		t.Add(xt.Strs(r))
	}
	return t
}

func c05Bools(l []bool) *xt.T {
	t := xt.N()
	for _, b := range l {
		t.Add(xt.Bool(b))
	}
	return t
}

func runC05(ctx *Ctx, c *xt.T) (*xt.T, Verdict) {
	mode := int(c.Kids[0].N)
	base := c05ParseTable(c.Kids[1])
	var others []*c05Table
	for _, o := range c.Kids[2].Kids {
		others = append(others, c05ParseTable(o))
	}
	policy, remmode, blocks := int(c.Kids[3].N), int(c.Kids[4].N), int(c.Kids[5].N)
	if mode == 2 {
		return c05RunColDiff(base, others)
	}
	// A panic inside the sorter goroutine (SortedBlocks with a removed column index beyond the
	// width of a base-layout row: known finding F1) kills the process: such cases run in a child.
	layoutChanged := false
	for _, o := range others {
		if !c05EqStrs(o.Cols, base.Cols) {
			layoutChanged = true
		}
	}
	if layoutChanged && (mode == 1 || (blocks == 1 && remmode == 1) || len(base.PK) == 0) && os.Getenv("C05_CHILD") == "" {
		return c05RunChild(ctx, c, base, others)
	}
	if mode == 1 {
		return c05RunCLI(ctx, base, others)
	}
	res, err := c05RunLib(base, others, policy, remmode, blocks)
	if err != nil {
		return xt.N(xt.LI(1)), Fail("harness-setup", "%v", err)
	}
	if res.Status != 0 {
		return xt.N(xt.LI(res.Status)), c05JudgeError(base, others)
	}
	obs := xt.N(xt.LI(0))
	obs.Add(c05ColDiffTrees(res.CD)...)
	recs := xt.N()
	for _, r := range res.Recs {
		row := xt.N()
		if r.Row != nil {
			row.Add(xt.Strs(r.Row))
		}
		recs.Add(xt.N(xt.Strs(r.Key), xt.Bool(r.BasePres), c05Bools(r.Present), xt.Bool(r.Resolved), row, xt.Ints(r.Unresolved)))
	}
	obs.Add(recs, xt.Strs(res.Cols), c05RowsTree(res.Rows))
	if res.Note != "" {
		return obs, Fail("merger-vs-direct-resolve", "%s", res.Note)
	}
	return obs, c05Judge(base, others, policy, remmode, res)
}

func c05RunColDiff(base *c05Table, others []*c05Table) (obs *xt.T, v Verdict) {
	defer func() {
		if r := recover(); r != nil {
			obs = xt.N(xt.LI(2))
			if len(others) == 0 {
				v = OK() // CompareColumns needs at least one branch: documented precondition
			} else {
				v = Fail("comparecolumns-panic", "CompareColumns panicked: %v", r)
			}
		}
	}()
	cols := make([][2][]string, len(others))
	for i, t := range others {
		cols[i] = [2][]string{t.Cols, t.PK}
	}
	cd := diff.CompareColumns([2][]string{base.Cols, base.PK}, cols...)
	obs = xt.N(xt.LI(0))
	obs.Add(c05ColDiffTrees(cd)...)
	return obs, c05JudgeColDiff(base, others, cd)
}

func c05RunChild(ctx *Ctx, c *xt.T, base *c05Table, others []*c05Table) (*xt.T, Verdict) {
	in := filepath.Join(ctx.Tmp, "c05child.in")
	out := filepath.Join(ctx.Tmp, "c05child.out")
	os.Remove(out)
	if err := os.WriteFile(in, []byte("C "+c.String()+"\n"), 0600); err != nil {
		panic(err)
	}
	cmd := exec.Command(os.Args[0], "replay", "C05", in, out)
	cmd.Env = append(os.Environ(), "C05_CHILD=1")
	msg, cerr := cmd.CombinedOutput()
	b, _ := os.ReadFile(out)
	var iline, aline string
	for _, l := range strings.Split(string(b), "\n") {
		if strings.HasPrefix(l, "I ") {
			iline = l[2:]
		} else if strings.HasPrefix(l, "@ ") {
			aline = l[2:]
		}
	}
	if cerr != nil || iline == "" || aline == "" {
		// the child died (a panicking goroutine closes its channel while unwinding, so the
		// child may even have written its lines before the runtime killed it)
		first := strings.SplitN(strings.TrimSpace(string(msg)), "\n", 2)[0]
		if strings.Contains(first, "column out of bound") {
			return xt.N(xt.LI(2)), Fail("merge-untouched-rows-in-base-layout",
				"process killed by a panic in the sorter goroutine while removing columns from a base-layout row: %s", first)
		}
		return xt.N(xt.LI(2)), Fail("process-killed", "process killed: %s", first)
	}
	obs, err := xt.Parse(iline)
	if err != nil {
		panic(err)
	}
	parts := strings.SplitN(aline, " ", 5)
	if parts[2] == "ok" {
		return obs, OK()
	}
	m := ""
	if len(parts) > 4 {
		m = parts[4]
	}
	return obs, Fail(parts[3], "%s", m)
}
