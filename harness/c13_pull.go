package main

import (
	"database/sql"
	"fmt"
	"net/http/httptest"
	"os"
	"path/filepath"
	"runtime/debug"
	"sort"
	"strings"
	"sync"
	"time"

	"github.com/wrgl/wrgl/pkg/local"
	"github.com/wrgl/wrgl/pkg/objects"
	objmock "github.com/wrgl/wrgl/pkg/objects/mock"
	"github.com/wrgl/wrgl/pkg/ref"

	"verifharness/xt"
)

// c13_pull.go - `wrgl pull` (op kind 9) through the REAL CLI (wrgl.RootCmd()) on a badger + sqlite
// repository against the in-process reference server (harness/c09_server.go), in the crash / fault,
// then re-run judgement.  The CLI opens its own stores, so the fault layer sits in the repository's
// sqlite file: triggers count the ref-store writes (reflog inserts = SetWithLog, ref deletes) and make
// write k and every later one fail (RAISE(ABORT) inside the store's own transaction) - the state a
// crash right before ref write k leaves; the triggers are dropped before the re-run.  Object-store
// (badger) faults are not injectable here; they are covered at the library layer (kinds 0..8).
//
// The history before the pull (setup steps) is replayed with the CLI too: (0 ..) wrgl commit,
// (8 ..) wrgl fetch, (9 ..) wrgl pull, (7) wrgl prune.
// observation = (status ref-writes verdicts refs ()): ref-writes = the reflog rows the pull added, in
// order, as (6 (r cid full)); verdicts = (inv rerun fault) for a crash right before each ref write
// and for the completed run; refs = ref |-> history shape after the uninterrupted pull.

type c13Cli struct {
	ctx     *Ctx
	env     *c13Env
	rdb     *objmock.Store
	rst     *c13Stores
	url     string
	root    string
	wrglDir string
	nfile   int
}

func (c *c13Cli) setRemote(k int, cid *xt.T) error {
	c.env.u.putCommitFull(c.rdb, cid)
	return ref.CommitHead(c.rst.rs, fmt.Sprintf("b%d", k), c.env.u.sumOfCid(cid), c13CommitObj(nil, nil, 0), nil)
}

var c13GCOnce sync.Once

func (c *c13Cli) newRepo() error {
	// every CLI command opens a badger store: without this most of the time goes into GC
	c13GCOnce.Do(func() { debug.SetGCPercent(800) })
	root, err := os.MkdirTemp(c.ctx.Tmp, "c13pull")
	if err != nil {
		return err
	}
	c.root = root
	c.wrglDir = filepath.Join(root, ".wrgl")
	rd, err := local.NewRepoDir(c.wrglDir, "")
	if err != nil {
		return err
	}
	defer rd.Close()
	if err := rd.Init(); err != nil {
		return err
	}
	c10WriteConfig(c.wrglDir, c.url, 0)
	return os.Chdir(root)
}

func (c *c13Cli) sqlExec(stmts ...string) error {
	db, err := sql.Open("sqlite3", filepath.Join(c.wrglDir, "sqlite.db"))
	if err != nil {
		return err
	}
	defer db.Close()
	for _, s := range stmts {
		if _, err := db.Exec(s); err != nil {
			return fmt.Errorf("%s: %w", s, err)
		}
	}
	return nil
}

func (c *c13Cli) sqlInt(q string) int {
	db, err := sql.Open("sqlite3", filepath.Join(c.wrglDir, "sqlite.db"))
	if err != nil {
		panic(err)
	}
	defer db.Close()
	var n int
	if err := db.QueryRow(q).Scan(&n); err != nil {
		panic(err)
	}
	return n
}

// faults: count the ref-store writes; with k >= 0 write k (0-based) and all later ones fail
func (c *c13Cli) faults(k int) error {
	st := []string{
		`CREATE TABLE IF NOT EXISTS c13_cnt (n INTEGER)`, `DELETE FROM c13_cnt`, `INSERT INTO c13_cnt VALUES (0)`,
		`CREATE TRIGGER c13_c1 AFTER INSERT ON reflogs BEGIN UPDATE c13_cnt SET n = n + 1; END`,
		`CREATE TRIGGER c13_c2 AFTER DELETE ON refs BEGIN UPDATE c13_cnt SET n = n + 1; END`,
	}
	if k >= 0 {
		st = append(st,
			fmt.Sprintf(`CREATE TRIGGER c13_f1 BEFORE INSERT ON reflogs WHEN (SELECT n FROM c13_cnt) >= %d BEGIN SELECT RAISE(ABORT, 'c13: injected ref store failure'); END`, k),
			fmt.Sprintf(`CREATE TRIGGER c13_f2 BEFORE DELETE ON refs WHEN (SELECT n FROM c13_cnt) >= %d BEGIN SELECT RAISE(ABORT, 'c13: injected ref store failure'); END`, k))
	}
	return c.sqlExec(st...)
}

func (c *c13Cli) heal() error {
	return c.sqlExec(`DROP TRIGGER IF EXISTS c13_c1`, `DROP TRIGGER IF EXISTS c13_c2`, `DROP TRIGGER IF EXISTS c13_f1`, `DROP TRIGGER IF EXISTS c13_f2`)
}

func c13Spec(x *xt.T) string {
	k := int(x.Kids[0].N) - 10
	f := ""
	if x.Kids[2].N != 0 {
		f = "+"
	}
	return fmt.Sprintf("%srefs/heads/b%d:refs/remotes/origin/b%d", f, k, k)
}

// exec runs one operation of the case language with the CLI
func (c *c13Cli) exec(op *xt.T) (string, int) {
	switch op.Kids[0].N {
	case 0:
		c.nfile++
		f := filepath.Join(c.root, fmt.Sprintf("t%d.csv", c.nfile))
		if err := os.WriteFile(f, c.env.u.csv[c13TableKey(op.Kids[2])], 0600); err != nil {
			return err.Error(), 1
		}
		return c10RunCmd(c.wrglDir, "commit", fmt.Sprintf("b%d", op.Kids[1].N), f, fmt.Sprintf("c%d", op.Kids[3].N), "-p", "id", "-n", "1", "--no-progress")
	case 7:
		return c10RunCmd(c.wrglDir, "prune", "--no-progress")
	case 8:
		args := []string{"fetch", "origin"}
		for _, x := range op.Kids[2].Kids {
			if err := c.setRemote(int(x.Kids[0].N)-10, x.Kids[1]); err != nil {
				return err.Error(), 1
			}
			args = append(args, c13Spec(x))
		}
		return c10RunCmd(c.wrglDir, append(args, "--no-progress")...)
	case 9:
		r, rr := int(op.Kids[1].N), int(op.Kids[2].N)
		if err := c.setRemote(rr-10, op.Kids[4]); err != nil {
			return err.Error(), 1
		}
		x := xt.N(xt.LI(rr), op.Kids[4], op.Kids[5])
		return c10RunCmd(c.wrglDir, "pull", fmt.Sprintf("b%d", r), "origin", c13Spec(x), "--no-progress", "-n", "1",
			"-m", fmt.Sprintf("c%d", op.Kids[7].N))
	}
	return fmt.Sprintf("c13: operation %d cannot be replayed with the CLI", op.Kids[0].N), 1
}

func (c *c13Cli) build(setup *xt.T) error {
	if err := c.newRepo(); err != nil {
		return err
	}
	for _, s := range setup.Kids {
		if len(s.Kids[1].Kids) != 0 {
			return fmt.Errorf("c13: crashed setup steps cannot be replayed with the CLI")
		}
		if out, oc := c.exec(s.Kids[0]); oc != 0 {
			return fmt.Errorf("setup %s: %s", s.Kids[0], out)
		}
	}
	return nil
}

// abstract id of a commit of the CLI repository (commits made by the CLI carry time.Now())
func (c *c13Cli) absFromDB(db objects.Store, sum []byte) *xt.T {
	u := c.env.u
	if t, ok := u.cidOf[string(sum)]; ok {
		return t
	}
	com, err := objects.GetCommit(db, sum)
	if err != nil {
		return xt.LI(c13Unknown)
	}
	for _, p := range com.Parents {
		c.absFromDB(db, p)
	}
	raw, err := db.Get(append([]byte("com/"), sum...))
	if err != nil {
		return xt.LI(c13Unknown)
	}
	return u.absCommit(sum, raw)
}

type c13CliState struct {
	j   c13Judgement
	obs *xt.T
}

func (c *c13Cli) look() c13CliState {
	rd, err := local.NewRepoDir(c.wrglDir, "")
	if err != nil {
		panic(err)
	}
	defer rd.Close()
	db, err := rd.OpenObjectsStore()
	if err != nil {
		panic(err)
	}
	defer db.Close()
	rs := rd.OpenRefStore()
	st := c13CliState{j: c13JudgeDB(db, rs, false)}
	refs, err := ref.ListAllRefs(rs)
	if err != nil {
		panic(err)
	}
	var l []*xt.T
	for name, sum := range refs {
		l = append(l, xt.N(xt.LI(c13RefID(name)), c.env.shapeOf(db, sum, 0)))
	}
	sort.SliceStable(l, func(i, j int) bool { return c13TreeCmp(l[i], l[j]) < 0 })
	st.obs = xt.N(l...)
	return st
}

// the reflog rows added after rowid `marker`, as abstract SetRefLog writes
func (c *c13Cli) refWrites(marker int) *xt.T {
	rd, err := local.NewRepoDir(c.wrglDir, "")
	if err != nil {
		panic(err)
	}
	defer rd.Close()
	db, err := rd.OpenObjectsStore()
	if err != nil {
		panic(err)
	}
	defer db.Close()
	sdb, err := sql.Open("sqlite3", filepath.Join(c.wrglDir, "sqlite.db"))
	if err != nil {
		panic(err)
	}
	defer sdb.Close()
	rows, err := sdb.Query(`SELECT ref, newoid, action FROM reflogs WHERE rowid > ? ORDER BY rowid`, marker)
	if err != nil {
		panic(err)
	}
	defer rows.Close()
	out := xt.N()
	for rows.Next() {
		var name, action string
		var oid []byte
		if err := rows.Scan(&name, &oid, &action); err != nil {
			panic(err)
		}
		full := 0
		if action == "commit" || action == "merge" {
			full = 1
		}
		out.Add(xt.N(xt.LI(6), xt.N(xt.LI(c13RefID(name)), c.absFromDB(db, oid), xt.LI(full))))
	}
	return out
}

func runC13Pull(ctx *Ctx, env *c13Env, cs *xt.T) (*xt.T, Verdict) {
	t0 := time.Now()
	defer func() { ctx.Info["ms_cli_pull"] += int(time.Since(t0).Milliseconds()) }()
	os.Setenv("XDG_CONFIG_HOME", filepath.Join(ctx.Tmp, "xdg"))
	os.Setenv("HOME", filepath.Join(ctx.Tmp, "home"))
	old, _ := os.Getwd()
	defer os.Chdir(old)
	cli := &c13Cli{ctx: ctx, env: env, rdb: objmock.NewStore(), rst: c13NewStores(nil)}
	defer cli.rst.close()
	ts := httptest.NewServer(c09NewServer(cli.rdb, cli.rst.rs))
	defer ts.Close()
	cli.url = ts.URL
	var roots []string
	defer func() {
		os.Chdir(old)
		for _, r := range roots {
			os.RemoveAll(r)
		}
	}()
	setup, op, op2 := cs.Kids[1], cs.Kids[2], cs.Kids[3]
	v := OK()
	fail := func(class, f string, a ...interface{}) {
		if v.OK {
			v = Fail(class, f, a...)
		}
	}
	build := func() bool {
		err := cli.build(setup)
		roots = append(roots, cli.root)
		if err != nil {
			fail("harness-setup", "%v", err)
			return false
		}
		return true
	}
	// the uninterrupted run
	if !build() {
		return xt.N(xt.LI(9)), v
	}
	if j := cli.look().j; !j.inv {
		return xt.N(xt.LI(9)), Fail("harness-setup", "state before the pull: %s", j.msg)
	}
	if err := cli.faults(-1); err != nil {
		return xt.N(xt.LI(9)), Fail("harness-setup", "%v", err)
	}
	marker := cli.sqlInt(`SELECT COALESCE(MAX(rowid), 0) FROM reflogs`)
	out1, oc1 := cli.exec(op)
	K := cli.sqlInt(`SELECT n FROM c13_cnt`)
	cli.heal()
	trace := cli.refWrites(marker)
	s1 := cli.look()
	if !s1.j.inv {
		fail(c13CliClass(s1.j.class), "after `wrgl pull`: %s", s1.j.msg)
	}
	ctx.Info["cli_pull_ref_writes"] += K
	ctx.Count("cli_pull_cases")
	status := 0
	if oc1 != 0 {
		status = 1
	}
	// a re-run of the completed pull changes nothing
	_, ocAgain := cli.exec(op2)
	sAgain := cli.look()
	idem := (ocAgain == 0) == (oc1 == 0) && sAgain.j.inv && sAgain.obs.String() == s1.obs.String()
	if !idem {
		fail("pull-rerun-differs", "`wrgl pull` run again after it completed: exit %d, refs %s; first run: exit %d, refs %s", ocAgain, sAgain.obs, oc1, s1.obs)
	}
	verdicts := xt.N()
	for k := 0; k < K; k++ {
		if !build() {
			return xt.N(xt.LI(9)), v
		}
		if err := cli.faults(k); err != nil {
			return xt.N(xt.LI(9)), Fail("harness-setup", "%v", err)
		}
		outF, ocF := cli.exec(op)
		sk := cli.look()
		if !sk.j.inv {
			fail(c13CliClass(sk.j.class), "`wrgl pull` with ref-store write %d of %d (and all later ones) failing: %s", k, K, sk.j.msg)
		}
		fault := ocF != 0
		if !fault {
			fail("fault-not-reported", "`wrgl pull`: ref-store write %d of %d failed but the command exited 0: %s", k, K, outF)
		}
		if err := cli.heal(); err != nil {
			return xt.N(xt.LI(9)), Fail("harness-setup", "%v", err)
		}
		out2, oc2 := cli.exec(op2)
		s2 := cli.look()
		rerun := (oc2 == 0) == (oc1 == 0) && s2.j.inv && s2.obs.String() == s1.obs.String()
		if !rerun {
			fail("pull-rerun-differs", "`wrgl pull` interrupted right before ref-store write %d of %d, then run again: exit %d %q, refs %s; uninterrupted run: exit %d %q, refs %s",
				k, K, oc2, c13Short(out2), s2.obs, oc1, c13Short(out1), s1.obs)
		} else {
			// and once more: still the same
			cli.exec(op2)
			if s3 := cli.look(); s3.obs.String() != s1.obs.String() {
				fail("pull-rerun-differs", "a third `wrgl pull` after the interrupted one changes the refs: %s vs %s", s3.obs, s1.obs)
			}
		}
		verdicts.Add(xt.N(xt.Bool(sk.j.inv), xt.Bool(rerun), xt.Bool(fault)))
	}
	verdicts.Add(xt.N(xt.Bool(s1.j.inv), xt.Bool(idem), xt.LI(1)))
	return xt.N(xt.LI(status), trace, verdicts, s1.obs, xt.N()), v
}

func c13Short(s string) string {
	if len(s) > 120 {
		return s[:120]
	}
	return s
}

// ---------------------------------------------------------------- `wrgl transaction commit` with ref-store faults

// scenario (100 nb tables): branch b0 exists; a transaction stages one commit on each of b0..b<nb-1>
// (`wrgl commit --txid`); `wrgl transaction commit` runs with ref-store write k and all later ones
// failing, for every k; after the failure every ref must still resolve to a stored commit (and the
// other invariants hold); with the store healthy again the same command must complete the
// transaction: every staged branch on its staged table, one commit above its old head.
func c13TxCLI(ctx *Ctx, env *c13Env, scn *xt.T) (class, msg string) {
	t0 := time.Now()
	defer func() { ctx.Info["ms_cli_tx"] += int(time.Since(t0).Milliseconds()) }()
	nb := int(scn.Kids[1].N)
	tables := scn.Kids[2].Kids
	os.Setenv("XDG_CONFIG_HOME", filepath.Join(ctx.Tmp, "xdg"))
	os.Setenv("HOME", filepath.Join(ctx.Tmp, "home"))
	old, _ := os.Getwd()
	defer os.Chdir(old)
	cli := &c13Cli{ctx: ctx, env: env, url: "http://127.0.0.1:1"}
	var roots []string
	defer func() {
		os.Chdir(old)
		for _, r := range roots {
			os.RemoveAll(r)
		}
	}()
	commit := func(r int, t *xt.T, msg string, extra ...string) (string, int) {
		cli.nfile++
		f := filepath.Join(cli.root, fmt.Sprintf("t%d.csv", cli.nfile))
		if err := os.WriteFile(f, env.u.csv[c13TableKey(t)], 0600); err != nil {
			return err.Error(), 1
		}
		args := append([]string{"commit", fmt.Sprintf("b%d", r), f, msg, "-p", "id", "-n", "1", "--no-progress"}, extra...)
		return c10RunCmd(cli.wrglDir, args...)
	}
	build := func() (string, string) {
		if err := cli.newRepo(); err != nil {
			return "", err.Error()
		}
		roots = append(roots, cli.root)
		if out, oc := commit(0, tables[0], "c1"); oc != 0 {
			return "", "wrgl commit: " + out
		}
		out, oc := c10RunCmd(cli.wrglDir, "transaction", "start")
		if oc != 0 {
			return "", "wrgl transaction start: " + out
		}
		txid := ""
		fmt.Sscanf(out, "%s", &txid)
		for r := 0; r < nb; r++ {
			if out, oc := commit(r, tables[(r+1)%len(tables)], fmt.Sprintf("c%d", 10+r), "--txid", txid); oc != 0 {
				return "", "wrgl commit --txid: " + out
			}
		}
		return txid, ""
	}
	txid, e := build()
	if e != "" {
		return "harness-setup", e
	}
	if err := cli.faults(-1); err != nil {
		return "harness-setup", err.Error()
	}
	out1, oc1 := c10RunCmd(cli.wrglDir, "transaction", "commit", txid)
	K := cli.sqlInt(`SELECT n FROM c13_cnt`)
	cli.heal()
	if oc1 != 0 {
		return "harness-setup", "wrgl transaction commit: " + out1
	}
	s1 := cli.look()
	if !s1.j.inv {
		return c13CliClass(s1.j.class), "after `wrgl transaction commit`: " + s1.j.msg
	}
	ctx.Info["cli_tx_ref_writes"] += K
	ctx.Count("cli_tx_cases")
	for k := 0; k < K; k++ {
		txid, e := build()
		if e != "" {
			return "harness-setup", e
		}
		if err := cli.faults(k); err != nil {
			return "harness-setup", err.Error()
		}
		outF, ocF := c10RunCmd(cli.wrglDir, "transaction", "commit", txid)
		sk := cli.look()
		if !sk.j.inv {
			return c13CliClass(sk.j.class), fmt.Sprintf("`wrgl transaction commit` (%d branches) with ref-store write %d of %d and all later ones failing: %s", nb, k, K, sk.j.msg)
		}
		if ocF == 0 {
			return "fault-not-reported", fmt.Sprintf("`wrgl transaction commit`: ref-store write %d of %d failed but the command exited 0: %s", k, K, c13Short(outF))
		}
		if err := cli.heal(); err != nil {
			return "harness-setup", err.Error()
		}
		out2, oc2 := c10RunCmd(cli.wrglDir, "transaction", "commit", txid)
		s2 := cli.look()
		if oc2 != 0 || !s2.j.inv || s2.obs.String() != s1.obs.String() {
			return "tx-rerun-differs", fmt.Sprintf("`wrgl transaction commit` (%d branches) interrupted right before ref-store write %d of %d, then run again: exit %d %q, %s refs %s; uninterrupted: %s",
				nb, k, K, oc2, c13Short(out2), s2.j.msg, s2.obs, s1.obs)
		}
	}
	return "", ""
}

func c13CliClass(c string) string { return "cli-" + strings.TrimPrefix(c, "crash-") }
