module verifharness

go 1.19

require (
	github.com/dgraph-io/badger/v3 v3.2103.5
	github.com/go-logr/logr v1.2.3
	github.com/google/uuid v1.3.0
	github.com/klauspost/compress v1.16.7
	github.com/mattn/go-sqlite3 v1.14.14
	github.com/pckhoi/meow v0.0.0-20211009023351-e1fff1d3c870
	github.com/spf13/cobra v1.5.0
	github.com/spf13/viper v1.12.0
	github.com/wrgl/wrgl v0.0.0
)

require (
	github.com/VividCortex/ewma v1.2.0 // indirect
	github.com/acarl005/stripansi v0.0.0-20180116102854-5a71ef0e047d // indirect
	github.com/cenkalti/backoff/v4 v4.2.0 // indirect
	github.com/cespare/xxhash v1.1.0 // indirect
	github.com/cespare/xxhash/v2 v2.2.0 // indirect
	github.com/coreos/go-oidc/v3 v3.2.0 // indirect
	github.com/davecgh/go-spew v1.1.1 // indirect
	github.com/dgraph-io/ristretto v0.1.1 // indirect
	github.com/dustin/go-humanize v1.0.1 // indirect
	github.com/fatih/color v1.13.0 // indirect
	github.com/fsnotify/fsnotify v1.5.4 // indirect
	github.com/gdamore/encoding v1.0.0 // indirect
	github.com/gdamore/tcell/v2 v2.5.2 // indirect
	github.com/go-logr/stdr v1.2.2 // indirect
	github.com/gobwas/glob v0.2.3 // indirect
	github.com/gogo/protobuf v1.3.2 // indirect
	github.com/golang-jwt/jwt/v4 v4.4.3 // indirect
	github.com/golang/glog v1.1.2 // indirect
	github.com/golang/groupcache v0.0.0-20210331224755-41bb18bfe9da // indirect
	github.com/golang/protobuf v1.5.3 // indirect
	github.com/golang/snappy v0.0.4 // indirect
	github.com/google/flatbuffers v23.5.26+incompatible // indirect
	github.com/hashicorp/hcl v1.0.0 // indirect
	github.com/imdario/mergo v0.3.13 // indirect
	github.com/lucasb-eyer/go-colorful v1.2.0 // indirect
	github.com/magiconair/properties v1.8.6 // indirect
	github.com/mattn/go-colorable v0.1.12 // indirect
	github.com/mattn/go-isatty v0.0.14 // indirect
	github.com/mattn/go-runewidth v0.0.14 // indirect
	github.com/mitchellh/colorstring v0.0.0-20190213212951-d06e56a500db // indirect
	github.com/mitchellh/mapstructure v1.5.0 // indirect
	github.com/pckhoi/uma v0.4.3 // indirect
	github.com/pelletier/go-toml/v2 v2.0.1 // indirect
	github.com/pkg/errors v0.9.1 // indirect
	github.com/pmezard/go-difflib v1.0.0 // indirect
	github.com/rivo/tview v0.0.0-20220812085834-0e6b21a48e96 // indirect
	github.com/rivo/uniseg v0.4.3 // indirect
	github.com/spf13/afero v1.9.2 // indirect
	github.com/spf13/cast v1.5.0 // indirect
	github.com/spf13/jwalterweatherman v1.1.0 // indirect
	github.com/spf13/pflag v1.0.5 // indirect
	github.com/stretchr/testify v1.8.1 // indirect
	github.com/subosito/gotenv v1.4.0 // indirect
	github.com/vbauerster/mpb/v8 v8.1.4 // indirect
	go.opencensus.io v0.24.0 // indirect
	golang.org/x/crypto v0.12.0 // indirect
	golang.org/x/net v0.14.0 // indirect
	golang.org/x/oauth2 v0.0.0-20220411215720-9780585627b5 // indirect
	golang.org/x/sys v0.11.0 // indirect
	golang.org/x/term v0.11.0 // indirect
	golang.org/x/text v0.12.0 // indirect
	google.golang.org/protobuf v1.31.0 // indirect
	gopkg.in/ini.v1 v1.67.0 // indirect
	gopkg.in/square/go-jose.v2 v2.6.0 // indirect
	gopkg.in/yaml.v3 v3.0.1 // indirect
)

replace github.com/wrgl/wrgl => /repo
