module verifharness

go 1.19

require github.com/wrgl/wrgl v0.0.0

replace github.com/wrgl/wrgl => /repo
