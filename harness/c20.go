package main

import (
	"bytes"
	"encoding/binary"
	"fmt"
	"os"
	"path/filepath"
	"sort"

	"github.com/wrgl/wrgl/pkg/index"

	"verifharness/xt"
)

// C20: on-disk hash set vs model (coq/model/HashSet.v) and vs a Go map.
// case = (batchSize (op ...)), op = (0 hash) Add | (1) Flush | (2 hash) Has | (3 bsz) reopen | (4) Len | (5) dump

func init() { props["C20"] = &Prop{Gen: genC20, Run: runC20} }

var c20FirstBytes = []byte{0x00, 0x01, 0x7f, 0xff}

func c20Hash(fb byte, a, b byte) []byte {
	h := make([]byte, 16)
	h[0] = fb
	h[1] = a
	h[15] = b
	return h
}

func c20RandHash(ctx *Ctx, space int) []byte {
	fb := c20FirstBytes[ctx.Pick(len(c20FirstBytes))]
	return c20Hash(fb, byte(ctx.Pick(space)), byte(ctx.Pick(space)))
}

func c20Op(k int, h []byte, n int) *xt.T {
	switch k {
	case 0, 2:
		return xt.N(xt.LI(k), xt.Bytes(h))
	case 3:
		return xt.N(xt.LI(3), xt.LI(n))
	}
	return xt.N(xt.LI(k))
}

func genC20(ctx *Ctx) []Case {
	var cases []Case
	// exhaustive small scope: all sequences of <= L ops over 3 hashes (Add h / Flush), each
	// followed by flush + Has of all hashes + dump; batch sizes 1..3
	hs := [][]byte{c20Hash(0, 0, 1), c20Hash(0, 0, 2), c20Hash(0xff, 0, 0), c20Hash(0, 0, 0)}
	L := 4
	if ctx.Thorough() {
		L = 5
	}
	alphabet := len(hs) + 1
	var rec func(prefix []int)
	emitSeq := func(seq []int) {
		for bsz := 1; bsz <= 3; bsz++ {
			ops := xt.N()
			for _, o := range seq {
				if o == len(hs) {
					ops.Add(c20Op(1, nil, 0))
				} else {
					ops.Add(c20Op(0, hs[o], 0))
				}
			}
			ops.Add(c20Op(1, nil, 0))
			for _, h := range hs {
				ops.Add(c20Op(2, h, 0))
			}
			ops.Add(c20Op(5, nil, 0), c20Op(3, nil, bsz), c20Op(5, nil, 0))
			for _, h := range hs {
				ops.Add(c20Op(2, h, 0))
			}
			cases = append(cases, Case{Tag: "exh", Nontrivial: len(seq) >= 2, C: xt.N(xt.LI(bsz), ops)})
			ctx.Count("exhaustive_cases")
		}
	}
	rec = func(prefix []int) {
		emitSeq(prefix)
		if len(prefix) == L {
			return
		}
		for o := 0; o < alphabet; o++ {
			rec(append(append([]int{}, prefix...), o))
		}
	}
	rec(nil)
	// long runs: a flush that has to shift more than a few dozen existing entries
	// (descending arrival with batch size 1; a big table then one hash that sorts below it;
	// ascending then interleaved), boundary run lengths around 32/33/64/65
	longHash := func(i int) []byte {
		h := make([]byte, 16)
		h[0] = byte(i / 40)
		h[1] = byte(i % 40)
		h[15] = byte(i)
		return h
	}
	for _, n := range []int{31, 32, 33, 34, 64, 65, 100} {
		for _, bsz := range []int{1, 3, 0} {
			// descending
			ops := xt.N()
			for i := n; i >= 1; i-- {
				ops.Add(c20Op(0, longHash(i), 0))
			}
			ops.Add(c20Op(1, nil, 0), c20Op(5, nil, 0))
			for _, i := range []int{1, 2, n / 2, n - 1, n, n + 1} {
				ops.Add(c20Op(2, longHash(i), 0))
			}
			ops.Add(c20Op(3, nil, bsz), c20Op(5, nil, 0), c20Op(2, longHash(2), 0))
			cases = append(cases, Case{Tag: "longrun", Nontrivial: true, C: xt.N(xt.LI(bsz), ops)})
			// big table, flush, then hashes below / in the middle
			ops = xt.N()
			for i := 2; i <= n+1; i++ {
				ops.Add(c20Op(0, longHash(2*i), 0))
			}
			ops.Add(c20Op(1, nil, 0))
			ops.Add(c20Op(0, longHash(1), 0), c20Op(1, nil, 0), c20Op(5, nil, 0))
			ops.Add(c20Op(0, longHash(n+1), 0), c20Op(0, longHash(7), 0), c20Op(1, nil, 0), c20Op(5, nil, 0))
			for _, i := range []int{1, 4, 7, n + 1, 2 * n, 2*n + 2, 3} {
				ops.Add(c20Op(2, longHash(i), 0))
			}
			cases = append(cases, Case{Tag: "longrun", Nontrivial: true, C: xt.N(xt.LI(bsz), ops)})
			ctx.Count("longrun_cases")
		}
	}
	// random sequences
	n := 150
	if ctx.Thorough() {
		n = 3000
	}
	for i := 0; i < n; i++ {
		bsz := 1 + ctx.Pick(5)
		if ctx.Pick(10) == 0 {
			bsz = 0 // default 1024
		}
		space := 2 + ctx.Pick(4)
		nops := 5 + ctx.Pick(60)
		ops := xt.N()
		for j := 0; j < nops; j++ {
			r := ctx.Pick(100)
			switch {
			case r < 55:
				ops.Add(c20Op(0, c20RandHash(ctx, space), 0))
				ctx.Count("op_add")
			case r < 65:
				ops.Add(c20Op(1, nil, 0))
				ctx.Count("op_flush")
			case r < 85:
				ops.Add(c20Op(2, c20RandHash(ctx, space), 0))
				ctx.Count("op_has")
			case r < 90:
				ops.Add(c20Op(3, nil, ctx.Pick(6)))
				ctx.Count("op_reopen")
			case r < 95:
				ops.Add(c20Op(5, nil, 0))
				ctx.Count("op_dump")
			default:
				ops.Add(c20Op(4, nil, 0))
				ctx.Count("op_len")
			}
		}
		ops.Add(c20Op(1, nil, 0), c20Op(5, nil, 0))
		cases = append(cases, Case{Tag: "rand", Nontrivial: true, C: xt.N(xt.LI(bsz), ops)})
	}
	return cases
}

func runC20(ctx *Ctx, c *xt.T) (*xt.T, Verdict) {
	bsz := uint32(c.Kids[0].N)
	path := filepath.Join(ctx.Tmp, "hs")
	os.Remove(path)
	f, err := os.OpenFile(path, os.O_RDWR|os.O_CREATE, 0600)
	if err != nil {
		panic(err)
	}
	s, err := index.NewHashSet(f, bsz)
	if err != nil {
		panic(err)
	}
	effB := int(bsz)
	if effB == 0 {
		effB = 1024
	}
	flushed := map[string]bool{}
	pending := []string{}
	out := xt.N()
	v := OK()
	bad := func(class, format string, a ...interface{}) {
		if v.OK {
			v = Fail(class, format, a...)
		}
	}
	dump := func() *xt.T {
		raw, err := os.ReadFile(path)
		if err != nil {
			panic(err)
		}
		fan := make([]uint32, 256)
		if len(raw) >= 1024 {
			for i := range fan {
				fan[i] = binary.BigEndian.Uint32(raw[4*i:])
			}
		}
		n := s.Len()
		tbl := [][]byte{}
		for i := 0; i < n; i++ {
			if 1024+16*(i+1) > len(raw) {
				bad("file-short", "file shorter than Len()=%d entries", n)
				break
			}
			tbl = append(tbl, raw[1024+16*i:1024+16*(i+1)])
		}
		// spec: sorted, fanout consistent, contents = flushed set
		if !sort.SliceIsSorted(tbl, func(i, j int) bool { return bytes.Compare(tbl[i], tbl[j]) < 0 }) {
			bad("unsorted", "stored entries not sorted")
		}
		for k := 0; k < 256; k++ {
			cnt := uint32(0)
			for _, h := range tbl {
				if int(h[0]) <= k {
					cnt++
				}
			}
			if fan[k] != cnt {
				bad("fanout", "fanout[%d]=%d but %d entries have first byte <= %d", k, fan[k], cnt, k)
				break
			}
		}
		seen := map[string]bool{}
		for _, h := range tbl {
			seen[string(h)] = true
			if !flushed[string(h)] {
				bad("phantom", "stored entry %x was never added", h)
			}
		}
		for h := range flushed {
			if !seen[h] {
				bad("lost", "flushed hash %x not stored", h)
			}
		}
		return xt.N(xt.LI(3), xt.U32s(fan), xt.List(xt.Bytes, tbl))
	}
	for _, op := range c.Kids[1].Kids {
		switch op.Kids[0].N {
		case 0:
			h := op.Kids[1].AsBytes()
			if err := s.Add(h); err != nil {
				out.Add(xt.N(xt.LI(9)))
				bad("add-error", "Add: %v", err)
				continue
			}
			if !flushed[string(h)] {
				pending = append(pending, string(h))
				if len(pending) >= effB {
					for _, p := range pending {
						flushed[p] = true
					}
					pending = pending[:0]
				}
			}
			out.Add(xt.N())
		case 1:
			if err := s.Flush(); err != nil {
				out.Add(xt.N(xt.LI(9)))
				bad("flush-error", "Flush: %v", err)
				continue
			}
			for _, p := range pending {
				flushed[p] = true
			}
			pending = pending[:0]
			out.Add(xt.N())
		case 2:
			h := op.Kids[1].AsBytes()
			ok, err := s.Has(h)
			if err != nil {
				out.Add(xt.N(xt.LI(9)))
				bad("has-error", "Has: %v", err)
				continue
			}
			if ok != flushed[string(h)] {
				if ok {
					bad("false-positive", "Has(%x)=true but it was never flushed", h)
				} else {
					bad("false-negative", "Has(%x)=false after it was added and flushed", h)
				}
			}
			out.Add(xt.N(xt.LI(1), xt.Bool(ok)))
		case 3:
			if err := s.Close(); err != nil {
				panic(err)
			}
			f, err = os.OpenFile(path, os.O_RDWR, 0600)
			if err != nil {
				panic(err)
			}
			nb := uint32(op.Kids[1].N)
			s, err = index.NewHashSet(f, nb)
			if err != nil {
				panic(fmt.Sprintf("reopen: %v", err))
			}
			effB = int(nb)
			if effB == 0 {
				effB = 1024
			}
			pending = pending[:0]
			out.Add(xt.N())
		case 4:
			out.Add(xt.N(xt.LI(2), xt.LI(s.Len())))
		default:
			out.Add(dump())
		}
	}
	s.Close()
	os.Remove(path)
	return out, v
}
