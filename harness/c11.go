package main

import (
	"bytes"
	"errors"
	"fmt"
	"io"
	"os"
	"sort"
	"strings"
	"time"

	"github.com/wrgl/wrgl/pkg/objects"
	objmock "github.com/wrgl/wrgl/pkg/objects/mock"
	"github.com/wrgl/wrgl/pkg/ref"

	"verifharness/xt"
)

// C11: ancestry queries, history walks and merge-base selection vs the model
// (coq/model/Graph.v, Queue.v, Ancestor.v) and vs a DFS reachability oracle.
//
// case  = (kind graph (query ...))
// graph = (node ...), node i = (time (parent ...) present); commit ids are the node
//         indices; a parent index must be smaller than the node's own index (ids are
//         content hashes); present = 0: the commit object is deleted from the store after
//         its hash has been taken (GetCommit fails); an index >= number of nodes names a
//         commit that never existed.  Commit time = 1600000000 + time seconds.
// kind 0  IsAncestorOf:        query = (a b)            obs = (0 bool) | (1) error
// kind 1  SeekCommonAncestor:  query = (c ...)          obs = (0 idx) | (1) error | (2) "not found" | (3) nil result, nil error
// kind 2  NewCommitsQueue(roots) + PopInsertParents until EOF/error:
//                              query = (exact (root ...)) obs = (status (popped ...)), status 0 = EOF reached,
//                              1 = NewCommitsQueue failed, 2 = a PopInsertParents failed (popped = those before it);
//                              exact = 0: popped is sorted by index before comparison (initial order of roots with
//                              equal times is left open by sort.Sort)
// kind 3  NewCommitsQueue(roots), then PopUntil(t) for each target in turn (see c11_queue.go):
//                              query = (exact (root ...) (target ...))
//                              obs = (status (tobs ...) (remaining ...) (seen ...)), status 1 = NewCommitsQueue failed;
//                              tobs = (0 (popped ...)) target returned | (1 (popped ...)) EOF | (2 ()) error (stops;
//                              remaining and seen then empty); popped = the commits popped by that call, observed on a
//                              twin queue stepped with PopInsertParents; remaining = Pop() until EOF afterwards;
//                              seen = nodes for which Seen is true (sorted)
// kind 4  NewCommitsQueue(roots), npops x PopInsertParents (stopping at EOF), RemoveAncestors(sums):
//                              query = (exact (root ...) npops (sum ...))
//                              obs = (status (remaining ...) (seen ...)), status 1 = NewCommitsQueue failed,
//                              2 = a pop failed, 3 = RemoveAncestors returned an error
// kind 5  the merge command's base selection (see c11_merge.go): heads/main = first head, the other heads as hex
//         sums, wrgl.VerifRunMerge with --no-gui:  query = (head ...)   obs as kind 1 = the base the command used
// observation = (obs ...) one per query.
//
// Oracle (DFS reachability, set intersection; judged only on histories without absent commits):
//   ancestor-false-positive / ancestor-false-negative / ancestor-unexpected-error
//   walk-duplicate / walk-extra / walk-missed / walk-unexpected-error / walk-wrong-commit
//   seek{2,3}-result-not-common-ancestor   result is not an ancestor-or-self of every input (2 = two inputs, 3 = three or more)
//   seek{2,3}-input-base-not-returned      some input is an ancestor-or-self of all the others but the result is not such an input
//   seek{2,3}-missing-although-exists      "not found" although a common ancestor exists
//   seek-unexpected-error / seek-nil-result
//   merge-base-differs-from-library        the command's base is not what SeekCommonAncestor answers for all heads at once
//   merge{2,3}-missing-although-exists / merge{2,3}-input-base-not-returned / merge2-result-not-common-ancestor /
//   merge-unexpected-error / merge-base-unobservable     the same graph oracle applied to the command (for >= 3 heads
//                                          "not common" is reported under the library class seek3-result-not-common-ancestor)
//   popuntil-false-eof / popuntil-false-found / popuntil-wrong-commit / popuntil-incomplete-eof / popuntil-not-a-walk-prefix /
//   popuntil-unexpected-error
//   remove-ancestors-misses-ancestor / remove-ancestors-removes-non-ancestor / remove-ancestors-reorders /
//   remove-ancestors-unexpected-error
// When several queries of one case fail, the rarest class is reported (c11Prio).

func init() { props["C11"] = &Prop{Gen: genC11, Run: runC11} }

type c11Node struct {
	time    int
	parents []int
	present bool
}

type c11World struct {
	nodes []c11Node
	db    *objmock.Store
	sums  [][]byte
	index map[string]int
}

// withTables: every commit gets a real one-row table (a=1, b=n<i>) so that the merge command can run
func c11Build(nodes []c11Node, withTables bool) *c11World {
	w := &c11World{nodes: nodes, db: objmock.NewStore(), index: map[string]int{}}
	for i, nd := range nodes {
		tbl := bytes.Repeat([]byte{byte(i + 1)}, 16)
		if withTables {
			tbl = c11IngestTable(w.db, i)
		}
		c := &objects.Commit{
			Table:       tbl,
			AuthorName:  "a",
			AuthorEmail: "a@b.c",
			Time:        time.Unix(int64(1600000000+nd.time), 0).UTC(),
			Message:     fmt.Sprintf("node %d", i),
		}
		for _, p := range nd.parents {
			if p >= i {
				panic(fmt.Sprintf("c11: node %d has parent %d >= itself", i, p))
			}
			c.Parents = append(c.Parents, w.sums[p])
		}
		buf := bytes.NewBuffer(nil)
		if _, err := c.WriteTo(buf); err != nil {
			panic(err)
		}
		sum, err := objects.SaveCommit(w.db, buf.Bytes())
		if err != nil {
			panic(err)
		}
		if _, dup := w.index[string(sum)]; dup {
			panic("c11: duplicate commit hash")
		}
		w.sums = append(w.sums, sum)
		w.index[string(sum)] = i
	}
	for i, nd := range nodes {
		if !nd.present {
			if err := objects.DeleteCommit(w.db, w.sums[i]); err != nil {
				panic(err)
			}
		}
	}
	return w
}

// sum of node index i; indices beyond the graph give hashes of commits that never existed
func (w *c11World) sum(i int) []byte {
	if i < len(w.sums) {
		return w.sums[i]
	}
	b := bytes.Repeat([]byte{0xee}, 16)
	b[14] = byte(i >> 8)
	b[15] = byte(i)
	w.index[string(b)] = i
	return b
}

func (w *c11World) idx(sum []byte) int {
	i, ok := w.index[string(sum)]
	if !ok {
		panic(fmt.Sprintf("c11: implementation returned an unknown hash %x", sum))
	}
	return i
}

// ---- oracle: DFS reachability over the case's node table (independent of the model) ----

// reach returns the set of nodes reachable from roots (roots included) and whether the
// walk met a commit that is absent from the store.
func (w *c11World) reach(roots []int) (map[int]bool, bool) {
	seen := map[int]bool{}
	missing := false
	var dfs func(i int)
	dfs = func(i int) {
		if seen[i] {
			return
		}
		seen[i] = true
		if i >= len(w.nodes) || !w.nodes[i].present {
			missing = true
			return
		}
		for _, p := range w.nodes[i].parents {
			dfs(p)
		}
	}
	for _, r := range roots {
		dfs(r)
	}
	return seen, missing
}

func c11ParseGraph(t *xt.T) []c11Node {
	nodes := make([]c11Node, len(t.Kids))
	for i, k := range t.Kids {
		nodes[i].time = int(k.Kids[0].N)
		for _, p := range k.Kids[1].Kids {
			nodes[i].parents = append(nodes[i].parents, int(p.N))
		}
		nodes[i].present = k.Kids[2].N != 0
	}
	return nodes
}

func c11GraphTree(nodes []c11Node) *xt.T {
	g := xt.N()
	for _, nd := range nodes {
		g.Add(xt.N(xt.LI(nd.time), xt.Ints(nd.parents), xt.Bool(nd.present)))
	}
	return g
}

func c11Ints(t *xt.T) []int {
	r := make([]int, len(t.Kids))
	for i, k := range t.Kids {
		r[i] = int(k.N)
	}
	return r
}

// priority of oracle classes when several queries of one case fail: rarer classes win
// over the frequent known one so that they are never masked
func c11Prio(class string) int {
	switch {
	case class == "seek3-result-not-common-ancestor", class == "merge-nogui-panics-when-base-is-a-head":
		// frequent classes about the CLEAN code (registered known finding / reported crash): never mask another class
		return 1
	case strings.HasSuffix(class, "missing-although-exists"):
		return 2
	}
	return 3
}

func runC11(ctx *Ctx, c *xt.T) (*xt.T, Verdict) {
	kind := int(c.Kids[0].N)
	w := c11Build(c11ParseGraph(c.Kids[1]), kind == 5)
	out := xt.N()
	v := OK()
	bad := func(class, format string, a ...interface{}) {
		if v.OK || c11Prio(class) > c11Prio(v.Class) {
			v = Fail(class, format, a...)
		}
	}
	for _, q := range c.Kids[2].Kids {
		switch kind {
		case 0:
			a, b := int(q.Kids[0].N), int(q.Kids[1].N)
			ok, err := ref.IsAncestorOf(w.db, w.sum(a), w.sum(b))
			rs, missing := w.reach([]int{b})
			if err != nil {
				out.Add(xt.N(xt.LI(1)))
				if !missing {
					bad("ancestor-unexpected-error", "IsAncestorOf(%d,%d) on a complete history: %v", a, b, err)
				}
				continue
			}
			out.Add(xt.N(xt.LI(0), xt.Bool(ok)))
			if !missing {
				if ok && !rs[a] {
					bad("ancestor-false-positive", "IsAncestorOf(%d,%d)=true but %d is not reachable from %d", a, b, a, b)
				} else if !ok && rs[a] {
					bad("ancestor-false-negative", "IsAncestorOf(%d,%d)=false but %d is reachable from %d", a, b, a, b)
				}
			} else if ok && !rs[a] {
				bad("ancestor-false-positive", "IsAncestorOf(%d,%d)=true but %d is not reachable from %d", a, b, a, b)
			}
		case 1:
			cs := c11Ints(q)
			base, err := ref.SeekCommonAncestor(w.db, c11Sums(w, cs)...)
			outcome, x := c11BaseOutcome(w, base, err)
			out.Add(c11BaseObs(outcome, x))
			c11JudgeBase(w, cs, outcome, x, err, "seek", "SeekCommonAncestor", bad)
		case 2:
			exact := q.Kids[0].N != 0
			roots := c11Ints(q.Kids[1])
			sums := make([][]byte, len(roots))
			for i, x := range roots {
				sums[i] = w.sum(x)
			}
			rs, missing := w.reach(roots)
			status := 0
			popped := []int{}
			cq, err := ref.NewCommitsQueue(w.db, sums)
			if err != nil {
				status = 1
			} else {
				for steps := 0; ; steps++ {
					if steps > 4*len(w.nodes)+8 {
						panic("c11: walk does not terminate")
					}
					sum, com, err := cq.PopInsertParents()
					if errors.Is(err, io.EOF) {
						break
					}
					if err != nil {
						status = 2
						break
					}
					if com == nil || !bytes.Equal(com.Sum, sum) {
						bad("walk-wrong-commit", "PopInsertParents returned sum %x with a different commit", sum)
					}
					popped = append(popped, w.idx(sum))
				}
			}
			count := map[int]int{}
			for _, x := range popped {
				count[x]++
				if count[x] == 2 {
					bad("walk-duplicate", "walk from %v visits %d twice (pops %v)", roots, x, popped)
				}
				if !rs[x] {
					bad("walk-extra", "walk from %v visits %d which is not reachable (pops %v)", roots, x, popped)
				}
			}
			if !missing {
				if status != 0 {
					bad("walk-unexpected-error", "walk from %v on a complete history failed (status %d)", roots, status)
				} else {
					for x := 0; x < len(w.nodes); x++ {
						if rs[x] && count[x] == 0 {
							bad("walk-missed", "walk from %v never visits reachable commit %d (pops %v)", roots, x, popped)
							break
						}
					}
				}
			}
			if !exact {
				sort.Ints(popped)
			}
			out.Add(xt.N(xt.LI(status), xt.Ints(popped)))
		case 3:
			out.Add(c11RunPopUntil(w, q, bad))
		case 4:
			out.Add(c11RunRemoveAncestors(w, q, bad))
		case 5:
			out.Add(c11RunMerge(ctx, w, q, bad))
		default:
			panic("c11: unknown case kind")
		}
	}
	return out, v
}

// ---------------------------------------------------------------------------
// generator
// ---------------------------------------------------------------------------

const (
	c11Topo = iota
	c11Rev
	c11Equal
	c11Skew
	c11NRegimes
)

var c11RegimeName = []string{"topo", "rev", "equal", "skew"}

func c11ApplyRegime(ctx *Ctx, shape [][]int, regime int) []c11Node {
	n := len(shape)
	nodes := make([]c11Node, n)
	for i, ps := range shape {
		nodes[i].parents = ps
		nodes[i].present = true
		switch regime {
		case c11Topo:
			nodes[i].time = 10 + i
		case c11Rev:
			nodes[i].time = 10 + n - i
		case c11Equal:
			nodes[i].time = 10
		default:
			nodes[i].time = 10 + ctx.Pick(n) // collisions likely
		}
	}
	return nodes
}

// all DAG shapes with n nodes: node i's parents are a subset of {0..i-1} of size <= 2
func c11Shapes(n int) [][][]int {
	res := [][][]int{{}}
	for i := 0; i < n; i++ {
		choices := [][]int{{}}
		for a := 0; a < i; a++ {
			choices = append(choices, []int{a})
		}
		for a := 0; a < i; a++ {
			for b := 0; b < a; b++ {
				choices = append(choices, []int{a, b})
			}
		}
		var next [][][]int
		for _, g := range res {
			for _, ch := range choices {
				ng := append(append([][]int{}, g...), ch)
				next = append(next, ng)
			}
		}
		res = next
	}
	return res
}

// all ordered k-tuples over {0..n-1} (with repetition)
func c11Tuples(n, k int) [][]int {
	res := [][]int{{}}
	for j := 0; j < k; j++ {
		var next [][]int
		for _, t := range res {
			for x := 0; x < n; x++ {
				next = append(next, append(append([]int{}, t...), x))
			}
		}
		res = next
	}
	return res
}

func c11WalkQuery(nodes []c11Node, roots []int) *xt.T {
	// exact pop order is compared only when the distinct roots have pairwise distinct times
	times := map[int]bool{}
	seen := map[int]bool{}
	exact := true
	for _, r := range roots {
		if seen[r] {
			continue
		}
		seen[r] = true
		if r < len(nodes) {
			if times[nodes[r].time] {
				exact = false
			}
			times[nodes[r].time] = true
		}
	}
	return xt.N(xt.Bool(exact), xt.Ints(roots))
}

// kind 3 / kind 4 queries reuse the exactness rule of walks
func c11UntilQuery(nodes []c11Node, roots, targets []int) *xt.T {
	wq := c11WalkQuery(nodes, roots)
	return xt.N(wq.Kids[0], wq.Kids[1], xt.Ints(targets))
}

func c11RemoveQuery(nodes []c11Node, roots []int, npops int, sums []int) *xt.T {
	wq := c11WalkQuery(nodes, roots)
	return xt.N(wq.Kids[0], wq.Kids[1], xt.LI(npops), xt.Ints(sums))
}

type c11Emitter struct {
	ctx   *Ctx
	cases []Case
}

func (e *c11Emitter) emit(tag string, kind int, nodes []c11Node, queries []*xt.T, batch int) {
	g := c11GraphTree(nodes)
	for s := 0; s < len(queries); s += batch {
		end := s + batch
		if end > len(queries) {
			end = len(queries)
		}
		e.cases = append(e.cases, Case{Tag: tag, Nontrivial: len(nodes) >= 2,
			C: xt.N(xt.LI(kind), g, xt.N(queries[s:end]...))})
		e.ctx.Count(fmt.Sprintf("cases_kind%d", kind))
		e.ctx.Info[fmt.Sprintf("queries_kind%d", kind)] += end - s
	}
}

func c11Sample(ctx *Ctx, all [][]int, k int) [][]int {
	if k >= len(all) {
		return all
	}
	res := make([][]int, 0, k)
	for _, i := range ctx.Rng.Perm(len(all))[:k] {
		res = append(res, all[i])
	}
	return res
}

func c11TupleQueries(ts [][]int) []*xt.T {
	qs := make([]*xt.T, len(ts))
	for i, t := range ts {
		qs[i] = xt.Ints(t)
	}
	return qs
}

func genC11(ctx *Ctx) []Case {
	e := &c11Emitter{ctx: ctx}
	P := func(ps ...int) []int { return ps }
	// ---- fixed witnesses -------------------------------------------------------------
	// fixed defect 7e73525: P <- A <- M, B = merge(M, P): SeekCommonAncestor(A, B) must be A
	ff := [][]int{P(), P(0), P(1), P(2, 0)}
	for r := 0; r < c11NRegimes; r++ {
		nodes := c11ApplyRegime(ctx, ff, r)
		e.emit("witness", 1, nodes, c11TupleQueries([][]int{{1, 3}, {3, 1}, {1, 3, 2}, {0, 1, 2, 3}}), 8)
		e.emit("witness", 0, nodes, c11TupleQueries(c11Tuples(4, 2)), 16)
	}
	// >= 3 inputs: roots r0 r1 r2, m = merge(r0, r1), t = merge(r2, m): Seek(r0, r1, t)
	// returned r0 although r0 and r1 have no common ancestor
	w3 := [][]int{P(), P(), P(), P(0, 1), P(2, 3)}
	for r := 0; r < c11NRegimes; r++ {
		nodes := c11ApplyRegime(ctx, w3, r)
		e.emit("witness", 1, nodes, c11TupleQueries([][]int{{0, 1, 4}}), 1)
		e.emit("witness", 1, nodes, c11TupleQueries([][]int{{0, 1}, {0, 4}, {3, 4}, {4, 3}}), 8)
	}
	// arities 0 and 1, duplicated inputs, unknown and deleted commits
	{
		nodes := c11ApplyRegime(ctx, ff, c11Topo)
		e.emit("witness", 1, nodes, c11TupleQueries([][]int{{}, {2}, {2, 2}, {2, 2, 2}, {1, 1, 3}, {3, 1, 3, 1}}), 8)
		e.emit("witness", 1, nodes, c11TupleQueries([][]int{{9, 1}, {1, 9}, {9, 9}, {9}}), 8)
		e.emit("witness", 0, nodes, c11TupleQueries([][]int{{9, 1}, {1, 9}, {9, 9}}), 8)
		e.emit("witness", 2, nodes, []*xt.T{c11WalkQuery(nodes, []int{}), c11WalkQuery(nodes, []int{3}),
			c11WalkQuery(nodes, []int{3, 3, 1}), c11WalkQuery(nodes, []int{9}), c11WalkQuery(nodes, []int{1, 9})}, 8)
		gone := c11ApplyRegime(ctx, ff, c11Topo)
		gone[1].present = false
		e.emit("witness", 1, gone, c11TupleQueries([][]int{{0, 3}, {3, 2}, {2, 3}, {1, 3}, {3, 1}, {0, 2, 3}}), 8)
		e.emit("witness", 0, gone, c11TupleQueries(c11Tuples(4, 2)), 16)
		e.emit("witness", 2, gone, []*xt.T{c11WalkQuery(gone, []int{3}), c11WalkQuery(gone, []int{2}),
			c11WalkQuery(gone, []int{0}), c11WalkQuery(gone, []int{1}), c11WalkQuery(gone, []int{0, 3})}, 8)
	}
	// PopUntil / RemoveAncestors on the fast-forward history, with unknown and deleted commits
	{
		nodes := c11ApplyRegime(ctx, ff, c11Topo)
		e.emit("witness", 3, nodes, []*xt.T{c11UntilQuery(nodes, []int{3}, []int{1, 1, 0}), c11UntilQuery(nodes, []int{3}, []int{9}),
			c11UntilQuery(nodes, []int{2, 3}, []int{3, 2, 0, 0}), c11UntilQuery(nodes, []int{}, []int{0}), c11UntilQuery(nodes, []int{9}, []int{0})}, 8)
		e.emit("witness", 4, nodes, []*xt.T{c11RemoveQuery(nodes, []int{3}, 1, []int{1}), c11RemoveQuery(nodes, []int{3, 1}, 0, []int{2}),
			c11RemoveQuery(nodes, []int{3}, 1, []int{}), c11RemoveQuery(nodes, []int{3}, 1, []int{9}), c11RemoveQuery(nodes, []int{2, 0}, 0, []int{3, 3})}, 8)
		gone := c11ApplyRegime(ctx, ff, c11Topo)
		gone[1].present = false
		e.emit("witness", 3, gone, []*xt.T{c11UntilQuery(gone, []int{3}, []int{2, 0}), c11UntilQuery(gone, []int{3}, []int{0}),
			c11UntilQuery(gone, []int{3}, []int{1})}, 8)
		e.emit("witness", 4, gone, []*xt.T{c11RemoveQuery(gone, []int{3}, 1, []int{2}), c11RemoveQuery(gone, []int{3}, 0, []int{0}),
			c11RemoveQuery(gone, []int{0}, 0, []int{3}), c11RemoveQuery(gone, []int{3}, 3, []int{0})}, 8)
	}
	// ---- exhaustive small scope ------------------------------------------------------
	maxN := 5
	for n := 1; n <= maxN; n++ {
		shapes := c11Shapes(n)
		pairs := c11Tuples(n, 2)
		t3 := c11Tuples(n, 3)
		t4 := c11Tuples(n, 4)
		var subsets [][]int
		for m := 1; m < 1<<n; m++ {
			var s []int
			for i := n - 1; i >= 0; i-- {
				if m>>i&1 == 1 {
					s = append(s, i)
				}
			}
			subsets = append(subsets, s)
		}
		for _, shape := range shapes {
			for r := 0; r < c11NRegimes; r++ {
				nodes := c11ApplyRegime(ctx, shape, r)
				tag := fmt.Sprintf("exh%d", n)
				full := ctx.Thorough() || n <= 4
				ctx.Count("graphs_" + c11RegimeName[r])
				e.emit(tag, 0, nodes, c11TupleQueries(pairs), 32)
				if full {
					e.emit(tag, 1, nodes, c11TupleQueries(pairs), 32)
					e.emit(tag, 1, nodes, c11TupleQueries(t3), 25)
					e.emit(tag, 1, nodes, c11TupleQueries(t4), 25)
				} else {
					e.emit(tag, 1, nodes, c11TupleQueries(c11Sample(ctx, pairs, 10)), 32)
					e.emit(tag, 1, nodes, c11TupleQueries(c11Sample(ctx, t3, 10)), 25)
					e.emit(tag, 1, nodes, c11TupleQueries(c11Sample(ctx, t4, 8)), 25)
				}
				var wq []*xt.T
				subs := subsets
				if !full {
					subs = c11Sample(ctx, subsets, 8)
				}
				for _, s := range subs {
					wq = append(wq, c11WalkQuery(nodes, s))
				}
				// a shuffled root list with a duplicate
				for k := 0; k < 2; k++ {
					s := append([]int{}, subsets[ctx.Pick(len(subsets))]...)
					s = append(s, s[ctx.Pick(len(s))])
					ctx.Rng.Shuffle(len(s), func(i, j int) { s[i], s[j] = s[j], s[i] })
					wq = append(wq, c11WalkQuery(nodes, s))
				}
				e.emit(tag, 2, nodes, wq, 40)
				// PopUntil: root subsets x (every single target, every ordered pair of targets)
				var uq []*xt.T
				if full {
					for _, rs := range subsets {
						for _, t := range pairs {
							uq = append(uq, c11UntilQuery(nodes, rs, t))
						}
						for t := 0; t <= n; t++ { // n = a commit that does not exist
							uq = append(uq, c11UntilQuery(nodes, rs, []int{t}))
						}
					}
				} else {
					for k := 0; k < 12; k++ {
						rs := subsets[ctx.Pick(len(subsets))]
						ts := make([]int, 1+ctx.Pick(3))
						for i := range ts {
							ts[i] = ctx.Pick(n + 1)
						}
						uq = append(uq, c11UntilQuery(nodes, rs, ts))
					}
				}
				e.emit(tag, 3, nodes, uq, 40)
				// RemoveAncestors: queue = root subset after 0..3 pops, sums = every subset (VERIF_C11_FULL=1: all four
				// pop counts for every pair instead of a random one; 9.7M calls in thorough)
				var rq []*xt.T
				if full {
					for _, rs := range subsets {
						for _, ss := range subsets {
							if os.Getenv("VERIF_C11_FULL") != "" {
								for np := 0; np <= 3; np++ {
									rq = append(rq, c11RemoveQuery(nodes, rs, np, ss))
								}
							} else {
								rq = append(rq, c11RemoveQuery(nodes, rs, ctx.Pick(4), ss))
							}
						}
					}
				} else {
					for k := 0; k < 16; k++ {
						rq = append(rq, c11RemoveQuery(nodes, subsets[ctx.Pick(len(subsets))], ctx.Pick(4), subsets[ctx.Pick(len(subsets))]))
					}
				}
				e.emit(tag, 4, nodes, rq, 40)
			}
		}
	}
	// ---- the merge command's base selection (kind 5) ------------------------------------
	c11GenMerge(ctx, e)
	// ---- random DAGs up to 25 nodes --------------------------------------------------
	nr := 150
	if ctx.Thorough() {
		nr = 3000
	}
	for it := 0; it < nr; it++ {
		n := 6 + ctx.Pick(20)
		shape := make([][]int, n)
		// style: 0 = bushy (parents anywhere below), 1 = long chains with merges, 2 = many roots
		style := ctx.Pick(3)
		for i := 1; i < n; i++ {
			k := 1
			switch r := ctx.Pick(10); {
			case r < 1 || (style == 2 && r < 4):
				k = 0
			case r < 5:
				k = 2
			case r == 9:
				k = 3
			}
			for len(shape[i]) < k && len(shape[i]) < i {
				p := ctx.Pick(i)
				if style == 1 && ctx.Pick(3) > 0 {
					p = i - 1 - ctx.Pick(c11Min(i, 3))
				}
				dup := false
				for _, x := range shape[i] {
					dup = dup || x == p
				}
				if !dup {
					shape[i] = append(shape[i], p)
				}
			}
		}
		regime := ctx.Pick(c11NRegimes)
		nodes := c11ApplyRegime(ctx, shape, regime)
		tag := "rand"
		if ctx.Pick(8) == 0 {
			// a history with one deleted commit: errors must correspond
			nodes[ctx.Pick(n)].present = false
			tag = "rand-missing"
			ctx.Count("graphs_with_missing_commit")
		}
		ctx.Count("graphs_" + c11RegimeName[regime])
		pick := func(k int) []int {
			t := make([]int, k)
			for i := range t {
				t[i] = ctx.Pick(n)
				if ctx.Pick(3) == 0 {
					t[i] = n - 1 - ctx.Pick(c11Min(n, 4)) // heads are the usual merge inputs
				}
			}
			return t
		}
		var anc, seek2, seek3, walks []*xt.T
		for j := 0; j < 12; j++ {
			anc = append(anc, xt.Ints(pick(2)))
			seek2 = append(seek2, xt.Ints(pick(2)))
		}
		for j := 0; j < 8; j++ {
			seek3 = append(seek3, xt.Ints(pick(3+ctx.Pick(2))))
		}
		for j := 0; j < 4; j++ {
			walks = append(walks, c11WalkQuery(nodes, pick(1+ctx.Pick(4))))
		}
		e.emit(tag, 0, nodes, anc, 32)
		e.emit(tag, 1, nodes, seek2, 32)
		e.emit(tag, 1, nodes, seek3, 8)
		e.emit(tag, 2, nodes, walks, 8)
		var untils, removes []*xt.T
		for j := 0; j < 4; j++ {
			untils = append(untils, c11UntilQuery(nodes, pick(1+ctx.Pick(3)), pick(1+ctx.Pick(4))))
		}
		for j := 0; j < 6; j++ {
			removes = append(removes, c11RemoveQuery(nodes, pick(1+ctx.Pick(5)), ctx.Pick(n), pick(1+ctx.Pick(3))))
		}
		e.emit(tag, 3, nodes, untils, 8)
		e.emit(tag, 4, nodes, removes, 8)
	}
	return e.cases
}

func c11Min(a, b int) int {
	if a < b {
		return a
	}
	return b
}
