package main

import (
	"bytes"
	"fmt"
	"io"
	"os"
	"path/filepath"
	"strings"
	"time"

	"github.com/wrgl/wrgl/pkg/objects"
	"github.com/wrgl/wrgl/pkg/ref"

	"verifharness/xt"
)

// C02: a table's identifier depends only on its logical content.
//
//	case = (columns pknames (variant ...) (mutant ...) cli)
//	  variant = (rows runSize arrival (workers delimiter kind deps style)) -- the SAME logical table: the rows
//	            permuted, another run size / worker count / delimiter / producer (kind 0 or 2) / store /
//	            forced worker schedule (deps, see C01) / CSV text style (see C01)
//	  mutant  = (columns pknames rows) -- differs in one cell / column name / column order / key
//	  cli     = 1: additionally drive wrgl commit from a branch file with --no-cache (see c02CLI)
//	            2: drive it WITH the cache; a sixth element lists steps (delta+100000 content all), see c02Cache
//	observation = (status (block ...) (same ...) (differs ...) (cli ...))
//	  blocks of variant 0 (rows as nodes of cells); same_i = 1 iff variant i+1 got the table id of
//	  variant 0; differs_j = 1 iff mutant j got another id (2 = mutant refused);
//	  cli = () or (c1 c2 c3 c4): whether a commit was created by: first commit of variant 0's
//	  file; commit again unchanged; commit after rewriting the file with variant 1's rows;
//	  commit after rewriting it with mutant 0 (same header) -- expected 1 0 0 1.

func init() { props["C02"] = &Prop{Gen: genC02, Run: runC02} }

func c02Variant(k c01Case) *xt.T {
	return xt.N(c19Rows(k.Rows), xt.L(k.RunSize), xt.Ints(k.Arrival), xt.N(xt.LI(k.Workers), xt.LI(int(k.Delim)), xt.LI(k.Kind), c01Deps(k.Deps), xt.LI(k.Style)))
}

func c02Mutant(k c01Case) *xt.T {
	return xt.N(xt.Strs(k.Columns), xt.Strs(k.PKNames), c19Rows(k.Rows))
}

func c02KeyCount(db objects.Store) int {
	n := 0
	for _, f := range []func(objects.Store) ([][]byte, error){objects.GetAllBlockKeys, objects.GetAllBlockIndexKeys,
		objects.GetAllTableKeys, objects.GetAllTableIndexKeys} {
		ks, err := f(db)
		if err != nil {
			panic(err)
		}
		seen := map[string]bool{}
		for _, k := range ks {
			if seen[string(k)] {
				panic("duplicate key listed")
			}
			seen[string(k)] = true
		}
		n += len(ks)
	}
	return n
}

func runC02(ctx *Ctx, c *xt.T) (*xt.T, Verdict) {
	columns := c01Strs(c.Kids[0])
	pknames := c01Strs(c.Kids[1])
	v := OK()
	bad := func(class, format string, a ...interface{}) {
		if v.OK {
			v = Fail(class, format, a...)
		}
	}
	shared := c01NewStore()
	var sum0 []byte
	var blocks0 [][][]string
	same := xt.N()
	var variants []c01Case
	keysAfterFirst := 0
	for i, vt := range c.Kids[2].Kids {
		k := c01Case{Columns: columns, PKNames: pknames, Rows: c19DecodeRows(vt.Kids[0]), RunSize: vt.Kids[1].N,
			Arrival: c19Ints(vt.Kids[2]), Workers: int(vt.Kids[3].Kids[0].N), Delim: rune(vt.Kids[3].Kids[1].N),
			Kind: int(vt.Kids[3].Kids[2].N)}
		if len(vt.Kids[3].Kids) > 3 {
			k.Deps = c01DecodeDeps(vt.Kids[3].Kids[3])
		}
		if len(vt.Kids[3].Kids) > 4 {
			k.Style = int(vt.Kids[3].Kids[4].N)
		}
		if i < 2 {
			k.Store = shared // variants 0 and 1 go into one store, the others into their own
		}
		variants = append(variants, k)
		res := c01Ingest(ctx, k)
		if i == 0 {
			c01Judge(k, res, bad)
			if res.Err != nil {
				return xt.N(xt.LI(1), xt.N(), xt.N(), xt.N(), xt.N()), v
			}
			sum0 = res.Sum
			blocks0 = res.Blocks
			keysAfterFirst = c02KeyCount(shared)
			continue
		}
		if res.Err != nil {
			same.Add(xt.LI(2))
			bad("variant-refused", "variant %d of an accepted table was refused: %v", i, res.Err)
			continue
		}
		eq := bytes.Equal(res.Sum, sum0)
		same.Add(xt.Bool(eq))
		if !eq {
			bad("id-differs-for-same-content", "variant %d (runSize %d, workers %d, delimiter %q, kind %d) got id %x, variant 0 got %x",
				i, k.RunSize, k.Workers, k.Delim, k.Kind, res.Sum, sum0)
		}
		if i == 1 {
			if n := c02KeyCount(shared); n != keysAfterFirst {
				bad("second-ingest-added-objects", "store holds %d objects after the first ingest and %d after ingesting the same table again", keysAfterFirst, n)
			}
		}
	}
	differs := xt.N()
	var mutants []c01Case
	var mutSum0 []byte
	for j, mt := range c.Kids[3].Kids {
		k := c01Case{Columns: c01Strs(mt.Kids[0]), PKNames: c01Strs(mt.Kids[1]), Rows: c19DecodeRows(mt.Kids[2]),
			RunSize: 4096, Workers: 1, Delim: ','}
		mutants = append(mutants, k)
		res := c01Ingest(ctx, k)
		if res.Err != nil {
			differs.Add(xt.LI(2))
			continue
		}
		ne := !bytes.Equal(res.Sum, sum0)
		if j == 0 {
			mutSum0 = res.Sum
		}
		differs.Add(xt.Bool(ne))
		if !ne {
			bad("id-collision-for-different-content", "mutant %d (differs in a cell / column / key) got the same id %x", j, sum0)
		}
	}
	cli := xt.N()
	if len(c.Kids) > 4 && c.Kids[4].N == 1 && len(variants) > 1 && len(mutants) > 0 {
		cli = c02CLI(ctx, variants[0], variants[1], mutants[0], bad)
	}
	if len(c.Kids) > 5 && c.Kids[4].N == 2 && len(variants) > 1 && len(mutants) > 0 && mutSum0 != nil {
		cli = c02Cache(ctx, []c01Case{variants[0], variants[1], mutants[0]}, [][]byte{sum0, sum0, mutSum0}, c.Kids[5], bad)
	}
	return xt.N(xt.LI(0), c01BlocksPlain(blocks0), same, differs, cli), v
}

func c01BlocksPlain(blocks [][][]string) *xt.T {
	t := xt.N()
	for _, b := range blocks {
		t.Add(c19Rows(b))
	}
	return t
}

// c02CLI drives commitIfBranchFileHasChanged: commit with --set-file/--set-primary-key, then
// "wrgl commit main msg" three times while the file is left alone, rewritten with the same
// logical content, rewritten with changed content.
func c02CLI(ctx *Ctx, v0, v1, m0 c01Case, bad func(class, format string, a ...interface{})) *xt.T {
	rd, root := c01NewRepo(ctx)
	defer func() {
		rd.Close()
		os.RemoveAll(root)
	}()
	fp := filepath.Join(root, "data.csv")
	write := func(k c01Case) {
		text := c01Text(append([][]string{k.Columns}, k.Rows...), ',', k.Style)
		if err := os.WriteFile(fp, text, 0600); err != nil {
			panic(err)
		}
	}
	head := func() string {
		rs := rd.OpenRefStore()
		h, err := ref.GetHead(rs, "main")
		if err != nil {
			return ""
		}
		return string(h)
	}
	out := xt.N()
	step := func(name string, wantCommit bool, args ...string) {
		before := head()
		var buf bytes.Buffer
		err := c01Wrgl(&buf, args...)
		if err == errC01Hang {
			bad("commit-hangs", "%s: wrgl %v did not return", name, args)
			out.Add(xt.LI(9))
			return
		}
		if err != nil {
			panic(fmt.Sprintf("wrgl %v: %v", args, err))
		}
		created := head() != before
		out.Add(xt.Bool(created))
		said := strings.Contains(buf.String(), "hasn't changed since the last commit")
		if created != wantCommit {
			bad("no-change-decision", "%s: commit created = %v, expected %v", name, created, wantCommit)
		}
		if created == said {
			bad("no-change-message", "%s: commit created = %v but message says unchanged = %v", name, created, said)
		}
	}
	write(v0)
	args := []string{"commit", "main", fp, "first", "-n", "1", "--set-file"}
	if len(v0.PKNames) > 0 {
		args = append(args, "-p", strings.Join(v0.PKNames, ","), "--set-primary-key")
	}
	before := head()
	if err := c01Wrgl(io.Discard, args...); err == errC01Hang {
		bad("commit-hangs", "wrgl %v did not return", args)
		return out
	} else if err != nil {
		panic(fmt.Sprintf("wrgl %v: %v", args, err))
	}
	out.Add(xt.Bool(head() != before))
	step("unchanged file", false, "commit", "main", "second", "-n", "2", "--no-cache")
	write(v1)
	step("same content, rows permuted", false, "commit", "main", "third", "-n", "3", "--no-cache", "--mem-limit", "1")
	write(m0)
	step("changed content", true, "commit", "main", "fourth", "-n", "1", "--no-cache")
	return out
}

// c02Cache drives branch-file mode WITH the commit cache (ensureTempCommit): after the first
// commit (--set-file/--set-primary-key) and the commit that creates the cached <branch>-tmp
// commit, every step writes one of the contents, sets the file's modification time to the
// cached commit's (second precision) time + delta ms with os.Chtimes and runs
// `wrgl commit main MSG` or `wrgl commit --all MSG`.  Judged (mtime strictly after the cached
// commit's time): a commit is created iff the file's table differs from the head's, the head
// then holds the file's table, and "hasn't changed" / "up-to-date" is printed iff no commit
// was created.  Steps with delta <= 0 are observed only (the code trusts the mtime there).
func c02Cache(ctx *Ctx, contents []c01Case, sums [][]byte, steps *xt.T, bad func(class, format string, a ...interface{})) *xt.T {
	rd, root := c01NewRepo(ctx)
	defer func() {
		rd.Close()
		os.RemoveAll(root)
	}()
	fp := filepath.Join(root, "data.csv")
	write := func(k c01Case) {
		text := c01Text(append([][]string{k.Columns}, k.Rows...), ',', k.Style)
		if err := os.WriteFile(fp, text, 0600); err != nil {
			panic(err)
		}
	}
	// (head commit, head table, cached commit time)
	state := func() (string, []byte, time.Time) {
		db, err := rd.OpenObjectsStore()
		if err != nil {
			panic(err)
		}
		defer db.Close()
		rs := rd.OpenRefStore()
		var headSum string
		var tbl []byte
		if h, err := ref.GetHead(rs, "main"); err == nil {
			headSum = string(h)
			com, err := objects.GetCommit(db, h)
			if err != nil {
				panic(err)
			}
			tbl = com.Table
		}
		var tc time.Time
		if h, err := ref.GetHead(rs, "main-tmp"); err == nil {
			com, err := objects.GetCommit(db, h)
			if err != nil {
				panic(err)
			}
			tc = com.Time
		}
		return headSum, tbl, tc
	}
	out := xt.N()
	run := func(name string, args ...string) (string, bool) {
		var buf bytes.Buffer
		err := c01Wrgl(&buf, args...)
		if err == errC01Hang {
			bad("commit-hangs", "%s: wrgl %v did not return", name, args)
			return "", false
		}
		if err != nil {
			panic(fmt.Sprintf("wrgl %v: %v", args, err))
		}
		return buf.String(), true
	}
	write(contents[0])
	args := []string{"commit", "main", fp, "first", "-n", "1", "--set-file"}
	if len(contents[0].PKNames) > 0 {
		args = append(args, "-p", strings.Join(contents[0].PKNames, ","), "--set-primary-key")
	}
	if _, ok := run("first commit", args...); !ok {
		return out
	}
	h0, _, _ := state()
	out.Add(xt.Bool(h0 != ""))
	if _, ok := run("commit creating the cache", "commit", "main", "second", "-n", "1"); !ok {
		return out
	}
	h1, _, tc := state()
	out.Add(xt.Bool(h1 != h0))
	if h1 != h0 {
		bad("no-change-decision", "unchanged file committed again")
	}
	if tc.IsZero() {
		panic("no cached main-tmp commit after a commit from the branch file")
	}
	for i, sp := range steps.Kids {
		delta := time.Duration(int64(sp.Kids[0].N)-100000) * time.Millisecond
		ci := int(sp.Kids[1].N)
		all := len(sp.Kids) > 2 && sp.Kids[2].N == 1
		write(contents[ci])
		mtime := tc.Add(delta)
		if err := os.Chtimes(fp, mtime, mtime); err != nil {
			panic(err)
		}
		before, headTbl, _ := state()
		name := fmt.Sprintf("step %d (content %d, mtime = cached commit time %+v)", i, ci, delta)
		var text string
		var ok bool
		if all {
			text, ok = run(name, "commit", "--all", fmt.Sprintf("msg%d", i), "-n", "1")
		} else {
			text, ok = run(name, "commit", "main", fmt.Sprintf("msg%d", i), "-n", "1")
		}
		if !ok {
			return out
		}
		after, newTbl, newTc := state()
		created := after != before
		out.Add(xt.Bool(created))
		said := strings.Contains(text, "hasn't changed since the last commit") || strings.Contains(text, "all branches are up-to-date")
		if created == said {
			bad("no-change-message", "%s: commit created = %v but the output says unchanged = %v", name, created, said)
		}
		if delta > 0 {
			ctx.Count("cache_steps_judged")
			want := !bytes.Equal(sums[ci], headTbl)
			switch {
			case want && !created:
				bad("changed-file-reported-unchanged", "%s: the file holds another table than the branch head but no commit was created", name)
			case !want && created:
				bad("no-change-decision", "%s: the file holds the head's table but a commit was created", name)
			case created && !bytes.Equal(newTbl, sums[ci]):
				bad("committed-table-not-the-files", "%s: the new head's table is not the table of the file", name)
			}
		} else {
			ctx.Count("cache_steps_observed_only")
		}
		tc = newTc
	}
	return out
}

// ------------------------------------------------------------------ generation

func genC02(ctx *Ctx) []Case {
	g := &c01Gen{ctx: ctx, huge: uint64(1) << 40}
	var cases []Case
	ncli := 0
	permNext := map[int]int{}
	build := func(tag string, base c01Case, cli bool) {
		if cli {
			ncli++
		}
		cacheMode := cli && ncli%2 == 0 // every other CLI case drives the cache
		recs, ok := c01Stable(append([][]string{base.Columns}, base.Rows...), ',')
		if !ok {
			ctx.Count("gen_not_csv_stable_skipped")
			return
		}
		for _, d := range c01Delims {
			for _, st := range []int{0, c01StyleRaw, c01StyleRaw | c01StyleCRLF, c01StyleRaw | c01StyleNoFinal} {
				back, ok := c01StableStyle(recs, d, st)
				for i := range back {
					if ok && c19KeyString(back[i]) != c19KeyString(recs[i]) {
						ok = false
					}
				}
				if !ok {
					ctx.Count("gen_not_csv_stable_skipped")
					return
				}
			}
		}
		base.Columns, base.Rows = recs[0], recs[1:]
		pkIdx, ok := c01PkIndicesOf(base.Columns, base.PKNames)
		if !ok {
			return
		}
		idx := c19PkIndices(len(base.Columns), pkIdx)
		// unique keys only
		seen := map[string]bool{}
		var rows [][]string
		for _, r := range base.Rows {
			ks := c19KeyString(c19KeyOf(idx, r))
			if !seen[ks] {
				seen[ks] = true
				rows = append(rows, r)
			}
		}
		base.Rows = rows
		// variants: 6 ways of ingesting the same logical table
		vs := xt.N()
		nv := 6
		for i := 0; i < nv; i++ {
			k := base
			k.Rows = append([][]string{}, base.Rows...)
			if i > 0 {
				ctx.Rng.Shuffle(len(k.Rows), func(a, b int) { k.Rows[a], k.Rows[b] = k.Rows[b], k.Rows[a] })
			}
			k.RunSize = []uint64{g.huge, 1, 64, 4096, uint64(8 + ctx.Pick(500)), 1}[i]
			k.Workers = c01Workers[(i+ctx.Pick(2))%len(c01Workers)]
			k.Delim = c01Delims[(i+1)%len(c01Delims)]
			k.Arrival = g.arrival()
			k.Kind = 0
			if i == 4 {
				k.Kind = 2
			}
			// the file text is written in different styles: heavy quoting, hand-formatted (blanks
			// reach the parser unquoted), CRLF line ends, no final line end
			k.Style = []int{0, c01StyleRaw, c01StyleRaw | c01StyleCRLF, c01StyleCRLF, 0, c01StyleRaw | c01StyleNoFinal}[i]
			// tables of 3+ blocks: two variants are ingested under a forced worker schedule
			if nb := (len(base.Rows) + 254) / 255; (nb == 3 || nb == 4) && (i == 1 || i == 3 || i == 5) {
				// every completion order of 3 / 4 blocks is visited in turn across the cases
				perms := c01Perms(nb)
				k.Deps, k.Arrival, k.Workers = c01ForcedOrder(perms[permNext[nb]%len(perms)])
				permNext[nb]++
				ctx.Count(fmt.Sprintf("forced_completion_orders_%d_blocks", nb))
			} else if nb >= 3 && (i == 3 || i == 5) {
				pattern := 2
				if i == 5 {
					pattern = 0
					if nb >= 4 && ctx.Pick(2) == 0 {
						pattern = 1
					}
				} else if nb <= 5 && ctx.Pick(2) == 0 {
					pattern = 3
				}
				k.Deps, k.Arrival, k.Workers = c01ForcedSchedule(pattern, nb)
				ctx.Count(fmt.Sprintf("forced_schedule_pattern_%d", pattern))
			}
			vs.Add(c02Variant(k))
		}
		// mutants
		ms := xt.N()
		addMut := func(k c01Case, what string) {
			ms.Add(c02Mutant(k))
			ctx.Count("mutant_" + what)
		}
		ncols := len(base.Columns)
		if len(base.Rows) > 0 { // one cell
			k := base
			k.Rows = append([][]string{}, base.Rows...)
			ri := ctx.Pick(len(k.Rows))
			r := append([]string{}, k.Rows[ri]...)
			ci := ctx.Pick(ncols)
			inKey := false
			for _, u := range idx {
				if u == ci {
					inKey = true
				}
			}
			r[ci] = r[ci] + "Z"
			k.Rows[ri] = r
			if inKey { // keep keys unique
				ks := c19KeyString(c19KeyOf(idx, r))
				if seen[ks] {
					r[ci] = r[ci] + "ZZ"
				}
			}
			addMut(k, "cell")
		}
		{ // one column name
			k := base
			k.Columns = append([]string{}, base.Columns...)
			ci := ctx.Pick(ncols)
			old := k.Columns[ci]
			k.Columns[ci] = old + "_x"
			k.PKNames = append([]string{}, base.PKNames...)
			for i, n := range k.PKNames {
				if n == old {
					k.PKNames[i] = old + "_x"
				}
			}
			if old != "" {
				addMut(k, "column_name")
			}
		}
		if ncols >= 2 { // column order (data moved along)
			k := base
			a, b := 0, 1+ctx.Pick(ncols-1)
			k.Columns = append([]string{}, base.Columns...)
			k.Columns[a], k.Columns[b] = k.Columns[b], k.Columns[a]
			k.Rows = nil
			for _, r := range base.Rows {
				r2 := append([]string{}, r...)
				r2[a], r2[b] = r2[b], r2[a]
				k.Rows = append(k.Rows, r2)
			}
			addMut(k, "column_order")
		}
		{ // key: add a column to the key / reverse a composite key
			k := base
			if len(base.PKNames) >= 2 {
				k.PKNames = []string{}
				for i := len(base.PKNames) - 1; i >= 0; i-- {
					k.PKNames = append(k.PKNames, base.PKNames[i])
				}
				addMut(k, "key_order")
			} else if len(base.PKNames) == 1 && ncols >= 2 {
				for _, cname := range base.Columns {
					if cname != base.PKNames[0] && cname != "" {
						k.PKNames = []string{base.PKNames[0], cname}
						addMut(k, "key_extended")
						break
					}
				}
			}
		}
		cliFlag := 0
		if cli {
			cliFlag = 1
		}
		t := xt.N(xt.Strs(base.Columns), xt.Strs(base.PKNames), vs, ms, xt.LI(cliFlag))
		if cacheMode && len(base.Rows) > 0 {
			// branch-file mode with the cache: contents 0/1 = the table (two row orders), 2 = one cell changed;
			// mtime = cached commit time + delta: 0.2 s and 0.9 s (same second), 1 s, 2 s; <= 0 observed only
			deltas := []int{200, 900, 1000, 2000, 1, 999, 0, -5000}
			steps := xt.N()
			content := 0
			for j, m := 0, 5+ctx.Pick(4); j < m; j++ {
				d := deltas[(j+ctx.Pick(3))%len(deltas)]
				if j < 2 {
					d = deltas[(ncli/2+j)%2] // every case starts with a same-second edit
				}
				switch ctx.Pick(3) {
				case 0: // leave the logical content
					if content == 0 {
						content = 1
					} else if content == 1 {
						content = 0
					}
				default: // change it
					if content == 2 {
						content = ctx.Pick(2)
					} else {
						content = 2
					}
				}
				if j == 0 {
					content = 2
				}
				steps.Add(xt.N(xt.LI(d+100000), xt.LI(content), xt.LI(j%3/2)))
				ctx.Count(fmt.Sprintf("cache_step_delta_%dms", d))
			}
			t = xt.N(xt.Strs(base.Columns), xt.Strs(base.PKNames), vs, ms, xt.LI(2), steps)
			ctx.Count("cache_cases")
		}
		cases = append(cases, Case{Tag: tag, Nontrivial: len(base.Rows) >= 2, C: t})
	}
	// witness: multi-block table, every way
	{
		var rows [][]string
		for i := 0; i < 600; i++ {
			rows = append(rows, []string{fmt.Sprintf("%04d", (i*7)%600), fmt.Sprintf("v%d", i), ""})
		}
		build("witness", c01Case{Columns: []string{"a", "b", "c"}, PKNames: []string{"a"}, Rows: rows}, false)
		build("witness", c01Case{Columns: []string{"a", "b", "c"}, PKNames: nil, Rows: rows[:300]}, false)
		// enough 3- and 4-block tables for every completion order (6 + 24, three forced variants per table)
		for w := 0; w < 9; w++ {
			n := 600 + w
			if w >= 1 {
				n = 800 + 20*w
			}
			var rs [][]string
			for i := 0; i < n; i++ {
				rs = append(rs, []string{fmt.Sprintf("%04d", (i*7)%n), fmt.Sprintf("w%d", i%5)})
			}
			build("witness", c01Case{Columns: []string{"a", "b"}, PKNames: []string{"a"}, Rows: rs}, false)
		}
		build("witness", c01Case{Columns: []string{"a", "b"}, PKNames: []string{"a"}, Rows: [][]string{{"", "1"}, {"x", "2"}}}, true)
		build("witness", c01Case{Columns: []string{"id", "name"}, PKNames: []string{"id"}, Rows: [][]string{{"1", "alice"}, {"2", "bob"}, {"3", "carol"}}}, true)
	}
	n := 200
	if ctx.Thorough() {
		n = 1500
	}
	for i := 0; i < n; i++ {
		k := g.randTable(600, true)
		simple := true
		for _, c := range k.Columns {
			if c == "" || strings.ContainsAny(c, ", \"") {
				simple = false
			}
		}
		cli := simple && i%6 == 0 && len(k.Rows) < 300 && len(k.Rows) > 0
		if cli {
			ctx.Count("cli_cases")
		}
		build("rand", k, cli)
	}
	return cases
}
