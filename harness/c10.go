package main

// C10: "without force a ref only ever moves forward along its own history".
// `wrgl fetch|push|merge|pull` are run in-process (wrgl.RootCmd) on a fresh repository
// directory against the reference server (c09_server.go) and compared with
// coq/model/RefUpdate.v (run_C10), and judged by an independent oracle.
//
// case  = (graph lrefs rrefs lhave op ts)
//   graph = ((id (parent ...)) ...)   parents before children; ids >= 1000 are the commits a merge
//                                     would create (never stored by the setup)
//   lrefs, rrefs = ((name id) ...)    ref name bytes without "refs/", created with SaveRef action "commit"
//   lhave = (id ...)                  commits stored locally (closed)
//   op    = (0 gforce (spec ...))                         fetch origin SPEC...;  spec = (force glob src dst)
//         | (1 gforce denyNonFF denyDeletes (pitem ...))  push origin ITEM...;   pitem = (force (src)? dst)
//         | (2 mode branch (other ...) m)                 merge BRANCH OTHER;    mode 0 --ff 1 --no-ff 2 --ff-only
//         | (3 gforce mode branch (spec ...) m)           pull BRANCH origin SPEC...
//   ts    = timestamp regime of the commits (0 topological, 1 reversed, 2 all equal); ignored by the model
// obs   = (outcome nrej lrefs' rrefs')
//   outcome 0 ok | 1 error | 2 panic; nrej = number of "[rejected]"/"[remote rejected]" lines (merge: 1
//   if the error says "rejected"); refs' = ((name id ((old? new action) ...)) ...) sorted, log newest first
//   actions: 0 commit 1 fetch 2 merge 3 pull 4 receive-pack 9 other; an unknown commit is mapped to the
//   op's m when its parents are graph[m]'s, else to 999999.
//
// Oracle classes: forward-only, tag-clobbered, legal-update-lost (frame: a legal update must happen whatever
// happens to the other refs), rejection-not-reported, log-untrue, ff-not-exact, pull-branch-not-created.

import (
	"bytes"
	"fmt"
	"net/http/httptest"
	"os"
	"path/filepath"
	"runtime/debug"
	"sort"
	"strings"
	"sync"

	"github.com/spf13/viper"
	wrgl "github.com/wrgl/wrgl/cmd/wrgl"
	"github.com/wrgl/wrgl/pkg/conf"
	conffs "github.com/wrgl/wrgl/pkg/conf/fs"
	"github.com/wrgl/wrgl/pkg/local"
	"github.com/wrgl/wrgl/pkg/objects"
	"github.com/wrgl/wrgl/pkg/ref"

	"verifharness/xt"
)

func init() { props["C10"] = &Prop{Gen: genC10, Run: runC10} }

// ------------------------------------------------------------------ case building

type c10Spec struct {
	Force, Glob bool
	Src, Dst    string
}
type c10PItem struct {
	Force bool
	Src   string // "" = delete
	Dst   string
}
type c10Case struct {
	Par    map[int][]int
	Order  []int
	LRefs  [][2]interface{} // name, id
	RRefs  [][2]interface{}
	LHave  []int
	Kind   int
	GForce bool
	DenyFF bool
	DenyDl bool
	Mode   int
	Branch string
	Others []string
	M      int
	Specs  []c10Spec
	Items  []c10PItem
	Ts     int
}

func c10RefsT(l [][2]interface{}) *xt.T {
	t := xt.N()
	for _, e := range l {
		t.Add(xt.N(xt.Str(e[0].(string)), xt.LI(e[1].(int))))
	}
	return t
}

func (c *c10Case) Tree() *xt.T {
	g := xt.N()
	for _, id := range c.Order {
		g.Add(xt.N(xt.LI(id), xt.Ints(c.Par[id])))
	}
	specs := xt.N()
	for _, s := range c.Specs {
		specs.Add(xt.N(xt.Bool(s.Force), xt.Bool(s.Glob), xt.Str(s.Src), xt.Str(s.Dst)))
	}
	var op *xt.T
	switch c.Kind {
	case 0:
		op = xt.N(xt.LI(0), xt.Bool(c.GForce), specs)
	case 1:
		items := xt.N()
		for _, it := range c.Items {
			var src *xt.T
			if it.Src != "" {
				src = xt.Str(it.Src)
			}
			items.Add(xt.N(xt.Bool(it.Force), xt.Opt(src), xt.Str(it.Dst)))
		}
		op = xt.N(xt.LI(1), xt.Bool(c.GForce), xt.Bool(c.DenyFF), xt.Bool(c.DenyDl), items)
	case 2:
		op = xt.N(xt.LI(2), xt.LI(c.Mode), xt.Str(c.Branch), xt.Strs(c.Others), xt.LI(c.M))
	default:
		op = xt.N(xt.LI(3), xt.Bool(c.GForce), xt.LI(c.Mode), xt.Str(c.Branch), specs, xt.LI(c.M))
	}
	return xt.N(g, c10RefsT(c.LRefs), c10RefsT(c.RRefs), xt.Ints(c.LHave), op, xt.LI(c.Ts))
}

func c10Str(t *xt.T) string {
	b := make([]byte, len(t.Kids))
	for i, k := range t.Kids {
		b[i] = byte(k.N)
	}
	return string(b)
}

func c10ParseRefs(t *xt.T) (res [][2]interface{}) {
	for _, e := range t.Kids {
		res = append(res, [2]interface{}{c10Str(e.Kids[0]), int(e.Kids[1].N)})
	}
	return
}

func c10Parse(t *xt.T) *c10Case {
	c := &c10Case{Par: map[int][]int{}}
	for _, e := range t.Kids[0].Kids {
		id := int(e.Kids[0].N)
		ps := []int{}
		for _, p := range e.Kids[1].Kids {
			ps = append(ps, int(p.N))
		}
		c.Par[id] = ps
		c.Order = append(c.Order, id)
	}
	c.LRefs = c10ParseRefs(t.Kids[1])
	c.RRefs = c10ParseRefs(t.Kids[2])
	for _, k := range t.Kids[3].Kids {
		c.LHave = append(c.LHave, int(k.N))
	}
	op := t.Kids[4]
	specs := func(s *xt.T) {
		for _, e := range s.Kids {
			c.Specs = append(c.Specs, c10Spec{e.Kids[0].N != 0, e.Kids[1].N != 0, c10Str(e.Kids[2]), c10Str(e.Kids[3])})
		}
	}
	c.Kind = int(op.Kids[0].N)
	switch c.Kind {
	case 0:
		c.GForce = op.Kids[1].N != 0
		specs(op.Kids[2])
	case 1:
		c.GForce = op.Kids[1].N != 0
		c.DenyFF = op.Kids[2].N != 0
		c.DenyDl = op.Kids[3].N != 0
		for _, e := range op.Kids[4].Kids {
			it := c10PItem{Force: e.Kids[0].N != 0, Dst: c10Str(e.Kids[2])}
			if len(e.Kids[1].Kids) == 1 {
				it.Src = c10Str(e.Kids[1].Kids[0])
			}
			c.Items = append(c.Items, it)
		}
	case 2:
		c.Mode = int(op.Kids[1].N)
		c.Branch = c10Str(op.Kids[2])
		for _, o := range op.Kids[3].Kids {
			c.Others = append(c.Others, c10Str(o))
		}
		c.M = int(op.Kids[4].N)
	default:
		c.Kind = 3
		c.GForce = op.Kids[1].N != 0
		c.Mode = int(op.Kids[2].N)
		c.Branch = c10Str(op.Kids[3])
		specs(op.Kids[4])
		c.M = int(op.Kids[5].N)
	}
	if len(t.Kids) > 5 {
		c.Ts = int(t.Kids[5].N)
	}
	return c
}

// ------------------------------------------------------------------ generator

// base history used by the scenario generator:
//
//	0 <- 1 <- 2 <- 6          main line            5 <- 7          unrelated root
//	     1 <- 3 <- 4          side line            8 = merge(2,4)  9 = merge(4,1)
var c10BasePar = map[int][]int{0: {}, 1: {0}, 2: {1}, 3: {1}, 4: {3}, 5: {}, 6: {2}, 7: {5}, 8: {2, 4}, 9: {4, 1}}

// (local value, remote value) pairs by relation of the local value to the remote one
var c10Relations = []struct {
	Name string
	L, R int
}{
	{"equal", 2, 2}, {"ahead", 6, 1}, {"behind", 1, 6}, {"diverged", 2, 4}, {"unrelated", 2, 7},
	{"behind-merge", 3, 9}, {"ahead-merge", 8, 4}, {"diverged-merge", 8, 9},
}

func c10NewCase(ts int) *c10Case {
	c := &c10Case{Par: map[int][]int{}, Ts: ts}
	for id := 0; id < 10; id++ {
		c.Par[id] = c10BasePar[id]
		c.Order = append(c.Order, id)
	}
	return c
}

func (c *c10Case) anc(x int, seen map[int]bool) {
	if seen[x] {
		return
	}
	seen[x] = true
	for _, p := range c.Par[x] {
		c.anc(p, seen)
	}
}

// closeHave sets LHave to the ancestors of the local refs plus the given extra commits.
func (c *c10Case) closeHave(extra ...int) {
	seen := map[int]bool{}
	for _, e := range c.LRefs {
		c.anc(e[1].(int), seen)
	}
	for _, x := range extra {
		c.anc(x, seen)
	}
	c.LHave = nil
	for x := range seen {
		c.LHave = append(c.LHave, x)
	}
	sort.Ints(c.LHave)
}

func (c *c10Case) addMerge(parents ...int) {
	c.M = 1000
	c.Par[1000] = parents
	c.Order = append(c.Order, 1000)
}

var c10DstKinds = []struct{ Name, Src, Dst string }{
	{"remote", "heads/b", "remotes/origin/b"},
	{"head", "heads/b", "heads/b"},
	{"tag", "tags/t", "tags/t"},
	{"custom", "custom/c", "custom/c"},
}

// ref kinds for the cross-kind tables (source kind x destination kind, every pair)
var c10XKinds = []struct{ Name, Prefix string }{
	{"heads", "heads/x"}, {"tags", "tags/x"}, {"remotes", "remotes/up/x"}, {"other", "other/x"},
}

func genC10(ctx *Ctx) []Case {
	var cases []Case
	sampleN := map[string]int{}
	// quick tier keeps every k-th case of the big tables (k per tag); thorough keeps all
	sampleK := map[string]int{"fetch-table": 2, "push-table": 4, "pull-table": 6, "fetch-xkind": 8, "push-xkind": 8,
		"shared-new-fetch": 12, "shared-new-push": 16, "shared-new-pull": 6, "shared-old-fetch": 12, "shared-old-push": 12}
	add := func(tag string, c *c10Case) {
		if k, ok := sampleK[tag]; ok && !ctx.Thorough() {
			sampleN[tag]++
			// multiplicative hash: the kept cases are spread over every dimension of the table
			if (uint32(sampleN[tag])*2654435761>>12)%uint32(k) != 0 {
				return
			}
		}
		cases = append(cases, Case{Tag: tag, Nontrivial: true, C: c.Tree()})
		ctx.Count("op_" + []string{"fetch", "push", "merge", "pull"}[c.Kind])
		ctx.Count("tag_" + tag)
	}
	b2i := func(b bool) int {
		if b {
			return 1
		}
		return 0
	}
	_ = b2i
	bools := []bool{false, true}
	nts := 1
	if ctx.Thorough() {
		nts = 3
	}
	// ---- exhaustive scenario table: relation x ref kind x present x per-refspec force x global force
	for ts := 0; ts < nts; ts++ {
		for _, rel := range c10Relations {
			for _, k := range c10DstKinds {
				for _, present := range bools {
					for _, rf := range bools {
						for _, gf := range bools {
							// fetch: the local destination holds rel.L, the remote source rel.R
							c := c10NewCase(ts)
							c.Kind = 0
							c.GForce = gf
							c.RRefs = [][2]interface{}{{k.Src, rel.R}, {"heads/other", 6}}
							if present {
								c.LRefs = [][2]interface{}{{k.Dst, rel.L}}
							}
							c.LRefs = append(c.LRefs, [2]interface{}{"heads/keep", 1})
							c.Specs = []c10Spec{{rf, false, k.Src, k.Dst}}
							c.closeHave()
							add("fetch-table", c)
							ctx.Count("rel_" + rel.Name)
							ctx.Count("kind_" + k.Name)
							// push: the local source holds rel.L, the remote destination rel.R
							for _, deny := range bools {
								if deny && ts > 0 {
									continue
								}
								c := c10NewCase(ts)
								c.Kind = 1
								c.GForce = gf
								c.DenyFF = deny
								c.LRefs = [][2]interface{}{{k.Src, rel.L}, {"heads/keep", 1}}
								if present {
									c.RRefs = [][2]interface{}{{k.Src, rel.R}}
								}
								c.RRefs = append(c.RRefs, [2]interface{}{"heads/other", 1})
								c.Items = []c10PItem{{rf, k.Src, k.Src}}
								c.closeHave()
								add("push-table", c)
							}
						}
					}
				}
			}
			// merge: branch holds rel.L, other holds rel.R
			for mode := 0; mode < 3; mode++ {
				for _, other := range []string{"remotes/origin/b", "heads/o", "tags/t"} {
					c := c10NewCase(ts)
					c.Kind = 2
					c.Mode = mode
					c.Branch = "b"
					c.Others = []string{other}
					c.LRefs = [][2]interface{}{{"heads/b", rel.L}, {other, rel.R}, {"heads/keep", 1}}
					c.addMerge(rel.L, rel.R)
					c.closeHave()
					add("merge-table", c)
				}
			}
			// pull: branch b (present or not) holds rel.L, remote heads/b holds rel.R
			for mode := 0; mode < 3; mode++ {
				for _, present := range bools {
					for _, rf := range bools {
						for _, gf := range bools {
							for _, tracked := range []int{-1, rel.L, rel.R} { // value of remotes/origin/b before
								c := c10NewCase(ts)
								c.Kind = 3
								c.Mode = mode
								c.GForce = gf
								c.Branch = "b"
								c.RRefs = [][2]interface{}{{"heads/b", rel.R}}
								if present {
									c.LRefs = append(c.LRefs, [2]interface{}{"heads/b", rel.L})
								}
								if tracked >= 0 {
									c.LRefs = append(c.LRefs, [2]interface{}{"remotes/origin/b", tracked})
								}
								c.LRefs = append(c.LRefs, [2]interface{}{"heads/keep", 1})
								c.Specs = []c10Spec{{rf, false, "heads/b", "remotes/origin/b"}}
								c.addMerge(rel.L, rel.R)
								c.closeHave()
								add("pull-table", c)
							}
						}
					}
				}
			}
		}
	}
	// ---- cross-kind table: the source ref of one kind mapped onto a destination of every kind, for fetch and
	// push alike.  The rules key on the DESTINATION name (an existing refs/tags/x is protected whatever the
	// source is; a refs/heads/x source mapped onto a non-tag destination is not a tag); a rule keyed on the source
	// side agrees with that on same-kind refspecs only.
	for ts := 0; ts < nts; ts++ {
		if ts > 0 {
			break // one timestamp regime is enough here: the decision does not read times
		}
		for _, rel := range c10Relations {
			for _, sk := range c10XKinds {
				for _, dk := range c10XKinds {
					for _, present := range bools {
						for _, rf := range bools {
							for _, gf := range bools {
								src, dst := sk.Prefix+"s", dk.Prefix+"d"
								// fetch: remote src = rel.R, local dst = rel.L
								c := c10NewCase(ts)
								c.Kind = 0
								c.GForce = gf
								c.RRefs = [][2]interface{}{{src, rel.R}, {"heads/other", 6}}
								if present {
									c.LRefs = [][2]interface{}{{dst, rel.L}}
								}
								c.LRefs = append(c.LRefs, [2]interface{}{"heads/keep", 1})
								c.Specs = []c10Spec{{rf, false, src, dst}}
								c.closeHave()
								add("fetch-xkind", c)
								ctx.Count("xkind_" + sk.Name + "_to_" + dk.Name)
								// push: local src = rel.L, remote dst = rel.R
								c = c10NewCase(ts)
								c.Kind = 1
								c.GForce = gf
								c.DenyFF = rf && gf && present // a few cases with the server-side rule as well
								c.LRefs = [][2]interface{}{{src, rel.L}, {"heads/keep", 1}}
								if present {
									c.RRefs = [][2]interface{}{{dst, rel.R}}
								}
								c.RRefs = append(c.RRefs, [2]interface{}{"heads/other", 1})
								c.Items = []c10PItem{{rf, src, dst}}
								c.closeHave()
								add("push-xkind", c)
							}
						}
					}
				}
			}
		}
	}
	// ---- several refs of ONE invocation share a commit: every destination receives the same new commit S but
	// holds a different old value (and the converse: one old value, different new commits).  Each ref must be
	// judged on its own old/new pair (C10_frame), in whatever order the command processes them: the relations are
	// assigned to the names a < b < c < ... in every rotation and its reverse, and in every ordered pair.
	{
		type relv struct {
			name string
			val  int // -1 = the ref does not exist
		}
		// same-new: S and the old values; same-old: O and the new values
		sameNew := []struct {
			S    int
			olds []relv
		}{
			{6, []relv{{"ancestor", 1}, {"diverged", 4}, {"unrelated", 7}, {"equal", 6}, {"absent", -1}}},
			{2, []relv{{"ancestor", 1}, {"diverged", 4}, {"ahead", 6}, {"equal", 2}, {"absent", -1}}},
		}
		sameOld := []struct {
			O    int
			news []relv
		}{
			{2, []relv{{"descendant", 6}, {"diverged", 4}, {"unrelated", 7}, {"equal", 2}, {"behind", 1}}},
		}
		names := []string{"a", "b", "c", "d", "e"}
		// orders: all rotations and reversed rotations of 5 relations, then every ordered pair, then triples
		var orders [][]int
		for r := 0; r < 5; r++ {
			fw, bw := []int{}, []int{}
			for i := 0; i < 5; i++ {
				fw = append(fw, (r+i)%5)
				bw = append(bw, (r+5-i)%5)
			}
			orders = append(orders, fw[:4], bw[:4])
		}
		for i := 0; i < 5; i++ {
			for j := 0; j < 5; j++ {
				if i != j {
					orders = append(orders, []int{i, j})
					orders = append(orders, []int{i, j, (i + j + 1) % 5})
				}
			}
		}
		build := func(kind int, newOf, oldOf []int, rfs []bool, gf bool, exact bool) *c10Case {
			c := c10NewCase(0)
			c.Kind = kind
			c.GForce = gf
			for i := range newOf {
				nm := names[i]
				switch kind {
				case 0, 3:
					c.RRefs = append(c.RRefs, [2]interface{}{"heads/" + nm, newOf[i]})
					if oldOf[i] >= 0 {
						c.LRefs = append(c.LRefs, [2]interface{}{"remotes/origin/" + nm, oldOf[i]})
					}
					if exact || kind == 3 {
						c.Specs = append(c.Specs, c10Spec{rfs[i], false, "heads/" + nm, "remotes/origin/" + nm})
					}
				case 1:
					c.LRefs = append(c.LRefs, [2]interface{}{"heads/" + nm, newOf[i]})
					if oldOf[i] >= 0 {
						c.RRefs = append(c.RRefs, [2]interface{}{"heads/" + nm, oldOf[i]})
					}
					c.Items = append(c.Items, c10PItem{rfs[i], "heads/" + nm, "heads/" + nm})
				}
			}
			if kind == 0 && !exact {
				c.Specs = []c10Spec{{rfs[0], true, "heads/", "remotes/origin/"}}
			}
			c.LRefs = append(c.LRefs, [2]interface{}{"heads/keep", 1})
			return c
		}
		// always-run witnesses: "fetch first, then the first pull of that branch" - the remote-tracking ref is
		// already there (up to date / behind the remote), heads/b is not; the branch name then resolves to the
		// remote-tracking ref, and the pull must still create heads/b
		for _, tracked := range []int{2, 1} {
			for mode := 0; mode < 3; mode++ {
				c := c10NewCase(0)
				c.Kind = 3
				c.Mode = mode
				c.Branch = "b"
				c.RRefs = [][2]interface{}{{"heads/b", 2}}
				c.LRefs = [][2]interface{}{{"remotes/origin/b", tracked}, {"heads/keep", 1}}
				c.Specs = []c10Spec{{false, false, "heads/b", "remotes/origin/b"}}
				c.addMerge(2, 2)
				c.closeHave()
				add("pull-after-fetch", c)
			}
		}
		// always-run witnesses: the fast-forwardable ref sorts first, the diverged one second (and the reverse)
		for _, ord := range [][]int{{0, 1}, {1, 0}, {0, 2, 1}} {
			sn := sameNew[0]
			newOf, oldOf := []int{}, []int{}
			for _, r := range ord {
				newOf = append(newOf, sn.S)
				oldOf = append(oldOf, sn.olds[r].val)
			}
			rfs := make([]bool, len(ord))
			for _, kind := range []int{0, 1} {
				for _, exact := range bools {
					if kind == 1 && !exact {
						continue
					}
					c := build(kind, newOf, oldOf, rfs, false, exact)
					c.closeHave()
					add("shared-new-witness", c)
				}
			}
			if len(ord) == 2 {
				c := build(3, newOf, oldOf, rfs, false, true)
				c.Branch = "b"
				c.LRefs = append(c.LRefs, [2]interface{}{"heads/b", 1})
				c.addMerge(6, 6)
				c.closeHave()
				add("shared-new-witness", c)
			}
		}
		for oi, ord := range orders {
			for _, gf := range bools {
				for variant := 0; variant < 3; variant++ {
					// variant 0: no per-ref force; 1: '+' on the first ref only (must not leak to the others);
					// 2: '+' on the last ref only
					rfs := make([]bool, len(ord))
					if variant == 1 {
						rfs[0] = true
					} else if variant == 2 {
						rfs[len(ord)-1] = true
					}
					for _, sn := range sameNew {
						newOf, oldOf := []int{}, []int{}
						for _, r := range ord {
							newOf = append(newOf, sn.S)
							oldOf = append(oldOf, sn.olds[r].val)
						}
						// fetch through one glob refspec (variant 0 / 1 = '+' on the glob) and through exact refspecs
						if variant < 2 {
							c := build(0, newOf, oldOf, rfs, gf, false)
							c.closeHave()
							add("shared-new-fetch", c)
						}
						c := build(0, newOf, oldOf, rfs, gf, true)
						c.closeHave()
						add("shared-new-fetch", c)
						c = build(1, newOf, oldOf, rfs, gf, true)
						c.closeHave()
						add("shared-new-push", c)
						// push in the reverse argument order as well (identifyUpdates follows the arguments)
						c = build(1, newOf, oldOf, rfs, gf, true)
						for i, j := 0, len(c.Items)-1; i < j; i, j = i+1, j-1 {
							c.Items[i], c.Items[j] = c.Items[j], c.Items[i]
						}
						c.closeHave()
						add("shared-new-push", c)
						// pull: two refspecs, the branch an ancestor of S (or S itself every other time)
						if len(ord) == 2 && sn.S == 6 {
							c = build(3, newOf, oldOf, rfs, gf, true)
							c.Branch = "b"
							bv := 1
							if oi%2 == 1 {
								bv = 6
							}
							c.LRefs = append(c.LRefs, [2]interface{}{"heads/b", bv})
							c.addMerge(6, 6)
							c.closeHave()
							add("shared-new-pull", c)
						}
					}
					for _, so := range sameOld {
						newOf, oldOf := []int{}, []int{}
						for _, r := range ord {
							newOf = append(newOf, so.news[r].val)
							oldOf = append(oldOf, so.O)
						}
						c := build(0, newOf, oldOf, rfs, gf, true)
						c.closeHave()
						add("shared-old-fetch", c)
						c = build(1, newOf, oldOf, rfs, gf, true)
						c.closeHave()
						add("shared-old-push", c)
					}
				}
			}
		}
	}
	// ---- fixed witnesses
	{
		// seeded-mutation witness: a branch fetched / pushed onto an EXISTING tag, the incoming commit a
		// descendant of the tag's commit, no force: must be refused ("would clobber existing tag")
		for _, kind := range []int{0, 1} {
			c := c10NewCase(0)
			c.Kind = kind
			if kind == 0 {
				c.RRefs = [][2]interface{}{{"heads/release", 6}}
				c.LRefs = [][2]interface{}{{"tags/release", 1}, {"heads/keep", 1}}
				c.Specs = []c10Spec{{false, false, "heads/release", "tags/release"}}
			} else {
				c.LRefs = [][2]interface{}{{"heads/release", 6}, {"heads/keep", 1}}
				c.RRefs = [][2]interface{}{{"tags/release", 1}}
				c.Items = []c10PItem{{false, "heads/release", "tags/release"}}
			}
			c.closeHave()
			add("branch-onto-tag", c)
		}
		// and the converse: a tag source onto an existing branch is an ordinary fast-forward
		c0 := c10NewCase(0)
		c0.Kind = 0
		c0.RRefs = [][2]interface{}{{"tags/v", 6}}
		c0.LRefs = [][2]interface{}{{"heads/b", 1}, {"heads/keep", 1}}
		c0.Specs = []c10Spec{{false, false, "tags/v", "heads/b"}}
		c0.closeHave()
		add("branch-onto-tag", c0)
	}
	{
		// glob refspec over several refs with mixed outcomes (frame): b1 fast-forwards, b2 is rejected, b3 is new,
		// tag t1 exists (kept), tag t2 uncovered and present -> stored, tag t3 uncovered and absent -> fetched? no: not wanted
		for _, gf := range bools {
			for _, rf := range bools {
				c := c10NewCase(0)
				c.Kind = 0
				c.GForce = gf
				c.RRefs = [][2]interface{}{{"heads/b1", 6}, {"heads/b2", 4}, {"heads/b3", 7}, {"tags/t1", 6}, {"tags/t2", 1}, {"tags/t3", 9}, {"remotes/up/x", 2}}
				c.LRefs = [][2]interface{}{{"remotes/origin/b1", 1}, {"remotes/origin/b2", 2}, {"tags/t1", 1}, {"heads/keep", 1}}
				c.Specs = []c10Spec{{rf, true, "heads/", "remotes/origin/"}}
				c.closeHave()
				add("fetch-glob", c)
				// the same through an explicit tag refspec: existing tag t1 must survive without force
				c2 := c10NewCase(0)
				*c2 = *c
				c2.Specs = []c10Spec{{rf, true, "heads/", "remotes/origin/"}, {false, true, "tags/", "tags/"}}
				add("fetch-glob", c2)
			}
		}
		// DstForRef sliced the ref name with the glob prefix length: a shorter remote ref panicked (fixed 598c9ec);
		// heads/main must simply be skipped
		c := c10NewCase(0)
		c.Kind = 0
		c.RRefs = [][2]interface{}{{"heads/main", 2}, {"heads/feature/x", 6}}
		c.LRefs = [][2]interface{}{{"heads/keep", 1}}
		c.Specs = []c10Spec{{false, true, "heads/feature/", "remotes/origin/feature/"}}
		c.closeHave()
		add("fetch-glob-short-ref", c)
		// push with several items, one rejected, one deleted, one new, server denying non-ff / deletes
		for _, gf := range bools {
			for _, deny := range bools {
				for _, dd := range bools {
					c := c10NewCase(0)
					c.Kind = 1
					c.GForce = gf
					c.DenyFF = deny
					c.DenyDl = dd
					c.LRefs = [][2]interface{}{{"heads/b1", 6}, {"heads/b2", 2}, {"heads/b3", 7}, {"tags/t1", 6}}
					c.RRefs = [][2]interface{}{{"heads/b1", 1}, {"heads/b2", 4}, {"heads/gone", 1}, {"tags/t1", 1}}
					c.Items = []c10PItem{{false, "heads/b1", "heads/b1"}, {false, "heads/b2", "heads/b2"}, {false, "heads/b3", "heads/b3"},
						{false, "", "heads/gone"}, {false, "tags/t1", "tags/t1"}, {false, "", "heads/nonexistent"}}
					c.closeHave()
					add("push-multi", c)
				}
			}
		}
		// pull into a branch that does not exist yet while a glob refspec fetches straight into refs/heads/:
		// the fetch creates heads/b; before fix 43d74b6 pull's "create the branch from the merge head" then
		// overwrote it, now the pull goes on as for an existing branch
		for _, x := range []int{7, 6, 1} { // unrelated, descendant, ancestor of the fetched value 2
			c = c10NewCase(0)
			c.Kind = 3
			c.Branch = "b"
			c.RRefs = [][2]interface{}{{"heads/b", 2}, {"heads/x", x}}
			c.LRefs = [][2]interface{}{{"heads/keep", 1}}
			c.Specs = []c10Spec{{false, true, "heads/", "heads/"}, {false, false, "heads/x", "remotes/origin/x"}}
			c.addMerge(2, x)
			c.closeHave()
			add("pull-newbranch-glob", c)
		}
		// push of a missing source: whole command fails, nothing changes
		c = c10NewCase(0)
		c.Kind = 1
		c.LRefs = [][2]interface{}{{"heads/b1", 6}}
		c.RRefs = [][2]interface{}{{"heads/b1", 1}}
		c.Items = []c10PItem{{false, "heads/b1", "heads/b1"}, {false, "heads/missing", "heads/missing"}}
		c.closeHave()
		add("push-missing-src", c)
	}
	// ---- random multi-ref operations over random histories
	n := 40
	if ctx.Thorough() {
		n = 2500
	}
	for i := 0; i < n; i++ {
		c := &c10Case{Par: map[int][]int{}, Ts: ctx.Pick(3)}
		nc := 3 + ctx.Pick(8)
		for id := 0; id < nc; id++ {
			ps := []int{}
			if id > 0 && ctx.Pick(8) != 0 {
				ps = append(ps, ctx.Pick(id))
				if id > 1 && ctx.Pick(4) == 0 {
					q := ctx.Pick(id)
					if q != ps[0] {
						ps = append(ps, q)
					}
				}
			}
			c.Par[id] = ps
			c.Order = append(c.Order, id)
		}
		names := []string{"heads/a", "heads/b", "heads/c", "tags/t", "tags/u", "custom/x"}
		c.Kind = ctx.Pick(2)
		c.GForce = ctx.Pick(4) == 0
		c.DenyFF = ctx.Pick(4) == 0
		c.DenyDl = ctx.Pick(4) == 0
		for _, nm := range names {
			if ctx.Pick(3) != 0 {
				c.RRefs = append(c.RRefs, [2]interface{}{nm, ctx.Pick(nc)})
			}
		}
		if c.Kind == 0 {
			for _, nm := range names {
				dst := nm
				if strings.HasPrefix(nm, "heads/") {
					dst = "remotes/origin/" + nm[6:]
				}
				if ctx.Pick(2) == 0 {
					c.LRefs = append(c.LRefs, [2]interface{}{dst, ctx.Pick(nc)})
				}
			}
			c.LRefs = append(c.LRefs, [2]interface{}{"heads/keep", 0})
			c.Specs = []c10Spec{{ctx.Pick(3) == 0, true, "heads/", "remotes/origin/"}}
			if ctx.Pick(2) == 0 {
				c.Specs = append(c.Specs, c10Spec{ctx.Pick(3) == 0, true, "tags/", "tags/"})
			}
			if ctx.Pick(2) == 0 {
				c.Specs = append(c.Specs, c10Spec{ctx.Pick(3) == 0, false, "custom/x", "custom/x"})
			}
		} else {
			for _, nm := range names {
				if ctx.Pick(4) != 0 {
					c.LRefs = append(c.LRefs, [2]interface{}{nm, ctx.Pick(nc)})
					if ctx.Pick(4) != 0 {
						c.Items = append(c.Items, c10PItem{ctx.Pick(4) == 0, nm, nm})
					}
				} else if ctx.Pick(3) == 0 {
					c.Items = append(c.Items, c10PItem{false, "", nm})
				}
			}
			c.LRefs = append(c.LRefs, [2]interface{}{"heads/keep", 0})
			if len(c.Items) == 0 {
				c.Items = []c10PItem{{false, "heads/keep", "heads/keep"}}
			}
		}
		c.closeHave()
		add("random", c)
	}
	return cases
}

// ------------------------------------------------------------------ runner

type c10RefObs struct {
	Val  int
	Logs [][3]int // old (-1 absent), new, action
}

func c10Action(a string) int {
	switch a {
	case "commit":
		return 0
	case "fetch":
		return 1
	case "merge":
		return 2
	case "pull":
		return 3
	case "receive-pack":
		return 4
	}
	return 9
}

// c10Observe reads every ref with its log; resolve maps a sum to an abstract id.
func c10Observe(rs ref.Store, resolve func([]byte) int) map[string]*c10RefObs {
	m, err := ref.ListAllRefs(rs)
	if err != nil {
		panic(err)
	}
	res := map[string]*c10RefObs{}
	for name, sum := range m {
		o := &c10RefObs{Val: resolve(sum)}
		for _, l := range c09ReadLogs(rs, name) {
			old := -1
			if len(l[0]) > 0 {
				old = resolve([]byte(l[0]))
			}
			o.Logs = append(o.Logs, [3]int{old, resolve([]byte(l[1])), c10Action(l[2])})
		}
		res[name] = o
	}
	return res
}

func c10ObsTree(m map[string]*c10RefObs) *xt.T {
	names := make([]string, 0, len(m))
	for k := range m {
		names = append(names, k)
	}
	sort.Strings(names)
	t := xt.N()
	for _, n := range names {
		logs := xt.N()
		for _, l := range m[n].Logs {
			var old *xt.T
			if l[0] >= 0 {
				old = xt.LI(l[0])
			}
			logs.Add(xt.N(xt.Opt(old), xt.LI(l[1]), xt.LI(l[2])))
		}
		t.Add(xt.N(xt.Str(n), xt.LI(m[n].Val), logs))
	}
	return t
}

func c10SpecArg(s c10Spec) string {
	f := ""
	if s.Force {
		f = "+"
	}
	if s.Glob {
		return fmt.Sprintf("%srefs/%s*:refs/%s*", f, s.Src, s.Dst)
	}
	return fmt.Sprintf("%srefs/%s:refs/%s", f, s.Src, s.Dst)
}

func c10Setup(ctx *Ctx, c *c10Case) (g *c09Graph, rdb *c09ObjStore, rrs *c09RefStore, wrglDir string, cleanup func()) {
	maxID := 0
	for _, id := range c.Order {
		if id < 1000 && id > maxID {
			maxID = id
		}
	}
	g = &c09Graph{Par: make([][]int, maxID+1), Tab: make([]int, maxID+1), Ts: make([]int, maxID+1)}
	for id := 0; id <= maxID; id++ {
		g.Par[id] = c.Par[id]
		g.Tab[id] = 1 // one table everywhere: a real merge has no conflicts
		switch c.Ts {
		case 0:
			g.Ts[id] = id
		case 1:
			g.Ts[id] = 1000 - id
		}
	}
	g.Seal(c09TableSum)
	rdb = c09NewObjStore()
	var closeRS func()
	rrs, closeRS = c09NewMemRefStore()
	for _, e := range c.RRefs {
		g.Put(rdb, e[1].(int), nil)
		if err := ref.SaveRef(rrs, e[0].(string), g.Sums[e[1].(int)], "gen", "gen@example.com", "commit", "setup", nil); err != nil {
			panic(err)
		}
	}
	root, err := os.MkdirTemp(c10ScratchBase(ctx), "c10")
	if err != nil {
		panic(err)
	}
	wrglDir = filepath.Join(root, ".wrgl")
	rd, err := local.NewRepoDir(wrglDir, "")
	if err != nil {
		panic(err)
	}
	if err := rd.Init(); err != nil {
		panic(err)
	}
	db, err := rd.OpenObjectsStore()
	if err != nil {
		panic(err)
	}
	rs := rd.OpenRefStore()
	for _, x := range c.LHave {
		g.Put(db, x, nil)
	}
	for _, e := range c.LRefs {
		if err := ref.SaveRef(rs, e[0].(string), g.Sums[e[1].(int)], "gen", "gen@example.com", "commit", "setup", nil); err != nil {
			panic(err)
		}
	}
	db.Close()
	rd.Close()
	cleanup = func() {
		closeRS()
		os.RemoveAll(root)
	}
	return
}

// c10ScratchBase: badger pre-allocates and syncs large files on every open; a memory-backed
// directory keeps a case at a few tens of milliseconds.  Every case removes its directory.
func c10ScratchBase(ctx *Ctx) string {
	if st, err := os.Stat("/dev/shm"); err == nil && st.IsDir() {
		if d, err := os.MkdirTemp("/dev/shm", "verif-probe"); err == nil {
			os.Remove(d)
			return "/dev/shm"
		}
	}
	return ctx.Tmp
}

func c10WriteConfig(wrglDir, url string, mode int) {
	cs := conffs.NewStore(wrglDir, conffs.LocalSource, "")
	cfg := &conf.Config{
		User:   &conf.User{Name: "John Doe", Email: "john@domain.com"},
		Remote: map[string]*conf.Remote{"origin": {URL: url}},
	}
	if err := cs.Save(cfg); err != nil {
		panic(err)
	}
}

func c10RunCmd(wrglDir string, args ...string) (out string, outcome int) {
	viper.Set("wrgl_dir", wrglDir)
	cmd := wrgl.RootCmd()
	buf := &bytes.Buffer{}
	cmd.SetOut(buf)
	cmd.SetErr(buf)
	cmd.SetArgs(args)
	defer func() {
		if r := recover(); r != nil {
			out = buf.String() + fmt.Sprintf("\npanic: %v", r)
			outcome = 2
		}
	}()
	if err := cmd.Execute(); err != nil {
		return buf.String() + "\nerror: " + err.Error(), 1
	}
	return buf.String(), 0
}

var c10Once sync.Once

func runC10(ctx *Ctx, t *xt.T) (*xt.T, Verdict) {
	// every case opens a badger store three times; without this most of the time goes into GC
	c10Once.Do(func() { debug.SetGCPercent(800) })
	c := c10Parse(t)
	os.Setenv("XDG_CONFIG_HOME", filepath.Join(ctx.Tmp, "xdg"))
	os.Setenv("HOME", filepath.Join(ctx.Tmp, "home"))
	g, rdb, rrs, wrglDir, cleanup := c10Setup(ctx, c)
	defer cleanup()
	srv := c09NewServer(rdb, rrs)
	srv.DenyNonFF = c.DenyFF
	srv.DenyDeletes = c.DenyDl
	ts := httptest.NewServer(srv)
	defer ts.Close()
	c10WriteConfig(wrglDir, ts.URL, c.Mode)

	openLocal := func() (*local.RepoDir, objects.Store, ref.Store) {
		rd, err := local.NewRepoDir(wrglDir, "")
		if err != nil {
			panic(err)
		}
		db, err := rd.OpenObjectsStore()
		if err != nil {
			panic(err)
		}
		return rd, db, rd.OpenRefStore()
	}
	// resolve: sum -> abstract id; an unknown commit is the merge commit m when its parents fit
	mkResolve := func(dbs ...objects.Store) func([]byte) int {
		var resolve func(sum []byte) int
		resolve = func(sum []byte) int {
			if id := g.IdOf(sum); id >= 0 {
				return id
			}
			for _, db := range dbs {
				com, err := objects.GetCommit(db, sum)
				if err != nil {
					continue
				}
				want, ok := c.Par[c.M]
				if !ok || c.M < 1000 || len(want) != len(com.Parents) {
					return 999999
				}
				for i, p := range com.Parents {
					if g.IdOf(p) != want[i] {
						return 999999
					}
				}
				return c.M
			}
			return 999999
		}
		return resolve
	}
	// the state before the command is the setup itself (each ref created by one SaveRef, action "commit")
	setupObs := func(l [][2]interface{}) map[string]*c10RefObs {
		m := map[string]*c10RefObs{}
		for _, e := range l {
			n, v := e[0].(string), e[1].(int)
			if o, ok := m[n]; ok {
				o.Logs = append([][3]int{{o.Val, v, 0}}, o.Logs...)
				o.Val = v
			} else {
				m[n] = &c10RefObs{Val: v, Logs: [][3]int{{-1, v, 0}}}
			}
		}
		return m
	}
	lBefore := setupObs(c.LRefs)
	rBefore := setupObs(c.RRefs)

	modeFlag := []string{"--ff", "--no-ff", "--ff-only"}[c.Mode%3]
	var args []string
	switch c.Kind {
	case 0:
		args = []string{"fetch", "origin"}
		for _, s := range c.Specs {
			args = append(args, c10SpecArg(s))
		}
		if c.GForce {
			args = append(args, "--force")
		}
	case 1:
		args = []string{"push", "origin"}
		for _, it := range c.Items {
			f := ""
			if it.Force {
				f = "+"
			}
			if it.Src == "" {
				args = append(args, fmt.Sprintf("%s:refs/%s", f, it.Dst))
			} else {
				args = append(args, fmt.Sprintf("%srefs/%s:refs/%s", f, it.Src, it.Dst))
			}
		}
		if c.GForce {
			args = append(args, "--force")
		}
	case 2:
		args = []string{"merge", c.Branch}
		for _, o := range c.Others {
			args = append(args, "refs/"+o)
		}
		args = append(args, modeFlag)
	default:
		args = []string{"pull", c.Branch, "origin"}
		for _, s := range c.Specs {
			args = append(args, c10SpecArg(s))
		}
		args = append(args, modeFlag)
		if c.GForce {
			args = append(args, "--force")
		}
	}
	args = append(args, "--no-progress")
	// merge/pull write CONFLICTS/MERGE files into the working directory in some paths: stay in tmp
	cwd, _ := os.Getwd()
	os.Chdir(filepath.Dir(wrglDir))
	out, outcome := c10RunCmd(wrglDir, args...)
	os.Chdir(cwd)

	rd, db, rs := openLocal()
	defer rd.Close()
	defer db.Close()
	lAfter := c10Observe(rs, mkResolve(db))
	rAfter := c10Observe(rrs, mkResolve(rdb))
	nrej := strings.Count(out, "[rejected]") + strings.Count(out, "[remote rejected]")
	if (c.Kind == 2 || c.Kind == 3) && outcome == 1 && strings.Contains(out, "merge rejected") {
		nrej++
	}
	obs := xt.N(xt.LI(outcome), xt.LI(nrej), c10ObsTree(lAfter), c10ObsTree(rAfter))

	// ------------------------------------------------------------ oracle (independent of the model)
	parentsOf := func(id int) []int {
		if id == c.M && id >= 1000 {
			return c.Par[id]
		}
		if id >= 0 && id < len(g.Par) {
			return g.Par[id]
		}
		return nil
	}
	var isAnc func(a, b int, seen map[int]bool) bool // a ancestor-or-self of b
	isAnc = func(a, b int, seen map[int]bool) bool {
		if a == b {
			return true
		}
		if seen[b] {
			return false
		}
		seen[b] = true
		for _, p := range parentsOf(b) {
			if isAnc(a, p, seen) {
				return true
			}
		}
		return false
	}
	anc := func(a, b int) bool { return isAnc(a, b, map[int]bool{}) }
	if outcome == 2 {
		// no command may panic (DstForRef used to, on a ref shorter than a glob prefix: fixed 598c9ec)
		if !c10SameObs(lBefore, lAfter) || !c10SameObs(rBefore, rAfter) {
			return obs, Fail("panic-changed-refs", "command panicked after changing refs: %s", out)
		}
		return obs, Fail("command-panicked", "%s", out)
	}
	// forced(name): may this ref be moved backwards / may this tag be overwritten by this operation
	forcedL := map[string]bool{}
	forcedR := map[string]bool{}
	if c.Kind == 0 || c.Kind == 3 {
		for _, s := range c.Specs {
			for _, e := range c.RRefs {
				r := e[0].(string)
				if s.Glob && strings.HasPrefix(r, s.Src) {
					forcedL[s.Dst+r[len(s.Src):]] = forcedL[s.Dst+r[len(s.Src):]] || s.Force || c.GForce
				} else if !s.Glob && r == s.Src {
					forcedL[s.Dst] = forcedL[s.Dst] || s.Force || c.GForce
				}
			}
		}
	}
	if c.Kind == 1 {
		for _, it := range c.Items {
			forcedR[it.Dst] = forcedR[it.Dst] || it.Force || c.GForce
		}
	}
	checkSide := func(side string, before, after map[string]*c10RefObs, forced map[string]bool) *Verdict {
		for name, b := range before {
			a, ok := after[name]
			if !ok {
				// deletion: only an explicit push delete may remove a ref
				explicit := false
				for _, it := range c.Items {
					if side == "remote" && it.Src == "" && it.Dst == name {
						explicit = true
					}
				}
				if !explicit {
					v := Fail("ref-vanished", "%s ref %s vanished", side, name)
					return &v
				}
				continue
			}
			if a.Val != b.Val {
				if a.Val == 999999 {
					v := Fail("forward-only", "%s ref %s moved to an unexpected commit: %s", side, name, out)
					return &v
				}
				if strings.HasPrefix(name, "tags/") && !forced[name] {
					v := Fail("tag-clobbered", "%s tag %s overwritten %d -> %d without force", side, name, b.Val, a.Val)
					return &v
				}
				if !forced[name] && !anc(b.Val, a.Val) {
					v := Fail("forward-only", "%s ref %s moved %d -> %d (not a descendant) without force", side, name, b.Val, a.Val)
					return &v
				}
			}
		}
		// log truth: the new entries chain truthfully from the old value to the new one
		for name, a := range after {
			var bl [][3]int
			bv := -1
			if b, ok := before[name]; ok {
				bl = b.Logs
				bv = b.Val
			}
			k := len(a.Logs) - len(bl)
			if k < 0 {
				v := Fail("log-untrue", "%s ref %s lost log entries", side, name)
				return &v
			}
			for i := range bl {
				if a.Logs[k+i] != bl[i] {
					v := Fail("log-untrue", "%s ref %s: old log entries rewritten", side, name)
					return &v
				}
			}
			cur := bv
			for i := k - 1; i >= 0; i-- { // oldest new entry first
				if a.Logs[i][0] != cur {
					v := Fail("log-untrue", "%s ref %s: log entry records old=%d but the ref held %d", side, name, a.Logs[i][0], cur)
					return &v
				}
				// every single recorded update obeys the rule, not only the net effect of the command
				if o, nw := a.Logs[i][0], a.Logs[i][1]; o >= 0 && o != nw && !forced[name] && nw != 999999 &&
					(strings.HasPrefix(name, "tags/") || !anc(o, nw)) {
					cls := "forward-only"
					if _, existed := before[name]; c.Kind == 3 && !existed && name == "heads/"+c.Branch {
						cls = "pull-new-branch-overwrites-fetched-branch"
					}
					v := Fail(cls, "%s ref %s: recorded update %d -> %d is not a fast-forward and was not forced: %s", side, name, o, nw, out)
					return &v
				}
				cur = a.Logs[i][1]
			}
			if cur != a.Val {
				v := Fail("log-untrue", "%s ref %s: value %d but the log ends at %d (update without a true log entry)", side, name, a.Val, cur)
				return &v
			}
		}
		return nil
	}
	if v := checkSide("local", lBefore, lAfter, forcedL); v != nil {
		return obs, *v
	}
	if v := checkSide("remote", rBefore, rAfter, forcedR); v != nil {
		return obs, *v
	}
	// frame + reporting for fetch: every destination gets exactly the value the rule gives it, independently
	if (c.Kind == 0 || c.Kind == 3) && outcome != 2 {
		// (for a pull this judges the fetch half: the destinations below are never the pulled branch)
		expectRej := 0
		for _, s := range c.Specs {
			for _, e := range c.RRefs {
				r, nv := e[0].(string), e[1].(int)
				if strings.HasPrefix(r, "remotes/") {
					continue
				}
				var dst string
				if s.Glob && strings.HasPrefix(r, s.Src) {
					dst = s.Dst + r[len(s.Src):]
				} else if !s.Glob && r == s.Src {
					dst = s.Dst
				} else {
					continue
				}
				if c.Kind == 3 && dst == "heads/"+c.Branch {
					continue // the pulled branch itself: the merge half moves it on
				}
				want := nv
				if b, ok := lBefore[dst]; ok && b.Val != nv {
					legal := false
					if strings.HasPrefix(dst, "tags/") {
						legal = forcedL[dst]
					} else {
						legal = anc(b.Val, nv) || forcedL[dst]
					}
					if !legal {
						want = b.Val
						expectRej++
					}
				}
				if a, ok := lAfter[dst]; !ok || a.Val != want {
					got := -1
					if ok {
						got = a.Val
					}
					return obs, Fail("legal-update-lost", "fetch: %s should hold %d, holds %d: %s", dst, want, got, out)
				}
			}
		}
		if expectRej > 0 && (nrej == 0 || outcome != 1) {
			return obs, Fail("rejection-not-reported", "fetch: %d updates refused but output/outcome do not say so: %s", expectRej, out)
		}
	}
	if c.Kind == 1 && outcome == 0 {
		expectRej := 0
		for _, it := range c.Items {
			b, present := rBefore[it.Dst]
			want, wantPresent := -1, false
			if present {
				want, wantPresent = b.Val, true
			}
			lv := -1
			if it.Src != "" {
				if l, ok := lBefore[it.Src]; ok {
					lv = l.Val
				}
			}
			// GET /refs/ does not list the remote's own remote-tracking refs: the client takes such a destination
			// for a new ref, and the server's compare-and-swap (R1) refuses the update when it does exist
			hidden := present && strings.HasPrefix(it.Dst, "remotes/")
			switch {
			case hidden:
				if it.Src != "" {
					expectRej++
				}
			case it.Src == "":
				if present && !c.DenyDl {
					wantPresent = false
				} else if present {
					expectRej++
				}
			case !present:
				want, wantPresent = lv, true
			case b.Val == lv:
			default:
				legal := false
				if strings.HasPrefix(it.Dst, "tags/") {
					legal = forcedR[it.Dst]
				} else {
					legal = anc(b.Val, lv) || forcedR[it.Dst]
				}
				if legal && c.DenyFF && !anc(b.Val, lv) {
					legal = false
				}
				if legal {
					want = lv
				} else {
					expectRej++
				}
			}
			a, ok := rAfter[it.Dst]
			if ok != wantPresent || (ok && a.Val != want) {
				return obs, Fail("legal-update-lost", "push: %s should be present=%v value %d: %s", it.Dst, wantPresent, want, out)
			}
		}
		if expectRej > 0 && nrej == 0 {
			return obs, Fail("rejection-not-reported", "push: %d updates refused but not reported: %s", expectRej, out)
		}
	}
	// a successful pull into a branch that did not exist creates it: whenever exactly one of the pull's
	// refspec destinations holds a commit afterwards, heads/BRANCH exists and holds that commit - also when the
	// remote-tracking ref was already there (an earlier fetch, or an earlier pull interrupted before its last write)
	if c.Kind == 3 && outcome == 0 {
		bn := "heads/" + c.Branch
		if _, existed := lBefore[bn]; !existed {
			heads := []int{}
			plain := true // every refspec is exact and none fetches into the pulled branch itself
			for _, sp := range c.Specs {
				if sp.Glob || sp.Dst == bn {
					plain = false
				} else if a, ok := lAfter[sp.Dst]; ok {
					heads = append(heads, a.Val)
				}
			}
			if plain && len(heads) == 1 {
				if a, ok := lAfter[bn]; !ok || a.Val != heads[0] {
					got := -1
					if ok {
						got = a.Val
					}
					return obs, Fail("pull-branch-not-created", "pull %s reported success, %s holds c%d, but heads/%s holds %d (-1 = does not exist): %s", c.Branch, c.Specs[0].Dst, heads[0], c.Branch, got, out)
				}
			}
		}
	}
	if c.Kind == 2 && outcome == 0 {
		bn := "heads/" + c.Branch
		b, o := lBefore[bn], lBefore[c.Others[0]]
		if b != nil && o != nil && c.Mode != 1 && b.Val != o.Val && anc(b.Val, o.Val) {
			if a := lAfter[bn]; a == nil || a.Val != o.Val {
				return obs, Fail("ff-not-exact", "fast-forward merge of %d into %d left the branch at %v", o.Val, b.Val, a)
			}
		}
	}
	return obs, OK()
}

func c10SameObs(a, b map[string]*c10RefObs) bool {
	return c10ObsTree(a).String() == c10ObsTree(b).String()
}
