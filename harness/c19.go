package main

import (
	"bytes"
	"context"
	"fmt"
	"os"
	"path/filepath"
	"sort"
	"strings"

	"github.com/wrgl/wrgl/pkg/objects"
	"github.com/wrgl/wrgl/pkg/sorter"

	"verifharness/xt"
)

// C19: external sort (pkg/sorter) vs model (coq/model/Sorter.v) and vs sort+dedupe.
//
//	case = (0 ncols pk rows runSize removed)      sort one table, both outputs
//	     | (1 runSize pk (op ...))                 history; op = (0 row) AddRow | (1) Reset | (2) Close
//	     | (2 runSize (use ...))                   ONE sorter reused; use = (ncols pk rows out removed): Reset,
//	                                               SetColumns, PK = pk, AddRow..., out 0 SortedBlocks / 1 SortedRows
//	  ncols   number of columns given to SetColumns (0 = SetColumns not called)
//	  pk      key column indices, rows = ((cell ...) ...), cell = bytes
//	  removed removed column indices (never a key column)
//	observation (sort) = (status nchunks blocks rowsout leftover)
//	  status 0 ok | 1 AddRow error; blocks = ((offset pk rowcount (crow ...)) ...); rowsout = ((offset (crow ...)) ...)
//	  crow = (0 cell ...) | (1 keycell ...) when some single run holds two different rows with that
//	  key (the survivor then depends on Go's unstable sort.Slice); leftover = chunk files alive after Close
//	observation (reuse) = (((status nchunks out) ...) leftover), out = blocks or rowsout as above
//	observation (history) = ((ok live) ...) after every op.

func init() { props["C19"] = &Prop{Gen: genC19, Run: runC19} }

func c19Rows(rows [][]string) *xt.T {
	t := xt.N()
	for _, r := range rows {
		t.Add(xt.Strs(r))
	}
	return t
}

func c19SortCase(ncols int, pk []int, rows [][]string, runSize uint64, rem []int) *xt.T {
	return xt.N(xt.LI(0), xt.LI(ncols), xt.Ints(pk), c19Rows(rows), xt.L(runSize), xt.Ints(rem))
}

func c19DecodeRows(t *xt.T) [][]string {
	rows := make([][]string, len(t.Kids))
	for i, r := range t.Kids {
		rows[i] = make([]string, len(r.Kids))
		for j, c := range r.Kids {
			rows[i][j] = string(c.AsBytes())
		}
	}
	return rows
}

func c19Ints(t *xt.T) []int {
	r := make([]int, len(t.Kids))
	for i, k := range t.Kids {
		r[i] = int(k.N)
	}
	return r
}

// c19KeyString is an injective rendering of a key vector.
func c19KeyString(k []string) string {
	var sb strings.Builder
	for _, s := range k {
		fmt.Fprintf(&sb, "%d:", len(s))
		sb.WriteString(s)
	}
	return sb.String()
}

func c19KeyOf(idx []int, r []string) []string {
	k := make([]string, len(idx))
	for i, u := range idx {
		k[i] = r[u]
	}
	return k
}

func c19PkIndices(ncols int, pk []int) []int {
	if len(pk) > 0 {
		return pk
	}
	idx := make([]int, ncols)
	for i := range idx {
		idx[i] = i
	}
	return idx
}

func c19Remove(rem map[int]bool, r []string) []string {
	o := make([]string, 0, len(r))
	for i, c := range r {
		if !rem[i] {
			o = append(o, c)
		}
	}
	return o
}

// c19Shift maps key column indices to their positions after the removal.
func c19Shift(rem map[int]bool, idx []int) []int {
	o := make([]int, len(idx))
	for i, u := range idx {
		n := 0
		for j := 0; j < u; j++ {
			if !rem[j] {
				n++
			}
		}
		o[i] = n
	}
	return o
}

func c19KeyLess(a, b []string) bool {
	for i := range a {
		if i >= len(b) {
			return false
		}
		if a[i] != b[i] {
			return a[i] < b[i]
		}
	}
	return len(a) < len(b)
}

// c19RunsOf splits the rows the way AddRow's size accounting does (harness-side
// re-computation, used only to decide which keys are ambiguous within one run).
func c19RunsOf(rows [][]string, runSize uint64) [][][]string {
	var runs [][][]string
	var cur [][]string
	var size uint64
	for _, r := range rows {
		size += 4
		for _, c := range r {
			size += uint64(len(c)) + 2
		}
		cur = append(cur, r)
		if size >= runSize {
			runs = append(runs, cur)
			cur = nil
			size = 0
		}
	}
	runs = append(runs, cur)
	return runs
}

func c19Ambiguous(runs [][][]string, idx []int) map[string]bool {
	amb := map[string]bool{}
	for _, run := range runs {
		first := map[string]string{}
		for _, r := range run {
			k := c19KeyString(c19KeyOf(idx, r))
			rs := c19KeyString(r)
			if f, ok := first[k]; ok {
				if f != rs {
					amb[k] = true
				}
			} else {
				first[k] = rs
			}
		}
	}
	return amb
}

func c19Crow(amb map[string]bool, idx2 []int, o []string) *xt.T {
	k := c19KeyOf(idx2, o)
	if amb[c19KeyString(k)] {
		t := xt.N(xt.LI(1))
		for _, c := range k {
			t.Add(xt.Str(c))
		}
		return t
	}
	t := xt.N(xt.LI(0))
	for _, c := range o {
		t.Add(xt.Str(c))
	}
	return t
}

func c19ListTmp(dir string) int {
	ents, err := os.ReadDir(dir)
	if err != nil {
		panic(err)
	}
	return len(ents)
}

// c19WithTmp points TMPDIR (used by testutils.TempFile for chunk files) at a fresh directory.
func c19WithTmp(ctx *Ctx, f func(dir string)) {
	dir := filepath.Join(ctx.Tmp, "c19chunks")
	os.RemoveAll(dir)
	if err := os.MkdirAll(dir, 0700); err != nil {
		panic(err)
	}
	oldT, hadT := os.LookupEnv("TMPDIR")
	oldR, hadR := os.LookupEnv("RUNNER_TEMP")
	os.Setenv("TMPDIR", dir)
	os.Unsetenv("RUNNER_TEMP")
	defer func() {
		if hadT {
			os.Setenv("TMPDIR", oldT)
		} else {
			os.Unsetenv("TMPDIR")
		}
		if hadR {
			os.Setenv("RUNNER_TEMP", oldR)
		}
		os.RemoveAll(dir)
	}()
	f(dir)
}

func c19NewSorter(ncols int, pk []int, runSize uint64) *sorter.Sorter {
	s, err := sorter.NewSorter(sorter.WithRunSize(runSize))
	if err != nil {
		panic(err)
	}
	if ncols > 0 {
		cols := make([]string, ncols)
		for i := range cols {
			cols[i] = fmt.Sprintf("c%d", i)
		}
		s.SetColumns(cols)
	}
	s.PK = make([]uint32, len(pk))
	for i, u := range pk {
		s.PK[i] = uint32(u)
	}
	return s
}

func c19RemMap(rem []int, nilWhenEmpty bool) map[int]struct{} {
	if len(rem) == 0 && nilWhenEmpty {
		return nil
	}
	m := map[int]struct{}{}
	for _, c := range rem {
		m[c] = struct{}{}
	}
	return m
}

type c19Block struct {
	Offset    int
	PK        []string
	RowsCount int
	Rows      [][]string
}

// c19JudgeUse judges one output (flattened rows, plus the blocks when it is the block output)
// of a sorter against sort + dedupe of the rows of that use.
func c19JudgeUse(name string, ncols int, pk []int, rem map[int]bool, rows, out [][]string, blocks []c19Block,
	bad func(class, format string, a ...interface{})) {
	idx := c19PkIndices(ncols, pk)
	idx2 := c19Shift(rem, idx)
	byKey := map[string]map[string]bool{}
	var keys [][]string
	for _, r := range rows {
		k := c19KeyOf(idx, r)
		ks := c19KeyString(k)
		if byKey[ks] == nil {
			byKey[ks] = map[string]bool{}
			keys = append(keys, k)
		}
		byKey[ks][c19KeyString(c19Remove(rem, r))] = true
	}
	sort.Slice(keys, func(i, j int) bool { return c19KeyLess(keys[i], keys[j]) })
	width := ncols - len(rem)
	for i, o := range out {
		if len(o) != width {
			bad("row-shape", "%s: row %d has %d cells, expected %d", name, i, len(o), width)
			return
		}
		k := c19KeyOf(idx2, o)
		if i >= len(keys) || c19KeyString(k) != c19KeyString(keys[i]) {
			switch {
			case i > 0 && c19KeyString(k) == c19KeyString(c19KeyOf(idx2, out[i-1])):
				bad("duplicate-key", "%s: key %q emitted twice (rows %d,%d)", name, k, i-1, i)
			case byKey[c19KeyString(k)] == nil:
				bad("phantom-row", "%s: row %d %q has a key that is no input key", name, i, o)
			default:
				bad("missing-key", "%s: row %d has key %q, expected %q (%d rows for %d distinct keys)", name, i, k, keys[c19Min(i, len(keys)-1)], len(out), len(keys))
			}
			return
		}
		if !byKey[c19KeyString(k)][c19KeyString(o)] {
			bad("phantom-row", "%s: row %d %q is not an input row with its key (removed columns dropped)", name, i, o)
			return
		}
	}
	if len(out) != len(keys) {
		bad("missing-key", "%s: %d rows for %d distinct keys (first missing key %q)", name, len(out), len(keys), keys[len(out)])
	}
	for i, b := range blocks {
		if b.Offset != i || b.RowsCount != len(b.Rows) || len(b.Rows) == 0 || len(b.Rows) > 255 || (i < len(blocks)-1 && len(b.Rows) != 255) {
			bad("block-shape", "%s: block %d of %d: offset %d, RowsCount %d, %d rows", name, i, len(blocks), b.Offset, b.RowsCount, len(b.Rows))
		}
		if len(b.Rows) > 0 && len(b.Rows[0]) == width && c19KeyString(b.PK) != c19KeyString(c19KeyOf(idx2, b.Rows[0])) {
			bad("block-pk", "%s: block %d PK %q but first row key %q", name, i, b.PK, c19KeyOf(idx2, b.Rows[0]))
		}
	}
}

// runC19Reuse: kind 2 = (2 runSize (use ...)), use = (ncols pk rows out removed).  ONE sorter
// serves every use: Reset, SetColumns (ncols columns), PK = pk, AddRow for every row, then one
// output (out 0 = SortedBlocks, 1 = SortedRows); Close at the end.
// observation = (((status nchunks out) ...) leftover), status 1 = an AddRow failed (no output).
func runC19Reuse(ctx *Ctx, c *xt.T) (*xt.T, Verdict) {
	runSize := c.Kids[1].N
	v := OK()
	bad := func(class, format string, a ...interface{}) {
		if v.OK {
			v = Fail(class, format, a...)
		}
	}
	obs := xt.N()
	leftover := 0
	c19WithTmp(ctx, func(dir string) {
		s, err := sorter.NewSorter(sorter.WithRunSize(runSize))
		if err != nil {
			panic(err)
		}
		for ui, u := range c.Kids[2].Kids {
			ncols := int(u.Kids[0].N)
			pk := c19Ints(u.Kids[1])
			rows := c19DecodeRows(u.Kids[2])
			wantBlocks := u.Kids[3].N == 0
			remL := c19Ints(u.Kids[4])
			rem := map[int]bool{}
			for _, x := range remL {
				rem[x] = true
			}
			name := fmt.Sprintf("use %d", ui)
			s.Reset()
			if n := c19ListTmp(dir); n != 0 {
				bad("leftover-chunk", "%s: %d chunk files alive after Reset", name, n)
			}
			cols := make([]string, ncols)
			for i := range cols {
				cols[i] = fmt.Sprintf("c%d", i)
			}
			s.SetColumns(cols)
			s.PK = make([]uint32, len(pk))
			for i, x := range pk {
				s.PK[i] = uint32(x)
			}
			failed, over := false, false
			for _, r := range rows {
				for _, cell := range r {
					if len(cell) > 65535 {
						over = true
					}
				}
			}
			for _, r := range rows {
				if s.AddRow(r) != nil {
					failed = true
					break
				}
			}
			if failed {
				if !over {
					bad("addrow-error", "%s: AddRow failed although every cell is within the limit", name)
				}
				obs.Add(xt.N(xt.LI(1), xt.LI(0), xt.N()))
				continue
			}
			if over {
				bad("overlimit-accepted", "%s: a cell over 65535 bytes was accepted", name)
			}
			nchunks := s.VerifChunkCount()
			idx := c19PkIndices(ncols, pk)
			idx2 := c19Shift(rem, idx)
			amb := c19Ambiguous(c19RunsOf(rows, runSize), idx)
			out := xt.N()
			errCh := make(chan error, 1)
			var flat [][]string
			var blocks []c19Block
			if wantBlocks {
				for b := range s.SortedBlocks(context.Background(), c19RemMap(remL, ui%2 == 0), errCh) {
					_, blk, err := objects.ReadBlockFrom(bytes.NewReader(b.Block))
					if err != nil {
						bad("block-undecodable", "%s: ReadBlockFrom: %v", name, err)
					}
					blocks = append(blocks, c19Block{b.Offset, b.PK, b.RowsCount, blk})
					flat = append(flat, blk...)
					rs := xt.N()
					for _, o := range blk {
						rs.Add(c19CrowSafe(amb, idx2, o))
					}
					out.Add(xt.N(xt.LI(b.Offset), xt.Strs(b.PK), xt.LI(b.RowsCount), rs))
				}
			} else {
				for r := range s.SortedRows(context.Background(), c19RemMap(remL, ui%2 == 0), errCh) {
					flat = append(flat, r.Rows...)
					rs := xt.N()
					for _, o := range r.Rows {
						rs.Add(c19CrowSafe(amb, idx2, o))
					}
					out.Add(xt.N(xt.LI(r.Offset), rs))
				}
			}
			select {
			case err := <-errCh:
				bad("sorter-error", "%s: %v", name, err)
			default:
			}
			c19JudgeUse(name, ncols, pk, rem, rows, flat, blocks, bad)
			obs.Add(xt.N(xt.LI(0), xt.LI(nchunks), out))
		}
		if err := s.Close(); err != nil {
			bad("close-error", "Close: %v", err)
		}
		leftover = c19ListTmp(dir)
		if leftover != 0 {
			bad("leftover-chunk", "%d chunk files alive after Close", leftover)
		}
	})
	return xt.N(obs, xt.LI(leftover)), v
}

// c19CrowSafe is c19Crow for rows that may be too short for the key positions.
func c19CrowSafe(amb map[string]bool, idx2 []int, o []string) *xt.T {
	for _, u := range idx2 {
		if u >= len(o) {
			t := xt.N(xt.LI(0))
			for _, c := range o {
				t.Add(xt.Str(c))
			}
			return t
		}
	}
	return c19Crow(amb, idx2, o)
}

func runC19(ctx *Ctx, c *xt.T) (*xt.T, Verdict) {
	if c.Kids[0].N == 1 {
		return runC19Hist(ctx, c)
	}
	if c.Kids[0].N == 2 {
		return runC19Reuse(ctx, c)
	}
	ncols := int(c.Kids[1].N)
	pk := c19Ints(c.Kids[2])
	rows := c19DecodeRows(c.Kids[3])
	runSize := c.Kids[4].N
	remL := c19Ints(c.Kids[5])
	rem := map[int]bool{}
	for _, x := range remL {
		rem[x] = true
	}
	v := OK()
	bad := func(class, format string, a ...interface{}) {
		if v.OK {
			v = Fail(class, format, a...)
		}
	}
	var obs *xt.T
	c19WithTmp(ctx, func(dir string) {
		sA := c19NewSorter(ncols, pk, runSize)
		sB := c19NewSorter(ncols, pk, runSize)
		overlimit := false
		for _, r := range rows {
			for _, cell := range r {
				if len(cell) > 65535 {
					overlimit = true
				}
			}
		}
		failed := false
		for _, r := range rows {
			eA := sA.AddRow(r)
			eB := sB.AddRow(r)
			if (eA != nil) != (eB != nil) {
				bad("addrow-nondeterministic", "AddRow error differs between two sorters")
			}
			if eA != nil {
				failed = true
				break
			}
		}
		if failed {
			if !overlimit {
				bad("addrow-error", "AddRow failed although every cell is within the limit")
			}
			sA.Close()
			sB.Close()
			if n := c19ListTmp(dir); n != 0 {
				bad("leftover-chunk", "%d chunk files alive after Close", n)
			}
			obs = xt.N(xt.LI(1), xt.LI(0), xt.N(), xt.N(), xt.LI(0))
			return
		}
		if overlimit {
			bad("overlimit-accepted", "a cell over 65535 bytes was accepted by AddRow")
		}
		nchunks := sA.VerifChunkCount()

		// block output
		errCh := make(chan error, 1)
		var blocks []c19Block
		for b := range sA.SortedBlocks(context.Background(), c19RemMap(remL, true), errCh) {
			_, blk, err := objects.ReadBlockFrom(bytes.NewReader(b.Block))
			if err != nil {
				bad("block-undecodable", "ReadBlockFrom: %v", err)
			}
			blocks = append(blocks, c19Block{b.Offset, b.PK, b.RowsCount, blk})
		}
		select {
		case err := <-errCh:
			bad("sorter-error", "SortedBlocks: %v", err)
		default:
		}
		// row output
		errCh2 := make(chan error, 1)
		var rowsOut []*sorter.Rows
		for r := range sB.SortedRows(context.Background(), c19RemMap(remL, false), errCh2) {
			rowsOut = append(rowsOut, r)
		}
		select {
		case err := <-errCh2:
			bad("sorter-error", "SortedRows: %v", err)
		default:
		}
		if err := sA.Close(); err != nil {
			bad("close-error", "Close: %v", err)
		}
		if err := sB.Close(); err != nil {
			bad("close-error", "Close: %v", err)
		}
		leftover := c19ListTmp(dir)

		// ---------- specification oracle: sort + dedupe ----------
		idx := c19PkIndices(ncols, pk)
		idx2 := c19Shift(rem, idx)
		byKey := map[string]map[string]bool{} // key -> admissible output rows
		var keys [][]string
		for _, r := range rows {
			k := c19KeyOf(idx, r)
			ks := c19KeyString(k)
			if byKey[ks] == nil {
				byKey[ks] = map[string]bool{}
				keys = append(keys, k)
			}
			byKey[ks][c19KeyString(c19Remove(rem, r))] = true
		}
		sort.Slice(keys, func(i, j int) bool { return c19KeyLess(keys[i], keys[j]) })
		check := func(name string, out [][]string) {
			for i, o := range out {
				if len(o) < len(idx2) && len(idx2) > 0 && idx2[len(idx2)-1] >= len(o) {
					bad("row-shape", "%s row %d has %d cells", name, i, len(o))
					return
				}
				k := c19KeyOf(idx2, o)
				if i > 0 {
					pkey := c19KeyOf(idx2, out[i-1])
					if c19KeyString(pkey) == c19KeyString(k) {
						bad("duplicate-key", "%s: key %q emitted twice (rows %d,%d)", name, k, i-1, i)
					} else if !c19KeyLess(pkey, k) {
						bad("unsorted", "%s: key %q after %q (row %d)", name, k, pkey, i)
					}
				}
				adm := byKey[c19KeyString(k)]
				if adm == nil || !adm[c19KeyString(o)] {
					bad("phantom-row", "%s: row %d %q is not an input row with its key (removed columns dropped)", name, i, o)
				}
			}
			if len(out) != len(keys) {
				for i, k := range keys {
					if i >= len(out) || c19KeyString(c19KeyOf(idx2, out[i])) != c19KeyString(k) {
						bad("missing-key", "%s: %d rows for %d distinct keys; first difference at %d (key %q)", name, len(out), len(keys), i, k)
						break
					}
				}
				bad("missing-key", "%s: %d rows for %d distinct keys", name, len(out), len(keys))
			}
		}
		var flatB, flatR [][]string
		for i, b := range blocks {
			flatB = append(flatB, b.Rows...)
			if b.Offset != i {
				bad("block-shape", "block %d has offset %d", i, b.Offset)
			}
			if b.RowsCount != len(b.Rows) {
				bad("block-shape", "block %d RowsCount %d but %d rows", i, b.RowsCount, len(b.Rows))
			}
			if len(b.Rows) == 0 || len(b.Rows) > 255 || (i < len(blocks)-1 && len(b.Rows) != 255) {
				bad("block-shape", "block %d of %d has %d rows", i, len(blocks), len(b.Rows))
			}
			if len(b.Rows) > 0 && c19KeyString(b.PK) != c19KeyString(c19KeyOf(idx2, b.Rows[0])) {
				bad("block-pk", "block %d PK %q but first row key %q", i, b.PK, c19KeyOf(idx2, b.Rows[0]))
			}
		}
		for i, r := range rowsOut {
			flatR = append(flatR, r.Rows...)
			if r.Offset != i || len(r.Rows) == 0 || len(r.Rows) > 255 || (i < len(rowsOut)-1 && len(r.Rows) != 255) {
				bad("block-shape", "rows chunk %d of %d: offset %d, %d rows", i, len(rowsOut), r.Offset, len(r.Rows))
			}
		}
		check("blocks", flatB)
		check("rows", flatR)
		if len(flatB) != len(flatR) {
			bad("outputs-differ", "block output has %d rows, row output %d", len(flatB), len(flatR))
		} else {
			for i := range flatB {
				if c19KeyString(flatB[i]) != c19KeyString(flatR[i]) {
					bad("outputs-differ", "row %d: blocks %q rows %q", i, flatB[i], flatR[i])
					break
				}
			}
		}
		if leftover != 0 {
			bad("leftover-chunk", "%d chunk files alive after Close", leftover)
		}

		// ---------- observation ----------
		amb := c19Ambiguous(c19RunsOf(rows, runSize), idx)
		tb := xt.N()
		for _, b := range blocks {
			rs := xt.N()
			for _, o := range b.Rows {
				rs.Add(c19Crow(amb, idx2, o))
			}
			tb.Add(xt.N(xt.LI(b.Offset), xt.Strs(b.PK), xt.LI(b.RowsCount), rs))
		}
		tr := xt.N()
		for _, r := range rowsOut {
			rs := xt.N()
			for _, o := range r.Rows {
				rs.Add(c19Crow(amb, idx2, o))
			}
			tr.Add(xt.N(xt.LI(r.Offset), rs))
		}
		obs = xt.N(xt.LI(0), xt.LI(nchunks), tb, tr, xt.LI(leftover))
	})
	return obs, v
}

func runC19Hist(ctx *Ctx, c *xt.T) (*xt.T, Verdict) {
	runSize := c.Kids[1].N
	pk := c19Ints(c.Kids[2])
	v := OK()
	obs := xt.N()
	c19WithTmp(ctx, func(dir string) {
		s := c19NewSorter(0, pk, runSize)
		closed := false
		inScope := true // false once the sorter is fed between a Close and the next Reset
		for i, op := range c.Kids[3].Kids {
			ok := true
			judged := false
			switch op.Kids[0].N {
			case 0:
				r := c19DecodeRows(xt.N(op.Kids[1]))[0]
				ok = s.AddRow(r) == nil
				if closed {
					inScope = false
				}
			case 1:
				s.Reset()
				closed = false
				inScope = true
				judged = true
			default:
				err := s.Close()
				ok = err == nil
				if inScope && !closed && !ok && v.OK {
					v = Fail("close-error", "op %d: Close: %v", i, err)
				}
				closed = true
				judged = inScope
			}
			live := c19ListTmp(dir)
			if judged && live != 0 && v.OK {
				v = Fail("leftover-chunk", "op %d: %d chunk files alive after Close/Reset", i, live)
			}
			obs.Add(xt.N(xt.Bool(ok), xt.LI(live)))
		}
		s.Reset()
	})
	return obs, v
}

// ------------------------------------------------------------------ generation

var c19KeyCells = []string{"", "0", "1", "00", "a", "\x00", "\xff", "0\x00", "b"}
var c19AnyCells = []string{"", "x", "\"", ",", "\r\n", "\n", "\x00", "\xff\xfe", "a b", "é", "0", "zz"}

func c19Pad(n int) string { return strings.Repeat("p", n) }

func genC19(ctx *Ctx) []Case {
	var cases []Case
	add := func(tag string, nt bool, c *xt.T) { cases = append(cases, Case{Tag: tag, Nontrivial: nt, C: c}) }
	huge := uint64(1) << 40

	// ---- witnesses of the repaired defects (known_findings.txt) ----
	w := [][]string{{"2", "1"}, {"1", "2"}, {"1", "1"}, {"3", "0"}}
	add("witness", true, c19SortCase(2, []int{0, 1}, w, 1, nil))                                 // aca8c84 row output comparison
	add("witness", true, c19SortCase(2, nil, w, 1, nil))                                         // aca8c84 no key
	add("witness", true, c19SortCase(2, nil, w, 25, nil))                                        // no key, two rows per chunk
	add("witness", true, c19SortCase(2, []int{0}, [][]string{{"", "1"}, {"x", "2"}}, huge, nil)) // 8d128f5 empty key first
	add("witness", true, c19SortCase(1, nil, [][]string{{""}, {"x"}, {""}}, 1, nil))
	add("witness", true, c19SortCase(0, nil, [][]string{{"b", "1"}, {"a", "2"}, {"c", "3"}}, 25, nil))                                             // no key and SetColumns not called: the key is empty, one row survives
	add("witness", true, c19SortCase(3, []int{2, 1}, [][]string{{"r", "b", "2"}, {"q", "a", "2"}, {"p", "b", "1"}, {"o", "b", "2"}}, 1, []int{0})) // 8e1d1a9 removed column before key
	add("witness", true, c19SortCase(3, []int{1}, [][]string{{"r", "b", "2"}, {"q", "a", "2"}, {"p", "b", "1"}}, huge, []int{0, 2}))
	{ // fa79010: 300 rows + a duplicate of row 254 placed so that it heads block 1
		var rows [][]string
		for i := 0; i < 300; i++ {
			rows = append(rows, []string{fmt.Sprintf("%04d", i), "v"})
		}
		rows = append(rows, []string{"0254", "dup"})
		add("witness", true, c19SortCase(2, []int{0}, rows, huge, nil))
		add("witness", true, c19SortCase(2, []int{0}, rows, 64, nil))
	}
	add("witness", true, c19SortCase(2, []int{0}, [][]string{{"a", strings.Repeat("z", 65535)}, {"b", "1"}}, huge, nil))
	add("witness", true, c19SortCase(2, []int{0}, [][]string{{"b", "1"}, {"a", strings.Repeat("z", 65536)}}, huge, nil)) // 9a70dee refused
	histOp := func(k int, r []string) *xt.T {
		if k == 0 {
			return xt.N(xt.LI(0), xt.Strs(r))
		}
		return xt.N(xt.LI(k))
	}
	add("witness", true, xt.N(xt.LI(1), xt.L(1), xt.Ints([]int{0}), xt.N(histOp(0, []string{"a"}), histOp(1, nil), histOp(2, nil)))) // 572a7b7 Reset leak

	// ---- exhaustive small scope: <= L rows, 2-column key over {"0","1","2"}, every partition.
	// A third column is padded so that exactly the chosen rows end a run (runSize 64).
	L := 3
	if ctx.Thorough() {
		L = 4
	}
	vals := []string{"0", "1", "2"}
	var rec func(prefix [][2]int)
	emit := func(seq [][2]int) {
		n := len(seq)
		nparts := 1
		if n > 0 {
			nparts = 1 << uint(n)
		}
		for mask := 0; mask < nparts; mask++ {
			rows := make([][]string, n)
			for i, p := range seq {
				pad := "q"
				if mask&(1<<uint(i)) != 0 {
					pad = c19Pad(64)
				}
				rows[i] = []string{vals[p[0]], vals[p[1]], pad}
			}
			pk := []int{0, 1}
			if mask%2 == 1 {
				pk = []int{1, 0}
			}
			var rem []int
			if mask%3 == 0 {
				rem = []int{2}
			}
			add("exh", n >= 2, c19SortCase(3, pk, rows, 64, rem))
			ctx.Count("exhaustive_cases")
		}
	}
	rec = func(prefix [][2]int) {
		emit(prefix)
		if len(prefix) == L {
			return
		}
		for a := 0; a < 3; a++ {
			for b := 0; b < 3; b++ {
				rec(append(append([][2]int{}, prefix...), [2]int{a, b}))
			}
		}
	}
	rec(nil)

	// ---- structured random ----
	n := 160
	if ctx.Thorough() {
		n = 2500
	}
	sizes := []int{0, 1, 2, 3, 5, 12, 13, 40, 254, 255, 256, 300, 509, 510, 511, 800}
	for i := 0; i < n; i++ {
		ncols := 1 + ctx.Pick(5)
		// key choice: none / subset in random order
		var pk []int
		if ctx.Pick(5) != 0 {
			perm := ctx.Rng.Perm(ncols)
			pk = perm[:1+ctx.Pick(ncols)]
		}
		inPK := map[int]bool{}
		for _, u := range pk {
			inPK[u] = true
		}
		var rem []int
		if len(pk) > 0 && ctx.Pick(2) == 0 {
			for cidx := 0; cidx < ncols; cidx++ {
				if !inPK[cidx] && ctx.Pick(2) == 0 {
					rem = append(rem, cidx)
				}
			}
		}
		nrows := sizes[ctx.Pick(len(sizes))]
		if ctx.Pick(3) != 0 && nrows > 60 {
			nrows = ctx.Pick(60)
		}
		keyAlpha := 2 + ctx.Pick(len(c19KeyCells)-1)
		wide := nrows > 100 // need many distinct keys to fill blocks
		rows := make([][]string, 0, nrows+4)
		for j := 0; j < nrows; j++ {
			r := make([]string, ncols)
			for cidx := range r {
				isKey := inPK[cidx] || len(pk) == 0
				switch {
				case isKey && wide && (len(pk) == 0 && cidx == 0 || len(pk) > 0 && cidx == pk[len(pk)-1]):
					r[cidx] = fmt.Sprintf("%03d", ctx.Pick(nrows))
				case isKey:
					r[cidx] = c19KeyCells[ctx.Pick(keyAlpha)]
				default:
					r[cidx] = c19AnyCells[ctx.Pick(len(c19AnyCells))]
				}
			}
			rows = append(rows, r)
		}
		// duplicates of existing keys (different payload) at the end, the start and around 254..256
		if nrows > 0 {
			for d := ctx.Pick(4); d > 0; d-- {
				src := rows[ctx.Pick(len(rows))]
				dup := append([]string{}, src...)
				for cidx := range dup {
					if !inPK[cidx] && len(pk) > 0 && ctx.Pick(2) == 0 {
						dup[cidx] = c19AnyCells[ctx.Pick(len(c19AnyCells))]
					}
				}
				pos := ctx.Pick(len(rows) + 1)
				rows = append(rows[:pos], append([][]string{dup}, rows[pos:]...)...)
				ctx.Count("rows_duplicate_key_inserted")
			}
		}
		var rs uint64
		switch ctx.Pick(6) {
		case 0:
			rs = 1
			ctx.Count("runsize_1")
		case 1:
			rs = 64
			ctx.Count("runsize_64")
		case 2:
			rs = 4096
			ctx.Count("runsize_4096")
		case 3:
			rs = huge
			ctx.Count("runsize_huge")
		default:
			rs = uint64(8 + ctx.Pick(400))
			ctx.Count("runsize_other")
		}
		if len(pk) == 0 {
			ctx.Count("pk_none")
		} else if len(pk) > 1 {
			ctx.Count("pk_composite")
		} else {
			ctx.Count("pk_single")
		}
		if len(rem) > 0 {
			ctx.Count("with_removed_columns")
		}
		if len(rows) >= 255 {
			ctx.Count("multi_block")
		}
		add("rand", len(rows) >= 2, c19SortCase(ncols, pk, rows, rs, rem))
	}
	// a few over-limit / at-limit cells
	for _, ln := range []int{65535, 65536, 70000} {
		rows := [][]string{{"k1", "v"}, {"k0", strings.Repeat("L", ln)}, {"k2", "w"}}
		add("limit", true, c19SortCase(2, []int{0}, rows, 100, nil))
		ctx.Count("limit_cells")
	}
	// ---- one sorter reused for several tables (Reset, SetColumns, PK change between uses) ----
	useT := func(ncols int, pk []int, rows [][]string, out int, rem []int) *xt.T {
		return xt.N(xt.LI(ncols), xt.Ints(pk), c19Rows(rows), xt.LI(out), xt.Ints(rem))
	}
	for _, rs := range []uint64{1, huge} {
		for out := 0; out < 2; out++ {
			// key-less 2 columns, then key-less 3 columns whose rows agree on the first two; then keyed; then narrower
			add("witness", true, xt.N(xt.LI(2), xt.L(rs), xt.N(
				useT(2, nil, [][]string{{"1", "x"}, {"0", "y"}}, out, nil),
				useT(3, nil, [][]string{{"1", "x", "p"}, {"2", "y", "r"}, {"1", "x", "q"}}, out, nil),
				useT(3, []int{2}, [][]string{{"1", "x", "p"}, {"2", "y", "p"}, {"1", "x", "q"}}, 1-out, []int{0}))))
		}
	}
	for _, rs := range []uint64{1, huge} {
		// a wider key-less table first, then a narrower one
		add("witness", true, xt.N(xt.LI(2), xt.L(rs), xt.N(
			useT(3, nil, [][]string{{"1", "x", "p"}, {"1", "x", "q"}}, 0, nil),
			useT(1, nil, [][]string{{"b"}, {"a"}, {"b"}}, 1, nil))))
	}
	nru := 60
	if ctx.Thorough() {
		nru = 1500
	}
	for i := 0; i < nru; i++ {
		uses := xt.N()
		total := 0
		for j, m := 0, 2+ctx.Pick(3); j < m; j++ {
			ncols := 1 + ctx.Pick(4)
			var pk []int
			if ctx.Pick(5) < 2 {
				perm := ctx.Rng.Perm(ncols)
				pk = perm[:1+ctx.Pick(ncols)]
			}
			inPK := map[int]bool{}
			for _, u := range pk {
				inPK[u] = true
			}
			var rem []int
			if len(pk) > 0 && ctx.Pick(2) == 0 {
				for cidx := 0; cidx < ncols; cidx++ {
					if !inPK[cidx] && ctx.Pick(2) == 0 {
						rem = append(rem, cidx)
					}
				}
			}
			nrows := ctx.Pick(25)
			if ctx.Pick(20) == 0 {
				nrows = 250 + ctx.Pick(20)
			}
			alpha := 2 + ctx.Pick(4)
			rows := make([][]string, nrows)
			for r := range rows {
				rows[r] = make([]string, ncols)
				for cidx := range rows[r] {
					rows[r][cidx] = c19KeyCells[ctx.Pick(alpha)]
					if nrows > 100 && cidx == ncols-1 {
						rows[r][cidx] = fmt.Sprint(ctx.Pick(nrows))
					}
				}
			}
			total += nrows
			uses.Add(useT(ncols, pk, rows, ctx.Pick(2), rem))
			if len(pk) == 0 {
				ctx.Count("reuse_use_keyless")
			} else {
				ctx.Count("reuse_use_keyed")
			}
		}
		rs := []uint64{1, 64, 4096, huge, uint64(8 + ctx.Pick(200))}[ctx.Pick(5)]
		ctx.Count("reuse_histories")
		add("reuse", total >= 2, xt.N(xt.LI(2), xt.L(rs), uses))
	}
	// ---- histories with Reset / Close ----
	nh := 40
	if ctx.Thorough() {
		nh = 600
	}
	for i := 0; i < nh; i++ {
		rs := uint64(1 + ctx.Pick(40))
		ops := xt.N()
		closed := false
		wellUsed := ctx.Pick(5) != 0
		for j, m := 0, 3+ctx.Pick(14); j < m; j++ {
			r := ctx.Pick(10)
			switch {
			case r < 6:
				if closed && wellUsed {
					ops.Add(histOp(1, nil))
					closed = false
				}
				ops.Add(histOp(0, []string{c19KeyCells[ctx.Pick(len(c19KeyCells))], c19AnyCells[ctx.Pick(len(c19AnyCells))]}))
				ctx.Count("hist_add")
			case r < 8:
				ops.Add(histOp(1, nil))
				closed = false
				ctx.Count("hist_reset")
			default:
				ops.Add(histOp(2, nil))
				closed = true
				ctx.Count("hist_close")
			}
		}
		ops.Add(histOp(2, nil))
		tag := "hist"
		if !wellUsed {
			tag = "hist-any"
		}
		add(tag, true, xt.N(xt.LI(1), xt.L(rs), xt.Ints([]int{0}), ops))
	}
	return cases
}
