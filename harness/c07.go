package main

// C07: commits sent through packfiles are reproduced exactly at the destination.
// Implementation: apiutils.ObjectSender.WriteObjects -> packfile.PackfileReader ->
// apiutils.ObjectReceiver.Receive between two objmock stores; tables are built by the real
// ingest from generated CSVs.  Model: coq/model/Transfer.v (run_C07).
//
// case = (tag world params)
//   world  = (tables commits blocksizes srcdrop)
//     tables     = ((pkv (chunk ...) size) ...)   table i; variant pkv = column layout + key:
//                  0: id,a,b pk=[id]  1: id,a,b pk=[id,a]  2: a,id,b pk=[id] (key not leading)
//                  3: a,b,id pk=[id,a] (key columns last and in another order than the header); layouts 0,0,1,2.
//                  chunk k < 100: 255 rows, k >= 100: (k mod 7)+1 rows (only as the last chunk); chunks
//                  ascending, so block j of the table is chunk j.  Abstract table id = first index with
//                  the same (pkv, chunks); abstract block id = chunk + 1000*layout; blkidx id = (pkv block).
//     commits    = ((tableidx (parentidx ...) size tz) ...)  commit i (abstract id i), parents < i; tz = author
//                  zone offset in minutes + 2000
//     blocksizes = ((block size) ...)
//     srcdrop    = ((tableidx ...) (block ...))  table / block objects deleted from the source store
//     size = bytes PackfileWriter.WriteObject reports for the object
//   tag 0: params = (tosend tbs commons max dstpre)
//     dstpre = ((commitidx ...) (tableidx ...) (block ...) tblobj tblidx prof blkidx stale) commits / full tables /
//              bare blocks at the destination, then per object kind: table object alone (tableidx ...), table
//              index alone, profile alone, single block indices ((tableidx j) ...), stale = table index and
//              profile present with foreign content
//   tag 1: params = (tosend tbs commons dstpre ops cut)   hostile stream: the honest object stream edited by
//     ops = (0 i) drop | (1 i j) swap | (2 i k) tamper kind k | (3 i) append copy; re-framed cut objects per packfile
//   tag 2: params = (tosend tbs commons max dstpre cutpack j where)   transit damage: packfile number cutpack of the
//     honest transfer is truncated: where 9 = at the boundary before its object j (a legitimately shorter packfile),
//     where 0..3 = strictly inside object j (0 inside the type/length header, 1 right after the header, 2 mid-body,
//     3 one byte before its end).  After a boundary cut the remaining packfiles follow; after an error the transfer stops.
// observation = (status recvdone packs final)
//   status 0 ok / 1 receiver error / 2 sender error; packs = (((kind id) ...) ...) kind 1 commit 2 table 3 block
//   0 undecodable; final = (commits tables blocks blkidx tblidx prof) sorted abstract ids

import (
	"bytes"
	"database/sql"
	"encoding/hex"
	"fmt"
	"io"
	"sort"
	"strings"
	"time"

	"github.com/go-logr/logr"
	"github.com/klauspost/compress/s2"
	_ "github.com/mattn/go-sqlite3"
	"github.com/pckhoi/meow"
	apiutils "github.com/wrgl/wrgl/pkg/api/utils"
	"github.com/wrgl/wrgl/pkg/diff"
	"github.com/wrgl/wrgl/pkg/encoding/packfile"
	"github.com/wrgl/wrgl/pkg/ingest"
	"github.com/wrgl/wrgl/pkg/objects"
	objmock "github.com/wrgl/wrgl/pkg/objects/mock"
	"github.com/wrgl/wrgl/pkg/ref"
	refsql "github.com/wrgl/wrgl/pkg/ref/sql"
	"github.com/wrgl/wrgl/pkg/sorter"

	"verifharness/xt"
)

func init() { props["C07"] = &Prop{Gen: genC07, Run: runC07} }

// ---------------------------------------------------------------------------
// scenario <-> tree

type c07Tbl struct {
	pkv    int
	chunks []int
}
type c07Com struct {
	tbl     int
	parents []int
	tz      int // author zone, minutes east of UTC
}
type c07Scn struct {
	tag                  int
	tbls                 []c07Tbl
	coms                 []c07Com
	dropT, dropB         []int
	tosend, tbs, commons []int
	max                  uint64
	preC, preT, preB     []int
	preTO, preTI, preTP  []int    // table object / table index / profile alone
	preX                 [][2]int // (table index, block position): that block index alone
	preStale             []int    // table index + profile with foreign content
	ops                  [][]int
	cut                  int
	cutPack, cutObj      int // tag 2
	cutWhere             int
}

func c07Ints(t *xt.T) []int {
	r := make([]int, len(t.Kids))
	for i, k := range t.Kids {
		r[i] = int(k.N)
	}
	return r
}

func c07Decode(c *xt.T) *c07Scn {
	s := &c07Scn{tag: int(c.Kids[0].N)}
	w, p := c.Kids[1], c.Kids[2]
	for _, t := range w.Kids[0].Kids {
		s.tbls = append(s.tbls, c07Tbl{int(t.Kids[0].N), c07Ints(t.Kids[1])})
	}
	for _, t := range w.Kids[1].Kids {
		tz := 0
		if len(t.Kids) > 3 {
			tz = int(t.Kids[3].N) - 2000
		}
		s.coms = append(s.coms, c07Com{int(t.Kids[0].N), c07Ints(t.Kids[1]), tz})
	}
	s.dropT, s.dropB = c07Ints(w.Kids[3].Kids[0]), c07Ints(w.Kids[3].Kids[1])
	s.tosend, s.tbs, s.commons = c07Ints(p.Kids[0]), c07Ints(p.Kids[1]), c07Ints(p.Kids[2])
	var pre *xt.T
	if s.tag == 0 || s.tag == 2 {
		s.max = p.Kids[3].N
		pre = p.Kids[4]
		if s.tag == 2 {
			s.cutPack, s.cutObj, s.cutWhere = int(p.Kids[5].N), int(p.Kids[6].N), int(p.Kids[7].N)
		}
	} else {
		pre = p.Kids[3]
		for _, o := range p.Kids[4].Kids {
			s.ops = append(s.ops, c07Ints(o))
		}
		s.cut = int(p.Kids[5].N)
		if s.cut < 1 {
			s.cut = 1
		}
	}
	s.preC, s.preT, s.preB = c07Ints(pre.Kids[0]), c07Ints(pre.Kids[1]), c07Ints(pre.Kids[2])
	if len(pre.Kids) >= 8 {
		s.preTO, s.preTI, s.preTP = c07Ints(pre.Kids[3]), c07Ints(pre.Kids[4]), c07Ints(pre.Kids[5])
		for _, x := range pre.Kids[6].Kids {
			s.preX = append(s.preX, [2]int{int(x.Kids[0].N), int(x.Kids[1].N)})
		}
		s.preStale = c07Ints(pre.Kids[7])
	}
	return s
}

func c07Encode(s *c07Scn, w *c07World) *xt.T {
	tbls := xt.N()
	for i, t := range s.tbls {
		tbls.Add(xt.N(xt.LI(t.pkv), xt.Ints(t.chunks), xt.LI(w.tblSize[i])))
	}
	coms := xt.N()
	for i, c := range s.coms {
		coms.Add(xt.N(xt.LI(c.tbl), xt.Ints(c.parents), xt.LI(w.comSize[i]), xt.LI(c.tz+2000)))
	}
	bs := xt.N()
	ks := []int{}
	for k := range w.blkSize {
		ks = append(ks, k)
	}
	sort.Ints(ks)
	for _, k := range ks {
		bs.Add(xt.N(xt.LI(k), xt.LI(w.blkSize[k])))
	}
	world := xt.N(tbls, coms, bs, xt.N(xt.Ints(s.dropT), xt.Ints(s.dropB)))
	px := xt.N()
	for _, x := range s.preX {
		px.Add(xt.N(xt.LI(x[0]), xt.LI(x[1])))
	}
	pre := xt.N(xt.Ints(s.preC), xt.Ints(s.preT), xt.Ints(s.preB), xt.Ints(s.preTO), xt.Ints(s.preTI), xt.Ints(s.preTP), px, xt.Ints(s.preStale))
	if s.tag == 0 {
		return xt.N(xt.LI(0), world, xt.N(xt.Ints(s.tosend), xt.Ints(s.tbs), xt.Ints(s.commons), xt.L(s.max), pre))
	}
	if s.tag == 2 {
		return xt.N(xt.LI(2), world, xt.N(xt.Ints(s.tosend), xt.Ints(s.tbs), xt.Ints(s.commons), xt.L(s.max), pre,
			xt.LI(s.cutPack), xt.LI(s.cutObj), xt.LI(s.cutWhere)))
	}
	ops := xt.N()
	for _, o := range s.ops {
		ops.Add(xt.Ints(o))
	}
	return xt.N(xt.LI(1), world, xt.N(xt.Ints(s.tosend), xt.Ints(s.tbs), xt.Ints(s.commons), pre, ops, xt.LI(s.cut)))
}

// ---------------------------------------------------------------------------
// world: the source repository, built with the real ingest

type c07TblBuild struct {
	sum []byte
	kv  map[string][]byte
	tbl *objects.Table
	raw []byte
}

var c07Cache = map[string]*c07TblBuild{}

func c07ChunkRows(k int) int {
	if k < 100 {
		return 255
	}
	return k%7 + 1
}

func c07Layout(pkv int) int {
	switch pkv {
	case 0, 1:
		return 0
	case 2:
		return 1
	}
	return 2
}

// abstract block id of chunk k in a table of variant pkv
func c07Blk(pkv, k int) int { return k + 1000*c07Layout(pkv) }

func c07CSV(pkv int, chunks []int) []byte {
	var sb strings.Builder
	sb.WriteString([]string{"id,a,b\n", "a,id,b\n", "a,b,id\n"}[c07Layout(pkv)])
	for _, k := range chunks {
		for r := 0; r < c07ChunkRows(k); r++ {
			id, a, b := fmt.Sprintf("%04d-%03d", k, r), fmt.Sprintf("v%d", (k*31+r)%17), fmt.Sprintf("w%d", r%5)
			switch c07Layout(pkv) {
			case 0:
				fmt.Fprintf(&sb, "%s,%s,%s\n", id, a, b)
			case 1:
				fmt.Fprintf(&sb, "%s,%s,%s\n", a, id, b)
			default:
				fmt.Fprintf(&sb, "%s,%s,%s\n", a, b, id)
			}
		}
	}
	return []byte(sb.String())
}

func c07BuildTable(t c07Tbl) *c07TblBuild {
	key := fmt.Sprintf("%d:%v", t.pkv, t.chunks)
	if b, ok := c07Cache[key]; ok {
		return b
	}
	db := objmock.NewStore()
	s, err := sorter.NewSorter()
	if err != nil {
		panic(err)
	}
	pk := []string{"id"}
	if t.pkv == 1 || t.pkv == 3 {
		pk = []string{"id", "a"}
	}
	sum, err := ingest.IngestTable(db, s, io.NopCloser(bytes.NewReader(c07CSV(t.pkv, t.chunks))), pk, logr.Discard())
	if err != nil {
		panic(fmt.Sprintf("c07 ingest: %v", err))
	}
	tbl, err := objects.GetTable(db, sum)
	if err != nil {
		panic(err)
	}
	if len(tbl.Blocks) != len(t.chunks) {
		panic(fmt.Sprintf("c07 bad case: %d blocks for chunks %v", len(tbl.Blocks), t.chunks))
	}
	kv, _ := db.Filter(nil)
	raw, _ := db.Get(append([]byte("tbl/"), sum...))
	b := &c07TblBuild{sum: sum, kv: kv, tbl: tbl, raw: raw}
	c07Cache[key] = b
	return b
}

type c07World struct {
	scn      *c07Scn
	tbls     []*c07TblBuild
	canon    []int
	coms     []*objects.Commit
	comRaw   [][]byte
	comID    map[string]int
	tblID    map[string]int
	blkID    map[string]int
	bidxID   map[string][2]int
	blkSum   map[int][]byte
	all, src *objmock.Store
	tblSize  []int
	comSize  []int
	blkSize  map[int]int
}

func c07Key(prefix string, sum []byte) []byte { return append([]byte(prefix), sum...) }

func c07ObjSize(typ int, b []byte) int {
	buf := bytes.NewBuffer(nil)
	pw, err := packfile.NewPackfileWriter(buf)
	if err != nil {
		panic(err)
	}
	n, err := pw.WriteObject(typ, b)
	if err != nil {
		panic(err)
	}
	return n
}

func c07Copy(dst, src *objmock.Store, key []byte) {
	v, err := src.Get(key)
	if err != nil {
		panic(fmt.Sprintf("c07 copy %q: %v", key, err))
	}
	dst.Set(key, v)
}

func c07BuildWorld(s *c07Scn) *c07World {
	w := &c07World{scn: s, comID: map[string]int{}, tblID: map[string]int{}, blkID: map[string]int{},
		bidxID: map[string][2]int{}, blkSum: map[int][]byte{}, all: objmock.NewStore(), src: objmock.NewStore(),
		blkSize: map[int]int{}}
	for i, t := range s.tbls {
		b := c07BuildTable(t)
		w.tbls = append(w.tbls, b)
		if j, ok := w.tblID[string(b.sum)]; ok {
			w.canon = append(w.canon, j)
		} else {
			w.tblID[string(b.sum)] = i
			w.canon = append(w.canon, i)
		}
		for k, v := range b.kv {
			w.all.Set([]byte(k), v)
		}
		for j, ch := range t.chunks {
			k := c07Blk(t.pkv, ch)
			bs := b.tbl.Blocks[j]
			if old, ok := w.blkSum[k]; ok && !bytes.Equal(old, bs) {
				panic(fmt.Sprintf("c07 bad case: block %d has two different block sums", k))
			}
			w.blkSum[k] = bs
			w.blkID[string(bs)] = k
			w.bidxID[string(b.tbl.BlockIndices[j])] = [2]int{t.pkv, k}
			bb, _ := objects.GetBlockBytes(w.all, bs)
			w.blkSize[k] = c07ObjSize(packfile.ObjectBlock, bb)
		}
		w.tblSize = append(w.tblSize, c07ObjSize(packfile.ObjectTable, b.raw))
	}
	for i, c := range s.coms {
		com := &objects.Commit{
			Table:       w.tbls[c.tbl].sum,
			AuthorName:  "author",
			AuthorEmail: "author@example.com",
			Time:        time.Unix(1600000000+int64(i)*60, 0).In(time.FixedZone("", c.tz*60)),
			Message:     fmt.Sprintf("commit %d", i),
		}
		for _, p := range c.parents {
			com.Parents = append(com.Parents, w.coms[p].Sum)
		}
		buf := bytes.NewBuffer(nil)
		if _, err := com.WriteTo(buf); err != nil {
			panic(err)
		}
		sum, err := objects.SaveCommit(w.all, buf.Bytes())
		if err != nil {
			panic(err)
		}
		com.Sum = sum
		if _, dup := w.comID[string(sum)]; dup {
			panic("c07 bad case: two commits with the same content")
		}
		w.comID[string(sum)] = i
		w.coms = append(w.coms, com)
		w.comRaw = append(w.comRaw, append([]byte{}, buf.Bytes()...))
		w.comSize = append(w.comSize, c07ObjSize(packfile.ObjectCommit, buf.Bytes()))
	}
	kv, _ := w.all.Filter(nil)
	for k, v := range kv {
		w.src.Set([]byte(k), v)
	}
	for _, t := range s.dropT {
		objects.DeleteTable(w.src, w.tbls[t].sum)
	}
	for _, k := range s.dropB {
		if bs, ok := w.blkSum[k]; ok {
			objects.DeleteBlock(w.src, bs)
		}
	}
	return w
}

func (w *c07World) buildDst() *objmock.Store {
	s := w.scn
	dst := objmock.NewStore()
	for _, c := range s.preC {
		c07Copy(dst, w.all, c07Key("com/", w.coms[c].Sum))
	}
	for _, t := range s.preT {
		for k, v := range w.tbls[t].kv {
			dst.Set([]byte(k), v)
		}
	}
	for _, k := range s.preB {
		c07Copy(dst, w.all, c07Key("blk/", w.blkSum[k]))
	}
	for _, t := range s.preTO {
		c07Copy(dst, w.all, c07Key("tbl/", w.tbls[t].sum))
	}
	for _, t := range s.preTI {
		c07Copy(dst, w.all, c07Key("tblidx/", w.tbls[t].sum))
	}
	for _, t := range s.preTP {
		c07Copy(dst, w.all, c07Key("tblsum/", w.tbls[t].sum))
	}
	for _, x := range s.preX {
		if x[1] < len(w.tbls[x[0]].tbl.BlockIndices) {
			c07Copy(dst, w.all, c07Key("blkidx/", w.tbls[x[0]].tbl.BlockIndices[x[1]]))
		}
	}
	for _, t := range s.preStale {
		dst.Set(c07Key("tblidx/", w.tbls[t].sum), []byte("stale table index"))
		dst.Set(c07Key("tblsum/", w.tbls[t].sum), []byte("stale profile"))
	}
	return dst
}

// ---------------------------------------------------------------------------
// observation helpers

const c07Unknown = 999999

func (w *c07World) absObj(typ string, hexsum string, extra map[string]int) *xt.T {
	sum, _ := hex.DecodeString(hexsum)
	switch typ {
	case "commit":
		if id, ok := extra["c"+string(sum)]; ok {
			return xt.N(xt.LI(1), xt.LI(id))
		}
		if id, ok := w.comID[string(sum)]; ok {
			return xt.N(xt.LI(1), xt.LI(id))
		}
		return xt.N(xt.LI(1), xt.LI(c07Unknown))
	case "table":
		if id, ok := extra["t"+string(sum)]; ok {
			return xt.N(xt.LI(2), xt.LI(id))
		}
		if id, ok := w.tblID[string(sum)]; ok {
			return xt.N(xt.LI(2), xt.LI(id))
		}
		return xt.N(xt.LI(2), xt.LI(c07Unknown))
	case "block":
		if id, ok := w.blkID[string(sum)]; ok {
			return xt.N(xt.LI(3), xt.LI(id))
		}
		return xt.N(xt.LI(3), xt.LI(c07Unknown))
	}
	return xt.N(xt.LI(0), xt.LI(0))
}

func c07SortedInts(l []int) *xt.T {
	sort.Ints(l)
	out := []int{}
	for i, x := range l {
		if i == 0 || x != l[i-1] {
			out = append(out, x)
		}
	}
	return xt.Ints(out)
}

func (w *c07World) final(dst *objmock.Store, extra map[string]int) *xt.T {
	mapKeys := func(get func(objects.Store) ([][]byte, error), m map[string]int, pfx string) *xt.T {
		keys, err := get(dst)
		if err != nil {
			panic(err)
		}
		l := []int{}
		for _, k := range keys {
			if id, ok := extra[pfx+string(k)]; ok {
				l = append(l, id)
			} else if id, ok := m[string(k)]; ok {
				l = append(l, id)
			} else {
				l = append(l, c07Unknown)
			}
		}
		return c07SortedInts(l)
	}
	bi, err := objects.GetAllBlockIndexKeys(dst)
	if err != nil {
		panic(err)
	}
	bl := []int{}
	for _, k := range bi {
		if id, ok := w.bidxID[string(k)]; ok {
			bl = append(bl, id[0]*1000000+id[1])
		} else {
			bl = append(bl, 9*1000000+c07Unknown)
		}
	}
	sort.Ints(bl)
	bt := xt.N()
	for i, x := range bl {
		if i == 0 || x != bl[i-1] {
			bt.Add(xt.N(xt.LI(x/1000000), xt.LI(x%1000000)))
		}
	}
	return xt.N(
		mapKeys(objects.GetAllCommitKeys, w.comID, "c"),
		mapKeys(objects.GetAllTableKeys, w.tblID, "t"),
		mapKeys(objects.GetAllBlockKeys, w.blkID, "-"),
		bt,
		mapKeys(objects.GetAllTableIndexKeys, w.tblID, "t"),
		mapKeys(objects.GetAllTableProfileKeys, w.tblID, "t"),
	)
}

// ---------------------------------------------------------------------------
// oracle pieces (independent of the Coq model)

// every stored commit's parents are stored
func c07Closed(db *objmock.Store) (bool, string) {
	keys, _ := objects.GetAllCommitKeys(db)
	for _, k := range keys {
		c, err := objects.GetCommit(db, k)
		if err != nil {
			return false, fmt.Sprintf("commit %x unreadable: %v", k, err)
		}
		for _, p := range c.Parents {
			if !objects.CommitExist(db, p) {
				return false, fmt.Sprintf("commit %x stored but parent %x is missing", k, p)
			}
		}
	}
	return true, ""
}

// every stored table can be read back with all its blocks, block indices (equal to
// re-indexing the rows), table index (first key of each block) and profile
func c07TablesUsable(db *objmock.Store, which map[string]bool) (bool, string) {
	keys, _ := objects.GetAllTableKeys(db)
	for _, k := range keys {
		if which != nil && !which[string(k)] {
			continue
		}
		if ok, msg := c07TableUsable(db, k); !ok {
			return false, msg
		}
	}
	return true, ""
}

// the tables of a store that are usable
func c07UsableSet(db *objmock.Store) map[string]bool {
	out := map[string]bool{}
	keys, _ := objects.GetAllTableKeys(db)
	for _, k := range keys {
		if ok, _ := c07TableUsable(db, k); ok {
			out[string(k)] = true
		}
	}
	return out
}

func c07TableUsable(db *objmock.Store, k []byte) (bool, string) {
	enc := objects.NewStrListEncoder(true)
	hash := meow.New(0)
	{
		tbl, err := objects.GetTable(db, k)
		if err != nil {
			return false, fmt.Sprintf("table %x unreadable: %v", k, err)
		}
		if len(tbl.BlockIndices) != len(tbl.Blocks) {
			return false, fmt.Sprintf("table %x: %d blocks, %d block indices", k, len(tbl.Blocks), len(tbl.BlockIndices))
		}
		tidx, err := objects.GetTableIndex(db, k)
		if err != nil {
			return false, fmt.Sprintf("table %x stored without table index: %v", k, err)
		}
		if len(tidx) != len(tbl.Blocks) {
			return false, fmt.Sprintf("table %x: table index has %d entries for %d blocks", k, len(tidx), len(tbl.Blocks))
		}
		if _, err := objects.GetTableProfile(db, k); err != nil {
			return false, fmt.Sprintf("table %x stored without profile: %v", k, err)
		}
		rows := 0
		for i, b := range tbl.Blocks {
			blk, _, err := objects.GetBlock(db, nil, b)
			if err != nil {
				return false, fmt.Sprintf("table %x stored but block %d (%x) is missing/unreadable: %v", k, i, b, err)
			}
			if len(blk) == 0 {
				return false, fmt.Sprintf("table %x: block %d is empty", k, i)
			}
			rows += len(blk)
			for _, r := range blk {
				if len(r) != len(tbl.Columns) {
					return false, fmt.Sprintf("table %x: block %d has a row of %d cells for %d columns", k, i, len(r), len(tbl.Columns))
				}
			}
			for _, p := range tbl.PK {
				if int(p) >= len(tbl.Columns) {
					return false, fmt.Sprintf("table %x: pk %d out of range", k, p)
				}
			}
			idx, _, err := objects.GetBlockIndex(db, nil, tbl.BlockIndices[i])
			if err != nil {
				return false, fmt.Sprintf("table %x stored but block index %d is missing: %v", k, i, err)
			}
			want, err := objects.IndexBlock(enc, hash, blk, tbl.PK)
			if err != nil {
				return false, err.Error()
			}
			b1, b2 := bytes.NewBuffer(nil), bytes.NewBuffer(nil)
			idx.WriteTo(b1)
			want.WriteTo(b2)
			if !bytes.Equal(b1.Bytes(), b2.Bytes()) {
				return false, fmt.Sprintf("table %x: stored block index %d differs from re-indexing the block", k, i)
			}
			var first []string
			if len(tbl.PK) > 0 {
				for _, p := range tbl.PK {
					first = append(first, blk[0][p])
				}
			} else {
				first = blk[0]
			}
			if strings.Join(first, "\x00") != strings.Join(tidx[i], "\x00") {
				return false, fmt.Sprintf("table %x: table index entry %d is %v, block starts at %v", k, i, tidx[i], first)
			}
		}
		if rows != int(tbl.RowsCount) {
			return false, fmt.Sprintf("table %x: %d rows in blocks, RowsCount %d", k, rows, tbl.RowsCount)
		}
		// usable for diff: the table against itself yields nothing
		if ok, msg := c07DiffEmpty(db, db, k); !ok {
			return false, "self-diff: " + msg
		}
	}
	return true, ""
}

func c07RawEq(a, b *objmock.Store, key []byte) (bool, string) {
	x, err := a.Get(key)
	if err != nil {
		return false, fmt.Sprintf("%q missing at source", key)
	}
	y, err := b.Get(key)
	if err != nil {
		return false, fmt.Sprintf("%s%x missing at destination", key[:bytes.IndexByte(key, '/')+1], key[bytes.IndexByte(key, '/')+1:])
	}
	if !bytes.Equal(x, y) {
		return false, fmt.Sprintf("%s%x differs between source and destination", key[:bytes.IndexByte(key, '/')+1], key[bytes.IndexByte(key, '/')+1:])
	}
	return true, ""
}

func c07DiffEmpty(src, dst *objmock.Store, sum []byte) (bool, string) {
	t1, err := objects.GetTable(src, sum)
	if err != nil {
		return false, err.Error()
	}
	t2, err := objects.GetTable(dst, sum)
	if err != nil {
		return false, err.Error()
	}
	i1, err := objects.GetTableIndex(src, sum)
	if err != nil {
		return false, err.Error()
	}
	i2, err := objects.GetTableIndex(dst, sum)
	if err != nil {
		return false, err.Error()
	}
	errCh := make(chan error, 10)
	ch, _ := diff.DiffTables(src, dst, t1, t2, i1, i2, errCh, logr.Discard())
	n := 0
	for range ch {
		n++
	}
	close(errCh)
	for e := range errCh {
		return false, fmt.Sprintf("diff error: %v", e)
	}
	if n != 0 {
		return false, fmt.Sprintf("diff of source and destination table %x yields %d events", sum, n)
	}
	return true, ""
}

type c07Seq struct {
	kind string
	sum  string // raw sum bytes
}

// preconditions of C07_exact, decided in Go on the concrete stores
type c07Pre struct {
	srcOK, parentFirst, commonsInSrc, commonsFull, neededPresent bool
}

func (w *c07World) initialCommonBlocks() map[string]bool {
	cb := map[string]bool{}
	for _, c := range w.scn.commons {
		t, err := objects.GetTable(w.src, w.coms[c].Table)
		if err != nil {
			continue
		}
		for _, b := range t.Blocks {
			cb[string(b)] = true
		}
	}
	return cb
}

// ---------------------------------------------------------------------------
// Run

func runC07(ctx *Ctx, c *xt.T) (*xt.T, Verdict) {
	s := c07Decode(c)
	w := c07BuildWorld(s)
	// the sizes recorded in the case must be the real ones (they drive the model's cuts)
	for i, t := range c.Kids[1].Kids[0].Kids {
		if int(t.Kids[2].N) != w.tblSize[i] {
			return xt.N(xt.LI(98)), Fail("case-size-mismatch", "table %d: case says %d, real %d", i, t.Kids[2].N, w.tblSize[i])
		}
	}
	for i, t := range c.Kids[1].Kids[1].Kids {
		if int(t.Kids[2].N) != w.comSize[i] {
			return xt.N(xt.LI(98)), Fail("case-size-mismatch", "commit %d: case says %d, real %d", i, t.Kids[2].N, w.comSize[i])
		}
	}
	for _, t := range c.Kids[1].Kids[2].Kids {
		if int(t.Kids[1].N) != w.blkSize[int(t.Kids[0].N)] {
			return xt.N(xt.LI(98)), Fail("case-size-mismatch", "block %d: case says %d, real %d", t.Kids[0].N, t.Kids[1].N, w.blkSize[int(t.Kids[0].N)])
		}
	}
	if s.tag == 0 {
		return c07RunHonest(s, w)
	}
	if s.tag == 2 {
		return c07RunTruncated(s, w)
	}
	return c07RunHostile(s, w)
}

func (w *c07World) senderArgs() ([]*objects.Commit, map[string]struct{}, [][]byte, [][]byte) {
	s := w.scn
	coms := []*objects.Commit{}
	expected := [][]byte{}
	for _, i := range s.tosend {
		// the callers (ClosedSetsFinder) hand the sender commits decoded from the store
		com, err := objects.GetCommit(w.src, w.coms[i].Sum)
		if err != nil {
			panic(err)
		}
		coms = append(coms, com)
		expected = append(expected, w.coms[i].Sum)
	}
	tbs := map[string]struct{}{}
	for _, t := range s.tbs {
		tbs[string(w.tbls[t].sum)] = struct{}{}
	}
	commons := [][]byte{}
	for _, i := range s.commons {
		commons = append(commons, w.coms[i].Sum)
	}
	return coms, tbs, commons, expected
}

func c07KeySnapshot(db *objmock.Store) map[string][]byte {
	m, _ := db.Filter(nil)
	out := map[string][]byte{}
	for k, v := range m {
		out[k] = append([]byte{}, v...)
	}
	return out
}

func c07RunHonest(s *c07Scn, w *c07World) (*xt.T, Verdict) {
	dst := w.buildDst()
	before := c07KeySnapshot(dst)
	closedBefore, _ := c07Closed(dst)
	usableBefore := c07UsableSet(dst)
	savedTables := map[string]bool{}
	hook := apiutils.WithReceiverSaveObjectHook(func(objType int, sum []byte) {
		if objType == packfile.ObjectTable {
			savedTables[string(sum)] = true
		}
	})
	coms, tbs, commons, expected := w.senderArgs()
	v := OK()
	bad := func(class, format string, a ...interface{}) {
		if v.OK {
			v = Fail(class, format, a...)
		}
	}
	status := 0
	recvDone := false
	packs := xt.N()
	seq := []c07Seq{}
	npacks := 0
	sender, err := apiutils.NewObjectSender(w.src, coms, tbs, commons, s.max)
	if err != nil {
		status = 2
	} else {
		receiver := apiutils.NewObjectReceiver(dst, expected, logr.Discard(), hook)
		buf := bytes.NewBuffer(nil)
		for iter := 0; ; iter++ {
			if iter > 100000 {
				bad("no-termination", "more than 100000 packfiles")
				break
			}
			buf.Reset()
			done, info, err := sender.WriteObjects(buf, nil)
			if err != nil {
				status = 2
				break
			}
			npacks++
			pk := xt.N()
			for _, o := range info.Objects {
				pk.Add(w.absObj(o[0], o[1], nil))
				sum, _ := hex.DecodeString(o[1])
				seq = append(seq, c07Seq{o[0], string(sum)})
			}
			packs.Add(pk)
			if len(info.Objects) == 0 && !done {
				bad("empty-packfile", "packfile %d carries no object but the sender is not done", iter)
				break
			}
			pr, err := packfile.NewPackfileReader(io.NopCloser(bytes.NewReader(buf.Bytes())))
			if err != nil {
				bad("packfile-unreadable", "NewPackfileReader: %v", err)
				status = 1
				break
			}
			rdone, err := receiver.Receive(pr, nil)
			if err != nil {
				status = 1
				break
			}
			if fmt.Sprint(pr.Info.Objects) != fmt.Sprint(info.Objects) {
				bad("sum-mismatch", "receiver computed %v, sender announced %v", pr.Info.Objects, info.Objects)
			}
			recvDone = rdone
			if done {
				break
			}
		}
	}
	obs := xt.N(xt.LI(status), xt.Bool(status == 0 && recvDone), packs, w.final(dst, nil))

	// ---- oracle
	if closedBefore {
		if ok, msg := c07Closed(dst); !ok {
			bad("parent-missing", "%s", msg)
		}
	}
	// every table that was usable before, and every table the receiver reports as saved, is usable now
	mustBeUsable := map[string]bool{}
	for k := range usableBefore {
		mustBeUsable[k] = true
	}
	for k := range savedTables {
		mustBeUsable[k] = true
	}
	if ok, msg := c07TablesUsable(dst, mustBeUsable); !ok {
		bad("table-unusable", "%s", msg)
	}
	for k := range mustBeUsable {
		if !objects.TableExist(dst, []byte(k)) {
			bad("table-unusable", "table %x reported saved / present before is not stored", k)
		}
	}
	transmitted := map[string]bool{}
	for _, o := range seq {
		if o.kind == "table" {
			transmitted[o.sum] = true
		}
	}
	// order of the object sequence
	cb0 := w.initialCommonBlocks()
	pos := map[string]int{}
	for i, o := range seq {
		if _, ok := pos[o.kind+o.sum]; !ok {
			pos[o.kind+o.sum] = i
		}
	}
	for i, o := range seq {
		switch o.kind {
		case "table":
			t, err := objects.GetTable(w.src, []byte(o.sum))
			if err != nil {
				bad("order", "sent table %x not in source", o.sum)
				continue
			}
			for _, b := range t.Blocks {
				if p, ok := pos["block"+string(b)]; ok && p < i {
					continue
				}
				if cb0[string(b)] {
					continue
				}
				bad("order-block-after-table", "table %x at %d precedes its block %x", o.sum, i, b)
			}
		case "commit":
			cm, err := objects.GetCommit(w.src, []byte(o.sum))
			if err != nil {
				bad("order", "sent commit %x not in source", o.sum)
				continue
			}
			for j := i + 1; j < len(seq); j++ {
				if seq[j].kind == "table" && seq[j].sum == string(cm.Table) {
					bad("order-table-after-commit", "commit %x at %d precedes its table at %d", o.sum, i, j)
				}
			}
		}
	}
	// commits appear exactly as listed
	ci := 0
	for _, o := range seq {
		if o.kind == "commit" {
			if ci >= len(coms) || string(coms[ci].Sum) != o.sum {
				bad("commit-order", "commit objects are not the send list in order")
				break
			}
			ci++
		}
	}
	if status == 0 && ci != len(coms) {
		bad("commit-order", "%d commit objects for %d listed commits", ci, len(coms))
	}
	// preconditions of the theorem, decided independently
	pre := c07Pre{srcOK: len(s.dropB) == 0, parentFirst: true, commonsInSrc: true, commonsFull: true, neededPresent: true}
	seen := map[string]bool{}
	for _, cm := range coms {
		for _, p := range cm.Parents {
			if !seen[string(p)] {
				if _, ok := before[string(c07Key("com/", p))]; !ok {
					pre.parentFirst = false
				}
			}
		}
		seen[string(cm.Sum)] = true
	}
	for _, i := range s.commons {
		if !objects.CommitExist(w.src, w.coms[i].Sum) {
			pre.commonsInSrc = false
		}
		if !usableBefore[string(w.coms[i].Table)] {
			pre.commonsFull = false
		}
	}
	// destination must itself be well-formed and agree with the source: by construction of dstpre it does,
	// except that bare commits may have been placed without their parents
	if !closedBefore {
		pre.parentFirst = false
	}
	for _, o := range seq {
		if o.kind != "table" {
			continue
		}
		t, _ := objects.GetTable(w.src, []byte(o.sum))
		if t == nil {
			continue
		}
		for _, b := range t.Blocks {
			if cb0[string(b)] {
				if _, ok := before[string(c07Key("blk/", b))]; !ok {
					pre.neededPresent = false
				}
			}
		}
	}
	if pre.commonsFull && !pre.neededPresent {
		bad("oracle-inconsistent", "commons full at destination but a common block is missing there")
	}
	if pre.srcOK && pre.parentFirst && pre.commonsInSrc && pre.neededPresent {
		if status != 0 {
			bad("unexpected-rejection", "preconditions hold but the transfer stopped with status %d after %d packfiles", status, npacks)
		}
	}
	if pre.srcOK && pre.parentFirst && pre.commonsInSrc && !pre.neededPresent && status == 0 {
		bad("missing-block-accepted", "a transmitted table needs a common block that the destination lacks, yet the transfer succeeded")
	}
	if status == 0 {
		if !recvDone {
			bad("receiver-not-done", "sender done but receiver still expects commits")
		}
		expectKeys := map[string]bool{}
		rebuilt := map[string]bool{} // keys verified equal to the source's: may legitimately replace stale content
		for k := range before {
			expectKeys[k] = true
		}
		for _, cm := range coms {
			key := c07Key("com/", cm.Sum)
			expectKeys[string(key)] = true
			if ok, msg := c07RawEq(w.src, dst, key); !ok {
				bad("commit-differs", "%s", msg)
			}
			if _, want := tbs[string(cm.Table)]; !want {
				continue
			}
			t, err := objects.GetTable(w.src, cm.Table)
			if err != nil {
				continue // the source cannot send what it does not hold
			}
			isCommon := false
			for _, i := range s.commons {
				if bytes.Equal(w.coms[i].Table, cm.Table) {
					isCommon = true
				}
			}
			if !transmitted[string(cm.Table)] {
				if !isCommon {
					bad("table-not-transmitted", "table %x is in tablesToSend, held by the source, not common, yet never sent", cm.Table)
				}
				if !usableBefore[string(cm.Table)] {
					continue // shallow common: the table is (by design of the sender) not transmitted
				}
			}
			keys := [][]byte{c07Key("tbl/", cm.Table), c07Key("tblidx/", cm.Table), c07Key("tblsum/", cm.Table)}
			for i, b := range t.Blocks {
				keys = append(keys, c07Key("blk/", b), c07Key("blkidx/", t.BlockIndices[i]))
			}
			for _, key := range keys {
				expectKeys[string(key)] = true
				rebuilt[string(key)] = true
				if ok, msg := c07RawEq(w.all, dst, key); !ok {
					bad("object-differs", "%s", msg)
				}
			}
			if v.OK {
				if ok, msg := c07DiffEmpty(w.all, dst, cm.Table); !ok {
					bad("diff-not-empty", "%s", msg)
				}
			}
		}
		// frame: nothing else appeared, nothing that was there changed
		after, _ := dst.Filter(nil)
		for k, val := range after {
			if !expectKeys[k] {
				bad("frame-extra", "unexpected key %q at the destination", k)
				break
			}
			if old, ok := before[k]; ok && !rebuilt[k] && !bytes.Equal(old, val) {
				bad("frame-changed", "key %q changed at the destination", k)
				break
			}
		}
		for k := range before {
			if _, ok := after[k]; !ok {
				bad("frame-lost", "key %q disappeared", k)
			}
		}
	}
	return obs, v
}

// ---------------------------------------------------------------------------
// transit damage: one packfile of the honest transfer arrives truncated

func c07RunTruncated(s *c07Scn, w *c07World) (*xt.T, Verdict) {
	dst := w.buildDst()
	closedBefore, _ := c07Closed(dst)
	usableBefore := c07UsableSet(dst)
	savedTables := map[string]bool{}
	hook := apiutils.WithReceiverSaveObjectHook(func(objType int, sum []byte) {
		if objType == packfile.ObjectTable {
			savedTables[string(sum)] = true
		}
	})
	coms, tbs, commons, expected := w.senderArgs()
	v := OK()
	bad := func(class, format string, a ...interface{}) {
		if v.OK {
			v = Fail(class, format, a...)
		}
	}
	status := 0
	recvDone := false
	packs := xt.N()
	sender, err := apiutils.NewObjectSender(w.src, coms, tbs, commons, s.max)
	if err != nil {
		return xt.N(xt.LI(2), xt.Bool(false), packs, w.final(dst, nil)), v
	}
	receiver := apiutils.NewObjectReceiver(dst, expected, logr.Discard(), hook)
	prefixes := map[string]string{"commit": "com/", "table": "tbl/", "block": "blk/"}
	buf := bytes.NewBuffer(nil)
	for iter := 0; iter < 100000; iter++ {
		buf.Reset()
		done, info, err := sender.WriteObjects(buf, nil)
		if err != nil {
			status = 2
			break
		}
		data := append([]byte{}, buf.Bytes()...)
		objs := info.Objects
		inside := false
		var cutKey []byte
		if iter == s.cutPack {
			// byte extents of the objects of this packfile
			pr, err := packfile.NewPackfileReader(io.NopCloser(bytes.NewReader(data)))
			if err != nil {
				panic(err)
			}
			type ext struct{ start, hdr, body int }
			exts := []ext{}
			off := 8
			for {
				ot, b, err := pr.ReadObject()
				if err == io.EOF {
					break
				}
				if err != nil {
					panic(err)
				}
				n := c07ObjSize(ot, b)
				exts = append(exts, ext{off, n - len(b), len(b)})
				off += n
			}
			if len(exts) != len(objs) || off != len(data) {
				panic("c07: packfile extents do not add up")
			}
			j := s.cutObj
			if s.cutWhere == 9 {
				if j < len(exts) {
					data = data[:exts[j].start]
					objs = objs[:j]
				}
			} else if j < len(exts) {
				e := exts[j]
				pos := e.start + 1
				switch s.cutWhere {
				case 1:
					pos = e.start + e.hdr
				case 2:
					pos = e.start + e.hdr + e.body/2
				case 3:
					pos = e.start + e.hdr + e.body - 1
				}
				sum, _ := hex.DecodeString(objs[j][1])
				cutKey = c07Key(prefixes[objs[j][0]], sum)
				if dst.Exist(cutKey) {
					cutKey = nil // already there: nothing to conclude from its presence
				}
				data = data[:pos]
				objs = objs[:j]
				inside = true
			}
		}
		pk := xt.N()
		for _, o := range objs {
			pk.Add(w.absObj(o[0], o[1], nil))
		}
		if inside {
			pk.Add(xt.N(xt.LI(0), xt.LI(0)))
		}
		packs.Add(pk)
		pr, err := packfile.NewPackfileReader(io.NopCloser(bytes.NewReader(data)))
		if err != nil {
			panic(err)
		}
		rdone, err := receiver.Receive(pr, nil)
		if inside {
			if err == nil {
				bad("truncated-object-accepted", "packfile %d cut strictly inside its object %d (position kind %d): Receive returned no error (done=%v)", iter, s.cutObj, s.cutWhere, rdone)
			}
			if cutKey != nil && dst.Exist(cutKey) {
				bad("truncated-object-stored", "packfile %d cut inside object %d, yet %q is stored", iter, s.cutObj, cutKey)
			}
		}
		if err != nil {
			status = 1
			break
		}
		recvDone = rdone
		if done {
			break
		}
	}
	obs := xt.N(xt.LI(status), xt.Bool(status == 0 && recvDone), packs, w.final(dst, nil))
	// a transfer that ends with the receiver done has every commit it expected, byte-identical
	if status == 0 && recvDone {
		for _, cm := range coms {
			if ok, msg := c07RawEq(w.src, dst, c07Key("com/", cm.Sum)); !ok {
				bad("done-but-missing", "receiver reports done: %s", msg)
			}
		}
	}
	if closedBefore {
		if ok, msg := c07Closed(dst); !ok {
			bad("parent-missing", "%s", msg)
		}
	}
	for k := range savedTables {
		usableBefore[k] = true
	}
	if ok, msg := c07TablesUsable(dst, usableBefore); !ok {
		bad("table-unusable", "%s", msg)
	}
	return obs, v
}

// ---------------------------------------------------------------------------
// hostile stream

type c07RawObj struct {
	typ int
	b   []byte
}

func c07Tamper(w *c07World, o c07RawObj, k int, extra map[string]int) c07RawObj {
	switch o.typ {
	case packfile.ObjectTable:
		_, tbl, err := objects.ReadTableFrom(bytes.NewReader(o.b))
		if err != nil {
			return c07RawObj{o.typ, []byte("garbage")}
		}
		arr := meow.Checksum(0, o.b)
		orig, ok := w.tblID[string(arr[:])]
		if !ok {
			orig = extra["t"+string(arr[:])]
		}
		base := 0
		switch k {
		case 0:
			if len(tbl.BlockIndices) == 0 {
				return o
			}
			tbl.BlockIndices[0] = bytes.Repeat([]byte{0x99}, 16)
			base = 1000
		case 1:
			tbl.Columns = append(tbl.Columns, "extra")
			base = 2000
		case 2:
			tbl.PK = []uint32{7}
			base = 3000
		case 4: // first out-of-range value
			tbl.PK = []uint32{uint32(len(tbl.Columns))}
			base = 4000
		default:
			return c07RawObj{o.typ, []byte("garbage")}
		}
		buf := bytes.NewBuffer(nil)
		tbl.WriteTo(buf)
		if bytes.Equal(buf.Bytes(), o.b) {
			return o
		}
		arr2 := meow.Checksum(0, buf.Bytes())
		extra["t"+string(arr2[:])] = base + orig
		return c07RawObj{o.typ, buf.Bytes()}
	case packfile.ObjectCommit:
		if k != 0 {
			return c07RawObj{o.typ, []byte("garbage")}
		}
		_, com, err := objects.ReadCommitFrom(bytes.NewReader(o.b))
		if err != nil {
			return c07RawObj{o.typ, []byte("garbage")}
		}
		arr := meow.Checksum(0, o.b)
		orig, ok := w.comID[string(arr[:])]
		if !ok {
			orig = extra["c"+string(arr[:])]
		}
		com.Parents = append(com.Parents, bytes.Repeat([]byte{0x77}, 16))
		buf := bytes.NewBuffer(nil)
		com.WriteTo(buf)
		arr2 := meow.Checksum(0, buf.Bytes())
		extra["c"+string(arr2[:])] = 1000 + orig
		return c07RawObj{o.typ, buf.Bytes()}
	case packfile.ObjectBlock:
		return c07RawObj{o.typ, s2.Encode(nil, []byte{0, 0})}
	}
	return o
}

func (w *c07World) absRaw(o c07RawObj, extra map[string]int) *xt.T {
	switch o.typ {
	case packfile.ObjectCommit:
		if _, _, err := objects.ReadCommitFrom(bytes.NewReader(o.b)); err != nil {
			return xt.N(xt.LI(0), xt.LI(0))
		}
		arr := meow.Checksum(0, o.b)
		return w.absObj("commit", hex.EncodeToString(arr[:]), extra)
	case packfile.ObjectTable:
		if _, _, err := objects.ReadTableFrom(bytes.NewReader(o.b)); err != nil {
			return xt.N(xt.LI(0), xt.LI(0))
		}
		arr := meow.Checksum(0, o.b)
		return w.absObj("table", hex.EncodeToString(arr[:]), extra)
	case packfile.ObjectBlock:
		dec, err := s2.Decode(nil, o.b)
		if err != nil || objects.ValidateBlockBytes(dec) != nil {
			return xt.N(xt.LI(0), xt.LI(0))
		}
		arr := meow.Checksum(0, dec)
		return w.absObj("block", hex.EncodeToString(arr[:]), extra)
	}
	return xt.N(xt.LI(0), xt.LI(0))
}

func c07RunHostile(s *c07Scn, w *c07World) (*xt.T, Verdict) {
	dst := w.buildDst()
	closedBefore, _ := c07Closed(dst)
	usableBefore := c07UsableSet(dst)
	savedTables := map[string]bool{}
	hook := apiutils.WithReceiverSaveObjectHook(func(objType int, sum []byte) {
		if objType == packfile.ObjectTable {
			savedTables[string(sum)] = true
		}
	})
	coms, tbs, commons, expected := w.senderArgs()
	extra := map[string]int{}
	v := OK()
	bad := func(class, format string, a ...interface{}) {
		if v.OK {
			v = Fail(class, format, a...)
		}
	}
	// the honest stream
	objs := []c07RawObj{}
	sender, err := apiutils.NewObjectSender(w.src, coms, tbs, commons, 1<<40)
	if err != nil {
		return xt.N(xt.LI(2), xt.Bool(false), xt.N(), w.final(dst, extra)), v
	}
	buf := bytes.NewBuffer(nil)
	for iter := 0; ; iter++ {
		buf.Reset()
		done, _, err := sender.WriteObjects(buf, nil)
		if err != nil {
			return xt.N(xt.LI(2), xt.Bool(false), xt.N(), w.final(dst, extra)), v
		}
		pr, err := packfile.NewPackfileReader(io.NopCloser(bytes.NewReader(buf.Bytes())))
		if err != nil {
			panic(err)
		}
		for {
			ot, b, err := pr.ReadObject()
			if err == io.EOF {
				break
			}
			if err != nil {
				panic(err)
			}
			objs = append(objs, c07RawObj{ot, append([]byte{}, b...)})
		}
		if done || iter > 100000 {
			break
		}
	}
	// edits
	for _, op := range s.ops {
		i := op[1]
		if i >= len(objs) {
			continue
		}
		switch op[0] {
		case 0:
			objs = append(objs[:i:i], objs[i+1:]...)
		case 1:
			j := op[2]
			if j < len(objs) {
				objs[i], objs[j] = objs[j], objs[i]
			}
		case 2:
			objs[i] = c07Tamper(w, objs[i], op[2], extra)
		case 3:
			objs = append(objs, objs[i])
		}
	}
	// re-frame with the real writer and receive
	receiver := apiutils.NewObjectReceiver(dst, expected, logr.Discard(), hook)
	status := 0
	recvDone := false
	packs := xt.N()
	feed := func(chunk []c07RawObj) bool {
		buf.Reset()
		pw, err := packfile.NewPackfileWriter(buf)
		if err != nil {
			panic(err)
		}
		pk := xt.N()
		for _, o := range chunk {
			if _, err := pw.WriteObject(o.typ, o.b); err != nil {
				panic(err)
			}
			pk.Add(w.absRaw(o, extra))
		}
		packs.Add(pk)
		pr, err := packfile.NewPackfileReader(io.NopCloser(bytes.NewReader(buf.Bytes())))
		if err != nil {
			panic(err)
		}
		rdone, err := receiver.Receive(pr, nil)
		if err != nil {
			status = 1
			return false
		}
		recvDone = rdone
		return true
	}
	if len(objs) == 0 {
		feed(nil)
	}
	for i := 0; i < len(objs); i += s.cut {
		j := i + s.cut
		if j > len(objs) {
			j = len(objs)
		}
		if !feed(objs[i:j]) {
			break
		}
	}
	obs := xt.N(xt.LI(status), xt.Bool(status == 0 && recvDone), packs, w.final(dst, extra))
	if closedBefore {
		if ok, msg := c07Closed(dst); !ok {
			bad("parent-missing", "%s", msg)
		}
	}
	for k := range savedTables {
		usableBefore[k] = true
	}
	if ok, msg := c07TablesUsable(dst, usableBefore); !ok {
		bad("table-unusable", "%s", msg)
	}
	// a table object that was not there before can only have come from an accepted table
	after, _ := objects.GetAllTableKeys(dst)
	beforeKeys := w.buildDst()
	for _, k := range after {
		if !objects.TableExist(beforeKeys, k) && !usableBefore[string(k)] {
			if ok, msg := c07TableUsable(dst, k); !ok {
				bad("table-unusable", "new table: %s", msg)
			}
		}
	}
	return obs, v
}

// ---------------------------------------------------------------------------
// Gen

// table pool: small tables, multi-block tables sharing their first block, the same rows
// under two primary keys, an empty table, an exactly-255-row table
var c07Pool = []c07Tbl{
	{0, []int{101}},
	{0, []int{102}},
	{0, []int{1, 103}},
	{0, []int{1, 104}},
	{1, []int{101}},
	{0, []int{}},
	{0, []int{1, 2, 105}},
	{0, []int{2}},
	{1, []int{1, 103}},
	{0, []int{106}},
	// key not the leading column / key columns last and in another order than the header
	{2, []int{1, 103}},
	{3, []int{1, 2, 105}},
	{2, []int{101}},
	{2, []int{1, 104}},
	{3, []int{102}},
}

// author zones (minutes east of UTC): whole hours, positive and NEGATIVE fractional hours, the
// +14h / -12h ends of the scale, one minute west
var c07Zones = []int{0, 420, -210, -570, 345, 840, -720, -1, 765, -150, 330, -1439}

func c07Seq0(n int) []int {
	r := make([]int, n)
	for i := range r {
		r[i] = i
	}
	return r
}

// cumulative WriteObject sizes along the honest object stream (for size limits that fall
// exactly on an object boundary)
func c07CumSizes(s *c07Scn) []uint64 {
	w := c07BuildWorld(s)
	coms, tbs, commons, _ := w.senderArgs()
	sender, err := apiutils.NewObjectSender(w.src, coms, tbs, commons, 1<<40)
	if err != nil {
		return nil
	}
	out := []uint64{}
	var cum uint64
	buf := bytes.NewBuffer(nil)
	for iter := 0; iter < 100000; iter++ {
		buf.Reset()
		done, info, err := sender.WriteObjects(buf, nil)
		if err != nil {
			return out
		}
		for _, o := range info.Objects {
			sum, _ := hex.DecodeString(o[1])
			switch o[0] {
			case "commit":
				cum += uint64(w.comSize[w.comID[string(sum)]])
			case "table":
				cum += uint64(w.tblSize[w.tblID[string(sum)]])
			default:
				cum += uint64(w.blkSize[w.blkID[string(sum)]])
			}
			out = append(out, cum)
		}
		if done {
			break
		}
	}
	return out
}

var c07Maxes = []uint64{1, 17, 200, 4096, 1 << 40}

type c07Gen struct {
	ctx   *Ctx
	cases []Case
}

func (g *c07Gen) add(tag string, nontrivial bool, s *c07Scn) {
	w := c07BuildWorld(s)
	g.cases = append(g.cases, Case{Tag: tag, Nontrivial: nontrivial, C: c07Encode(s, w)})
	g.ctx.Count("cases_" + tag)
	if s.tag == 0 {
		mk := "max_other"
		for _, m := range c07Maxes {
			if s.max == m {
				mk = fmt.Sprintf("max_%d", m)
			}
		}
		g.ctx.Count(mk)
		if len(s.preC)+len(s.preT)+len(s.preB) == 0 {
			g.ctx.Count("dst_empty")
		}
		if len(s.preB) > 0 {
			g.ctx.Count("dst_bare_blocks")
		}
		if len(s.preT) > 0 {
			g.ctx.Count("dst_tables")
		}
		if len(s.preC) > 0 {
			g.ctx.Count("dst_commits")
		}
		if len(s.commons) > 0 {
			g.ctx.Count("with_commons")
		}
	}
	for _, c := range s.coms {
		if len(c.parents) >= 2 {
			g.ctx.Count("merge_commits")
		}
	}
}

// ancestors-or-self of the given commits
func c07Anc(coms []c07Com, from []int) map[int]bool {
	seen := map[int]bool{}
	var rec func(i int)
	rec = func(i int) {
		if seen[i] {
			return
		}
		seen[i] = true
		for _, p := range coms[i].parents {
			rec(p)
		}
	}
	for _, f := range from {
		rec(f)
	}
	return seen
}

// use the repository's own negotiation code to compute (commits to send, tables to send, commons)
func c07Finder(s *c07Scn, wants, haves []int, depth int) (tosend, tbs, commons []int, ok bool) {
	w := c07BuildWorld(&c07Scn{tbls: s.tbls, coms: s.coms})
	db, err := sql.Open("sqlite3", ":memory:")
	if err != nil {
		panic(err)
	}
	defer db.Close()
	db.SetMaxOpenConns(1)
	for _, stmt := range refsql.CreateTableStmts {
		if _, err := db.Exec(stmt); err != nil {
			panic(err)
		}
	}
	rs := refsql.NewStore(db)
	// one branch per childless commit
	hasChild := map[int]bool{}
	for _, c := range s.coms {
		for _, p := range c.parents {
			hasChild[p] = true
		}
	}
	for i := range s.coms {
		if !hasChild[i] {
			if err := ref.CommitHead(rs, fmt.Sprintf("b%d", i), w.coms[i].Sum, w.coms[i], nil); err != nil {
				panic(err)
			}
		}
	}
	f := apiutils.NewClosedSetsFinder(w.all, rs, depth)
	ws, hs := [][]byte{}, [][]byte{}
	for _, i := range wants {
		ws = append(ws, w.coms[i].Sum)
	}
	for _, i := range haves {
		hs = append(hs, w.coms[i].Sum)
	}
	if _, err := f.Process(ws, hs, true); err != nil {
		return nil, nil, nil, false
	}
	cs, err := f.CommitsToSend()
	if err != nil {
		return nil, nil, nil, false
	}
	for _, c := range cs {
		tosend = append(tosend, w.comID[string(c.Sum)])
	}
	ts, err := f.TablesToSend()
	if err != nil {
		return nil, nil, nil, false
	}
	for t := range ts {
		tbs = append(tbs, w.tblID[t])
	}
	sort.Ints(tbs)
	for _, c := range f.CommonCommmits() {
		commons = append(commons, w.comID[string(c)])
	}
	sort.Ints(commons)
	return tosend, tbs, commons, true
}

func (g *c07Gen) randDag(n int, ntbl int) *c07Scn {
	ctx := g.ctx
	s := &c07Scn{}
	// tables: a random selection from the pool (repeats allowed: identical tables on several commits)
	perm := ctx.Rng.Perm(len(c07Pool))
	for i := 0; i < ntbl; i++ {
		s.tbls = append(s.tbls, c07Pool[perm[i%len(perm)]])
	}
	for i := 0; i < n; i++ {
		c := c07Com{tbl: ctx.Pick(ntbl)}
		if ctx.Pick(2) == 0 {
			c.tz = c07Zones[ctx.Pick(len(c07Zones))]
			ctx.Count("commits_with_zone")
		}
		if i > 0 {
			np := 1
			r := ctx.Pick(10)
			if r == 0 {
				np = 0
			} else if r >= 7 && i >= 2 {
				np = 2
			}
			ps := map[int]bool{}
			for len(ps) < np {
				// bias towards recent commits
				p := i - 1 - ctx.Pick(c07Min(i, 3))
				ps[p] = true
			}
			for p := range ps {
				c.parents = append(c.parents, p)
			}
			sort.Ints(c.parents)
		}
		s.coms = append(s.coms, c)
	}
	return s
}

func c07Min(a, b int) int {
	if a < b {
		return a
	}
	return b
}

func (g *c07Gen) subset(l []int, pct int) []int {
	out := []int{}
	for _, x := range l {
		if g.ctx.Pick(100) < pct {
			out = append(out, x)
		}
	}
	return out
}

// fill dstpre according to a destination class
func (g *c07Gen) dstClass(s *c07Scn, class int) {
	ctx := g.ctx
	anc := c07Anc(s.coms, s.commons)
	closedCommons := []int{}
	for i := range s.coms {
		if anc[i] {
			closedCommons = append(closedCommons, i)
		}
	}
	allChunks := []int{}
	seen := map[int]bool{}
	for _, t := range s.tbls {
		for _, ch := range t.chunks {
			k := c07Blk(t.pkv, ch)
			if !seen[k] {
				seen[k] = true
				allChunks = append(allChunks, k)
			}
		}
	}
	commonTbls := func() []int {
		out := []int{}
		for _, c := range closedCommons {
			out = append(out, s.coms[c].tbl)
		}
		return out
	}
	switch class {
	case 0: // commons (closed) with their tables, nothing else
		s.preC = closedCommons
		s.preT = commonTbls()
	case 1: // + some bare blocks
		s.preC = closedCommons
		s.preT = commonTbls()
		s.preB = g.subset(allChunks, 40)
	case 2: // + some other full tables
		s.preC = closedCommons
		s.preT = append(commonTbls(), g.subset(c07Seq0(len(s.tbls)), 40)...)
	case 3: // + both, and some of the commits to be sent already there (closed under parents)
		s.preC = closedCommons
		s.preT = append(commonTbls(), g.subset(c07Seq0(len(s.tbls)), 30)...)
		s.preB = g.subset(allChunks, 30)
		extraAnc := c07Anc(s.coms, g.subset(c07Seq0(len(s.coms)), 30))
		for i := range s.coms {
			if extraAnc[i] && !anc[i] {
				s.preC = append(s.preC, i)
			}
		}
	case 4: // shallow: common commits present, some of their tables missing
		s.preC = closedCommons
		s.preT = g.subset(commonTbls(), 50)
		s.preB = g.subset(allChunks, 20)
		ctx.Count("dst_shallow_commons")
	case 5: // commons full; every other table present as an arbitrary subset of its objects, kind by kind
		s.preC = closedCommons
		s.preT = commonTbls()
		isCommonTbl := map[int]bool{}
		for _, t := range s.preT {
			isCommonTbl[t] = true
		}
		for t, tb := range s.tbls {
			if isCommonTbl[t] {
				continue
			}
			if ctx.Pick(100) < 50 {
				s.preTO = append(s.preTO, t)
			}
			switch r := ctx.Pick(100); {
			case r < 20:
				s.preTI = append(s.preTI, t)
			case r < 40:
				s.preTP = append(s.preTP, t)
			case r < 55:
				s.preStale = append(s.preStale, t)
			case r < 65:
				s.preTI = append(s.preTI, t)
				s.preTP = append(s.preTP, t)
			}
			for j, k := range tb.chunks {
				if ctx.Pick(100) < 40 {
					s.preB = append(s.preB, c07Blk(tb.pkv, k))
				}
				if ctx.Pick(100) < 30 {
					s.preX = append(s.preX, [2]int{t, j})
				}
			}
		}
		ctx.Count("dst_partial_kinds")
	}
}

func genC07(ctx *Ctx) []Case {
	g := &c07Gen{ctx: ctx}
	P := c07Pool
	// ---- fixed witnesses
	// the probe of DESIGN section 8: two commits, three blocks, max = 1
	for _, mx := range c07Maxes {
		g.add("fixed", true, &c07Scn{tbls: []c07Tbl{P[2], P[3]}, coms: []c07Com{{0, nil, 0}, {1, []int{0}, 0}},
			tosend: []int{0, 1}, tbs: []int{0, 1}, max: mx})
	}
	// size limits falling exactly on object boundaries of the probe (and one byte either side)
	{
		probe := &c07Scn{tbls: []c07Tbl{P[2], P[3]}, coms: []c07Com{{0, nil, 0}, {1, []int{0}, 0}}, tosend: []int{0, 1}, tbs: []int{0, 1}}
		for _, cum := range c07CumSizes(probe) {
			for _, d := range []uint64{0, 1} {
				c := *probe
				c.max = cum + d
				g.add("fixed-boundary", true, &c)
			}
			c := *probe
			c.max = cum - 1
			g.add("fixed-boundary", true, &c)
		}
	}
	// identical table on several commits; same rows under another pk; empty table; 255-row table
	g.add("fixed", true, &c07Scn{tbls: []c07Tbl{P[0], P[1], P[0], P[4], P[5], P[7]},
		coms:   []c07Com{{0, nil, 0}, {1, nil, 0}, {2, []int{0, 1}, 0}, {3, []int{2}, 0}, {4, []int{3}, 0}, {5, []int{4}, 0}},
		tosend: c07Seq0(6), tbs: c07Seq0(6), max: 1})
	// common commit full at destination, child table shares its first block
	g.add("fixed", true, &c07Scn{tbls: []c07Tbl{P[2], P[3]}, coms: []c07Com{{0, nil, 0}, {1, []int{0}, 0}},
		tosend: []int{1}, tbs: []int{1}, commons: []int{0}, preC: []int{0}, preT: []int{0}, max: 17})
	// shallow common (loud): destination has commit 0 without its table; table 1 shares block 1 -> rejected
	g.add("fixed-shallow", true, &c07Scn{tbls: []c07Tbl{P[2], P[3]}, coms: []c07Com{{0, nil, 0}, {1, []int{0}, 0}},
		tosend: []int{1}, tbs: []int{1}, commons: []int{0}, preC: []int{0}, max: 200})
	// shallow common, the shared block happens to be there as a bare block -> accepted
	g.add("fixed-shallow", true, &c07Scn{tbls: []c07Tbl{P[2], P[3]}, coms: []c07Com{{0, nil, 0}, {1, []int{0}, 0}},
		tosend: []int{1}, tbs: []int{1}, commons: []int{0}, preC: []int{0}, preB: []int{1}, max: 200})
	// shallow common (silent): the sent commit has the very table of the shallow common commit
	g.add("fixed-shallow", true, &c07Scn{tbls: []c07Tbl{P[2]}, coms: []c07Com{{0, nil, 0}, {0, []int{0}, 0}},
		tosend: []int{1}, tbs: []int{0}, commons: []int{0}, preC: []int{0}, max: 200})
	// parent missing at the destination: not parent-first
	g.add("fixed-badorder", true, &c07Scn{tbls: []c07Tbl{P[0], P[1]}, coms: []c07Com{{0, nil, 0}, {1, []int{0}, 0}},
		tosend: []int{1, 0}, tbs: []int{0, 1}, max: 1})
	g.add("fixed-badorder", true, &c07Scn{tbls: []c07Tbl{P[0], P[1]}, coms: []c07Com{{0, nil, 0}, {1, []int{0}, 0}},
		tosend: []int{1}, tbs: []int{1}, max: 4096})
	// source lacks a table (shallow source) / lacks a block (sender error) / common commit unknown to the source
	g.add("fixed-src", true, &c07Scn{tbls: []c07Tbl{P[0], P[2]}, coms: []c07Com{{0, nil, 0}, {1, []int{0}, 0}},
		dropT: []int{1}, tosend: []int{0, 1}, tbs: []int{0, 1}, max: 1})
	g.add("fixed-src", true, &c07Scn{tbls: []c07Tbl{P[0], P[2]}, coms: []c07Com{{0, nil, 0}, {1, []int{0}, 0}},
		dropB: []int{103}, tosend: []int{0, 1}, tbs: []int{0, 1}, max: 1})
	g.add("fixed-src", true, &c07Scn{tbls: []c07Tbl{P[0], P[2]}, coms: []c07Com{{0, nil, 0}, {1, []int{0}, 0}},
		dropB: []int{103}, tosend: []int{0, 1}, tbs: []int{0, 1}, max: 1 << 40})
	// tables not in tablesToSend (depth-limited fetch): commits arrive shallow
	g.add("fixed", true, &c07Scn{tbls: []c07Tbl{P[0], P[1], P[6]}, coms: []c07Com{{0, nil, 0}, {1, []int{0}, 0}, {2, []int{1}, 0}},
		tosend: []int{0, 1, 2}, tbs: []int{2}, max: 200})
	// destination pre-populated per object kind: table object alone, with its blocks but no indices,
	// stale index/profile, single block indices, indices without the table
	for _, mx := range []uint64{1, 1 << 40} {
		pp := func() *c07Scn {
			return &c07Scn{tbls: []c07Tbl{P[2], P[3]}, coms: []c07Com{{0, nil, 0}, {1, []int{0}, 0}}, tosend: []int{0, 1}, tbs: []int{0, 1}, max: mx}
		}
		for _, f := range []func(*c07Scn){
			func(c *c07Scn) { c.preTO = []int{0, 1} },
			func(c *c07Scn) { c.preTO = []int{0}; c.preB = []int{1, 103} },
			func(c *c07Scn) { c.preTO = []int{1}; c.preStale = []int{1}; c.preX = [][2]int{{1, 0}} },
			func(c *c07Scn) { c.preTI = []int{0}; c.preTP = []int{1}; c.preX = [][2]int{{0, 1}, {1, 1}} },
			func(c *c07Scn) { c.preStale = []int{0, 1}; c.preB = []int{104} },
			func(c *c07Scn) { // first commit common and full, the sent table's object already there, its own block not
				c.tosend, c.tbs, c.commons, c.preC, c.preT, c.preTO = []int{1}, []int{1}, []int{0}, []int{0}, []int{0}, []int{1}
			},
			func(c *c07Scn) { // shallow common + table object of the sent table present: the shared block is missing
				c.tosend, c.tbs, c.commons, c.preC, c.preTO = []int{1}, []int{1}, []int{0}, []int{0}, []int{1}
			},
		} {
			c := pp()
			f(c)
			g.add("fixed-partial", true, c)
		}
	}
	// key columns not leading / in another order, multi-block, shared first block; with and without a common commit
	for _, mx := range []uint64{200, 1 << 40} {
		g.add("fixed-keycols", true, &c07Scn{tbls: []c07Tbl{P[10], P[11], P[13], P[12], P[14]},
			coms:   []c07Com{{0, nil, 0}, {1, []int{0}, 0}, {2, []int{1}, 0}, {3, []int{1, 2}, 0}, {4, []int{3}, 0}},
			tosend: c07Seq0(5), tbs: c07Seq0(5), max: mx})
		g.add("fixed-keycols", true, &c07Scn{tbls: []c07Tbl{P[10], P[11], P[13]},
			coms:   []c07Com{{0, nil, 0}, {1, []int{0}, 0}, {2, []int{1}, 0}},
			tosend: []int{1, 2}, tbs: []int{1, 2}, commons: []int{0}, preC: []int{0}, preT: []int{0}, max: mx})
	}
	// author zones: negative with minutes, the ends of the scale, one minute west; chain so that a commit
	// stored under another id breaks its child
	{
		coms := []c07Com{}
		for i, z := range c07Zones {
			c := c07Com{i % 2, nil, z}
			if i > 0 {
				c.parents = []int{i - 1}
			}
			coms = append(coms, c)
		}
		for _, mx := range []uint64{1, 1 << 40} {
			g.add("fixed-zone", true, &c07Scn{tbls: []c07Tbl{P[0], P[1]}, coms: coms, tosend: c07Seq0(len(coms)), tbs: []int{0, 1}, max: mx})
		}
	}
	// transit damage: every packfile of the probe at limits 1 and 2500 (several objects per packfile), cut before /
	// inside every object at every kind of position
	for _, mx := range []uint64{1, 2500, 1 << 40} {
		probe := &c07Scn{tbls: []c07Tbl{P[2], P[3]}, coms: []c07Com{{0, nil, 0}, {1, []int{0}, -210}}, tosend: []int{0, 1}, tbs: []int{0, 1}, max: mx}
		cums := c07CumSizes(probe)
		// objects per packfile at this limit
		per := []int{}
		var acc, last uint64
		n := 0
		for _, c := range cums {
			n++
			acc += c - last
			last = c
			if acc >= mx {
				per = append(per, n)
				n, acc = 0, 0
			}
		}
		if n > 0 {
			per = append(per, n)
		}
		for pi, cnt := range per {
			for j := 0; j < cnt; j++ {
				for _, where := range []int{9, 0, 1, 2, 3} {
					if !ctx.Thorough() && mx == 1 && where != 2 && where != 9 {
						continue
					}
					c := *probe
					c.tag, c.cutPack, c.cutObj, c.cutWhere = 2, pi, j, where
					g.add("fixed-truncated", true, &c)
				}
			}
		}
	}
	// nothing to send
	g.add("fixed", false, &c07Scn{tbls: []c07Tbl{P[0]}, coms: []c07Com{{0, nil, 0}}, max: 17})
	// hostile witnesses: rejected table must leave no table/index behind (fix 2b449a8), malformed tables (fix 427cc6f)
	base := func() *c07Scn {
		return &c07Scn{tag: 1, tbls: []c07Tbl{P[2], P[3]}, coms: []c07Com{{0, nil, 0}, {1, []int{0}, 0}},
			tosend: []int{0, 1}, tbs: []int{0, 1}, cut: 3}
	}
	// stream: b1 b103 T0 c0 b104 T1 c1
	for k := 0; k <= 4; k++ { // kind 4: pk index == number of columns, behind its valid blocks
		h := base()
		h.ops = [][]int{{2, 2, k}}
		g.add("fixed-hostile", true, h)
	}
	for _, pool := range []int{10, 11} { // the same boundary on tables whose key is not leading
		h := &c07Scn{tag: 1, tbls: []c07Tbl{P[pool]}, coms: []c07Com{{0, nil, 0}}, tosend: []int{0}, tbs: []int{0}, cut: 100}
		for k := 0; k <= 4; k++ {
			c := *h
			c.ops = [][]int{{2, len(P[pool].chunks), k}}
			g.add("fixed-hostile", true, &c)
		}
	}
	for _, ops := range [][][]int{
		{{0, 0}},         // drop the shared block: T0 rejected
		{{0, 2}},         // drop T0: commit 0 stored shallow, then T1 fine
		{{0, 3}},         // drop commit 0: commit 1 rejected (parent gate)
		{{1, 3, 6}},      // child before parent
		{{1, 0, 2}},      // table before its first block
		{{2, 3, 0}},      // commit with an unknown extra parent
		{{2, 6, 1}},      // undecodable commit
		{{2, 1, 0}},      // invalid block bytes
		{{3, 3}, {3, 2}}, // duplicates
		{{0, 4}, {3, 2}}, // T1 without its own block
		{},               // unedited
	} {
		for _, cut := range []int{1, 100} {
			h := base()
			h.ops = ops
			h.cut = cut
			g.add("fixed-hostile", true, h)
		}
	}

	// ---- exhaustive small scope: every DAG on <= 3 commits (<= 2 parents), tables from 3 pool entries,
	// send everything, all 5 size limits in thorough (2 in quick), empty destination or first commit common
	small := []c07Tbl{P[0], P[2], P[3]}
	nmax := 3
	var parentSets func(i int) [][]int
	parentSets = func(i int) [][]int {
		out := [][]int{nil}
		for a := 0; a < i; a++ {
			out = append(out, []int{a})
			for b := a + 1; b < i; b++ {
				out = append(out, []int{a, b})
			}
		}
		return out
	}
	var rec func(coms []c07Com)
	rec = func(coms []c07Com) {
		if len(coms) > 0 {
			maxes := []uint64{1, 1 << 40}
			if ctx.Thorough() {
				maxes = c07Maxes
			}
			for _, mx := range maxes {
				cs := append([]c07Com{}, coms...)
				g.add("exh", len(coms) >= 2, &c07Scn{tbls: small, coms: cs, tosend: c07Seq0(len(cs)), tbs: c07Seq0(3), max: mx})
				if len(cs) >= 2 {
					g.add("exh", true, &c07Scn{tbls: small, coms: cs, tosend: c07Seq0(len(cs))[1:], tbs: c07Seq0(3), commons: []int{0},
						preC: []int{0}, preT: []int{cs[0].tbl}, max: mx})
				}
			}
		}
		if len(coms) == nmax {
			return
		}
		for _, ps := range parentSets(len(coms)) {
			for t := 0; t < 3; t++ {
				if len(coms) == nmax-1 && !ctx.Thorough() && (t+len(ps)+len(coms))%2 == 1 {
					continue // quick tier: half of the last level
				}
				rec(append(append([]c07Com{}, coms...), c07Com{t, ps, 0}))
			}
		}
	}
	rec(nil)

	// ---- exhaustive over the destination's content, object kind by object kind: one commit whose two-block
	// table is sent; every subset of {table object, table index, profile, block 0, block 1, block index 0,
	// block index 1} already at the destination (128 subsets); in thorough also stale index/profile and limit 1
	for mask := 0; mask < 128; mask++ {
		mk := func(mx uint64, stale bool) *c07Scn {
			c := &c07Scn{tbls: []c07Tbl{P[2]}, coms: []c07Com{{0, nil, 0}}, tosend: []int{0}, tbs: []int{0}, max: mx}
			if mask&1 != 0 {
				c.preTO = []int{0}
			}
			if stale {
				if mask&6 != 0 {
					c.preStale = []int{0}
				}
			} else {
				if mask&2 != 0 {
					c.preTI = []int{0}
				}
				if mask&4 != 0 {
					c.preTP = []int{0}
				}
			}
			if mask&8 != 0 {
				c.preB = append(c.preB, 1)
			}
			if mask&16 != 0 {
				c.preB = append(c.preB, 103)
			}
			if mask&32 != 0 {
				c.preX = append(c.preX, [2]int{0, 0})
			}
			if mask&64 != 0 {
				c.preX = append(c.preX, [2]int{0, 1})
			}
			return c
		}
		g.add("exh-partial", true, mk(1<<40, false))
		if ctx.Thorough() {
			g.add("exh-partial", true, mk(1, false))
			if mask&6 != 0 {
				g.add("exh-partial", true, mk(1<<40, true))
			}
		}
	}

	// ---- random
	n := 260
	if ctx.Thorough() {
		n = 5000
	}
	for it := 0; it < n; it++ {
		nc := 1 + ctx.Pick(12)
		s := g.randDag(nc, 1+ctx.Pick(5))
		mode := ctx.Pick(10)
		okCase := true
		switch {
		case mode < 4: // negotiated the way the real callers do
			wants := []int{nc - 1}
			if nc > 2 && ctx.Pick(3) == 0 {
				wants = append(wants, ctx.Pick(nc-1))
			}
			haves := []int{}
			if nc > 1 && ctx.Pick(4) != 0 {
				haves = g.subset(c07Seq0(nc-1), 30)
			}
			depth := 0
			if ctx.Pick(4) == 0 {
				depth = 1 + ctx.Pick(2)
			}
			s.tosend, s.tbs, s.commons, okCase = c07Finder(s, wants, haves, depth)
			ctx.Count("negotiated")
			if depth > 0 {
				ctx.Count("negotiated_depth_limited")
			}
		default: // hand-picked: commons = a random set, send the rest of some closure parent-first
			if nc > 1 && ctx.Pick(3) != 0 {
				s.commons = g.subset(c07Seq0(nc-1), 25)
			}
			anc := c07Anc(s.coms, s.commons)
			want := c07Anc(s.coms, []int{nc - 1})
			if ctx.Pick(3) == 0 {
				want = c07Anc(s.coms, c07Seq0(nc))
			}
			for i := 0; i < nc; i++ {
				if want[i] && !anc[i] {
					s.tosend = append(s.tosend, i)
				}
			}
			if ctx.Pick(6) == 0 && len(s.tosend) > 0 { // duplicate entry, as the finder produces for diamonds
				s.tosend = append(s.tosend, s.tosend[ctx.Pick(len(s.tosend))])
			}
			s.tbs = c07Seq0(len(s.tbls))
			if ctx.Pick(5) == 0 {
				s.tbs = g.subset(s.tbs, 60)
			}
		}
		if !okCase {
			ctx.Count("finder_refused")
			continue
		}
		s.max = c07Maxes[ctx.Pick(len(c07Maxes))]
		if ctx.Pick(8) == 0 {
			s.max = uint64(2 + ctx.Pick(9000))
		}
		if ctx.Pick(4) == 0 { // exactly on (or one byte around) an object boundary of the stream
			if cums := c07CumSizes(s); len(cums) > 0 {
				s.max = cums[ctx.Pick(len(cums))] + uint64(ctx.Pick(3)) - 1
				ctx.Count("max_on_object_boundary")
			}
		}
		class := ctx.Pick(6)
		g.dstClass(s, class)
		// occasional precondition violations
		tag := "rand"
		switch ctx.Pick(14) {
		case 0:
			if len(s.tosend) >= 2 {
				i, j := ctx.Pick(len(s.tosend)), ctx.Pick(len(s.tosend))
				s.tosend[i], s.tosend[j] = s.tosend[j], s.tosend[i]
				tag = "rand-shuffled"
			}
		case 1:
			s.dropT = []int{ctx.Pick(len(s.tbls))}
			tag = "rand-srcdrop"
		case 2:
			if len(s.tbls[0].chunks) > 0 {
				s.dropB = []int{c07Blk(s.tbls[0].pkv, s.tbls[0].chunks[0])}
				tag = "rand-srcdrop"
			}
		}
		if class == 4 {
			tag = "rand-shallow"
		}
		if class == 5 && tag == "rand" {
			tag = "rand-partial"
		}
		if ctx.Pick(4) == 0 { // hostile variant of the same scenario
			h := *s
			h.tag = 1
			h.cut = 1 + ctx.Pick(6)
			nops := 1 + ctx.Pick(3)
			for k := 0; k < nops; k++ {
				i := ctx.Pick(3 * nc)
				switch ctx.Pick(4) {
				case 0:
					h.ops = append(h.ops, []int{0, i})
				case 1:
					h.ops = append(h.ops, []int{1, i, ctx.Pick(3 * nc)})
				case 2:
					h.ops = append(h.ops, []int{2, i, ctx.Pick(5)})
				default:
					h.ops = append(h.ops, []int{3, i})
				}
			}
			g.add("rand-hostile", true, &h)
		}
		if tag == "rand" && ctx.Pick(3) == 0 && len(s.tosend) > 0 { // the same transfer with one packfile truncated in transit
			tr := *s
			tr.tag = 2
			tr.cutPack = ctx.Pick(4)
			tr.cutObj = ctx.Pick(4)
			tr.cutWhere = []int{9, 0, 1, 2, 3, 2, 3}[ctx.Pick(7)]
			g.add("rand-truncated", true, &tr)
		}
		g.add(tag, len(s.tosend) >= 1, s)
	}
	return g.cases
}
