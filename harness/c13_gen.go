package main

import (
	"bytes"
	"encoding/hex"
	"fmt"
	"io"
	"os"
	"path/filepath"
	"sort"

	"github.com/pckhoi/meow"
	"github.com/spf13/viper"
	wrgl "github.com/wrgl/wrgl/cmd/wrgl"
	apiutils "github.com/wrgl/wrgl/pkg/api/utils"
	"github.com/wrgl/wrgl/pkg/encoding/packfile"
	"github.com/wrgl/wrgl/pkg/local"
	"github.com/wrgl/wrgl/pkg/objects"
	objmock "github.com/wrgl/wrgl/pkg/objects/mock"
	"github.com/wrgl/wrgl/pkg/ref"

	"verifharness/xt"
)

// ---------------------------------------------------------------- generator for C13

// rows of a table: key -> value variant
type c13Rows map[int]int

func c13Seq(k, n, v int) c13Rows {
	r := c13Rows{}
	for i := 0; i < n; i++ {
		r[k+i] = v
	}
	return r
}

func (r c13Rows) with(o c13Rows) c13Rows {
	n := c13Rows{}
	for k, v := range r {
		n[k] = v
	}
	for k, v := range o {
		n[k] = v
	}
	return n
}

func (r c13Rows) without(k, n int) c13Rows {
	o := c13Rows{}
	for key, v := range r {
		if key < k || key >= k+n {
			o[key] = v
		}
	}
	return o
}

func (r c13Rows) keys() []int {
	ks := make([]int, 0, len(r))
	for k := range r {
		ks = append(ks, k)
	}
	sort.Ints(ks)
	return ks
}

// three-way merge by key; ok=false on a conflict
func c13Merge3(base, a, b c13Rows) (c13Rows, bool) {
	out := c13Rows{}
	all := map[int]bool{}
	for k := range base {
		all[k] = true
	}
	for k := range a {
		all[k] = true
	}
	for k := range b {
		all[k] = true
	}
	get := func(r c13Rows, k int) int {
		if v, ok := r[k]; ok {
			return v
		}
		return -1
	}
	for k := range all {
		x, y, z := get(base, k), get(a, k), get(b, k)
		var res int
		switch {
		case y == x:
			res = z
		case z == x:
			res = y
		case y == z:
			res = y
		default:
			return nil, false
		}
		if res >= 0 {
			out[k] = res
		}
	}
	return out, true
}

type c13Gen struct {
	ctx      *Ctx
	cases    []Case
	blockIDs map[string]int
}

// one case under construction
type c13CB struct {
	g     *c13Gen
	specs *xt.T
	seen  map[string]bool
	setup *xt.T
	heads map[int]*xt.T // abstract refs, maintained for completed steps
}

func (g *c13Gen) newCase() *c13CB {
	return &c13CB{g: g, specs: xt.N(), seen: map[string]bool{}, setup: xt.N(), heads: map[int]*xt.T{}}
}

// table returns the abstract table of a row set and records how to realise it
func (cb *c13CB) table(rows c13Rows) *xt.T {
	ks := rows.keys()
	var abs [][2]int
	for i := 0; i < len(ks); i += 255 {
		j := i + 255
		if j > len(ks) {
			j = len(ks)
		}
		var sig bytes.Buffer
		for _, k := range ks[i:j] {
			fmt.Fprintf(&sig, "%d:%d,", k, rows[k])
		}
		id, ok := cb.g.blockIDs[sig.String()]
		if !ok {
			id = len(cb.g.blockIDs) + 1
			cb.g.blockIDs[sig.String()] = id
		}
		abs = append(abs, [2]int{id, id})
	}
	t := c13MkTable(0, abs)
	if !cb.seen[t.String()] {
		cb.seen[t.String()] = true
		runs := xt.N()
		for i := 0; i < len(ks); {
			j := i
			for j+1 < len(ks) && ks[j+1] == ks[j]+1 && rows[ks[j+1]] == rows[ks[i]] {
				j++
			}
			runs.Add(xt.N(xt.LI(ks[i]), xt.LI(j-i+1), xt.LI(rows[ks[i]])))
			i = j + 1
		}
		cb.specs.Add(xt.N(t, runs, xt.LI(0)))
	}
	return t
}

// crafted table over existing block / index ids
func (cb *c13CB) crafted(rows [][2]int) *xt.T {
	t := c13MkTable(0, rows)
	if !cb.seen[t.String()] {
		cb.seen[t.String()] = true
		cb.specs.Add(xt.N(t, xt.N(), xt.LI(1)))
	}
	return t
}

func c13OpCommit(r int, t *xt.T, nonce int) *xt.T { return xt.N(xt.LI(0), xt.LI(r), t, xt.LI(nonce)) }
func c13OpCommitTable(r int, t *xt.T, nonce int) *xt.T {
	return xt.N(xt.LI(1), xt.LI(r), t, xt.LI(nonce))
}
func c13OpDelHead(r int) *xt.T { return xt.N(xt.LI(2), xt.LI(r)) }
func c13OpMerge(r int, others []*xt.T, t *xt.T, nonce int) *xt.T {
	return xt.N(xt.LI(3), xt.LI(r), xt.N(others...), t, xt.LI(nonce))
}
func c13OpNoFF(r int, o *xt.T, nonce int) *xt.T { return xt.N(xt.LI(4), xt.LI(r), o, xt.LI(nonce)) }
func c13OpFF(r int, o *xt.T) *xt.T              { return xt.N(xt.LI(5), xt.LI(r), o) }
func c13OpFetch(objs []*xt.T, upd []*xt.T) *xt.T {
	return xt.N(xt.LI(6), xt.N(objs...), xt.N(upd...))
}
func c13OpRealFetch(objs []*xt.T, upd []*xt.T) *xt.T {
	return xt.N(xt.LI(8), xt.N(objs...), xt.N(upd...))
}
func c13OpPull(r, rr int, objs []*xt.T, c *xt.T, force bool, t *xt.T, nonce int) *xt.T {
	return xt.N(xt.LI(9), xt.LI(r), xt.LI(rr), xt.N(objs...), c, xt.Bool(force), t, xt.LI(nonce))
}
func c13OpPrune() *xt.T                       { return xt.N(xt.LI(7)) }
func c13Upd(r int, c *xt.T, force bool) *xt.T { return xt.N(xt.LI(r), c, xt.Bool(force)) }
func c13PBlock(b int) *xt.T                   { return xt.N(xt.LI(0), xt.LI(b)) }
func c13PTable(t *xt.T) *xt.T                 { return xt.N(xt.LI(1), t) }
func c13PCommit(c *xt.T) *xt.T                { return xt.N(xt.LI(2), c) }
func c13TableBlocks(t *xt.T) (bs []int) {
	for _, r := range t.Kids[1].Kids {
		bs = append(bs, int(r.Kids[0].N))
	}
	return
}

// step adds a completed setup step and tracks the abstract heads
func (cb *c13CB) step(op *xt.T) { cb.setup.Add(xt.N(op, xt.N())) }
func (cb *c13CB) crashed(op *xt.T, n int) {
	cb.setup.Add(xt.N(op, xt.N(xt.LI(n))))
}

// doCommit: completed commit on branch r, returns the abstract commit
func (cb *c13CB) doCommit(r int, rows c13Rows, nonce int) *xt.T {
	t := cb.table(rows)
	var ps []*xt.T
	if h := cb.heads[r]; h != nil {
		ps = []*xt.T{h}
	}
	c := c13MkCid(t, ps, nonce)
	cb.step(c13OpCommit(r, t, nonce))
	cb.heads[r] = c
	return c
}

// branch r created at commit c (what `wrgl pull` of a new branch / `wrgl branch` does: one ref write)
func (cb *c13CB) doBranch(r int, c *xt.T) {
	cb.step(c13OpFetch(nil, []*xt.T{c13Upd(r, c, true)}))
	cb.heads[r] = c
}

func (cb *c13CB) doDelHead(r int) {
	cb.step(c13OpDelHead(r))
	delete(cb.heads, r)
}

// orphanDAG: the commits of dag (parents = indices of earlier commits, any of 0..2) are fetched
// through the real ObjectSender sequence under one branch per tip, then those branches are
// deleted: an unreferenced sub-DAG with forks and merges. Returns the abstract commits.
func (cb *c13CB) orphanDAG(dag [][]int, tables []c13Rows, nn func() int) []*xt.T {
	cs := make([]*xt.T, len(dag))
	hasChild := make([]bool, len(dag))
	for i, ps := range dag {
		var pc []*xt.T
		for _, p := range ps {
			pc = append(pc, cs[p])
			hasChild[p] = true
		}
		cs[i] = c13MkCid(cb.table(tables[i%len(tables)]), pc, nn())
	}
	seq := cb.senderSeq(cs, nil)
	var upd []*xt.T
	var tips []int
	r := 1
	for i := range dag {
		if !hasChild[i] && r < 10 {
			upd = append(upd, c13Upd(r, cs[i], true))
			tips = append(tips, r)
			r++
		}
	}
	cb.step(c13OpFetch(seq, upd))
	for _, t := range tips {
		cb.step(c13OpDelHead(t))
	}
	cb.g.ctx.Count("orphan_dags")
	cb.g.ctx.Info["orphan_dag_commits"] += len(dag)
	forks, merges := 0, 0
	nchild := make([]int, len(dag))
	for _, ps := range dag {
		if len(ps) > 1 {
			merges++
		}
		for _, p := range ps {
			nchild[p]++
		}
	}
	for _, n := range nchild {
		if n > 1 {
			forks++
		}
	}
	cb.g.ctx.Info["orphan_dag_forks"] += forks
	cb.g.ctx.Info["orphan_dag_merges"] += merges
	return cs
}

func (cb *c13CB) emit(tag string, nontrivial bool, op, op2 *xt.T, workers int, cli bool) {
	cb.emitScn(tag, nontrivial, op, op2, workers, cli, nil)
}

func (cb *c13CB) emitScn(tag string, nontrivial bool, op, op2 *xt.T, workers int, cli bool, scn *xt.T) {
	flags := xt.N(xt.LI(workers), xt.Bool(cli))
	if scn != nil {
		flags.Add(scn)
	}
	c := xt.N(cb.specs, cb.setup, op, op2, flags)
	cb.g.cases = append(cb.g.cases, Case{Tag: tag, Nontrivial: nontrivial, C: c})
	cb.g.ctx.Count("cases_" + tag)
	cb.g.ctx.Count(fmt.Sprintf("op_%s", c13OpName(op.Kids[0].N)))
	if workers > 1 {
		cb.g.ctx.Count("multi_worker")
	}
	if cli {
		cb.g.ctx.Count("cli_runs")
	}
	for _, s := range cb.setup.Kids {
		if len(s.Kids[1].Kids) == 1 {
			cb.g.ctx.Count("setup_steps_crashed")
		}
	}
}

// the packfile object sequence the real ObjectSender produces for sending [toSend] (oldest first)
// to a receiver that has [common]
func (cb *c13CB) senderSeq(toSend, common []*xt.T) []*xt.T {
	u := c13NewUniverse(cb.specs)
	remote := objmock.NewStore()
	var put func(c *xt.T)
	put = func(c *xt.T) {
		for _, p := range c.Kids[1].Kids {
			put(p)
		}
		sum := u.sumOfCid(c)
		remote.Set(append([]byte("com/"), sum...), u.comBytes[string(sum)])
		ts := u.tableSum[c13TableKey(c.Kids[0])]
		remote.Set(append([]byte("tbl/"), ts...), u.tableBytes[string(ts)])
		for _, b := range c13TableBlocks(c.Kids[0]) {
			remote.Set(append([]byte("blk/"), u.blockSum[b]...), u.blockBytes[b])
		}
	}
	for _, c := range append(append([]*xt.T{}, toSend...), common...) {
		put(c)
	}
	var coms []*objects.Commit
	tables := map[string]struct{}{}
	for _, c := range toSend {
		com, err := objects.GetCommit(remote, u.sumOfCid(c))
		if err != nil {
			panic(err)
		}
		coms = append(coms, com)
		tables[string(com.Table)] = struct{}{}
	}
	var commonSums [][]byte
	for _, c := range common {
		commonSums = append(commonSums, u.sumOfCid(c))
	}
	maxSize := uint64(0)
	if cb.g.ctx.Pick(2) == 0 {
		maxSize = 1 // one object per packfile
	}
	sender, err := apiutils.NewObjectSender(remote, coms, tables, commonSums, maxSize)
	if err != nil {
		panic(err)
	}
	byBytes := map[string]int{}
	for b, bb := range u.blockBytes {
		byBytes[string(bb)] = b
	}
	var seq []*xt.T
	for {
		buf := bytes.NewBuffer(nil)
		done, _, err := sender.WriteObjects(buf, nil)
		if err != nil {
			panic(err)
		}
		pr, err := packfile.NewPackfileReader(io.NopCloser(bytes.NewReader(buf.Bytes())))
		if err != nil {
			panic(err)
		}
		for {
			ot, b, err := pr.ReadObject()
			if err != nil && err != io.EOF {
				panic(err)
			}
			switch ot {
			case packfile.ObjectBlock:
				seq = append(seq, c13PBlock(byBytes[string(b)]))
			case packfile.ObjectTable:
				arr := meow.Checksum(0, b)
				seq = append(seq, c13PTable(u.tableOf[string(arr[:])]))
			case packfile.ObjectCommit:
				arr := meow.Checksum(0, b)
				seq = append(seq, c13PCommit(u.cidOf[string(arr[:])]))
			}
			if err == io.EOF {
				break
			}
		}
		if done {
			break
		}
	}
	cb.g.ctx.Count("sender_sequences")
	return seq
}

func genC13(ctx *Ctx) []Case {
	g := &c13Gen{ctx: ctx, blockIDs: map[string]int{}}
	thorough := ctx.Thorough()

	// row sets used throughout
	rE := c13Rows{}
	rA := c13Seq(0, 3, 0)             // 1 block
	rA2 := rA.with(c13Seq(1, 1, 1))   // 1 block, one row changed
	rB := c13Seq(0, 260, 0)           // 2 blocks
	rB2 := rB.with(c13Seq(258, 1, 1)) // first block shared with rB
	rC := c13Seq(0, 511, 0)           // 3 blocks
	rD := c13Seq(1000, 4, 2)          // 1 block, disjoint
	pool := []c13Rows{rE, rA, rA2, rB, rB2, rD}
	nonce := 100
	nn := func() int { nonce++; return nonce }

	// ---- commit: witnesses of the fixed defect 2b449a8 (table before its index) and small scope
	for _, prev := range []c13Rows{nil, rA, rB} {
		for _, cur := range []c13Rows{rE, rA, rA2, rB, rB2, rC} {
			if len(cur) > 300 && prev != nil && !thorough {
				continue
			}
			cb := g.newCase()
			if prev != nil {
				cb.doCommit(0, prev, nn())
			}
			t := cb.table(cur)
			n := nn()
			cb.emit("commit", len(cur) > 0, c13OpCommit(0, t, n), c13OpCommit(0, t, nn()), 1, false)
		}
	}
	// several workers: the per-block pairs interleave
	for i := 0; i < 3; i++ {
		cb := g.newCase()
		cb.doCommit(0, rA, nn())
		rows := rC
		if i == 1 {
			rows = rB
		}
		t := cb.table(rows)
		n := nn()
		cb.emit("commit-mw", true, c13OpCommit(0, t, n), c13OpCommit(0, t, nn()), 4+i, false)
	}
	// on top of the garbage of an interrupted commit
	for _, cut := range []int{3, 6, 7} {
		cb := g.newCase()
		cb.doCommit(0, rA, nn())
		cb.crashed(c13OpCommit(0, cb.table(rB), nn()), cut)
		t := cb.table(rB2)
		n := nn()
		cb.emit("commit", true, c13OpCommit(0, t, n), c13OpCommit(0, t, nn()), 1, false)
	}
	// commitWithTable / DeleteHead (the branch.file path: temp branch, then the real branch)
	{
		cb := g.newCase()
		cb.doCommit(0, rA, nn())
		cb.doCommit(1, rB, nn())
		t := cb.table(rB)
		n := nn()
		cb.emit("commit-table", true, c13OpCommitTable(0, t, n), c13OpCommitTable(0, t, nn()), 1, false)
		cb2 := g.newCase()
		cb2.doCommit(0, rA, nn())
		cb2.doCommit(1, rB, nn())
		cb2.emit("commit-table", true, c13OpDelHead(1), c13OpDelHead(1), 1, false)
	}

	// ---- merge
	mergeCase := func(base, mine, theirs c13Rows, workers int, cli bool) {
		merged, ok := c13Merge3(base, mine, theirs)
		if !ok {
			panic("c13 gen: conflicting merge")
		}
		cb := g.newCase()
		c1 := cb.doCommit(0, base, nn())
		cb.doBranch(1, c1)
		cb.doCommit(0, mine, nn())
		c2 := cb.doCommit(1, theirs, nn())
		t := cb.table(merged)
		n := nn()
		cb.emit("merge", true, c13OpMerge(0, []*xt.T{c2}, t, n), c13OpMerge(0, []*xt.T{c2}, t, nn()), workers, cli)
	}
	mergeCase(rA, rA.with(c13Seq(0, 1, 1)), rA.with(c13Seq(2, 1, 2)), 1, true)
	mergeCase(rA, rA.with(c13Seq(0, 1, 1)), rA.with(c13Seq(10, 2, 0)), 1, false)
	mergeCase(rA, rA.with(c13Seq(10, 1, 1)), rA.without(2, 1), 1, false)
	mergeCase(rB, rB.with(c13Seq(3, 1, 1)), rB.with(c13Seq(259, 1, 2)), 1, false)
	mergeCase(rB, rB.with(c13Seq(3, 1, 1)), rB.with(c13Seq(300, 3, 0)), 3, false)
	if thorough {
		mergeCase(rC, rC.with(c13Seq(3, 1, 1)), rC.with(c13Seq(509, 1, 2)), 1, false)
		mergeCase(rB, rB.without(0, 2), rB.with(c13Seq(600, 300, 1)), 4, false)
	}
	// fast-forward, fast-forward to self, ff=never (both directions)
	for variant := 0; variant < 4; variant++ {
		cb := g.newCase()
		c1 := cb.doCommit(0, rA, nn())
		cb.doBranch(1, c1)
		c2 := cb.doCommit(1, rB, nn())
		n := nn()
		switch variant {
		case 0:
			cb.emit("merge-ff", true, c13OpFF(0, c2), c13OpFF(0, c2), 1, true)
		case 1:
			cb.emit("merge-ff", true, c13OpFF(1, c1), c13OpFF(1, c1), 1, false)
		case 2:
			cb.emit("merge-ff", true, c13OpNoFF(0, c2, n), c13OpNoFF(0, c2, nn()), 1, false)
		default:
			cb.emit("merge-ff", true, c13OpNoFF(1, c1, n), c13OpNoFF(1, c1, nn()), 1, false)
		}
	}

	// ---- fetch: packfile sequences of the real ObjectSender, then hostile orders
	{
		mk := func() (*c13CB, *xt.T, *xt.T, *xt.T) {
			cb := g.newCase()
			tA, tB, tB2 := cb.table(rA), cb.table(rB), cb.table(rB2)
			r1 := c13MkCid(tA, nil, nn())
			r2 := c13MkCid(tB, []*xt.T{r1}, nn())
			r3 := c13MkCid(tB2, []*xt.T{r2}, nn())
			return cb, r1, r2, r3
		}
		// everything at once
		cb, r1, r2, r3 := mk()
		seq := cb.senderSeq([]*xt.T{r1, r2, r3}, nil)
		op := c13OpFetch(seq, []*xt.T{c13Upd(10, r3, false)})
		cb.emit("fetch", true, op, op, 1, false)
		// on top of a local branch, two refs
		cb, r1, r2, r3 = mk()
		cb.doCommit(0, rD, nn())
		seq = cb.senderSeq([]*xt.T{r1, r2, r3}, nil)
		op = c13OpFetch(seq, []*xt.T{c13Upd(10, r3, false), c13Upd(11, r2, false)})
		cb.emit("fetch", true, op, op, 1, false)
		// incremental: r1 is common
		cb, r1, r2, r3 = mk()
		s1 := cb.senderSeq([]*xt.T{r1}, nil)
		cb.step(c13OpFetch(s1, []*xt.T{c13Upd(10, r1, false)}))
		seq = cb.senderSeq([]*xt.T{r2, r3}, []*xt.T{r1})
		op = c13OpFetch(seq, []*xt.T{c13Upd(10, r3, false)})
		cb.emit("fetch", true, op, op, 1, false)
		// re-fetch after an interrupted fetch (garbage + partial history present)
		for _, cut := range []int{2, 5, 9} {
			cb, r1, r2, r3 = mk()
			seq = cb.senderSeq([]*xt.T{r1, r2, r3}, nil)
			op = c13OpFetch(seq, []*xt.T{c13Upd(10, r3, false)})
			cb.crashed(op, cut)
			cb.emit("fetch", true, op, op, 1, false)
		}
		// nothing wanted: the advertised commit is already stored (fetched under another ref; or the
		// interrupted run got as far as the last commit): no transfer, only the ref is written
		cb, r1, r2, r3 = mk()
		seq = cb.senderSeq([]*xt.T{r1, r2, r3}, nil)
		cb.step(c13OpFetch(seq, []*xt.T{c13Upd(11, r3, false)}))
		op = c13OpFetch(seq, []*xt.T{c13Upd(10, r3, false)})
		cb.emit("fetch", true, op, op, 1, false)
		cb, r1, r2, r3 = mk()
		seq = cb.senderSeq([]*xt.T{r1, r2, r3}, nil)
		op = c13OpFetch(seq, []*xt.T{c13Upd(10, r3, false)})
		cb.crashed(op, c13SeqWrites(seq)) // every object written, the ref not yet
		cb.emit("fetch", true, op, op, 1, false)
		// non-fast-forward: rejected, then forced
		for _, force := range []bool{false, true} {
			cb, r1, r2, r3 = mk()
			tD := cb.table(rD)
			x := c13MkCid(tD, []*xt.T{r1}, nn())
			s1 := cb.senderSeq([]*xt.T{r1, x}, nil)
			cb.step(c13OpFetch(s1, []*xt.T{c13Upd(10, x, false)}))
			seq = cb.senderSeq([]*xt.T{r2, r3}, []*xt.T{r1})
			op = c13OpFetch(seq, []*xt.T{c13Upd(10, r3, force), c13Upd(11, r2, false)})
			cb.emit("fetch", true, op, op, 1, false)
		}
		// shallow: commits without their tables
		cb, r1, r2, _ = mk()
		op = c13OpFetch([]*xt.T{c13PCommit(r1), c13PCommit(r2)}, []*xt.T{c13Upd(10, r2, false)})
		cb.emit("fetch", true, op, op, 1, false)
		// hostile orders: table before its blocks; commit before its parent; table whose block index
		// sums do not match its blocks; objects after the error are not processed
		cb, r1, r2, _ = mk()
		tA := r1.Kids[0]
		bA := c13TableBlocks(tA)
		op = c13OpFetch([]*xt.T{c13PTable(tA), c13PBlock(bA[0]), c13PCommit(r1)}, []*xt.T{c13Upd(10, r1, false)})
		cb.emit("fetch-hostile", true, op, op, 1, false)
		cb, r1, r2, _ = mk()
		op = c13OpFetch([]*xt.T{c13PCommit(r2), c13PCommit(r1)}, []*xt.T{c13Upd(10, r2, false)})
		cb.emit("fetch-hostile", true, op, op, 1, false)
		cb, r1, r2, _ = mk()
		bB := c13TableBlocks(r2.Kids[0])
		bad := cb.crafted([][2]int{{bB[0], bB[0]}, {bB[1], bB[0]}})
		rbad := c13MkCid(bad, nil, nn())
		op = c13OpFetch([]*xt.T{c13PBlock(bB[0]), c13PBlock(bB[1]), c13PTable(bad), c13PCommit(rbad)},
			[]*xt.T{c13Upd(10, rbad, false)})
		cb.emit("fetch-hostile", true, op, op, 1, false)
		// the advertised commit never arrives
		cb, r1, r2, _ = mk()
		op = c13OpFetch(cb.senderSeq([]*xt.T{r1}, nil), []*xt.T{c13Upd(10, r2, false)})
		cb.emit("fetch-hostile", true, op, op, 1, false)
	}

	// ---- the real fetch.Fetch against the in-process reference server, on the recording stores:
	// every crash position and every single failing write (object AND ref writes), re-run with
	// healthy stores. Witness of the seeded defect "return before saveFetchedRefs when nothing was
	// fetched": the interrupted run stored the last commit but not the ref.
	{
		mk := func() (*c13CB, *xt.T, *xt.T, *xt.T) {
			cb := g.newCase()
			tA, tB, tB2 := cb.table(rA), cb.table(rB), cb.table(rB2)
			r1 := c13MkCid(tA, nil, nn())
			r2 := c13MkCid(tB, []*xt.T{r1}, nn())
			r3 := c13MkCid(tB2, []*xt.T{r2}, nn())
			return cb, r1, r2, r3
		}
		cb, r1, r2, r3 := mk()
		seq := cb.senderSeq([]*xt.T{r1, r2, r3}, nil)
		op := c13OpRealFetch(seq, []*xt.T{c13Upd(10, r3, false)})
		cb.emit("fetch-real", true, op, op, 1, false)
		// all objects arrived, the ref did not: the re-run has nothing to fetch and must still write it
		cb, r1, r2, r3 = mk()
		seq = cb.senderSeq([]*xt.T{r1, r2, r3}, nil)
		op = c13OpRealFetch(seq, []*xt.T{c13Upd(10, r3, false)})
		cb.crashed(c13OpFetch(seq, []*xt.T{c13Upd(10, r3, false)}), c13SeqWrites(seq))
		cb.emit("fetch-real", true, op, op, 1, false)
		// incremental (every local ref commit is known to the server, so r1 is acknowledged as common)
		cb, r1, r2, r3 = mk()
		s1 := cb.senderSeq([]*xt.T{r1}, nil)
		cb.step(c13OpFetch(s1, []*xt.T{c13Upd(10, r1, false)}))
		seq = cb.senderSeq([]*xt.T{r2, r3}, []*xt.T{r1})
		op = c13OpRealFetch(seq, []*xt.T{c13Upd(10, r3, false)})
		cb.emit("fetch-real", true, op, op, 1, false)
		// two branches, one object phase, two ref writes (a failing first ref write does not stop the second)
		cb, r1, r2, r3 = mk()
		seq = cb.senderSeq([]*xt.T{r1, r2, r3}, nil)
		op = c13OpRealFetch(seq, []*xt.T{c13Upd(10, r2, false), c13Upd(11, r3, false)})
		cb.emit("fetch-real", true, op, op, 1, false)
		// non-fast-forward of the tracking ref: rejected, then forced
		for _, force := range []bool{false, true} {
			cb, r1, r2, r3 = mk()
			tD := cb.table(rD)
			x := c13MkCid(tD, []*xt.T{r1}, nn())
			s1 := cb.senderSeq([]*xt.T{r1, x}, nil)
			cb.step(c13OpFetch(s1, []*xt.T{c13Upd(10, x, false)}))
			// the newest local ref commit x is unknown to the server: ClosedSetsFinder.findCommons stops at
			// the first have it cannot find, nothing is common, the whole history is sent again
			seq = cb.senderSeq([]*xt.T{r1, r2, r3}, nil)
			op = c13OpRealFetch(seq, []*xt.T{c13Upd(10, r3, force)})
			cb.emit("fetch-real", true, op, op, 1, false)
		}
		nreal := 3
		if thorough {
			nreal = 30
		}
		for i := 0; i < nreal; i++ {
			cb := g.newCase()
			k := 1 + ctx.Pick(4)
			var chain []*xt.T
			for j := 0; j < k; j++ {
				var ps []*xt.T
				if j > 0 {
					ps = []*xt.T{chain[j-1]}
				}
				chain = append(chain, c13MkCid(cb.table(pool[1+ctx.Pick(len(pool)-1)]), ps, nn()))
			}
			have := ctx.Pick(k) // the first `have` commits are already here
			var common []*xt.T
			if have > 0 {
				s1 := cb.senderSeq(chain[:have], nil)
				cb.step(c13OpFetch(s1, []*xt.T{c13Upd(10, chain[have-1], false)}))
				common = []*xt.T{chain[have-1]}
			}
			seq := cb.senderSeq(chain[have:], common)
			op := c13OpRealFetch(seq, []*xt.T{c13Upd(10, chain[k-1], false)})
			if ctx.Pick(3) == 0 {
				cb.crashed(c13OpFetch(seq, []*xt.T{c13Upd(10, chain[k-1], false)}), ctx.Pick(c13SeqWrites(seq)+1))
			}
			cb.emit("fetch-real", true, op, op, 1, false)
		}
	}

	// ---- `wrgl pull` through the real CLI against the reference server: a crash right before every
	// ref-store write (remote-tracking ref, local branch), then re-run; for a branch that does not exist
	// locally yet (also: the tracking ref already there from an earlier fetch / interrupted pull) and for
	// an existing one (up to date, fast-forward, diverged = real merge, rejected / forced tracking ref)
	{
		pullCase := func(variant int, chainLen int) {
			cb := g.newCase()
			tabs := []c13Rows{rA, rA.with(c13Seq(2, 1, 2)), rB, rB2, rD}
			var chain []*xt.T
			for j := 0; j < chainLen; j++ {
				var ps []*xt.T
				if j > 0 {
					ps = []*xt.T{chain[j-1]}
				}
				chain = append(chain, c13MkCid(cb.table(tabs[j%len(tabs)]), ps, nn()))
			}
			tip := chain[chainLen-1]
			all := cb.senderSeq(chain, nil)
			tA := cb.table(rA)
			switch variant {
			case 0: // first pull of the branch
				op := c13OpPull(0, 10, all, tip, false, tA, nn())
				cb.emit("cli-pull", true, op, op, 1, false)
			case 1: // the tracking ref is already there (wrgl fetch before; or an interrupted first pull)
				cb.step(c13OpRealFetch(all, []*xt.T{c13Upd(10, tip, false)}))
				op := c13OpPull(0, 10, nil, tip, false, tA, nn())
				cb.emit("cli-pull", true, op, op, 1, false)
			case 2: // existing branch, fast-forward
				cb.step(c13OpPull(0, 10, cb.senderSeq(chain[:1], nil), chain[0], false, tA, nn()))
				var rest []*xt.T
				if chainLen > 1 {
					rest = cb.senderSeq(chain[1:], chain[:1])
				}
				op := c13OpPull(0, 10, rest, tip, false, tA, nn())
				cb.emit("cli-pull", chainLen > 1, op, op, 1, false)
			case 3: // existing branch with a local commit: a real merge (the local commit is unknown to
				// the server, so nothing is common and the whole remote history is sent again)
				cb.step(c13OpPull(0, 10, cb.senderSeq(chain[:1], nil), chain[0], false, tA, nn()))
				mine := rA.with(c13Seq(0, 1, 1))
				cb.step(c13OpCommit(0, cb.table(mine), nn()))
				theirs := tabs[1]
				merged, ok := c13Merge3(rA, mine, theirs)
				if !ok {
					panic("c13 gen: conflict")
				}
				n1 := nn()
				op := c13OpPull(0, 10, cb.senderSeq(chain[:2], nil), chain[1], false, cb.table(merged), n1)
				op2 := c13OpPull(0, 10, cb.senderSeq(chain[:2], nil), chain[1], false, cb.table(merged), nn())
				cb.emit("cli-pull", true, op, op2, 1, false)
			case 4, 5: // the remote branch was rewound and rebuilt: the tracking ref cannot fast-forward.
				// Rejected: the pull fails before it touches the branch. Forced: the branch, still on the
				// old history, is merged with the new one (a real merge).
				mine := rA.with(c13Seq(0, 1, 1))
				other := c13MkCid(cb.table(mine), []*xt.T{chain[0]}, nn())
				cb.step(c13OpPull(0, 10, cb.senderSeq([]*xt.T{chain[0], other}, nil), other, false, tA, nn()))
				merged, ok := c13Merge3(rA, mine, tabs[1])
				if !ok {
					panic("c13 gen: conflict")
				}
				n1 := nn()
				op := c13OpPull(0, 10, cb.senderSeq(chain[:2], nil), chain[1], variant == 5, cb.table(merged), n1)
				op2 := c13OpPull(0, 10, cb.senderSeq(chain[:2], nil), chain[1], variant == 5, cb.table(merged), nn())
				cb.emit("cli-pull", true, op, op2, 1, false)
			}
		}
		nvar := 3 // quick: first pull, tracking ref already there, fast-forward, real merge
		if thorough {
			nvar = 5
		}
		for variant := 0; variant <= nvar; variant++ {
			n := 3
			if variant >= 3 {
				n = 2
			}
			pullCase(variant, n)
		}
		if thorough {
			for i := 0; i < 18; i++ {
				variant := ctx.Pick(6)
				n := 1 + ctx.Pick(4)
				if variant >= 3 {
					n = 2
				}
				pullCase(variant, n)
			}
		}
	}

	// ---- CLI histories with shallow commits (wrgl pull / fetch --depth, then wrgl merge in every ff mode)
	{
		type scn struct{ n, depth, mode, via int }
		var scns []scn
		for mode := 0; mode < 4; mode++ {
			scns = append(scns, scn{4, 1, mode, 0})
		}
		scns = append(scns, scn{3, 1, 0, 2}, scn{4, 2, 1, 2}, scn{3, 1, 0, 1}, scn{4, 1, 1, 1}, scn{4, 2, 2, 1})
		if thorough {
			for i := 0; i < 24; i++ {
				scns = append(scns, scn{3 + ctx.Pick(3), 1 + ctx.Pick(2), ctx.Pick(4), ctx.Pick(3)})
			}
		}
		for _, sc := range scns {
			cb := g.newCase()
			ts := xt.N(cb.table(rA), cb.table(rA2), cb.table(rD), cb.table(rB))
			s := xt.N(xt.LI(sc.n), xt.LI(sc.depth), xt.LI(sc.mode), xt.LI(sc.via), ts)
			cb.emitScn("cli-shallow", true, c13OpPrune(), c13OpPrune(), 1, false, s)
		}
	}

	// ---- `wrgl transaction commit` on badger + sqlite with the ref store failing from write k on
	{
		ntx := []int{2}
		if thorough {
			ntx = []int{1, 2, 3, 4, 2, 3}
		}
		for _, nb := range ntx {
			cb := g.newCase()
			ts := xt.N(cb.table(rA), cb.table(rA2), cb.table(rD), cb.table(rB))
			cb.emitScn("cli-tx", true, c13OpPrune(), c13OpPrune(), 1, false, xt.N(xt.LI(100), xt.LI(nb), ts))
		}
	}

	// ---- prune
	{
		// witness of the fixed defect b7554dd: an unreferenced chain X <- Y <- Z (deleted branch); every
		// crash prefix and a write error at every delete (also "the 2nd com/ delete") must leave a
		// closed commit set. The hash order of the commits varies with the nonces.
		reps := 6
		if thorough {
			reps = 40
		}
		for i := 0; i < reps; i++ {
			cb := g.newCase()
			cb.doCommit(0, rA, nn())
			cb.doCommit(1, rB, nn())
			cb.doCommit(1, rB2, nn())
			if i%2 == 0 {
				cb.doCommit(1, rD, nn())
			}
			cb.doDelHead(1)
			cb.emit("prune", true, c13OpPrune(), c13OpPrune(), 1, i == 0)
		}
		// orphans sharing blocks and tables with what is kept; unreachable merge commit
		cb := g.newCase()
		c1 := cb.doCommit(0, rB, nn())
		cb.doBranch(1, c1)
		cb.doCommit(1, rB2, nn())
		cb.doBranch(2, c1)
		cb.doCommit(2, rB, nn())
		cb.doDelHead(1)
		cb.doDelHead(2)
		cb.emit("prune", true, c13OpPrune(), c13OpPrune(), 1, false)
		// nothing removable, but an orphan table from an interrupted commit: prune writes nothing
		cb = g.newCase()
		cb.doCommit(0, rA, nn())
		cb.crashed(c13OpCommit(0, cb.table(rB), nn()), 7)
		cb.emit("prune", true, c13OpPrune(), c13OpPrune(), 1, false)
		// the same garbage plus a removable commit: everything is swept
		cb = g.newCase()
		cb.doCommit(0, rA, nn())
		cb.crashed(c13OpCommit(0, cb.table(rB), nn()), 7)
		cb.doCommit(1, rD, nn())
		cb.doDelHead(1)
		cb.emit("prune", true, c13OpPrune(), c13OpPrune(), 1, false)
		// prune after an interrupted prune. The model sweeps in listing order, the code in key (=
		// hash) order, so setup steps are only cut where the set of executed deletes does not depend
		// on that order: at phase boundaries and inside the commit phase of a chain (children first).
		// two orphan tables (2+1 blocks), chain of two commits: 6 table writes, 3 blocks, 3 indices
		for _, cut := range []int{6, 9, 12, 13} {
			cb = g.newCase()
			cb.doCommit(0, rA, nn())
			cb.doCommit(1, rB, nn())
			cb.doCommit(1, rD, nn())
			cb.doDelHead(1)
			cb.crashed(c13OpPrune(), cut)
			cb.emit("prune", true, c13OpPrune(), c13OpPrune(), 1, false)
		}
		// one orphan table: a cut inside its DeleteTable / DeleteTableIndex / DeleteTableProfile triple
		// (the index and profile of the deleted table stay behind as garbage)
		for _, cut := range []int{1, 2, 3, 4} {
			cb = g.newCase()
			cb.doCommit(0, rA, nn())
			cb.doCommit(1, rD, nn())
			cb.doDelHead(1)
			cb.crashed(c13OpPrune(), cut)
			cb.emit("prune", true, c13OpPrune(), c13OpPrune(), 1, false)
		}
		// orphan sub-DAGs with forks and merges of unequal branch lengths: every crash prefix (and a
		// write error at every delete) of the commit-deletion phase must leave every stored commit
		// with its parents, i.e. the code's order must be a children-first order whatever the hash
		// order is. Witnesses first: a<-b<-c<-e with a<-d (a breadth-first walk from the heads e, d
		// deletes a before b); an orphan merge of two orphan branches; a diamond with a long side.
		dagTables := []c13Rows{rA, rA2, rD, rB, rB2}
		fixedDAGs := [][][]int{
			{{}, {0}, {1}, {0}, {2}},                     // a<-b<-c<-e and a<-d (indices a0 b1 c2 d3 e4)
			{{}, {0}, {0}, {1, 2}},                       // merge of two orphan branches
			{{}, {0}, {1}, {2}, {0}, {3, 4}},             // diamond, sides of length 3 and 1
			{{}, {0}, {1}, {2}, {3}, {0}, {5, 1}},        // fork at the root, merge into the middle of the long side
			{{}, {}, {0, 1}, {2}, {0}, {4}, {5}, {3, 6}}, // two roots, merges, unequal sides
		}
		for _, dag := range fixedDAGs {
			for rep := 0; rep < 2; rep++ { // two nonce sets = two hash orders
				cb := g.newCase()
				cb.doCommit(0, rA, nn())
				cb.orphanDAG(dag, dagTables, nn)
				cb.emit("prune-dag", true, c13OpPrune(), c13OpPrune(), 1, false)
			}
		}
		ndag := 8
		if thorough {
			ndag = 120
		}
		for i := 0; i < ndag; i++ {
			n := 4 + ctx.Pick(6)
			dag := make([][]int, n)
			for j := 1; j < n; j++ {
				switch k := ctx.Pick(10); {
				case k < 1:
					// another root
				case k < 7 || j < 2:
					// one parent: mostly the previous commit (long sides), else any earlier one (forks)
					if ctx.Pick(3) > 0 {
						dag[j] = []int{j - 1}
					} else {
						dag[j] = []int{ctx.Pick(j)}
					}
				default:
					a, b := ctx.Pick(j), ctx.Pick(j)
					if a == b {
						dag[j] = []int{a}
					} else {
						dag[j] = []int{a, b}
					}
				}
			}
			cb := g.newCase()
			// sometimes the kept branch shares a table (and its blocks) with the orphans
			if ctx.Pick(2) == 0 {
				cb.doCommit(0, rB, nn())
			} else {
				cb.doCommit(0, rC.without(300, 200), nn())
			}
			cb.orphanDAG(dag, dagTables, nn)
			cb.emit("prune-dag", true, c13OpPrune(), c13OpPrune(), 1, false)
		}
		// nothing to do at all
		cb = g.newCase()
		cb.doCommit(0, rA, nn())
		cb.emit("prune", false, c13OpPrune(), c13OpPrune(), 1, false)
	}

	// ---- random histories
	nrand := 40
	if thorough {
		nrand = 600
	}
	for i := 0; i < nrand; i++ {
		cb := g.newCase()
		steps := 2 + ctx.Pick(5)
		var remote []*xt.T // remote commits fetched so far
		for s := 0; s < steps; s++ {
			r := ctx.Pick(3)
			switch k := ctx.Pick(10); {
			case k < 5:
				rows := pool[ctx.Pick(len(pool))]
				if ctx.Pick(6) == 0 {
					t := cb.table(rows)
					nb := len(t.Kids[1].Kids)
					cb.crashed(c13OpCommit(r, t, nn()), ctx.Pick(2*nb+5)) // never reaches the ref write
					ctx.Count("rand_crashed_commit")
				} else {
					cb.doCommit(r, rows, nn())
				}
			case k < 6:
				if h := cb.heads[r]; h != nil {
					cb.doBranch((r+1)%3, h)
				}
			case k < 7:
				if cb.heads[r] != nil && len(cb.heads) > 1 {
					cb.doDelHead(r)
				}
			case k < 9:
				t := cb.table(pool[1+ctx.Pick(len(pool)-1)])
				var ps []*xt.T
				if len(remote) > 0 && ctx.Pick(3) > 0 {
					ps = []*xt.T{remote[len(remote)-1]}
				}
				c := c13MkCid(t, ps, nn())
				var common []*xt.T
				if ps != nil {
					common = ps
				}
				seq := cb.senderSeq([]*xt.T{c}, common)
				cb.step(c13OpFetch(seq, []*xt.T{c13Upd(10+ctx.Pick(2), c, true)}))
				remote = append(remote, c)
			default:
				cb.step(c13OpPrune())
			}
		}
		// the operation under test
		r := ctx.Pick(3)
		workers := 1
		if ctx.Pick(5) == 0 {
			workers = 2 + ctx.Pick(4)
		}
		switch k := ctx.Pick(10); {
		case k < 4:
			t := cb.table(pool[ctx.Pick(len(pool))])
			n := nn()
			cb.emit("rand", true, c13OpCommit(r, t, n), c13OpCommit(r, t, nn()), workers, false)
		case k < 6:
			cb.emit("rand", true, c13OpPrune(), c13OpPrune(), 1, false)
		case k < 8:
			t := cb.table(pool[1+ctx.Pick(len(pool)-1)])
			var ps []*xt.T
			if len(remote) > 0 {
				ps = []*xt.T{remote[ctx.Pick(len(remote))]}
			}
			c := c13MkCid(t, ps, nn())
			seq := cb.senderSeq([]*xt.T{c}, ps)
			op := c13OpFetch(seq, []*xt.T{c13Upd(10+ctx.Pick(2), c, ctx.Pick(2) == 0)})
			cb.emit("rand", true, op, op, 1, false)
		default:
			// merge whatever two branches exist: fast-forward when one contains the other
			var rs []int
			for x := range cb.heads {
				rs = append(rs, x)
			}
			sort.Ints(rs)
			if len(rs) < 2 {
				t := cb.table(rD)
				n := nn()
				cb.emit("rand", true, c13OpCommit(r, t, n), c13OpCommit(r, t, nn()), workers, false)
				break
			}
			a, b := cb.heads[rs[0]], cb.heads[rs[1]]
			if c13IsAnc(a, b) || c13IsAnc(b, a) {
				cb.emit("rand", true, c13OpFF(rs[0], b), c13OpFF(rs[0], b), 1, false)
			} else {
				// unrelated or diverged histories: the model needs the merged table, which the
				// generator only predicts for the fixed merge cases; use ff=never on an ancestor pair
				t := cb.table(rA2)
				n := nn()
				cb.emit("rand", true, c13OpCommit(rs[0], t, n), c13OpCommit(rs[0], t, nn()), workers, false)
			}
		}
	}
	return g.cases
}

// number of store writes the receiver performs for a well-formed object sequence
func c13SeqWrites(seq []*xt.T) int {
	n := 0
	for _, o := range seq {
		if o.Kids[0].N == 1 {
			n += len(o.Kids[1].Kids[1].Kids) + 3 // block indices, table index, profile, table
		} else {
			n++
		}
	}
	return n
}

func c13IsAnc(a, c *xt.T) bool {
	if a.String() == c.String() {
		return true
	}
	for _, p := range c.Kids[1].Kids {
		if c13IsAnc(a, p) {
			return true
		}
	}
	return false
}

// ---------------------------------------------------------------- the same history through the real CLI

func c13Cmd(args ...string) (string, error) {
	cmd := wrgl.RootCmd()
	buf := bytes.NewBuffer(nil)
	cmd.SetOut(buf)
	cmd.SetErr(buf)
	cmd.SetArgs(args)
	err := cmd.Execute()
	return buf.String(), err
}

// c13CLI replays setup + op with `wrgl` on a badger + sqlite repository and compares the refs'
// history shapes with the library-level run. Returns "" when they agree.
func c13CLI(ctx *Ctx, env *c13Env, c *xt.T, obs1 *xt.T) string {
	root, err := os.MkdirTemp(ctx.Tmp, "c13cli")
	if err != nil {
		panic(err)
	}
	defer os.RemoveAll(root)
	old, _ := os.Getwd()
	if err := os.Chdir(root); err != nil {
		panic(err)
	}
	defer os.Chdir(old)
	wrglDir := filepath.Join(root, ".wrgl")
	rd, err := local.NewRepoDir(wrglDir, "")
	if err != nil {
		return err.Error()
	}
	if err := rd.Init(); err != nil {
		return err.Error()
	}
	viper.Set("wrgl_dir", wrglDir)
	defer viper.Set("wrgl_dir", "")
	if out, err := c13Cmd("config", "set", "user.email", "v@x.y"); err != nil {
		return out + err.Error()
	}
	if out, err := c13Cmd("config", "set", "user.name", "V"); err != nil {
		return out + err.Error()
	}
	heads := map[int]*xt.T{}    // abstract
	sums := map[string]string{} // abstract cid text -> hex sum in the CLI repository
	headSum := func(r int) (string, error) {
		db, err := rd.OpenObjectsStore()
		if err != nil {
			return "", err
		}
		defer db.Close()
		rs := rd.OpenRefStore()
		s, err := ref.GetHead(rs, fmt.Sprintf("b%d", r))
		if err != nil {
			return "", err
		}
		return hex.EncodeToString(s), nil
	}
	var steps []*xt.T
	for _, s := range c.Kids[1].Kids {
		if len(s.Kids[1].Kids) == 1 {
			return "" // crashed steps cannot be replayed through the CLI
		}
		steps = append(steps, s.Kids[0])
	}
	steps = append(steps, c.Kids[2])
	for i, op := range steps {
		switch op.Kids[0].N {
		case 0:
			r, tbl, nonce := int(op.Kids[1].N), op.Kids[2], int(op.Kids[3].N)
			f := filepath.Join(root, fmt.Sprintf("t%d.csv", i))
			if err := os.WriteFile(f, env.u.csv[c13TableKey(tbl)], 0600); err != nil {
				return err.Error()
			}
			if out, err := c13Cmd("commit", fmt.Sprintf("b%d", r), f, fmt.Sprintf("c%d", nonce), "-p", "id", "-n", "1", "--quiet"); err != nil {
				if out2, err2 := c13Cmd("commit", fmt.Sprintf("b%d", r), f, fmt.Sprintf("c%d", nonce), "-p", "id", "-n", "1"); err2 != nil {
					return "wrgl commit: " + out + out2 + err2.Error()
				}
			}
			var ps []*xt.T
			if h := heads[r]; h != nil {
				ps = []*xt.T{h}
			}
			cid := c13MkCid(tbl, ps, nonce)
			heads[r] = cid
			if sums[cid.String()], err = headSum(r); err != nil {
				return err.Error()
			}
		case 2:
			r := int(op.Kids[1].N)
			if out, err := c13Cmd("branch", "delete", fmt.Sprintf("b%d", r)); err != nil {
				return "wrgl branch delete: " + out + err.Error()
			}
			delete(heads, r)
		case 3, 5:
			r := int(op.Kids[1].N)
			var other *xt.T
			if op.Kids[0].N == 3 {
				other = op.Kids[2].Kids[0]
			} else {
				other = op.Kids[2]
			}
			if out, err := c13Cmd("merge", fmt.Sprintf("b%d", r), sums[other.String()], "-n", "1"); err != nil {
				return "wrgl merge: " + out + err.Error()
			}
			if op.Kids[0].N == 5 {
				if c13IsAnc(heads[r], other) {
					heads[r] = other
				}
			} else {
				heads[r] = c13MkCid(op.Kids[3], []*xt.T{heads[r], other}, int(op.Kids[4].N))
			}
		case 6:
			if len(op.Kids[1].Kids) != 0 || len(op.Kids[2].Kids) != 1 || op.Kids[2].Kids[0].Kids[0].N >= 10 {
				return "" // only branch creation is replayed
			}
			u := op.Kids[2].Kids[0]
			r := int(u.Kids[0].N)
			if out, err := c13Cmd("branch", "create", fmt.Sprintf("b%d", r), sums[u.Kids[1].String()]); err != nil {
				return "wrgl branch create: " + out + err.Error()
			}
			heads[r] = u.Kids[1]
		case 7:
			if out, err := c13Cmd("prune"); err != nil {
				return "wrgl prune: " + out + err.Error()
			}
		default:
			return ""
		}
	}
	// compare ref -> shape, and judge the CLI repository with the same readers
	db, err := rd.OpenObjectsStore()
	if err != nil {
		return err.Error()
	}
	defer db.Close()
	rs := rd.OpenRefStore()
	refs, err := ref.ListAllRefs(rs)
	if err != nil {
		return err.Error()
	}
	var l []*xt.T
	for name, sum := range refs {
		l = append(l, xt.N(xt.LI(c13RefID(name)), env.shapeOf(db, sum, 0)))
	}
	sort.SliceStable(l, func(i, j int) bool { return c13TreeCmp(l[i], l[j]) < 0 })
	got := xt.N(l...)
	if got.String() != obs1.String() {
		return fmt.Sprintf("refs after the CLI run %s, after the library-level run %s", got, obs1)
	}
	return ""
}
