package main

// C09: "after fetch or push the receiver holds the full history of every updated ref".
// fetch.Fetch (and, for haves-per-round-trip != 256, apiclient.UploadPackSession directly) runs on
// in-memory stores against the reference server (c09_server.go); `wrgl push` runs in-process
// (wrgl.RootCmd) on a repository directory.  Compared with coq/model/Session.v (run_C09) and judged
// by an independent oracle.
//
// case = (graph local remote op)
//   graph  = ((id (parent ...) table time) ...)    parents before children; table = fixture table number
//   local, remote = ((commit ...) (table ...) ((name id) ...))   stored commits, stored tables, refs
//   an op may end with a fault (mode phase j): mode 1 connection abort | 2 HTTP/2 stream reset (TLS test server);
//   phase 1 the answer to GET /refs/ | 2 the first JSON answer of the POST exchange | 3 the answer of the packfile
//   exchange that carries the j-th commit.  The response is lost entirely after the server processed the request.
//   op     = (0 gforce depth k p tb (spec ...))    fetch; k = haves per round trip (0 = default 256, through
//                                                  fetch.Fetch only), p = server max packfile size in bytes
//                                                  (0 = default), tb = tables offered per round (0 = none)
//          | (1 gforce p (pitem ...))              push;  p = client pack.maxFileSize
//   spec = (force glob src dst), pitem = (force (src)? dst) as in C10
// obs  = (outcome local' remote')  outcome 0 ok | 1 error; states as in the case with sorted lists
//
// Oracle classes: closure, depth-rule, depth-rule-want-order, depth-rule-followed-tag, table-unusable, objects-differ,
// not-idempotent, rounds, refs-before-objects, retries-unbounded (one fetch starts more than 5 upload-pack exchanges,
// or the reference server's watchdog fires after 80 requests of an exchange that cannot succeed),
// success-with-missing-objects (a faulted run that reports success
// although a moved ref lacks history or tables), fault-broke-refs (any ref that does not resolve with full history).

import (
	"bytes"
	"fmt"
	"io"
	"net/http"
	"net/http/httptest"
	"os"
	"path/filepath"
	"runtime/debug"
	"sort"
	"strings"

	"github.com/go-logr/logr"
	"github.com/spf13/cobra"
	"github.com/wrgl/wrgl/cmd/wrgl/fetch"
	"github.com/wrgl/wrgl/cmd/wrgl/utils"
	apiclient "github.com/wrgl/wrgl/pkg/api/client"
	"github.com/wrgl/wrgl/pkg/conf"
	conffs "github.com/wrgl/wrgl/pkg/conf/fs"
	"github.com/wrgl/wrgl/pkg/credentials"
	"github.com/wrgl/wrgl/pkg/local"
	"github.com/wrgl/wrgl/pkg/objects"
	"github.com/wrgl/wrgl/pkg/pbar"
	"github.com/wrgl/wrgl/pkg/ref"

	"verifharness/xt"
)

func init() { props["C09"] = &Prop{Gen: genC09, Run: runC09} }

const c09NTables = 5

type c09Side struct {
	Commits []int
	Tables  []int
	Refs    [][2]interface{} // name, id
}

type c09Case struct {
	G      *c09Graph
	L, R   c09Side
	Kind   int
	GForce bool
	Depth  int
	K      int
	P      int
	TB     int
	Specs  []c10Spec
	Items  []c10PItem
	SrcRem int // push only: 0 plain refs; local refs/remotes/* were 1 fetched from the remote they are named
	// after, 3 fetched from "origin" and renamed since; 2 = the source remote is gone (no such refs at all)
	FMode int // 0 none, 1 connection abort, 2 HTTP/2 stream reset (both once); 3 every packfile answer of
	// upload-pack cut inside its last object, 4 every packfile answer lost (HTTP/2 reset), on every attempt
	FPhase int // 1 GET /refs/, 2 first JSON answer, 3 packfile exchange carrying the FJ-th commit
	FJ     int
}

func c09SideT(s c09Side) *xt.T {
	return xt.N(xt.Ints(s.Commits), xt.Ints(s.Tables), c10RefsT(s.Refs))
}

func (c *c09Case) Tree() *xt.T {
	g := xt.N()
	for i := range c.G.Par {
		g.Add(xt.N(xt.LI(i), xt.Ints(c.G.Par[i]), xt.LI(c.G.Tab[i]), xt.LI(c.G.Ts[i])))
	}
	var op *xt.T
	if c.Kind == 0 {
		specs := xt.N()
		for _, s := range c.Specs {
			specs.Add(xt.N(xt.Bool(s.Force), xt.Bool(s.Glob), xt.Str(s.Src), xt.Str(s.Dst)))
		}
		op = xt.N(xt.LI(0), xt.Bool(c.GForce), xt.LI(c.Depth), xt.LI(c.K), xt.LI(c.P), xt.LI(c.TB), specs)
	} else {
		items := xt.N()
		for _, it := range c.Items {
			var src *xt.T
			if it.Src != "" {
				src = xt.Str(it.Src)
			}
			items.Add(xt.N(xt.Bool(it.Force), xt.Opt(src), xt.Str(it.Dst)))
		}
		op = xt.N(xt.LI(1), xt.Bool(c.GForce), xt.LI(c.P), items)
	}
	if c.FMode != 0 || c.SrcRem != 0 {
		op.Add(xt.N(xt.LI(c.FMode), xt.LI(c.FPhase), xt.LI(c.FJ)))
	}
	if c.SrcRem != 0 {
		op.Add(xt.LI(c.SrcRem))
	}
	return xt.N(g, c09SideT(c.L), c09SideT(c.R), op)
}

func c09Ints(t *xt.T) (res []int) {
	for _, k := range t.Kids {
		res = append(res, int(k.N))
	}
	return
}

func c09ParseSide(t *xt.T) c09Side {
	return c09Side{Commits: c09Ints(t.Kids[0]), Tables: c09Ints(t.Kids[1]), Refs: c10ParseRefs(t.Kids[2])}
}

func c09Parse(t *xt.T) *c09Case {
	c := &c09Case{G: &c09Graph{}}
	for _, e := range t.Kids[0].Kids {
		c.G.Par = append(c.G.Par, c09Ints(e.Kids[1]))
		c.G.Tab = append(c.G.Tab, int(e.Kids[2].N))
		c.G.Ts = append(c.G.Ts, int(e.Kids[3].N))
	}
	c.L = c09ParseSide(t.Kids[1])
	c.R = c09ParseSide(t.Kids[2])
	op := t.Kids[3]
	c.Kind = int(op.Kids[0].N)
	if c.Kind == 0 {
		c.GForce = op.Kids[1].N != 0
		c.Depth = int(op.Kids[2].N)
		c.K = int(op.Kids[3].N)
		c.P = int(op.Kids[4].N)
		c.TB = int(op.Kids[5].N)
		for _, e := range op.Kids[6].Kids {
			c.Specs = append(c.Specs, c10Spec{e.Kids[0].N != 0, e.Kids[1].N != 0, c10Str(e.Kids[2]), c10Str(e.Kids[3])})
		}
	} else {
		c.GForce = op.Kids[1].N != 0
		c.P = int(op.Kids[2].N)
		for _, e := range op.Kids[3].Kids {
			it := c10PItem{Force: e.Kids[0].N != 0, Dst: c10Str(e.Kids[2])}
			if len(e.Kids[1].Kids) == 1 {
				it.Src = c10Str(e.Kids[1].Kids[0])
			}
			c.Items = append(c.Items, it)
		}
	}
	fi := 7
	if c.Kind == 1 {
		fi = 4
	}
	if len(op.Kids) > fi && len(op.Kids[fi].Kids) == 3 {
		f := op.Kids[fi].Kids
		c.FMode, c.FPhase, c.FJ = int(f[0].N), int(f[1].N), int(f[2].N)
	}
	if c.Kind == 1 && len(op.Kids) > 5 {
		c.SrcRem = int(op.Kids[5].N)
	}
	return c
}

// ------------------------------------------------------------------ generator

// fullSide: a side that stores the ancestors of its refs, every commit with its table.
func c09FullSide(g *c09Graph, refs [][2]interface{}) c09Side {
	seen := map[int]bool{}
	for _, e := range refs {
		for x := range g.Anc(e[1].(int)) {
			seen[x] = true
		}
	}
	s := c09Side{Refs: refs}
	tabs := map[int]bool{}
	for x := range seen {
		s.Commits = append(s.Commits, x)
		tabs[g.Tab[x]] = true
	}
	for t := range tabs {
		s.Tables = append(s.Tables, t)
	}
	sort.Ints(s.Commits)
	sort.Ints(s.Tables)
	return s
}

func genC09(ctx *Ctx) []Case {
	var cases []Case
	add := func(tag string, c *c09Case) {
		cases = append(cases, Case{Tag: tag, Nontrivial: true, C: c.Tree()})
		ctx.Count([]string{"op_fetch", "op_push"}[c.Kind])
	}
	headSpec := c10Spec{false, true, "heads/", "remotes/origin/"}
	// ---- witnesses
	{
		// depth rule and the order in which the finder walks the wants: heads/b is the parent of heads/a
		g := &c09Graph{Par: [][]int{{}, {0}, {1}}, Tab: []int{1, 2, 3}, Ts: []int{0, 1, 2}}
		for _, depth := range []int{1, 2, 0} {
			c := &c09Case{G: g, Kind: 0, Depth: depth, Specs: []c10Spec{headSpec}}
			c.R = c09FullSide(g, [][2]interface{}{{"heads/a", 2}, {"heads/b", 1}})
			add("depth-want-order", c)
		}
		// a chain with a ref on every commit, depth 1: every tip is at distance 0 of its own ref, so all five
		// tables are due; the finder delivers them only if it happens to walk the wants oldest first
		gc := &c09Graph{Par: [][]int{{}, {0}, {1}, {2}, {3}}, Tab: []int{0, 1, 2, 3, 4}, Ts: []int{0, 1, 2, 3, 4}}
		cc := &c09Case{G: gc, Kind: 0, Depth: 1, Specs: []c10Spec{headSpec}}
		cc.R = c09FullSide(gc, [][2]interface{}{{"heads/r0", 0}, {"heads/r1", 1}, {"heads/r2", 2}, {"heads/r3", 3}, {"heads/r4", 4}})
		add("depth-want-order", cc)
		// two tips sharing a deep ancestor that is near one and far from the other
		g2 := &c09Graph{Par: [][]int{{}, {0}, {1}, {2}, {3}, {1}}, Tab: []int{1, 2, 3, 4, 1, 2}, Ts: []int{0, 1, 2, 3, 4, 5}}
		c := &c09Case{G: g2, Kind: 0, Depth: 2, Specs: []c10Spec{headSpec}}
		c.R = c09FullSide(g2, [][2]interface{}{{"heads/far", 4}, {"heads/near", 5}})
		add("depth-want-order", c)
		// max packfile size 1: one object per packfile (C07 probe), with and without table negotiation
		g3 := &c09Graph{Par: [][]int{{}, {0}, {1}, {1}, {2, 3}}, Tab: []int{1, 2, 0, 3, 1}, Ts: []int{0, 1, 2, 3, 4}}
		for _, tb := range []int{0, 1, 256} {
			for _, k := range []int{0, 1, 2} {
				c := &c09Case{G: g3, Kind: 0, K: k, P: 1, TB: tb, Specs: []c10Spec{headSpec}}
				c.R = c09FullSide(g3, [][2]interface{}{{"heads/main", 4}})
				c.L = c09FullSide(g3, [][2]interface{}{{"heads/main", 1}})
				add("packsize-1", c)
			}
		}
		// push the same history with pack.maxFileSize = 1
		c = &c09Case{G: g3, Kind: 1, P: 1, Items: []c10PItem{{false, "heads/main", "heads/main"}}}
		c.L = c09FullSide(g3, [][2]interface{}{{"heads/main", 4}})
		c.R = c09FullSide(g3, [][2]interface{}{{"heads/main", 1}})
		add("packsize-1", c)
		// push to an empty remote, push of a tag, delete
		c = &c09Case{G: g3, Kind: 1, Items: []c10PItem{{false, "heads/main", "heads/main"}, {false, "tags/v1", "tags/v1"}}}
		c.L = c09FullSide(g3, [][2]interface{}{{"heads/main", 4}, {"tags/v1", 2}})
		add("push-empty-remote", c)
	}
	// ---- transport faults: one response of the exchange lost, at every position, on a chain (so that the
	// stream and hence "the packfile carrying the j-th commit" is the same for the model and the implementation)
	{
		gf := &c09Graph{Par: [][]int{{}, {0}, {1}, {2}}, Tab: []int{1, 0, 3, 4}, Ts: []int{0, 1, 2, 3}}
		full := c09FullSide(gf, [][2]interface{}{{"heads/main", 3}})
		for _, m := range []int{-1, 1} { // the receiver has nothing / has the chain up to commit m
			recv := c09Side{}
			if m >= 0 {
				recv = c09FullSide(gf, [][2]interface{}{{"heads/main", m}})
			}
			for _, mode := range []int{1, 2} {
				for _, p := range []int{1, 0} {
					type ph struct{ phase, j int }
					phases := []ph{{1, 0}, {2, 1}}
					for j := 1; j <= 3-m+1; j++ {
						phases = append(phases, ph{3, j})
					}
					for _, f := range phases {
						for _, tb := range []int{0, 1} {
							c := &c09Case{G: gf, Kind: 0, P: p, TB: tb, Specs: []c10Spec{headSpec}, FMode: mode, FPhase: f.phase, FJ: f.j}
							c.R = full
							c.L = recv
							if m >= 0 {
								c.L.Refs = [][2]interface{}{{"remotes/origin/main", m}}
							}
							add("fault-fetch", c)
							ctx.Count(fmt.Sprintf("fault_mode%d_phase%d", mode, f.phase))
						}
						c := &c09Case{G: gf, Kind: 1, P: p, Items: []c10PItem{{false, "heads/main", "heads/main"}}, FMode: mode, FPhase: f.phase, FJ: f.j}
						c.L = full
						c.R = recv
						add("fault-push", c)
					}
				}
			}
		}
	}
	// ---- a SECOND fetch after the remote moved refs: the local side already holds the refs (tags and
	// remote-tracking branches) from an earlier fetch; the remote then moved each of them to a commit that is
	// reachable from NO other advertised ref (a hot-fix commit on a side line), or to a descendant, or not at all.
	// Crossed with '+' on the heads refspec, '+' on the tags refspec and the global force flag.  Whatever is
	// accepted or rejected, every ref that moved must have its whole history locally.
	{
		//   0 <- 1 <- 2 <- 3          main line          7 (new root)
		//        1 <- 4 <- 5          side line          2 <- 6 side commit on top of main
		gm := &c09Graph{Par: [][]int{{}, {0}, {1}, {2}, {1}, {4}, {2}, {}}, Tab: []int{1, 2, 3, 4, 0, 1, 2, 3}, Ts: []int{0, 1, 2, 3, 4, 5, 6, 7}}
		type mv struct {
			name    string
			old, nw int
		}
		moves := [][]mv{
			// the tag moved to a side commit nobody else points at; the branch fast-forwards
			{{"tags/v1", 1, 5}, {"heads/main", 2, 3}},
			// tag and branch both moved to private side commits (branch: non-fast-forward)
			{{"tags/v1", 2, 6}, {"heads/main", 3, 5}},
			// tag moved to an unrelated root, branch unchanged
			{{"tags/v1", 2, 7}, {"heads/main", 2, 2}},
			// two tags: one moved to a private commit, one to a commit the branch also brings
			{{"tags/v1", 1, 5}, {"tags/v2", 1, 3}, {"heads/main", 2, 3}},
			// tag moved backwards to an ancestor that is already there; branch moved to a private side commit
			{{"tags/v1", 3, 1}, {"heads/main", 3, 6}},
		}
		for _, ms := range moves {
			for _, hf := range []bool{false, true} {
				for _, tf := range []bool{false, true} {
					for _, gforce := range []bool{false, true} {
						for _, depth := range []int{0, 1} {
							if depth == 1 && (hf || !ctx.Thorough()) {
								continue
							}
							c := &c09Case{G: gm, Kind: 0, GForce: gforce, Depth: depth,
								Specs: []c10Spec{{hf, true, "heads/", "remotes/origin/"}, {tf, true, "tags/", "tags/"}}}
							var lrefs, rrefs [][2]interface{}
							for _, m := range ms {
								rrefs = append(rrefs, [2]interface{}{m.name, m.nw})
								ln := m.name
								if strings.HasPrefix(ln, "heads/") {
									ln = "remotes/origin/" + ln[6:]
								}
								lrefs = append(lrefs, [2]interface{}{ln, m.old})
							}
							c.L = c09FullSide(gm, lrefs)
							c.R = c09FullSide(gm, rrefs)
							add("refetch-moved-refs", c)
							ctx.Count(fmt.Sprintf("refetch_hf%v_tf%v_g%v", hf, tf, gforce))
						}
					}
				}
			}
		}
	}
	// ---- persistent faults: EVERY packfile answer of upload-pack is cut inside its last object (3) or lost (4), on
	// every attempt: the fetch cannot succeed and must give up with an error (bounded by the server's watchdog)
	{
		gf := &c09Graph{Par: [][]int{{}, {0}, {1}, {2}}, Tab: []int{1, 0, 3, 4}, Ts: []int{0, 1, 2, 3}}
		full := c09FullSide(gf, [][2]interface{}{{"heads/main", 3}})
		for _, m := range []int{-1, 1} {
			for _, mode := range []int{3, 4} {
				for _, p := range []int{0, 1} {
					for _, tb := range []int{0, 1} {
						c := &c09Case{G: gf, Kind: 0, P: p, TB: tb, Specs: []c10Spec{headSpec}, FMode: mode}
						c.R = full
						if m >= 0 {
							c.L = c09FullSide(gf, [][2]interface{}{{"heads/main", m}})
							c.L.Refs = [][2]interface{}{{"remotes/origin/main", m}}
						}
						add("fault-persistent", c)
						ctx.Count(fmt.Sprintf("fault_mode%d", mode))
					}
				}
			}
		}
	}
	// ---- shallow repositories.  A side is shallow when it stores commits whose table it does not store
	// (what fetch --depth N leaves behind).
	{
		// push from a shallow local repository: chain c0..c3, every commit its own table, the local side has the
		// tables of the last d commits only; the remote has nothing / c0 / c0..c1; the remote-tracking ref the
		// history was fetched through is still there (1), renamed (3) or gone (2).  The push is refused, or
		// everything that travels carries its table.
		gs := &c09Graph{Par: [][]int{{}, {0}, {1}, {2}}, Tab: []int{1, 2, 3, 4}, Ts: []int{0, 1, 2, 3}}
		for _, d := range []int{1, 2} {
			for _, rtip := range []int{-1, 0, 1} {
				for _, src := range []int{1, 2, 3} {
					for _, p := range []int{0, 1} {
						c := &c09Case{G: gs, Kind: 1, P: p, SrcRem: src, Items: []c10PItem{{false, "heads/main", "heads/main"}}}
						refs := [][2]interface{}{{"heads/main", 3}}
						switch src {
						case 1:
							refs = append(refs, [2]interface{}{"remotes/origin/main", 3})
						case 3:
							refs = append(refs, [2]interface{}{"remotes/old/main", 3})
						}
						c.L = c09Side{Commits: []int{0, 1, 2, 3}, Refs: refs}
						for x := 4 - d; x < 4; x++ {
							c.L.Tables = append(c.L.Tables, gs.Tab[x])
						}
						if rtip >= 0 {
							c.R = c09FullSide(gs, [][2]interface{}{{"heads/main", rtip}})
						}
						add("shallow-push", c)
						ctx.Count(fmt.Sprintf("shallow_push_src%d", src))
					}
				}
			}
		}
		// fetch into a shallow local repository, the remote's new commits REUSING earlier tables (reverts):
		// chain c0..c6 with tables 1 2 3 | 1 3 2 4; the local side has c0..c2 with the tables of the last d of them.
		// Clause judged: every commit of a moved ref within the requested depth has its table afterwards.
		gr := &c09Graph{Par: [][]int{{}, {0}, {1}, {2}, {3}, {4}, {5}}, Tab: []int{1, 2, 3, 1, 3, 2, 4}, Ts: []int{0, 1, 2, 3, 4, 5, 6}}
		for _, tip := range []int{3, 4, 5, 6} {
			for _, d := range []int{1, 2} {
				for _, depth := range []int{0, 1, 2} {
					for _, k := range []int{0, 1, 2} {
						for _, tb := range []int{0, 1, 256} {
							for _, p := range []int{0, 1} {
								if !ctx.Thorough() && ctx.Pick(6) != 0 && !(k == 0 && tb == 0 && p == 0) {
									continue
								}
								c := &c09Case{G: gr, Kind: 0, Depth: depth, K: k, TB: tb, P: p, Specs: []c10Spec{headSpec}}
								c.R = c09FullSide(gr, [][2]interface{}{{"heads/main", tip}})
								c.L = c09Side{Commits: []int{0, 1, 2}, Refs: [][2]interface{}{{"remotes/origin/main", 2}}}
								for x := 3 - d; x < 3; x++ {
									c.L.Tables = append(c.L.Tables, gr.Tab[x])
								}
								add("shallow-fetch-revert", c)
							}
						}
					}
				}
			}
		}
	}
	// ---- batch boundaries: the client offers candidate tables in batches of 256 (push), the reference server
	// offers them in batches of TB = 256 (fetch), popHaves sends 256 haves per round trip
	{
		sizes := []int{257}
		if ctx.Thorough() {
			sizes = []int{255, 256, 257, 513}
		}
		for _, n := range sizes {
			// a chain of n commits, each with its own 1-row table; the receiver has the first 3 commits and,
			// scattered, every 7th table of the rest (so acknowledgements fall into every batch)
			gb := &c09Graph{}
			nb := n + 3 // n commits (and candidate tables) to transfer on top of the 3 the receiver has
			for i := 0; i < nb; i++ {
				ps := []int{}
				if i > 0 {
					ps = []int{i - 1}
				}
				gb.Par = append(gb.Par, ps)
				gb.Tab = append(gb.Tab, 5+i)
				gb.Ts = append(gb.Ts, i)
			}
			full := c09FullSide(gb, [][2]interface{}{{"heads/main", nb - 1}})
			part := c09FullSide(gb, [][2]interface{}{{"heads/main", 2}})
			for i := 3; i < nb; i++ {
				if i%7 == 3 {
					part.Tables = append(part.Tables, 5+i)
				}
			}
			c := &c09Case{G: gb, Kind: 1, Items: []c10PItem{{false, "heads/main", "heads/main"}}}
			c.L, c.R = full, part
			add("batch-tables-push", c)
			c = &c09Case{G: gb, Kind: 0, TB: 256, Specs: []c10Spec{headSpec}}
			c.R, c.L = full, part
			c.L.Refs = [][2]interface{}{{"remotes/origin/main", 2}}
			add("batch-tables-fetch", c)
			ctx.Count(fmt.Sprintf("batch_tables_%d", n))
			// haves: a shared chain A (newest), then n local-only commits L the server does not know; the remote's
			// tip merges A with a new root B, so the want keeps reaching a root and the server keeps asking
			gh := &c09Graph{}
			addC := func(ps []int, tab, ts int) int {
				gh.Par = append(gh.Par, ps)
				gh.Tab = append(gh.Tab, tab)
				gh.Ts = append(gh.Ts, ts)
				return len(gh.Par) - 1
			}
			a0 := addC(nil, 1, 100000)
			a1 := addC([]int{a0}, 2, 100001)
			l := -1
			for i := 0; i < n; i++ {
				ps := []int{}
				if l >= 0 {
					ps = []int{l}
				}
				l = addC(ps, 5+i%3, 50000+i)
			}
			b0 := addC(nil, 3, 200000)
			w := addC([]int{a1, b0}, 4, 200001)
			c = &c09Case{G: gh, Kind: 0, Specs: []c10Spec{headSpec}}
			c.L = c09FullSide(gh, [][2]interface{}{{"heads/a", a1}, {"heads/l", l}})
			c.R = c09FullSide(gh, [][2]interface{}{{"heads/w", w}})
			add("batch-haves", c)
		}
	}
	// ---- random: a common history, then both sides diverge
	n := 220
	if ctx.Thorough() {
		n = 5000
	}
	for i := 0; i < n; i++ {
		g := &c09Graph{}
		addCommit := func(ps []int) int {
			id := len(g.Par)
			g.Par = append(g.Par, ps)
			g.Tab = append(g.Tab, ctx.Pick(c09NTables))
			g.Ts = append(g.Ts, 0)
			return id
		}
		grow := func(pool []int, n int) []int {
			for j := 0; j < n; j++ {
				ps := []int{}
				if len(pool) > 0 && ctx.Pick(10) != 0 {
					ps = append(ps, pool[ctx.Pick(len(pool))])
					if len(pool) > 1 && ctx.Pick(4) == 0 {
						q := pool[ctx.Pick(len(pool))]
						if q != ps[0] {
							ps = append(ps, q)
						}
					}
				}
				sort.Ints(ps)
				pool = append(pool, addCommit(ps))
			}
			return pool
		}
		common := grow(nil, ctx.Pick(6))
		shape := ctx.Pick(5) // 0 equal 1 local ahead 2 local behind 3 diverged 4 unrelated
		var lpool, rpool []int
		switch shape {
		case 0:
			if len(common) == 0 {
				common = grow(nil, 1+ctx.Pick(3))
			}
			lpool, rpool = common, common
		case 1:
			lpool = grow(append([]int{}, common...), 1+ctx.Pick(5))
			rpool = common
		case 2:
			rpool = grow(append([]int{}, common...), 1+ctx.Pick(5))
			lpool = common
		case 3:
			lpool = grow(append([]int{}, common...), 1+ctx.Pick(4))
			rpool = grow(append([]int{}, common...), 1+ctx.Pick(4))
		default:
			lpool = grow(nil, 1+ctx.Pick(4))
			rpool = grow(nil, 1+ctx.Pick(4))
		}
		ctx.Count(fmt.Sprintf("shape_%d", shape))
		// timestamps: topological / reversed / all equal / random
		regime := ctx.Pick(4)
		for id := range g.Ts {
			switch regime {
			case 0:
				g.Ts[id] = id
			case 1:
				g.Ts[id] = 100 - id
			case 3:
				g.Ts[id] = ctx.Pick(5)
			}
		}
		pick := func(pool []int) int { return pool[len(pool)-1-ctx.Pick(minInt(len(pool), 3))] }
		names := []string{"heads/a", "heads/b", "heads/c", "tags/t"}
		c := &c09Case{G: g, Kind: ctx.Pick(3) / 2} // 2/3 fetch, 1/3 push
		if len(lpool) == 0 {
			c.Kind = 0
		}
		var lrefs, rrefs [][2]interface{}
		if c.Kind == 0 {
			for _, nm := range names {
				if len(rpool) > 0 && ctx.Pick(3) != 0 {
					rrefs = append(rrefs, [2]interface{}{nm, pick(rpool)})
				}
			}
			for _, nm := range []string{"heads/a", "remotes/origin/a", "remotes/origin/b", "heads/mine"} {
				if len(lpool) > 0 && ctx.Pick(2) == 0 {
					lrefs = append(lrefs, [2]interface{}{nm, pick(lpool)})
				}
			}
			c.Specs = []c10Spec{{ctx.Pick(2) == 0, true, "heads/", "remotes/origin/"}}
			if ctx.Pick(3) == 0 {
				c.Specs = append(c.Specs, c10Spec{ctx.Pick(2) == 0, true, "tags/", "tags/"})
			}
			c.GForce = ctx.Pick(4) == 0
			c.Depth = []int{0, 0, 1, 2}[ctx.Pick(4)]
			c.K = []int{0, 1, 2, 5}[ctx.Pick(4)]
			c.P = []int{0, 1, 300}[ctx.Pick(3)]
			c.TB = []int{0, 1, 256}[ctx.Pick(3)]
			ctx.Count(fmt.Sprintf("depth_%d", c.Depth))
			ctx.Count(fmt.Sprintf("k_%d", c.K))
		} else {
			for _, nm := range names {
				if len(lpool) > 0 && ctx.Pick(3) != 0 {
					lrefs = append(lrefs, [2]interface{}{nm, pick(lpool)})
					if ctx.Pick(4) != 0 {
						c.Items = append(c.Items, c10PItem{ctx.Pick(3) == 0, nm, nm})
					}
				}
				if len(rpool) > 0 && ctx.Pick(2) == 0 {
					rrefs = append(rrefs, [2]interface{}{nm, pick(rpool)})
				}
			}
			if len(c.Items) == 0 {
				if len(lrefs) == 0 {
					lrefs = append(lrefs, [2]interface{}{"heads/a", pick(lpool)})
				}
				c.Items = []c10PItem{{false, lrefs[0][0].(string), lrefs[0][0].(string)}}
			}
			c.GForce = ctx.Pick(4) == 0
			c.P = []int{0, 1, 300}[ctx.Pick(3)]
		}
		ctx.Count(fmt.Sprintf("p_%d", c.P))
		c.L = c09FullSide(g, lrefs)
		c.R = c09FullSide(g, rrefs)
		add("random", c)
	}
	return cases
}

// c09Dist: number of parent steps from tip to each of its ancestors (breadth first).
func c09Dist(g *c09Graph, tip int) map[int]int {
	dist := map[int]int{tip: 0}
	queue := []int{tip}
	for len(queue) > 0 {
		x := queue[0]
		queue = queue[1:]
		for _, p := range g.Par[x] {
			if _, ok := dist[p]; !ok {
				dist[p] = dist[x] + 1
				queue = append(queue, p)
			}
		}
	}
	return dist
}

func minInt(a, b int) int {
	if a < b {
		return a
	}
	return b
}

// ------------------------------------------------------------------ runner

type c09State struct {
	Commits map[int]bool
	Tables  map[int]bool
	Refs    map[string]int
}

func c09Populate(g *c09Graph, db objects.Store, rs ref.Store, s c09Side) {
	c09PopulateSrc(g, db, rs, s, 0)
}

// c09PopulateSrc: with srcRem 1 or 3 the refs/remotes/NAME/... refs are written the way a fetch writes them
// (reflog action "fetch", message "[from REMOTE] ..."), REMOTE = NAME (1) or "origin" (3: renamed afterwards).
func c09PopulateSrc(g *c09Graph, db objects.Store, rs ref.Store, s c09Side, srcRem int) {
	for _, t := range s.Tables {
		c09EnsureTable(db, t)
	}
	for _, x := range s.Commits {
		if _, err := objects.SaveCommit(db, g.Raw[x]); err != nil {
			panic(err)
		}
	}
	for _, e := range s.Refs {
		name := e[0].(string)
		if (srcRem == 1 || srcRem == 3) && strings.HasPrefix(name, "remotes/") {
			remote := strings.SplitN(name, "/", 3)[1]
			if srcRem == 3 {
				remote = "origin"
			}
			if err := ref.SaveFetchRef(rs, name, g.Sums[e[1].(int)], "gen", "gen@example.com", remote, "storing head"); err != nil {
				panic(err)
			}
			continue
		}
		if err := ref.SaveRef(rs, name, g.Sums[e[1].(int)], "gen", "gen@example.com", "commit", "setup", nil); err != nil {
			panic(err)
		}
	}
}

func c09Snapshot(g *c09Graph, db objects.Store, rs ref.Store) *c09State {
	st := &c09State{Commits: map[int]bool{}, Tables: map[int]bool{}, Refs: map[string]int{}}
	keys, err := objects.GetAllCommitKeys(db)
	if err != nil {
		panic(err)
	}
	for _, k := range keys {
		id := g.IdOf(k)
		if id < 0 {
			id = 999999
		}
		st.Commits[id] = true
	}
	seenT := map[int]bool{}
	for _, t := range g.Tab {
		if !seenT[t] {
			seenT[t] = true
			if objects.TableExist(db, c09TableSum(t)) {
				st.Tables[t] = true
			}
		}
	}
	for t := 0; t < c09NTables; t++ {
		if !seenT[t] && objects.TableExist(db, c09TableSum(t)) {
			st.Tables[t] = true
		}
	}
	m, err := ref.ListAllRefs(rs)
	if err != nil {
		panic(err)
	}
	for n, sum := range m {
		id := g.IdOf(sum)
		if id < 0 {
			id = 999999
		}
		st.Refs[n] = id
	}
	return st
}

func (s *c09State) Tree() *xt.T {
	var cs, ts []int
	for c := range s.Commits {
		cs = append(cs, c)
	}
	for t := range s.Tables {
		ts = append(ts, t)
	}
	sort.Ints(cs)
	sort.Ints(ts)
	names := []string{}
	for n := range s.Refs {
		names = append(names, n)
	}
	sort.Strings(names)
	refs := xt.N()
	for _, n := range names {
		refs.Add(xt.N(xt.Str(n), xt.LI(s.Refs[n])))
	}
	return xt.N(xt.Ints(cs), xt.Ints(ts), refs)
}

// c09Dump copies the content of a store (for byte comparison and change detection).
func c09Dump(db objects.Store) map[string][]byte {
	m, err := db.Filter(nil)
	if err != nil {
		panic(err)
	}
	return m
}

// c09TableUsable: the table object, its table index, and every block with its block index are stored.
func c09TableUsable(db objects.Store, sum []byte) error {
	tbl, err := objects.GetTable(db, sum)
	if err != nil {
		return fmt.Errorf("table %x: %v", sum, err)
	}
	if !objects.TableIndexExist(db, sum) {
		return fmt.Errorf("table %x: table index missing", sum)
	}
	for i, b := range tbl.Blocks {
		if !objects.BlockExist(db, b) {
			return fmt.Errorf("table %x: block %d missing", sum, i)
		}
		if i < len(tbl.BlockIndices) && !objects.BlockIndexExist(db, tbl.BlockIndices[i]) {
			return fmt.Errorf("table %x: block index %d missing", sum, i)
		}
	}
	return nil
}

type c09Run struct {
	outcome int
	out     string
	stats   c09Stats
}

func runC09(ctx *Ctx, t *xt.T) (*xt.T, Verdict) {
	c10Once.Do(func() { debug.SetGCPercent(800) })
	c := c09Parse(t)
	os.Setenv("XDG_CONFIG_HOME", filepath.Join(ctx.Tmp, "xdg"))
	os.Setenv("HOME", filepath.Join(ctx.Tmp, "home"))
	g := c.G
	g.Seal(c09TableSum)
	rdb := c09NewObjStore()
	rrs, closeR := c09NewMemRefStore()
	defer closeR()
	c09Populate(g, rdb, rrs, c.R)
	srv := c09NewServer(rdb, rrs)
	srv.TableBatch = c.TB
	if c.Kind == 0 {
		srv.MaxPackfileSize = uint64(c.P)
	}
	var ts *httptest.Server
	var transport http.RoundTripper // nil = default
	if c.FMode == 2 || c.FMode == 4 {
		// HTTP/2 over TLS: a response lost by the fault layer reaches the client as RST_STREAM INTERNAL_ERROR
		ts = httptest.NewUnstartedServer(srv)
		ts.EnableHTTP2 = true
		ts.StartTLS()
		transport = ts.Client().Transport
	} else {
		ts = httptest.NewServer(srv)
	}
	defer ts.Close()
	srv.MaxRequests = 20000
	if c.FMode == 3 || c.FMode == 4 {
		// persistent fault: the exchange cannot succeed; a client that keeps retrying is stopped by the watchdog
		srv.Persistent = c.FMode - 2
		srv.MaxRequests = 80
	} else if c.FMode != 0 {
		srv.FaultPhase, srv.FaultJ = c.FPhase, c.FJ
		if c.FPhase == 2 {
			srv.FaultJ = 1
		}
	}

	var ldb objects.Store
	var lrs ref.Store
	var lrec *c09ObjStore
	var lrefrec *c09RefStore
	var wrglDir string
	if c.Kind == 0 {
		lrec = c09NewObjStore()
		var closeL func()
		lrefrec, closeL = c09NewMemRefStore()
		defer closeL()
		ldb, lrs = lrec, lrefrec
		c09Populate(g, ldb, lrs, c.L)
	} else {
		root, err := os.MkdirTemp(c10ScratchBase(ctx), "c09")
		if err != nil {
			panic(err)
		}
		defer os.RemoveAll(root)
		wrglDir = filepath.Join(root, ".wrgl")
		rd, err := local.NewRepoDir(wrglDir, "")
		if err != nil {
			panic(err)
		}
		if err := rd.Init(); err != nil {
			panic(err)
		}
		db, err := rd.OpenObjectsStore()
		if err != nil {
			panic(err)
		}
		c09PopulateSrc(g, db, rd.OpenRefStore(), c.L, c.SrcRem)
		db.Close()
		rd.Close()
		cs := conffs.NewStore(wrglDir, conffs.LocalSource, "")
		cfg := &conf.Config{
			User:   &conf.User{Name: "John Doe", Email: "john@domain.com"},
			Remote: map[string]*conf.Remote{"origin": {URL: ts.URL}},
		}
		if c.P > 0 {
			cfg.Pack = &conf.Pack{MaxFileSize: uint64(c.P)}
		}
		if err := cs.Save(cfg); err != nil {
			panic(err)
		}
	}
	withLocal := func(f func(db objects.Store, rs ref.Store)) {
		if c.Kind == 0 {
			f(ldb, lrs)
			return
		}
		rd, err := local.NewRepoDir(wrglDir, "")
		if err != nil {
			panic(err)
		}
		defer rd.Close()
		db, err := rd.OpenObjectsStore()
		if err != nil {
			panic(err)
		}
		defer db.Close()
		f(db, rd.OpenRefStore())
	}

	var lBefore, lAfter, lAgain *c09State
	withLocal(func(db objects.Store, rs ref.Store) { lBefore = c09Snapshot(g, db, rs) })
	rBefore := c09Snapshot(g, rdb, rrs)
	rDumpBefore := c09Dump(rdb)

	// refs-before-objects probe: every ref value written locally during a fetch must already be a stored commit
	refsBeforeObjects := ""
	runOnce := func() c09Run {
		srv.Stats = c09Stats{}
		if c.Kind == 1 {
			args := []string{"push", "origin"}
			for _, it := range c.Items {
				f := ""
				if it.Force {
					f = "+"
				}
				if it.Src == "" {
					args = append(args, fmt.Sprintf("%s:refs/%s", f, it.Dst))
				} else {
					args = append(args, fmt.Sprintf("%srefs/%s:refs/%s", f, it.Src, it.Dst))
				}
			}
			if c.GForce {
				args = append(args, "--force")
			}
			args = append(args, "--no-progress")
			if transport != nil {
				// `wrgl push` builds its own client on http.DefaultTransport: trust the test server's certificate
				old := http.DefaultTransport
				http.DefaultTransport = transport
				defer func() { http.DefaultTransport = old }()
			}
			out, oc := c10RunCmd(wrglDir, args...)
			return c09Run{oc, out, srv.Stats}
		}
		cs, err := credentials.NewStore()
		if err != nil {
			panic(err)
		}
		cm := utils.NewClientMap(cs, logr.Discard())
		cmd := &cobra.Command{}
		if transport != nil {
			// the ClientMap memoises clients by URL: fetch.Fetch will use this one
			if _, err := cm.GetClient(cmd, ts.URL, apiclient.WithTransport(transport)); err != nil {
				panic(err)
			}
		}
		buf := &bytes.Buffer{}
		cmd.SetOut(buf)
		cmd.SetErr(buf)
		specs := []*conf.Refspec{}
		for _, s := range c.Specs {
			specs = append(specs, conf.MustParseRefspec(c10SpecArg(s)))
		}
		var stats c09Stats
		if c.K > 0 {
			// the session with an explicit number of haves per round trip (fetch.Fetch always uses the default)
			var copts []apiclient.ClientOption
			if transport != nil {
				copts = append(copts, apiclient.WithTransport(transport))
			}
			client, err := apiclient.NewClient(ts.URL, logr.Discard(), copts...)
			if err != nil {
				panic(err)
			}
			remoteRefs, err := client.GetRefs(nil, []string{ref.TransactionRefPrefix})
			if err != nil {
				panic(err)
			}
			var adv [][]byte
			for r, sum := range remoteRefs {
				for _, s := range specs {
					if s.DstForRef("refs/"+r) != "" {
						adv = append(adv, sum)
					}
				}
			}
			ses, err := apiclient.NewUploadPackSession(ldb, lrs, client, adv,
				apiclient.WithUploadPackDepth(c.Depth), apiclient.WithUploadPackHavesPerRoundTrip(c.K))
			if err == nil {
				if _, err := ses.Start(); err != nil {
					return c09Run{1, "session: " + err.Error(), srv.Stats}
				}
			} else if err.Error() != "nothing wanted" {
				return c09Run{1, "session: " + err.Error(), srv.Stats}
			}
			stats = srv.Stats
			srv.Stats = c09Stats{}
		}
		nObjWrites := lrec.NWrites()
		err = fetch.Fetch(cmd, ldb, lrs, cm, &conf.User{Name: "u", Email: "u@example.com"}, "origin",
			&conf.Remote{URL: ts.URL}, specs, c.GForce, int32(c.Depth), logr.Discard(), pbar.NewContainer(io.Discard, true))
		if c.K > 0 && lrec.NWrites() != nObjWrites {
			refsBeforeObjects = "fetch after a completed session wrote objects again"
		}
		if c.K == 0 {
			stats = srv.Stats
		}
		if err != nil {
			return c09Run{1, buf.String() + "\nerror: " + err.Error(), stats}
		}
		return c09Run{0, buf.String(), stats}
	}
	// for fetch: interleaving of object and ref writes = refs are written after the last object write
	objW0, refW0 := 0, 0
	if c.Kind == 0 {
		objW0, refW0 = lrec.NWrites(), lrefrec.NWrites()
	}
	r1 := runOnce()
	srv.FaultPhase = 0 // one exchange, one fault: the repeated run below is undisturbed
	srv.Persistent = 0
	srv.requests = 0
	srv.MaxRequests = 20000
	withLocal(func(db objects.Store, rs ref.Store) { lAfter = c09Snapshot(g, db, rs) })
	rAfter := c09Snapshot(g, rdb, rrs)
	obs := xt.N(xt.LI(r1.outcome), lAfter.Tree(), rAfter.Tree())
	_, _ = objW0, refW0

	// ------------------------------------------------------------ oracle
	recvBefore, recvAfter := lBefore, lAfter
	sender := "remote"
	if c.Kind == 1 {
		recvBefore, recvAfter = rBefore, rAfter
		sender = "local"
	}
	var verdict *Verdict
	fail := func(class, format string, a ...interface{}) {
		if verdict == nil {
			v := Fail(class, format, a...)
			verdict = &v
		}
	}
	var recvDB, sendDB objects.Store
	check := func(db objects.Store) {
		if c.Kind == 0 {
			recvDB, sendDB = db, rdb
		} else {
			recvDB, sendDB = rdb, db
		}
		// 1. closure + depth rule for every ref created or moved on the receiving side
		var moved []string
		for n, v := range recvAfter.Refs {
			if old, ok := recvBefore.Refs[n]; !ok || old != v {
				moved = append(moved, n)
			}
		}
		sort.Strings(moved)
		// wants of a fetch: the commits the refspecs ask for that were not stored before
		var wants []int
		if c.Kind == 0 {
			for _, e := range c.R.Refs {
				r, v := e[0].(string), e[1].(int)
				for _, sp := range c.Specs {
					if ((sp.Glob && strings.HasPrefix(r, sp.Src)) || (!sp.Glob && r == sp.Src)) && !recvBefore.Commits[v] {
						wants = append(wants, v)
					}
				}
			}
		}
		// the refs whose history is judged: every created or moved ref, and - for a fetch - every want whose ref
		// was then rejected (its objects were asked for and arrived all the same; "want cN" in messages)
		type judged struct {
			name string
			tip  int
		}
		var judge []judged
		tipSeen := map[int]bool{}
		for _, n := range moved {
			judge = append(judge, judged{n, recvAfter.Refs[n]})
			tipSeen[recvAfter.Refs[n]] = true
		}
		if r1.outcome != 2 {
			for _, w := range wants {
				if !tipSeen[w] && recvAfter.Commits[w] {
					judge = append(judge, judged{fmt.Sprintf("(want c%d)", w), w})
					tipSeen[w] = true
				}
			}
		}
		for _, j := range judge {
			n, tip := j.name, j.tip
			if tip == 999999 {
				fail("closure", "ref %s points at an unknown commit", n)
				continue
			}
			for x := range g.Anc(tip) {
				if !objects.CommitExist(recvDB, g.Sums[x]) {
					fail("closure", "ref %s -> c%d: ancestor c%d is not stored on the receiving side", n, tip, x)
				}
			}
			dist := c09Dist(g, tip)
			depth := 0
			if c.Kind == 0 {
				depth = c.Depth
			}
			for x, d := range dist {
				if depth != 0 && d >= depth {
					continue
				}
				if recvBefore.Commits[x] {
					continue // was already there: its state is not this transfer's business
				}
				tsum := c09TableSum(g.Tab[x])
				if !objects.TableExist(recvDB, tsum) {
					cls := "depth-rule"
					covered := true
					if c.Kind == 0 && strings.HasPrefix(n, "tags/") {
						covered = false
						for _, sp := range c.Specs {
							if (sp.Glob && strings.HasPrefix(n, sp.Dst)) || (!sp.Glob && n == sp.Dst) {
								covered = true
							}
						}
					}
					if !covered {
						// known finding: a tag no refspec asked for, stored because its commit arrived as an ancestor
						cls = "depth-rule-followed-tag"
					} else if depth != 0 && c.Kind == 0 {
						// known finding (C08 tables-depend-on-want-order): x is also reached from ANOTHER want at
						// `depth` or more parent steps - that want's walk, when the finder's map order puts it first,
						// marks x as seen without selecting its table, and the walk that is entitled to it stops there
						for _, w := range wants {
							if w == tip {
								continue
							}
							if dw, ok := c09Dist(g, w)[x]; ok && dw >= depth {
								cls = "depth-rule-want-order"
							}
						}
					}
					fail(cls, "ref %s -> c%d: table of c%d (distance %d, depth %d) is not stored", n, tip, x, d, depth)
				} else if err := c09TableUsable(recvDB, tsum); err != nil {
					fail("table-unusable", "ref %s -> c%d: %v", n, tip, err)
				}
			}
		}
		// 1b. after a faulted exchange, whatever the command reported: every ref of the receiving side still
		// resolves to a stored commit with its whole history
		if c.FMode != 0 {
			for n, tip := range recvAfter.Refs {
				if tip == 999999 {
					fail("fault-broke-refs", "ref %s points at an unknown commit after the faulted exchange", n)
					continue
				}
				for x := range g.Anc(tip) {
					if !objects.CommitExist(recvDB, g.Sums[x]) {
						fail("fault-broke-refs", "ref %s -> c%d: ancestor c%d is not stored after the faulted exchange", n, tip, x)
					}
				}
			}
		}
		// 2. objects identical on both sides: everything new on the receiver exists on the sender with the same bytes
		recvDump := c09Dump(recvDB)
		var before map[string][]byte
		if c.Kind == 1 {
			before = rDumpBefore
		}
		for k, v := range recvDump {
			if c.Kind == 1 {
				if _, ok := before[k]; ok {
					continue
				}
			}
			sv, err := sendDB.Get([]byte(k))
			if err != nil {
				if c.Kind == 0 && !strings.HasPrefix(k, "com/") && !strings.HasPrefix(k, "tbl/") && !strings.HasPrefix(k, "blk/") {
					continue // rebuilt indices/profiles of tables the local side had before
				}
				if c.Kind == 0 {
					// local objects that were there before the fetch are not the sender's
					if id := g.IdOf([]byte(strings.TrimPrefix(k, "com/"))); id >= 0 && lBefore.Commits[id] {
						continue
					}
					continue
				}
				fail("objects-differ", "receiver has %q which the %s does not have", k, sender)
				continue
			}
			if !bytes.Equal(sv, v) {
				fail("objects-differ", "object %q differs between the two sides", k)
			}
		}
	}
	withLocal(func(db objects.Store, rs ref.Store) { check(db) })
	if refsBeforeObjects != "" {
		fail("refs-before-objects", "%s", refsBeforeObjects)
	}
	// 3. an immediately repeated operation transfers nothing and changes nothing
	rw0 := rdb.NWrites()
	rrw0 := rrs.NWrites()
	lw0, lrw0 := 0, 0
	if c.Kind == 0 {
		lw0, lrw0 = lrec.NWrites(), lrefrec.NWrites()
	}
	r2 := runOnce()
	withLocal(func(db objects.Store, rs ref.Store) { lAgain = c09Snapshot(g, db, rs) })
	rAgain := c09Snapshot(g, rdb, rrs)
	if c.FMode != 0 && r1.outcome != 0 {
		// the undisturbed repetition of a failed exchange: nothing to compare it with here (the model case without
		// the fault is generated alongside); it must leave refs that resolve
		withLocal(func(db objects.Store, rs ref.Store) {
			rdb2 := recvDB
			if c.Kind == 0 {
				rdb2 = db
			}
			st := lAgain
			if c.Kind == 1 {
				st = rAgain
			}
			for n, tip := range st.Refs {
				if tip == 999999 {
					continue
				}
				for x := range g.Anc(tip) {
					if !objects.CommitExist(rdb2, g.Sums[x]) {
						fail("fault-broke-refs", "after the repeated exchange ref %s -> c%d lacks ancestor c%d", n, tip, x)
					}
				}
			}
		})
	}
	if r1.outcome == 0 {
		if r2.outcome != 0 {
			fail("not-idempotent", "repeated operation failed: %s", r2.out)
		}
		if rdb.NWrites() != rw0 || rrs.NWrites() != rrw0 {
			fail("not-idempotent", "repeated operation wrote to the remote (%d object writes, %d ref writes)", rdb.NWrites()-rw0, rrs.NWrites()-rrw0)
		}
		if c.Kind == 0 && (lrec.NWrites() != lw0 || lrefrec.NWrites() != lrw0) {
			fail("not-idempotent", "repeated fetch wrote locally (%d object writes, %d ref writes)", lrec.NWrites()-lw0, lrefrec.NWrites()-lrw0)
		}
		if r2.stats.UploadPackfiles+r2.stats.ReceivePackfiles != 0 {
			fail("not-idempotent", "repeated operation transferred packfiles: %+v", r2.stats)
		}
		if lAgain.Tree().String() != lAfter.Tree().String() || rAgain.Tree().String() != rAfter.Tree().String() {
			fail("not-idempotent", "repeated operation changed the state")
		}
	}
	// 4. round trips: negotiation is bounded by the local history
	if c.Kind == 0 && c.FMode == 0 {
		k := c.K
		if k == 0 {
			k = 256
		}
		nfull := 0
		for x := range lBefore.Commits {
			if x < len(g.Tab) && lBefore.Tables[g.Tab[x]] {
				nfull++
			}
		}
		if r1.stats.UploadNegRounds > nfull/k+2 {
			fail("rounds", "%d negotiation rounds for %d local commits with k=%d", r1.stats.UploadNegRounds, nfull, k)
		}
	}
	// "never loops forever": fetch.Fetch starts an exchange over after a stream reset at most maxFetchAttempts = 5
	// times; more upload-pack exchanges than that for one command (or the watchdog firing) is unbounded retrying
	if r1.stats.Watchdog || (c.Kind == 0 && c.K == 0 && r1.stats.UploadSessions > 5) {
		v := Fail("retries-unbounded", "one fetch started %d upload-pack exchanges (%d answers broken, watchdog fired: %v): %s",
			r1.stats.UploadSessions, r1.stats.Faults, r1.stats.Watchdog, r1.out)
		return obs, v
	}
	if verdict != nil {
		if c.FMode != 0 && r1.outcome == 0 {
			switch verdict.Class {
			case "closure", "depth-rule", "table-unusable", "fault-broke-refs":
				verdict.Class = "success-with-missing-objects"
			}
		}
		return obs, *verdict
	}
	return obs, OK()
}
