// verifharness: correspondence harness between the Coq models (run through the
// extracted OCaml driver) and the wrgl implementation in /repo.
//
//	verifharness gen <prop> <seed> <tier> <outfile>     generate cases, run impl, write C/I lines
//	verifharness replay <prop> <casefile> <outfile>     run impl on the cases of a replay file
//
// Output, three lines per case:
//
//	C <case tree>
//	I <implementation observation tree>
//	@ <tag> <nontrivial 0|1> <spec ok|FAIL> <class> <message>
package main

import (
	"bufio"
	"fmt"
	"math/rand"
	"os"
	"sort"
	"strconv"
	"strings"

	"verifharness/xt"
)

type Verdict struct {
	OK    bool
	Class string // narrow class of the failure (matches known_findings.txt)
	Msg   string
}

func OK() Verdict { return Verdict{OK: true} }
func Fail(class, format string, a ...interface{}) Verdict {
	return Verdict{Class: class, Msg: fmt.Sprintf(format, a...)}
}

type Case struct {
	Tag        string
	Nontrivial bool
	C          *xt.T
}

type Prop struct {
	// Gen produces the cases of one run: corpus first, exhaustive scopes, then random.
	Gen func(ctx *Ctx) []Case
	// Run executes the implementation on one case and judges it against the
	// property's specification oracle (independent of the model).
	Run func(ctx *Ctx, c *xt.T) (*xt.T, Verdict)
}

type Ctx struct {
	Rng  *rand.Rand
	Tier string
	Tmp  string
	Info map[string]int // input distribution counters, printed at the end
}

func (c *Ctx) Thorough() bool { return c.Tier == "thorough" }
func (c *Ctx) Count(k string) { c.Info[k]++ }
func (c *Ctx) Pick(n int) int { return c.Rng.Intn(n) }

var props = map[string]*Prop{}

// emitCase writes the case before the implementation runs, so that a process
// death (panic in a goroutine, OOM kill) leaves the culprit as the last C line.
func emitCase(w *bufio.Writer, c *xt.T) {
	fmt.Fprintf(w, "C %s\n", c.String())
	w.Flush()
}

func emit(w *bufio.Writer, tag string, nontrivial bool, v Verdict, c, i *xt.T) {
	nt := 0
	if nontrivial {
		nt = 1
	}
	st := "ok"
	if !v.OK {
		st = "FAIL"
	}
	cls := v.Class
	if cls == "" {
		cls = "-"
	}
	msg := strings.ReplaceAll(v.Msg, "\n", " ")
	fmt.Fprintf(w, "I %s\n", i.String())
	fmt.Fprintf(w, "@ %s %d %s %s %s\n", tag, nt, st, cls, msg)
	w.Flush()
}

func runCase(p *Prop, ctx *Ctx, c *xt.T) (obs *xt.T, v Verdict) {
	defer func() {
		if r := recover(); r != nil {
			obs = xt.N(xt.L(99))
			v = Fail("panic", "implementation panicked: %v", r)
		}
	}()
	return p.Run(ctx, c)
}

func main() {
	if len(os.Args) < 2 {
		fmt.Fprintln(os.Stderr, "usage: verifharness gen|replay ...")
		os.Exit(2)
	}
	tmp, err := os.MkdirTemp("", "verifharness")
	if err != nil {
		panic(err)
	}
	defer os.RemoveAll(tmp)
	switch os.Args[1] {
	case "gen":
		p := props[os.Args[2]]
		if p == nil {
			fmt.Fprintln(os.Stderr, "unknown property", os.Args[2])
			os.Exit(2)
		}
		seed, _ := strconv.ParseInt(os.Args[3], 10, 64)
		ctx := &Ctx{Rng: rand.New(rand.NewSource(seed)), Tier: os.Args[4], Tmp: tmp, Info: map[string]int{}}
		f, err := os.Create(os.Args[5])
		if err != nil {
			panic(err)
		}
		w := bufio.NewWriterSize(f, 1<<20)
		cases := p.Gen(ctx)
		for _, c := range cases {
			emitCase(w, c.C)
			obs, v := runCase(p, ctx, c.C)
			emit(w, c.Tag, c.Nontrivial, v, c.C, obs)
		}
		keys := make([]string, 0, len(ctx.Info))
		for k := range ctx.Info {
			keys = append(keys, k)
		}
		sort.Strings(keys)
		for _, k := range keys {
			fmt.Fprintf(w, "# %s %d\n", k, ctx.Info[k])
		}
		w.Flush()
		f.Close()
	case "replay":
		p := props[os.Args[2]]
		ctx := &Ctx{Rng: rand.New(rand.NewSource(1)), Tier: "quick", Tmp: tmp, Info: map[string]int{}}
		in, err := os.Open(os.Args[3])
		if err != nil {
			panic(err)
		}
		f, err := os.Create(os.Args[4])
		if err != nil {
			panic(err)
		}
		w := bufio.NewWriterSize(f, 1<<20)
		sc := bufio.NewScanner(in)
		sc.Buffer(make([]byte, 1<<20), 1<<30)
		for sc.Scan() {
			line := sc.Text()
			if !strings.HasPrefix(line, "C ") {
				continue
			}
			c, err := xt.Parse(line[2:])
			if err != nil {
				panic(err)
			}
			emitCase(w, c)
			obs, v := runCase(p, ctx, c)
			emit(w, "replay", true, v, c, obs)
		}
		w.Flush()
		f.Close()
	}
	os.RemoveAll(tmp)
}
