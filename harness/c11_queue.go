package main

import (
	"errors"
	"io"
	"sort"

	"github.com/wrgl/wrgl/pkg/ref"

	"verifharness/xt"
)

// C11, kinds 3 and 4: CommitsQueue.PopUntil and CommitsQueue.RemoveAncestors.

func c11Ord(exact bool, l []int) []int {
	r := append([]int{}, l...)
	if !exact {
		sort.Ints(r)
	}
	return r
}

// drain pops (without inserting parents) until EOF: the queue content in order
func c11Drain(w *c11World, q *ref.CommitsQueue) []int {
	res := []int{}
	for {
		sum, _, err := q.Pop()
		if err != nil {
			return res
		}
		res = append(res, w.idx(sum))
	}
}

func c11SeenSet(w *c11World, q *ref.CommitsQueue) []int {
	res := []int{}
	for i := 0; i < len(w.nodes)+2; i++ {
		if q.Seen(w.sum(i)) {
			res = append(res, i)
		}
	}
	return res
}

func c11Sums(w *c11World, l []int) [][]byte {
	sums := make([][]byte, len(l))
	for i, x := range l {
		sums[i] = w.sum(x)
	}
	return sums
}

func c11RunPopUntil(w *c11World, q *xt.T, bad func(class, format string, a ...interface{})) *xt.T {
	exact := q.Kids[0].N != 0
	roots := c11Ints(q.Kids[1])
	targets := c11Ints(q.Kids[2])
	rs, missing := w.reach(roots)
	cq, err := ref.NewCommitsQueue(w.db, c11Sums(w, roots))
	if err != nil {
		if !missing {
			bad("popuntil-unexpected-error", "NewCommitsQueue(%v) on a complete history: %v", roots, err)
		}
		return xt.N(xt.LI(1), xt.N(), xt.N(), xt.N())
	}
	twin, err := ref.NewCommitsQueue(w.db, c11Sums(w, roots))
	if err != nil {
		panic(err)
	}
	poppedBefore := map[int]bool{}
	tobs := xt.N()
	for _, t := range targets {
		sum, _, err := cq.PopUntil(w.sum(t))
		// the same call replayed step by step on the twin: the commits popped by this call
		trace := []int{}
		twinErr := false
		for steps := 0; ; steps++ {
			if steps > 4*len(w.nodes)+8 {
				panic("c11: twin walk does not terminate")
			}
			s2, _, e2 := twin.PopInsertParents()
			if errors.Is(e2, io.EOF) {
				break
			}
			if e2 != nil {
				twinErr = true
				break
			}
			trace = append(trace, w.idx(s2))
			if string(s2) == string(w.sum(t)) {
				break
			}
		}
		want := rs[t] && !poppedBefore[t] // reachable from the roots and not yet popped
		switch {
		case errors.Is(err, io.EOF):
			tobs.Add(xt.N(xt.LI(1), xt.Ints(c11Ord(exact, trace))))
			if !missing {
				if want {
					bad("popuntil-false-eof", "PopUntil(%d) from roots %v (already popped %v) reports EOF but %d is reachable and not yet popped", t, roots, c11Keys(poppedBefore), t)
				}
				if twinErr || (len(trace) > 0 && trace[len(trace)-1] == t) {
					bad("popuntil-not-a-walk-prefix", "PopUntil(%d) = EOF but stepping PopInsertParents gives %v", t, trace)
				}
			}
		case err != nil:
			tobs.Add(xt.N(xt.LI(2), xt.N()))
			if !missing {
				bad("popuntil-unexpected-error", "PopUntil(%d) from roots %v on a complete history: %v", t, roots, err)
			}
			return xt.N(xt.LI(0), tobs, xt.N(), xt.N())
		default:
			tobs.Add(xt.N(xt.LI(0), xt.Ints(c11Ord(exact, trace))))
			if w.idx(sum) != t {
				bad("popuntil-wrong-commit", "PopUntil(%d) returned %d", t, w.idx(sum))
			}
			if !want && !missing {
				bad("popuntil-false-found", "PopUntil(%d) from roots %v returned it although it is unreachable or already popped (%v)", t, roots, c11Keys(poppedBefore))
			}
			if len(trace) == 0 || trace[len(trace)-1] != t {
				bad("popuntil-not-a-walk-prefix", "PopUntil(%d) returned it but stepping PopInsertParents gives %v", t, trace)
			}
		}
		for i, x := range trace {
			if poppedBefore[x] {
				bad("walk-duplicate", "commit %d popped twice (roots %v)", x, roots)
			}
			if x == t && i != len(trace)-1 {
				bad("popuntil-not-a-walk-prefix", "PopUntil(%d) went past its target: %v", t, trace)
			}
			poppedBefore[x] = true
		}
		if errors.Is(err, io.EOF) && !missing {
			// exhausted: everything reachable has been popped
			for x := 0; x < len(w.nodes); x++ {
				if rs[x] && !poppedBefore[x] {
					bad("popuntil-incomplete-eof", "PopUntil(%d) = EOF but reachable commit %d was never popped (roots %v)", t, x, roots)
					break
				}
			}
		}
	}
	seen := c11SeenSet(w, cq)
	if ts := c11SeenSet(w, twin); !c11SameInts(seen, ts) {
		bad("popuntil-not-a-walk-prefix", "seen set after PopUntil %v differs from stepping PopInsertParents %v", seen, ts)
	}
	remaining := c11Drain(w, cq)
	if !missing {
		// seen = popped + remaining, all reachable
		inRem := map[int]bool{}
		for _, x := range remaining {
			inRem[x] = true
		}
		for _, x := range seen {
			if !rs[x] {
				bad("walk-extra", "queue from roots %v has seen unreachable commit %d", roots, x)
			}
			if !inRem[x] && !poppedBefore[x] {
				bad("walk-missed", "commit %d is seen but neither popped nor queued (roots %v)", x, roots)
			}
		}
	}
	return xt.N(xt.LI(0), tobs, xt.Ints(c11Ord(exact, remaining)), xt.Ints(seen))
}

func c11Keys(m map[int]bool) []int {
	r := []int{}
	for k, v := range m {
		if v {
			r = append(r, k)
		}
	}
	sort.Ints(r)
	return r
}

func c11SameInts(a, b []int) bool {
	if len(a) != len(b) {
		return false
	}
	for i := range a {
		if a[i] != b[i] {
			return false
		}
	}
	return true
}

func c11RunRemoveAncestors(w *c11World, q *xt.T, bad func(class, format string, a ...interface{})) *xt.T {
	exact := q.Kids[0].N != 0
	roots := c11Ints(q.Kids[1])
	npops := int(q.Kids[2].N)
	sums := c11Ints(q.Kids[3])
	_, missingRoots := w.reach(roots)
	anc, missingSums := w.reach(sums)
	build := func() (*ref.CommitsQueue, int) {
		cq, err := ref.NewCommitsQueue(w.db, c11Sums(w, roots))
		if err != nil {
			return nil, 1
		}
		for i := 0; i < npops; i++ {
			_, _, err := cq.PopInsertParents()
			if errors.Is(err, io.EOF) {
				break
			}
			if err != nil {
				return nil, 2
			}
		}
		return cq, 0
	}
	cq, status := build()
	if status != 0 {
		if !missingRoots {
			bad("remove-ancestors-unexpected-error", "building the queue from %v failed on a complete history (status %d)", roots, status)
		}
		return xt.N(xt.LI(status), xt.N(), xt.N())
	}
	// the queue content before the call, from an identically built twin
	twin, _ := build()
	before := c11Drain(w, twin)
	if err := cq.RemoveAncestors(c11Sums(w, sums)); err != nil {
		if !missingSums {
			bad("remove-ancestors-unexpected-error", "RemoveAncestors(%v) on a complete history: %v", sums, err)
		}
		return xt.N(xt.LI(3), xt.N(), xt.N())
	}
	seen := c11SeenSet(w, cq)
	after := c11Drain(w, cq)
	if !missingSums {
		want := []int{}
		for _, x := range before {
			if !anc[x] {
				want = append(want, x)
			}
		}
		if !c11SameInts(after, want) {
			inAfter := map[int]bool{}
			for _, x := range after {
				inAfter[x] = true
			}
			class := "remove-ancestors-reorders"
			for _, x := range before {
				if anc[x] && inAfter[x] {
					class = "remove-ancestors-misses-ancestor"
				}
			}
			for _, x := range before {
				if !anc[x] && !inAfter[x] {
					class = "remove-ancestors-removes-non-ancestor"
				}
			}
			bad(class, "queue %v (roots %v, %d pops) RemoveAncestors(%v) = %v, expected %v", before, roots, npops, sums, after, want)
		}
	}
	return xt.N(xt.LI(0), xt.Ints(c11Ord(exact, after)), xt.Ints(seen))
}
