package main

import (
	"bytes"
	"fmt"
	"io"
	"math"
	"math/bits"
	"path/filepath"
	"reflect"
	"sort"
	"time"
	"unsafe"

	"github.com/dgraph-io/badger/v3"
	"github.com/klauspost/compress/s2"
	"github.com/pckhoi/meow"
	"github.com/wrgl/wrgl/pkg/encoding"
	"github.com/wrgl/wrgl/pkg/encoding/packfile"
	"github.com/wrgl/wrgl/pkg/encoding/pktline"
	"github.com/wrgl/wrgl/pkg/misc"
	"github.com/wrgl/wrgl/pkg/objects"
	objbadger "github.com/wrgl/wrgl/pkg/objects/badger"
	objmock "github.com/wrgl/wrgl/pkg/objects/mock"

	"verifharness/xt"
)

// C06: object encodings round-trip and objects are stored under their hash.
// Model: coq/model/Codec*.v; run_C06 and the full format description: coq/model/CodecRun.v.
//
// case = (tag payload...); byte strings are nodes of byte leaves:
//   (1 (cell...) trailer)  StrList        (2 ((cell...)...) trailer)  Block
//   (3 (u32...) trailer)   UintList       (4 (u64...) trailer)        FloatList (bit patterns)
//   (5 commit trailer)     commit = (table name email ((sg abs) (sg abs)) message (parent...)),
//                          time = (unix seconds, zone minutes), sg 1 = negative
//   (6 table trailer)      table = ((column...) (pk...) rows (block...) (index...))
//   (7 blockindex trailer) blockindex = (offsets (row...))
//   (8 profile trailer)    profile = (version rowsCount (column...)), column = (name naCount min max
//                          mean median std pct minLen maxLen avgLen top), optional = () | (x),
//                          pct = (u64...), top = ((value count)...)
//   (9 string trailer)     pkt-line       (10 ((ty bytes)...))  packfile
//   (11 (ty u)...)         packfile object headers
//   (12 (op...))           store: op = (kind content), kind 1 block 2 block index 3 table 4 commit;
//                          (5 tablecontent content) table index; (6 tablecontent content) table profile
//   (13 fmt bytes)         decode arbitrary bytes with the reader of format fmt (1..11)
//
// observation of a round-trip case:
//   (st)                        encoder refused: 1 = error, 2 = panic
//   (0 enc (st))                encoded; decoding enc++trailer failed (1 error, 2 panic)
//   (0 enc (0 value rest R))    decoded value, bytes left in the reader, R = (st) | (0 reenc)
// StrList: (obs ((cell...))?) adds the slice decoder's result.  packfile value = (version (ty bytes)...).
// headers: ((enc (ty u rest))...) decoding enc ++ [0xAA].
// store: (((prefix ident value)...) (get...)): entries sorted by prefix++ident, ident = the content whose
//   meow hash is the key suffix, value decompressed for blocks / block indices; get = (0 object) | (1).
// decode-only: (st) | (0 value rest R).
//
// Store cases run three times with the callers' buffer-reuse idiom (one scratch buffer for the compressed
// output, one for the content handed in, both overwritten after every Save): over objmock (the observation
// returned), over a store that retains the slices it is given, and over objbadger.NewTxn on a temp badger
// dir read back after Commit; the three observations must be equal (classes store-aliasing-*, *-retain, *-badger).
//
// Oracle (independent of the model): a value with a cell / text field > 65535 bytes must be refused
// and nothing returned; every other well-formed value must encode, decode back to an equal value
// (Go-side comparison) leaving exactly the trailer, report the right byte count and re-encode to the
// same bytes; store keys must be prefix ++ meow(content) with one key per distinct content, and the
// stored bytes must hash to their key.

func init() { props["C06"] = &Prop{Gen: genC06, Run: runC06} }

const c06Max = 65535

// ---------------------------------------------------------------- helpers

// c06Try runs f mapping an error to status 1 and a panic to status 2.
func c06Try(f func() ([]byte, error)) (b []byte, st int, msg string) {
	defer func() {
		if r := recover(); r != nil {
			b, st = nil, 2
			msg = fmt.Sprintf("panic: %.200v", r)
		}
	}()
	b, err := f()
	if err != nil {
		return nil, 1, fmt.Sprintf("error: %.200v", err)
	}
	return append([]byte{}, b...), 0, ""
}

// c06Decoded is what a format's decoder returns to the generic drivers.
type c06Decoded struct {
	val   *xt.T                  // decoded value as a tree (same coding as the case)
	equal bool                   // Go-side equality with the original value
	n     int64                  // byte count reported by the decoder (-1: none)
	reenc func() ([]byte, error) // re-encode the decoded value
}

type c06Verd struct {
	v      Verdict
	suffix string // appended to the class (store variants)
}

func (s *c06Verd) bad(class, format string, a ...interface{}) {
	if s.v.OK {
		if s.suffix != "" {
			class += "-" + s.suffix
		}
		s.v = Fail(class, format, a...)
	}
}

// c06DecodeObs decodes in and builds (st) | (0 value rest R).
func c06DecodeObs(in []byte, dec func(r *bytes.Reader) (*c06Decoded, error)) (*xt.T, *c06Decoded, []byte, []byte, int, string) {
	r := bytes.NewReader(in)
	var d *c06Decoded
	_, dst, dmsg := c06Try(func() ([]byte, error) {
		var err error
		d, err = dec(r)
		return nil, err
	})
	if dst != 0 {
		return xt.N(xt.LI(dst)), nil, nil, nil, dst, dmsg
	}
	rest, _ := io.ReadAll(r)
	b2, st2, msg2 := c06Try(d.reenc)
	var re *xt.T
	if st2 != 0 {
		re = xt.N(xt.LI(st2))
	} else {
		re = xt.N(xt.LI(0), xt.Bytes(b2))
	}
	return xt.N(xt.LI(0), d.val, xt.Bytes(rest), re), d, rest, b2, st2, msg2
}

// c06RoundTrip drives one encode / decode / re-encode case.
// overlimit: the value must be refused; wf: the value must round-trip.
func c06RoundTrip(name string, overlimit, wf bool, trailer []byte,
	enc func() ([]byte, error), dec func(r *bytes.Reader) (*c06Decoded, error)) (*xt.T, Verdict) {
	vd := &c06Verd{v: OK()}
	b, st, msg := c06Try(enc)
	if overlimit && st == 0 {
		vd.bad(name+"-overlimit-accepted", "over-limit value was encoded (%d bytes) instead of refused", len(b))
	}
	if !overlimit && wf && st != 0 {
		vd.bad(name+"-refused", "well-formed value refused: %s", msg)
	}
	if st != 0 {
		return xt.N(xt.LI(st)), vd.v
	}
	in := append(append([]byte{}, b...), trailer...)
	obs, d, rest, b2, st2, msg2 := c06DecodeObs(in, dec)
	if wf && !overlimit {
		switch {
		case d == nil:
			vd.bad(name+"-unreadable", "decoding the encoder's own output failed: %s", msg2)
		case !d.equal:
			vd.bad(name+"-roundtrip", "decoded value differs from the value written")
		case !bytes.Equal(rest, trailer):
			vd.bad(name+"-rest", "decoder left %d bytes in the reader, trailer has %d", len(rest), len(trailer))
		case d.n >= 0 && d.n != int64(len(b)):
			vd.bad(name+"-count", "decoder reported %d bytes, encoding has %d", d.n, len(b))
		case st2 != 0:
			vd.bad(name+"-reencode", "re-encoding the decoded value refused: %s", msg2)
		case !bytes.Equal(b2, b):
			vd.bad(name+"-reencode", "re-encoding the decoded value gives different bytes")
		}
	}
	return xt.N(xt.LI(0), xt.Bytes(b), obs), vd.v
}

func c06Cells(t *xt.T) []string {
	sl := make([]string, len(t.Kids))
	for i, k := range t.Kids {
		sl[i] = string(k.AsBytes())
	}
	return sl
}

func c06ByteLists(t *xt.T) [][]byte {
	sl := make([][]byte, len(t.Kids))
	for i, k := range t.Kids {
		sl[i] = k.AsBytes()
	}
	return sl
}

func c06Rows(t *xt.T) [][]string {
	rows := make([][]string, len(t.Kids))
	for i, k := range t.Kids {
		rows[i] = c06Cells(k)
	}
	return rows
}

func c06RowsT(rows [][]string) *xt.T { return xt.List(xt.Strs, rows) }
func c06BytesListT(l [][]byte) *xt.T { return xt.List(xt.Bytes, l) }
func c06U64sT(l []uint64) *xt.T      { return xt.List(xt.L, l) }
func c06SameTree(a, b *xt.T) bool    { return a.String() == b.String() }
func c06Z(z int64) *xt.T {
	if z < 0 {
		return xt.N(xt.LI(1), xt.L(uint64(-z)))
	}
	return xt.N(xt.LI(0), xt.L(uint64(z)))
}
func c06FromZ(t *xt.T) int64 {
	if t.Kids[0].N != 0 {
		return -int64(t.Kids[1].N)
	}
	return int64(t.Kids[1].N)
}

func c06CellsOver(sl []string) bool {
	for _, s := range sl {
		if len(s) > c06Max {
			return true
		}
	}
	return false
}

func c06EqCells(a, b []string) bool {
	if len(a) != len(b) {
		return false
	}
	for i := range a {
		if a[i] != b[i] {
			return false
		}
	}
	return true
}

func c06EqRows(a, b [][]string) bool {
	if len(a) != len(b) {
		return false
	}
	for i := range a {
		if !c06EqCells(a[i], b[i]) {
			return false
		}
	}
	return true
}

func c06EqByteLists(a, b [][]byte) bool {
	if len(a) != len(b) {
		return false
	}
	for i := range a {
		if !bytes.Equal(a[i], b[i]) {
			return false
		}
	}
	return true
}

// ---------------------------------------------------------------- per-format codecs

// StrList
func c06EncStrList(sl []string) func() ([]byte, error) {
	return func() ([]byte, error) { return objects.NewStrListEncoder(true).Encode(sl), nil }
}
func c06DecStrList(orig []string) func(r *bytes.Reader) (*c06Decoded, error) {
	return func(r *bytes.Reader) (*c06Decoded, error) {
		n, got, err := objects.NewStrListDecoder(false).Read(r)
		if err != nil {
			return nil, err
		}
		return &c06Decoded{val: xt.Strs(got), equal: c06EqCells(got, orig), n: n, reenc: c06EncStrList(got)}, nil
	}
}

// Block
func c06EncBlock(rows [][]string) func() ([]byte, error) {
	return func() ([]byte, error) {
		buf := bytes.NewBuffer(nil)
		n, err := objects.WriteBlockTo(objects.NewStrListEncoder(true), buf, rows)
		if err == nil && n != int64(buf.Len()) {
			return nil, fmt.Errorf("WriteBlockTo reported %d bytes, wrote %d", n, buf.Len())
		}
		return buf.Bytes(), err
	}
}
func c06DecBlock(orig [][]string) func(r *bytes.Reader) (*c06Decoded, error) {
	return func(r *bytes.Reader) (*c06Decoded, error) {
		n, got, err := objects.ReadBlockFrom(r)
		if err != nil {
			return nil, err
		}
		return &c06Decoded{val: c06RowsT(got), equal: c06EqRows(got, orig), n: n, reenc: c06EncBlock(got)}, nil
	}
}

// UintList / FloatList
func c06U32s(t *xt.T) []uint32 {
	l := make([]uint32, len(t.Kids))
	for i, k := range t.Kids {
		l[i] = uint32(k.N)
	}
	return l
}
func c06U64s(t *xt.T) []uint64 {
	l := make([]uint64, len(t.Kids))
	for i, k := range t.Kids {
		l[i] = k.N
	}
	return l
}
func c06Floats(l []uint64) []float64 {
	f := make([]float64, len(l))
	for i, u := range l {
		f[i] = math.Float64frombits(u)
	}
	return f
}
func c06FloatBits(f []float64) []uint64 {
	l := make([]uint64, len(f))
	for i, x := range f {
		l[i] = math.Float64bits(x)
	}
	return l
}
func c06EncUints(l []uint32) func() ([]byte, error) {
	return func() ([]byte, error) { return objects.NewUintListEncoder().Encode(l), nil }
}
func c06DecUints(orig []uint32) func(r *bytes.Reader) (*c06Decoded, error) {
	return func(r *bytes.Reader) (*c06Decoded, error) {
		n, got, err := objects.NewUintListDecoder(false).Read(r)
		if err != nil {
			return nil, err
		}
		return &c06Decoded{val: xt.U32s(got), equal: c06SameTree(xt.U32s(got), xt.U32s(orig)), n: n, reenc: c06EncUints(got)}, nil
	}
}
func c06EncFloats(l []uint64) func() ([]byte, error) {
	return func() ([]byte, error) { return objects.NewFloatListEncoder().Encode(c06Floats(l)), nil }
}
func c06DecFloats(orig []uint64) func(r *bytes.Reader) (*c06Decoded, error) {
	return func(r *bytes.Reader) (*c06Decoded, error) {
		n, gotf, err := objects.NewFloatListDecoder(false).Read(r)
		if err != nil {
			return nil, err
		}
		got := c06FloatBits(gotf)
		return &c06Decoded{val: c06U64sT(got), equal: c06SameTree(c06U64sT(got), c06U64sT(orig)), n: n, reenc: c06EncFloats(got)}, nil
	}
}

// Commit
const c06ZeroSec = -62135596800

func c06Time(sec, zone int64) time.Time {
	if sec == c06ZeroSec && zone == 0 {
		return time.Time{}
	}
	return time.Unix(sec, 0).In(time.FixedZone("", int(zone)*60))
}
func c06TimeT(t time.Time) *xt.T {
	_, off := t.Zone()
	return xt.N(c06Z(t.Unix()), c06Z(int64(off/60)))
}
func c06CommitFromTree(t *xt.T) *objects.Commit {
	return &objects.Commit{
		Table:       t.Kids[0].AsBytes(),
		AuthorName:  string(t.Kids[1].AsBytes()),
		AuthorEmail: string(t.Kids[2].AsBytes()),
		Time:        c06Time(c06FromZ(t.Kids[3].Kids[0]), c06FromZ(t.Kids[3].Kids[1])),
		Message:     string(t.Kids[4].AsBytes()),
		Parents:     c06ByteLists(t.Kids[5]),
	}
}
func c06CommitT(c *objects.Commit) *xt.T {
	return xt.N(xt.Bytes(c.Table), xt.Str(c.AuthorName), xt.Str(c.AuthorEmail), c06TimeT(c.Time),
		xt.Str(c.Message), c06BytesListT(c.Parents))
}
func c06EqCommit(a, b *objects.Commit) bool {
	_, oa := a.Time.Zone()
	_, ob := b.Time.Zone()
	return bytes.Equal(a.Table, b.Table) && a.AuthorName == b.AuthorName && a.AuthorEmail == b.AuthorEmail &&
		a.Time.Unix() == b.Time.Unix() && oa == ob && a.Time.Equal(b.Time) && a.Message == b.Message &&
		c06EqByteLists(a.Parents, b.Parents)
}
func c06EncCommit(c *objects.Commit) func() ([]byte, error) {
	return func() ([]byte, error) {
		buf := bytes.NewBuffer(nil)
		n, err := c.WriteTo(buf)
		if err == nil && n != int64(buf.Len()) {
			return nil, fmt.Errorf("WriteTo reported %d bytes, wrote %d", n, buf.Len())
		}
		return buf.Bytes(), err
	}
}
func c06DecCommit(orig *objects.Commit) func(r *bytes.Reader) (*c06Decoded, error) {
	return func(r *bytes.Reader) (*c06Decoded, error) {
		n, got, err := objects.ReadCommitFrom(r)
		if err != nil {
			return nil, err
		}
		return &c06Decoded{val: c06CommitT(got), equal: orig != nil && c06EqCommit(got, orig), n: n, reenc: c06EncCommit(got)}, nil
	}
}
func c06CommitWF(c *objects.Commit, sec, zone int64) bool {
	if len(c.Table) != 16 {
		return false
	}
	for _, p := range c.Parents {
		if len(p) != 16 {
			return false
		}
	}
	if sec == c06ZeroSec && zone == 0 {
		return true
	}
	return sec >= -999999999 && sec <= 9999999999 && zone >= -1499 && zone <= 1499
}

// Table
func c06TableFromTree(t *xt.T) *objects.Table {
	return &objects.Table{
		Columns:      c06Cells(t.Kids[0]),
		PK:           c06U32s(t.Kids[1]),
		RowsCount:    uint32(t.Kids[2].N),
		Blocks:       c06ByteLists(t.Kids[3]),
		BlockIndices: c06ByteLists(t.Kids[4]),
	}
}
func c06TableT(t *objects.Table) *xt.T {
	return xt.N(xt.Strs(t.Columns), xt.U32s(t.PK), xt.L(uint64(t.RowsCount)), c06BytesListT(t.Blocks), c06BytesListT(t.BlockIndices))
}
func c06EncTable(t *objects.Table) func() ([]byte, error) {
	return func() ([]byte, error) {
		buf := bytes.NewBuffer(nil)
		n, err := t.WriteTo(buf)
		if err == nil && n != int64(buf.Len()) {
			return nil, fmt.Errorf("WriteTo reported %d bytes, wrote %d", n, buf.Len())
		}
		return buf.Bytes(), err
	}
}
func c06DecTable(orig *objects.Table) func(r *bytes.Reader) (*c06Decoded, error) {
	return func(r *bytes.Reader) (*c06Decoded, error) {
		n, got, err := objects.ReadTableFrom(r)
		if err != nil {
			return nil, err
		}
		eq := orig != nil && c06EqCells(got.Columns, orig.Columns) && c06SameTree(xt.U32s(got.PK), xt.U32s(orig.PK)) &&
			got.RowsCount == orig.RowsCount && c06EqByteLists(got.Blocks, orig.Blocks) && c06EqByteLists(got.BlockIndices, orig.BlockIndices)
		return &c06Decoded{val: c06TableT(got), equal: eq, n: n, reenc: c06EncTable(got)}, nil
	}
}
func c06TableWF(t *objects.Table) bool {
	n := (int(t.RowsCount) + 254) / 255
	if len(t.Blocks) != n || len(t.BlockIndices) != n {
		return false
	}
	for _, b := range append(append([][]byte{}, t.Blocks...), t.BlockIndices...) {
		if len(b) != 16 {
			return false
		}
	}
	return true
}

// BlockIndex: sortedOff is unexported
func c06OffPtr(idx *objects.BlockIndex) *[]uint8 {
	f := reflect.ValueOf(idx).Elem().FieldByName("sortedOff")
	return (*[]uint8)(unsafe.Pointer(f.UnsafeAddr()))
}
func c06BlockIndexFromTree(t *xt.T) *objects.BlockIndex {
	idx := &objects.BlockIndex{Rows: c06ByteLists(t.Kids[1])}
	*c06OffPtr(idx) = t.Kids[0].AsBytes()
	return idx
}
func c06BlockIndexT(idx *objects.BlockIndex) *xt.T {
	return xt.N(xt.Bytes(*c06OffPtr(idx)), c06BytesListT(idx.Rows))
}
func c06EncBlockIndex(idx *objects.BlockIndex) func() ([]byte, error) {
	return func() ([]byte, error) {
		buf := bytes.NewBuffer(nil)
		n, err := idx.WriteTo(buf)
		if err == nil && n != int64(buf.Len()) {
			return nil, fmt.Errorf("WriteTo reported %d bytes, wrote %d", n, buf.Len())
		}
		return buf.Bytes(), err
	}
}
func c06DecBlockIndex(orig *objects.BlockIndex) func(r *bytes.Reader) (*c06Decoded, error) {
	return func(r *bytes.Reader) (*c06Decoded, error) {
		n, got, err := objects.ReadBlockIndex(r)
		if err != nil {
			return nil, err
		}
		eq := orig != nil && bytes.Equal(*c06OffPtr(got), *c06OffPtr(orig)) && c06EqByteLists(got.Rows, orig.Rows)
		return &c06Decoded{val: c06BlockIndexT(got), equal: eq, n: n, reenc: c06EncBlockIndex(got)}, nil
	}
}
func c06BlockIndexWF(idx *objects.BlockIndex) bool {
	if len(*c06OffPtr(idx)) != len(idx.Rows) || len(idx.Rows) > 255 {
		return false
	}
	for _, r := range idx.Rows {
		if len(r) != 32 {
			return false
		}
	}
	return true
}

// TableProfile
func c06OptF(t *xt.T) *float64 {
	if len(t.Kids) == 0 {
		return nil
	}
	f := math.Float64frombits(t.Kids[0].N)
	return &f
}
func c06OptFT(f *float64) *xt.T {
	if f == nil {
		return xt.N()
	}
	return xt.N(xt.L(math.Float64bits(*f)))
}
func c06ColFromTree(t *xt.T) *objects.ColumnProfile {
	k := t.Kids
	c := &objects.ColumnProfile{
		Name: string(k[0].AsBytes()), NACount: uint32(k[1].N),
		Min: c06OptF(k[2]), Max: c06OptF(k[3]), Mean: c06OptF(k[4]), Median: c06OptF(k[5]), StdDeviation: c06OptF(k[6]),
		MinStrLen: uint16(k[8].N), MaxStrLen: uint16(k[9].N), AvgStrLen: uint16(k[10].N),
	}
	if len(k[7].Kids) == 1 {
		c.Percentiles = c06Floats(c06U64s(k[7].Kids[0]))
		if c.Percentiles == nil {
			c.Percentiles = []float64{}
		}
	}
	if len(k[11].Kids) == 1 {
		c.TopValues = objects.ValueCounts{}
		for _, vc := range k[11].Kids[0].Kids {
			c.TopValues = append(c.TopValues, objects.ValueCount{Value: string(vc.Kids[0].AsBytes()), Count: uint32(vc.Kids[1].N)})
		}
	}
	return c
}
func c06ColT(c *objects.ColumnProfile) *xt.T {
	pct, top := xt.N(), xt.N()
	if c.Percentiles != nil {
		pct = xt.N(c06U64sT(c06FloatBits(c.Percentiles)))
	}
	if c.TopValues != nil {
		l := xt.N()
		for _, vc := range c.TopValues {
			l.Add(xt.N(xt.Str(vc.Value), xt.L(uint64(vc.Count))))
		}
		top = xt.N(l)
	}
	return xt.N(xt.Str(c.Name), xt.L(uint64(c.NACount)), c06OptFT(c.Min), c06OptFT(c.Max), c06OptFT(c.Mean),
		c06OptFT(c.Median), c06OptFT(c.StdDeviation), pct, xt.L(uint64(c.MinStrLen)), xt.L(uint64(c.MaxStrLen)),
		xt.L(uint64(c.AvgStrLen)), top)
}
func c06ProfileFromTree(t *xt.T) *objects.TableProfile {
	p := &objects.TableProfile{Version: uint32(t.Kids[0].N), RowsCount: uint32(t.Kids[1].N)}
	for _, c := range t.Kids[2].Kids {
		p.Columns = append(p.Columns, c06ColFromTree(c))
	}
	return p
}
func c06ProfileT(p *objects.TableProfile) *xt.T {
	return xt.N(xt.L(uint64(p.Version)), xt.L(uint64(p.RowsCount)), xt.List(c06ColT, p.Columns))
}
func c06EncProfile(p *objects.TableProfile) func() ([]byte, error) {
	return func() ([]byte, error) {
		buf := bytes.NewBuffer(nil)
		n, err := p.WriteTo(buf)
		if err == nil && n != int64(buf.Len()) {
			return nil, fmt.Errorf("WriteTo reported %d bytes, wrote %d", n, buf.Len())
		}
		return buf.Bytes(), err
	}
}
func c06DecProfile(orig *objects.TableProfile) func(r *bytes.Reader) (*c06Decoded, error) {
	return func(r *bytes.Reader) (*c06Decoded, error) {
		got := &objects.TableProfile{}
		n, err := got.ReadFrom(r)
		if err != nil {
			return nil, err
		}
		return &c06Decoded{val: c06ProfileT(got), equal: orig != nil && c06SameTree(c06ProfileT(got), c06ProfileT(orig)), n: n, reenc: c06EncProfile(got)}, nil
	}
}
func c06ProfileOver(p *objects.TableProfile) bool {
	for _, c := range p.Columns {
		if len(c.Name) > c06Max {
			return true
		}
		for _, vc := range c.TopValues {
			if len(vc.Value) > c06Max {
				return true
			}
		}
	}
	return false
}

// pkt-line
func c06EncPkt(s string) func() ([]byte, error) {
	return func() ([]byte, error) {
		buf := bytes.NewBuffer(nil)
		err := pktline.WritePktLine(buf, misc.NewBuffer(nil), s)
		return buf.Bytes(), err
	}
}
func c06DecPkt(orig string, has bool) func(r *bytes.Reader) (*c06Decoded, error) {
	return func(r *bytes.Reader) (*c06Decoded, error) {
		got, err := pktline.ReadPktLine(encoding.NewParser(r))
		if err != nil {
			return nil, err
		}
		return &c06Decoded{val: xt.Str(got), equal: has && got == orig, n: -1, reenc: c06EncPkt(got)}, nil
	}
}

// packfile
type c06Obj struct {
	ty int
	b  []byte
}

func c06Objs(t *xt.T) []c06Obj {
	l := make([]c06Obj, len(t.Kids))
	for i, k := range t.Kids {
		l[i] = c06Obj{int(k.Kids[0].N), k.Kids[1].AsBytes()}
	}
	return l
}
func c06EncPack(objs []c06Obj) func() ([]byte, error) {
	return func() ([]byte, error) {
		buf := bytes.NewBuffer(nil)
		w, err := packfile.NewPackfileWriter(buf)
		if err != nil {
			return nil, err
		}
		for _, o := range objs {
			before := buf.Len()
			n, err := w.WriteObject(o.ty, o.b)
			if err != nil {
				return nil, err
			}
			if n != buf.Len()-before {
				return nil, fmt.Errorf("WriteObject reported %d bytes, wrote %d", n, buf.Len()-before)
			}
		}
		return buf.Bytes(), nil
	}
}
func c06DecPack(orig []c06Obj, has bool) func(r *bytes.Reader) (*c06Decoded, error) {
	return func(r *bytes.Reader) (*c06Decoded, error) {
		pr, err := packfile.NewPackfileReader(io.NopCloser(r))
		if err != nil {
			return nil, err
		}
		val := xt.N(xt.LI(pr.Version))
		var got []c06Obj
		for {
			ty, b, err := pr.ReadObject()
			if err == io.EOF {
				break
			}
			if err != nil {
				return nil, err
			}
			got = append(got, c06Obj{ty, append([]byte{}, b...)})
			val.Add(xt.N(xt.LI(ty), xt.Bytes(b)))
		}
		eq := has && len(got) == len(orig) && pr.Version == 1
		for i := 0; eq && i < len(got); i++ {
			eq = got[i].ty == orig[i].ty && bytes.Equal(got[i].b, orig[i].b)
		}
		return &c06Decoded{val: val, equal: eq, n: -1, reenc: c06EncPack(got)}, nil
	}
}

// ---------------------------------------------------------------- run

func runC06(ctx *Ctx, c *xt.T) (*xt.T, Verdict) {
	tag := c.Kids[0].N
	var trailer []byte
	if tag <= 9 {
		trailer = c.Kids[2].AsBytes()
	}
	switch tag {
	case 1:
		return c06RunStrList(c)
	case 2:
		rows := c06Rows(c.Kids[1])
		over := false
		for _, r := range rows {
			over = over || c06CellsOver(r)
		}
		return c06RoundTrip("block", over, true, trailer, c06EncBlock(rows), c06DecBlock(rows))
	case 3:
		l := c06U32s(c.Kids[1])
		return c06RoundTrip("uintlist", false, true, trailer, c06EncUints(l), c06DecUints(l))
	case 4:
		l := c06U64s(c.Kids[1])
		return c06RoundTrip("floatlist", false, true, trailer, c06EncFloats(l), c06DecFloats(l))
	case 5:
		cm := c06CommitFromTree(c.Kids[1])
		sec, zone := c06FromZ(c.Kids[1].Kids[3].Kids[0]), c06FromZ(c.Kids[1].Kids[3].Kids[1])
		over := len(cm.AuthorName) > c06Max || len(cm.AuthorEmail) > c06Max || len(cm.Message) > c06Max
		wf := c06CommitWF(cm, sec, zone) && len(trailer) == 0 // ReadFrom reads parents to EOF
		return c06RoundTrip("commit", over, wf, trailer, c06EncCommit(cm), c06DecCommit(cm))
	case 6:
		tb := c06TableFromTree(c.Kids[1])
		return c06RoundTrip("table", c06CellsOver(tb.Columns), c06TableWF(tb), trailer, c06EncTable(tb), c06DecTable(tb))
	case 7:
		idx := c06BlockIndexFromTree(c.Kids[1])
		return c06RoundTrip("blockindex", false, c06BlockIndexWF(idx), trailer, c06EncBlockIndex(idx), c06DecBlockIndex(idx))
	case 8:
		p := c06ProfileFromTree(c.Kids[1])
		return c06RoundTrip("profile", c06ProfileOver(p), true, trailer, c06EncProfile(p), c06DecProfile(p))
	case 9:
		s := string(c.Kids[1].AsBytes())
		// WritePktLine has no length guard (and no non-test caller): above 65534 bytes it writes a wrong
		// header silently; the model reproduces that, the oracle only demands the round trip in range
		return c06RoundTrip("pktline", false, len(s) <= 65534, trailer, c06EncPkt(s), c06DecPkt(s, true))
	case 10:
		objs := c06Objs(c.Kids[1])
		wf := true
		for _, o := range objs {
			wf = wf && o.ty >= 1 && o.ty <= 7
		}
		return c06RoundTrip("packfile", false, wf, nil, c06EncPack(objs), c06DecPack(objs, true))
	case 11:
		return c06RunHeaders(c)
	case 12:
		return c06RunStore(ctx, c)
	case 13:
		return c06RunDecode(c)
	case 14:
		return c06RunVolume(ctx, c)
	}
	return xt.N(xt.LI(98)), Fail("bad-case", "unknown tag %d", tag)
}

func c06RunStrList(c *xt.T) (*xt.T, Verdict) {
	sl := c06Cells(c.Kids[1])
	trailer := c.Kids[2].AsBytes()
	over := c06CellsOver(sl)
	enc := func() ([]byte, error) { return objects.NewStrListEncoder(false).Encode(sl), nil }
	obs, v := c06RoundTrip("strlist", over, true, trailer, enc, c06DecStrList(sl))
	// slice decoder on the encoder's output (reusing decoder: exercises the shared buffer)
	dec2 := xt.N()
	if b, st, _ := c06Try(enc); st == 0 {
		var got []string
		_, st2, msg := c06Try(func() ([]byte, error) {
			d := objects.NewStrListDecoder(true)
			d.Decode(b)
			got = d.Decode(b)
			return nil, nil
		})
		if st2 == 0 {
			dec2 = xt.N(xt.Strs(got))
			if v.OK && !c06EqCells(got, sl) {
				v = Fail("strlist-decode-bytes", "StrListDecoder.Decode differs from the value written")
			}
		} else if v.OK {
			v = Fail("strlist-decode-bytes", "StrListDecoder.Decode failed: %s", msg)
		}
	}
	return xt.N(obs, dec2), v
}

// reference header encoder, written from the format description (not from the Go code)
func c06RefHeader(ty int, u uint64) []byte {
	b := []byte{0x80 | byte(ty)<<4 | byte(u&15)}
	r := u >> 4
	for {
		d := byte(r & 127)
		r >>= 7
		if r == 0 {
			return append(b, d)
		}
		b = append(b, d|0x80)
	}
}

func c06RunHeaders(c *xt.T) (*xt.T, Verdict) {
	out := xt.N()
	vd := &c06Verd{v: OK()}
	for _, p := range c.Kids[1:] {
		ty, u := int(p.Kids[0].N), p.Kids[1].N
		e := packfile.VerifEncodeObjTypeAndLen(ty, u)
		r := bytes.NewReader(append(append([]byte{}, e...), 0xAA))
		ty2, u2, err := packfile.VerifDecodeObjTypeAndLen(r)
		rest, _ := io.ReadAll(r)
		if err != nil {
			out.Add(xt.N(xt.Bytes(e), xt.N()))
			vd.bad("header-unreadable", "decode(encode(%d,%d)) failed: %v", ty, u, err)
			continue
		}
		out.Add(xt.N(xt.Bytes(e), xt.N(xt.LI(ty2), xt.L(u2), xt.Bytes(rest))))
		if ty2 != ty || u2 != u || !bytes.Equal(rest, []byte{0xAA}) {
			vd.bad("header-roundtrip", "decode(encode(%d,%d)) = (%d,%d) rest %x", ty, u, ty2, u2, rest)
		}
		if !bytes.Equal(e, c06RefHeader(ty, u)) {
			vd.bad("header-noncanonical", "encode(%d,%d) = %x, reference %x", ty, u, e, c06RefHeader(ty, u))
		}
		if want := 1 + (bits.Len64(u>>4)+6)/7; len(e) != want && !(u>>4 == 0 && len(e) == 2) {
			vd.bad("header-length", "encode(%d,%d) has %d bytes, want %d", ty, u, len(e), want)
		}
	}
	return out, vd.v
}

// ---- store

func c06Sum(b []byte) []byte {
	a := meow.Checksum(0, b)
	return a[:]
}

// c06StoreRun performs the Save* ops of a store case on w using the callers' buffer-reuse idiom
// (one scratch buffer for the compressed output, one for the content handed in, both overwritten
// after every call), then reads everything back from the store returned by finish.
func c06StoreRun(c *xt.T, name string, w objects.Store, finish func() objects.Store) (*xt.T, Verdict) {
	vd := &c06Verd{v: OK(), suffix: name}
	var bb, cb, vb []byte // scratch: compressed output, content, second value
	scratch := func(buf *[]byte, b []byte) []byte {
		*buf = append((*buf)[:0], b...)
		return *buf
	}
	scribble := func() {
		for _, b := range [][]byte{bb[:cap(bb)], cb[:cap(cb)], vb[:cap(vb)]} {
			for i := range b {
				b[i] = 0xEE
			}
		}
	}
	byHash := map[string][]byte{}
	remember := func(b []byte) []byte {
		h := c06Sum(b)
		byHash[string(h)] = b
		return h
	}
	prefixOf := map[uint64]string{1: "blk/", 2: "blkidx/", 3: "tbl/", 4: "com/", 5: "tblidx/", 6: "tblsum/"}
	distinct := map[string]bool{}
	type opT struct {
		kind uint64
		sum  []byte
	}
	var ops []opT
	for _, o := range c.Kids[1].Kids {
		kind := o.Kids[0].N
		content := o.Kids[1].AsBytes()
		want := remember(content)
		var sum []byte
		var err error
		switch kind {
		case 1:
			sum, bb, err = objects.SaveBlock(w, bb, scratch(&cb, content))
		case 2:
			sum, bb, err = objects.SaveBlockIndex(w, bb, scratch(&cb, content))
		case 3:
			sum, err = objects.SaveTable(w, scratch(&cb, content))
		case 4:
			sum, err = objects.SaveCommit(w, scratch(&cb, content))
		case 5:
			sum = want // the owning table's sum
			err = objects.SaveTableIndex(w, scratch(&cb, sum), scratch(&vb, o.Kids[2].AsBytes()))
		default:
			sum = want
			err = objects.SaveTableProfile(w, scratch(&cb, sum), scratch(&vb, o.Kids[2].AsBytes()))
		}
		if err != nil {
			panic(err)
		}
		if !bytes.Equal(sum, want) {
			vd.bad("key-not-hash", "Save kind %d returned %x, meow hash of the content is %x", kind, sum, want)
		}
		ops = append(ops, opT{kind, append([]byte{}, sum...)})
		scribble() // what the next call of the caller does to its buffers
		distinct[prefixOf[kind]+string(want)] = true
	}
	// raw store contents
	s := finish()
	keys, err := s.FilterKey(nil)
	if err != nil {
		panic(err)
	}
	if len(keys) != len(distinct) {
		vd.bad("key-count", "%d keys stored for %d distinct (kind, content) pairs", len(keys), len(distinct))
	}
	for want := range distinct {
		if !s.Exist([]byte(want)) {
			vd.bad("key-missing", "no entry under %q + meow hash %x of the saved content", want[:len(want)-16], want[len(want)-16:])
		}
	}
	type entry struct {
		flat          string
		p, ident, val []byte
	}
	var entries []entry
	for _, k := range keys {
		var p string
		n := 0
		for _, q := range objects.Prefixes() {
			if bytes.HasPrefix(k, []byte(q)) {
				p = q
				n++
			}
		}
		if n != 1 {
			vd.bad("key-prefix", "key %x matches %d prefixes", k, n)
		}
		h := k[len(p):]
		v, err := s.Get(k)
		if err != nil {
			panic(err)
		}
		val := v
		if p == "blk/" || p == "blkidx/" {
			val, err = s2.Decode(nil, v)
			if err != nil {
				vd.bad("stored-not-decompressible", "value under %x: %v", k, err)
				val = v
			}
		}
		ident, ok := byHash[string(h)]
		if !ok {
			vd.bad("key-not-hash", "key %s%x is not the hash of any saved content", p, h)
			ident = append([]byte("?"), h...)
		}
		if p != "tblidx/" && p != "tblsum/" && !bytes.Equal(c06Sum(val), h) {
			vd.bad("stored-disagrees-with-key", "value under %s%x hashes to %x", p, h, c06Sum(val))
		}
		entries = append(entries, entry{p + string(ident), []byte(p), ident, val})
	}
	sort.Slice(entries, func(i, j int) bool { return entries[i].flat < entries[j].flat })
	et := xt.N()
	for _, e := range entries {
		et.Add(xt.N(xt.Bytes(e.p), xt.Bytes(e.ident), xt.Bytes(e.val)))
	}
	// Get* of every op
	gt := xt.N()
	for _, o := range ops {
		var val *xt.T
		_, st, _ := c06Try(func() ([]byte, error) {
			switch o.kind {
			case 1:
				blk, _, err := objects.GetBlock(s, nil, o.sum)
				if err == nil {
					val = c06RowsT(blk)
				}
				return nil, err
			case 2:
				idx, _, err := objects.GetBlockIndex(s, nil, o.sum)
				if err == nil {
					val = c06BlockIndexT(idx)
				}
				return nil, err
			case 3:
				tb, err := objects.GetTable(s, o.sum)
				if err == nil {
					val = c06TableT(tb)
					if !bytes.Equal(tb.Sum, o.sum) {
						return nil, fmt.Errorf("GetTable: Sum not set")
					}
				}
				return nil, err
			case 4:
				cm, err := objects.GetCommit(s, o.sum)
				if err == nil {
					val = c06CommitT(cm)
				}
				return nil, err
			case 5:
				blk, err := objects.GetTableIndex(s, o.sum)
				if err == nil {
					val = c06RowsT(blk)
				}
				return nil, err
			default:
				p, err := objects.GetTableProfile(s, o.sum)
				if err == nil {
					val = c06ProfileT(p)
				}
				return nil, err
			}
		})
		if st != 0 {
			gt.Add(xt.N(xt.LI(st)))
		} else {
			gt.Add(xt.N(xt.LI(0), val))
		}
	}
	return xt.N(et, gt), vd.v
}

// c06Retain is a store that keeps the very slices it is given (like a badger transaction until
// commit); reads see whatever those slices hold now.
type c06Retain struct{ m map[string][]byte }

func (r *c06Retain) Get(k []byte) ([]byte, error) {
	if v, ok := r.m[string(k)]; ok {
		return v, nil
	}
	return nil, objects.ErrKeyNotFound
}
func (r *c06Retain) Set(k, v []byte) error { r.m[string(k)] = v; return nil }
func (r *c06Retain) Delete(k []byte) error { delete(r.m, string(k)); return nil }
func (r *c06Retain) Exist(k []byte) bool   { _, ok := r.m[string(k)]; return ok }
func (r *c06Retain) Filter(prefix []byte) (map[string][]byte, error) {
	m := map[string][]byte{}
	for k, v := range r.m {
		if bytes.HasPrefix([]byte(k), prefix) {
			m[k] = v
		}
	}
	return m, nil
}
func (r *c06Retain) FilterKey(prefix []byte) ([][]byte, error) {
	var keys [][]byte
	for k := range r.m {
		if bytes.HasPrefix([]byte(k), prefix) {
			keys = append(keys, []byte(k))
		}
	}
	return keys, nil
}
func (r *c06Retain) Clear(prefix []byte) error { return fmt.Errorf("not implemented") }
func (r *c06Retain) Close() error              { return nil }

var c06DB *badger.DB

func c06Badger(ctx *Ctx) *badger.DB {
	if c06DB == nil {
		db, err := badger.Open(badger.DefaultOptions(filepath.Join(ctx.Tmp, "c06badger")).WithLoggingLevel(badger.ERROR))
		if err != nil {
			panic(err)
		}
		c06DB = db
	}
	// empty it: delete whatever the previous case left (much cheaper than DropAll)
	err := c06DB.Update(func(t *badger.Txn) error {
		it := t.NewIterator(badger.IteratorOptions{})
		var keys [][]byte
		for it.Rewind(); it.Valid(); it.Next() {
			keys = append(keys, it.Item().KeyCopy(nil))
		}
		it.Close()
		for _, k := range keys {
			if err := t.Delete(k); err != nil {
				return err
			}
		}
		return nil
	})
	if err != nil {
		panic(err)
	}
	return c06DB
}

// c06RunStore runs a store case over objmock (the observation compared with the model), over a
// retaining store and over the repository's own badger transaction (objbadger.NewTxn, read back
// through objbadger.NewStore after Commit); all three must give the same observation.
func c06RunStore(ctx *Ctx, c *xt.T) (*xt.T, Verdict) {
	mock := objmock.NewStore()
	obs, v := c06StoreRun(c, "", mock, func() objects.Store { return mock })
	ret := &c06Retain{m: map[string][]byte{}}
	db := c06Badger(ctx)
	txn := objbadger.NewTxn(db)
	variants := []struct {
		name   string
		w      objects.Store
		finish func() objects.Store
	}{
		{"retain", ret, func() objects.Store {
			// commit: materialise what the retained slices hold now
			m := objmock.NewStore()
			for k, val := range ret.m {
				m.Set([]byte(k), val)
			}
			return m
		}},
		{"badger", txn, func() objects.Store {
			if err := txn.Commit(); err != nil {
				panic(err)
			}
			return objbadger.NewStore(db)
		}},
	}
	for _, vr := range variants {
		obs2, v2 := c06StoreRun(c, vr.name, vr.w, vr.finish)
		if v.OK && !v2.OK {
			v = v2
		}
		if v.OK && obs2.String() != obs.String() {
			v = Fail("store-aliasing-"+vr.name, "Save*/Get* over the %s store differ from objmock: a stored value changed when the caller reused its buffer", vr.name)
		}
	}
	return obs, v
}

// ---- decode-only

func c06RunDecode(c *xt.T) (*xt.T, Verdict) {
	b := c.Kids[2].AsBytes()
	var dec func(r *bytes.Reader) (*c06Decoded, error)
	switch c.Kids[1].N {
	case 1:
		dec = c06DecStrList(nil)
	case 2:
		dec = c06DecBlock(nil)
	case 3:
		dec = c06DecUints(nil)
	case 4:
		dec = c06DecFloats(nil)
	case 5:
		dec = c06DecCommit(nil)
	case 6:
		dec = c06DecTable(nil)
	case 7:
		dec = c06DecBlockIndex(nil)
	case 8:
		dec = c06DecProfile(nil)
	case 9:
		dec = c06DecPkt("", false)
	case 10:
		dec = c06DecPack(nil, false)
	case 11:
		r := bytes.NewReader(b)
		ty, u, err := packfile.VerifDecodeObjTypeAndLen(r)
		if err != nil {
			return xt.N(), OK()
		}
		rest, _ := io.ReadAll(r)
		return xt.N(xt.LI(ty), xt.L(u), xt.Bytes(rest)), OK()
	default:
		return xt.N(xt.LI(98)), Fail("bad-case", "unknown format")
	}
	obs, _, _, _, st, msg := c06DecodeObs(b, dec)
	if obs.Kids[0].N == 2 {
		// a decoder panicking on malformed bytes: reported, owned by C17
		return obs, Fail("decode-panic", "decoder panicked on malformed input: %s", msg)
	}
	_ = st
	return obs, OK()
}
