package main

import (
	"bytes"
	"database/sql"
	"encoding/binary"
	"encoding/hex"
	"fmt"
	"io"
	"os"
	"path/filepath"
	"sort"
	"strings"
	"sync/atomic"
	"time"

	"github.com/google/uuid"
	_ "github.com/mattn/go-sqlite3"
	"github.com/spf13/viper"
	wrgl "github.com/wrgl/wrgl/cmd/wrgl"
	"github.com/wrgl/wrgl/pkg/local"
	"github.com/wrgl/wrgl/pkg/objects"
	objmock "github.com/wrgl/wrgl/pkg/objects/mock"
	"github.com/wrgl/wrgl/pkg/ref"
	refsql "github.com/wrgl/wrgl/pkg/ref/sql"
	"github.com/wrgl/wrgl/pkg/transaction"

	"verifharness/xt"
)

// C14: transaction.Commit / transaction.Discard under injected store failures vs the model
// coq/model/Txn.v and vs an independent all-or-nothing-or-completable oracle.
//
// Real stores: objmock object store + SQLite (shared-cache in-memory) ref store, wrapped in
// fault-injecting ref.Store / objects.Store wrappers that count store calls and fail chosen ones
// WITHOUT touching the underlying store (an atomic write either happened or did not).
//
// case   = (flags (branchspec ...) (op ...))
//   flags      : 0 normal | 1 the transaction is never created (every op must fail, nothing changes)
//   branchspec = (hist staged late other)        branch index = position
//     hist   : 0 new branch | 1 one plain commit | 2 two plain commits
//              | 3 one plain commit + one commit landed by an earlier, committed transaction
//     staged : () | (t)   staged in THE transaction: fresh commit of table id t, parent = head
//     late   : 0 | 1      a plain commit lands on the branch after staging
//     other  : () | (t)   staged in another, in-progress transaction with table id t
//   op = (0 mode n perm) Commit with a fault | (1 perm) Commit
//      | (2 mode n perm) Discard with a fault | (3 perm) Discard
//      | (6 b t) an ORDINARY commit of table t lands on branch b (another writer between an interrupted
//        Commit and its re-run): a later Commit must not land the transaction on b a second time
//      | (4 half victim perm) Commit while ONE SQL statement inside SetWithLog of heads/<victim> fails
//        (half 0: the reflogs INSERT, half 1: the refs upsert), injected BELOW the ref.Store method by a
//        SQLite trigger (RAISE(ABORT)) that is dropped again before the next op.  SetWithLog must be
//        atomic: the victim neither moves nor gets a log row.  From this op on, while not all branches
//        have landed, moved/newobjs are 9 and snap is () (how many others landed first is map order)
//     mode 0: the n-th (0-based) and all later MUTATING store calls fail (= crash after n writes)
//     mode 1: only the n-th mutating store call fails
//     mode 2: the n-th store call of ANY kind (reads too) fails; intermediate state judged by the
//             oracle only: observation (3), and every later error class is masked as 3
//     perm : enumeration order for the model only (Go iterates its map in its own order)
// observation = (opobs ...): opobs = (3) | (err (moved newobjs status nrefs) snap)
//   err 0 ok | 1 error | 3 masked;  moved = #branches whose head differs from before the first op;
//   newobjs = #objects stored since then (9 from the second faulted Commit on while not all landed); status 0 no tx | 1 in progress | 2 committed;
//   nrefs = #staged refs of the transaction still present;
//   snap = () while 0 < moved < #staged or 0 < nrefs < #staged (which ones depends on map order), else
//   (((head ...) (log ...) (stagedref ...) (otherref ...))) with
//   head = () | (chain); chain = ((table nthis nother) ... root) [9 = missing object];
//   log = ((old new txflag) ...) newest first, old = () | (chain), txflag 0 none | 1 this tx | 2 other;
//   stagedref/otherref = () | (table)

func init() { props["C14"] = &Prop{Gen: genC14, Run: runC14} }

var c14Names = []string{"alpha", "dir/beta", "g_m%", "Delta", "e5", "f6"}

// ---------------------------------------------------------------- fault injection

type c14Fault struct {
	mode  int // -1 none | 0 crash from n-th mutating call | 1 n-th mutating call | 2 n-th call of any kind
	n     int
	muts  int
	calls int
	fired bool
}

var errC14Injected = fmt.Errorf("c14: injected store failure")

func (f *c14Fault) hit(mut bool) error {
	ic := f.calls
	f.calls++
	im := -1
	if mut {
		im = f.muts
		f.muts++
	}
	fail := false
	switch f.mode {
	case 0:
		fail = mut && im >= f.n
	case 1:
		fail = mut && im == f.n
	case 2:
		fail = ic == f.n
	}
	if fail {
		f.fired = true
		return errC14Injected
	}
	return nil
}

type c14RefStore struct {
	s ref.Store
	f *c14Fault
}

func (w *c14RefStore) SetWithLog(key string, val []byte, log *ref.Reflog) error {
	if err := w.f.hit(true); err != nil {
		return err
	}
	return w.s.SetWithLog(key, val, log)
}
func (w *c14RefStore) Set(key string, val []byte) error {
	if err := w.f.hit(true); err != nil {
		return err
	}
	return w.s.Set(key, val)
}
func (w *c14RefStore) Get(key string) ([]byte, error) {
	if err := w.f.hit(false); err != nil {
		return nil, err
	}
	return w.s.Get(key)
}
func (w *c14RefStore) Delete(key string) error {
	if err := w.f.hit(true); err != nil {
		return err
	}
	return w.s.Delete(key)
}
func (w *c14RefStore) Filter(p, np []string) (map[string][]byte, error) {
	if err := w.f.hit(false); err != nil {
		return nil, err
	}
	return w.s.Filter(p, np)
}
func (w *c14RefStore) FilterKey(p, np []string) ([]string, error) {
	if err := w.f.hit(false); err != nil {
		return nil, err
	}
	return w.s.FilterKey(p, np)
}
func (w *c14RefStore) Rename(a, b string) error {
	if err := w.f.hit(true); err != nil {
		return err
	}
	return w.s.Rename(a, b)
}
func (w *c14RefStore) Copy(a, b string) error {
	if err := w.f.hit(true); err != nil {
		return err
	}
	return w.s.Copy(a, b)
}
func (w *c14RefStore) LogReader(key string) (ref.ReflogReader, error) {
	if err := w.f.hit(false); err != nil {
		return nil, err
	}
	return w.s.LogReader(key)
}
func (w *c14RefStore) NewTransaction(tx *ref.Transaction) (*uuid.UUID, error) {
	if err := w.f.hit(true); err != nil {
		return nil, err
	}
	return w.s.NewTransaction(tx)
}
func (w *c14RefStore) GetTransaction(id uuid.UUID) (*ref.Transaction, error) {
	if err := w.f.hit(false); err != nil {
		return nil, err
	}
	return w.s.GetTransaction(id)
}
func (w *c14RefStore) UpdateTransaction(tx *ref.Transaction) error {
	if err := w.f.hit(true); err != nil {
		return err
	}
	return w.s.UpdateTransaction(tx)
}
func (w *c14RefStore) DeleteTransaction(id uuid.UUID) error {
	if err := w.f.hit(true); err != nil {
		return err
	}
	return w.s.DeleteTransaction(id)
}
func (w *c14RefStore) GCTransactions(ttl time.Duration) ([]uuid.UUID, error) {
	if err := w.f.hit(true); err != nil {
		return nil, err
	}
	return w.s.GCTransactions(ttl)
}
func (w *c14RefStore) GetTransactionLogs(id uuid.UUID) (map[string]*ref.Reflog, error) {
	if err := w.f.hit(false); err != nil {
		return nil, err
	}
	return w.s.GetTransactionLogs(id)
}
func (w *c14RefStore) ListTransactions(off, lim int) ([]*ref.Transaction, error) {
	if err := w.f.hit(false); err != nil {
		return nil, err
	}
	return w.s.ListTransactions(off, lim)
}

type c14ObjStore struct {
	s objects.Store
	f *c14Fault
}

func (w *c14ObjStore) Get(k []byte) ([]byte, error) {
	if err := w.f.hit(false); err != nil {
		return nil, err
	}
	return w.s.Get(k)
}
func (w *c14ObjStore) Set(k, v []byte) error {
	if err := w.f.hit(true); err != nil {
		return err
	}
	return w.s.Set(k, v)
}
func (w *c14ObjStore) Delete(k []byte) error {
	if err := w.f.hit(true); err != nil {
		return err
	}
	return w.s.Delete(k)
}
func (w *c14ObjStore) Exist(k []byte) bool { return w.s.Exist(k) }
func (w *c14ObjStore) Filter(p []byte) (map[string][]byte, error) {
	if err := w.f.hit(false); err != nil {
		return nil, err
	}
	return w.s.Filter(p)
}
func (w *c14ObjStore) FilterKey(p []byte) ([][]byte, error) {
	if err := w.f.hit(false); err != nil {
		return nil, err
	}
	return w.s.FilterKey(p)
}
func (w *c14ObjStore) Clear(p []byte) error {
	if err := w.f.hit(true); err != nil {
		return err
	}
	return w.s.Clear(p)
}
func (w *c14ObjStore) Close() error { return w.s.Close() }

// ---------------------------------------------------------------- environment

type c14Spec struct {
	hist   int
	staged int // -1 = not staged
	late   bool
	other  int // -1 = not staged in the other transaction
}

type c14Post struct {
	head []byte
	logs []c14Log
}

type c14Log struct {
	old, new []byte
	txid     []byte
}

type c14Env struct {
	db    objects.Store
	sqldb *sql.DB
	rs    *refsql.Store
	// flags 2: a real repository directory (badger + sqlite file) driven through the commands
	cli     bool
	root    string
	wrglDir string
	rd      *local.RepoDir
	// branches whose reflog already carries the transaction id before the first op (hist 4)
	preLogged []bool
	// ordinary commits made by "another writer" between ops (op kind 6)
	obsHeads [][]byte   // heads before the first op, for the moved count of the observation
	post     []*c14Post // branch landed by the transaction, then ordinary commit(s) on top: expected head and reflog
	hadPlain bool
	nRefs    int // staged refs of THE transaction at the baseline
	me       uuid.UUID
	old      uuid.UUID
	other    uuid.UUID
	names    []string
	specs    []c14Spec
	flags    int
	// baseline (before the first op)
	baseHeads [][]byte
	baseLogs  [][]c14Log
	stagedSum [][]byte // staged commit of THE transaction per branch (nil = none)
	otherSum  [][]byte
	baseObjs  int
	nStaged   int
}

var c14Seq int64

func c14Table(t int) []byte {
	b := make([]byte, 16)
	binary.BigEndian.PutUint64(b[8:], uint64(t))
	return b
}

func c14TableID(b []byte) int {
	if len(b) != 16 {
		return 999999
	}
	return int(binary.BigEndian.Uint64(b[8:]))
}

func c14Must(err error) {
	if err != nil {
		panic(fmt.Sprintf("c14 harness setup: %v", err))
	}
}

// a commit object for table t on top of parent (nil = root), as cmd/wrgl commitWithTable builds it
func (e *c14Env) saveCommit(t int, parent []byte) ([]byte, *objects.Commit) {
	com := &objects.Commit{
		Table:       c14Table(t),
		AuthorName:  "A U Thor",
		AuthorEmail: "author@example.com",
		Time:        time.Unix(1600000000+int64(t), 0).UTC(),
		Message:     fmt.Sprintf("data %d\nsecond line", t),
	}
	if parent != nil {
		com.Parents = [][]byte{parent}
	}
	buf := bytes.NewBuffer(nil)
	_, err := com.WriteTo(buf)
	c14Must(err)
	sum, err := objects.SaveCommit(e.db, buf.Bytes())
	c14Must(err)
	return sum, com
}

func (e *c14Env) head(i int) []byte {
	b, err := ref.GetHead(e.rs, e.names[i])
	if err != nil {
		return nil
	}
	return b
}

func (e *c14Env) plainCommit(i, t int) {
	sum, com := e.saveCommit(t, e.head(i))
	c14Must(ref.CommitHead(e.rs, e.names[i], sum, com, nil))
}

func (e *c14Env) stage(id uuid.UUID, i, t int) []byte {
	sum, _ := e.saveCommit(t, e.head(i))
	c14Must(ref.SaveTransactionRef(e.rs, id, e.names[i], sum))
	return sum
}

// openObj / closeObj: badger takes a directory lock, so in command mode the harness holds the
// object store only between commands
func (e *c14Env) openObj() {
	if e.cli && e.db == nil {
		db, err := e.rd.OpenObjectsStore()
		c14Must(err)
		e.db = db
	}
}

func (e *c14Env) closeObj() {
	if e.cli && e.db != nil {
		c14Must(e.db.Close())
		e.db = nil
	}
}

func c14Cmd(args ...string) error {
	cmd := wrgl.RootCmd()
	cmd.SetOut(io.Discard)
	cmd.SetErr(io.Discard)
	cmd.SetArgs(args)
	return cmd.Execute()
}

func c14NewEnv(ctx *Ctx, flags int, specs []c14Spec) *c14Env {
	e := &c14Env{specs: specs, flags: flags}
	if flags == 2 {
		root, err := os.MkdirTemp(ctx.Tmp, "c14repo")
		c14Must(err)
		e.cli, e.root, e.wrglDir = true, root, filepath.Join(root, ".wrgl")
		rd, err := local.NewRepoDir(e.wrglDir, "")
		c14Must(err)
		c14Must(rd.Init())
		e.rd = rd
		// the harness' own connection to the repository's sqlite file (observation, triggers)
		sqldb, err := sql.Open("sqlite3", filepath.Join(e.wrglDir, "sqlite.db"))
		c14Must(err)
		e.sqldb, e.rs = sqldb, refsql.NewStore(sqldb)
		e.openObj()
	} else {
		name := fmt.Sprintf("file:c14_%d_%d.db?cache=shared&mode=memory", time.Now().UnixNano(), atomic.AddInt64(&c14Seq, 1))
		sqldb, err := sql.Open("sqlite3", name)
		c14Must(err)
		for _, st := range refsql.CreateTableStmts {
			_, err := sqldb.Exec(st)
			c14Must(err)
		}
		e.db, e.sqldb, e.rs = objmock.NewStore(), sqldb, refsql.NewStore(sqldb)
	}
	e.names = c14Names[:len(specs)]
	base := func(i int) int { return 100 + 10*i }
	for i, sp := range specs {
		if sp.hist == 0 {
			continue
		}
		e.plainCommit(i, base(i))
		if sp.hist == 2 {
			e.plainCommit(i, base(i)+1)
		}
	}
	// an earlier transaction, committed through the real API
	oid, err := e.rs.NewTransaction(nil)
	c14Must(err)
	e.old = *oid
	for i, sp := range specs {
		if sp.hist == 3 {
			e.stage(e.old, i, base(i)+1)
		}
	}
	_, err = transaction.Commit(e.db, e.rs, e.old)
	c14Must(err)
	if flags == 1 {
		e.me = uuid.New()
	} else {
		id, err := e.rs.NewTransaction(nil)
		c14Must(err)
		e.me = *id
	}
	id3, err := e.rs.NewTransaction(nil)
	c14Must(err)
	e.other = *id3
	e.stagedSum = make([][]byte, len(specs))
	e.otherSum = make([][]byte, len(specs))
	e.preLogged = make([]bool, len(specs))
	for i, sp := range specs {
		if sp.hist == 4 {
			// two head updates logged with THE transaction's id (what a double-logging commit leaves)
			for _, t := range []int{base(i) + 1, base(i) + 2} {
				sum, com := e.saveCommit(t, e.head(i))
				c14Must(ref.CommitHead(e.rs, e.names[i], sum, com, &e.me))
			}
			e.preLogged[i] = true
		}
	}
	for i, sp := range specs {
		if sp.staged >= 0 && flags != 1 {
			e.stagedSum[i] = e.stage(e.me, i, sp.staged)
			e.nRefs++
			if !e.preLogged[i] {
				e.nStaged++
			}
		}
		if sp.other >= 0 {
			e.otherSum[i] = e.stage(e.other, i, sp.other)
		}
	}
	for i, sp := range specs {
		if sp.late {
			e.plainCommit(i, base(i)+5)
		}
	}
	e.baseHeads = make([][]byte, len(specs))
	e.baseLogs = make([][]c14Log, len(specs))
	for i := range specs {
		e.baseHeads[i] = e.head(i)
		e.baseLogs[i] = e.logs(i)
	}
	e.baseObjs = e.objCount()
	e.obsHeads = append([][]byte{}, e.baseHeads...)
	e.post = make([]*c14Post, len(specs))
	return e
}

func (e *c14Env) close() {
	e.closeObj()
	e.sqldb.Close()
	if e.cli {
		e.rd.Close()
		os.RemoveAll(e.root)
	}
}

func (e *c14Env) objCount() int {
	m, err := e.db.Filter(nil)
	c14Must(err)
	return len(m)
}

// reflog of heads/<branch i>, newest first, read straight from the table
func (e *c14Env) logs(i int) []c14Log {
	rows, err := e.sqldb.Query(`SELECT oldoid, newoid, txid FROM reflogs WHERE ref = ? ORDER BY ordinal DESC`, ref.HeadRef(e.names[i]))
	c14Must(err)
	defer rows.Close()
	var res []c14Log
	for rows.Next() {
		var o, n, t []byte
		c14Must(rows.Scan(&o, &n, &t))
		res = append(res, c14Log{old: o, new: n, txid: t})
	}
	c14Must(rows.Err())
	return res
}

func (e *c14Env) status() int {
	tx, err := e.rs.GetTransaction(e.me)
	if err != nil {
		return 0
	}
	if tx.Status == ref.TSCommitted {
		return 2
	}
	return 1
}

// full raw dump of both stores (no timestamps): used for "nothing changed" judgements
func (e *c14Env) dump() string {
	var sb strings.Builder
	q := func(query string, n int) {
		rows, err := e.sqldb.Query(query)
		c14Must(err)
		defer rows.Close()
		for rows.Next() {
			vals := make([]interface{}, n)
			ptrs := make([]interface{}, n)
			for i := range vals {
				ptrs[i] = &vals[i]
			}
			c14Must(rows.Scan(ptrs...))
			for _, v := range vals {
				switch x := v.(type) {
				case []byte:
					sb.WriteString(hex.EncodeToString(x))
				default:
					fmt.Fprintf(&sb, "%v", x)
				}
				sb.WriteByte('|')
			}
			sb.WriteByte('\n')
		}
		c14Must(rows.Err())
	}
	q(`SELECT name, sum FROM refs ORDER BY name`, 2)
	q(`SELECT ref, ordinal, oldoid, newoid, action, message, txid FROM reflogs ORDER BY ref, ordinal`, 7)
	q(`SELECT id, status FROM transactions ORDER BY id`, 2)
	m, err := e.db.Filter(nil)
	c14Must(err)
	keys := make([]string, 0, len(m))
	for k, v := range m {
		keys = append(keys, hex.EncodeToString([]byte(k))+"="+hex.EncodeToString(v))
	}
	sort.Strings(keys)
	sb.WriteString(strings.Join(keys, "\n"))
	return sb.String()
}

func (e *c14Env) txPrefix(id uuid.UUID) string { return fmt.Sprintf("commit [tx/%s]\n", id) }

// chain descriptor of a commit: ((table nthis nother) ... ) following first parents
func (e *c14Env) chain(sum []byte) *xt.T {
	t := xt.N()
	for steps := 0; steps < 64; steps++ {
		com, err := c14GetCommit(e.db, sum)
		if err != nil {
			t.Add(xt.LI(9))
			return t
		}
		msg := com.Message
		nthis, nother := 0, 0
		for strings.HasPrefix(msg, "commit [tx/") {
			j := strings.Index(msg, "]\n")
			if j < 0 {
				break
			}
			if msg[:j+2] == e.txPrefix(e.me) {
				nthis++
			} else {
				nother++
			}
			msg = msg[j+2:]
		}
		t.Add(xt.N(xt.LI(c14TableID(com.Table)), xt.LI(nthis), xt.LI(nother)))
		if len(com.Parents) == 0 {
			return t
		}
		sum = com.Parents[0]
	}
	return t
}

func c14GetCommit(db objects.Store, sum []byte) (com *objects.Commit, err error) {
	defer func() {
		if r := recover(); r != nil {
			err = fmt.Errorf("unreadable commit: %v", r)
		}
	}()
	return objects.GetCommit(db, sum)
}

func (e *c14Env) optChain(sum []byte) *xt.T {
	if sum == nil {
		return xt.N()
	}
	return xt.N(e.chain(sum))
}

func (e *c14Env) txRefTable(id uuid.UUID, i int) *xt.T {
	sum, err := e.rs.Get(ref.TransactionRef(id.String(), e.names[i]))
	if err != nil {
		return xt.N()
	}
	com, err := c14GetCommit(e.db, sum)
	if err != nil {
		return xt.N(xt.LI(999999))
	}
	return xt.N(xt.LI(c14TableID(com.Table)))
}

func (e *c14Env) snapshot() *xt.T {
	hs, ls, st, ot, tl := xt.N(), xt.N(), xt.N(), xt.N(), xt.N()
	txl, err := e.rs.GetTransactionLogs(e.me)
	c14Must(err)
	for i := range e.specs {
		if rl, ok := txl[ref.HeadRef(e.names[i])]; ok {
			tl.Add(e.optChain(rl.NewOID))
		} else {
			tl.Add(xt.N())
		}
		hs.Add(e.optChain(e.head(i)))
		l := xt.N()
		for _, en := range e.logs(i) {
			fl := 0
			if en.txid != nil {
				if bytes.Equal(en.txid, e.me[:]) {
					fl = 1
				} else {
					fl = 2
				}
			}
			l.Add(xt.N(e.optChain(en.old), e.chain(en.new), xt.LI(fl)))
		}
		ls.Add(l)
		st.Add(e.txRefTable(e.me, i))
		ot.Add(e.txRefTable(e.other, i))
	}
	return xt.N(hs, ls, st, ot, tl)
}

func (e *c14Env) moved() int {
	n := 0
	for i := range e.specs {
		if !bytes.Equal(e.head(i), e.obsHeads[i]) {
			n++
		}
	}
	return n
}

// txEntries = number of reflog entries of branch i that carry the transaction id
func (e *c14Env) txEntries(i int) int {
	n := 0
	for _, en := range e.logs(i) {
		if bytes.Equal(en.txid, e.me[:]) {
			n++
		}
	}
	return n
}

// another writer: an ordinary commit of table t lands on branch i.  If the transaction has not landed
// there yet, this simply is the branch's new pre-transaction state; if it has, the ordinary commit must
// stay the head and the reflog must stay as it is now, whatever Commit does afterwards.
func (e *c14Env) otherWriter(i, t int) {
	landedBefore := !e.preLogged[i] && e.txEntries(i) > 0
	e.plainCommit(i, t)
	e.hadPlain = true
	if landedBefore || e.post[i] != nil {
		e.post[i] = &c14Post{head: e.head(i), logs: e.logs(i)}
	} else {
		e.baseHeads[i], e.baseLogs[i] = e.head(i), e.logs(i)
	}
}

func (e *c14Env) observe(errClass int, amb, tamb, damb bool) *xt.T {
	mv := e.moved()
	snap := xt.N()
	sc := 0
	for _, st := range e.stagedNow() {
		if st {
			sc++
		}
	}
	status := e.status()
	dpart := damb && status == 1
	if ((mv == 0 && !tamb) || mv == e.nStaged) && (sc == 0 || sc == e.nRefs) && !dpart {
		snap = xt.N(e.snapshot())
	}
	no := e.objCount() - e.baseObjs
	if ((amb || tamb) && mv != e.nStaged) || e.hadPlain {
		no = 9
	}
	if tamb && mv != e.nStaged {
		mv = 9
	}
	if dpart {
		sc = 9
	}
	return xt.N(xt.LI(errClass), xt.N(xt.LI(mv), xt.LI(no), xt.LI(status), xt.LI(sc)), snap)
}

// ---------------------------------------------------------------- oracle (independent of the model)

func c14LogsEqual(a, b []c14Log) bool {
	if len(a) != len(b) {
		return false
	}
	for i := range a {
		if !bytes.Equal(a[i].old, b[i].old) || !bytes.Equal(a[i].new, b[i].new) || !bytes.Equal(a[i].txid, b[i].txid) {
			return false
		}
	}
	return true
}

const c14NoLog = "reflog is not the old reflog plus one entry (old head, new head, txid)"
const c14TriggerMsg = "c14 injected sql failure"

// arm installs a trigger that makes one SQL statement inside SetWithLog of heads/<victim> fail
func (e *c14Env) arm(kind, half, victim int) {
	bname := "nosuchbranch"
	if victim < len(e.names) {
		bname = e.names[victim]
	}
	quote := func(x string) string { return "'" + strings.ReplaceAll(x, "'", "''") + "'" }
	idHex := quote(strings.ToUpper(hex.EncodeToString(e.me[:])))
	body := " BEGIN SELECT RAISE(ABORT, '" + c14TriggerMsg + "'); END"
	var stmts []string
	switch {
	case kind == 4 && half == 0:
		stmts = []string{"CREATE TRIGGER c14_f1 BEFORE INSERT ON reflogs WHEN NEW.ref = " + quote(ref.HeadRef(bname)) + body}
	case kind == 4 && half == 1:
		stmts = []string{
			"CREATE TRIGGER c14_f1 BEFORE INSERT ON refs WHEN NEW.name = " + quote(ref.HeadRef(bname)) + body,
			"CREATE TRIGGER c14_f2 BEFORE UPDATE ON refs WHEN NEW.name = " + quote(ref.HeadRef(bname)) + body,
		}
	case kind == 4: // the status flip
		stmts = []string{"CREATE TRIGGER c14_f1 BEFORE UPDATE ON transactions WHEN hex(NEW.id) = " + idHex + body}
	case kind == 5 && half == 0:
		stmts = []string{"CREATE TRIGGER c14_f1 BEFORE DELETE ON refs WHEN OLD.name = " + quote(ref.TransactionRef(e.me.String(), bname)) + body}
	default:
		stmts = []string{"CREATE TRIGGER c14_f1 BEFORE DELETE ON transactions WHEN hex(OLD.id) = " + idHex + body}
	}
	for _, st := range stmts {
		_, err := e.sqldb.Exec(st)
		c14Must(err)
	}
}

func (e *c14Env) disarm() {
	for _, t := range []string{"c14_f1", "c14_f2"} {
		_, err := e.sqldb.Exec("DROP TRIGGER IF EXISTS " + t)
		c14Must(err)
	}
}

const c14ParentDropped = "existing branch but the commit has no parent"

// landed reports whether branch i has been advanced by exactly the transaction's one commit
// (staged table, parent = pre-transaction head, prefixed message) and logged so; "" = yes.
func (e *c14Env) landed(i int) string {
	h := e.head(i)
	if e.stagedSum[i] == nil {
		return "branch not staged in the transaction"
	}
	com, err := c14GetCommit(e.db, h)
	if err != nil {
		return "head does not resolve to a stored commit"
	}
	st, err := c14GetCommit(e.db, e.stagedSum[i])
	if err != nil {
		return "staged commit object missing"
	}
	if !bytes.Equal(com.Table, st.Table) {
		return "head does not carry the staged table"
	}
	if e.baseHeads[i] == nil {
		if len(com.Parents) != 0 {
			return "new branch but the commit has a parent"
		}
	} else if len(com.Parents) == 0 {
		return c14ParentDropped
	} else if len(com.Parents) != 1 || !bytes.Equal(com.Parents[0], e.baseHeads[i]) {
		return "parent is not the pre-transaction head"
	}
	if com.Message != e.txPrefix(e.me)+st.Message {
		return "message is not the staged message with one transaction prefix"
	}
	if com.AuthorName != st.AuthorName || com.AuthorEmail != st.AuthorEmail || !com.Time.Equal(st.Time) {
		return "author/time differ from the staged commit"
	}
	lg := e.logs(i)
	want := append([]c14Log{{old: e.baseHeads[i], new: h, txid: e.me[:]}}, e.baseLogs[i]...)
	if !c14LogsEqual(lg, want) {
		return c14NoLog
	}
	return ""
}

// stacked = number of commits with this transaction's prefix on the first-parent chain
func (e *c14Env) stacked(i int) int {
	n := 0
	sum := e.head(i)
	for steps := 0; sum != nil && steps < 64; steps++ {
		com, err := c14GetCommit(e.db, sum)
		if err != nil {
			break
		}
		if strings.HasPrefix(com.Message, e.txPrefix(e.me)) {
			n++
		}
		if len(com.Parents) == 0 {
			break
		}
		sum = com.Parents[0]
	}
	return n
}

// invariants of every state reachable by Commit/Discard of THE transaction from the baseline
func (e *c14Env) checkState() Verdict {
	nl := 0
	for i := range e.specs {
		h := e.head(i)
		if h != nil {
			if _, err := c14GetCommit(e.db, h); err != nil {
				return Fail("dangling-head", "branch %s points at a commit that is not stored", e.names[i])
			}
		}
		if e.hadPlain && !e.preLogged[i] && (e.txEntries(i) > 1 || e.stacked(i) > 1) {
			return Fail("tx-commit-duplicated", "branch %s: %d reflog entries carry the transaction id and %d commits of the transaction are in its history (want at most one each)", e.names[i], e.txEntries(i), e.stacked(i))
		}
		if p := e.post[i]; p != nil {
			if !bytes.Equal(h, p.head) || !c14LogsEqual(e.logs(i), p.logs) {
				return Fail("tx-commit-duplicated", "branch %s had landed and then received an ordinary commit; that commit is no longer the head or the reflog changed", e.names[i])
			}
			nl++
			continue
		}
		if e.stacked(i) > 1 {
			return Fail("duplicate-commit", "branch %s carries %d commits of the transaction (want at most one)", e.names[i], e.stacked(i))
		}
		if bytes.Equal(h, e.baseHeads[i]) {
			if !c14LogsEqual(e.logs(i), e.baseLogs[i]) {
				return Fail("log-without-move", "branch %s did not move but its reflog changed", e.names[i])
			}
			continue
		}
		if why := e.landed(i); why != "" {
			if why == c14NoLog && c14LogsEqual(e.logs(i), e.baseLogs[i]) {
				return Fail("moved-without-log", "branch %s moved but its reflog has no entry for the move (ref update and log row are not atomic)", e.names[i])
			}
			if why == c14ParentDropped {
				return Fail("parent-dropped", "branch %s moved onto a commit without parent: its history is orphaned", e.names[i])
			}
			return Fail("branch-inconsistent", "branch %s moved but %s", e.names[i], why)
		}
		nl++
	}
	if e.status() == 2 {
		for i, st := range e.stagedNow() {
			if st && !e.preLogged[i] && e.post[i] == nil && (bytes.Equal(e.head(i), e.baseHeads[i]) || e.landed(i) != "") {
				return Fail("committed-but-partial", "transaction marked committed but staged branch %s has not landed (%d of %d landed)", e.names[i], nl, e.nStaged)
			}
		}
	}
	// GetTransactionLogs reports, per ref, the NEWEST reflog entry that carries the transaction id
	if txl, err := e.rs.GetTransactionLogs(e.me); err == nil {
		for i := range e.specs {
			var newest []byte
			for _, en := range e.logs(i) { // newest first
				if bytes.Equal(en.txid, e.me[:]) {
					newest = en.new
					break
				}
			}
			rl, ok := txl[ref.HeadRef(e.names[i])]
			if (newest != nil) != ok || (ok && !bytes.Equal(rl.NewOID, newest)) {
				return Fail("txlogs-not-newest", "GetTransactionLogs does not report the newest entry with the transaction id for %s", e.names[i])
			}
		}
	}
	// staged refs never outlive their transaction row (nothing could discard or collect them any more)
	if e.flags != 1 && e.status() == 0 {
		for i, st := range e.stagedNow() {
			if st {
				return Fail("discard-not-completable", "the transaction row is gone but its staged ref on %s remains: Discard can never finish and gc never finds it", e.names[i])
			}
		}
	}
	// the other transactions are never touched
	for i, s := range e.otherSum {
		got, err := e.rs.Get(ref.TransactionRef(e.other.String(), e.names[i]))
		if (s == nil) != (err != nil) || (s != nil && !bytes.Equal(got, s)) {
			return Fail("other-tx-touched", "staged ref of another transaction changed on %s", e.names[i])
		}
	}
	if tx, err := e.rs.GetTransaction(e.other); err != nil || tx.Status != ref.TSInProgress {
		return Fail("other-tx-touched", "another in-progress transaction changed status")
	}
	if tx, err := e.rs.GetTransaction(e.old); err != nil || tx.Status != ref.TSCommitted {
		return Fail("other-tx-touched", "an earlier committed transaction changed status")
	}
	return OK()
}

func (e *c14Env) stagedNow() []bool {
	res := make([]bool, len(e.specs))
	for i := range e.specs {
		got, err := e.rs.Get(ref.TransactionRef(e.me.String(), e.names[i]))
		res[i] = err == nil
		if err == nil && !bytes.Equal(got, e.stagedSum[i]) {
			res[i] = false
		}
	}
	return res
}

// ---------------------------------------------------------------- run

func runC14(ctx *Ctx, c *xt.T) (*xt.T, Verdict) {
	flags := int(c.Kids[0].N)
	var specs []c14Spec
	for _, b := range c.Kids[1].Kids {
		sp := c14Spec{hist: int(b.Kids[0].N), staged: -1, late: b.Kids[2].N != 0, other: -1}
		if len(b.Kids[1].Kids) == 1 {
			sp.staged = int(b.Kids[1].Kids[0].N)
		}
		if len(b.Kids[3].Kids) == 1 {
			sp.other = int(b.Kids[3].Kids[0].N)
		}
		specs = append(specs, sp)
	}
	if len(specs) > len(c14Names) {
		panic("c14: too many branches")
	}
	e := c14NewEnv(ctx, flags, specs)
	defer e.close()
	out := xt.N()
	v := OK()
	bad := func(x Verdict) {
		if v.OK && !x.OK {
			v = x
		}
	}
	masked := false
	faultedCommits := 0
	tamb, damb := false, false
	discardPending := false // a Discard of the in-progress transaction failed part-way
	for opi, op := range c.Kids[2].Kids {
		kind := int(op.Kids[0].N)
		if kind == 6 {
			e.otherWriter(int(op.Kids[1].N), int(op.Kids[2].N))
			bad(e.checkState())
			ec := 0
			if masked {
				ec = 3
			}
			out.Add(e.observe(ec, faultedCommits >= 2, tamb, damb))
			continue
		}
		f := &c14Fault{mode: -1}
		if kind == 0 || kind == 4 {
			faultedCommits++
		}
		if kind == 4 || kind == 5 {
			half := int(op.Kids[1].N)
			if kind == 4 && half != 2 {
				tamb = true
			}
			if kind == 5 && half == 0 {
				damb = true
			}
			e.arm(kind, half, int(op.Kids[2].N))
		}
		if e.cli && (kind == 0 || kind == 2) {
			panic("c14: store-call faults are not available through the commands")
		}
		if kind == 0 || kind == 2 {
			f.mode = int(op.Kids[1].N)
			f.n = int(op.Kids[2].N)
		}
		rs := &c14RefStore{s: e.rs, f: f}
		db := &c14ObjStore{s: e.db, f: f}
		before := e.dump()
		statusBefore := e.status()
		stagedBefore := e.stagedNow()
		headsBefore := make([][]byte, len(specs))
		logsBefore := make([][]c14Log, len(specs))
		for i := range specs {
			headsBefore[i] = e.head(i)
			logsBefore[i] = e.logs(i)
		}
		var err error
		isCommit := kind == 0 || kind == 1 || kind == 4
		switch {
		case e.cli:
			// the COMMAND on the repository directory: it opens badger and sqlite itself
			e.closeObj()
			viper.Set("wrgl_dir", e.wrglDir)
			sub := "discard"
			if isCommit {
				sub = "commit"
			}
			err = c14Cmd("transaction", sub, e.me.String())
			e.openObj()
		case isCommit:
			_, err = transaction.Commit(db, rs, e.me)
		default:
			err = transaction.Discard(rs, e.me)
		}
		if kind == 4 || kind == 5 {
			e.disarm()
			if err != nil && strings.Contains(err.Error(), c14TriggerMsg) {
				f.fired = true
			}
		}
		if kind == 4 && int(op.Kids[1].N) != 2 {
			victim := int(op.Kids[2].N)
			if f.fired && victim < len(specs) && (!bytes.Equal(headsBefore[victim], e.head(victim)) || !c14LogsEqual(logsBefore[victim], e.logs(victim))) {
				bad(Fail("setwithlog-not-atomic", "a statement inside SetWithLog of heads/%s failed but its head or reflog changed", e.names[victim]))
			}
		}
		ec := 0
		if err != nil {
			ec = 1
		}
		after := e.dump()
		what := fmt.Sprintf("op %d (%s)", opi, map[bool]string{true: "Commit", false: "Discard"}[isCommit])
		// ---- oracle
		bad(e.checkState())
		if isCommit {
			stagedAfter := e.stagedNow()
			for i := range specs {
				if stagedBefore[i] != stagedAfter[i] {
					bad(Fail("commit-touched-staged", "%s changed the staged ref of %s", what, e.names[i]))
				}
			}
			switch statusBefore {
			case 2:
				if err == nil || before != after {
					bad(Fail("double-commit", "%s of an already committed transaction: err=%v, stores changed=%v", what, err, before != after))
				}
			case 0:
				if err == nil || before != after {
					bad(Fail("commit-missing-tx", "%s of a transaction that does not exist: err=%v, stores changed=%v", what, err, before != after))
				}
			case 1:
				if err == nil {
					if e.status() != 2 {
						bad(Fail("commit-ok-but-incomplete", "%s returned nil but the transaction is not marked committed", what))
					}
					for i := range specs {
						if e.stagedSum[i] != nil && stagedBefore[i] && !e.preLogged[i] && e.post[i] == nil {
							if why := e.landed(i); why != "" {
								bad(Fail("commit-ok-but-incomplete", "%s returned nil but on %s: %s", what, e.names[i], why))
							}
						}
					}
				} else if !f.fired {
					// no store failed: an in-progress transaction whose staged objects exist must be completable
					bad(Fail("not-completable", "%s without any store failure returned %v (moved=%d of %d)", what, err, e.moved(), e.nStaged))
				}
			}
			if err == nil && e.status() == 2 {
				// Diff of a committed transaction reports the true (new, old) per branch
				m, _, derr := transaction.Diff(e.rs, e.me)
				if derr != nil {
					bad(Fail("diff-mismatch", "Diff after commit: %v", derr))
				} else {
					for i := range specs {
						if e.stagedSum[i] == nil || !stagedBefore[i] || e.preLogged[i] || e.post[i] != nil {
							continue
						}
						d, ok := m[e.names[i]]
						if !ok || !bytes.Equal(d[0], e.head(i)) || !bytes.Equal(d[1], e.baseHeads[i]) {
							bad(Fail("diff-mismatch", "Diff after commit does not report (new head, pre-transaction head) for %s", e.names[i]))
						}
					}
				}
			}
		} else {
			for i := range specs {
				if !bytes.Equal(headsBefore[i], e.head(i)) || !c14LogsEqual(logsBefore[i], e.logs(i)) {
					bad(Fail("discard-touched-branch", "%s changed head or reflog of %s", what, e.names[i]))
				}
			}
			stagedAfter := e.stagedNow()
			for i := range specs {
				if stagedAfter[i] && !stagedBefore[i] {
					bad(Fail("discard-created-ref", "%s created a staged ref on %s", what, e.names[i]))
				}
			}
			if discardPending && f.mode == -1 && statusBefore != 2 {
				left, lerr := ref.ListTransactionRefs(e.rs, e.me)
				if err != nil || lerr != nil || len(left) != 0 || e.status() != 0 {
					bad(Fail("discard-not-completable", "%s re-run without failure after an interrupted Discard: err=%v, %d staged refs remain, status=%d", what, err, len(left), e.status()))
				}
				discardPending = false
			}
			if statusBefore == 1 && err != nil {
				discardPending = true
			}
			switch statusBefore {
			case 2:
				if err == nil || before != after {
					bad(Fail("discard-after-commit", "%s of a committed transaction: err=%v, stores changed=%v", what, err, before != after))
				}
			case 0:
				if err == nil {
					bad(Fail("discard-missing-tx", "%s of a transaction that does not exist returned nil", what))
				}
				for i := range specs {
					if !bytes.Equal(headsBefore[i], e.head(i)) {
						bad(Fail("discard-touched-branch", "%s changed head of %s", what, e.names[i]))
					}
				}
			case 1:
				if err == nil {
					left, lerr := ref.ListTransactionRefs(e.rs, e.me)
					if lerr != nil || len(left) != 0 || e.status() != 0 {
						bad(Fail("discard-incomplete", "%s returned nil but %d staged refs remain, status=%d", what, len(left), e.status()))
					}
				} else if !f.fired {
					bad(Fail("discard-failed", "%s of an in-progress transaction without any store failure returned %v", what, err))
				}
			}
		}
		// ---- observation
		if f.mode == 2 {
			masked = true
			out.Add(xt.N(xt.LI(3)))
			continue
		}
		if masked {
			ec = 3
		}
		out.Add(e.observe(ec, faultedCommits >= 2, tamb, damb))
	}
	return out, v
}

// ---------------------------------------------------------------- generator

// table id of the head of branch i right before the first op (-1 = the branch does not exist)
func c14HeadTable(i int, sp c14Spec) int {
	base := 100 + 10*i
	switch {
	case sp.late:
		return base + 5
	case sp.hist == 0:
		return -1
	case sp.hist == 1:
		return base
	case sp.hist == 4:
		return base + 2
	}
	return base + 1
}

func c14BSpec(sp c14Spec) *xt.T {
	st, ot := xt.N(), xt.N()
	if sp.staged >= 0 {
		st = xt.N(xt.LI(sp.staged))
	}
	if sp.other >= 0 {
		ot = xt.N(xt.LI(sp.other))
	}
	return xt.N(xt.LI(sp.hist), st, xt.Bool(sp.late), ot)
}

func c14Perm(ctx *Ctx, k int) *xt.T {
	if ctx == nil {
		return xt.N()
	}
	p := ctx.Rng.Perm(k)
	// sometimes a partial order (the model appends the rest in store order)
	if ctx.Pick(4) == 0 {
		p = p[:ctx.Pick(k+1)]
	}
	return xt.Ints(p)
}

type c14Gen struct {
	ctx   *Ctx
	cases []Case
}

func (g *c14Gen) opCF(mode, n, k int) *xt.T {
	return xt.N(xt.LI(0), xt.LI(mode), xt.LI(n), c14Perm(g.ctx, k))
}
func (g *c14Gen) opC(k int) *xt.T { return xt.N(xt.LI(1), c14Perm(g.ctx, k)) }
func (g *c14Gen) opDF(mode, n, k int) *xt.T {
	return xt.N(xt.LI(2), xt.LI(mode), xt.LI(n), c14Perm(g.ctx, k))
}
func (g *c14Gen) opD(k int) *xt.T { return xt.N(xt.LI(3), c14Perm(g.ctx, k)) }
func (g *c14Gen) opCT(half, victim, k int) *xt.T {
	return xt.N(xt.LI(4), xt.LI(half), xt.LI(victim), c14Perm(g.ctx, k))
}

func (g *c14Gen) opDT(half, victim, k int) *xt.T {
	return xt.N(xt.LI(5), xt.LI(half), xt.LI(victim), c14Perm(g.ctx, k))
}

// the COMMANDS `wrgl transaction commit` / `discard` on a real repository (badger + sqlite): only
// SQL-statement faults are available there; every ref write of every branch, the status flip, the
// deletes of Discard; then the re-run through the command
func (g *c14Gen) cliFamilies(tag string, specs []c14Spec, full bool) {
	k := len(specs)
	g.emit(tag, 2, specs, g.opC(k), g.opC(k), g.opD(k))
	g.emit(tag, 2, specs, g.opCT(2, 0, k), g.opC(k), g.opC(k), g.opD(k))
	for victim := 0; victim < k; victim++ {
		for half := 0; half <= 1; half++ {
			if full || half == 0 || g.ctx.Pick(2) == 0 {
				g.emit(tag, 2, specs, g.opCT(half, victim, k), g.opC(k), g.opC(k), g.opD(k))
				g.ctx.Count("cli_sql_statement_faults")
			}
		}
		if full {
			g.emit(tag, 2, specs, g.opCT(0, victim, k), g.opCT(1, victim, k), g.opD(k), g.opC(k))
			g.emit(tag, 2, specs, g.opDT(0, victim, k), g.opD(k), g.opD(k))
		}
	}
	g.emit(tag, 2, specs, g.opDT(1, 0, k), g.opD(k), g.opC(k))
	if !full {
		g.emit(tag, 2, specs, g.opDT(0, g.ctx.Pick(k), k), g.opD(k), g.opD(k))
	}
}

func (g *c14Gen) opP(b, t int) *xt.T { return xt.N(xt.LI(6), xt.LI(b), xt.LI(t)) }

// another writer between an interrupted Commit and its re-run: an ordinary commit lands on a staged branch
// (only at points where which branches have landed does not depend on the enumeration order: all landed
// after a failed status flip or a crash before it, none landed, or a single staged branch)
func (g *c14Gen) writerFamilies(tag string, flags int, specs []c14Spec, full bool) {
	k := len(specs)
	var staged []int
	for i, sp := range specs {
		if sp.staged >= 0 {
			staged = append(staged, i)
		}
	}
	ns := len(staged)
	for _, v := range staged {
		t := 150 + 10*v
		// all landed, status flip failed; ordinary commit on v; re-run; double commit; discard
		g.emit(tag, flags, specs, g.opCT(2, 0, k), g.opP(v, t), g.opC(k), g.opC(k), g.opD(k))
		g.ctx.Count("other_writer_between_runs")
		// two ordinary commits, and one on every staged branch
		if full {
			g.emit(tag, flags, specs, g.opCT(2, 0, k), g.opP(v, t), g.opP(v, t+1), g.opC(k), g.opD(k))
			// none landed yet (fault in the victim's own SetWithLog when it is the only staged branch, else object only)
			g.emit(tag, flags, specs, g.opP(v, t), g.opC(k), g.opP(v, t+1), g.opC(k))
		}
		if flags == 0 {
			// crash right before the status flip (all landed)
			g.emit(tag, 0, specs, g.opCF(0, 2*ns, k), g.opP(v, t), g.opC(k), g.opC(k))
			g.emit(tag, 0, specs, g.opCF(0, 1, k), g.opCF(0, 2*ns, k), g.opP(v, t), g.opCF(0, 0, k), g.opC(k))
			if ns == 1 {
				for n := 0; n <= 2; n++ {
					g.emit(tag, 0, specs, g.opCF(0, n, k), g.opP(v, t), g.opC(k), g.opC(k))
				}
				g.emit(tag, 0, specs, g.opCT(0, v, k), g.opP(v, t), g.opC(k), g.opC(k))
			}
		}
	}
	if ns >= 2 {
		ops := []*xt.T{g.opCT(2, 0, k)}
		for _, v := range staged {
			ops = append(ops, g.opP(v, 150+10*v))
		}
		ops = append(ops, g.opC(k), g.opC(k), g.opD(k))
		g.emit(tag, flags, specs, ops...)
	}
}

func (g *c14Gen) emit(tag string, flags int, specs []c14Spec, ops ...*xt.T) {
	bs := xt.N()
	ns := 0
	for _, sp := range specs {
		bs.Add(c14BSpec(sp))
		if sp.staged >= 0 {
			ns++
		}
	}
	g.cases = append(g.cases, Case{Tag: tag, Nontrivial: ns >= 1 && flags != 1 && len(ops) >= 2, C: xt.N(xt.LI(flags), bs, xt.N(ops...))})
	g.ctx.Count("cases_" + tag)
	g.ctx.Count(fmt.Sprintf("staged_branches_%d", ns))
}

// every script family for one configuration
func (g *c14Gen) families(tag string, specs []c14Spec, full bool) {
	k := len(specs)
	ns := 0
	for _, sp := range specs {
		if sp.staged >= 0 {
			ns++
		}
	}
	W := 2*ns + 1 // mutating calls of Commit
	WD := ns + 1  // mutating calls of Discard
	for n := 0; n <= W; n++ {
		// fault, re-run, double commit, discard after commit
		g.emit(tag, 0, specs, g.opCF(0, n, k), g.opC(k), g.opC(k), g.opD(k))
		g.ctx.Count("fault_positions_commit")
		if full || g.ctx.Pick(3) == 0 {
			g.emit(tag, 0, specs, g.opCF(1, n, k), g.opC(k), g.opC(k), g.opD(k))
		}
		// discard of a partially landed, still in-progress transaction, then commit (no such tx)
		g.emit(tag, 0, specs, g.opCF(0, n, k), g.opD(k), g.opC(k))
	}
	for n := 0; n <= WD; n++ {
		g.emit(tag, 0, specs, g.opDF(0, n, k), g.opD(k), g.opD(k), g.opC(k))
		g.ctx.Count("fault_positions_discard")
		if full || g.ctx.Pick(3) == 0 {
			g.emit(tag, 0, specs, g.opDF(1, n, k), g.opD(k), g.opD(k), g.opC(k))
		}
	}
	// the status flip fails; one DELETE of Discard fails (SQL statement level)
	g.emit(tag, 0, specs, g.opCT(2, 0, k), g.opC(k), g.opC(k), g.opD(k))
	g.emit(tag, 0, specs, g.opDT(1, 0, k), g.opD(k), g.opC(k))
	for victim := 0; victim < k; victim++ {
		if full || g.ctx.Pick(2) == 0 {
			g.emit(tag, 0, specs, g.opDT(0, victim, k), g.opD(k), g.opD(k), g.opC(k))
		}
	}
	// a single SQL statement inside SetWithLog of each branch fails (below the ref.Store method)
	for victim := 0; victim < k; victim++ {
		for half := 0; half <= 1; half++ {
			g.emit(tag, 0, specs, g.opCT(half, victim, k), g.opC(k), g.opC(k), g.opD(k))
			g.ctx.Count("sql_statement_faults")
			if full || g.ctx.Pick(2) == 0 {
				// after a crash that landed nothing yet (later cut points make "has the victim landed" depend on
				// map order), and twice in a row on the same victim, the other half
				g.emit(tag, 0, specs, g.opCF(0, g.ctx.Pick(2), k), g.opCT(half, victim, k), g.opC(k), g.opC(k))
				g.emit(tag, 0, specs, g.opCT(half, victim, k), g.opCT(1-half, victim, k), g.opC(k), g.opD(k))
			}
		}
	}
	// two crashes in a row, then completion
	for n1 := 0; n1 < W; n1++ {
		for n2 := 0; n2 <= W-n1; n2++ {
			if full || g.ctx.Pick(3) == 0 {
				g.emit(tag, 0, specs, g.opCF(0, n1, k), g.opCF(0, n2, k), g.opC(k), g.opC(k))
				g.ctx.Count("double_crash")
			}
		}
	}
	// failing reads as well: every store call of any kind
	for n := 0; n <= 5*ns+4; n++ {
		if full || g.ctx.Pick(2) == 0 {
			g.emit(tag, 0, specs, g.opCF(2, n, k), g.opC(k), g.opC(k), g.opD(k))
			g.ctx.Count("fault_positions_anycall")
		}
	}
	for n := 0; n <= ns+3; n++ {
		if full || g.ctx.Pick(2) == 0 {
			g.emit(tag, 0, specs, g.opDF(2, n, k), g.opD(k), g.opC(k))
		}
	}
}

func genC14(ctx *Ctx) []Case {
	g := &c14Gen{ctx: ctx}
	S := func(hist, staged int, late bool, other int) c14Spec {
		return c14Spec{hist: hist, staged: staged, late: late, other: other}
	}
	// witnesses of the two repaired defects (known_findings.txt, C14)
	w := []c14Spec{S(1, 1, false, -1), S(0, 2, false, -1)}
	g.emit("witness", 0, w, g.opC(2), g.opC(2))                  // second Commit stacked duplicates
	g.emit("witness", 0, w, g.opCF(0, 2, 2), g.opC(2))           // crash after the first branch, re-run
	g.emit("witness", 0, w, g.opC(2), g.opD(2))                  // Discard after Commit deleted staged refs
	g.emit("witness", 0, w, g.opCF(0, 3, 2), g.opC(2), g.opD(2)) // object stored, ref not yet
	g.emit("witness", 1, w, g.opC(2), g.opD(2), g.opCF(0, 0, 2))
	// seeded: SetWithLog split into Set + INSERT reflogs (ref moves before its log row exists)
	g.emit("witness", 0, w, g.opCT(0, 0, 2), g.opC(2), g.opC(2))
	g.emit("witness", 0, w, g.opCT(0, 1, 2), g.opC(2), g.opC(2))
	g.emit("witness", 0, w, g.opCT(1, 0, 2), g.opC(2), g.opD(2))
	// seeded: Commit skipped a branch whose head already holds the staged table (no move, no log entry)
	g.emit("witness", 0, []c14Spec{S(1, 100, false, -1)}, g.opC(1), g.opC(1))
	g.emit("witness", 0, []c14Spec{S(1, 100, false, -1), S(0, 100, false, -1)}, g.opCF(0, 2, 2), g.opC(2), g.opD(2))
	// seeded: Discard deleted the transaction row before the staged refs
	g.emit("witness", 0, w, g.opDF(0, 1, 2), g.opD(2), g.opD(2))
	g.emit("witness", 0, w, g.opDF(1, 2, 2), g.opD(2), g.opC(2))
	// ed29119: a failing read of the branch head (5th store call) dropped the parent
	g.emit("witness", 0, []c14Spec{S(1, 1, false, -1)}, g.opCF(2, 4, 1), g.opC(1))
	g.emit("witness", 0, []c14Spec{S(0, 1, true, -1), S(3, 2, false, -1)}, g.opCF(2, 4, 2), g.opC(2), g.opC(2), g.opD(2))
	g.emit("witness", 0, []c14Spec{S(0, 1, true, -1), S(3, 2, false, -1)}, g.opCF(2, 9, 2), g.opC(2), g.opC(2), g.opD(2))
	// exhaustive, one branch: every history x late x other
	for hist := 0; hist <= 3; hist++ {
		for _, late := range []bool{false, true} {
			for _, other := range []int{-1, 21} {
				g.families("exh1", []c14Spec{S(hist, 1, late, other)}, true)
			}
		}
	}
	// exhaustive, two branches over a reduced alphabet (at least one staged)
	alpha := []c14Spec{S(0, 1, false, -1), S(1, 1, false, -1), S(3, 1, false, -1), S(2, 1, true, 21), S(0, 1, false, 21), S(1, -1, false, 22)}
	for i, a := range alpha {
		for j, b := range alpha {
			if a.staged < 0 && b.staged < 0 {
				continue
			}
			a2, b2 := a, b
			if b2.staged >= 0 {
				b2.staged = 2
			}
			if (i+j)%5 == 0 && a2.staged >= 0 && b2.staged >= 0 && a2.hist == b2.hist && !a2.late && !b2.late {
				b2.staged = a2.staged // the same data staged on two branches (identical commit objects when both are new)
				ctx.Count("same_table_twice")
			}
			g.families("exh2", []c14Spec{a2, b2}, ctx.Thorough())
		}
	}
	// the same staged table on two new branches: the two new commits are ONE object
	g.families("exh2", []c14Spec{S(0, 7, false, -1), S(0, 7, false, -1)}, true)
	// table identity patterns: the staged table equal to the branch's own head table, to another
	// branch's head table, to another branch's staged table; new branches staging an existing table
	for hist := 0; hist <= 3; hist++ {
		for _, late := range []bool{false, true} {
			sp := S(hist, 0, late, -1)
			if t := c14HeadTable(0, sp); t >= 0 {
				sp.staged = t
				g.families("tbl1", []c14Spec{sp}, true)
				ctx.Count("staged_equals_own_head_table")
			}
		}
	}
	for _, ha := range []int{0, 1, 3} {
		for _, hb := range []int{1, 2} {
			a, b := S(ha, 1, false, -1), S(hb, 2, hb == 2, -1)
			tb := c14HeadTable(1, b)
			// both stage b's head table (b: own head; a: another branch's head, same as b's staged)
			a.staged, b.staged = tb, tb
			g.families("tbl2", []c14Spec{a, b}, ctx.Thorough() || ha == 1)
			ctx.Count("staged_equals_other_head_table")
			if ta := c14HeadTable(0, a); ta >= 0 {
				// crossed: each stages the other's head table
				a.staged, b.staged = tb, ta
				g.families("tbl2", []c14Spec{a, b}, ctx.Thorough())
				// own head table on one branch, fresh table on the other, bystander-free
				a.staged, b.staged = ta, 2
				g.families("tbl2", []c14Spec{a, b}, ctx.Thorough())
				ctx.Count("staged_equals_own_head_table")
			}
		}
	}
	// three and four branches: random configurations, every fault position
	n3, n4 := 5, 3
	if ctx.Thorough() {
		n3, n4 = 40, 30
	}
	randSpec := func(i int, forceStaged bool) c14Spec {
		sp := S(ctx.Pick(4), i+1, ctx.Pick(4) == 0, -1)
		if !forceStaged && ctx.Pick(5) == 0 {
			sp.staged = -1
		}
		if ctx.Pick(4) == 0 {
			sp.other = 21 + i
		}
		return sp
	}
	// impose a table identity pattern on a random configuration
	retable := func(specs []c14Spec) {
		for i := range specs {
			if specs[i].staged < 0 {
				continue
			}
			switch ctx.Pick(6) {
			case 0: // own head's table
				if t := c14HeadTable(i, specs[i]); t >= 0 {
					specs[i].staged = t
					ctx.Count("staged_equals_own_head_table")
				}
			case 1: // another branch's head table
				j := ctx.Pick(len(specs))
				if t := c14HeadTable(j, specs[j]); t >= 0 && j != i {
					specs[i].staged = t
					ctx.Count("staged_equals_other_head_table")
				}
			case 2: // another branch's staged table
				j := ctx.Pick(len(specs))
				if specs[j].staged >= 0 && j != i {
					specs[i].staged = specs[j].staged
					ctx.Count("same_table_twice")
				}
			}
		}
	}
	for r := 0; r < n3+n4; r++ {
		k := 3
		if r >= n3 {
			k = 4
		}
		var specs []c14Spec
		for i := 0; i < k; i++ {
			specs = append(specs, randSpec(i, i == 0))
		}
		if r%2 == 1 {
			retable(specs)
		}
		g.families(fmt.Sprintf("rand%d", k), specs, ctx.Thorough())
	}
	// a ref that already carries TWO log entries with the transaction's id (hist 4): GetTransactionLogs must
	// report the newest; Commit treats the branch as landed
	g.families("relog", []c14Spec{S(4, 1, false, -1)}, true)
	g.families("relog", []c14Spec{S(4, 1, false, -1), S(1, 2, false, -1)}, ctx.Thorough())
	g.families("relog", []c14Spec{S(0, 1, false, 21), S(4, 2, false, -1)}, ctx.Thorough())
	// another writer between the interrupted Commit and the re-run
	g.writerFamilies("writer", 0, []c14Spec{S(1, 1, false, -1)}, true)
	g.writerFamilies("writer", 0, []c14Spec{S(0, 1, false, 21)}, true)
	g.writerFamilies("writer", 0, []c14Spec{S(1, 1, false, -1), S(0, 2, false, -1)}, true)
	g.writerFamilies("writer", 0, []c14Spec{S(3, 1, true, -1), S(2, 102, false, 21), S(1, -1, false, -1)}, ctx.Thorough())
	g.writerFamilies("writer", 2, []c14Spec{S(1, 1, false, -1), S(0, 2, false, -1)}, false)
	if ctx.Thorough() {
		for _, a := range alpha[:5] {
			for _, b := range alpha {
				b2 := b
				if b2.staged >= 0 {
					b2.staged = 2
				}
				g.writerFamilies("writer", 0, []c14Spec{a, b2}, true)
			}
		}
		for r := 0; r < 10; r++ {
			var specs []c14Spec
			for i := 0; i < 3+r%2; i++ {
				specs = append(specs, randSpec(i, i < 2))
			}
			g.writerFamilies("writer", 2*(r%2), specs, false)
		}
	}
	// the commands on a real repository directory
	g.cliFamilies("cli", []c14Spec{S(1, 1, false, -1), S(0, 2, false, -1)}, true)
	g.cliFamilies("cli", []c14Spec{S(3, 1, true, 21), S(2, 102, false, -1), S(1, -1, false, 22)}, false)
	if ctx.Thorough() {
		g.cliFamilies("cli", []c14Spec{S(4, 1, false, -1), S(1, 2, false, -1)}, true)
		for _, a := range alpha[:5] {
			for _, b := range alpha {
				b2 := b
				if b2.staged >= 0 {
					b2.staged = 2
				}
				g.cliFamilies("cli", []c14Spec{a, b2}, false)
			}
		}
		for r := 0; r < 8; r++ {
			var specs []c14Spec
			for i := 0; i < 3+r%2; i++ {
				specs = append(specs, randSpec(i, i < 2))
			}
			retable(specs)
			g.cliFamilies("cli", specs, false)
		}
	}
	// transaction that was never created
	for k := 1; k <= 2; k++ {
		var specs []c14Spec
		for i := 0; i < k; i++ {
			specs = append(specs, S(i, i+1, false, -1))
		}
		g.emit("notx", 1, specs, g.opC(k), g.opD(k), g.opCF(0, 0, k), g.opDF(1, 0, k))
	}
	return g.cases
}
