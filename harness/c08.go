package main

import (
	"bytes"
	"database/sql"
	"encoding/hex"
	"errors"
	"fmt"
	"regexp"
	"sort"
	"sync/atomic"
	"time"

	_ "github.com/mattn/go-sqlite3"
	apiutils "github.com/wrgl/wrgl/pkg/api/utils"
	"github.com/wrgl/wrgl/pkg/objects"
	objmock "github.com/wrgl/wrgl/pkg/objects/mock"
	refsql "github.com/wrgl/wrgl/pkg/ref/sql"

	"verifharness/xt"
)

// C08: ClosedSetsFinder (pkg/api/utils/closed_sets_finder.go + pkg/ref/commits_queue.go) vs the
// model coq/model/ClosedSets.v and vs an independent reachability oracle.
//
// Real stores: objmock object store (commits via objects.SaveCommit, "full" commits get a table
// object via objects.SaveTable so that TableExist is true) + SQLite in-memory ref store (refsql).
//
// case  = (0 depth commits tables refs rounds)
//           commits = ((id (parent ...) time table) ...)  parents listed before children; an id that
//                     is not listed is an unknown hash (unknown have / want / dangling parent / ref)
//           tables  = (t ...)     table ids present in the object store
//           refs    = (id ...)    one ref per entry (duplicates = two refs on one commit)
//           rounds  = (((want ...) (have ...) done) ...)  one Process call each, then CommitsToSend,
//                     TablesToSend, CommonCommmits
//       | (1 n)                   chain of n stacked diamonds (3n+1 commits), ref = want = top
// round-obs = (0 (ack ...)) | (1 (unrecognised want ...)) | (2) other error
// obs (0 ...), single mode (every enqueueWants call looped over <= 1 want):
//         (0 (round-obs ...) fin)   fin = (0 (commit ...) (table ...) (common ...) (order cover sound acks)) | (2)
//           CommitsToSend as the exact list; TablesToSend and CommonCommmits as sorted id sets
//     multi mode (some enqueueWants call looped over >= 2 wants, so Go map order matters):
//         (1 (canon) tabs)  canon = ((round-obs ...) fin') with the commits as a sorted SET and the
//           table set only when depth = 0; tabs = the distinct TablesToSend sets seen over repeated
//           runs with permuted wants (only depth > 0 and a single round), else ()
// obs (1 n) = (0 len distinct)

func init() { props["C08"] = &Prop{Gen: genC08, Run: runC08} }

type c08Commit struct {
	id      int
	parents []int
	time    int
	table   int
}

type c08Round struct {
	wants []int
	haves []int
	done  bool
}

type c08Case struct {
	depth   int
	commits []c08Commit
	tables  []int
	refs    []int
	rounds  []c08Round
}

func (c *c08Case) tree() *xt.T {
	cs := xt.N()
	for _, k := range c.commits {
		cs.Add(xt.N(xt.LI(k.id), xt.Ints(k.parents), xt.LI(k.time), xt.LI(k.table)))
	}
	rs := xt.N()
	for _, r := range c.rounds {
		rs.Add(xt.N(xt.Ints(r.wants), xt.Ints(r.haves), xt.Bool(r.done)))
	}
	return xt.N(xt.LI(0), xt.LI(c.depth), cs, xt.Ints(c.tables), xt.Ints(c.refs), rs)
}

func c08Ints(t *xt.T) []int {
	r := make([]int, len(t.Kids))
	for i, k := range t.Kids {
		r[i] = int(k.N)
	}
	return r
}

func c08Parse(t *xt.T) *c08Case {
	c := &c08Case{depth: int(t.Kids[1].N)}
	for _, k := range t.Kids[2].Kids {
		c.commits = append(c.commits, c08Commit{id: int(k.Kids[0].N), parents: c08Ints(k.Kids[1]), time: int(k.Kids[2].N), table: int(k.Kids[3].N)})
	}
	c.tables = c08Ints(t.Kids[3])
	c.refs = c08Ints(t.Kids[4])
	for _, k := range t.Kids[5].Kids {
		c.rounds = append(c.rounds, c08Round{wants: c08Ints(k.Kids[0]), haves: c08Ints(k.Kids[1]), done: k.Kids[2].N != 0})
	}
	return c
}

// ---------------------------------------------------------------------------
// environment
// ---------------------------------------------------------------------------

var (
	c08SQL    *sql.DB
	c08RS     *refsql.Store
	c08Seq    int64
	c08UnrecR = regexp.MustCompile(`[0-9a-f]{32}`)
)

func c08Must(err error) {
	if err != nil {
		panic(err)
	}
}

func c08RefStore() *refsql.Store {
	if c08RS == nil {
		name := fmt.Sprintf("file:c08_%d_%d.db?cache=shared&mode=memory", time.Now().UnixNano(), atomic.AddInt64(&c08Seq, 1))
		db, err := sql.Open("sqlite3", name)
		c08Must(err)
		db.SetMaxOpenConns(1)
		for _, st := range refsql.CreateTableStmts {
			_, err := db.Exec(st)
			c08Must(err)
		}
		c08SQL = db
		c08RS = refsql.NewStore(db)
	}
	_, err := c08SQL.Exec(`DELETE FROM refs`)
	c08Must(err)
	return c08RS
}

type c08Env struct {
	c       *c08Case
	db      *objmock.Store
	rs      *refsql.Store
	sum     map[int][]byte // commit id -> hash (also for unknown ids)
	idOf    map[string]int
	tblSum  map[int][]byte
	tblOf   map[string]int
	parents map[int][]int // known commits only
	tblOfC  map[int]int
	hasTbl  map[int]bool
}

func c08UnknownSum(id int) []byte {
	b := bytes.Repeat([]byte{0xee}, 16)
	b[14] = byte(id >> 8)
	b[15] = byte(id)
	return b
}

func c08NewEnv(c *c08Case) *c08Env {
	e := &c08Env{c: c, db: objmock.NewStore(), rs: c08RefStore(), sum: map[int][]byte{}, idOf: map[string]int{},
		tblSum: map[int][]byte{}, tblOf: map[string]int{}, parents: map[int][]int{}, tblOfC: map[int]int{}, hasTbl: map[int]bool{}}
	for _, t := range c.tables {
		e.hasTbl[t] = true
	}
	scratch := objmock.NewStore()
	tsum := func(t int) []byte {
		if s, ok := e.tblSum[t]; ok {
			return s
		}
		content := []byte(fmt.Sprintf("c08 table %d", t))
		var s []byte
		var err error
		if e.hasTbl[t] {
			s, err = objects.SaveTable(e.db, content)
		} else {
			s, err = objects.SaveTable(scratch, content)
		}
		c08Must(err)
		e.tblSum[t] = s
		e.tblOf[string(s)] = t
		return s
	}
	csum := func(id int) []byte {
		if s, ok := e.sum[id]; ok {
			return s
		}
		s := c08UnknownSum(id)
		e.sum[id] = s
		e.idOf[string(s)] = id
		return s
	}
	// commits are created parents first, whatever the order of the list (first binding of an id wins)
	byID := map[int]c08Commit{}
	for _, k := range c.commits {
		if _, dup := byID[k.id]; !dup {
			byID[k.id] = k
		}
	}
	state := map[int]int{} // 1 = in progress, 2 = created
	var create func(id int) []byte
	create = func(id int) []byte {
		k, listed := byID[id]
		if !listed || state[id] == 1 {
			return csum(id)
		}
		if state[id] == 2 {
			return e.sum[id]
		}
		state[id] = 1
		ps := make([][]byte, len(k.parents))
		for i, p := range k.parents {
			ps[i] = create(p)
		}
		com := &objects.Commit{Table: tsum(k.table), AuthorName: "c08", AuthorEmail: "c08@x", Time: time.Unix(int64(100000+k.time), 0),
			Message: fmt.Sprintf("commit %d", k.id), Parents: ps}
		buf := bytes.NewBuffer(nil)
		_, err := com.WriteTo(buf)
		c08Must(err)
		s, err := objects.SaveCommit(e.db, buf.Bytes())
		c08Must(err)
		e.sum[k.id] = s
		e.idOf[string(s)] = k.id
		e.parents[k.id] = k.parents
		e.tblOfC[k.id] = k.table
		state[id] = 2
		return s
	}
	for _, k := range c.commits {
		create(k.id)
	}
	for i, r := range c.refs {
		c08Must(e.rs.Set(fmt.Sprintf("heads/r%d", i), csum(r)))
	}
	for _, r := range c.rounds {
		for _, w := range r.wants {
			csum(w)
		}
		for _, h := range r.haves {
			csum(h)
		}
	}
	return e
}

func (e *c08Env) sums(ids []int) [][]byte {
	r := make([][]byte, len(ids))
	for i, id := range ids {
		r[i] = e.sum[id]
	}
	return r
}

func (e *c08Env) id(sum []byte) int {
	if id, ok := e.idOf[string(sum)]; ok {
		return id
	}
	return 999999 // a hash that was never handed to the implementation
}

// anc returns the ancestors-or-self of the roots (a missing commit is a parentless node).
func (e *c08Env) anc(roots []int) map[int]bool {
	seen := map[int]bool{}
	var dfs func(c int)
	dfs = func(c int) {
		if seen[c] {
			return
		}
		seen[c] = true
		for _, p := range e.parents[c] {
			dfs(p)
		}
	}
	for _, r := range roots {
		dfs(r)
	}
	return seen
}

func c08Sorted(m map[int]bool) []int {
	r := make([]int, 0, len(m))
	for k := range m {
		r = append(r, k)
	}
	sort.Ints(r)
	return r
}

// ---------------------------------------------------------------------------
// one session on the implementation
// ---------------------------------------------------------------------------

type c08Result struct {
	rounds   []*xt.T
	code     int
	multi    bool
	commits  []int
	tables   []int
	commons  []int
	flags    [4]bool
	accepted []int
	v        Verdict
}

// run executes the rounds with the wants of every round permuted by perm (an index into the
// permutations of the wants slice), then CommitsToSend / TablesToSend / CommonCommmits, and judges
// the result with the oracle.
func (e *c08Env) run(perm int) *c08Result {
	c := e.c
	res := &c08Result{v: OK()}
	bad := func(class, format string, a ...interface{}) {
		if res.v.OK {
			res.v = Fail(class, format, a...)
		}
	}
	f := apiutils.NewClosedSetsFinder(e.db, e.rs, c.depth)
	refAnc := e.anc(c.refs)
	ackOK := true
	for _, r := range c.rounds {
		wants := c08Permute(r.wants, perm)
		union := map[string]bool{}
		for w := range f.Wants {
			union[w] = true
		}
		for _, w := range wants {
			union[string(e.sum[w])] = true
		}
		acks, err := f.Process(e.sums(wants), e.sums(r.haves), r.done)
		// refuse oracle: wants must be reachable from a ref and have their table
		good := true
		for _, w := range r.wants {
			_, known := e.parents[w]
			if !known || !refAnc[w] || !e.hasTbl[e.tblOfC[w]] {
				good = false
			}
		}
		if err != nil {
			var ue *apiutils.UnrecognizedWantsError
			if errors.As(err, &ue) {
				ids := []int{}
				for _, h := range c08UnrecR.FindAllString(ue.Error(), -1) {
					b, _ := hex.DecodeString(h)
					ids = append(ids, e.id(b))
				}
				res.rounds = append(res.rounds, xt.N(xt.LI(1), xt.Ints(ids)))
				if good {
					bad("good-want-refused", "wants %v are reachable from the refs and full, yet refused: %v", r.wants, err)
				}
				continue
			}
			res.rounds = append(res.rounds, xt.N(xt.LI(2)))
			res.code = 2
			return res
		}
		if len(r.wants) > 0 && !good {
			bad("unreachable-want-accepted", "wants %v accepted although one is unknown, unreachable from the refs or lacks its table", r.wants)
		}
		if len(union) >= 2 {
			res.multi = true
		}
		res.accepted = append(res.accepted, r.wants...)
		ackIDs := make([]int, len(acks))
		for i, a := range acks {
			ackIDs[i] = e.id(a)
			inHaves := false
			for _, h := range r.haves {
				if h == ackIDs[i] {
					inHaves = true
				}
			}
			_, known := e.parents[ackIDs[i]]
			if !inHaves || !known || !refAnc[ackIDs[i]] {
				ackOK = false
				bad("ack-not-a-known-have", "ack %d is not a have that exists and is reachable from the refs", ackIDs[i])
			}
		}
		res.rounds = append(res.rounds, xt.N(xt.LI(0), xt.Ints(ackIDs)))
	}
	if len(f.Wants) >= 2 {
		res.multi = true
	}
	coms, err := f.CommitsToSend()
	if err != nil {
		res.code = 2
		return res
	}
	tbls, err := f.TablesToSend()
	if err != nil {
		res.code = 2
		return res
	}
	for _, cm := range coms {
		res.commits = append(res.commits, e.id(cm.Sum))
	}
	tset := map[int]bool{}
	for t := range tbls {
		if id, ok := e.tblOf[t]; ok {
			tset[id] = true
		} else {
			tset[999999] = true
		}
	}
	res.tables = c08Sorted(tset)
	cset := map[int]bool{}
	for _, s := range f.CommonCommmits() {
		cset[e.id(s)] = true
	}
	res.commons = c08Sorted(cset)

	// ---- oracle (independent of the model) ----
	L := res.commits
	commonAnc := e.anc(res.commons)
	wantAnc := e.anc(res.accepted)
	inL := map[int]bool{}
	for _, x := range L {
		inL[x] = true
	}
	// order: parents are commons' ancestors or occur earlier
	orderOK := true
	earlier := map[int]bool{}
	for i, x := range L {
		for _, p := range e.parents[x] {
			if !earlier[p] && !commonAnc[p] {
				orderOK = false
				bad("parent-after-child", "position %d: commit %d listed before its parent %d (not a common's ancestor)", i, x, p)
			}
		}
		earlier[x] = true
	}
	// cover
	coverOK := true
	for _, a := range c08Sorted(wantAnc) {
		if !inL[a] && !commonAnc[a] {
			coverOK = false
			bad("cover-missing-ancestor", "ancestor %d of an accepted want is neither sent nor an ancestor of a common", a)
		}
	}
	// sound
	soundOK := true
	for _, x := range L {
		if !wantAnc[x] {
			soundOK = false
			bad("unreachable-commit-listed", "commit %d is sent but is not an ancestor of any accepted want", x)
		}
	}
	res.flags = [4]bool{orderOK, coverOK, soundOK, ackOK}
	// depth: lower = tables at common-free distance < depth from an accepted want,
	// upper = tables of sent commits at plain distance < depth
	isCommon := map[int]bool{}
	for _, x := range res.commons {
		isCommon[x] = true
	}
	lower, upper := map[int]bool{}, map[int]bool{}
	for _, w := range res.accepted {
		for x, d := range e.dist(w, isCommon) {
			if c.depth == 0 || d < c.depth {
				lower[e.tblOfC[x]] = true
			}
		}
		for x, d := range e.dist(w, nil) {
			if (c.depth == 0 || d < c.depth) && inL[x] {
				upper[e.tblOfC[x]] = true
			}
		}
	}
	// TablesToSend is a set of TABLE sums: a table must be selected as soon as SOME commit within depth of
	// an accepted want (no common on the path) carries it, whatever other commits carry the same table.
	// A missing table is attributable to the processing order of the wants (known class) only if some
	// enqueueWants call looped over >= 2 wants AND every commit that should have contributed the table is
	// also an ancestor-or-self of ANOTHER want, whose walk may have marked it "already seen" (plain
	// reachability: that walk may have happened in an earlier round, before the final commons were known).
	cfReach, plainReach := map[int]map[int]int{}, map[int]map[int]int{}
	for _, w := range res.accepted {
		if _, ok := cfReach[w]; !ok {
			cfReach[w] = e.dist(w, isCommon)
			plainReach[w] = e.dist(w, nil)
		}
	}
	for _, t := range c08Sorted(lower) {
		if tset[t] {
			continue
		}
		excusable := res.multi
		for w, dm := range cfReach {
			for x, d := range dm {
				if e.tblOfC[x] != t || !(c.depth == 0 || d < c.depth) {
					continue
				}
				other := false
				for w2, dm2 := range plainReach {
					if _, ok := dm2[x]; ok && w2 != w {
						other = true
					}
				}
				if !other {
					excusable = false
				}
			}
		}
		if excusable {
			bad("tables-depend-on-want-order", "table %d belongs to a commit within depth %d of an accepted want (no common on the path) but is not in TablesToSend %v", t, c.depth, res.tables)
		} else {
			bad("table-within-depth-missing", "table %d is carried by a commit within depth %d of an accepted want (no common on the path, not reachable from any other want) but is not in TablesToSend %v", t, c.depth, res.tables)
		}
	}
	for _, t := range res.tables {
		if !upper[t] {
			bad("table-beyond-depth", "table %d is selected but no sent commit within depth %d of a want carries it", t, c.depth)
		}
	}
	// complexity
	n := len(e.parents)
	if len(L) > n*n {
		bad("commits-to-send-exponential-duplicates", "CommitsToSend has %d entries for a history of %d commits (> n^2)", len(L), n)
	}
	return res
}

// dist: breadth-first distances from w over known commits, never entering a blocked commit.
func (e *c08Env) dist(w int, blocked map[int]bool) map[int]int {
	d := map[int]int{}
	if _, ok := e.parents[w]; !ok || blocked[w] {
		return d
	}
	d[w] = 0
	q := []int{w}
	for len(q) > 0 {
		x := q[0]
		q = q[1:]
		for _, p := range e.parents[x] {
			if _, ok := e.parents[p]; !ok || blocked[p] {
				continue
			}
			if _, ok := d[p]; !ok {
				d[p] = d[x] + 1
				q = append(q, p)
			}
		}
	}
	return d
}

// c08Permute: perm 0 = identity, 1 = reverse, 2.. = rotations and their reverses.
func c08Permute(l []int, perm int) []int {
	n := len(l)
	r := make([]int, n)
	if n == 0 {
		return r
	}
	k := (perm / 2) % n
	for i := range l {
		r[i] = l[(i+k)%n]
	}
	if perm%2 == 1 {
		for i, j := 0, n-1; i < j; i, j = i+1, j-1 {
			r[i], r[j] = r[j], r[i]
		}
	}
	return r
}

func (r *c08Result) fin(single bool, depth int) *xt.T {
	if r.code != 0 {
		return xt.N(xt.LI(r.code))
	}
	flags := xt.N(xt.Bool(r.flags[0]), xt.Bool(r.flags[1]), xt.Bool(r.flags[2]), xt.Bool(r.flags[3]))
	if single {
		return xt.N(xt.LI(0), xt.Ints(r.commits), xt.Ints(r.tables), xt.Ints(r.commons), flags)
	}
	set := map[int]bool{}
	for _, x := range r.commits {
		set[x] = true
	}
	tabs := xt.N()
	if depth == 0 {
		tabs = xt.Ints(r.tables)
	}
	return xt.N(xt.LI(0), xt.Ints(c08Sorted(set)), tabs, xt.Ints(r.commons), flags)
}

func c08LexLess(a, b []int) bool {
	for i := 0; i < len(a) && i < len(b); i++ {
		if a[i] != b[i] {
			return a[i] < b[i]
		}
	}
	return len(a) < len(b)
}

func runC08(ctx *Ctx, t *xt.T) (*xt.T, Verdict) {
	if t.Kids[0].N == 1 {
		return c08RunDiamond(int(t.Kids[1].N))
	}
	c := c08Parse(t)
	e := c08NewEnv(c)
	r0 := e.run(0)
	if !r0.multi || r0.code != 0 {
		// a session ended by a store error is reported in single mode whatever happened before
		return xt.N(xt.LI(0), xt.N(r0.rounds...), r0.fin(true, c.depth)), r0.v
	}
	// map order matters: repeat with permuted wants; the canonical observation must not change
	v := r0.v
	canon := xt.N(xt.N(r0.rounds...), r0.fin(false, c.depth))
	// across permuted wants slices the LIST inside an UnrecognizedWants error legitimately changes
	// (it follows the slice order and the early break), so only its presence is compared
	cross := func(r *c08Result) string {
		rs := xt.N()
		for _, o := range r.rounds {
			if o.Kids[0].N == 1 {
				rs.Add(xt.N(xt.LI(1)))
			} else {
				rs.Add(o)
			}
		}
		return xt.N(rs, r.fin(false, c.depth)).String()
	}
	cs := cross(r0)
	tabsets := map[string][]int{fmt.Sprint(r0.tables): r0.tables}
	wantTabs := c.depth > 0 && len(c.rounds) == 1
	reps := 8
	if wantTabs {
		// every processing order must show up: 16 tries for each permutation of the wants slice
		distinct := map[int]bool{}
		for _, w := range c.rounds[0].wants {
			distinct[w] = true
		}
		reps = 32
		if len(distinct) > 2 {
			reps = 96
		}
	}
	for i := 1; i < reps; i++ {
		r := e.run(i % 6)
		if v.OK && !r.v.OK {
			v = r.v
		}
		if s := cross(r); s != cs && v.OK {
			v = Fail("commit-set-depends-on-want-order", "canonical result differs between two runs of the same session: %s vs %s", cs, s)
		}
		tabsets[fmt.Sprint(r.tables)] = r.tables
	}
	tabs := xt.N()
	if wantTabs && r0.code == 0 {
		all := [][]int{}
		for _, ts := range tabsets {
			all = append(all, ts)
		}
		sort.Slice(all, func(i, j int) bool { return c08LexLess(all[i], all[j]) })
		for _, ts := range all {
			tabs.Add(xt.Ints(ts))
		}
	}
	return xt.N(xt.LI(1), xt.N(canon), tabs), v
}

func c08Diamond(n int) *c08Case {
	c := &c08Case{tables: []int{0}, refs: []int{3 * n}, rounds: []c08Round{{wants: []int{3 * n}, done: true}}}
	c.commits = append(c.commits, c08Commit{id: 0})
	for i := 0; i < n; i++ {
		b := 3 * i
		c.commits = append(c.commits,
			c08Commit{id: b + 1, parents: []int{b}, time: b + 1},
			c08Commit{id: b + 2, parents: []int{b}, time: b + 2},
			c08Commit{id: b + 3, parents: []int{b + 1, b + 2}, time: b + 3})
	}
	return c
}

func c08RunDiamond(n int) (*xt.T, Verdict) {
	e := c08NewEnv(c08Diamond(n))
	r := e.run(0)
	if r.code != 0 || len(r.rounds) != 1 || r.rounds[0].Kids[0].N != 0 {
		return xt.N(xt.LI(2)), Fail("diamond-error", "diamond chain %d: unexpected error", n)
	}
	set := map[int]bool{}
	for _, x := range r.commits {
		set[x] = true
	}
	return xt.N(xt.LI(0), xt.LI(len(r.commits)), xt.LI(len(set))), r.v
}

// ---------------------------------------------------------------------------
// generator
// ---------------------------------------------------------------------------

// c08Times: regime 0 = consistent with topology, 1 = reversed, 2 = all equal.
func c08Time(regime, id int) int {
	switch regime {
	case 0:
		return 10 + id
	case 1:
		return 60 - id
	}
	return 30
}

func c08Subsets(n int) [][]int {
	r := [][]int{}
	for m := 0; m < 1<<n; m++ {
		s := []int{}
		for i := 0; i < n; i++ {
			if m&(1<<i) != 0 {
				s = append(s, i)
			}
		}
		r = append(r, s)
	}
	return r
}

// c08DAGs enumerates every parent relation on n commits respecting the order 0..n-1 with <= 2 parents.
func c08DAGs(n int) [][][]int {
	opts := func(i int) [][]int {
		r := [][]int{{}}
		for a := 0; a < i; a++ {
			r = append(r, []int{a})
		}
		for a := 0; a < i; a++ {
			for b := 0; b < i; b++ {
				if a != b {
					r = append(r, []int{a, b}) // parent order matters for the walk order
				}
			}
		}
		return r
	}
	res := [][][]int{{}}
	for i := 0; i < n; i++ {
		next := [][][]int{}
		for _, g := range res {
			for _, o := range opts(i) {
				ng := append(append([][]int{}, g...), o)
				next = append(next, ng)
			}
		}
		res = next
	}
	return res
}

func genC08(ctx *Ctx) []Case {
	var cases []Case
	add := func(tag string, nt bool, c *c08Case) {
		cases = append(cases, Case{Tag: tag, Nontrivial: nt, C: c.tree()})
	}
	// ---- fixed witnesses ----
	// (a) order dependence: depth 1, wants {A=1, B=0}, B = parent(A)
	ab := func(wants []int, depth int) *c08Case {
		return &c08Case{depth: depth, commits: []c08Commit{{0, nil, 10, 10}, {1, []int{0}, 11, 11}}, tables: []int{10, 11},
			refs: []int{1}, rounds: []c08Round{{wants: wants, done: true}}}
	}
	add("witness", true, ab([]int{1, 0}, 1))
	add("witness", true, ab([]int{0, 1}, 1))
	add("witness", true, ab([]int{1, 0}, 0))
	add("witness", true, ab([]int{1}, 1))
	// (b) diamond chains (complexity clause)
	for n := 0; n <= 10; n++ {
		cases = append(cases, Case{Tag: "diamond", Nontrivial: n > 0, C: xt.N(xt.LI(1), xt.LI(n))})
	}
	// (c) hand-built histories: linear chain, fork, criss-cross, unknown have first, deferral over rounds
	chain := []c08Commit{{0, nil, 10, 10}, {1, []int{0}, 11, 11}, {2, []int{1}, 12, 12}, {3, []int{2}, 13, 13}, {4, []int{3}, 14, 14}}
	all := []int{10, 11, 12, 13, 14, 15, 16}
	add("witness", true, &c08Case{commits: chain, tables: all, refs: []int{4}, rounds: []c08Round{{[]int{4}, []int{2}, true}}})
	add("witness", true, &c08Case{commits: chain, tables: all, refs: []int{4}, rounds: []c08Round{{[]int{4}, []int{99, 2}, true}}})
	add("witness", true, &c08Case{commits: chain, tables: all, refs: []int{4}, rounds: []c08Round{{[]int{4}, []int{2, 99, 3}, true}}})
	add("witness", true, &c08Case{commits: chain, tables: all, refs: []int{3}, rounds: []c08Round{{[]int{4}, nil, true}}})
	add("witness", true, &c08Case{commits: chain, tables: []int{10, 11, 12, 13}, refs: []int{4}, rounds: []c08Round{{[]int{4}, nil, true}}})
	add("witness", true, &c08Case{commits: chain, tables: all, refs: []int{4}, rounds: []c08Round{{[]int{99, 4}, nil, true}}})
	add("witness", true, &c08Case{depth: 2, commits: chain, tables: all, refs: []int{4}, rounds: []c08Round{{[]int{4}, []int{0}, true}}})
	criss := []c08Commit{{0, nil, 10, 10}, {1, []int{0}, 11, 11}, {2, []int{0}, 12, 12}, {3, []int{1, 2}, 13, 13}, {4, []int{2, 1}, 14, 14}, {5, []int{3, 4}, 15, 15}}
	add("witness", true, &c08Case{commits: criss, tables: all, refs: []int{5}, rounds: []c08Round{{[]int{5}, []int{1}, true}}})
	add("witness", true, &c08Case{commits: criss, tables: all, refs: []int{5}, rounds: []c08Round{{[]int{5, 3}, []int{2}, true}}})
	add("witness", true, &c08Case{depth: 2, commits: criss, tables: all, refs: []int{5}, rounds: []c08Round{{[]int{3, 4}, nil, true}}})
	// several commits carrying the SAME table sum (TablesToSend is a set of table sums):
	// a revert c1(T1)<-c2(T2)<-c3(T3)<-c4(T1); one commit reached by a short and a long path;
	// identical data on two branches
	revert := []c08Commit{{1, nil, 11, 1}, {2, []int{1}, 12, 2}, {3, []int{2}, 13, 3}, {4, []int{3}, 14, 1}}
	for _, d := range []int{0, 1, 2, 3} {
		add("witness", true, &c08Case{depth: d, commits: revert, tables: []int{1, 2, 3}, refs: []int{4}, rounds: []c08Round{{[]int{4}, nil, true}}})
		add("witness", true, &c08Case{depth: d, commits: revert, tables: []int{1, 2, 3}, refs: []int{4}, rounds: []c08Round{{[]int{4, 2}, nil, true}}})
		add("witness", true, &c08Case{depth: d, commits: revert, tables: []int{1, 2, 3}, refs: []int{4}, rounds: []c08Round{{[]int{4}, []int{1}, true}}})
	}
	shortLong := []c08Commit{{0, nil, 10, 10}, {1, []int{0}, 11, 11}, {2, []int{1, 0}, 12, 12}, {3, []int{0, 1}, 13, 13}}
	twoBranch := []c08Commit{{0, nil, 10, 10}, {1, []int{0}, 11, 7}, {2, []int{0}, 12, 7}, {3, []int{1, 2}, 13, 13}, {4, []int{3}, 14, 7}}
	for _, d := range []int{1, 2, 3} {
		add("witness", true, &c08Case{depth: d, commits: shortLong, tables: all, refs: []int{2, 3}, rounds: []c08Round{{[]int{2}, nil, true}}})
		add("witness", true, &c08Case{depth: d, commits: shortLong, tables: all, refs: []int{2, 3}, rounds: []c08Round{{[]int{3}, nil, true}}})
		add("witness", true, &c08Case{depth: d, commits: twoBranch, tables: []int{7, 10, 13}, refs: []int{4}, rounds: []c08Round{{[]int{4}, nil, true}}})
		add("witness", true, &c08Case{depth: d, commits: twoBranch, tables: []int{7, 10, 13}, refs: []int{4}, rounds: []c08Round{{[]int{3}, nil, true}}})
		add("witness", true, &c08Case{depth: d, commits: twoBranch, tables: []int{7, 10, 13}, refs: []int{4}, rounds: []c08Round{{[]int{4, 1}, nil, true}}})
		add("witness", true, &c08Case{depth: d, commits: twoBranch, tables: []int{7, 10, 13}, refs: []int{4}, rounds: []c08Round{{[]int{1, 2}, nil, true}}})
	}
	// deferral: done=false with a common while the walk reaches a root; then a later round
	two := []c08Commit{{0, nil, 10, 10}, {1, []int{0}, 11, 11}, {2, nil, 12, 12}, {3, []int{2}, 13, 13}, {4, []int{1, 3}, 14, 14}}
	add("witness", true, &c08Case{commits: two, tables: all, refs: []int{4}, rounds: []c08Round{{[]int{4}, []int{1}, false}, {nil, []int{3}, true}}})
	add("witness", true, &c08Case{commits: two, tables: all, refs: []int{4}, rounds: []c08Round{{[]int{4}, []int{1}, false}}})
	add("witness", true, &c08Case{commits: two, tables: all, refs: []int{4}, rounds: []c08Round{{[]int{4}, []int{1}, false}, {[]int{3}, nil, false}, {nil, []int{2}, true}}})
	add("witness", true, &c08Case{commits: two, tables: all, refs: []int{4}, rounds: []c08Round{{[]int{1}, nil, false}, {[]int{4}, nil, true}}})
	// dangling parent, ref to an unknown commit
	add("witness", true, &c08Case{commits: []c08Commit{{1, []int{0}, 11, 11}, {2, []int{1}, 12, 12}}, tables: all, refs: []int{2}, rounds: []c08Round{{[]int{2}, nil, true}}})
	add("witness", true, &c08Case{commits: chain, tables: all, refs: []int{4, 77}, rounds: []c08Round{{[]int{4}, nil, true}}})

	// ---- exhaustive small scope ----
	maxN := 4
	keep := 100 // percent of the (dag, wants, haves) triples kept
	if ctx.Thorough() {
		maxN = 5
	} else {
		keep = 22
	}
	counter := 0
	for n := 1; n <= maxN; n++ {
		dags := c08DAGs(n)
		pct := keep
		if n == 5 {
			pct = 4
		}
		for _, dag := range dags {
			// childless commits
			hasChild := make([]bool, n)
			for _, ps := range dag {
				for _, p := range ps {
					hasChild[p] = true
				}
			}
			sinks := []int{}
			for i := 0; i < n; i++ {
				if !hasChild[i] {
					sinks = append(sinks, i)
				}
			}
			for _, wants := range c08Subsets(n) {
				if len(wants) == 0 || len(wants) > 3 {
					continue
				}
				for _, hv := range c08Subsets(n + 1) {
					if len(hv) > 3 {
						continue
					}
					if ctx.Pick(100) >= pct {
						continue
					}
					counter++
					regime := counter % 3
					depth := (counter / 3) % 4
					c := &c08Case{depth: depth}
					// table regime: own table per commit / two alternating tables (identical data on several
					// commits) / the last commit reverts to the table of the first
					tregime := (counter / 11) % 4
					for i := 0; i < n; i++ {
						tb := 10 + i
						switch {
						case tregime == 2:
							tb = 10 + i%2
						case tregime == 3 && i == n-1:
							tb = 10
						}
						c.commits = append(c.commits, c08Commit{id: i, parents: dag[i], time: c08Time(regime, i), table: tb})
						c.tables = append(c.tables, tb)
					}
					ctx.Count(fmt.Sprintf("exh_table_regime_%d", tregime))
					haves := []int{}
					for _, h := range hv {
						if h == n {
							haves = append(haves, 99)
						} else {
							haves = append(haves, h)
						}
					}
					// the unknown have goes first, last or in the middle
					if len(haves) > 1 && counter%5 < 2 {
						haves[0], haves[len(haves)-1] = haves[len(haves)-1], haves[0]
					}
					switch (counter / 12) % 8 {
					case 0:
						c.refs = []int{n - 1} // wants may be unreachable
					case 1:
						c.refs = append(append([]int{}, sinks...), sinks[0]) // duplicate ref
					default:
						c.refs = sinks
					}
					if (counter/7)%9 == 0 {
						// one shallow commit (its table missing, also for every commit sharing that table)
						gone := c.tables[(counter/63)%n]
						kept := []int{}
						for _, t := range c.tables {
							if t != gone {
								kept = append(kept, t)
							}
						}
						c.tables = kept
					}
					switch (counter / 5) % 6 {
					case 0: // not done: pending wants are flushed by CommitsToSend
						c.rounds = []c08Round{{wants, haves, false}}
					case 1: // two rounds: haves split
						h1, h2 := haves, []int{}
						if len(haves) > 1 {
							h1, h2 = haves[:1], haves[1:]
						}
						c.rounds = []c08Round{{wants, h1, false}, {nil, h2, true}}
					case 2: // wants split over rounds (single want per round when possible)
						if len(wants) > 1 {
							c.rounds = []c08Round{{wants[:1], haves, false}, {wants[1:], nil, true}}
						} else {
							c.rounds = []c08Round{{wants, haves, true}}
						}
					default:
						c.rounds = []c08Round{{wants, haves, true}}
					}
					ctx.Count(fmt.Sprintf("exh_commits_%d", n))
					ctx.Count(fmt.Sprintf("exh_wants_%d", len(wants)))
					ctx.Count(fmt.Sprintf("exh_depth_%d", depth))
					ctx.Count(fmt.Sprintf("exh_regime_%d", regime))
					add("exh", n >= 3, c)
				}
			}
		}
	}

	// ---- random DAGs up to 14 commits ----
	nr := 700
	if ctx.Thorough() {
		nr = 12000
	}
	for i := 0; i < nr; i++ {
		n := 2 + ctx.Pick(13)
		regime := ctx.Pick(4) // 3 = random times
		c := &c08Case{depth: ctx.Pick(4)}
		shareTables := ctx.Pick(3) == 0 // few table sums shared by many commits
		reverts := ctx.Pick(3) == 0     // a commit may carry the table of an earlier commit
		// a dangling parent makes the queue order observable (which pop hits the missing commit
		// first), and with tied commit times that order follows Go map iteration: only with distinct times
		dangling := ctx.Pick(25) == 0 && regime < 2
		for id := 0; id < n; id++ {
			ps := []int{}
			if id > 0 {
				np := []int{0, 1, 1, 1, 1, 2, 2, 2, 3}[ctx.Pick(9)]
				for k := 0; k < np; k++ {
					// biased to recent commits: long histories with merges
					p := id - 1 - ctx.Pick(c08Min(id, 3+ctx.Pick(3)))
					dup := false
					for _, x := range ps {
						if x == p {
							dup = true
						}
					}
					if !dup || ctx.Pick(8) == 0 { // a repeated parent is legal in the object format
						ps = append(ps, p)
					}
				}
			}
			if dangling && id == n/2 {
				ps = append(ps, 88)
			}
			tm := c08Time(regime, id)
			if regime == 3 {
				tm = ctx.Pick(8)
			}
			tb := 10 + id
			if shareTables {
				tb = 10 + ctx.Pick(3)
			} else if reverts && id > 0 && ctx.Pick(3) == 0 {
				tb = c.commits[ctx.Pick(id)].table
			}
			c.commits = append(c.commits, c08Commit{id: id, parents: ps, time: tm, table: tb})
			if ctx.Pick(12) != 0 {
				c.tables = append(c.tables, tb)
			}
		}
		hasChild := map[int]bool{}
		for _, k := range c.commits {
			for _, p := range k.parents {
				hasChild[p] = true
			}
		}
		for id := 0; id < n; id++ {
			if !hasChild[id] && ctx.Pick(6) != 0 {
				c.refs = append(c.refs, id)
			}
		}
		if len(c.refs) == 0 {
			c.refs = []int{n - 1}
		}
		if ctx.Pick(40) == 0 {
			c.refs = append(c.refs, 77)
		}
		pickCommit := func() int {
			r := ctx.Pick(20)
			switch {
			case r == 0:
				return 99
			case r < 8:
				return n - 1 - ctx.Pick(c08Min(n, 3))
			}
			return ctx.Pick(n)
		}
		nrounds := 1 + []int{0, 0, 0, 1, 1, 2}[ctx.Pick(6)]
		if dangling {
			nrounds = 1 // and a single want below: no dependence on map order next to a store error
		}
		for r := 0; r < nrounds; r++ {
			rd := c08Round{done: r == nrounds-1 && ctx.Pick(5) != 0}
			nw := 0
			if r == 0 || ctx.Pick(3) == 0 {
				nw = 1 + []int{0, 0, 0, 1, 1, 2}[ctx.Pick(6)]
				if dangling {
					nw = 1
				}
			}
			for k := 0; k < nw; k++ {
				rd.wants = append(rd.wants, pickCommit())
			}
			nh := ctx.Pick(4)
			for k := 0; k < nh; k++ {
				rd.haves = append(rd.haves, pickCommit())
			}
			c.rounds = append(c.rounds, rd)
		}
		ctx.Count(fmt.Sprintf("rand_rounds_%d", nrounds))
		ctx.Count(fmt.Sprintf("rand_depth_%d", c.depth))
		if dangling {
			ctx.Count("rand_dangling_parent")
		}
		if shareTables || reverts {
			ctx.Count("rand_shared_table_sums")
		}
		add("rand", true, c)
	}
	return cases
}

func c08Min(a, b int) int {
	if a < b {
		return a
	}
	return b
}
