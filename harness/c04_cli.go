package main

import (
	"bytes"
	"encoding/csv"
	"fmt"
	"io"
	"os"
	"path/filepath"
	"regexp"
	"strings"

	"github.com/go-logr/logr"
	"github.com/spf13/viper"
	wrgl "github.com/wrgl/wrgl/cmd/wrgl"
	"github.com/wrgl/wrgl/pkg/diff"
	"github.com/wrgl/wrgl/pkg/local"

	"verifharness/xt"
)

// C04, consumers of the diff events (observation without offsets, see coq/model/Diff.v run_proj):
//
// case kind 2:  (2 mode T1 T2)  `wrgl diff A B --no-gui` run in-process through wrgl.RootCmd() on a
//     temporary repository; mode 0: A, B = two branches; mode 1: A = CSV file, B = branch (the file
//     is ingested into an in-memory store: db1 != db2); mode 2: A = branch, B = CSV file.
//     The rows of DIFF_<a>_<b>.csv (ADDED IN / REMOVED IN / BASE ROW FROM + MODIFIED IN) are mapped
//     back to the rows of the case by their cell contents in the merged column layout.
// case kind 3:  (3 flags T1 T2)  diff.DiffTables consumed the way the interactive `wrgl diff` does
//     (collectDiffObjects): RowListReader for added / removed rows, RowChangeReader for modified rows,
//     plus a full pass of TableReader over both tables; flags as in kind 0.
// observation of both: (status events), event = (0 key row) | (1 key row oldrow) | (2 key oldrow).

type c04Repo struct {
	root    string
	wrglDir string
	n       int
}

var c04TheRepo *c04Repo

func c04Cmd(args ...string) (string, error) {
	cmd := wrgl.RootCmd()
	buf := bytes.NewBuffer(nil)
	cmd.SetOut(buf)
	cmd.SetErr(io.Discard)
	cmd.SetArgs(args)
	err := cmd.Execute()
	return buf.String(), err
}

func c04GetRepo(ctx *Ctx) *c04Repo {
	if c04TheRepo != nil {
		viper.Set("wrgl_dir", c04TheRepo.wrglDir)
		return c04TheRepo
	}
	root, err := os.MkdirTemp(ctx.Tmp, "c04repo")
	if err != nil {
		panic(err)
	}
	wrglDir := filepath.Join(root, ".wrgl")
	rd, err := local.NewRepoDir(wrglDir, "")
	if err != nil {
		panic(err)
	}
	if err := rd.Init(); err != nil {
		panic(err)
	}
	viper.Set("wrgl_dir", wrglDir)
	if _, err := c04Cmd("config", "set", "user.email", "v@example.invalid"); err != nil {
		panic(err)
	}
	if _, err := c04Cmd("config", "set", "user.name", "verif"); err != nil {
		panic(err)
	}
	c04TheRepo = &c04Repo{root: root, wrglDir: wrglDir}
	return c04TheRepo
}

// c04Merged is the merged column layout the consumers display rows in; the order of the names is
// taken from diff.CompareColumns (column merging is not C04's subject), everything else - which
// cell goes where - is computed here from the case.
func c04Merged(t1, t2 *c04Table) ([]string, error) {
	cd := diff.CompareColumns([2][]string{t2.Cols, t2.PK}, [2][]string{t1.Cols, t1.PK})
	seen := map[string]bool{}
	for _, n := range cd.Names {
		if seen[n] {
			return nil, fmt.Errorf("merged columns %q repeat %q", cd.Names, n)
		}
		seen[n] = true
	}
	for _, c := range append(append([]string{}, t1.Cols...), t2.Cols...) {
		if !seen[c] {
			return nil, fmt.Errorf("merged columns %q lack %q", cd.Names, c)
		}
	}
	if len(seen) > len(t1.Cols)+len(t2.Cols) {
		return nil, fmt.Errorf("merged columns %q have foreign names", cd.Names)
	}
	return cd.Names, nil
}

func c04ColPos(cols []string, name string) int {
	for i, c := range cols {
		if c == name {
			return i
		}
	}
	return -1
}

// c04Display is the row as shown in the merged layout: "" where the table lacks the column.
func c04Display(names []string, t *c04Table, r c04Row) []string {
	cells := c04Cells(t, r)
	out := make([]string, len(names))
	for i, n := range names {
		if p := c04ColPos(t.Cols, n); p >= 0 {
			out[i] = cells[p]
		}
	}
	return out
}

func c04DisplayIndex(names []string, t *c04Table) map[string]int {
	m := map[string]int{}
	for i, r := range t.Rows {
		m[strings.Join(c04Display(names, t, r), "\x00")] = i
	}
	return m
}

func c04ProjEvent(t1, t2 *c04Table, g c04Ev) *xt.T {
	switch g.kind {
	case 0:
		return xt.N(xt.LI(0), xt.Strs(t1.Rows[g.pos1].Key), xt.LI(t1.Rows[g.pos1].RowID))
	case 1:
		return xt.N(xt.LI(1), xt.Strs(t1.Rows[g.pos1].Key), xt.LI(t1.Rows[g.pos1].RowID), xt.LI(t2.Rows[g.pos2].RowID))
	}
	return xt.N(xt.LI(2), xt.Strs(t2.Rows[g.pos2].Key), xt.LI(t2.Rows[g.pos2].RowID))
}

var c04DiffFilePat = regexp.MustCompile(`DIFF_[0-9a-f]+_[0-9a-f]+\.csv`)

func runC04CLI(ctx *Ctx, c *xt.T) (*xt.T, Verdict) {
	mode := int(c.Kids[1].N)
	t1 := c04ParseTable(c.Kids[2])
	t2 := c04ParseTable(c.Kids[3])
	repo := c04GetRepo(ctx)
	repo.n++
	setup := func(format string, a ...interface{}) (*xt.T, Verdict) {
		return xt.N(xt.LI(1), xt.N()), Fail("harness-setup", format, a...)
	}
	old, _ := os.Getwd()
	if err := os.Chdir(repo.root); err != nil {
		panic(err)
	}
	defer os.Chdir(old)
	put := func(name string, t *c04Table, asFile bool) (string, error) {
		fp := filepath.Join(repo.root, fmt.Sprintf("%s_%d.csv", name, repo.n))
		if err := os.WriteFile(fp, c04CSVBytes(t), 0600); err != nil {
			return "", err
		}
		if asFile {
			return fp, nil
		}
		br := fmt.Sprintf("%s-%d", name, repo.n)
		args := []string{"commit", br, fp, "c04", "-n", "1"}
		if len(t.PK) > 0 {
			args = append(args, "--primary-key", strings.Join(t.PK, ","))
		}
		if out, err := c04Cmd(args...); err != nil {
			return "", fmt.Errorf("wrgl commit: %v %s", err, out)
		}
		os.Remove(fp)
		return br, nil
	}
	a1, err := put("ta", t1, mode == 1)
	if err != nil {
		return setup("%v", err)
	}
	a2, err := put("tb", t2, mode == 2)
	if err != nil {
		return setup("%v", err)
	}
	args := []string{"diff", a1, a2, "--no-gui"}
	if mode != 0 {
		pk := t1.PK
		if mode == 2 {
			pk = t2.PK
		}
		if len(pk) > 0 {
			args = append(args, "--primary-key", strings.Join(pk, ","))
		}
	}
	out, err := c04Cmd(args...)
	if mode == 1 {
		os.Remove(a1)
	}
	if mode == 2 {
		os.Remove(a2)
	}
	if err != nil {
		return xt.N(xt.LI(1), xt.N()), Fail("cli-error", "wrgl %s: %v", strings.Join(args, " "), err)
	}
	fn := c04DiffFilePat.FindString(out)
	if fn == "" {
		return xt.N(xt.LI(1), xt.N()), Fail("cli-no-output-file", "wrgl diff printed %q", out)
	}
	raw, err := os.ReadFile(filepath.Join(repo.root, fn))
	os.Remove(filepath.Join(repo.root, fn))
	if err != nil {
		return setup("%v", err)
	}
	rd := csv.NewReader(bytes.NewReader(raw))
	rd.FieldsPerRecord = -1
	recs, err := rd.ReadAll()
	if err != nil {
		return xt.N(xt.LI(1), xt.N()), Fail("cli-bad-csv", "%v", err)
	}
	v := OK()
	bad := func(class, format string, a ...interface{}) {
		if v.OK {
			v = Fail(class, format, a...)
		}
	}
	names, err := c04Merged(t1, t2)
	if err != nil {
		return setup("%v", err)
	}
	if len(recs) < 4 || !strings.HasPrefix(recs[0][0], "COLUMNS IN") || !strings.HasPrefix(recs[1][0], "COLUMNS IN") ||
		!strings.HasPrefix(recs[2][0], "PRIMARY KEY IN") || !strings.HasPrefix(recs[3][0], "PRIMARY KEY IN") {
		bad("cli-header", "unexpected header rows in %s", fn)
		return xt.N(xt.LI(0), xt.N(xt.N(xt.LI(9)))), v
	}
	for h, t := range map[int]*c04Table{2: t2, 3: t1} {
		for i, n := range names {
			want := ""
			if c04ColPos(t.PK, n) >= 0 {
				want = "true"
			}
			if i+1 >= len(recs[h]) || recs[h][i+1] != want {
				bad("cli-header-pk", "header row %d marks primary key %q, merged columns %q, pk %q", h, recs[h][1:], names, t.PK)
				break
			}
		}
	}
	d1 := c04DisplayIndex(names, t1)
	d2 := c04DisplayIndex(names, t2)
	events := xt.N()
	var got []c04Ev
	pendingBase := -1
	for _, rec := range recs[4:] {
		label, cells := rec[0], strings.Join(rec[1:], "\x00")
		p1, ok1 := d1[cells]
		p2, ok2 := d2[cells]
		var g c04Ev
		switch {
		case strings.HasPrefix(label, "ADDED IN"):
			if !ok1 {
				bad("cli-row-not-in-table", "ADDED row %q is no row of the first table (columns %q)", rec[1:], names)
				events.Add(xt.N(xt.LI(9)))
				continue
			}
			g = c04Ev{0, p1, -1}
		case strings.HasPrefix(label, "REMOVED IN"):
			if !ok2 {
				bad("cli-row-not-in-table", "REMOVED row %q is no row of the second table (columns %q)", rec[1:], names)
				events.Add(xt.N(xt.LI(9)))
				continue
			}
			g = c04Ev{2, -1, p2}
		case strings.HasPrefix(label, "BASE ROW FROM"):
			if !ok2 {
				bad("cli-row-not-in-table", "BASE row %q is no row of the second table (columns %q)", rec[1:], names)
				p2 = -2
			}
			if pendingBase != -1 {
				bad("cli-row-sequence", "BASE ROW not followed by MODIFIED IN")
			}
			pendingBase = p2
			continue
		case strings.HasPrefix(label, "MODIFIED IN"):
			if pendingBase == -1 {
				bad("cli-row-sequence", "MODIFIED IN without BASE ROW")
				events.Add(xt.N(xt.LI(9)))
				continue
			}
			b := pendingBase
			pendingBase = -1
			if !ok1 || b < 0 {
				if !ok1 {
					bad("cli-row-not-in-table", "MODIFIED row %q is no row of the first table (columns %q)", rec[1:], names)
				}
				events.Add(xt.N(xt.LI(9)))
				continue
			}
			g = c04Ev{1, p1, b}
		default:
			bad("cli-label", "unknown row label %q", label)
			events.Add(xt.N(xt.LI(9)))
			continue
		}
		got = append(got, g)
		events.Add(c04ProjEvent(t1, t2, g))
	}
	if pendingBase != -1 {
		bad("cli-row-sequence", "trailing BASE ROW")
	}
	for _, g := range got {
		if g.kind == 1 && !c04StrsEq(t1.Rows[g.pos1].Key, t2.Rows[g.pos2].Key) {
			bad("cli-pair-mismatch", "BASE row of key %q paired with MODIFIED row of key %q", t2.Rows[g.pos2].Key, t1.Rows[g.pos1].Key)
		}
	}
	c04Judge(t1, t2, false, got, c.Kids[2].String() == c.Kids[3].String(), bad)
	return xt.N(xt.LI(0), events), v
}

func runC04Readers(c *xt.T) (*xt.T, Verdict) {
	emitUnchanged := c.Kids[1].N&1 != 0
	t1 := c04ParseTable(c.Kids[2])
	t2 := c04ParseTable(c.Kids[3])
	reindexed := c.Kids[1].N&4 != 0
	b1 := c04BuildFlags(t1, c.Kids[2].String(), reindexed)
	b2 := c04BuildFlags(t2, c.Kids[3].String(), reindexed)
	v := OK()
	bad := func(class, format string, a ...interface{}) {
		if v.OK {
			v = Fail(class, format, a...)
		}
	}
	names, err := c04Merged(t1, t2)
	if err != nil {
		return xt.N(xt.LI(1), xt.N()), Fail("harness-setup", "%v", err)
	}
	colDiff := diff.CompareColumns([2][]string{t2.Cols, t2.PK}, [2][]string{t1.Cols, t1.PK})
	errCh := make(chan error, 4)
	var opts []diff.DiffOption
	if emitUnchanged {
		opts = append(opts, diff.WithEmitUnchangedRow())
	}
	diffCh, _ := diff.DiffTables(b1.db, b2.db, b1.tbl, b2.tbl, b1.idx, b2.idx, errCh, logr.Discard(), opts...)
	// collectDiffObjects of cmd/wrgl/diff_cmd.go
	var addedR, removedR *diff.RowListReader
	var changeR *diff.RowChangeReader
	var kinds []int
	for d := range diffCh {
		switch {
		case d.OldSum == nil:
			if addedR == nil {
				if addedR, err = diff.NewRowListReader(b1.db, b1.tbl); err != nil {
					panic(err)
				}
			}
			addedR.Add(d.Offset)
			kinds = append(kinds, 0)
		case d.Sum == nil:
			if removedR == nil {
				if removedR, err = diff.NewRowListReader(b2.db, b2.tbl); err != nil {
					panic(err)
				}
			}
			removedR.Add(d.OldOffset)
			kinds = append(kinds, 2)
		default:
			if changeR == nil {
				if changeR, err = diff.NewRowChangeReader(b1.db, b2.db, b1.tbl, b2.tbl, colDiff); err != nil {
					panic(err)
				}
			}
			changeR.AddRowDiff(d)
			kinds = append(kinds, 1)
		}
	}
	select {
	case err := <-errCh:
		return xt.N(xt.LI(1), xt.N()), Fail("diff-error", "DiffTables reported %v", err)
	default:
	}
	idx := func(t *c04Table) map[string]int {
		m := map[string]int{}
		for i, r := range t.Rows {
			m[strings.Join(c04Cells(t, r), "\x00")] = i
		}
		return m
	}
	r1, r2 := idx(t1), idx(t2)
	k1, k2 := map[string]int{}, map[string]int{}
	for i, r := range t1.Rows {
		k1[fmt.Sprintf("%q", r.Key)] = i
	}
	for i, r := range t2.Rows {
		k2[fmt.Sprintf("%q", r.Key)] = i
	}
	events := xt.N()
	var got []c04Ev
	for _, k := range kinds {
		switch k {
		case 0:
			row, err := addedR.Read()
			if err != nil {
				bad("reader-error", "RowListReader(added).Read: %v", err)
				events.Add(xt.N(xt.LI(9)))
				continue
			}
			p, ok := r1[strings.Join(row, "\x00")]
			if !ok {
				bad("reader-wrong-row", "added-row reader returned %q, no row of table 1", row)
				events.Add(xt.N(xt.LI(9)))
				continue
			}
			got = append(got, c04Ev{0, p, -1})
		case 2:
			row, err := removedR.Read()
			if err != nil {
				bad("reader-error", "RowListReader(removed).Read: %v", err)
				events.Add(xt.N(xt.LI(9)))
				continue
			}
			p, ok := r2[strings.Join(row, "\x00")]
			if !ok {
				bad("reader-wrong-row", "removed-row reader returned %q, no row of table 2", row)
				events.Add(xt.N(xt.LI(9)))
				continue
			}
			got = append(got, c04Ev{2, -1, p})
		default:
			merged, err := changeR.Read()
			if err != nil {
				bad("reader-error", "RowChangeReader.Read: %v", err)
				events.Add(xt.N(xt.LI(9)))
				continue
			}
			// identify the key from the pk cells of the merged row, then predict every cell
			if len(merged) != len(names) {
				bad("reader-wrong-row", "merged row has %d cells for %d merged columns", len(merged), len(names))
				events.Add(xt.N(xt.LI(9)))
				continue
			}
			key := make([]string, len(t1.PK))
			okKey := true
			for j, pn := range t1.PK {
				i := c04ColPos(names, pn)
				if i < 0 || len(merged[i]) == 0 {
					okKey = false
					break
				}
				key[j] = merged[i][0]
			}
			if len(t1.PK) == 0 { // keyless: the key is the whole row
				key = make([]string, len(t1.Cols))
				for j, cn := range t1.Cols {
					i := c04ColPos(names, cn)
					if i < 0 || len(merged[i]) == 0 {
						okKey = false
						break
					}
					key[j] = merged[i][0]
				}
			}
			p1, ok1 := k1[fmt.Sprintf("%q", key)]
			p2, ok2 := k2[fmt.Sprintf("%q", key)]
			if !okKey || !ok1 || !ok2 {
				bad("reader-wrong-row", "merged row %q carries key %q which is not in both tables", merged, key)
				events.Add(xt.N(xt.LI(9)))
				continue
			}
			n1 := c04Display(names, t1, t1.Rows[p1])
			n2 := c04Display(names, t2, t2.Rows[p2])
			for i, n := range names {
				in1, in2 := c04ColPos(t1.Cols, n) >= 0, c04ColPos(t2.Cols, n) >= 0
				var want []string
				switch {
				case in1 && !in2:
					want = []string{n1[i]}
				case in2 && !in1:
					want = []string{n2[i]}
				case n1[i] == n2[i]:
					want = []string{n1[i]}
				default:
					want = []string{n1[i], n2[i]}
				}
				if !c04StrsEq(merged[i], want) {
					bad("reader-wrong-cell", "key %q column %q: merged cell %q, expected %q", key, n, merged[i], want)
					break
				}
			}
			got = append(got, c04Ev{1, p1, p2})
		}
		events.Add(c04ProjEvent(t1, t2, got[len(got)-1]))
	}
	// TableReader: a full sequential pass returns exactly the rows of the case, in key order
	for _, x := range []struct {
		b *c04Built
		t *c04Table
	}{{b1, t1}, {b2, t2}} {
		tr, err := diff.NewTableReader(x.b.db, x.b.tbl)
		if err != nil {
			panic(err)
		}
		if tr.Len() != len(x.t.Rows) {
			bad("table-reader-len", "TableReader.Len()=%d for %d rows", tr.Len(), len(x.t.Rows))
		}
		for i := 0; ; i++ {
			row, err := tr.Read()
			if err == io.EOF {
				if i != len(x.t.Rows) {
					bad("table-reader-short", "TableReader stopped after %d of %d rows", i, len(x.t.Rows))
				}
				break
			}
			if err != nil {
				bad("reader-error", "TableReader.Read: %v", err)
				break
			}
			if i >= len(x.t.Rows) || !c04StrsEq(row, c04Cells(x.t, x.t.Rows[i])) {
				bad("table-reader-row", "TableReader row %d is %q", i, row)
				break
			}
		}
	}
	c04Judge(t1, t2, emitUnchanged, got, c.Kids[2].String() == c.Kids[3].String(), bad)
	return xt.N(xt.LI(0), events), v
}
