package main

import (
	"bytes"
	"database/sql"
	"fmt"
	"hash/fnv"
	"io"
	"os"
	"path"
	"path/filepath"
	"sort"
	"strconv"
	"strings"
	"time"

	"github.com/google/uuid"
	_ "github.com/mattn/go-sqlite3"

	"github.com/wrgl/wrgl/pkg/conf"
	conffs "github.com/wrgl/wrgl/pkg/conf/fs"
	"github.com/wrgl/wrgl/pkg/local"
	"github.com/wrgl/wrgl/pkg/ref"
	reffs "github.com/wrgl/wrgl/pkg/ref/fs"
	refsql "github.com/wrgl/wrgl/pkg/ref/sql"

	"verifharness/xt"
)

// C15: the SQL ref store (pkg/ref/sql over a real in-memory SQLite) and the helpers of
// pkg/ref/refs.go vs the model coq/model/RefSql.v and vs a plain Go map with per-name logs.
//
// case  = (0 (op ...))        an operation sequence on a fresh store (in-memory SQLite)
//       | (1 p s)             SQLite predicates: obs = (like(p||'%', s)  instr(s,p)=1)
//       | (2 (op ...))        the same on an on-disk repository directory (pkg/local RepoDir, sqlite.db
//                             file), where ops 17/18 run the real `wrgl remote rename|remove` commands
//       | (3 (op ...))        as 0, and the file store is always run (long-log cases)
// op    = (0 k v) Set | (1 k v meta) SetWithLog | (2 k) Get | (3 k) Delete
//       | (4 (p ...) (n ...)) Filter | (5 (p ...) (n ...)) FilterKey
//       | (6 a b) Rename | (7 a b) Copy | (8 k) LogReader + Read until EOF/error
//       | (9 r) DeleteAllRemoteRefs | (10 r r') RenameAllRemoteRefs
//       | (11 id) DeleteTransactionRefs (id = uuid text)
//       | (12 kind arg) ListHeads(0) ListTags(1) ListRemoteRefs(2 arg) ListTransactionRefs(3 arg)
//       | (13 a b) RenameRef | (14 a b) CopyRef | (15 k v meta) SaveRef
//       | (16 (p ...) (n ...)) ListLocalRefs
//       | (17 r r') `wrgl remote rename r r'` (r != r') | (18 r) `wrgl remote remove r`   (kind-2 cases only)
// meta  = (author email action message txid?)      txid? = () | (16 bytes)
// obs   = (res ...) one per op
// res   = (0) ok | (1) error | (2) panic | (3 v) | (4 ((k v) ...)) sorted by k
//       | (5 (k ...)) in returned order | (6 (ent ...) complete)
// ent   = (old? new author email action message txid?)   old? = () | (bytes); the time is not observed
//
// Oracle (independent of the Coq model): map[string][]byte + map[string][]entry, literal
// strings.HasPrefix; after every step the tables are read back with plain SQL and compared with it.
// The same sequence is also run on the file store pkg/ref/fs.  That store has directory semantics,
// so it is judged STRICTLY (oracle class fs-*) only inside the sub-domain where a directory tree can
// behave like a flat map (c15FSDomain below: clean names that never conflict as file vs directory,
// text-representable reflog fields, deletes/renames/copies whose preconditions hold, single
// directory-prefix listings); strictness lasts until the first MUTATING step outside the sub-domain,
// after which differences are only counted per class (fs_diff_*).

func init() { props["C15"] = &Prop{Gen: genC15, Run: runC15} }

// ---------------------------------------------------------------------------
// case construction

type c15Meta struct {
	author, email, action, message string
	txid                           []byte
}

func c15MetaT(m c15Meta) *xt.T {
	var tx *xt.T
	if m.txid != nil {
		tx = xt.Bytes(m.txid)
	}
	return xt.N(xt.Str(m.author), xt.Str(m.email), xt.Str(m.action), xt.Str(m.message), xt.Opt(tx))
}

func c15Sum(b byte) []byte { return bytes.Repeat([]byte{b}, 16) }

var c15Sums = [][]byte{c15Sum(0x11), c15Sum(0x22), c15Sum(0x33), append([]byte{0, 0xff, '%', '_'}, make([]byte, 12)...)}

var c15Txids = []string{"00000000-0000-4000-8000-000000000001", "00000000-0000-4000-8000-00000000000a"}

var c15Metas = []c15Meta{
	{"John Doe", "john@doe.com", "commit", "first", nil},
	{"a_b", "", "fetch", "[from a_b] x%y", nil},
	{"Jane", "j@x", "merge", "merge 1, 2", bytes.Repeat([]byte{0xab}, 16)},
	{"", "", "", "", nil},
}

var c15Remotes = []string{"a_b", "acb", "A_B", "a%", "a", "a/b", "ab", "z", "%", "_", "a_"}

// remote names that occur inside the namespace literals ("remotes/", "heads/", "tags/", "txs/")
var c15NsRemotes = []string{"o", "s", "e", "r", "m", "t", "es", "remote", "remotes", "heads", "tags", "txs"}

func c15AllRemotes() []string { return append(append([]string{}, c15Remotes...), c15NsRemotes...) }

func c15Names() []string {
	ns := []string{}
	for _, r := range c15AllRemotes() {
		ns = append(ns, "remotes/"+r+"/x")
	}
	ns = append(ns, "remotes/o/remotes/o", "remotes/remotes/heads", "heads/o", "tags/s", "remotes/a_b/y", "remotes/a/b/c", "remotes/a_b/x/y",
		"heads/a", "heads/ab", "heads/a/b", "heads/A", "heads/a_", "heads/a%", "heads/_", "tags/a", "tags/A", "remotesX/a",
		"txs/"+c15Txids[0]+"/a", "txs/"+c15Txids[0]+"/b", "txs/"+c15Txids[1]+"/a")
	return ns
}

var c15Prefixes = []string{"", "heads/", "tags/", "remotes/", "remotes/a_b/", "remotes/a", "remotes/a_", "remotes/a%",
	"remotes/A_B/", "heads/a", "heads/A", "heads/a_", "heads/%", "h", "_", "%", "txs/", "remotes/a/"}

func c15Set(k string, v []byte) *xt.T { return xt.N(xt.LI(0), xt.Str(k), xt.Bytes(v)) }
func c15SetLog(k string, v []byte, m c15Meta) *xt.T {
	return xt.N(xt.LI(1), xt.Str(k), xt.Bytes(v), c15MetaT(m))
}
func c15K(kind int, k string) *xt.T        { return xt.N(xt.LI(kind), xt.Str(k)) }
func c15KK(kind int, a, b string) *xt.T    { return xt.N(xt.LI(kind), xt.Str(a), xt.Str(b)) }
func c15F(kind int, ps, ns []string) *xt.T { return xt.N(xt.LI(kind), xt.Strs(ps), xt.Strs(ns)) }
func c15List(kind int, arg string) *xt.T   { return xt.N(xt.LI(12), xt.LI(kind), xt.Str(arg)) }
func c15SaveRef(k string, v []byte, m c15Meta) *xt.T {
	return xt.N(xt.LI(15), xt.Str(k), xt.Bytes(v), c15MetaT(m))
}
func c15Seq(ops ...*xt.T) *xt.T               { return xt.N(xt.LI(0), xt.N(ops...)) }
func c15SeqKind(kind int, ops ...*xt.T) *xt.T { return xt.N(xt.LI(kind), xt.N(ops...)) }

// observation suffix: everything a client can see about the given names/remotes
func c15Observe(names, remotes []string) []*xt.T {
	ops := []*xt.T{c15F(5, nil, nil), c15F(4, []string{"remotes/a_b/"}, nil), c15F(16, nil, nil)}
	for _, n := range names {
		ops = append(ops, c15K(2, n), c15K(8, n))
	}
	for _, r := range remotes {
		ops = append(ops, c15List(2, r))
	}
	return ops
}

func genC15(ctx *Ctx) []Case {
	var cases []Case
	add := func(tag string, nt bool, c *xt.T) { cases = append(cases, Case{Tag: tag, Nontrivial: nt, C: c}) }
	v := c15Sums
	m := c15Metas

	// ---- fixed witnesses (the fixed LIKE defect first: known_findings.txt C15 1d9837e)
	wnames := []string{"remotes/a_b/x", "remotes/acb/x", "remotes/A_B/x", "remotes/a%/x", "remotes/a/x"}
	wrem := []string{"a_b", "acb", "A_B", "a%", "a"}
	setup := []*xt.T{}
	for i, n := range wnames {
		setup = append(setup, c15SetLog(n, v[i%3], m[0]))
	}
	w1 := append(append([]*xt.T{}, setup...), c15List(2, "a_b"), c15F(5, []string{"remotes/a_b/"}, nil))
	add("witness", true, c15Seq(append(w1, c15Observe(wnames, wrem)...)...))
	w2 := append(append([]*xt.T{}, setup...), c15K(9, "a_b"))
	add("witness", true, c15Seq(append(w2, c15Observe(wnames, wrem)...)...))
	w3 := append(append([]*xt.T{}, setup...), c15KK(10, "a_b", "z"))
	add("witness", true, c15Seq(append(w3, c15Observe(append(wnames, "remotes/z/x"), append(wrem, "z"))...)...))
	w4 := append(append([]*xt.T{}, setup...), c15KK(10, "a%", "z"), c15K(9, "a%"), c15F(4, nil, []string{"remotes/a_"}))
	add("witness", true, c15Seq(append(w4, c15Observe(append(wnames, "remotes/z/x"), append(wrem, "z"))...)...))
	// logs: old value re-read inside the transaction, Set without log in between, carry by rename/copy
	add("witness", true, c15Seq(
		c15SetLog("heads/a", v[0], m[0]), c15Set("heads/a", v[1]), c15SetLog("heads/a", v[2], m[2]), c15K(8, "heads/a"),
		c15KK(7, "heads/a", "heads/ab"), c15SetLog("heads/ab", v[0], m[1]), c15K(8, "heads/ab"), c15K(8, "heads/a"),
		c15KK(6, "heads/a", "heads/a/b"), c15K(8, "heads/a/b"), c15K(8, "heads/a"), c15K(2, "heads/a"),
		c15K(3, "heads/ab"), c15K(8, "heads/ab"), c15SetLog("heads/ab", v[1], m[3]), c15K(8, "heads/ab"),
		c15KK(6, "heads/zz", "heads/q"), c15KK(6, "heads/a/b", "heads/ab"), c15KK(6, "heads/ab", "heads/ab"),
		c15KK(7, "heads/zz", "heads/q"), c15KK(7, "heads/a/b", "heads/ab"), c15KK(7, "heads/ab", "heads/ab"),
		c15KK(13, "heads/ab", "heads/q"), c15KK(14, "heads/q", "heads/r"), c15KK(13, "heads/nope", "heads/r"),
		c15SaveRef("heads/r", v[2], m[1]), c15K(8, "heads/r"), c15K(3, "heads/nope"), c15F(5, nil, nil)))
	// nested remotes and a rename into a prefix of itself; partial failure of a bulk rename
	add("witness", true, c15Seq(
		c15Set("remotes/a/x", v[0]), c15SetLog("remotes/a/b/x", v[1], m[0]), c15Set("remotes/ab/x", v[2]),
		c15KK(10, "a", "a/b"), c15F(5, nil, nil), c15K(8, "remotes/a/b/b/x"),
		c15K(9, "a"), c15F(5, nil, nil)))
	add("witness", true, c15Seq(
		c15Set("remotes/a/x", v[0]), c15Set("remotes/a/y", v[1]), c15Set("remotes/a/z", v[2]), c15Set("remotes/z/y", v[0]),
		c15KK(10, "a", "z"), c15F(4, nil, nil), c15KK(10, "a", "a"), c15KK(10, "nope", "z")))
	// transactions, heads, tags, local refs
	add("witness", true, c15Seq(
		c15Set("txs/"+c15Txids[0]+"/a", v[0]), c15Set("txs/"+c15Txids[0]+"/b/c", v[1]), c15Set("txs/"+c15Txids[1]+"/a", v[2]),
		c15Set("heads/a", v[0]), c15Set("tags/a", v[1]), c15Set("remotes/a/x", v[2]),
		c15List(3, c15Txids[0]), c15List(0, ""), c15List(1, ""), c15F(16, []string{"heads/", "tags/"}, []string{"heads/a"}),
		c15F(16, nil, nil), c15K(11, c15Txids[0]), c15F(5, nil, nil), c15F(4, []string{"heads/", "tx"}, []string{"txs/0", "heads/ab"})))

	// ---- exhaustive small scope: all sequences of <= L ops from a 41-op alphabet over 6 names
	en := []string{"remotes/a_b/x", "remotes/acb/x", "remotes/A_B/x", "remotes/a%/x", "remotes/a/x", "heads/a"}
	er := []string{"a_b", "acb", "A_B", "a%", "a"}
	var alpha []*xt.T
	for i, n := range en {
		alpha = append(alpha, c15Set(n, v[0]), c15SetLog(n, v[1], m[i%2]), c15K(3, n))
		alpha = append(alpha, c15KK(6, n, en[(i+1)%len(en)]), c15KK(7, n, en[(i+1)%len(en)]))
	}
	for _, r := range er {
		alpha = append(alpha, c15K(9, r), c15KK(10, r, "z"))
	}
	alpha = append(alpha, c15KK(10, "a_b", "acb"))
	suffix := c15Observe(append(append([]string{}, en...), "remotes/z/x"), append(append([]string{}, er...), "z"))
	L := 2
	if ctx.Thorough() {
		L = 3
	}
	var rec func(prefix []*xt.T)
	rec = func(prefix []*xt.T) {
		ops := append(append([]*xt.T{}, prefix...), suffix...)
		add("exh", len(prefix) >= 1, c15Seq(ops...))
		ctx.Count("exhaustive_cases")
		if len(prefix) == L {
			return
		}
		for _, o := range alpha {
			rec(append(append([]*xt.T{}, prefix...), o))
		}
	}
	rec(nil)

	// ---- random sequences over the collision alphabet
	names := c15Names()
	allRemotes := c15AllRemotes()
	pick := func(l []string) string { return l[ctx.Pick(len(l))] }
	pickPs := func(max int) []string {
		n := ctx.Pick(max + 1)
		ps := []string{}
		for i := 0; i < n; i++ {
			if ctx.Pick(3) == 0 {
				nm := pick(names)
				ps = append(ps, nm[:ctx.Pick(len(nm)+1)])
			} else {
				ps = append(ps, pick(c15Prefixes))
			}
		}
		return ps
	}
	nrand := 400
	if ctx.Thorough() {
		nrand = 8000
	}
	for i := 0; i < nrand; i++ {
		// a sub-alphabet per case makes collisions (same name set, deleted, renamed onto) frequent
		sub := []string{}
		for j := 0; j < 3+ctx.Pick(8); j++ {
			sub = append(sub, pick(names))
		}
		nops := 1 + ctx.Pick(40)
		ops := []*xt.T{}
		for j := 0; j < nops; j++ {
			r := ctx.Pick(100)
			switch {
			case r < 14:
				ops = append(ops, c15Set(pick(sub), v[ctx.Pick(len(v))]))
				ctx.Count("op_set")
			case r < 30:
				ops = append(ops, c15SetLog(pick(sub), v[ctx.Pick(len(v))], m[ctx.Pick(len(m))]))
				ctx.Count("op_setlog")
			case r < 35:
				ops = append(ops, c15SaveRef(pick(sub), v[ctx.Pick(len(v))], m[ctx.Pick(len(m))]))
				ctx.Count("op_saveref")
			case r < 40:
				ops = append(ops, c15K(2, pick(sub)))
				ctx.Count("op_get")
			case r < 46:
				ops = append(ops, c15K(3, pick(sub)))
				ctx.Count("op_delete")
			case r < 52:
				ops = append(ops, c15F(4, pickPs(2), pickPs(2)))
				ctx.Count("op_filter")
			case r < 58:
				ops = append(ops, c15F(5, pickPs(2), pickPs(2)))
				ctx.Count("op_filterkey")
			case r < 64:
				ops = append(ops, c15KK(6, pick(sub), pick(sub)))
				ctx.Count("op_rename")
			case r < 70:
				ops = append(ops, c15KK(7, pick(sub), pick(sub)))
				ctx.Count("op_copy")
			case r < 77:
				ops = append(ops, c15K(8, pick(sub)))
				ctx.Count("op_logread")
			case r < 82:
				ops = append(ops, c15K(9, pick(allRemotes)))
				ctx.Count("op_delremote")
			case r < 88:
				ops = append(ops, c15KK(10, pick(allRemotes), pick(allRemotes)))
				ctx.Count("op_renremote")
			case r < 90:
				ops = append(ops, c15K(11, pick(c15Txids)))
				ctx.Count("op_deltx")
			case r < 94:
				k := ctx.Pick(4)
				arg := ""
				if k == 2 {
					arg = pick(allRemotes)
				} else if k == 3 {
					arg = pick(c15Txids)
				}
				ops = append(ops, c15List(k, arg))
				ctx.Count("op_listrefs")
			case r < 96:
				ops = append(ops, c15KK(13, pick(sub), pick(sub)))
				ctx.Count("op_renameref")
			case r < 98:
				ops = append(ops, c15KK(14, pick(sub), pick(sub)))
				ctx.Count("op_copyref")
			default:
				ops = append(ops, c15F(16, pickPs(2), pickPs(1)))
				ctx.Count("op_listlocal")
			}
		}
		ops = append(ops, c15F(4, nil, nil))
		for _, n := range sub {
			ops = append(ops, c15K(8, n))
		}
		add("rand", nops >= 2, c15Seq(ops...))
	}

	// ---- remotes whose name occurs inside a namespace literal: bulk rename / delete / list must go
	// by position (the prefix remotes/<name>/), never by searching for the name
	nsOld := append(append([]string{}, c15NsRemotes...), "a_b", "origin")
	nsNew := []string{"origin", "z", "o", "remotes", "s", "heads"}
	for i, old := range nsOld {
		for j, nw := range nsNew {
			if old == nw {
				continue
			}
			other := nsOld[(i+1)%len(nsOld)]
			pre := []*xt.T{
				c15SetLog("remotes/"+old+"/main", v[0], m[0]), c15Set("remotes/"+old+"/dev/x", v[1]),
				c15SetLog("remotes/"+old+"/"+old, v[2], m[1]), c15SetLog("remotes/"+old+"/main", v[1], m[2]),
				c15Set("remotes/"+other+"/main", v[2]), c15SetLog("heads/main", v[0], m[0]), c15Set("heads/"+old, v[1]),
				c15Set("tags/"+old, v[2]), c15List(2, old), c15KK(10, old, nw),
			}
			obsv := []*xt.T{c15F(5, nil, nil), c15List(2, old), c15List(2, nw), c15List(2, other), c15List(0, ""),
				c15K(2, "remotes/"+nw+"/main"), c15K(8, "remotes/"+nw+"/main"), c15K(8, "remotes/"+nw+"/"+old),
				c15K(8, "remotes/"+old+"/main"), c15K(9, nw), c15F(4, nil, nil), c15K(9, other), c15F(5, nil, nil)}
			add("nsrem", true, c15Seq(append(pre, obsv...)...))
			ctx.Count("nsrem_cases")
			// the same through the real commands on an on-disk repository (every 3rd pair in quick)
			if ctx.Thorough() || (i+j)%3 == 0 {
				cli := append(append([]*xt.T{}, pre[:len(pre)-1]...), c15KK(17, old, nw))
				cli = append(cli, obsv[:9]...)
				cli = append(cli, c15K(18, nw), c15F(4, nil, nil), c15K(18, other), c15F(5, nil, nil))
				add("cli", true, c15SeqKind(2, cli...))
				ctx.Count("cli_cases")
			}
		}
	}
	// random command sequences on the on-disk repository
	ncli := 40
	if ctx.Thorough() {
		ncli = 600
	}
	cliRemotes := append(append([]string{}, c15NsRemotes...), "a_b", "A_B", "acb", "a%", "origin", "a")
	for i := 0; i < ncli; i++ {
		rs := []string{}
		for j := 0; j < 2+ctx.Pick(3); j++ {
			rs = append(rs, pick(cliRemotes))
		}
		br := []string{"main", "dev/x", "o", "remotes", rs[0]}
		ops := []*xt.T{}
		for j := 0; j < 3+ctx.Pick(10); j++ {
			r := ctx.Pick(10)
			switch {
			case r < 4:
				ops = append(ops, c15SaveRef("remotes/"+pick(rs)+"/"+pick(br), v[ctx.Pick(len(v))], m[ctx.Pick(len(m))]))
			case r < 5:
				ops = append(ops, c15Set([]string{"heads/", "tags/"}[ctx.Pick(2)]+pick(rs), v[ctx.Pick(len(v))]))
			case r < 8:
				a, b := pick(rs), pick(cliRemotes)
				if a != b {
					ops = append(ops, c15KK(17, a, b))
					rs = append(rs, b)
					ctx.Count("op_cli_rename")
				}
			case r < 9:
				ops = append(ops, c15K(18, pick(rs)))
				ctx.Count("op_cli_remove")
			default:
				ops = append(ops, c15List(2, pick(rs)))
			}
		}
		ops = append(ops, c15F(4, nil, nil))
		for _, r := range rs {
			ops = append(ops, c15List(2, r), c15K(8, "remotes/"+r+"/main"))
		}
		add("cli", true, c15SeqKind(2, ops...))
		ctx.Count("cli_cases")
	}

	// ---- long logs (file store judged strictly, always run): 1..40 logged sets per name (more in
	// thorough), messages of every length so that the 1024-byte chunks of the backward line scanner
	// of pkg/ref/fs's LogReader are cut at every position of a line; logs carried by rename / copy
	fsNames := []string{"heads/main", "heads/dev", "remotes/o/main", "tags/v1", "heads/feat%_x", "remotes/remotes/main"}
	fsAuthors := []string{"John Doe", "a_b", "Jane", "o", "Zoë"}
	fsEmails := []string{"", "john@doe.com", "j@x", "x1@2.3"}
	fsActions := []string{"commit", "fetch", "merge", "x"}
	msgAlpha := []string{"a", "b", " ", ":", "0", "7", "<", ">", "%", "_", "é", "€", "[", "-"}
	nfs, maxLog, maxMsg := 60, 40, 130
	if ctx.Thorough() {
		nfs, maxLog, maxMsg = 1200, 150, 300
	}
	for i := 0; i < nfs; i++ {
		nn := 1 + ctx.Pick(3)
		ns := []string{}
		for len(ns) < nn {
			n := pick(fsNames)
			dup := false
			for _, x := range ns {
				dup = dup || x == n
			}
			if !dup {
				ns = append(ns, n)
			}
		}
		fresh := 0
		ops := []*xt.T{}
		cnt := map[string]int{}
		total := 1 + ctx.Pick(maxLog)
		msgBase := ctx.Pick(maxMsg) // per-case typical length, so that all line lengths occur
		for j := 0; j < total; j++ {
			k := ns[ctx.Pick(len(ns))]
			ml := msgBase + ctx.Pick(12)
			if ctx.Pick(8) == 0 {
				ml = ctx.Pick(maxMsg)
			}
			if ctx.Thorough() && ctx.Pick(60) == 0 {
				ml = 900 + ctx.Pick(1400) // a line longer than one chunk
			}
			msg := ""
			for len(msg) < ml {
				msg += pick(msgAlpha)
			}
			mt := c15Meta{pick(fsAuthors), pick(fsEmails), pick(fsActions), msg, nil}
			if ctx.Pick(5) == 0 {
				ops = append(ops, c15SaveRef(k, v[ctx.Pick(len(v))], mt))
			} else {
				ops = append(ops, c15SetLog(k, v[ctx.Pick(len(v))], mt))
			}
			cnt[k]++
			switch r := ctx.Pick(40); {
			case r < 3:
				ops = append(ops, c15K(8, k))
			case r < 5:
				ops = append(ops, c15Set(k, v[ctx.Pick(len(v))]))
			case r < 6:
				ops = append(ops, c15K(2, k))
			case r < 7 && cnt[k] > 2: // carry the log to a fresh name
				fresh++
				nk := fmt.Sprintf("heads/moved%d", fresh)
				ops = append(ops, c15KK(6+ctx.Pick(2), k, nk), c15K(8, nk), c15K(8, k))
				ns = append(ns, nk)
			case r < 8 && cnt[k] > 4:
				ops = append(ops, c15K(3, k), c15K(8, k))
				cnt[k] = 0
			}
		}
		for _, k := range ns {
			ops = append(ops, c15K(2, k), c15K(8, k))
		}
		ops = append(ops, c15F(5, nil, nil), c15F(4, []string{"heads/"}, nil))
		ctx.Count("fslog_cases")
		if total >= 8 {
			ctx.Count("fslog_cases_with_8_or_more_logged_sets")
		}
		add("fslog", total >= 2, c15SeqKind(3, ops...))
	}

	// ---- SQLite LIKE / instr against Like.v: exhaustive short strings + random with UTF-8
	la := []string{"a", "A", "_", "%", "b"}
	strs := func(n int) []string {
		out := []string{""}
		cur := []string{""}
		for i := 0; i < n; i++ {
			next := []string{}
			for _, s := range cur {
				for _, c := range la {
					next = append(next, s+c)
				}
			}
			out = append(out, next...)
			cur = next
		}
		return out
	}
	pl, sl := 2, 2
	if ctx.Thorough() {
		pl, sl = 3, 3
	}
	for _, p := range strs(pl) {
		for _, s := range strs(sl) {
			add("like", p != "", xt.N(xt.LI(1), xt.Str(p), xt.Str(s)))
		}
	}
	ua := []string{"a", "A", "b", "_", "%", "/", "é", "É", "€", "z", "Z", "@", "[", "`", "{"}
	nl := 300
	if ctx.Thorough() {
		nl = 5000
	}
	for i := 0; i < nl; i++ {
		mk := func(n int) string {
			s := ""
			for j := 0; j < n; j++ {
				s += pick(ua)
			}
			return s
		}
		p := mk(ctx.Pick(4))
		s := mk(ctx.Pick(6))
		if ctx.Pick(2) == 0 { // make matches likely: s = variation of p + tail
			s = ""
			for _, r := range p {
				switch ctx.Pick(4) {
				case 0:
					s += strings.ToUpper(string(r))
				case 1:
					s += pick(ua)
				default:
					s += string(r)
				}
			}
			s += mk(ctx.Pick(3))
		}
		add("like", true, xt.N(xt.LI(1), xt.Str(p), xt.Str(s)))
	}
	return cases
}

// ---------------------------------------------------------------------------
// running one op on a ref.Store

func c15Strs(t *xt.T) []string {
	if len(t.Kids) == 0 {
		return nil
	}
	ss := make([]string, len(t.Kids))
	for i, k := range t.Kids {
		ss[i] = string(k.AsBytes())
	}
	return ss
}

func c15ParseMeta(t *xt.T) c15Meta {
	m := c15Meta{
		author: string(t.Kids[0].AsBytes()), email: string(t.Kids[1].AsBytes()),
		action: string(t.Kids[2].AsBytes()), message: string(t.Kids[3].AsBytes()),
	}
	if len(t.Kids[4].Kids) == 1 {
		m.txid = t.Kids[4].Kids[0].AsBytes()
	}
	return m
}

var (
	c15ok    = func() *xt.T { return xt.N(xt.LI(0)) }
	c15err   = func() *xt.T { return xt.N(xt.LI(1)) }
	c15panic = func() *xt.T { return xt.N(xt.LI(2)) }
)

func c15E(err error) *xt.T {
	if err != nil {
		return c15err()
	}
	return c15ok()
}

func c15MapT(m map[string][]byte) *xt.T {
	keys := make([]string, 0, len(m))
	for k := range m {
		keys = append(keys, k)
	}
	sort.Strings(keys)
	l := xt.N()
	for _, k := range keys {
		l.Add(xt.N(xt.Str(k), xt.Bytes(m[k])))
	}
	return xt.N(xt.LI(4), l)
}

type c15Ent struct {
	old  []byte // nil = none
	new  []byte
	meta c15Meta
}

func c15EntT(e c15Ent, withTx bool) *xt.T {
	var old, tx *xt.T
	if e.old != nil {
		old = xt.Bytes(e.old)
	}
	if e.meta.txid != nil && withTx {
		tx = xt.Bytes(e.meta.txid)
	}
	return xt.N(xt.Opt(old), xt.Bytes(e.new), xt.Str(e.meta.author), xt.Str(e.meta.email),
		xt.Str(e.meta.action), xt.Str(e.meta.message), xt.Opt(tx))
}

func c15Reflog(v []byte, m c15Meta, old []byte) *ref.Reflog {
	rl := &ref.Reflog{OldOID: old, NewOID: v, AuthorName: m.author, AuthorEmail: m.email,
		Action: m.action, Message: m.message, Time: time.Unix(1700000000, 0)}
	if m.txid != nil {
		id, err := uuid.FromBytes(m.txid)
		if err != nil {
			panic(err)
		}
		rl.Txid = &id
	}
	return rl
}

// fsMode: reflog.OldOID is what SaveRef would pass (the current value); the SQL store gets a
// junk OldOID, which it must ignore (it re-reads the value in its transaction). txid is not
// stored by the file store and is dropped from its observation.
func c15Exec(s ref.Store, op *xt.T, fsMode bool) (obs *xt.T) {
	defer func() {
		if r := recover(); r != nil {
			obs = c15panic()
		}
	}()
	str := func(i int) string { return string(op.Kids[i].AsBytes()) }
	switch op.Kids[0].N {
	case 0:
		return c15E(s.Set(str(1), op.Kids[2].AsBytes()))
	case 1:
		old := c15Sum(0xEE)
		if fsMode {
			old, _ = s.Get(str(1))
		}
		v := op.Kids[2].AsBytes()
		return c15E(s.SetWithLog(str(1), v, c15Reflog(v, c15ParseMeta(op.Kids[3]), old)))
	case 2:
		v, err := s.Get(str(1))
		if err != nil {
			return c15err()
		}
		return xt.N(xt.LI(3), xt.Bytes(v))
	case 3:
		return c15E(s.Delete(str(1)))
	case 4:
		m, err := s.Filter(c15Strs(op.Kids[1]), c15Strs(op.Kids[2]))
		if err != nil {
			return c15err()
		}
		return c15MapT(m)
	case 5:
		keys, err := s.FilterKey(c15Strs(op.Kids[1]), c15Strs(op.Kids[2]))
		if err != nil {
			return c15err()
		}
		if fsMode {
			sort.Strings(keys)
		}
		return xt.N(xt.LI(5), xt.Strs(keys))
	case 6:
		return c15E(s.Rename(str(1), str(2)))
	case 7:
		return c15E(s.Copy(str(1), str(2)))
	case 8:
		r, err := s.LogReader(str(1))
		if err != nil {
			return c15err()
		}
		ents := xt.N()
		complete := true
		for i := 0; ; i++ {
			rl, err := r.Read()
			if err == io.EOF {
				break
			}
			if err != nil || i > 100000 {
				complete = false
				break
			}
			e := c15Ent{old: rl.OldOID, new: rl.NewOID, meta: c15Meta{author: rl.AuthorName, email: rl.AuthorEmail, action: rl.Action, message: rl.Message}}
			if rl.Txid != nil {
				e.meta.txid = (*rl.Txid)[:]
			}
			ents.Add(c15EntT(e, !fsMode))
		}
		r.Close()
		return xt.N(xt.LI(6), ents, xt.Bool(complete))
	case 9:
		return c15E(ref.DeleteAllRemoteRefs(s, str(1)))
	case 10:
		return c15E(ref.RenameAllRemoteRefs(s, str(1), str(2)))
	case 11:
		return c15E(ref.DeleteTransactionRefs(s, uuid.MustParse(str(1))))
	case 12:
		var m map[string][]byte
		var err error
		switch op.Kids[1].N {
		case 0:
			m, err = ref.ListHeads(s)
		case 1:
			m, err = ref.ListTags(s)
		case 2:
			m, err = ref.ListRemoteRefs(s, str(2))
		default:
			m, err = ref.ListTransactionRefs(s, uuid.MustParse(str(2)))
		}
		if err != nil {
			return c15err()
		}
		return c15MapT(m)
	case 13:
		v, err := ref.RenameRef(s, str(1), str(2))
		if err != nil {
			return c15err()
		}
		return xt.N(xt.LI(3), xt.Bytes(v))
	case 14:
		v, err := ref.CopyRef(s, str(1), str(2))
		if err != nil {
			return c15err()
		}
		return xt.N(xt.LI(3), xt.Bytes(v))
	case 15:
		m := c15ParseMeta(op.Kids[3])
		var tx *uuid.UUID
		if m.txid != nil {
			id, _ := uuid.FromBytes(m.txid)
			tx = &id
		}
		return c15E(ref.SaveRef(s, str(1), op.Kids[2].AsBytes(), m.author, m.email, m.action, m.message, tx))
	default:
		m, err := ref.ListLocalRefs(s, c15Strs(op.Kids[1]), c15Strs(op.Kids[2]))
		if err != nil {
			return c15err()
		}
		return c15MapT(m)
	}
}

var c15OpNames = []string{"set", "setlog", "get", "delete", "filter", "filterkey", "rename", "copy", "logread",
	"delremote", "renremote", "deltx", "listrefs", "renameref", "copyref", "saveref", "listlocal", "cli-remote-rename", "cli-remote-remove"}

// ---------------------------------------------------------------------------
// oracle: a plain map with per-name logs

type c15Oracle struct {
	refs map[string][]byte
	logs map[string][]c15Ent // oldest first
}

func c15Sel(ps, ns []string, k string) bool {
	ok := len(ps) == 0
	for _, p := range ps {
		if strings.HasPrefix(k, p) {
			ok = true
		}
	}
	for _, p := range ns {
		if strings.HasPrefix(k, p) {
			ok = false
		}
	}
	return ok
}

func (o *c15Oracle) keys(ps, ns []string) []string {
	keys := []string{}
	for k := range o.refs {
		if c15Sel(ps, ns, k) {
			keys = append(keys, k)
		}
	}
	sort.Strings(keys)
	return keys
}

func (o *c15Oracle) filter(ps, ns []string) map[string][]byte {
	m := map[string][]byte{}
	for _, k := range o.keys(ps, ns) {
		m[k] = o.refs[k]
	}
	return m
}

func (o *c15Oracle) setLog(k string, v []byte, m c15Meta) {
	o.logs[k] = append(o.logs[k], c15Ent{old: o.refs[k], new: v, meta: m})
	o.refs[k] = v
}

func (o *c15Oracle) del(k string) {
	delete(o.refs, k)
	delete(o.logs, k)
}

func (o *c15Oracle) rename(a, b string) bool {
	v, ok := o.refs[a]
	if _, exists := o.refs[b]; !ok || exists {
		return false
	}
	o.refs[b] = v
	if l, ok := o.logs[a]; ok {
		o.logs[b] = l
	}
	o.del(a)
	return true
}

func (o *c15Oracle) copy(a, b string) bool {
	v, ok := o.refs[a]
	if _, exists := o.refs[b]; !ok || exists {
		return false
	}
	o.refs[b] = v
	if l, ok := o.logs[a]; ok {
		o.logs[b] = append([]c15Ent{}, l...)
	}
	return true
}

func (o *c15Oracle) strip(p string) map[string][]byte {
	m := map[string][]byte{}
	for k, v := range o.refs {
		if strings.HasPrefix(k, p) {
			m[k[len(p):]] = v
		}
	}
	return m
}

func c15B(ok bool) *xt.T {
	if ok {
		return c15ok()
	}
	return c15err()
}

func (o *c15Oracle) exec(op *xt.T, withTx bool) *xt.T {
	str := func(i int) string { return string(op.Kids[i].AsBytes()) }
	switch op.Kids[0].N {
	case 0:
		o.refs[str(1)] = op.Kids[2].AsBytes()
		return c15ok()
	case 1, 15:
		o.setLog(str(1), op.Kids[2].AsBytes(), c15ParseMeta(op.Kids[3]))
		return c15ok()
	case 2:
		if v, ok := o.refs[str(1)]; ok {
			return xt.N(xt.LI(3), xt.Bytes(v))
		}
		return c15err()
	case 3:
		o.del(str(1))
		return c15ok()
	case 4:
		return c15MapT(o.filter(c15Strs(op.Kids[1]), c15Strs(op.Kids[2])))
	case 5:
		return xt.N(xt.LI(5), xt.Strs(o.keys(c15Strs(op.Kids[1]), c15Strs(op.Kids[2]))))
	case 6:
		return c15B(o.rename(str(1), str(2)))
	case 7:
		return c15B(o.copy(str(1), str(2)))
	case 8:
		l := o.logs[str(1)]
		if len(l) == 0 {
			return c15err()
		}
		ents := xt.N()
		for i := len(l) - 1; i >= 0; i-- {
			ents.Add(c15EntT(l[i], withTx))
		}
		return xt.N(xt.LI(6), ents, xt.Bool(true))
	case 9, 11, 18:
		p := "remotes/" + str(1) + "/"
		if op.Kids[0].N == 11 {
			p = "txs/" + str(1) + "/"
		}
		for _, k := range o.keys([]string{p}, nil) {
			o.del(k)
		}
		return c15ok()
	case 10, 17:
		// every ref of the old remote, in name order, moves to the same name under the new
		// remote; the first one that cannot move stops the operation with an error
		p, q := "remotes/"+str(1)+"/", "remotes/"+str(2)+"/"
		for _, k := range o.keys([]string{p}, nil) {
			if !o.rename(k, q+k[len(p):]) {
				return c15err()
			}
		}
		return c15ok()
	case 12:
		switch op.Kids[1].N {
		case 0:
			return c15MapT(o.strip("heads/"))
		case 1:
			return c15MapT(o.strip("tags/"))
		case 2:
			return c15MapT(o.strip("remotes/" + str(2) + "/"))
		default:
			return c15MapT(o.strip("txs/" + str(2) + "/"))
		}
	case 13:
		v := o.refs[str(1)]
		if !o.rename(str(1), str(2)) {
			return c15err()
		}
		return xt.N(xt.LI(3), xt.Bytes(v))
	case 14:
		v := o.refs[str(1)]
		if !o.copy(str(1), str(2)) {
			return c15err()
		}
		return xt.N(xt.LI(3), xt.Bytes(v))
	default:
		return c15MapT(o.filter(c15Strs(op.Kids[1]), append(c15Strs(op.Kids[2]), "remotes/")))
	}
}

// the oracle's state printed like the SQL dump below
func (o *c15Oracle) dump() string {
	var sb strings.Builder
	keys := o.keys(nil, nil)
	for _, k := range keys {
		fmt.Fprintf(&sb, "R %q %x\n", k, o.refs[k])
	}
	lk := []string{}
	for k := range o.logs {
		lk = append(lk, k)
	}
	sort.Strings(lk)
	for _, k := range lk {
		for i, e := range o.logs[k] {
			fmt.Fprintf(&sb, "L %q %d %x %x %q %q %q %q %x\n", k, i+1, e.old, e.new, e.meta.author, e.meta.email, e.meta.action, e.meta.message, e.meta.txid)
		}
	}
	return sb.String()
}

func c15DumpSQL(db *sql.DB) string {
	var sb strings.Builder
	rows, err := db.Query(`SELECT name, sum FROM refs ORDER BY name`)
	if err != nil {
		panic(err)
	}
	for rows.Next() {
		var k string
		var v []byte
		if err := rows.Scan(&k, &v); err != nil {
			panic(err)
		}
		fmt.Fprintf(&sb, "R %q %x\n", k, v)
	}
	rows.Close()
	rows, err = db.Query(`SELECT ref, ordinal, oldoid, newoid, authorname, authoremail, action, message, txid FROM reflogs ORDER BY ref, ordinal`)
	if err != nil {
		panic(err)
	}
	for rows.Next() {
		var k, an, ae, ac, msg string
		var ord int
		var old, nw, tx []byte
		if err := rows.Scan(&k, &ord, &old, &nw, &an, &ae, &ac, &msg, &tx); err != nil {
			panic(err)
		}
		fmt.Fprintf(&sb, "L %q %d %x %x %q %q %q %q %x\n", k, ord, old, nw, an, ae, ac, msg, tx)
	}
	rows.Close()
	return sb.String()
}

func c15OpenDB() *sql.DB {
	db, err := sql.Open("sqlite3", ":memory:")
	if err != nil {
		panic(err)
	}
	db.SetMaxOpenConns(1)
	for _, stmt := range refsql.CreateTableStmts {
		if _, err := db.Exec(stmt); err != nil {
			panic(err)
		}
	}
	return db
}

var c15LikeDB *sql.DB

func runC15(ctx *Ctx, c *xt.T) (*xt.T, Verdict) {
	if c.Kids[0].N == 1 {
		if c15LikeDB == nil {
			c15LikeDB = c15OpenDB()
		}
		p, s := string(c.Kids[1].AsBytes()), string(c.Kids[2].AsBytes())
		var like bool
		var pos int
		if err := c15LikeDB.QueryRow(`SELECT ? LIKE ?, instr(?, ?)`, s, p+"%", s, p).Scan(&like, &pos); err != nil {
			panic(err)
		}
		v := OK()
		if (pos == 1) != strings.HasPrefix(s, p) {
			v = Fail("sqlite-instr-not-prefix", "instr(%q,%q)=%d but HasPrefix=%v", s, p, pos, strings.HasPrefix(s, p))
		}
		return xt.N(xt.Bool(like), xt.Bool(pos == 1)), v
	}
	ops := c.Kids[1].Kids
	if c.Kids[0].N == 2 {
		return c15RunRepo(ctx, ops)
	}
	db := c15OpenDB()
	defer db.Close()
	s := refsql.NewStore(db)
	out, v := c15RunSQL(s, db, ops, nil)
	// thorough tier: the file store (slow: real files) runs on a third of the kind-0 cases
	if h := fnv.New32a(); c.Kids[0].N == 3 || !ctx.Thorough() || func() bool { h.Write([]byte(c.String())); return h.Sum32()%3 == 0 }() {
		if fv := c15RunFS(ctx, ops); v.OK && !fv.OK {
			v = fv
		}
	} else {
		ctx.Count("fs_sequences_not_run")
	}
	return out, v
}

// c15RunSQL runs the ops on a refsql.Store, judging every step against the plain-map oracle (result
// and tables read back through db).  special, if non-nil, executes the ops c15Exec does not know.
func c15RunSQL(s ref.Store, db *sql.DB, ops []*xt.T, special func(op *xt.T) *xt.T) (*xt.T, Verdict) {
	o := &c15Oracle{refs: map[string][]byte{}, logs: map[string][]c15Ent{}}
	out := xt.N()
	v := OK()
	for i, op := range ops {
		var got *xt.T
		if kind := op.Kids[0].N; kind >= 17 {
			if special == nil {
				panic("op 17/18 outside a kind-2 case")
			}
			got = special(op)
		} else {
			got = c15Exec(s, op, false)
		}
		want := o.exec(op, true)
		out.Add(got)
		if !v.OK {
			continue
		}
		kind := int(op.Kids[0].N)
		nm := "?"
		if kind < len(c15OpNames) {
			nm = c15OpNames[kind]
		}
		if got.String() != want.String() {
			cls := "refstore-" + nm + "-result"
			switch kind {
			case 4, 5, 12, 16:
				cls = "prefix-filter-not-literal"
			}
			v = Fail(cls, "op #%d %s: store returned %s, a plain map gives %s", i, op.String(), c15Short(got), c15Short(want))
			continue
		}
		if ds, do := c15DumpSQL(db), o.dump(); ds != do {
			cls := "refstore-" + nm + "-state"
			extra, missing := c15Diff(ds, do), c15Diff(do, ds)
			// a bulk operation that changed (or failed to keep) a name outside its literal prefix(es)
			str := func(i int) string { return string(op.Kids[i].AsBytes()) }
			var pfx []string
			switch kind {
			case 9, 18:
				pfx = []string{"remotes/" + str(1) + "/"}
			case 11:
				pfx = []string{"txs/" + str(1) + "/"}
			case 10, 17:
				pfx = []string{"remotes/" + str(1) + "/", "remotes/" + str(2) + "/"}
			}
			if pfx != nil && c15OutsidePrefixes(ds, do, pfx) {
				cls = "bulk-" + map[int]string{9: "delete", 11: "delete", 18: "delete", 10: "rename", 17: "rename"}[kind] + "-not-literal-prefix"
			}
			v = Fail(cls, "after op #%d %s the tables hold %s, a plain map holds %s", i, op.String(), extra, missing)
		}
	}
	return out, v
}

// c15RunRepo: a real repository directory (sqlite.db file created by pkg/local + migrations); the
// ref store is the one the commands use (RepoDir.OpenRefStore), ops 17/18 are the commands themselves.
func c15RunRepo(ctx *Ctx, ops []*xt.T) (*xt.T, Verdict) {
	os.Setenv("XDG_CONFIG_HOME", filepath.Join(ctx.Tmp, "xdg"))
	os.Setenv("HOME", filepath.Join(ctx.Tmp, "home"))
	root, err := os.MkdirTemp(c10ScratchBase(ctx), "c15")
	if err != nil {
		panic(err)
	}
	defer os.RemoveAll(root)
	wrglDir := filepath.Join(root, ".wrgl")
	rd, err := local.NewRepoDir(wrglDir, "")
	if err != nil {
		panic(err)
	}
	if err := rd.Init(); err != nil {
		panic(err)
	}
	defer rd.Close()
	db, err := sql.Open("sqlite3", filepath.Join(wrglDir, "sqlite.db"))
	if err != nil {
		panic(err)
	}
	defer db.Close()
	cs := conffs.NewStore(wrglDir, conffs.LocalSource, "")
	cfg := &conf.Config{User: &conf.User{Name: "John Doe", Email: "john@domain.com"}, Remote: map[string]*conf.Remote{}}
	if err := cs.Save(cfg); err != nil {
		panic(err)
	}
	special := func(op *xt.T) *xt.T {
		str := func(i int) string { return string(op.Kids[i].AsBytes()) }
		// `remote rename` exits the process for a remote the configuration does not know: keep
		// the configuration in step (a remote exists in it as soon as it is named by a command)
		cfg, err := cs.Open()
		if err != nil {
			panic(err)
		}
		if cfg.Remote == nil {
			cfg.Remote = map[string]*conf.Remote{}
		}
		if _, ok := cfg.Remote[str(1)]; !ok {
			cfg.Remote[str(1)] = &conf.Remote{URL: "http://localhost/" + fmt.Sprintf("%x", str(1))}
			if err := cs.Save(cfg); err != nil {
				panic(err)
			}
		}
		var outcome int
		if op.Kids[0].N == 17 {
			_, outcome = c10RunCmd(wrglDir, "remote", "rename", str(1), str(2))
		} else {
			_, outcome = c10RunCmd(wrglDir, "remote", "remove", str(1))
		}
		return xt.N(xt.LI(outcome))
	}
	return c15RunSQL(rd.OpenRefStore(), db, ops, special)
}

func c15Short(t *xt.T) string {
	s := t.String()
	if len(s) > 300 {
		s = s[:300] + "..."
	}
	return s
}

// does a line in which the two dumps differ concern a name outside all the given literal prefixes?
func c15OutsidePrefixes(a, b string, pfx []string) bool {
	differing := append(c15DiffLines(a, b), c15DiffLines(b, a)...)
	for _, l := range differing {
		inside := false
		for _, p := range pfx {
			q := strconv.Quote(p)
			if strings.HasPrefix(l[2:], q[:len(q)-1]) {
				inside = true
			}
		}
		if !inside {
			return true
		}
	}
	return false
}

func c15DiffLines(a, b string) []string {
	in := map[string]bool{}
	for _, l := range strings.Split(b, "\n") {
		in[l] = true
	}
	res := []string{}
	for _, l := range strings.Split(a, "\n") {
		if l != "" && !in[l] {
			res = append(res, l)
		}
	}
	return res
}

// lines of a that are not in b
func c15Diff(a, b string) string {
	in := map[string]bool{}
	for _, l := range strings.Split(b, "\n") {
		in[l] = true
	}
	res := []string{}
	for _, l := range strings.Split(a, "\n") {
		if l != "" && !in[l] {
			res = append(res, l)
		}
	}
	s := "{" + strings.Join(res, "; ") + "}"
	if len(s) > 400 {
		s = s[:400] + "...}"
	}
	return s
}

// ---------------------------------------------------------------------------
// the file store: same sequence.  Strict (verdict fs-*) inside c15FSDomain, counted outside.

// c15FSDomain decides, step by step, whether the file store can be expected to behave like the flat
// map: it keeps refs/<name> and logs/<name> as FILES under directories named by the name's path
// components, writes the reflog as one text line, lists by walking ONE directory, and checks no
// precondition of delete/rename/copy.  ever = every name that has been a file target so far
// (directories are never removed, so a conflict is for ever).
type c15FSDomain struct{ ever map[string]bool }

func c15CleanName(n string) bool {
	return n != "" && n != "." && path.Clean(n) == n && !strings.HasPrefix(n, "/") && n != ".." &&
		!strings.HasPrefix(n, "../") && !strings.ContainsAny(n, "\x00")
}

// nameOK: clean, and neither a directory of nor below any name ever written
func (d *c15FSDomain) nameOK(n string) bool {
	if !c15CleanName(n) {
		return false
	}
	for e := range d.ever {
		if e != n && (strings.HasPrefix(e, n+"/") || strings.HasPrefix(n, e+"/")) {
			return false
		}
	}
	return true
}

// what ref.Reflog.WriteTo / Read (one text line "old new author <email> time action: message") can carry
func c15MetaTextOK(m c15Meta) bool {
	noNL := func(s string) bool { return !strings.ContainsAny(s, "\n\r") }
	tail := func(s string) string {
		if s == "" {
			return ""
		}
		return s[1:]
	}
	return m.author != "" && noNL(m.author) && !strings.ContainsAny(tail(m.author), "<0123456789") &&
		noNL(m.email) && !strings.Contains(tail(m.email), ">") &&
		m.action != "" && noNL(m.action) && !strings.Contains(tail(m.action), ":") && noNL(m.message)
}

// inDomain reports whether the step is inside the sub-domain given the map's state BEFORE the step,
// and whether the step mutates (a mutating step outside the sub-domain ends strict judgement).
func (d *c15FSDomain) inDomain(op *xt.T, o *c15Oracle) (in bool, mutating bool) {
	str := func(i int) string { return string(op.Kids[i].AsBytes()) }
	has := func(k string) bool { _, ok := o.refs[k]; return ok }
	dirQuery := func(ps, ns []string) bool {
		if len(ns) > 0 || len(ps) > 1 {
			return false
		}
		return len(ps) == 0 || ps[0] == "" || (strings.HasSuffix(ps[0], "/") && c15CleanName(strings.TrimSuffix(ps[0], "/")))
	}
	moveOK := func(a, b string, needLog bool) bool {
		if !c15CleanName(a) || !c15CleanName(b) {
			return false
		}
		if !has(a) {
			return true // both fail, nothing changes
		}
		return !has(b) && d.nameOK(b) && (!needLog || len(o.logs[a]) > 0)
	}
	switch op.Kids[0].N {
	case 0:
		return d.nameOK(str(1)), true
	case 1, 15:
		return d.nameOK(str(1)) && c15MetaTextOK(c15ParseMeta(op.Kids[3])), true
	case 2:
		return c15CleanName(str(1)), false
	case 3:
		return has(str(1)), true
	case 4, 5:
		return dirQuery(c15Strs(op.Kids[1]), c15Strs(op.Kids[2])), false
	case 6, 13:
		return moveOK(str(1), str(2), false), true
	case 7, 14:
		return moveOK(str(1), str(2), true), true
	case 8:
		return d.nameOK(str(1)), false
	case 9:
		return c15CleanName(str(1)), true
	case 11:
		return true, true
	case 10:
		a, b := str(1), str(2)
		if !c15CleanName(a) || !c15CleanName(b) {
			return false, true
		}
		p, q := "remotes/"+a+"/", "remotes/"+b+"/"
		keys := o.keys([]string{p}, nil)
		if len(keys) == 0 {
			return true, true
		}
		// the file store walks breadth-first, not in name order, and overwrites: only a rename
		// whose every destination is free (order-independent, cannot fail) is comparable
		if strings.HasPrefix(p, q) || strings.HasPrefix(q, p) {
			return false, true
		}
		for _, k := range keys {
			if dst := q + k[len(p):]; has(dst) || !d.nameOK(dst) {
				return false, true
			}
		}
		return true, true
	case 12:
		if op.Kids[1].N == 2 {
			return c15CleanName(str(2)), false
		}
		return true, false
	default: // ListLocalRefs: notPrefixes are ignored by the file store
		return false, false
	}
}

// note records the names the step may have created files or directories for
func (d *c15FSDomain) note(op *xt.T, o *c15Oracle, keysBefore []string) {
	str := func(i int) string { return string(op.Kids[i].AsBytes()) }
	switch op.Kids[0].N {
	case 0, 1, 15:
		d.ever[str(1)] = true
	case 6, 7, 13, 14:
		d.ever[str(2)] = true
	case 10:
		p, q := "remotes/"+str(1)+"/", "remotes/"+str(2)+"/"
		for _, k := range keysBefore {
			if strings.HasPrefix(k, p) {
				d.ever[q+k[len(p):]] = true
			}
		}
	}
}

var c15FSSeen = map[string]bool{}

func c15RunFS(ctx *Ctx, ops []*xt.T) Verdict {
	dir := filepath.Join(ctx.Tmp, "c15fs")
	os.RemoveAll(dir)
	defer os.RemoveAll(dir)
	s := reffs.NewStore(dir)
	o := &c15Oracle{refs: map[string][]byte{}, logs: map[string][]c15Ent{}}
	dom := &c15FSDomain{ever: map[string]bool{}}
	strict := true
	diverged := false
	for i, op := range ops {
		kind := int(op.Kids[0].N)
		in, mutating := dom.inDomain(op, o)
		if strict && !in && mutating {
			strict = false
			ctx.Count("fs_strict_ends_at_" + c15OpNames[kind])
		}
		keysBefore := o.keys(nil, nil)
		got := c15Exec(s, op, true)
		want := o.exec(op, false)
		dom.note(op, o, keysBefore)
		if got.String() == want.String() {
			ctx.Count("fs_steps_agree")
			if strict && in {
				ctx.Count("fs_steps_strict_ok")
			}
			continue
		}
		if strict && in {
			return Fail("fs-"+c15OpNames[kind], "file store, op #%d %s (inside the flat-map sub-domain): store returned %s, a plain map gives %s",
				i, op.String(), c15Short(got), c15Short(want))
		}
		how := "value"
		g, w := got.Kids[0].N, want.Kids[0].N
		switch {
		case g == 1 && w != 1:
			how = "err_where_map_ok"
		case g != 1 && w == 1:
			how = "ok_where_map_err"
		case g == 2:
			how = "panic"
		}
		cls := "fs_diff_" + c15OpNames[kind] + "_" + how
		readOnly := !mutating
		switch kind {
		case 4, 5, 16:
			// the file store walks the directory named by the FIRST prefix and ignores the rest
			// and all notPrefixes: only a single prefix that is "" or ends in "/" is comparable
			ps, ns := c15Strs(op.Kids[1]), c15Strs(op.Kids[2])
			if kind == 16 || len(ns) > 0 || len(ps) > 1 || (len(ps) == 1 && ps[0] != "" && !strings.HasSuffix(ps[0], "/")) {
				cls = "fs_diff_" + c15OpNames[kind] + "_not_a_directory_query"
			}
		}
		ctx.Count(cls)
		if !c15FSSeen[cls] && os.Getenv("C15_FS_VERBOSE") != "" {
			c15FSSeen[cls] = true
			fmt.Fprintf(os.Stderr, "%s: op %s got %s want %s\n   seq %s\n", cls, op.String(), c15Short(got), c15Short(want), xt.N(ops...).String())
		}
		diverged = true
		if !readOnly {
			ctx.Count("fs_sequences_state_diverged")
			return OK() // the states have diverged; later differences would be consequences
		}
	}
	if strict {
		ctx.Count("fs_sequences_strict_to_the_end")
	}
	if diverged {
		ctx.Count("fs_sequences_read_differences_only")
		return OK()
	}
	ctx.Count("fs_sequences_agreeing")
	return OK()
}
