package main

import (
	"bytes"
	"database/sql"
	"encoding/json"
	"fmt"
	"io"
	"net/http"
	"net/http/httptest"
	"runtime"
	"runtime/debug"
	"strings"
	"time"

	"github.com/go-logr/logr"
	apiclient "github.com/wrgl/wrgl/pkg/api/client"
	"github.com/wrgl/wrgl/pkg/api/payload"
	apiutils "github.com/wrgl/wrgl/pkg/api/utils"
	"github.com/wrgl/wrgl/pkg/encoding/packfile"
	"github.com/wrgl/wrgl/pkg/objects"
	objmock "github.com/wrgl/wrgl/pkg/objects/mock"
	"github.com/wrgl/wrgl/pkg/pbar"
	"github.com/wrgl/wrgl/pkg/ref"
	refsql "github.com/wrgl/wrgl/pkg/ref/sql"

	"verifharness/xt"
)

// C17, JSON replies of a remote ("an adversarial reply cannot take down or exhaust the client"):
//   case = (40 bytes)          payload.Hex.UnmarshalJSON(bytes)   obs (0 sum16) | (1) | (2); modelled
//   case = (41 bytes t)        json.Unmarshal(bytes, new(T)) for the reply types the client decodes
//   case = (42 bytes m status) client call m against an httptest server that answers every request
//                              with `bytes` (Content-Type application/json, HTTP status `status`);
//                              the two sessions get the hostile reply first, then an empty packfile
//   obs for 41 / 42 = (0) returned | (2) panicked (encoding/json and net/http are not modelled).
// Oracle: no panic, allocation <= 64*len + 1 MiB (41) / 16 MiB (42: HTTP stack), returns in 60 s.

var c17JSONTypes = []func() interface{}{
	func() interface{} { return &payload.UploadPackResponse{} },
	func() interface{} { return &payload.ReceivePackResponse{} },
	func() interface{} { return &payload.GetRefsResponse{} },
	func() interface{} { return &payload.Commit{} },
	func() interface{} { return &payload.GetCommitsResponse{} },
	func() interface{} { return &payload.CommitResponse{} },
	func() interface{} { return &payload.DiffResponse{} },
	func() interface{} { return &payload.GetTableResponse{} },
	func() interface{} { return &payload.CreateTransactionResponse{} },
	func() interface{} { return &payload.GetTransactionResponse{} },
	func() interface{} { return &payload.Error{} },
	func() interface{} { return &objects.TableProfile{} },
}

// templates of the replies; @H hex sum, @S string, @N number, @B bool, @T time
var c17JSONTemplates = []string{
	`{"acks":[@H,@H],"tableHaves":[@H]}`,
	`{"updates":{"heads/main":{"sum":@H,"oldSum":@H,"errMsg":@S}},"tableACKs":[@H]}`,
	`{"refs":{"heads/main":@H,"tags/v1":@H}}`,
	`{"sum":@H,"authorName":@S,"authorEmail":@S,"message":@S,"table":{"sum":@H,"columns":[@S],"pk":[@N],"rowsCount":@N,"exist":@B},"time":@T,"parents":[@H],"parentCommits":{"x":{"sum":@H}}}`,
	`{"sum":@H,"root":{"sum":@H,"parents":[@H,@H],"time":@T}}`,
	`{"sum":@H,"table":@H}`,
	`{"tableSum":@H,"oldTableSum":@H,"oldPK":[@N],"pk":[@N],"oldColumns":[@S],"columns":[@S],"rowDiff":[{"off1":@N,"off2":@N}]}`,
	`{"columns":[@S,@S],"pk":[@N],"rowsCount":@N}`,
	`{"id":@S}`,
	`{"status":@S,"begin":@T,"end":@T,"branches":[{"name":@S,"currentSum":@S,"newSum":@S}]}`,
	`{"message":@S,"csv":{"startLine":@N,"line":@N,"column":@N}}`,
	`{"rowsCount":@N,"columns":[{"name":@S,"naCount":@N,"min":@N,"max":@N,"topValues":[{"v":@S,"c":@N}],"percentiles":[@N]}]}`,
}

var c17JSONValid = map[string]string{
	"@H": `"000102030405060708090a0b0c0d0e0f"`, "@S": `"s"`, "@N": `1`, "@B": `true`, "@T": `"2022-01-02T03:04:05Z"`,
}

// hostile replacements of one value
var c17JSONHostile = []string{
	`null`, `1`, `-1`, `1e400`, `1.5`, `true`, `[]`, `[1]`, `{}`, `{"a":null}`, `""`, `"`, `"zz"`, `"0"`, `"abc"`,
	`"000102030405060708090a0b0c0d0e"`, `"000102030405060708090a0b0c0d0e0"`, `"000102030405060708090a0b0c0d0e0f0"`,
	`"000102030405060708090a0b0c0d0e0f00"`, `"000102030405060708090a0b0c0d0e0f000102030405060708090a0b0c0d0e0f"`,
	`"000102030405060708090A0B0C0D0E0F"`, `"000102030405060700090a0b0c0d0e0f"`, `"g00102030405060708090a0b0c0d0e0f"`,
	`4294967296`, `18446744073709551616`, `"2022-13-45T99:99:99Z"`, `[[[[[[[[[[1]]]]]]]]]]`,
}

func c17JSONFill(tmpl string, which int, repl string) string {
	var sb strings.Builder
	k := 0
	for i := 0; i < len(tmpl); i++ {
		if tmpl[i] == '@' && i+1 < len(tmpl) {
			ph := tmpl[i : i+2]
			if k == which {
				sb.WriteString(repl)
			} else {
				sb.WriteString(c17JSONValid[ph])
			}
			k++
			i++
			continue
		}
		sb.WriteByte(tmpl[i])
	}
	return sb.String()
}

func c17JSONDocs(ctx *Ctx, t int) []string {
	tmpl := c17JSONTemplates[t]
	nph := strings.Count(tmpl, "@")
	valid := c17JSONFill(tmpl, -1, "")
	docs := []string{valid}
	for w := 0; w < nph; w++ {
		for _, h := range c17JSONHostile {
			docs = append(docs, c17JSONFill(tmpl, w, h))
		}
	}
	for cut := 0; cut < len(valid); cut++ { // truncated documents
		docs = append(docs, valid[:cut])
	}
	docs = append(docs, `null`, `1`, `[]`, `"x"`, `{`, `[`, `{"":`, `{"acks":[1]}`, `{"refs":[1]}`, `{"updates":[]}`,
		`{"updates":{"a":null}}`, `{"updates":{"a":1}}`, `{"refs":{"a":null}}`, `{"acks":null,"tableHaves":null}`,
		`{"acks":[null],"tableHaves":[null]}`, `{"tableACKs":[null]}`, `{"parents":[null]}`, `{"parentCommits":{"a":null}}`,
		strings.Repeat("[", 20000), strings.Repeat(`{"a":`, 20000), `{"message":1}`, `x`,
		`{"acks":[`+strings.Repeat(`"000102030405060708090a0b0c0d0e0f",`, 5000)+`"00"]}`,
		`{"refs":{`+strings.Repeat(`"k":"000102030405060708090a0b0c0d0e0f",`, 3000)+`"z":null}}`)
	return docs
}

// c17Panics runs f under recover and reports the panic value and stack.
func c17Panics(limit time.Duration, f func()) (msg, stack string, alloc uint64, timedOut bool) {
	type res struct{ msg, stack string }
	ch := make(chan res, 1)
	var m0, m1 runtime.MemStats
	runtime.ReadMemStats(&m0)
	go func() {
		defer func() {
			if r := recover(); r != nil {
				ch <- res{fmt.Sprint(r), string(debug.Stack())}
			}
		}()
		f()
		ch <- res{}
	}()
	select {
	case r := <-ch:
		msg, stack = r.msg, r.stack
	case <-time.After(limit):
		return "", "", 0, true
	}
	runtime.ReadMemStats(&m1)
	return msg, stack, m1.TotalAlloc - m0.TotalAlloc, false
}

func c17RunHex(b []byte) (*xt.T, Verdict) {
	obs, pmsg, _, _ := c17Guarded(true, func() *xt.T {
		var h payload.Hex
		if err := h.UnmarshalJSON(b); err != nil {
			return c17Err()
		}
		return c18Ok(xt.Bytes(h[:]))
	})
	if pmsg != "" {
		return obs, Fail("hex-json-panic", "Hex.UnmarshalJSON panicked on %q: %s", b, pmsg)
	}
	return obs, OK()
}

func c17RunJSON(b []byte, t int) (*xt.T, Verdict) {
	msg, _, alloc, timedOut := c17Panics(60*time.Second, func() { json.Unmarshal(b, c17JSONTypes[t]()) })
	if alloc > c17Budget(len(b)) && msg == "" && !timedOut { // confirm (see c17GuardedMin)
		if m2, _, a2, t2 := c17Panics(60*time.Second, func() { json.Unmarshal(b, c17JSONTypes[t]()) }); m2 != "" || t2 || a2 < alloc {
			msg, alloc, timedOut = m2, a2, t2
		}
	}
	switch {
	case timedOut:
		return xt.N(xt.LI(3)), Fail("json-reply-timeout", "json.Unmarshal into reply type %d did not return", t)
	case msg != "":
		return xt.N(xt.LI(2)), Fail("json-reply-panic", "json.Unmarshal into reply type %d panicked on %.200q: %s", t, b, msg)
	case alloc > c17Budget(len(b)):
		return xt.N(xt.LI(0)), Fail("json-reply-alloc", "json.Unmarshal into reply type %d allocated %d bytes for %d input bytes", t, alloc, len(b))
	}
	return xt.N(xt.LI(0)), OK()
}

func c17MemRefStore() (ref.Store, func()) {
	db, err := sql.Open("sqlite3", ":memory:")
	if err != nil {
		panic(err)
	}
	db.SetMaxOpenConns(1)
	for _, stmt := range refsql.CreateTableStmts {
		if _, err := db.Exec(stmt); err != nil {
			panic(err)
		}
	}
	return refsql.NewStore(db), func() { db.Close() }
}

const c17ClientCalls = 13

// c17ClientCall performs one client operation against origin.
func c17ClientCall(m int, origin string) {
	c, err := apiclient.NewClient(origin, logr.Discard())
	if err != nil {
		panic(err)
	}
	sum := make([]byte, 16)
	switch m {
	case 0:
		c.GetRefs(nil, nil)
	case 1:
		c.GetHead("main")
	case 2:
		c.GetCommits("heads/main", 2)
	case 3:
		c.GetCommit(sum)
	case 4:
		c.GetTable(sum)
	case 5:
		c.GetCommitProfile(sum)
	case 6:
		c.GetTableProfile(sum)
	case 7:
		c.Diff(sum, sum)
	case 8:
		c.CreateTransaction(nil)
	case 9:
		c.GetTransaction([16]byte{})
	case 10:
		c.PostUploadPack(&payload.UploadPackRequest{})
	case 11: // fetch negotiation
		db := objmock.NewStore()
		rs, done := c17MemRefStore()
		defer done()
		ses, err := apiclient.NewUploadPackSession(db, rs, c, [][]byte{bytes.Repeat([]byte{7}, 16)})
		if err != nil {
			panic(err)
		}
		ses.Start()
	default: // push negotiation of one local commit
		db := objmock.NewStore()
		rs, done := c17MemRefStore()
		defer done()
		tb, objs, _ := c17TableFor([]string{"a"}, []uint32{0}, [][][]string{{{"1"}}})
		com := &objects.Commit{Table: c17Meow(tb), AuthorName: "a", AuthorEmail: "b", Message: "m", Time: time.Unix(1600000000, 0)}
		cb := bytes.NewBuffer(nil)
		com.WriteTo(cb)
		pr, _ := packfile.NewPackfileReader(io.NopCloser(bytes.NewReader(c17Pack(append(append(objs, c17Obj{packfile.ObjectTable, tb}), c17Obj{packfile.ObjectCommit, cb.Bytes()})))))
		if _, err := apiutils.NewObjectReceiver(db, nil, logr.Discard()).Receive(pr, nil); err != nil {
			panic(err)
		}
		csum := payload.Hex{}
		copy(csum[:], c17Meow(cb.Bytes()))
		if err := ref.CommitHead(rs, "main", csum[:], com, nil); err != nil {
			panic(err)
		}
		ses, err := apiclient.NewReceivePackSession(db, rs, c, map[string]*payload.Update{"heads/main": {Sum: &csum}}, nil, 0)
		if err != nil {
			panic(err)
		}
		ses.Start(pbar.NewContainer(io.Discard, true))
	}
}

func c17RunClient(body []byte, m, status int) (*xt.T, Verdict) {
	n := 0
	srv := httptest.NewServer(http.HandlerFunc(func(w http.ResponseWriter, r *http.Request) {
		io.Copy(io.Discard, r.Body)
		n++
		if m >= 11 && n > 1 {
			// after the hostile reply the sessions get an empty packfile, then errors
			if n == 2 && m == 11 {
				w.Header().Set("Content-Type", apiclient.CTPackfile)
				w.Write([]byte("PACK\x00\x00\x00\x01"))
				return
			}
			w.WriteHeader(http.StatusTeapot)
			return
		}
		w.Header().Set("Content-Type", apiclient.CTJSON)
		w.WriteHeader(status)
		w.Write(body)
	}))
	defer srv.Close()
	msg, stack, alloc, timedOut := c17Panics(60*time.Second, func() { c17ClientCall(m, srv.URL) })
	switch {
	case timedOut:
		return xt.N(xt.LI(3)), Fail("client-reply-timeout", "client call %d did not return within 60s on reply %.200q", m, body)
	case msg != "":
		class := "client-reply-panic"
		switch {
		case strings.Contains(stack, "NewHTTPError"):
			class = "client-panic-http-error-body"
		case strings.Contains(msg, "nil pointer") && bytes.Contains(body, []byte("null")):
			class = "client-panic-null-hex"
		}
		return xt.N(xt.LI(2)), Fail(class, "client call %d panicked on reply (status %d) %.200q: %s", m, status, body, msg)
	case alloc > 64*uint64(len(body))+16<<20:
		return xt.N(xt.LI(0)), Fail("client-reply-alloc", "client call %d allocated %d bytes for a %d-byte reply", m, alloc, len(body))
	}
	return xt.N(xt.LI(0)), OK()
}

// which reply type each client call decodes (index into c17JSONTemplates)
var c17ClientReply = []int{2, 3, 4, 3, 7, 11, 11, 6, 8, 9, 0, 0, 1}

func c17GenJSON(ctx *Ctx, add func(tag string, nt bool, c *xt.T)) {
	for _, h := range c17JSONHostile {
		add("hex-json", true, xt.N(xt.LI(40), xt.Str(h)))
	}
	for _, d := range []string{``, `"`, `""`, `"0`, `0"`, `"00"`, `"0g"`, `"000102030405060708090a0b0c0d0e0f"`} {
		add("hex-json", len(d) > 0, xt.N(xt.LI(40), xt.Str(d)))
	}
	for n := 0; n <= 70; n++ { // every length around the 32-character boundary
		add("hex-json", true, xt.N(xt.LI(40), xt.Str(`"`+strings.Repeat("a", n)+`"`)))
	}
	for t := range c17JSONTypes {
		for _, d := range c17JSONDocs(ctx, t) {
			add("json-reply", true, xt.N(xt.LI(41), xt.Str(d), xt.LI(t)))
		}
	}
	// client calls: every call gets the hostile variants of the reply it decodes; quick tier
	// takes a sample of the truncations
	for m := 0; m < c17ClientCalls; m++ {
		docs := c17JSONDocs(ctx, c17ClientReply[m])
		for i, d := range docs {
			if !ctx.Thorough() && len(docs) > 120 && i%((len(docs)+119)/120) != 0 && !strings.Contains(d, "null") {
				continue
			}
			add("client-reply", true, xt.N(xt.LI(42), xt.Str(d), xt.LI(m), xt.LI(200)))
		}
		// error replies: status 500 / 401 with application/json bodies
		for _, d := range []string{`{"message":"boom"}`, `{"message":1}`, `x`, ``, `null`, `[]`, `{"csv":1}`, `{"message":"a","csv":{"line":"x"}}`} {
			for _, st := range []int{500, 400, 401, 404} {
				add("client-error-reply", true, xt.N(xt.LI(42), xt.Str(d), xt.LI(m), xt.LI(st)))
			}
		}
	}
}
